import Knut.Generated.TransImportSwisscard
import Knut.FactsAgree.TransImportSupercard
/-!
# The translated per-record functions of `ch.swisscard` agree with `Model/Import/Cards.lean`

`cmd/importer/swisscard/swisscard.go`: `(*parser).readLine`, `parseBooking`, regenerated into `Knut/Generated/TransImportSwisscard.lean`
on every run (`harness/trans_units_import.go`).  What stays outside the translation: the `csv.Reader` (the result of `p.reader.Read()`
is the parameter `ext1 : List String × Option Error`), the loop of `parse`, flags and cobra wiring; the registry calls
`p.registry.Commodities().Get("CHF")` and `p.registry.Accounts().TBDAccount()` are parameters (their RESULTS).

| Go | theorem | model |
|---|---|---|
| prelude `Regexp.matchDate` (the package-level `regexp.MustCompile("\\d\\d.\\d\\d.\\d\\d\\d\\d")`, `.MatchString`; `GoSem/ImportStr.lean`) | `dateReHere_model`, `anySuffix_model`, `matchDate_model` | `Import.dateRe` (the copy is the original; stream `lib-str` of C13) |
| prelude `Strings.TrimSpace` | `TrimSpace_model` | `Import.trimSpace` |
| prelude `Strings.replaceChfApos` (the package-level `strings.NewReplacer("CHF", "", "'", "")`, `.Replace`) | `replaceChfAposChars_model`, `replaceChfApos_model` | `Import.Swisscard.stripChf` |
| the loop `for _, i := range []int{2, 4, 5, 6, 7, 8} { s := strings.TrimSpace(r[i]); if len(s) > 0 { words = append(words, s) } }` | `wordsBody_ok`, `words_loop` | `(… .map (trimSpace (fldD r ·))).filter (·.utf8ByteSize > 0)` |
| `parser.parseBooking` on eleven fields, both dates matching | `parseBooking_11` | `booking` = the tail of `Import.Swisscard.row` (`row_booking`) |
| `parser.readLine` | **`readLine_agrees`**, `readLine_reader_error` | `Import.Swisscard.row` |

`readLine_agrees`: for EVERY record the reader returns without error.  The reader runs with `FieldsPerRecord = 0`: a record whose field
count differs from the first record's is a reader error (`readLine_reader_error`: returned unchanged; the model's `r.length ≠ n`), so
the model's `n` is the length of the record.  With `ext2` the result of `Get("CHF")` (the interned commodity, no error: the name is
valid) and `ext3` the TBD account: where the model's `row` answers `ok ds` (a record whose first or second field does not match the
date pattern: nothing; a booking: one transaction) the translated function returns a nil error, the parser's account untouched and a
builder that stands for the model's builder with `ds` added (`BEquiv`); where it answers `error` (both dates match but the record has
another length than eleven; date or amount does not parse) the translated function returns an error (which is not `io.EOF`: the
loop of `parse` does not take it for the end of the file) and the parser unchanged; where
it answers `panic` (no field: `r[0]`; one field that matches the pattern: `r[1]`) the translated function panics with Go's index panic.
Full agreement: no case is left out.
-/
namespace Knut.FactsAgree.TransImportSwisscard
open Knut Knut.GoSem
open Knut.Generated.Go
open Knut.FactsAgree.TransAccount Knut.FactsAgree.TransPosting Knut.FactsAgree.TransTransaction
open Knut.FactsAgree.TransProcess (AllRel TRel TRel_txGo)
open Knut.FactsAgree.TransJournal
open Knut.FactsAgree.TransImportSwisscard2 (parseDMYdot_model newFromString_model)
open Knut.FactsAgree.TransImportSupercard (byteLen_pos_size fldD_get)

theorem dateReHere_model (cs : List Char) : Regexp.dateReHere cs = Import.dateReHere cs := by
  unfold Regexp.dateReHere Import.dateReHere
  split
  · rfl
  · rename_i h
    split
    · rename_i a b x c d y e f g hh tail
      exact absurd rfl (h a b x c d y e f g hh tail)
    · rfl

theorem anySuffix_model (cs : List Char) : Regexp.anySuffix Regexp.dateReHere cs = Import.anySuffix Import.dateReHere cs := by
  induction cs with
  | nil => simp [Regexp.anySuffix, Import.anySuffix, dateReHere_model]
  | cons c cs ih => simp [Regexp.anySuffix, Import.anySuffix, dateReHere_model, ih]

theorem matchDate_model (s : String) : Regexp.matchDate s = Import.dateRe s := anySuffix_model _

theorem TrimSpace_model (s : String) : Strings.TrimSpace s = Import.trimSpace s := rfl

theorem replaceChfAposChars_model (cs : List Char) : Strings.replaceChfAposChars cs = Import.Swisscard.stripChf cs := by
  fun_induction Import.Swisscard.stripChf cs with
  | case1 => rw [Strings.replaceChfAposChars]
  | case2 rest ih => rw [Strings.replaceChfAposChars, ih]
  | case3 rest ih => rw [Strings.replaceChfAposChars, ih]
  | case4 c rest h1 h2 ih => rw [Strings.replaceChfAposChars, ih] <;> simp_all

theorem replaceChfApos_model (s : String) : Strings.replaceChfApos s = String.ofList (Import.Swisscard.stripChf s.toList) := by
  unfold Strings.replaceChfApos; rw [replaceChfAposChars_model]

theorem join_model (ws : List String) : Strings.Join ws " " = Import.joinWith " " ws := rfl

theorem len9 {r : List String} (h : r.length = 9) :
    ∃ f2 f3 f4 f5 f6 f7 f8 f9 f10, r = [f2, f3, f4, f5, f6, f7, f8, f9, f10] := by
  rcases r with _ | ⟨f2, _ | ⟨f3, _ | ⟨f4, _ | ⟨f5, _ | ⟨f6, _ | ⟨f7, _ | ⟨f8, _ | ⟨f9, _ | ⟨f10, _ | ⟨f11, r⟩⟩⟩⟩⟩⟩⟩⟩⟩⟩ <;>
    simp at h
  exact ⟨_, _, _, _, _, _, _, _, _, rfl⟩

/-- one round of the loop `if len(s) > 0 { words = append(words, s) }` -/
theorem words_step (ws : List String) (s : String) :
    (if decide (Strings.byteLen s > 0) = true then ws ++ [s] else ws) = ws ++ [s].filter (fun s => decide (s.utf8ByteSize > 0)) := by
  rw [byteLen_pos_size]
  by_cases h : s.utf8ByteSize > 0 <;> simp [h]

theorem words_step' (ws : List String) (s : String) :
    (if 0 < Strings.byteLen s then ws ++ [s] else ws) = ws ++ [s].filter (fun s => decide (s.utf8ByteSize > 0)) := by
  rw [← words_step]; simp

theorem filter_cons_app (p : String → Bool) (a : String) (l : List String) : (a :: l).filter p = [a].filter p ++ l.filter p := by
  simp only [List.filter_cons]; split <;> simp

/-- the body of the loop `for _, i := range []int{…} { s := strings.TrimSpace(r[i]); if len(s) > 0 { words = append(words, s) } }`
(as generated) -/
abbrev wordsBody (r : List String) : List String → Int → GoSem.Outcome (List String) :=
  fun (st4 : (List String)) (el5 : Int) =>
    let words : (List String) := st4
    let i : Int := el5
    GoSem.Outcome.bind (index r i) (fun t7 =>
      let s : String := (Strings.TrimSpace t7)
      let words : (List String) :=
        if (decide ((Strings.byteLen s) > (0 : Int))) then
          let words : (List String) := (words ++ [s])
          words
        else
          words
      GoSem.Outcome.ok words)

theorem wordsBody_ok (r ws : List String) (i : Int) (v : String) (h : index r i = .ok v) :
    wordsBody r ws i = .ok (ws ++ [Import.trimSpace v].filter (fun s => decide (s.utf8ByteSize > 0))) := by
  have hb := byteLen_pos_size (Import.trimSpace v)
  simp only [wordsBody, h, GoSem.Outcome.bind, TrimSpace_model]
  by_cases hh : (Import.trimSpace v).utf8ByteSize > 0
  · have : Strings.byteLen (Import.trimSpace v) > 0 := by simpa [hh] using hb
    simp [hh, this]
  · have : ¬ Strings.byteLen (Import.trimSpace v) > 0 := by simpa [hh] using hb
    simp [hh, this]

/-- the loop over indices inside the record -/
theorem words_loop (r : List String) (is : List Int) (ws : List String) (h : ∀ i ∈ is, 0 ≤ i ∧ i.toNat < r.length) :
    foldlE (wordsBody r) ws is
    = .ok (ws ++ (is.map (fun i => Import.trimSpace (Import.fldD r i.toNat))).filter (fun s => decide (s.utf8ByteSize > 0))) := by
  induction is generalizing ws with
  | nil => simp [foldlE]
  | cons i is ih =>
    have hi := h i (by simp)
    have hidx : index r i = .ok (Import.fldD r i.toNat) := by
      unfold index
      have : ¬ i < 0 := by omega
      simp only [this, if_false, fldD_get]
      cases hg : r[i.toNat]? with
      | none => simp at hg; omega
      | some v => rfl
    rw [foldlE, wordsBody_ok r ws i _ hidx, GoSem.Outcome.bind, ih _ (fun j hj => h j (by simp [hj]))]
    rw [List.map_cons, List.append_assoc, ← filter_cons_app]

/-- the part of `Import.Swisscard.row` that follows the length check (a record of eleven fields whose first two match the date pattern) -/
def booking (acct : Knut.Account) (r : Import.Rec) : Import.Res (List Knut.Directive) := do
  let words := ([2, 4, 5, 6, 7, 8].map (fun i => Import.trimSpace (Import.fldD r i))).filter (fun s => s.utf8ByteSize > 0)
  let d ← Import.Res.ofOption (Import.parseDate Import.layoutDMYdot (Import.fldD r 0))
  let q ← Import.Res.ofOption (Import.newFromString (String.ofList (Import.Swisscard.stripChf (Import.fldD r 3).toList)))
  pure [Import.mkTx d (Import.joinWith " " words) [⟨acct, Import.tbd, "CHF", q⟩]]

theorem parseBooking_11 (cur : String → Bool) (p : swisscard.parser) (b : Knut.Builder) (acct : Knut.Account)
    (f0 f1 f2 f3 f4 f5 f6 f7 f8 f9 f10 : String)
    (hb : BEquiv cur p.builder b) (hacct : p.account = accountGo acct)
    (hd0 : Import.dateRe f0 = true) (hd1 : Import.dateRe f1 = true)
    (ext1 : commodity.Commodity × Option Error) (ext2 : account.Account)
    (h1 : ext1 = (commodityGo cur "CHF", none)) (h2 : ext2 = accountGo Import.tbd) :
    match booking acct [f0, f1, f2, f3, f4, f5, f6, f7, f8, f9, f10] with
    | .ok ds => ∃ p', swisscard.parser.parseBooking p [f0, f1, f2, f3, f4, f5, f6, f7, f8, f9, f10] ext1 ext2 = .ok (p', true, none) ∧
        p'.account = p.account ∧ BEquiv cur p'.builder (ds.foldl Knut.Builder.add b)
    | .error => ∃ e, e ≠ ⟨"EOF"⟩ ∧ swisscard.parser.parseBooking p [f0, f1, f2, f3, f4, f5, f6, f7, f8, f9, f10] ext1 ext2 = .ok (p, false, some e)
    | .panic => False := by
  unfold booking swisscard.parser.parseBooking
  simp only [matchDate_model]
  rw [words_loop _ _ _ (by simp)]
  simp only [fldD_get, List.getElem?_cons_succ, List.getElem?_cons_zero, Option.getD_some, List.map_cons, List.map_nil]
  simp only [replaceChfApos_model, Time.ParseDMYdot, Decimal.NewFromString, parseDMYdot_model, newFromString_model]
  simp [index, Outcome.bind, hd0, hd1, -List.filter_nil]
  cases hd : Import.parseDate Import.layoutDMYdot f0 with
  | none => exact ⟨⟨"time.Parse"⟩, by decide, rfl⟩
  | some d =>
    cases hq : Import.newFromString (String.ofList (Import.Swisscard.stripChf f3.toList)) with
    | none => exact ⟨⟨"can't convert %s to decimal"⟩, by decide, rfl⟩
    | some q =>
      simp only [Import.Res.ofOption, Import.Res.bind_ok]
      obtain ⟨t, ht, hbuild⟩ := TransImportSupercard.built_tx cur acct Import.tbd d
        (Import.joinWith " " (List.filter (fun s => decide (0 < s.utf8ByteSize))
          [Import.trimSpace f2, Import.trimSpace f4, Import.trimSpace f5, Import.trimSpace f6, Import.trimSpace f7, Import.trimSpace f8]))
        "CHF" q
      obtain ⟨g', hg, hbe⟩ := Add_agrees cur hb (.Transaction (txGo cur GoZero.zero GoZero.zero t)) (.tx t) (TRel_txGo cur _ _ t)
      subst h1 h2
      rw [hacct, ht]
      refine ⟨{ account := accountGo acct, builder := g' }, ?_, rfl, ?_⟩
      · have e : (GoZero.zero : Rat) = 0 := rfl
        have e2 : (GoZero.zero : Option (List commodity.Commodity)) = none := rfl
        rw [e, e2] at hbuild
        simp only [Option.isSome_none, Bool.false_eq_true, if_false, join_model]
        rw [hbuild, hg]
      · simpa using hbe

theorem row_booking (acct : Knut.Account) (f0 f1 f2 f3 f4 f5 f6 f7 f8 f9 f10 : String)
    (hd0 : Import.dateRe f0 = true) (hd1 : Import.dateRe f1 = true) :
    Import.Swisscard.row acct 11 [f0, f1, f2, f3, f4, f5, f6, f7, f8, f9, f10] = booking acct [f0, f1, f2, f3, f4, f5, f6, f7, f8, f9, f10] := by
  unfold Import.Swisscard.row booking
  simp [Import.fld, fldD_get, hd0, hd1]

/-- `readLine` in terms of `parseBooking` -/
theorem readLine_eq (p : swisscard.parser) (r : List String) (ext2 : commodity.Commodity × Option Error) (ext3 : account.Account) :
    swisscard.parser.readLine p (r, none) ext2 ext3 =
      GoSem.Outcome.bind (swisscard.parser.parseBooking p r ext2 ext3) (fun t => if (t.2.1 || t.2.2.isSome) then .ok (t.1, t.2.2) else .ok (t.1, none)) := rfl

/-- **`parser.readLine`** of `ch.swisscard` on a record the reader returned without error (`FieldsPerRecord = 0`: every record has the
field count of the first one; the model's `n` is therefore the length of the record itself) -/
theorem readLine_agrees (cur : String → Bool) (p : swisscard.parser) (b : Knut.Builder) (acct : Knut.Account) (r : Import.Rec)
    (hb : BEquiv cur p.builder b) (hacct : p.account = accountGo acct)
    (ext2 : commodity.Commodity × Option Error) (ext3 : account.Account)
    (h2 : ext2 = (commodityGo cur "CHF", none)) (h3 : ext3 = accountGo Import.tbd) :
    match Import.Swisscard.row acct r.length r with
    | .ok ds => ∃ p', swisscard.parser.readLine p (r, none) ext2 ext3 = .ok (p', none) ∧ p'.account = p.account ∧
        BEquiv cur p'.builder (ds.foldl Knut.Builder.add b)
    | .error => ∃ e, e ≠ ⟨"EOF"⟩ ∧ swisscard.parser.readLine p (r, none) ext2 ext3 = .ok (p, some e)
    | .panic => ∃ m, swisscard.parser.readLine p (r, none) ext2 ext3 = .panic m := by
  rw [readLine_eq]
  rcases r with _ | ⟨f0, _ | ⟨f1, rest⟩⟩
  · -- no field: `r[0]` panics
    have hrow : Import.Swisscard.row acct ([] : Import.Rec).length [] = .panic := by simp [Import.Swisscard.row, Import.fld]
    rw [hrow]
    exact ⟨"runtime error: index out of range", by simp [swisscard.parser.parseBooking, index, GoSem.Outcome.bind]⟩
  · by_cases hd0 : Import.dateRe f0 = true
    · -- one field that matches: `r[1]` panics
      have hrow : Import.Swisscard.row acct [f0].length [f0] = .panic := by simp [Import.Swisscard.row, Import.fld, hd0]
      rw [hrow]
      exact ⟨"runtime error: index out of range", by simp [swisscard.parser.parseBooking, index, GoSem.Outcome.bind, matchDate_model, hd0]⟩
    · have hrow : Import.Swisscard.row acct [f0].length [f0] = .ok [] := by simp [Import.Swisscard.row, Import.fld, hd0]
      rw [hrow]
      exact ⟨p, by simp [swisscard.parser.parseBooking, index, GoSem.Outcome.bind, matchDate_model, hd0], rfl, hb⟩
  · by_cases hd : Import.dateRe f0 = true ∧ Import.dateRe f1 = true
    · obtain ⟨hd0, hd1⟩ := hd
      by_cases hlen : rest.length = 9
      · obtain ⟨f2, f3, f4, f5, f6, f7, f8, f9, f10, rfl⟩ := len9 hlen
        have hpb := parseBooking_11 cur p b acct f0 f1 f2 f3 f4 f5 f6 f7 f8 f9 f10 hb hacct hd0 hd1 ext2 ext3 h2 h3
        have hl : [f0, f1, f2, f3, f4, f5, f6, f7, f8, f9, f10].length = 11 := rfl
        rw [hl, row_booking acct f0 f1 f2 f3 f4 f5 f6 f7 f8 f9 f10 hd0 hd1]
        cases hbk : booking acct [f0, f1, f2, f3, f4, f5, f6, f7, f8, f9, f10] with
        | ok ds =>
          rw [hbk] at hpb
          obtain ⟨p', hp', hrest⟩ := hpb
          exact ⟨p', by simp [hp', GoSem.Outcome.bind], hrest⟩
        | error =>
          rw [hbk] at hpb
          obtain ⟨e, hne, he⟩ := hpb
          exact ⟨e, hne, by simp [he, GoSem.Outcome.bind]⟩
        | panic => rw [hbk] at hpb; exact hpb.elim
      · have hrow : Import.Swisscard.row acct (f0 :: f1 :: rest).length (f0 :: f1 :: rest) = .error := by
          simp [Import.Swisscard.row, Import.fld, hd0, hd1, hlen]
        rw [hrow]
        have h11 : ¬ ((rest.length : Int) + 1 + 1 = 11) := by omega
        exact ⟨⟨"expected 11 items, got %v"⟩, by decide, by simp [swisscard.parser.parseBooking, index, GoSem.Outcome.bind, matchDate_model, hd0, hd1, h11]⟩
    · have hrow : Import.Swisscard.row acct (f0 :: f1 :: rest).length (f0 :: f1 :: rest) = .ok [] := by
        by_cases hd0 : Import.dateRe f0 = true
        · have hd1 : ¬ Import.dateRe f1 = true := fun h => hd ⟨hd0, h⟩
          simp [Import.Swisscard.row, Import.fld, hd1]
        · simp [Import.Swisscard.row, Import.fld, hd0]
      rw [hrow]
      refine ⟨p, ?_, rfl, hb⟩
      by_cases hd0 : Import.dateRe f0 = true
      · have hd1 : ¬ Import.dateRe f1 = true := fun h => hd ⟨hd0, h⟩
        simp [swisscard.parser.parseBooking, index, GoSem.Outcome.bind, matchDate_model, hd0, hd1]
      · simp [swisscard.parser.parseBooking, index, GoSem.Outcome.bind, matchDate_model, hd0]

/-- an error of the reader (`io.EOF`, a parse error, a record whose field count differs from the first record's: the model's
`r.length ≠ n`) is returned unchanged -/
theorem readLine_reader_error (p : swisscard.parser) (r : List String) (e : Error) (ext2 : commodity.Commodity × Option Error)
    (ext3 : account.Account) : swisscard.parser.readLine p (r, some e) ext2 ext3 = .ok (p, some e) := rfl

/-- non-vacuity: a booking record from the fresh builder -/
example : ∃ ds, Import.Swisscard.row ⟨["Liabilities", "Card"]⟩ 11
      ["01.02.2023", "02.02.2023", " Coop ", "CHF1'234.50", "", "Food", "", "", "", "x", "y"] = .ok ds ∧ ds.length = 1 ∧
    ∃ p', swisscard.parser.readLine ⟨accountGo ⟨["Liabilities", "Card"]⟩, journal.New⟩
        (["01.02.2023", "02.02.2023", " Coop ", "CHF1'234.50", "", "Food", "", "", "", "x", "y"], none)
        (commodityGo (fun _ => true) "CHF", none) (accountGo Import.tbd)
      = .ok (p', none) ∧ BEquiv (fun _ => true) p'.builder (ds.foldl Knut.Builder.add {}) := by
  have h := readLine_agrees (fun _ => true) ⟨accountGo ⟨["Liabilities", "Card"]⟩, journal.New⟩ {} ⟨["Liabilities", "Card"]⟩
    ["01.02.2023", "02.02.2023", " Coop ", "CHF1'234.50", "", "Food", "", "", "", "x", "y"] (New_agrees _) rfl
    (commodityGo (fun _ => true) "CHF", none) (accountGo Import.tbd) rfl rfl
  have hok : (match Import.Swisscard.row ⟨["Liabilities", "Card"]⟩ 11
      ["01.02.2023", "02.02.2023", " Coop ", "CHF1'234.50", "", "Food", "", "", "", "x", "y"] with
      | .ok ds => ds.length == 1 | _ => false) = true := by decide +kernel
  have hl : ["01.02.2023", "02.02.2023", " Coop ", "CHF1'234.50", "", "Food", "", "", "", "x", "y"].length = 11 := rfl
  rw [hl] at h
  revert h hok
  cases Import.Swisscard.row ⟨["Liabilities", "Card"]⟩ 11
      ["01.02.2023", "02.02.2023", " Coop ", "CHF1'234.50", "", "Food", "", "", "", "x", "y"] with
  | ok ds => exact fun h hok => ⟨ds, rfl, by simpa using hok, h.imp fun p' h => ⟨h.1, h.2.2⟩⟩
  | error => simp
  | panic => simp

end Knut.FactsAgree.TransImportSwisscard
