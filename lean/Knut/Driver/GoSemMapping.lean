import Knut.Wire
import Knut.GoSem.RegexpMatch
import Knut.GoSem.Mapping
/-! Driver ops `gosemmap …`: the primitives that the translation of the account mapping adds to the prelude
(`Knut/GoSem/RegexpMatch.lean`: a `*regexp.Regexp` as nil or the predicate `MatchString`; `Knut/GoSem/Mapping.lean`:
`strings.TrimPrefix`), evaluated for the differential stream `gosemmap` of C11 (`harness/gosem_mapping.go`). -/
namespace Knut.Driver.GoSemMapping
open Knut Knut.Wire Knut.GoSem

def showOutcome : Outcome Bool → String
  | .ok true => "1"
  | .ok false => "0"
  | .panic m => "panic:" ++ m
  | .outOfFuel => "fuel"

def handle (fields : List String) : Option String :=
  match fields with
  | ["gosemmap", "trimprefix", s, p] =>
    match unhexStr s, unhexStr p with
    | some s, some p => some (hexStr (Strings.TrimPrefix s p))
    | _, _ => some "bad-op"
  | ["gosemmap", "matchnil", s] =>
    match unhexStr s with
    | some s => some (showOutcome (Regexp.MatchString none s))
    | none => some "bad-op"
  | ["gosemmap", "match", verdict, s] =>
    -- the compiled expression is ITS predicate: the harness sends what the real `MatchString` answered for this text; the prelude
    -- must hand exactly that back (no panic, no other effect), also on a second call
    match unhexStr s with
    | some s =>
      let re : Regexp.Ptr := some (fun _ => verdict == "1")
      some (showOutcome (Regexp.MatchString re s) ++ showOutcome (Regexp.MatchString re s))
    | none => some "bad-op"
  | _ => none

end Knut.Driver.GoSemMapping
