import Knut.Proofs.SyntaxRender
/-!
# Parsing a rendered directive gives its fields back (completeness half of the C08 round trip)
-/
namespace Knut.Syntax
open Knut.Utf8 Knut.Spec.Syntax
set_option linter.unusedVariables false

theorem Good.step {text : Bytes} {off : Nat} {c r : List Tok} (hG : Good text ⟨off, c ++ r⟩) :
    Range.extract text ⟨off, off + wsum c⟩ = some (flat c) ∧ Good text ⟨off + wsum c, r⟩ :=
  hG.extract (consumed_mk off c r)

theorem Good.step1 {text : Bytes} {off : Nat} {t : Tok} {r : List Tok} (hG : Good text ⟨off, t :: r⟩) :
    Good text ⟨off + t.bytes.length, r⟩ :=
  (hG.extract (s' := ⟨off + t.bytes.length, r⟩) (c := [t]) ⟨rfl, by simp⟩).2

/-- the first token is neither white space nor a line break -/
def StartsSolid (c : List Tok) : Prop := ∃ t rest, c = t :: rest ∧ isWhitespaceOrNewline t.r = false

theorem StartsSolid.headNotWs {c r : List Tok} (h : StartsSolid c) : HeadNot isWhitespace (c ++ r) := by
  obtain ⟨t, rest, rfl, ht⟩ := h
  apply HeadNot.cons
  simp only [isWhitespaceOrNewline, Bool.or_eq_false_iff] at ht
  exact ht.2

theorem StartsSolid.headNotWsNl {c r : List Tok} (h : StartsSolid c) : HeadNot isWhitespaceOrNewline (c ++ r) := by
  obtain ⟨t, rest, rfl, ht⟩ := h
  exact HeadNot.cons ht

theorem StartsSolid.cur {c r : List Tok} {off : Nat} (h : StartsSolid c) :
    isWhitespaceOrNewline (cur ⟨off, c ++ r⟩) = false ∧ atEOF ⟨off, c ++ r⟩ = false := by
  obtain ⟨t, rest, rfl, ht⟩ := h
  exact ⟨ht, rfl⟩

theorem solid_of_alnum {x : Nat} (h : isAlphanumeric x = true) : isWhitespaceOrNewline x = false := by
  cases hw : isWhitespaceOrNewline x with
  | false => rfl
  | true => rw [ws_not_alnum hw] at h; cases h

theorem DecimalOK.solid {c : List Tok} (h : DecimalOK c) : StartsSolid c := by
  obtain ⟨⟨sign, int, frac, rfl, osign, hne, pint, _⟩, _⟩ := h
  rcases osign with hs | ⟨m, hs, pm⟩
  · subst hs
    cases int with
    | nil => exact absurd rfl hne
    | cons i0 irest =>
      exact ⟨i0, irest ++ frac, by simp, solid_of_alnum (alnum_of_digit (pint i0 List.mem_cons_self))⟩
  · subst hs
    exact ⟨m, int ++ frac, by simp, by rw [pm]; decide⟩

theorem CommodityOK.solid {c : List Tok} (h : CommodityOK c) : StartsSolid c := by
  obtain ⟨⟨hne, hp⟩, _⟩ := h
  cases c with
  | nil => exact absurd rfl hne
  | cons t ts => exact ⟨t, ts, rfl, solid_of_alnum (hp t List.mem_cons_self)⟩

theorem AccountOK.solid {c : List Tok} (h : AccountOK c) : StartsSolid c := by
  obtain ⟨⟨m, ia⟩, _⟩ := h
  cases m with
  | true =>
    simp only [IsAccount, if_true] at ia
    obtain ⟨d, ls, rfl, pd, _, _⟩ := ia
    exact ⟨d, ls, rfl, by rw [pd]; decide⟩
  | false =>
    simp only [IsAccount, Bool.false_eq_true, if_false] at ia
    obtain ⟨a, tl, rfl, hne, pa, _⟩ := ia
    cases a with
    | nil => exact absurd rfl hne
    | cons t ts => exact ⟨t, ts ++ tl, by simp, solid_of_alnum (pa t List.mem_cons_self)⟩

theorem DateOK.solid {c : List Tok} (h : DateOK c) : StartsSolid c := by
  obtain ⟨⟨d1, d2, d3, d4, h1, d5, d6, h2, d7, d8, rfl, p1, _⟩, _⟩ := h
  exact ⟨d1, _, rfl, solid_of_alnum (alnum_of_digit p1)⟩

theorem IntervalOK.solid {c : List Tok} (h : IntervalOK c) : StartsSolid c := by
  obtain ⟨⟨kw, hm, hk⟩, _⟩ := h
  simp only [intervalKeywords, List.mem_cons, List.not_mem_nil, or_false] at hm
  cases c with
  | nil => rcases hm with rfl | rfl | rfl | rfl <;> simp [runesOf] at hk
  | cons t ts =>
    refine ⟨t, ts, rfl, ?_⟩
    simp only [List.map_cons] at hk
    rcases hm with rfl | rfl | rfl | rfl
    · have : t.r = 100 := by have := congrArg List.head? hk; simpa [runesOf] using this
      rw [this]; decide
    · have : t.r = 119 := by have := congrArg List.head? hk; simpa [runesOf] using this
      rw [this]; decide
    · have : t.r = 109 := by have := congrArg List.head? hk; simpa [runesOf] using this
      rw [this]; decide
    · have : t.r = 113 := by have := congrArg List.head? hk; simpa [runesOf] using this
      rw [this]; decide

theorem hv_tk {x : Nat} {r : List Tok} (h : x < 128) : HeadValid (tk x :: r) := HeadValid.cons (tk_valid h)

theorem spacesT_valid (n : Nat) : Valid (spacesT n) := by
  intro t ht
  simp only [spacesT, List.mem_replicate] at ht
  rw [ht.2]; exact tk_valid (by decide)

theorem spacesT_ws (n : Nat) : All isWhitespace (spacesT n) := by
  intro t ht
  simp only [spacesT, List.mem_replicate] at ht
  rw [ht.2]; decide

theorem wsum_spacesT (n : Nat) : wsum (spacesT n) = n := by
  induction n with
  | zero => rfl
  | succ n ih =>
    have e : spacesT (n + 1) = tk 32 :: spacesT n := by simp [spacesT, List.replicate_succ]
    rw [e, wsum_cons, ih]
    simp [tk]; omega

theorem spacesT_succ_ne (n : Nat) : spacesT (n + 1) ≠ [] := by simp [spacesT, List.replicate_succ]

/-- `readWhitespace1` over a non-empty run of white space -/
theorem readWhitespace1_complete (off : Nat) (c r : List Tok) (hne : c ≠ []) (hp : All isWhitespace c) (hv : Valid c)
    (hr : HeadValid r) (hn : HeadNot isWhitespace r) :
    readWhitespace1 ⟨off, c ++ r⟩ = .ok ⟨off, off + wsum c⟩ ⟨off + wsum c, r⟩ := by
  cases c with
  | nil => exact absurd rfl hne
  | cons t ts =>
    have ht : isWhitespace t.r = true := hp t List.mem_cons_self
    have e : isWhitespaceOrNewline (cur ⟨off, t :: ts ++ r⟩) = true := by
      simp [cur, isWhitespaceOrNewline, ht]
    unfold readWhitespace1
    rw [e]
    simp only [Bool.not_true, Bool.false_and, Bool.false_eq_true, if_false]
    exact readWhile_complete isWhitespace off (t :: ts) r hp hv hr hn

/-- `readRestOfWhitespaceLine`: blanks, then a line break -/
theorem readRest_complete_nl (off : Nat) (w : List Tok) (nl : Tok) (r : List Tok) (hw : All isWhitespace w) (hv : Valid w)
    (hnl : nl.r = 10) (hvn : nl.invalid = false) (hr : HeadValid r) :
    readRestOfWhitespaceLine ⟨off, w ++ nl :: r⟩ =
      .ok ⟨off, off + wsum w + nl.bytes.length⟩ ⟨off + wsum w + nl.bytes.length, r⟩ := by
  unfold readRestOfWhitespaceLine
  simp only [Res.bind]
  rw [readWhile_complete isWhitespace off w (nl :: r) hw hv (HeadValid.cons hvn) (HeadNot.cons (by rw [hnl]; decide))]
  simp only
  have e : atEOF ⟨off + wsum w, nl :: r⟩ = false := rfl
  rw [e]
  simp only [Bool.false_eq_true, if_false]
  rw [readCharacter_complete 10 _ nl r hnl hr]
  simp [rng]

/-- `readRestOfWhitespaceLine`: blanks up to the end of the text -/
theorem readRest_complete_eof (off : Nat) (w : List Tok) (hw : All isWhitespace w) (hv : Valid w) :
    readRestOfWhitespaceLine ⟨off, w⟩ = .ok ⟨off, off + wsum w⟩ ⟨off + wsum w, []⟩ := by
  unfold readRestOfWhitespaceLine
  simp only [Res.bind]
  have := readWhile_complete isWhitespace off w [] hw hv HeadValid.nil HeadNot.nil
  simp only [List.append_nil] at this
  rw [this]
  simp [atEOF, rng]

/-- a gap (or the end of the text) follows: white space, a line break, or nothing -/
def GapStart (r : List Tok) : Prop :=
  r = [] ∨ ∃ t rest, r = t :: rest ∧ isWhitespaceOrNewline t.r = true ∧ t.invalid = false

theorem GapStart.headValid {r : List Tok} (h : GapStart r) : HeadValid r := by
  rcases h with rfl | ⟨t, rest, rfl, _, hv⟩
  · exact HeadValid.nil
  · exact HeadValid.cons hv

theorem GapStart.headNot {r : List Tok} (h : GapStart r) {p : Nat → Bool}
    (hp : ∀ x, isWhitespaceOrNewline x = true → p x = false) : HeadNot p r := by
  rcases h with rfl | ⟨t, rest, rfl, hw, _⟩
  · exact HeadNot.nil
  · exact HeadNot.cons (hp _ hw)

theorem GapStart.notAlnum {r : List Tok} (h : GapStart r) : HeadNot isAlphanumeric r := h.headNot fun _ => ws_not_alnum
theorem GapStart.notColon {r : List Tok} (h : GapStart r) : HeadNot (fun y => y == 58) r :=
  h.headNot fun x hx => by rcases ws_cases hx with rfl | rfl | rfl | rfl <;> decide
theorem GapStart.notDot {r : List Tok} (h : GapStart r) : HeadNot (fun y => y == 46) r :=
  h.headNot fun x hx => by rcases ws_cases hx with rfl | rfl | rfl | rfl <;> decide
theorem GapStart.notDigit {r : List Tok} (h : GapStart r) : HeadNot isDigit r :=
  h.headNot fun x hx => not_digit_of_not_alnum (ws_not_alnum hx)

theorem GapStart.break {r : List Tok} (h : GapStart r) (off : Nat) :
    (isWhitespaceOrNewline (cur ⟨off, r⟩) || atEOF ⟨off, r⟩) = true := by
  rcases h with rfl | ⟨t, rest, rfl, hw, _⟩
  · simp [atEOF]
  · simp [cur, hw]

theorem readWhitespace1_sp (off : Nat) (r : List Tok) (hr : HeadValid r) (hn : HeadNot isWhitespace r) :
    readWhitespace1 ⟨off, tk 32 :: r⟩ = .ok ⟨off, off + 1⟩ ⟨off + 1, r⟩ := by
  have := readWhitespace1_complete off [tk 32] r (by simp) (by intro t ht; simp at ht; rw [ht]; decide)
    (Valid.cons (tk_valid (by decide)) Valid.nil) hr hn
  simpa [tk] using this

theorem Good.sp {text : Bytes} {off x : Nat} {r : List Tok} (hG : Good text ⟨off, tk x :: r⟩) : Good text ⟨off + 1, r⟩ := by
  have := hG.step1
  simpa [tk] using this

theorem parseBalance_complete (b : BalanceT) (hb : b.ok) (off : Nat) (r : List Tok)
    (hr : HeadValid r) (hn : HeadNot isAlphanumeric r) :
    ∃ b2 off', parseBalance ⟨off, b.account ++ (tk 32 :: (b.quantity ++ (tk 32 :: (b.commodity ++ r))))⟩ = .ok b2 ⟨off', r⟩ ∧
      ∀ text, Good text ⟨off, b.account ++ (tk 32 :: (b.quantity ++ (tk 32 :: (b.commodity ++ r))))⟩ →
        viewBalance text b2 = some b.bytes := by
  obtain ⟨⟨⟨m, ia⟩, va⟩, ⟨iq, vq⟩, ⟨ic, vc⟩⟩ := hb
  have sq := DecimalOK.solid ⟨iq, vq⟩
  have sc := CommodityOK.solid ⟨ic, vc⟩
  unfold parseBalance
  simp only [Res.bind]
  rw [parseAccount_complete ia va off _ (hv_tk (by decide)) (HeadNot.cons (by decide +kernel)) (HeadNot.cons (by decide))]
  simp only
  rw [readWhitespace1_sp _ _ (HeadValid.append vq (hv_tk (by decide))) sq.headNotWs]
  simp only
  rw [parseDecimal_complete iq vq _ _ (hv_tk (by decide)) (HeadNot.cons (by decide +kernel)) (HeadNot.cons (by decide))]
  simp only
  rw [readWhitespace1_sp _ _ (HeadValid.append vc hr) sc.headNotWs]
  simp only
  rw [parseCommodity_complete ic vc _ _ hr hn]
  refine ⟨_, _, rfl, ?_⟩
  intro text hG
  obtain ⟨e1, G1⟩ := hG.step
  have G2 := G1.sp
  obtain ⟨e3, G3⟩ := G2.step
  have G4 := G3.sp
  obtain ⟨e5, G5⟩ := G4.step
  simp [viewBalance, e1, e3, e5, BalanceT.bytes]

theorem ws_run (off n : Nat) (r : List Tok) (hr : HeadValid r) (hn : HeadNot isWhitespace r) :
    readWhile1 "whitespace" isWhitespace ⟨off, spacesT (n + 1) ++ r⟩ = .ok ⟨off, off + (n + 1)⟩ ⟨off + (n + 1), r⟩ := by
  have := readWhile1_complete "whitespace" isWhitespace off (spacesT (n + 1)) r (spacesT_succ_ne n) (spacesT_ws _)
    (spacesT_valid _) hr hn
  rw [wsum_spacesT] at this
  exact this

theorem Good.run {text : Bytes} {off n : Nat} {r : List Tok} (hG : Good text ⟨off, spacesT n ++ r⟩) : Good text ⟨off + n, r⟩ := by
  have := hG.step.2
  rw [wsum_spacesT] at this
  exact this

/-- one booking line, up to its line break -/
theorem parseBooking_complete (padding : Nat) (b : BookingT) (hb : b.ok) (off : Nat) (r : List Tok) (hr : HeadValid r)
    (hn : HeadNot isAlphanumeric r) :
    ∃ b2 off', parseBooking ⟨off, renderBookingT padding b ++ r⟩ = .ok b2 ⟨off', r⟩ ∧
      ∀ text, Good text ⟨off, renderBookingT padding b ++ r⟩ → viewBooking text b2 = some b.bytes := by
  obtain ⟨⟨⟨m1, i1⟩, v1⟩, ⟨⟨m2, i2⟩, v2⟩, ⟨iq, vq⟩, ⟨ic, vc⟩⟩ := hb
  have s2 := AccountOK.solid ⟨⟨m2, i2⟩, v2⟩
  have sq := DecimalOK.solid ⟨iq, vq⟩
  have sc := CommodityOK.solid ⟨ic, vc⟩
  -- right-nested form of the line
  have e : renderBookingT padding b ++ r =
      b.credit ++ (spacesT (padding - b.credit.length + 1) ++ (b.debit ++
        (spacesT ((padding - b.debit.length + (10 - b.quantity.length)) + 1) ++ (b.quantity ++ (spacesT (0 + 1) ++ (b.commodity ++ r)))))) := by
    have e1 : ∀ (x : List Tok), spacesT (padding - b.debit.length + 1) ++ (spacesT (10 - b.quantity.length) ++ x) =
        spacesT ((padding - b.debit.length + (10 - b.quantity.length)) + 1) ++ x := by
      intro x
      rw [← List.append_assoc]
      congr 1
      simp only [spacesT, List.replicate_append_replicate]
      congr 1
      omega
    have e2 : ∀ (x : List Tok), tk 32 :: x = spacesT (0 + 1) ++ x := fun x => rfl
    simp only [renderBookingT, List.append_assoc, List.cons_append, e1]
    rw [e2]
  rw [e]
  have hvsp : ∀ n (x : List Tok), HeadValid (spacesT (n + 1) ++ x) := fun n x => by
    simp only [spacesT, List.replicate_succ, List.cons_append]; exact hv_tk (by decide)
  have hnsp : ∀ n (x : List Tok) (p : Nat → Bool), p 32 = false → HeadNot p (spacesT (n + 1) ++ x) := fun n x p hp => by
    simp only [spacesT, List.replicate_succ, List.cons_append]; exact HeadNot.cons (by simpa [tk] using hp)
  unfold parseBooking
  simp only [Res.bind]
  rw [parseAccount_complete i1 v1 off _ (hvsp _ _) (hnsp _ _ _ (by decide +kernel)) (hnsp _ _ _ (by decide))]
  simp only
  rw [ws_run _ _ _ (HeadValid.append v2 (hvsp _ _)) s2.headNotWs]
  simp only
  rw [parseAccount_complete i2 v2 _ _ (hvsp _ _) (hnsp _ _ _ (by decide +kernel)) (hnsp _ _ _ (by decide))]
  simp only
  rw [ws_run _ _ _ (HeadValid.append vq (hvsp _ _)) sq.headNotWs]
  simp only
  rw [parseDecimal_complete iq vq _ _ (hvsp _ _) (hnsp _ _ _ (by decide +kernel)) (hnsp _ _ _ (by decide))]
  simp only
  rw [ws_run _ _ _ (HeadValid.append vc hr) sc.headNotWs]
  simp only
  rw [parseCommodity_complete ic vc _ _ hr hn]
  refine ⟨_, _, rfl, ?_⟩
  intro text hG
  obtain ⟨e1, G1⟩ := hG.step
  have G2 := G1.run
  obtain ⟨e3, G3⟩ := G2.step
  have G4 := G3.run
  obtain ⟨e5, G5⟩ := G4.step
  have G6 := G5.run
  obtain ⟨e7, G7⟩ := G6.step
  simp [viewBooking, e1, e3, e5, e7, BookingT.bytes]

theorem readRest_nl (off : Nat) (r : List Tok) (hr : HeadValid r) :
    readRestOfWhitespaceLine ⟨off, tk 10 :: r⟩ = .ok ⟨off, off + 1⟩ ⟨off + 1, r⟩ := by
  have := readRest_complete_nl off [] (tk 10) r All.nil Valid.nil rfl (tk_valid (by decide)) hr
  simpa [tk] using this

theorem good_of_ok {α} {text : Bytes} {s s' : St} {a : α} {f : St → Res α} (hG : Good text s)
    (hx : ∀ s, Ext s (f s).st) (h : f s = .ok a s') : Good text s' :=
  hG.ext (ext_of_ok (hx s) h)

theorem renderBookingsT_solid (padding : Nat) (b : BookingT) (bs : List BookingT) (hb : b.ok) (x : List Tok) :
    StartsSolid (renderBookingsT padding (b :: bs) ++ x) := by
  obtain ⟨t, rest, e, ht⟩ := AccountOK.solid hb.1
  refine ⟨t, rest ++ (spacesT (padding - b.credit.length + 1) ++ b.debit ++ spacesT (padding - b.debit.length + 1) ++
    spacesT (10 - b.quantity.length) ++ b.quantity ++ tk 32 :: b.commodity) ++ tk 10 :: renderBookingsT padding bs ++ x, ?_, ht⟩
  simp [renderBookingsT, renderBookingT, e]

theorem bookingsLoop_complete (padding : Nat) (bs : List BookingT) (hne : bs ≠ []) (hok : ∀ b ∈ bs, b.ok)
    (start : Nat) (acc : List Booking) (off : Nat) (r : List Tok) (hr : GapStart r) :
    ∃ bs2 off', bookingsLoop start acc ⟨off, renderBookingsT padding bs ++ r⟩ = .ok (acc.reverse ++ bs2) ⟨off', r⟩ ∧
      ∀ text, Good text ⟨off, renderBookingsT padding bs ++ r⟩ → bs2.mapM (viewBooking text) = some (bs.map BookingT.bytes) := by
  induction bs generalizing acc off with
  | nil => exact absurd rfl hne
  | cons b rest ih =>
    have hb := hok b List.mem_cons_self
    have e : renderBookingsT padding (b :: rest) ++ r = renderBookingT padding b ++ (tk 10 :: (renderBookingsT padding rest ++ r)) := by
      simp [renderBookingsT]
    rw [e]
    obtain ⟨b2, off1, p1, view1⟩ := parseBooking_complete padding b hb off (tk 10 :: (renderBookingsT padding rest ++ r))
      (hv_tk (by decide)) (HeadNot.cons (by decide +kernel))
    rw [bookingsLoop_eq, p1]
    simp only [Res.bind]
    cases rest with
    | nil =>
      simp only [renderBookingsT, List.nil_append]
      rw [readRest_nl _ _ hr.headValid]
      simp only [hr.break, if_true]
      refine ⟨[b2], off1 + 1, by simp, ?_⟩
      intro text hG
      simp [view1 text (by simpa [renderBookingsT] using hG)]
    | cons b' rest' =>
      have hs := renderBookingsT_solid padding b' rest' (hok b' (by simp)) r
      rw [readRest_nl _ _ (by obtain ⟨t, x, e, _⟩ := hs; rw [e]; exact HeadValid.cons (by
        have := (hok b' (by simp)).1.2
        obtain ⟨t0, r0, e0, _⟩ := AccountOK.solid (hok b' (by simp)).1
        have hv0 : t0.invalid = false := this t0 (by rw [e0]; exact List.mem_cons_self)
        simp only [renderBookingsT, renderBookingT, e0, List.cons_append, List.append_assoc, List.cons.injEq] at e
        rw [← e.1]; exact hv0))]
      have hc := hs.cur (off := off1 + 1) (r := [])
      simp only [List.append_nil] at hc
      simp only [hc.1, hc.2, Bool.or_self, Bool.false_eq_true, if_false]
      obtain ⟨bs2, off', p2, view2⟩ := ih (by simp) (fun x hx => hok x (List.mem_cons_of_mem _ hx)) (b2 :: acc) (off1 + 1)
      refine ⟨b2 :: bs2, off', by rw [p2]; simp, ?_⟩
      intro text hG
      have G1 : Good text ⟨off1, tk 10 :: (renderBookingsT padding (b' :: rest') ++ r)⟩ :=
        good_of_ok hG (fun s => (parseBooking_prog s).ext) p1
      have G2 := G1.sp
      simp [view1 text hG, view2 text G2]

theorem AccountOK.headValid {c x : List Tok} (h : AccountOK c) : HeadValid (c ++ x) := by
  obtain ⟨t0, r0, e0, _⟩ := h.solid
  have hv0 : t0.invalid = false := h.2 t0 (by rw [e0]; exact List.mem_cons_self)
  rw [e0]; exact HeadValid.cons hv0

theorem renderBalancesT_solid (b : BalanceT) (bs : List BalanceT) (hb : b.ok) (x : List Tok) :
    StartsSolid (renderBalancesT (b :: bs) ++ x) ∧ HeadValid (renderBalancesT (b :: bs) ++ x) := by
  obtain ⟨t, rest, e, ht⟩ := AccountOK.solid hb.1
  have hv := AccountOK.headValid (x := tk 32 :: b.quantity ++ tk 32 :: b.commodity ++ tk 10 :: renderBalancesT bs ++ x) hb.1
  constructor
  · refine ⟨t, rest ++ (tk 32 :: b.quantity ++ tk 32 :: b.commodity) ++ tk 10 :: renderBalancesT bs ++ x, ?_, ht⟩
    simp [renderBalancesT, renderBalanceT, e]
  · simpa [renderBalancesT, renderBalanceT] using hv

theorem balancesLoop_complete (bs : List BalanceT) (hne : bs ≠ []) (hok : ∀ b ∈ bs, b.ok)
    (start : Nat) (acc : List Balance) (off : Nat) (r : List Tok) (hr : GapStart r) :
    ∃ bs2 off', balancesLoop start acc ⟨off, renderBalancesT bs ++ r⟩ = .ok (acc.reverse ++ bs2) ⟨off', r⟩ ∧
      ∀ text, Good text ⟨off, renderBalancesT bs ++ r⟩ → bs2.mapM (viewBalance text) = some (bs.map BalanceT.bytes) := by
  induction bs generalizing acc off with
  | nil => exact absurd rfl hne
  | cons b rest ih =>
    have hb := hok b List.mem_cons_self
    have e : renderBalancesT (b :: rest) ++ r =
        b.account ++ (tk 32 :: (b.quantity ++ (tk 32 :: (b.commodity ++ (tk 10 :: (renderBalancesT rest ++ r)))))) := by
      simp [renderBalancesT, renderBalanceT]
    rw [e]
    obtain ⟨b2, off1, p1, view1⟩ := parseBalance_complete b hb off (tk 10 :: (renderBalancesT rest ++ r))
      (hv_tk (by decide)) (HeadNot.cons (by decide +kernel))
    rw [balancesLoop_eq, p1]
    simp only [Res.bind]
    cases rest with
    | nil =>
      simp only [renderBalancesT, List.nil_append]
      rw [readRest_nl _ _ hr.headValid]
      simp only [hr.break, if_true]
      refine ⟨[b2], off1 + 1, by simp, ?_⟩
      intro text hG
      simp [view1 text (by simpa [renderBalancesT] using hG)]
    | cons b' rest' =>
      have ⟨hs, hv⟩ := renderBalancesT_solid b' rest' (hok b' (by simp)) r
      rw [readRest_nl _ _ hv]
      have hc := hs.cur (off := off1 + 1) (r := [])
      simp only [List.append_nil] at hc
      simp only [hc.1, hc.2, Bool.or_self, Bool.false_eq_true, if_false]
      obtain ⟨bs2, off', p2, view2⟩ := ih (by simp) (fun x hx => hok x (List.mem_cons_of_mem _ hx)) (b2 :: acc) (off1 + 1)
      refine ⟨b2 :: bs2, off', by rw [p2]; simp, ?_⟩
      intro text hG
      have G1 : Good text ⟨off1, tk 10 :: (renderBalancesT (b' :: rest') ++ r)⟩ :=
        good_of_ok hG (fun s => (parseBalance_prog s).ext) p1
      have G2 := G1.sp
      simp [view1 text hG, view2 text G2]

/-- `@accrue` has been read; the rest of the annotation line up to its line break -/
theorem parseAccrual_complete (a : AccrualT) (ha : a.ok) (off : Nat) (r : List Tok) (hr : HeadValid r)
    (hn : HeadNot isAlphanumeric r) (h58 : HeadNot (fun y => y == 58) r) :
    ∃ a2 off', parseAccrual ⟨off, tk 32 :: (a.interval ++ (tk 32 :: (a.start ++ (tk 32 :: (a.stop ++ (tk 32 :: (a.account ++ r)))))))⟩ =
        .ok a2 ⟨off', r⟩ ∧ a2.range.start = off ∧
      ∀ text, Good text ⟨off, tk 32 :: (a.interval ++ (tk 32 :: (a.start ++ (tk 32 :: (a.stop ++ (tk 32 :: (a.account ++ r)))))))⟩ →
        viewAccrual text a2 = some a.bytes := by
  obtain ⟨⟨ii, vi⟩, ⟨i0, v0⟩, ⟨i1, v1⟩, ⟨⟨m, ia⟩, va⟩⟩ := ha
  have si := IntervalOK.solid ⟨ii, vi⟩
  have s0 := DateOK.solid ⟨i0, v0⟩
  have s1 := DateOK.solid ⟨i1, v1⟩
  have sa := AccountOK.solid ⟨⟨m, ia⟩, va⟩
  unfold parseAccrual
  simp only [Res.bind]
  rw [readWhitespace1_sp _ _ (HeadValid.append vi (hv_tk (by decide))) si.headNotWs]
  simp only
  rw [parseInterval_complete ii vi _ _ (hv_tk (by decide))]
  simp only
  rw [readWhitespace1_sp _ _ (HeadValid.append v0 (hv_tk (by decide))) s0.headNotWs]
  simp only
  rw [parseDate_complete i0 v0 _ _ (hv_tk (by decide))]
  simp only
  rw [readWhitespace1_sp _ _ (HeadValid.append v1 (hv_tk (by decide))) s1.headNotWs]
  simp only
  rw [parseDate_complete i1 v1 _ _ (hv_tk (by decide))]
  simp only
  rw [readWhitespace1_sp _ _ (HeadValid.append va hr) sa.headNotWs]
  simp only
  rw [parseAccount_complete ia va _ _ hr hn h58]
  refine ⟨_, _, rfl, rfl, ?_⟩
  intro text hG
  have G1 := hG.sp
  obtain ⟨e2, G2⟩ := G1.step
  have G3 := G2.sp
  obtain ⟨e4, G4⟩ := G3.step
  have G5 := G4.sp
  obtain ⟨e6, G6⟩ := G5.step
  have G7 := G6.sp
  obtain ⟨e8, G8⟩ := G7.step
  simp [viewAccrual, e2, e4, e6, e8, AccrualT.bytes]

theorem readWhile_none (p : Nat → Bool) (off : Nat) (r : List Tok) (hn : HeadNot p r) :
    readWhile p ⟨off, r⟩ = .ok ⟨off, off⟩ ⟨off, r⟩ := by
  unfold readWhile
  cases r with
  | nil => rfl
  | cons t rest =>
    simp only [readWhileL, hn t rest rfl, Bool.false_eq_true, if_false]

def commaTail : List (List Tok) → List Tok
  | [] => []
  | t :: ts => tk 44 :: (t ++ commaTail ts)

theorem joinCommaT_cons (t : List Tok) (ts : List (List Tok)) : joinCommaT (t :: ts) = t ++ commaTail ts := by
  induction ts generalizing t with
  | nil => simp [joinCommaT, commaTail]
  | cons u us ih => simp [joinCommaT, commaTail, ih]

theorem CommodityOK.headValid {c x : List Tok} (h : CommodityOK c) : HeadValid (c ++ x) := by
  obtain ⟨t0, r0, e0, _⟩ := h.solid
  have hv0 : t0.invalid = false := h.2 t0 (by rw [e0]; exact List.mem_cons_self)
  rw [e0]; exact HeadValid.cons hv0

/-- the head of `commaTail ts ++ ) …` is a comma or the parenthesis -/
theorem commaTail_head (ts : List (List Tok)) (r : List Tok) :
    HeadValid (commaTail ts ++ tk 41 :: r) ∧ HeadNot isAlphanumeric (commaTail ts ++ tk 41 :: r) ∧
      HeadNot isWhitespace (commaTail ts ++ tk 41 :: r) := by
  cases ts with
  | nil => exact ⟨hv_tk (by decide), HeadNot.cons (by decide +kernel), HeadNot.cons (by decide)⟩
  | cons t ts => exact ⟨hv_tk (by decide), HeadNot.cons (by decide +kernel), HeadNot.cons (by decide)⟩

theorem perfLoop_complete (ts : List (List Tok)) (hok : ∀ t ∈ ts, CommodityOK t) (start : Nat) (acc : List Commodity)
    (off : Nat) (r : List Tok) :
    ∃ cs2 off', perfLoop start acc ⟨off, commaTail ts ++ tk 41 :: r⟩ = .ok (acc.reverse ++ cs2) ⟨off', tk 41 :: r⟩ ∧
      ∀ text, Good text ⟨off, commaTail ts ++ tk 41 :: r⟩ →
        cs2.mapM (fun (c : Commodity) => c.range.extract text) = some (ts.map flat) := by
  induction ts generalizing acc off with
  | nil =>
    rw [perfLoop_eq]
    have : (cur ⟨off, commaTail [] ++ tk 41 :: r⟩ != 44) = true := by rfl
    simp only [this, if_true]
    exact ⟨[], off, by simp [commaTail], by intro _ _; simp⟩
  | cons t rest ih =>
    have ht := hok t List.mem_cons_self
    obtain ⟨hv1, hn1, hw1⟩ := commaTail_head rest r
    rw [perfLoop_eq]
    have hc : (cur ⟨off, commaTail (t :: rest) ++ tk 41 :: r⟩ != 44) = false := by rfl
    simp only [hc, Bool.false_eq_true, if_false]
    have e : commaTail (t :: rest) ++ tk 41 :: r = tk 44 :: (t ++ (commaTail rest ++ tk 41 :: r)) := by simp [commaTail]
    rw [e, readCharacter_complete 44 off (tk 44) _ rfl ht.headValid]
    simp only [Res.bind]
    rw [readWhile_none isWhitespace _ _ ht.solid.headNotWs]
    simp only
    rw [parseCommodity_complete ht.1 ht.2 _ _ hv1 hn1]
    simp only
    rw [readWhile_none isWhitespace _ _ hw1]
    simp only
    obtain ⟨cs2, off', p2, view2⟩ := ih (fun x hx => hok x (List.mem_cons_of_mem _ hx))
      (⟨⟨off + (tk 44).bytes.length, off + (tk 44).bytes.length + wsum t⟩⟩ :: acc) (off + (tk 44).bytes.length + wsum t)
    refine ⟨(⟨⟨off + (tk 44).bytes.length, off + (tk 44).bytes.length + wsum t⟩⟩ : Commodity) :: cs2, off', by rw [p2]; simp, ?_⟩
    intro text hG
    have G1 := hG.step1
    obtain ⟨e2, G2⟩ := G1.step
    simp [e2, view2 text G2]

/-- `@performance` has been read; the parenthesised targets -/
theorem parsePerformance_complete (ts : List (List Tok)) (hok : ∀ t ∈ ts, CommodityOK t) (off : Nat) (r : List Tok)
    (hr : HeadValid r) :
    ∃ p2 off', parsePerformance ⟨off, tk 40 :: (joinCommaT ts ++ tk 41 :: r)⟩ = .ok p2 ⟨off', r⟩ ∧
      p2.range.start = off ∧
      ∀ text, Good text ⟨off, tk 40 :: (joinCommaT ts ++ tk 41 :: r)⟩ →
        p2.targets.mapM (fun (c : Commodity) => c.range.extract text) = some (ts.map flat) := by
  unfold parsePerformance
  simp only [Res.bind]
  cases ts with
  | nil =>
    simp only [joinCommaT, List.nil_append]
    rw [readCharacter_complete 40 off (tk 40) _ rfl (hv_tk (by decide))]
    simp only
    rw [readWhile_none isWhitespace _ _ (HeadNot.cons (by decide))]
    simp only
    have hc : (cur ⟨off + (tk 40).bytes.length, tk 41 :: r⟩ != 41) = false := by rfl
    simp only [hc, Bool.false_eq_true, if_false]
    obtain ⟨cs2, off', p2, view2⟩ := perfLoop_complete [] (by simp) off [] (off + (tk 40).bytes.length) r
    simp only [commaTail, List.nil_append] at p2 view2
    rw [p2]
    simp only
    rw [readCharacter_complete 41 off' (tk 41) r rfl hr]
    refine ⟨_, _, rfl, rfl, ?_⟩
    intro text hG
    simpa using view2 text hG.step1
  | cons t rest =>
    have ht := hok t List.mem_cons_self
    obtain ⟨hv1, hn1, hw1⟩ := commaTail_head rest r
    rw [joinCommaT_cons]
    have e : t ++ commaTail rest ++ tk 41 :: r = t ++ (commaTail rest ++ tk 41 :: r) := by simp
    rw [e, readCharacter_complete 40 off (tk 40) _ rfl ht.headValid]
    simp only
    rw [readWhile_none isWhitespace _ _ ht.solid.headNotWs]
    simp only
    have hc : (cur ⟨off + (tk 40).bytes.length, t ++ (commaTail rest ++ tk 41 :: r)⟩ != 41) = true := by
      obtain ⟨t0, r0, e0, _⟩ := ht.solid
      have h0 : isAlphanumeric t0.r = true := ht.1.2 t0 (by rw [e0]; exact List.mem_cons_self)
      rw [e0]
      simp only [List.cons_append, cur_cons, bne_iff_ne, ne_eq]
      intro e41; rw [e41, alnum_rparen] at h0; cases h0
    simp only [hc, if_true, Res.bind]
    rw [parseCommodity_complete ht.1 ht.2 _ _ hv1 hn1]
    simp only
    rw [readWhile_none isWhitespace _ _ hw1]
    simp only
    obtain ⟨cs2, off', p2, view2⟩ := perfLoop_complete rest (fun x hx => hok x (List.mem_cons_of_mem _ hx)) off
      [(⟨⟨off + (tk 40).bytes.length, off + (tk 40).bytes.length + wsum t⟩⟩ : Commodity)] (off + (tk 40).bytes.length + wsum t) r
    rw [p2]
    simp only
    rw [readCharacter_complete 41 off' (tk 41) r rfl hr]
    refine ⟨_, _, rfl, rfl, ?_⟩
    intro text hG
    have G1 := hG.step1
    obtain ⟨e2, G2⟩ := G1.step
    simp [e2, view2 text G2]

theorem readAltL_skip' (all : List String) (s : St) (a : String) (rest : List String)
    (h : ∃ e s', readString a s = .err e s') : readAltL all s (a :: rest) = readAltL all s rest := by
  obtain ⟨e, s', he⟩ := h
  simp only [readAltL, he]

theorem valid_lits (s : String) (h : ∀ c ∈ s.toList, c.toNat < 128) : Valid (lits s) := by
  intro t ht
  simp only [lits, List.mem_map] at ht
  obtain ⟨c, hc, rfl⟩ := ht
  exact tk_valid (h c hc)

/-- the keyword `@accrue` in a rendered annotation -/
theorem readAlt_accrue (off : Nat) (x : List Tok) (hx : HeadValid x) :
    readAlternative ["@performance", "@accrue"] ⟨off, lits "@accrue" ++ x⟩ = .ok (⟨off, off + 7⟩, "@accrue") ⟨off + 7, x⟩ := by
  have hit := readString_complete "@accrue" off (lits "@accrue") x (by decide) (valid_lits _ (by decide)) hx
  have hw : wsum (lits "@accrue") = 7 := by decide
  rw [hw] at hit
  have miss : ∃ e s', readString "@performance" ⟨off, lits "@accrue" ++ x⟩ = .err e s' := by
    have e0 : lits "@accrue" = tk 64 :: tk 97 :: lits "ccrue" := by decide
    have e : lits "@accrue" ++ x = tk 64 :: tk 97 :: (lits "ccrue" ++ x) := by rw [e0]; rfl
    rw [e]
    unfold readString
    have r : runesOf "@performance" = 64 :: 112 :: runesOf "erformance" := by decide
    rw [r]
    simp only [readStringL, cur_cons]
    rw [advance_complete off (tk 64) _ (hv_tk (by decide))]
    simp only [cur_cons]
    exact ⟨_, _, rfl⟩
  unfold readAlternative
  have hE : atEOF ⟨off, lits "@accrue" ++ x⟩ = false := by rfl
  rw [hE]
  simp only [Bool.false_eq_true, if_false]
  rw [readAltL_skip' _ _ _ _ miss]
  exact readAltL_hit _ _ _ _ _ _ hit

theorem readAlt_performance (off : Nat) (x : List Tok) (hx : HeadValid x) :
    readAlternative ["@performance", "@accrue"] ⟨off, lits "@performance" ++ x⟩ =
      .ok (⟨off, off + 12⟩, "@performance") ⟨off + 12, x⟩ := by
  have hit := readString_complete "@performance" off (lits "@performance") x (by decide) (valid_lits _ (by decide)) hx
  have hw : wsum (lits "@performance") = 12 := by decide
  rw [hw] at hit
  unfold readAlternative
  have hE : atEOF ⟨off, lits "@performance" ++ x⟩ = false := by rfl
  rw [hE]
  simp only [Bool.false_eq_true, if_false]
  exact readAltL_hit _ _ _ _ _ _ hit

/-- one round of `parseAddons` over a rendered `@accrue` line -/
theorem addons_iter_accrue (start off : Nat) (p0 : Performance) (a : AccrualT) (ha : a.ok) (next : List Tok)
    (hv : HeadValid next) :
    ∃ a2 off', a2.range.empty = false ∧
      (∀ text, Good text ⟨off, renderAccrualT a ++ next⟩ → viewAccrual text a2 = some a.bytes ∧ Good text ⟨off', next⟩) ∧
      addonsLoop start p0 Accrual.zero ⟨off, renderAccrualT a ++ next⟩ =
        (if cur ⟨off', next⟩ != 64 then .ok ⟨rng start ⟨off', next⟩, p0, a2⟩ ⟨off', next⟩
         else addonsLoop start p0 a2 ⟨off', next⟩) := by
  have e : renderAccrualT a ++ next =
      lits "@accrue" ++ (tk 32 :: (a.interval ++ (tk 32 :: (a.start ++ (tk 32 :: (a.stop ++ (tk 32 :: (a.account ++ (tk 10 :: next))))))))) := by
    simp [renderAccrualT]
  rw [e]
  obtain ⟨a2, off1, p1, hs, view1⟩ := parseAccrual_complete a ha (off + 7) (tk 10 :: next) (hv_tk (by decide))
    (HeadNot.cons (by decide +kernel)) (HeadNot.cons (by decide))
  have hr := (parseAccrual_ok p1).1
  have o1 := (parseAccrual_fwd _).2 _ _ p1
  simp only at hr o1
  refine ⟨{ a2 with range := a2.range.extend ⟨off, off + 7⟩ }, off1 + 1, ?_, ?_, ?_⟩
  · simp only [hr, extend_kw (Nat.le_add_right off 7) o1, Range.empty, beq_eq_false_iff_ne]
    omega
  · intro text hG
    have G1 : Good text ⟨off + 7, tk 32 :: (a.interval ++ (tk 32 :: (a.start ++ (tk 32 :: (a.stop ++ (tk 32 :: (a.account ++ (tk 10 :: next))))))))⟩ := by
      have := hG.step.2
      rwa [show wsum (lits "@accrue") = 7 from by decide] at this
    have G2 : Good text ⟨off1, tk 10 :: next⟩ := good_of_ok G1 parseAccrual_ext p1
    refine ⟨?_, G2.sp⟩
    have := view1 text G1
    simpa [viewAccrual] using this
  · rw [addonsLoop_eq, readAlt_accrue off _ (hv_tk (by decide))]
    simp only [Res.bind]
    have hstep : addonStep start p0 Accrual.zero ⟨off, off + 7⟩ "@accrue"
        ⟨off + 7, tk 32 :: (a.interval ++ (tk 32 :: (a.start ++ (tk 32 :: (a.stop ++ (tk 32 :: (a.account ++ (tk 10 :: next))))))))⟩ =
        .ok (p0, { a2 with range := a2.range.extend ⟨off, off + 7⟩ }) ⟨off1, tk 10 :: next⟩ := by
      unfold addonStep
      have k1 : ("@accrue" == "@performance") = false := by decide
      have k2 : ("@accrue" == "@accrue") = true := by decide
      have k3 : (!Accrual.zero.range.empty) = false := by decide
      simp only [k1, k2, k3, Bool.false_eq_true, if_false, if_true, p1, Res.bind]
    rw [hstep]
    simp only
    rw [readRest_nl _ _ hv]

/-- one round of `parseAddons` over a rendered `@performance(...)` line -/
theorem addons_iter_perf (start off : Nat) (a0 : Accrual) (ts : List (List Tok)) (hok : ∀ t ∈ ts, CommodityOK t)
    (next : List Tok) (hv : HeadValid next) :
    ∃ p2 off', p2.range.empty = false ∧
      (∀ text, Good text ⟨off, renderPerformanceT ts ++ next⟩ →
        p2.targets.mapM (fun (c : Commodity) => c.range.extract text) = some (ts.map flat) ∧ Good text ⟨off', next⟩) ∧
      addonsLoop start Performance.zero a0 ⟨off, renderPerformanceT ts ++ next⟩ =
        (if cur ⟨off', next⟩ != 64 then .ok ⟨rng start ⟨off', next⟩, p2, a0⟩ ⟨off', next⟩
         else addonsLoop start p2 a0 ⟨off', next⟩) := by
  have e : renderPerformanceT ts ++ next = lits "@performance" ++ (tk 40 :: (joinCommaT ts ++ tk 41 :: (tk 10 :: next))) := by
    simp [renderPerformanceT]
  rw [e]
  obtain ⟨p2, off1, p1, hs, view1⟩ := parsePerformance_complete ts hok (off + 12) (tk 10 :: next) (hv_tk (by decide))
  have hr := (parsePerformance_ok p1).1
  have o1 := (parsePerformance_fwd _).2 _ _ p1
  simp only at hr o1
  refine ⟨{ p2 with range := p2.range.extend ⟨off, off + 12⟩ }, off1 + 1, ?_, ?_, ?_⟩
  · simp only [hr, extend_kw (Nat.le_add_right off 12) o1, Range.empty, beq_eq_false_iff_ne]
    omega
  · intro text hG
    have G1 : Good text ⟨off + 12, tk 40 :: (joinCommaT ts ++ tk 41 :: (tk 10 :: next))⟩ := by
      have := hG.step.2
      rwa [show wsum (lits "@performance") = 12 from by decide] at this
    have G2 : Good text ⟨off1, tk 10 :: next⟩ := good_of_ok G1 (fun s => (parsePerformance_prog s).ext) p1
    exact ⟨view1 text G1, G2.sp⟩
  · rw [addonsLoop_eq, readAlt_performance off _ (hv_tk (by decide))]
    simp only [Res.bind]
    have hstep : addonStep start Performance.zero a0 ⟨off, off + 12⟩ "@performance"
        ⟨off + 12, tk 40 :: (joinCommaT ts ++ tk 41 :: (tk 10 :: next))⟩ =
        .ok ({ p2 with range := p2.range.extend ⟨off, off + 12⟩ }, a0) ⟨off1, tk 10 :: next⟩ := by
      unfold addonStep
      have k1 : ("@performance" == "@performance") = true := by decide
      have k3 : (!Performance.zero.range.empty) = false := by decide
      simp only [k1, k3, Bool.false_eq_true, if_false, if_true, p1, Res.bind]
    rw [hstep]
    simp only
    rw [readRest_nl _ _ hv]

theorem digit_i : isDigit 105 = false := by decide +kernel
theorem digit_at : isDigit 64 = false := by decide +kernel
theorem digit_quote : isDigit 34 = false := by decide +kernel

/-- the first token of a date is a digit: not `@`, not `i`, not `"`, and it is validly encoded -/
theorem DateOK.first {c : List Tok} (h : DateOK c) (off : Nat) (x : List Tok) :
    (cur ⟨off, c ++ x⟩ == 64) = false ∧ (cur ⟨off, c ++ x⟩ == 105) = false ∧ HeadValid (c ++ x) ∧
      (cur ⟨off, c ++ x⟩ != 64) = true := by
  obtain ⟨⟨d1, d2, d3, d4, h1, d5, d6, h2, d7, d8, rfl, p1, _⟩, hv⟩ := h
  have v1 : d1.invalid = false := hv d1 List.mem_cons_self
  simp only [List.cons_append, cur_cons]
  refine ⟨?_, ?_, HeadValid.cons v1, ?_⟩
  · simp only [beq_eq_false_iff_ne]; intro e; rw [e, digit_at] at p1; cases p1
  · simp only [beq_eq_false_iff_ne]; intro e; rw [e, digit_i] at p1; cases p1
  · simp only [bne_iff_ne, ne_eq]; intro e; rw [e, digit_at] at p1; cases p1

/-- the four directive keywords in rendered text -/
theorem readAlt_kw (kw : String) (hk : kw ∈ ["open", "close", "balance", "price"]) (off : Nat) (x : List Tok)
    (hx : HeadValid x) :
    readAlternative ["open", "close", "balance", "price"] ⟨off, lits kw ++ x⟩ =
      .ok (⟨off, off + wsum (lits kw)⟩, kw) ⟨off + wsum (lits kw), x⟩ := by
  simp only [List.mem_cons, List.not_mem_nil, or_false] at hk
  unfold readAlternative
  rcases hk with rfl | rfl | rfl | rfl
  · have hit := readString_complete "open" off (lits "open") x (by decide) (valid_lits _ (by decide)) hx
    have hE : atEOF ⟨off, lits "open" ++ x⟩ = false := by rfl
    rw [hE]; simp only [Bool.false_eq_true, if_false]
    exact readAltL_hit _ _ _ _ _ _ hit
  · have hit := readString_complete "close" off (lits "close") x (by decide) (valid_lits _ (by decide)) hx
    have hE : atEOF ⟨off, lits "close" ++ x⟩ = false := by rfl
    have hc : cur ⟨off, lits "close" ++ x⟩ = 99 := by rfl
    rw [hE]; simp only [Bool.false_eq_true, if_false]
    rw [readAltL_skip _ _ _ _ (readString_mismatch "open" _ 111 [112, 101, 110] (by decide) (by rw [hc]; decide))]
    exact readAltL_hit _ _ _ _ _ _ hit
  · have hit := readString_complete "balance" off (lits "balance") x (by decide) (valid_lits _ (by decide)) hx
    have hE : atEOF ⟨off, lits "balance" ++ x⟩ = false := by rfl
    have hc : cur ⟨off, lits "balance" ++ x⟩ = 98 := by rfl
    rw [hE]; simp only [Bool.false_eq_true, if_false]
    rw [readAltL_skip _ _ _ _ (readString_mismatch "open" _ 111 [112, 101, 110] (by decide) (by rw [hc]; decide))]
    rw [readAltL_skip _ _ _ _ (readString_mismatch "close" _ 99 [108, 111, 115, 101] (by decide) (by rw [hc]; decide))]
    exact readAltL_hit _ _ _ _ _ _ hit
  · have hit := readString_complete "price" off (lits "price") x (by decide) (valid_lits _ (by decide)) hx
    have hE : atEOF ⟨off, lits "price" ++ x⟩ = false := by rfl
    have hc : cur ⟨off, lits "price" ++ x⟩ = 112 := by rfl
    rw [hE]; simp only [Bool.false_eq_true, if_false]
    rw [readAltL_skip _ _ _ _ (readString_mismatch "open" _ 111 [112, 101, 110] (by decide) (by rw [hc]; decide))]
    rw [readAltL_skip _ _ _ _ (readString_mismatch "close" _ 99 [108, 111, 115, 101] (by decide) (by rw [hc]; decide))]
    rw [readAltL_skip _ _ _ _ (readString_mismatch "balance" _ 98 [97, 108, 97, 110, 99, 101] (by decide) (by rw [hc]; decide))]
    exact readAltL_hit _ _ _ _ _ _ hit

/-- `date keyword ` at the start of a rendered open/close/balance/price directive: up to and including the
white space after the keyword (`sep` is that white space: a blank, or nothing before the line break of a
multi-line assertion) -/
theorem body_prefix_complete (start : Nat) (addons : Addons) (d : List Tok) (hd : DateOK d) (kw : String)
    (hk : kw ∈ ["open", "close", "balance", "price"]) (off : Nat) (x : List Tok) (hx : HeadValid x)
    (hxw : HeadNot isWhitespace x) :
    parseDirectiveBody start addons ⟨off, d ++ (tk 32 :: (lits kw ++ (tk 32 :: x)))⟩ =
      parseKeyword start ⟨⟨off, off + wsum d⟩⟩ kw ⟨off + wsum d + 1 + wsum (lits kw) + 1, x⟩ := by
  obtain ⟨_, c105, _, _⟩ := hd.first off (tk 32 :: (lits kw ++ (tk 32 :: x)))
  unfold parseDirectiveBody
  simp only [c105, Bool.false_eq_true, if_false, Res.bind]
  rw [parseDate_complete hd.1 hd.2 off _ (hv_tk (by decide))]
  simp only
  have hl : StartsSolid (lits kw) := by
    simp only [List.mem_cons, List.not_mem_nil, or_false] at hk
    rcases hk with rfl | rfl | rfl | rfl
    · exact ⟨tk 111, lits "pen", by decide, by decide⟩
    · exact ⟨tk 99, lits "lose", by decide, by decide⟩
    · exact ⟨tk 98, lits "alance", by decide, by decide⟩
    · exact ⟨tk 112, lits "rice", by decide, by decide⟩
  have hlv : HeadValid (lits kw ++ (tk 32 :: x)) := by
    simp only [List.mem_cons, List.not_mem_nil, or_false] at hk
    rcases hk with rfl | rfl | rfl | rfl <;> exact hv_tk (by decide)
  rw [readWhitespace1_sp _ _ hlv hl.headNotWs]
  simp only
  have c34 : (cur ⟨off + wsum d + 1, lits kw ++ (tk 32 :: x)⟩ == 34) = false := by
    simp only [List.mem_cons, List.not_mem_nil, or_false] at hk
    rcases hk with rfl | rfl | rfl | rfl <;> rfl
  simp only [c34, Bool.false_eq_true, if_false]
  rw [readAlt_kw kw hk _ _ (hv_tk (by decide))]
  simp only
  rw [readWhitespace1_sp _ _ hx hxw]

/-- `parseDirective` when no annotation precedes the directive -/
theorem parseDirective_plain (s : St) (h : (cur s == 64) = false) :
    parseDirective s = (parseDirectiveBody s.off Addons.zero s).bind (fun e _ => e) fun body s' =>
      .ok ⟨rng s.off s', body⟩ s' := by
  unfold parseDirective
  simp only [h, Bool.false_eq_true, if_false, Res.bind]

/-- `Good` after the prefix `date keyword ` -/
theorem Good.prefix {text : Bytes} {off : Nat} {d : List Tok} {kw : String} {x : List Tok}
    (hG : Good text ⟨off, d ++ (tk 32 :: (lits kw ++ (tk 32 :: x)))⟩) :
    Range.extract text ⟨off, off + wsum d⟩ = some (flat d) ∧ Good text ⟨off + wsum d + 1 + wsum (lits kw) + 1, x⟩ := by
  obtain ⟨e1, G1⟩ := hG.step
  have G2 := G1.sp
  obtain ⟨_, G3⟩ := G2.step
  exact ⟨e1, G3.sp⟩

theorem dir_open_complete (d a : List Tok) (hd : DateOK d) (ha : AccountOK a) (off : Nat) (r : List Tok) (hr : GapStart r) :
    ∃ d2 off', parseDirective ⟨off, d ++ lits " open " ++ a ++ r⟩ = .ok d2 ⟨off', r⟩ ∧
      ∀ text, Good text ⟨off, d ++ lits " open " ++ a ++ r⟩ → viewDirective text d2 = some (DirT.open d a).bytes := by
  have e : d ++ lits " open " ++ a ++ r = d ++ (tk 32 :: (lits "open" ++ (tk 32 :: (a ++ r)))) := by
    have : lits " open " = tk 32 :: (lits "open" ++ [tk 32]) := by decide
    simp [this]
  rw [e]
  obtain ⟨c64, _, _, _⟩ := hd.first off (tk 32 :: (lits "open" ++ (tk 32 :: (a ++ r))))
  obtain ⟨⟨m, ia⟩, va⟩ := ha
  rw [parseDirective_plain _ c64]
  simp only
  rw [body_prefix_complete off Addons.zero d hd "open" (by simp) off (a ++ r) (AccountOK.headValid ⟨⟨m, ia⟩, va⟩)
    (AccountOK.solid ⟨⟨m, ia⟩, va⟩).headNotWs]
  unfold parseKeyword parseOpen
  have k : ("open" == "open") = true := by decide
  simp only [k, if_true, Res.bind]
  rw [parseAccount_complete ia va _ r hr.headValid hr.notAlnum hr.notColon]
  refine ⟨_, _, rfl, ?_⟩
  intro text hG
  obtain ⟨e1, G1⟩ := hG.prefix
  obtain ⟨e2, _⟩ := G1.step
  simp [viewDirective, e1, e2, DirT.bytes]

theorem dir_close_complete (d a : List Tok) (hd : DateOK d) (ha : AccountOK a) (off : Nat) (r : List Tok) (hr : GapStart r) :
    ∃ d2 off', parseDirective ⟨off, d ++ lits " close " ++ a ++ r⟩ = .ok d2 ⟨off', r⟩ ∧
      ∀ text, Good text ⟨off, d ++ lits " close " ++ a ++ r⟩ → viewDirective text d2 = some (DirT.close d a).bytes := by
  have e : d ++ lits " close " ++ a ++ r = d ++ (tk 32 :: (lits "close" ++ (tk 32 :: (a ++ r)))) := by
    have : lits " close " = tk 32 :: (lits "close" ++ [tk 32]) := by decide
    simp [this]
  rw [e]
  obtain ⟨c64, _, _, _⟩ := hd.first off (tk 32 :: (lits "close" ++ (tk 32 :: (a ++ r))))
  obtain ⟨⟨m, ia⟩, va⟩ := ha
  rw [parseDirective_plain _ c64]
  simp only
  rw [body_prefix_complete off Addons.zero d hd "close" (by simp) off (a ++ r) (AccountOK.headValid ⟨⟨m, ia⟩, va⟩)
    (AccountOK.solid ⟨⟨m, ia⟩, va⟩).headNotWs]
  unfold parseKeyword parseClose
  have k1 : ("close" == "open") = false := by decide
  have k2 : ("close" == "close") = true := by decide
  simp only [k1, k2, Bool.false_eq_true, if_false, if_true, Res.bind]
  rw [parseAccount_complete ia va _ r hr.headValid hr.notAlnum hr.notColon]
  refine ⟨_, _, rfl, ?_⟩
  intro text hG
  obtain ⟨e1, G1⟩ := hG.prefix
  obtain ⟨e2, _⟩ := G1.step
  simp [viewDirective, e1, e2, DirT.bytes]

theorem dir_price_complete (d c p t : List Tok) (hd : DateOK d) (hc : CommodityOK c) (hp : DecimalOK p) (ht : CommodityOK t)
    (off : Nat) (r : List Tok) (hr : GapStart r) :
    ∃ d2 off', parseDirective ⟨off, d ++ lits " price " ++ c ++ tk 32 :: p ++ tk 32 :: t ++ r⟩ = .ok d2 ⟨off', r⟩ ∧
      ∀ text, Good text ⟨off, d ++ lits " price " ++ c ++ tk 32 :: p ++ tk 32 :: t ++ r⟩ →
        viewDirective text d2 = some (DirT.price d c p t).bytes := by
  have e : d ++ lits " price " ++ c ++ tk 32 :: p ++ tk 32 :: t ++ r =
      d ++ (tk 32 :: (lits "price" ++ (tk 32 :: (c ++ (tk 32 :: (p ++ (tk 32 :: (t ++ r)))))))) := by
    have : lits " price " = tk 32 :: (lits "price" ++ [tk 32]) := by decide
    simp [this]
  rw [e]
  obtain ⟨c64, _, _, _⟩ := hd.first off (tk 32 :: (lits "price" ++ (tk 32 :: (c ++ (tk 32 :: (p ++ (tk 32 :: (t ++ r))))))))
  rw [parseDirective_plain _ c64]
  simp only
  rw [body_prefix_complete off Addons.zero d hd "price" (by simp) off _ hc.headValid hc.solid.headNotWs]
  unfold parseKeyword parsePrice
  have k1 : ("price" == "open") = false := by decide
  have k2 : ("price" == "close") = false := by decide
  have k3 : ("price" == "balance") = false := by decide
  simp only [k1, k2, k3, Bool.false_eq_true, if_false, Res.bind]
  rw [parseCommodity_complete hc.1 hc.2 _ _ (hv_tk (by decide)) (HeadNot.cons (by decide +kernel))]
  simp only
  rw [readWhitespace1_sp _ _ (HeadValid.append hp.2 (hv_tk (by decide))) hp.solid.headNotWs]
  simp only
  rw [parseDecimal_complete hp.1 hp.2 _ _ (hv_tk (by decide)) (HeadNot.cons (by decide +kernel)) (HeadNot.cons (by decide))]
  simp only
  rw [readWhitespace1_sp _ _ (HeadValid.append ht.2 hr.headValid) ht.solid.headNotWs]
  simp only
  rw [parseCommodity_complete ht.1 ht.2 _ _ hr.headValid hr.notAlnum]
  refine ⟨_, _, rfl, ?_⟩
  intro text hG
  obtain ⟨e1, G1⟩ := hG.prefix
  obtain ⟨e2, G2⟩ := G1.step
  have G3 := G2.sp
  obtain ⟨e4, G4⟩ := G3.step
  have G5 := G4.sp
  obtain ⟨e6, _⟩ := G5.step
  simp [viewDirective, e1, e2, e4, e6, DirT.bytes]

theorem dir_assert1_complete (d : List Tok) (b : BalanceT) (hd : DateOK d) (hb : b.ok) (off : Nat) (r : List Tok)
    (hr : GapStart r) :
    ∃ d2 off', parseDirective ⟨off, d ++ lits " balance " ++ renderBalanceT b ++ r⟩ = .ok d2 ⟨off', r⟩ ∧
      ∀ text, Good text ⟨off, d ++ lits " balance " ++ renderBalanceT b ++ r⟩ →
        viewDirective text d2 = some (DirT.assertion d [b]).bytes := by
  have e : d ++ lits " balance " ++ renderBalanceT b ++ r =
      d ++ (tk 32 :: (lits "balance" ++ (tk 32 :: (b.account ++ (tk 32 :: (b.quantity ++ (tk 32 :: (b.commodity ++ r)))))))) := by
    have : lits " balance " = tk 32 :: (lits "balance" ++ [tk 32]) := by decide
    simp [this, renderBalanceT]
  rw [e]
  obtain ⟨c64, _, _, _⟩ := hd.first off (tk 32 :: (lits "balance" ++ (tk 32 :: (b.account ++ (tk 32 :: (b.quantity ++ (tk 32 :: (b.commodity ++ r))))))))
  rw [parseDirective_plain _ c64]
  simp only
  rw [body_prefix_complete off Addons.zero d hd "balance" (by simp) off _ (AccountOK.headValid hb.1) hb.1.solid.headNotWs]
  obtain ⟨b2, off1, p1, view1⟩ := parseBalance_complete b hb (off + wsum d + 1 + wsum (lits "balance") + 1) r hr.headValid hr.notAlnum
  unfold parseKeyword parseAssertion
  have k1 : ("balance" == "open") = false := by decide
  have k2 : ("balance" == "close") = false := by decide
  have k3 : ("balance" == "balance") = true := by decide
  have hnl : isNewline (cur ⟨off + wsum d + 1 + wsum (lits "balance") + 1,
      b.account ++ (tk 32 :: (b.quantity ++ (tk 32 :: (b.commodity ++ r))))⟩) = false := by
    have := (hb.1.solid.cur (off := off + wsum d + 1 + wsum (lits "balance") + 1)
      (r := tk 32 :: (b.quantity ++ (tk 32 :: (b.commodity ++ r))))).1
    simp only [isWhitespaceOrNewline, Bool.or_eq_false_iff] at this
    exact this.1
  simp only [k1, k2, k3, Bool.false_eq_true, if_false, if_true, Res.bind, hnl, p1]
  refine ⟨_, _, rfl, ?_⟩
  intro text hG
  obtain ⟨e1, G1⟩ := hG.prefix
  simp [viewDirective, e1, view1 text G1, DirT.bytes]

theorem dir_include_complete (p : List Tok) (hp : ContentOK p) (off : Nat) (r : List Tok) (hr : GapStart r) :
    ∃ d2 off', parseDirective ⟨off, lits "include \"" ++ p ++ [tk 34] ++ r⟩ = .ok d2 ⟨off', r⟩ ∧
      ∀ text, Good text ⟨off, lits "include \"" ++ p ++ [tk 34] ++ r⟩ → viewDirective text d2 = some (DirT.include p).bytes := by
  have e : lits "include \"" ++ p ++ [tk 34] ++ r = lits "include" ++ (tk 32 :: (tk 34 :: p ++ tk 34 :: r)) := by
    have : lits "include \"" = lits "include" ++ [tk 32, tk 34] := by decide
    simp [this]
  rw [e]
  have c64 : (cur ⟨off, lits "include" ++ (tk 32 :: (tk 34 :: p ++ tk 34 :: r))⟩ == 64) = false := by rfl
  have c105 : (cur ⟨off, lits "include" ++ (tk 32 :: (tk 34 :: p ++ tk 34 :: r))⟩ == 105) = true := by rfl
  rw [parseDirective_plain _ c64]
  unfold parseDirectiveBody parseInclude
  simp only [c105, if_true, Res.bind]
  rw [readString_complete "include" off (lits "include") _ (by decide) (valid_lits _ (by decide)) (hv_tk (by decide))]
  simp only
  rw [readWhitespace1_sp _ _ (by rw [List.cons_append]; exact hv_tk (by decide))
    (by rw [List.cons_append]; exact HeadNot.cons (by decide))]
  simp only
  have hv : Valid (tk 34 :: p ++ [tk 34]) :=
    Valid.cons (tk_valid (by decide)) (hp.2.append (Valid.cons (tk_valid (by decide)) Valid.nil))
  rw [parseQuotedString_complete hp.1 (tk 34) (tk 34) rfl rfl hv _ r hr.headValid]
  refine ⟨_, _, rfl, ?_⟩
  intro text hG
  obtain ⟨_, G1⟩ := hG.step
  have G2 := G1.sp
  have G3 : Good text ⟨off + wsum (lits "include") + 1 + (tk 34).bytes.length, p ++ tk 34 :: r⟩ := by
    rw [List.cons_append] at G2; exact G2.step1
  obtain ⟨e4, _⟩ := G3.step
  simp [viewDirective, e4, DirT.bytes]

/-- `Good` after the prefix `date balance` of a multi-line assertion (the line break is still unread) -/
theorem Good.prefixN {text : Bytes} {off : Nat} {d : List Tok} {x : List Tok}
    (hG : Good text ⟨off, d ++ (tk 32 :: (lits "balance" ++ x))⟩) :
    Range.extract text ⟨off, off + wsum d⟩ = some (flat d) ∧ Good text ⟨off + wsum d + 1 + wsum (lits "balance"), x⟩ := by
  obtain ⟨e1, G1⟩ := hG.step
  have G2 := G1.sp
  obtain ⟨_, G3⟩ := G2.step
  exact ⟨e1, G3⟩

theorem dir_assertN_complete (d : List Tok) (bs : List BalanceT) (hd : DateOK d) (hne : bs ≠ []) (hb : ∀ b ∈ bs, b.ok)
    (off : Nat) (r : List Tok) (hr : GapStart r) :
    ∃ d2 off', parseDirective ⟨off, d ++ lits " balance" ++ tk 10 :: renderBalancesT bs ++ r⟩ = .ok d2 ⟨off', r⟩ ∧
      ∀ text, Good text ⟨off, d ++ lits " balance" ++ tk 10 :: renderBalancesT bs ++ r⟩ →
        viewDirective text d2 = some (DirT.assertion d bs).bytes := by
  have e : d ++ lits " balance" ++ tk 10 :: renderBalancesT bs ++ r =
      d ++ (tk 32 :: (lits "balance" ++ (tk 10 :: (renderBalancesT bs ++ r)))) := by
    have : lits " balance" = tk 32 :: lits "balance" := by decide
    simp [this]
  rw [e]
  obtain ⟨c64, c105, _, _⟩ := hd.first off (tk 32 :: (lits "balance" ++ (tk 10 :: (renderBalancesT bs ++ r))))
  rw [parseDirective_plain _ c64]
  obtain ⟨b0, brest, hbs⟩ : ∃ b0 brest, bs = b0 :: brest := by
    cases bs with
    | nil => exact absurd rfl hne
    | cons x y => exact ⟨x, y, rfl⟩
  have ⟨hsol, hval⟩ := renderBalancesT_solid b0 brest (hb b0 (by rw [hbs]; exact List.mem_cons_self)) r
  rw [← hbs] at hsol hval
  obtain ⟨bs2, off1, p1, view1⟩ := balancesLoop_complete bs hne hb off [] (off + wsum d + 1 + wsum (lits "balance") + 1) r hr
  unfold parseDirectiveBody
  simp only [c105, Bool.false_eq_true, if_false, Res.bind]
  rw [parseDate_complete hd.1 hd.2 off _ (hv_tk (by decide))]
  simp only
  have hbal : StartsSolid (lits "balance") := ⟨tk 98, lits "alance", by decide, by decide⟩
  rw [readWhitespace1_sp _ _ (HeadValid.append (valid_lits _ (by decide)) (hv_tk (by decide))) hbal.headNotWs]
  simp only
  have c34 : (cur ⟨off + wsum d + 1, lits "balance" ++ (tk 10 :: (renderBalancesT bs ++ r))⟩ == 34) = false := by rfl
  simp only [c34, Bool.false_eq_true, if_false]
  rw [readAlt_kw "balance" (by simp) _ _ (hv_tk (by decide))]
  simp only
  -- no blank after the keyword: `readWhitespace1` accepts the line break and reads nothing
  have hw1 : readWhitespace1 ⟨off + wsum d + 1 + wsum (lits "balance"), tk 10 :: (renderBalancesT bs ++ r)⟩ =
      .ok ⟨off + wsum d + 1 + wsum (lits "balance"), off + wsum d + 1 + wsum (lits "balance")⟩
        ⟨off + wsum d + 1 + wsum (lits "balance"), tk 10 :: (renderBalancesT bs ++ r)⟩ := by
    unfold readWhitespace1
    have : isWhitespaceOrNewline (cur ⟨off + wsum d + 1 + wsum (lits "balance"), tk 10 :: (renderBalancesT bs ++ r)⟩) = true := by rfl
    simp only [this, Bool.not_true, Bool.false_and, Bool.false_eq_true, if_false]
    exact readWhile_none isWhitespace _ _ (HeadNot.cons (by decide))
  rw [hw1]
  simp only
  unfold parseKeyword parseAssertion
  have k1 : ("balance" == "open") = false := by decide
  have k2 : ("balance" == "close") = false := by decide
  have k3 : ("balance" == "balance") = true := by decide
  have hnl : isNewline (cur ⟨off + wsum d + 1 + wsum (lits "balance"), tk 10 :: (renderBalancesT bs ++ r)⟩) = true := by rfl
  simp only [k1, k2, k3, Bool.false_eq_true, if_false, if_true, Res.bind, hnl]
  rw [readRest_nl _ _ hval]
  simp only
  rw [p1]
  refine ⟨_, _, rfl, ?_⟩
  intro text hG
  obtain ⟨e1, G1⟩ := hG.prefixN
  have G2 := G1.sp
  have := view1 text G2
  simp only [List.reverse_nil, List.nil_append] at this ⊢
  simp [viewDirective, e1, this, DirT.bytes]

/-- the tokens of a rendered transaction after its annotations -/
def trxTail (padding : Nat) (d desc : List Tok) (bs : List BookingT) (r : List Tok) : List Tok :=
  d ++ (tk 32 :: ((tk 34 :: desc) ++ (tk 34 :: (tk 10 :: (renderBookingsT padding bs ++ r)))))

theorem trx_body_complete (padding start : Nat) (addons : Addons) (d desc : List Tok) (bs : List BookingT)
    (hd : DateOK d) (hdesc : ContentOK desc) (hne : bs ≠ []) (hb : ∀ b ∈ bs, b.ok) (off : Nat) (r : List Tok)
    (hr : GapStart r) :
    ∃ t2 off', parseDirectiveBody start addons ⟨off, trxTail padding d desc bs r⟩ = .ok (.transaction t2) ⟨off', r⟩ ∧
      t2.addons = addons ∧
      ∀ text, Good text ⟨off, trxTail padding d desc bs r⟩ →
        t2.date.range.extract text = some (flat d) ∧ t2.description.content.extract text = some (flat desc) ∧
        t2.bookings.mapM (viewBooking text) = some (bs.map BookingT.bytes) := by
  unfold trxTail
  obtain ⟨_, c105, _, _⟩ := hd.first off (tk 32 :: ((tk 34 :: desc) ++ (tk 34 :: (tk 10 :: (renderBookingsT padding bs ++ r)))))
  obtain ⟨b0, brest, hbs⟩ : ∃ b0 brest, bs = b0 :: brest := by
    cases bs with
    | nil => exact absurd rfl hne
    | cons x y => exact ⟨x, y, rfl⟩
  have hsol := renderBookingsT_solid padding b0 brest (hb b0 (by rw [hbs]; exact List.mem_cons_self)) r
  have hval : HeadValid (renderBookingsT padding bs ++ r) := by
    rw [hbs]
    have := AccountOK.headValid (x := spacesT (padding - b0.credit.length + 1) ++ b0.debit ++ spacesT (padding - b0.debit.length + 1) ++
      spacesT (10 - b0.quantity.length) ++ b0.quantity ++ tk 32 :: b0.commodity ++ tk 10 :: renderBookingsT padding brest ++ r)
      (hb b0 (by rw [hbs]; exact List.mem_cons_self)).1
    simpa [renderBookingsT, renderBookingT] using this
  unfold parseDirectiveBody
  simp only [c105, Bool.false_eq_true, if_false, Res.bind]
  rw [parseDate_complete hd.1 hd.2 off _ (hv_tk (by decide))]
  simp only
  rw [readWhitespace1_sp _ _ (by rw [List.cons_append]; exact hv_tk (by decide))
    (by rw [List.cons_append]; exact HeadNot.cons (by decide))]
  simp only
  have c34 : (cur ⟨off + wsum d + 1, (tk 34 :: desc) ++ (tk 34 :: (tk 10 :: (renderBookingsT padding bs ++ r)))⟩ == 34) = true := by rfl
  simp only [c34, if_true]
  unfold parseTransaction
  simp only [Res.bind]
  have hv : Valid (tk 34 :: desc ++ [tk 34]) :=
    Valid.cons (tk_valid (by decide)) (hdesc.2.append (Valid.cons (tk_valid (by decide)) Valid.nil))
  rw [parseQuotedString_complete hdesc.1 (tk 34) (tk 34) rfl rfl hv _ _ (hv_tk (by decide))]
  simp only
  rw [readRest_nl _ _ hval]
  simp only
  obtain ⟨bs2, off1, p1, view1⟩ := bookingsLoop_complete padding bs hne hb start []
    (off + wsum d + 1 + (tk 34).bytes.length + wsum desc + (tk 34).bytes.length + 1) r hr
  rw [p1]
  refine ⟨_, _, rfl, rfl, ?_⟩
  intro text hG
  obtain ⟨e1, G1⟩ := hG.step
  have G2 := G1.sp
  have G3 : Good text ⟨off + wsum d + 1 + (tk 34).bytes.length, desc ++ (tk 34 :: (tk 10 :: (renderBookingsT padding bs ++ r)))⟩ := by
    rw [List.cons_append] at G2; exact G2.step1
  obtain ⟨e4, G4⟩ := G3.step
  have G5 := G4.step1
  have G6 := G5.sp
  have := view1 text G6
  simp only [List.reverse_nil, List.nil_append] at this ⊢
  exact ⟨e1, e4, this⟩

theorem viewTransaction_of {text : Bytes} {t : Transaction} {aT : Option AccrualT} {pT : Option (List (List Tok))}
    {d desc : List Tok} {bsT : List BookingT}
    (ha : AccrRel text t.addons.accrual aT) (hp : PerfRel text t.addons.performance pT)
    (hd : t.date.range.extract text = some (flat d)) (hc : t.description.content.extract text = some (flat desc))
    (hb : t.bookings.mapM (viewBooking text) = some (bsT.map BookingT.bytes)) :
    viewTransaction text t = some (DirT.transaction aT pT d desc bsT).bytes := by
  simp only [viewTransaction, DirT.bytes]
  cases aT with
  | none =>
    simp only [AccrRel] at ha
    cases pT with
    | none => simp only [PerfRel] at hp; simp [ha, hp, hd, hc, hb]
    | some ts => simp only [PerfRel] at hp; simp [ha, hp.1, hp.2.1, hd, hc, hb]
  | some a =>
    simp only [AccrRel] at ha
    cases pT with
    | none => simp only [PerfRel] at hp; simp [ha.1, ha.2.1, hp, hd, hc, hb]
    | some ts => simp only [PerfRel] at hp; simp [ha.1, ha.2.1, hp.1, hp.2.1, hd, hc, hb]

theorem trxTail_first (padding : Nat) (d desc : List Tok) (bs : List BookingT) (r : List Tok) (hd : DateOK d) (off : Nat) :
    (cur ⟨off, trxTail padding d desc bs r⟩ == 64) = false ∧ HeadValid (trxTail padding d desc bs r) ∧
      (cur ⟨off, trxTail padding d desc bs r⟩ != 64) = true := by
  have := hd.first off (tk 32 :: ((tk 34 :: desc) ++ (tk 34 :: (tk 10 :: (renderBookingsT padding bs ++ r)))))
  exact ⟨this.1, this.2.2.1, this.2.2.2⟩

theorem dir_trx_complete (padding : Nat) (aT : Option AccrualT) (pT : Option (List (List Tok))) (d desc : List Tok)
    (bs : List BookingT) (hok : (DirT.transaction aT pT d desc bs).ok) (hcan : (DirT.transaction aT pT d desc bs).canon)
    (off : Nat) (r : List Tok) (hr : GapStart r) :
    ∃ d2 off', parseDirective ⟨off, renderT padding (.transaction aT pT d desc bs) ++ r⟩ = .ok d2 ⟨off', r⟩ ∧
      ∀ text, Good text ⟨off, renderT padding (.transaction aT pT d desc bs) ++ r⟩ →
        viewDirective text d2 = some (DirT.transaction aT pT d desc bs).bytes := by
  obtain ⟨hao, hpo, hd, hdesc, hne, hb⟩ := hok
  have etail : d ++ tk 32 :: tk 34 :: desc ++ tk 34 :: tk 10 :: renderBookingsT padding bs ++ r = trxTail padding d desc bs r := by
    simp [trxTail]
  cases aT with
  | none =>
    cases pT with
    | none =>
      have e : renderT padding (.transaction none none d desc bs) ++ r = trxTail padding d desc bs r := by
        simp [renderT, trxTail]
      rw [e]
      obtain ⟨c64, hv, _⟩ := trxTail_first padding d desc bs r hd off
      obtain ⟨t2, off', p1, had, view1⟩ := trx_body_complete padding off Addons.zero d desc bs hd hdesc hne hb off r hr
      rw [parseDirective_plain _ c64]
      simp only [p1, Res.bind]
      refine ⟨_, _, rfl, ?_⟩
      intro text hG
      obtain ⟨v1, v2, v3⟩ := view1 text hG
      simp only [viewDirective]
      exact viewTransaction_of (by rw [had]; simp [AccrRel, Addons.zero, Accrual.zero, Range.empty, Range.zero])
        (by rw [had]; simp [PerfRel, Addons.zero, Performance.zero, Range.empty, Range.zero]) v1 v2 v3
    | some ts =>
      have e : renderT padding (.transaction none (some ts) d desc bs) ++ r =
          renderPerformanceT ts ++ trxTail padding d desc bs r := by
        simp [renderT, trxTail]
      rw [e]
      have tsok := hpo ts rfl
      obtain ⟨p2, off1, pe, pview, ploop⟩ := addons_iter_perf off off Accrual.zero ts tsok (trxTail padding d desc bs r)
        (trxTail_first padding d desc bs r hd 0).2.1
      obtain ⟨_, _, hne64⟩ := trxTail_first padding d desc bs r hd off1
      obtain ⟨t2, off', p1, had, view1⟩ := trx_body_complete padding off
        ⟨rng off ⟨off1, trxTail padding d desc bs r⟩, p2, Accrual.zero⟩ d desc bs hd hdesc hne hb off1 r hr
      have c64 : (cur ⟨off, renderPerformanceT ts ++ trxTail padding d desc bs r⟩ == 64) = true := by rfl
      unfold parseDirective parseAddons
      simp only [c64, if_true, Res.bind, ploop, hne64, p1]
      refine ⟨_, _, rfl, ?_⟩
      intro text hG
      obtain ⟨pv, G1⟩ := pview text hG
      obtain ⟨v1, v2, v3⟩ := view1 text G1
      simp only [viewDirective]
      exact viewTransaction_of (by rw [had]; simp [AccrRel, Accrual.zero, Range.empty, Range.zero])
        (by rw [had]; exact ⟨pe, pv, fun t ht => ⟨tsok t ht, hcan.2.1 ts rfl t ht⟩⟩) v1 v2 v3
  | some a =>
    have aok := hao a rfl
    cases pT with
    | none =>
      have e : renderT padding (.transaction (some a) none d desc bs) ++ r =
          renderAccrualT a ++ trxTail padding d desc bs r := by
        simp [renderT, trxTail]
      rw [e]
      obtain ⟨a2, off1, ae, aview, aloop⟩ := addons_iter_accrue off off Performance.zero a aok (trxTail padding d desc bs r)
        (trxTail_first padding d desc bs r hd 0).2.1
      obtain ⟨_, _, hne64⟩ := trxTail_first padding d desc bs r hd off1
      obtain ⟨t2, off', p1, had, view1⟩ := trx_body_complete padding off
        ⟨rng off ⟨off1, trxTail padding d desc bs r⟩, Performance.zero, a2⟩ d desc bs hd hdesc hne hb off1 r hr
      have c64 : (cur ⟨off, renderAccrualT a ++ trxTail padding d desc bs r⟩ == 64) = true := by rfl
      unfold parseDirective parseAddons
      simp only [c64, if_true, Res.bind, aloop, hne64, p1]
      refine ⟨_, _, rfl, ?_⟩
      intro text hG
      obtain ⟨av, G1⟩ := aview text hG
      obtain ⟨v1, v2, v3⟩ := view1 text G1
      simp only [viewDirective]
      exact viewTransaction_of (by rw [had]; exact ⟨ae, av, aok, hcan.1 a rfl⟩)
        (by rw [had]; simp [PerfRel, Performance.zero, Range.empty, Range.zero]) v1 v2 v3
    | some ts =>
      have tsok := hpo ts rfl
      have e : renderT padding (.transaction (some a) (some ts) d desc bs) ++ r =
          renderAccrualT a ++ (renderPerformanceT ts ++ trxTail padding d desc bs r) := by
        simp [renderT, trxTail]
      rw [e]
      have hvp : HeadValid (renderPerformanceT ts ++ trxTail padding d desc bs r) := by
        have : renderPerformanceT ts ++ trxTail padding d desc bs r =
            tk 64 :: (lits "performance" ++ tk 40 :: joinCommaT ts ++ [tk 41, tk 10] ++ trxTail padding d desc bs r) := by
          have l : lits "@performance" = tk 64 :: lits "performance" := by decide
          simp [renderPerformanceT, l]
        rw [this]; exact hv_tk (by decide)
      obtain ⟨a2, off1, ae, aview, aloop⟩ := addons_iter_accrue off off Performance.zero a aok
        (renderPerformanceT ts ++ trxTail padding d desc bs r) hvp
      obtain ⟨p2, off2, pe, pview, ploop⟩ := addons_iter_perf off off1 a2 ts tsok (trxTail padding d desc bs r)
        (trxTail_first padding d desc bs r hd 0).2.1
      obtain ⟨_, _, hne64⟩ := trxTail_first padding d desc bs r hd off2
      have c64p : (cur ⟨off1, renderPerformanceT ts ++ trxTail padding d desc bs r⟩ != 64) = false := by rfl
      obtain ⟨t2, off', p1, had, view1⟩ := trx_body_complete padding off
        ⟨rng off ⟨off2, trxTail padding d desc bs r⟩, p2, a2⟩ d desc bs hd hdesc hne hb off2 r hr
      have c64 : (cur ⟨off, renderAccrualT a ++ (renderPerformanceT ts ++ trxTail padding d desc bs r)⟩ == 64) = true := by rfl
      unfold parseDirective parseAddons
      simp only [c64, if_true, Res.bind, aloop, c64p, Bool.false_eq_true, if_false, ploop, hne64, p1]
      refine ⟨_, _, rfl, ?_⟩
      intro text hG
      obtain ⟨av, G1⟩ := aview text hG
      obtain ⟨pv, G2⟩ := pview text G1
      obtain ⟨v1, v2, v3⟩ := view1 text G2
      simp only [viewDirective]
      exact viewTransaction_of (by rw [had]; exact ⟨ae, av, aok, hcan.1 a rfl⟩) (by rw [had]; exact ⟨pe, pv, fun t ht => ⟨tsok t ht, hcan.2.1 ts rfl t ht⟩⟩) v1 v2 v3

/-- **completeness**: parsing the rendering of a well-formed directive, followed by a gap or the end of the text,
consumes exactly the rendering and yields a directive with the same fields -/
theorem parseDirective_complete (padding : Nat) (v : DirT) (hok : v.ok) (hcan : v.canon) (off : Nat) (r : List Tok)
    (hr : GapStart r) :
    ∃ d2 off', parseDirective ⟨off, renderT padding v ++ r⟩ = .ok d2 ⟨off', r⟩ ∧
      ∀ text, Good text ⟨off, renderT padding v ++ r⟩ → viewDirective text d2 = some v.bytes := by
  cases v with
  | transaction aT pT d desc bs => exact dir_trx_complete padding aT pT d desc bs hok hcan off r hr
  | «open» d a => exact dir_open_complete d a hok.1 hok.2 off r hr
  | close d a => exact dir_close_complete d a hok.1 hok.2 off r hr
  | price d c p t =>
    have := dir_price_complete d c p t hok.1 hok.2.1 hok.2.2.1 hok.2.2.2 off r hr
    simpa [renderT] using this
  | «include» p => exact dir_include_complete p hok off r hr
  | assertion d bs =>
    obtain ⟨hd, hne, hb⟩ := hok
    match bs, hne, hb with
    | [b], _, hb => exact dir_assert1_complete d b hd (hb b List.mem_cons_self) off r hr
    | b1 :: b2 :: rest, hne, hb => exact dir_assertN_complete d (b1 :: b2 :: rest) hd hne hb off r hr

end Knut.Syntax
