import Knut.FactsAgree.TransTableRender2
import Knut.Proofs.TableLayout
/-!
# The translated `TextRenderer.Render` writes exactly the model's text (`Table.renderText`)

The loop over the rows (`Render.range1`) and over the cells of a row (`Render.range2`) against `Table.renderRows` /
`Table.renderCells`; then the whole function: **`Render_agrees`**.

* Same bytes: on a writer that holds `w`, for the Go table of a model table, `Render` returns `w ++ renderText` and a nil error; the
  renderer comes back with its field `table` reset.
* Same panic outcomes: a row with more cells than the table has columns (`widths[i]` in the first pass) and a row without cells
  (`row.cells[0]`) end in Go's `index out of range` exactly where the model answers `panic`.
* Stated assumption: `Color = false` (colour on is outside the model).  The former second assumption `WidthsOK` (no column wider than
  10^6, the limit of `fmt`'s `%*s`) is gone: since the /repo fix `pad the number cells of a text table without fmt's width limit` the
  number cells are padded by `table.padLeft`, which is the model's `padLeft` for every width (`padLeft_agrees`).
-/
namespace Knut.FactsAgree.TransTableRender
open Knut Knut.GoSem
open Knut.Generated.Go

/-! ## the cells of one row -/

theorem getElem_natsGo (ws : List Nat) (k : Nat) (h : k < (natsGo ws).length) :
    (natsGo ws)[k] = ((ws[k]'(by simpa using h) : Nat) : Int) := by
  simp [natsGo]

/-- the loop over the cells from position `|done|` on writes the model's `renderCells` of the remaining cells and widths -/
theorem range2_agrees (tr : table.TextRenderer) (st : Color.State) (ff : Fmt.FloatFmt) (hst : st.NoColor = true)
    (R : table.Row) (row : List Table.Cell) (hR : RowRel R row) (ws : List Nat) :
    ∀ (rest done : List Table.Cell) (wrest wpre : List Nat) (w : String), row = done ++ rest → ws = wpre ++ wrest →
      wpre.length = done.length →
      table.TextRenderer.Render.range2 st ff tr (natsGo ws) R (rest.map cellGo) (done.length : Int) w
        = match Table.renderCells (rendOf tr) rest wrest with
          | some s => Outcome.ok (Flow.next (w ++ String.ofList s))
          | none => Outcome.panic idxPanic := by
  intro rest
  induction rest with
  | nil =>
    intro done wrest wpre w _ _ _
    simp [table.TextRenderer.Render.range2, Table.renderCells]
  | cons c rest ih =>
    intro done wrest wpre w hrow hw hlen
    rw [List.map_cons]
    unfold table.TextRenderer.Render.range2
    cases wrest with
    | nil =>
      have h1 : ¬ (((done.length : Nat) : Int) < 0) := by omega
      have h2 : (natsGo ws)[((done.length : Nat) : Int).toNat]? = none := by
        rw [hw]; simp [hlen]
      simp only [index, h1, if_false, h2, Outcome.bind, Table.renderCells, idxPanic]
    | cons x wrest =>
      have hlen' : ((done.length : Nat) : Int).toNat < (natsGo ws).length := by rw [hw]; simp [hlen]
      have hget : (natsGo ws)[((done.length : Nat) : Int).toNat] = (x : Int) := by
        rw [getElem_natsGo]; simp [hw, ← hlen]
      simp only [index_ok _ _ (Int.natCast_nonneg _) hlen', hget, renderCell_agrees tr c x w st ff hst, Outcome.bind]
      have hcells : R.cells = (done ++ c :: rest).map cellGo := by rw [← hrow]; exact hR
      have hdone : done ++ c :: rest = (done ++ [c]) ++ rest := by simp
      have hdl : ((done.length : Nat) : Int) + 1 = (((done ++ [c]).length : Nat) : Int) := by simp
      cases rest with
      | nil =>
        have hlt : ¬ (((done.length : Nat) : Int) < len R.cells - 1) := by
          rw [hcells]; simp
        simp only [hlt, decide_false, Bool.false_eq_true, if_false]
        rw [hdl]
        have := ih (done ++ [c]) wrest (wpre ++ [x]) (w ++ String.ofList (Table.renderCell (rendOf tr) c x))
          (by rw [hrow]; simp) (by rw [hw]; simp) (by simp [hlen])
        rw [this]
        simp [Table.renderCells]
      | cons c' rest =>
        have hlt : ((done.length : Nat) : Int) < len R.cells - 1 := by
          rw [hcells]; simp; omega
        have hi : index R.cells (((done.length : Nat) : Int) + 1) = Outcome.ok (cellGo c') := by
          have hl2 : (((done.length : Nat) : Int) + 1).toNat < R.cells.length := by
            rw [hcells]; simp
          rw [index_ok _ _ (by omega) hl2]
          congr 1
          have : (((done.length : Nat) : Int) + 1).toNat = done.length + 1 := by omega
          simp [hcells, this]
        simp only [hlt, decide_true, if_true, hi, Outcome.bind, Writer.Write, Option.isSome_none, Bool.false_eq_true, if_false,
          createSep_agrees]
        rw [hdl]
        have := ih (done ++ [c]) wrest (wpre ++ [x])
          (w ++ String.ofList (Table.renderCell (rendOf tr) c x) ++ String.ofList (Table.createSep c c'))
          (by rw [hrow]; simp) (by rw [hw]; simp) (by simp [hlen])
        rw [this]
        simp only [Table.renderCells]
        cases Table.renderCells (rendOf tr) (c' :: rest) wrest with
        | none => rfl
        | some t => simp [ofList_append, String.append_assoc]

/-! ## the rows -/

theorem getLast_cells (c0 : Table.Cell) (cs : List Table.Cell) :
    index ((c0 :: cs).map cellGo) (len ((c0 :: cs).map cellGo) - 1) = Outcome.ok (cellGo (((c0 :: cs).getLast?).getD c0)) := by
  have hl : (len ((c0 :: cs).map cellGo) - 1).toNat < ((c0 :: cs).map cellGo).length := by simp
  rw [index_ok _ _ (by simp) hl]
  congr 1
  have h1 : (len ((c0 :: cs).map cellGo) - 1).toNat = cs.length := by simp
  simp only [h1, List.getElem_map]
  congr 1
  rw [List.getLast?_eq_getElem?]
  simp

/-- one row: `"| "`/`"+-"`, the cells, `" |\n"`/`"-+\n"` -/
theorem row_agrees (tr : table.TextRenderer) (st : Color.State) (ff : Fmt.FloatFmt) (hst : st.NoColor = true)
    (ws : List Nat) (R : table.Row) (row : List Table.Cell) (hR : RowRel R row)
    (rows : List table.Row) (w : String) :
    table.TextRenderer.Render.range1 st ff tr (natsGo ws) (R :: rows) w
      = match Table.renderRow (rendOf tr) ws row with
        | some l => table.TextRenderer.Render.range1 st ff tr (natsGo ws) rows (w ++ String.ofList (l ++ ['\n']))
        | none => Outcome.panic idxPanic := by
  rw [table.TextRenderer.Render.range1]
  cases row with
  | nil =>
    have : R.cells = [] := hR
    simp [this, index, Outcome.bind, Table.renderRow, idxPanic]
  | cons c0 cs =>
    have hc : R.cells = (c0 :: cs).map cellGo := hR
    have h0 : index R.cells 0 = Outcome.ok (cellGo c0) := by
      simp [hc, index]
    simp only [h0, Outcome.bind, isSep_agrees, Writer.Write, Option.isSome_none, Bool.false_eq_true, if_false]
    have key : ∀ w0 : String,
        table.TextRenderer.Render.range2 st ff tr (natsGo ws) R R.cells 0 w0
          = match Table.renderCells (rendOf tr) (c0 :: cs) ws with
            | some s => Outcome.ok (Flow.next (w0 ++ String.ofList s))
            | none => Outcome.panic idxPanic := by
      intro w0
      have := range2_agrees tr st ff hst R (c0 :: cs) hR ws (c0 :: cs) [] ws [] w0 rfl rfl rfl
      rw [hc]
      simpa using this
    have hlast : index R.cells (len R.cells - 1)
        = Outcome.ok (cellGo (((c0 :: cs).getLast?).getD c0)) := by rw [hc]; exact getLast_cells c0 cs
    simp only [Table.renderRow]
    cases hsep : c0.isSep <;>
      simp only [Bool.false_eq_true, if_false, if_true, key] <;>
      cases Table.renderCells (rendOf tr) (c0 :: cs) ws with
      | none => rfl
      | some body =>
        simp only [hlast, Outcome.bind, isSep_agrees, Writer.Write, Option.isSome_none, Bool.false_eq_true, if_false]
        cases (((c0 :: cs).getLast?).getD c0).isSep <;>
          simp only [Bool.false_eq_true, if_false, if_true] <;>
          (congr 1; apply String.ext; simp [String.append_assoc])

theorem rows_agrees (tr : table.TextRenderer) (st : Color.State) (ff : Fmt.FloatFmt) (hst : st.NoColor = true)
    (ws : List Nat) : ∀ (rows : List (List Table.Cell)) (Rs : List table.Row) (w : String),
    RowsRel Rs rows →
    table.TextRenderer.Render.range1 st ff tr (natsGo ws) Rs w
      = match Table.renderRows (rendOf tr) ws rows with
        | some ls => Outcome.ok (Flow.next (w ++ String.ofList (ls.flatMap (· ++ ['\n']))))
        | none => Outcome.panic idxPanic := by
  intro rows
  induction rows with
  | nil =>
    intro Rs w h
    cases Rs with
    | nil => simp [table.TextRenderer.Render.range1, Table.renderRows]
    | cons _ _ => exact absurd h (by simp [RowsRel])
  | cons row rows ih =>
    intro Rs w h
    cases Rs with
    | nil => exact absurd h (by simp [RowsRel])
    | cons R Rs =>
      rw [row_agrees tr st ff hst ws R row h.1]
      simp only [Table.renderRows]
      cases Table.renderRow (rendOf tr) ws row with
      | none => rfl
      | some l =>
        simp only [ih Rs _ h.2]
        cases Table.renderRows (rendOf tr) ws rows with
        | none => rfl
        | some ls => simp [ofList_append, String.append_assoc]

/-! ## the whole function -/

/-! `Render_unfold`: the generated `Render` is the composition of the three width passes (with the loop bodies restated in
`TransTableRender2`), the loop over the rows and the final newline -/
theorem Render_unfold (r0 : table.TextRenderer) (t : table.Table) (w : String) (cs0 : Color.State) (ff : Fmt.FloatFmt) :
    table.TextRenderer.Render r0 t w cs0 ff =
      (let r : table.TextRenderer := { r0 with table := t }
       let cs : Color.State := { cs0 with NoColor := (!r.Color) }
       Outcome.bind (makeSlice (α := Int) (table.Table.Width r.table)) (fun widths =>
        Outcome.bind (foldlE (rowStep r ff) widths r.table.rows) (fun widths =>
          Outcome.bind (foldlE (groupStep r.table.columns) ([] : AMap Int Int) (List.zipIdx widths)) (fun groups =>
            Outcome.bind (foldlE (widenStep groups) widths (List.zipIdx widths)) (fun widths =>
              Outcome.bind (table.TextRenderer.Render.range1 cs ff r widths r.table.rows w) (fun r61 =>
                match r61 with
                | Flow.ret v => Outcome.ok v
                | Flow.next st60 =>
                  Outcome.ok ({ r with table := (GoZero.zero : table.Table) }, (Writer.Write st60 "\n").1, (Writer.Write st60 "\n").2.2))))))) := rfl

theorem widthsPass1_length (R : Table.Renderer) (rows : List (List Table.Cell)) (ws ws' : List Nat)
    (h : Table.widthsPass1 R ws rows = some ws') : ws'.length = ws.length :=
  (Table.le2_length (Table.widthsPass1_spec R rows ws ws' h).1).symm

/-- **`TextRenderer.Render` = `Table.renderText`**: the same bytes, the same panic outcomes — for every Go table that stands for the
model table (`TableRel`: the same column groups and cells, any capacities) -/
theorem Render_agrees_rel (tr : table.TextRenderer) (T : table.Table) (t : Table.Table) (hT : TableRel T t) (w : String)
    (cs : Color.State) (ff : Fmt.FloatFmt) (hc : tr.Color = false) :
    table.TextRenderer.Render tr T w cs ff
      = match Table.renderText (rendOf tr) t with
        | .ok s => Outcome.ok ({ tr with table := GoZero.zero }, w ++ String.ofList s, none)
        | .panic _ => Outcome.panic idxPanic := by
  rw [Render_unfold]
  have hR : ∀ x : table.Table, rendOf { tr with table := x } = rendOf tr := fun _ => rfl
  have hcols : T.columns = natsGo t.columns := hT.1
  have hm : makeSlice (α := Int) (table.Table.Width T) = Outcome.ok (natsGo (List.replicate t.width 0)) := by
    simp [makeSlice, table.Table.Width, hcols, Table.Table.width, natsGo]
  simp only [hm, Outcome.bind]
  have h1 := pass1_agrees { tr with table := T } ff t.rows T.rows (List.replicate t.width 0) hT.2
  rw [hR] at h1
  simp only [hcols, h1]
  unfold Table.renderText Table.renderLines Table.finalWidths
  cases hp1 : Table.widthsPass1 (rendOf tr) (List.replicate t.width 0) t.rows with
  | none => rfl
  | some ws1 =>
    simp only [hp1]
    have hl1 : ws1.length ≤ t.columns.length := by
      have := widthsPass1_length _ _ _ _ hp1
      simp [Table.Table.width] at this
      omega
    obtain ⟨gm, hg, hrel⟩ := pass2_agrees t.columns ws1 hl1
    simp only [hg, pass3_agrees gm t.columns ws1 hrel]
    have hst : ({ cs with NoColor := !({ tr with table := T } : table.TextRenderer).Color } : Color.State).NoColor = true := by
      simp [hc]
    have h4 := rows_agrees { tr with table := T } _ ff hst (Table.widthsPass2 t.columns ws1) t.rows T.rows w hT.2
    rw [hR] at h4
    simp only [h4]
    cases Table.renderRows (rendOf tr) (Table.widthsPass2 t.columns ws1) t.rows with
    | none => rfl
    | some ls =>
      simp only [Writer.Write, Table.joinLines]
      congr 2
      have : w ++ String.ofList (List.flatMap (fun x => x ++ ['\n']) ls) ++ "\n"
          = w ++ String.ofList (List.flatMap (fun x => x ++ ['\n']) ls ++ ['\n']) := by
        apply String.ext; simp
      rw [this]

/-- `Render_agrees_rel` for the Go table `tableGo t` (what the builder methods make of `t`: `TransTableBuild`) -/
theorem Render_agrees (tr : table.TextRenderer) (t : Table.Table) (w : String) (cs : Color.State) (ff : Fmt.FloatFmt)
    (hc : tr.Color = false) :
    table.TextRenderer.Render tr (tableGo t) w cs ff
      = match Table.renderText (rendOf tr) t with
        | .ok s => Outcome.ok ({ tr with table := GoZero.zero }, w ++ String.ofList s, none)
        | .panic _ => Outcome.panic idxPanic :=
  Render_agrees_rel tr (tableGo t) t (tableGo_rel t) w cs ff hc

/-- non-vacuity: a 2-column table with a separator row, rendered through the translated code -/
example : table.TextRenderer.Render ⟨GoZero.zero, false, false, 2⟩
    (tableGo ⟨[0, 1], [[.text "a".toList .left 0, .num 1234], [.sep, .sep]]⟩) "" ⟨false, false⟩ (fun _ _ _ => "")
    = Outcome.ok (⟨GoZero.zero, false, false, 2⟩, "| a | 1,234.00 |\n+---+----------+\n\n", none) := by
  decide +kernel

end Knut.FactsAgree.TransTableRender
