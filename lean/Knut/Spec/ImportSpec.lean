import Knut.Model.Journal
/-!
# Specification of C13: what a faithful import is

A statement is read (by the per-format readers of `Spec/ImportItems.lean`) as a list of **items**: booking rows
(date and the net amounts by which the row changes the import account, per currency) and the balance assertions
and prices the statement carries.  An importer is *faithful* when its directives are, one for one, these items:
one transaction per booking row, on the row's date, whose effect on the import account is the row's amount in
every commodity (and which has at least one booking: the journal syntax cannot express a transaction without);
the carried assertions and prices verbatim; and nothing else.

`Matches`/`Faithful` are the propositions, `matchesB`/`faithfulB` the executable versions evaluated by the
monitor on the REAL importer output (as a multiset: `journal.Print` reorders directives by day and sorts
transactions).
-/
namespace Knut.Spec.Import
open Knut

/-- net change of account `a` in commodity `c` by a list of postings -/
def effectOn (a : Account) (c : Commodity) : List Posting → Rat
  | [] => 0
  | p :: ps => (if p.account = a ∧ p.commodity = c then p.quantity else 0) + effectOn a c ps

/-- what the statement says, item by item -/
inductive Item where
  /-- a booking row: its date and its signed amounts on the import account (row currency first) -/
  | booking (date : Int) (effects : List (Commodity × Rat))
  /-- a balance the statement carries for the import account -/
  | assertion (date : Int) (quantity : Rat) (commodity : Commodity)
  /-- a price the statement carries -/
  | price (date : Int) (commodity : Commodity) (price : Rat) (target : Commodity)
  deriving Repr, DecidableEq

/-- the amount a row states for commodity `c` (several entries of one commodity add up) -/
def expected : List (Commodity × Rat) → Commodity → Rat
  | [], _ => 0
  | (c', q) :: rest, c => (if c' = c then q else 0) + expected rest c

/-- directive `d` is exactly what item `i` asks for (import account `a`) -/
def Matches (a : Account) : Item → Directive → Prop
  | .booking date effs, .tx t =>
    t.date = date ∧ (∀ c, effectOn a c t.postings = expected effs c) ∧ t.postings ≠ []
  | .assertion date q c, .assertion x => x = { date := date, balances := [⟨a, q, c⟩] }
  | .price date c p tg, .price x => x = { date := date, commodity := c, price := p, target := tg }
  | _, _ => False

/-- pointwise relation of two lists of equal length -/
inductive All2 {α β : Type} (R : α → β → Prop) : List α → List β → Prop where
  | nil : All2 R [] []
  | cons {a b as bs} : R a b → All2 R as bs → All2 R (a :: as) (b :: bs)

/-- **faithful**: the directives are the statement's items, one for one, in order -/
def Faithful (a : Account) (items : List Item) (ds : List Directive) : Prop := All2 (Matches a) items ds

/-! ### executable versions -/

/-- the commodities in which `a` is touched -/
def touched (a : Account) (ps : List Posting) : List Commodity :=
  (ps.filter (fun p => p.account = a)).map (·.commodity)

def matchesB (a : Account) : Item → Directive → Bool
  | .booking date effs, .tx t =>
    t.date == date && (touched a t.postings ++ effs.map (·.1)).all (fun c => effectOn a c t.postings == expected effs c) &&
      !t.postings.isEmpty
  | .assertion date q c, .assertion x => x == { date := date, balances := [⟨a, q, c⟩] }
  | .price date c p tg, .price x => x == { date := date, commodity := c, price := p, target := tg }
  | _, _ => false

/-- remove the first element satisfying `p` -/
def removeFirst {β : Type} (p : β → Bool) : List β → Option (List β)
  | [] => none
  | x :: xs => if p x then some xs else (removeFirst p xs).map (x :: ·)

/-- every item is matched by a directive of its own, and no directive is left over -/
def faithfulB (a : Account) : List Item → List Directive → Bool
  | [], ds => ds.isEmpty
  | i :: is, ds =>
    match removeFirst (matchesB a i) ds with
    | none => false
    | some ds' => faithfulB a is ds'

/-! ### well-formedness of emitted directives (the hypotheses of the print-then-parse round trip) -/

def validName (s : String) (alnum : Nat → Bool) : Bool := !s.isEmpty && s.toList.all (fun c => alnum c.toNat)

def validAccount (alnum : Nat → Bool) (a : Account) : Bool :=
  match a.segments with
  | [] => false
  | t :: rest => (AccountType.ofName t).isSome && rest.all (fun s => validName s alnum)

/-- a directive the journal grammar can express: a transaction has at least one booking, postings come in pairs,
every account and commodity name is a valid name, and the stored description contains no double quote (the syntax
has no escape for it; the day's transactions are sorted by the stored description, so it must be the printed one) -/
def wellFormed (alnum : Nat → Bool) : Directive → Bool
  | .tx t =>
    t.description.toList.all (fun c => c != '"') &&
    !t.postings.isEmpty && t.postings.length % 2 == 0 &&
    t.postings.all (fun p => validAccount alnum p.account && validAccount alnum p.other && validName p.commodity alnum) &&
    (match t.targets with | none => true | some tg => tg.all (fun c => validName c alnum))
  | .assertion x =>
    !x.balances.isEmpty && x.balances.all (fun b => validAccount alnum b.account && validName b.commodity alnum)
  | .price p => validName p.commodity alnum && validName p.target alnum
  | .opening o => validAccount alnum o.account
  | .closing c => validAccount alnum c.account

end Knut.Spec.Import
