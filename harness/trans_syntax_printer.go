package main

// Go→Lean translator for the syntax layer: what lib/syntax/printer (the printer of `knut format` / `knut infer`) needs on top of
// trans_syntax*.go.  Agreement with the model: lean/Knut/FactsAgree/TransPrinter*.lean (top theorem Format_agrees).
//
//   io.Writer          the BYTES WRITTEN SO FAR (Syn.Writer = Syn.GoString), state passing: `w.Write(bs)` is Syn.Writer.Write w bs nil =
//                      (w ++ bs, len(bs), nil) and rebinds the place w was read from.  This is the behaviour of an in-memory buffer
//                      (bytes.Buffer, which formatFile and infer hand to syntax.FormatFile): it takes every byte and never fails.
//                      Write errors of other writers (a full disk behind os.Stdout) are NOT modelled.
//   []byte             the same bytes as the string it is converted from/to (Syn.GoString); `[]byte(s)` is the identity
//   fmt.Fprintf(w, f, a…)   formats into a buffer and calls w.Write ONCE with it (fmt/print.go Fprintf): the bytes are built from the
//                      constant format (literal pieces, %s, %Ns, %-Ns of strings, %c %d %q as in Sprintf; a `*` width is outside the
//                      subset: fmt rejects widths above 10^6 with %!(BADWIDTH), which is how knut lost its %-*s), then written
//                      through the io.Writer, resp. through the translated method Write of the struct w points to
//   io.WriteString(w, s)    w.Write([]byte(s)) (the translator checks that the type of w has no method WriteString)
//   strings.Join, utf8.RuneCountInString   Syn.Strings.Join, Syn.RuneCountInString
//   strings.Repeat(s, n)    Syn.Strings.Repeat in the Outcome monad (a negative count panics)
//   fmt.Errorf(f, a…)  the case GoError.fmt_Errorf f of the error sum: the constant format only, the (pure) operands are dropped
//   switch d := x.(type)    `match` on the closed sum GoAny; every case names one struct type and leaves the function
//   v, ok := x.(T)     `match` on GoAny: (the value, true) or (the zero value of T, false)
//   xs[i]              GoSem.index (panics outside 0 ≤ i < len)
//   syntax.FormatFile  pinned source text (`p := printer.New(w); return p.Format(f)`): the composition is written out in the
//                      agreement module (the writer handed to New is the one whose final state Format returns inside p)

import (
	"fmt"
	"go/ast"
	"go/constant"
	"go/printer"
	"go/token"
	"go/types"
	"strings"
)

func init() {
	add := func(pkg, marker, decl string) {
		if trStubs[pkg] == "" {
			trStubs[pkg] = "package " + pkg[strings.LastIndex(pkg, "/")+1:] + "\n"
		}
		if !strings.Contains(trStubs[pkg], marker) {
			trStubs[pkg] += decl + "\n"
		}
	}
	add("io", "type Writer interface", "type Writer interface { Write(p []byte) (n int, err error) }")
	add("io", "func WriteString(", "func WriteString(w Writer, s string) (n int, err error)")
	if !strings.Contains(trStubs["fmt"], "import \"io\"") {
		trStubs["fmt"] = strings.Replace(trStubs["fmt"], "package fmt\n", "package fmt\nimport \"io\"\n", 1)
	}
	add("fmt", "func Fprintf(", "func Fprintf(w io.Writer, format string, a ...any) (n int, err error)")
	add("strings", "func Join(", "func Join(elems []string, sep string) string")
	add("unicode/utf8", "func RuneCountInString(", "func RuneCountInString(s string) int")

	tsUnits = append(tsUnits, &tsUnit{pkg: "lib/syntax/printer", mod: "Printer", funcs: []string{
		"New", "Printer.Write", "padRight", "Printer.printAccrual", "Printer.printPosting", "Printer.printOpen", "Printer.printClose", "Printer.printPrice",
		"Printer.printInclude", "Printer.printAssertion", "Printer.printTransaction", "Printer.printDirective", "Printer.PrintDirective",
		"Printer.Initialize", "Printer.Format",
	}})
	tsPinned[trKnutPath+"lib/syntax.FormatFile"] = "func FormatFile(w io.Writer, f directives.File) error { p := printer.New(w) return p.Format(f) }"
}

// ---------------------------------------------------------------------------------------------- types

func tspIsWriter(ty types.Type) bool { return trIsNamed(ty, "io", "Writer") }

func tspIsBytes(ty types.Type) bool {
	sl, ok := ty.Underlying().(*types.Slice)
	if !ok {
		return false
	}
	b, ok := sl.Elem().Underlying().(*types.Basic)
	return ok && b.Kind() == types.Uint8
}

// tspLeanType: the types this file adds to leanType ("" = not one of them)
func tspLeanType(ty types.Type) string {
	switch {
	case tspIsWriter(ty):
		return "Syn.Writer"
	case tspIsBytes(ty):
		return "Syn.GoString"
	}
	return ""
}

// ---------------------------------------------------------------------------------------------- writer calls

var tspWriterFuncs = map[string]bool{"fmt.Fprintf": true, "io.WriteString": true, "(io.Writer).Write": true}

func tspIsWriterCall(info *types.Info, x *ast.CallExpr) bool {
	fo := tsCalledFunc(info, x)
	return fo != nil && tspWriterFuncs[fo.FullName()]
}

// tspMarkWriter: the variable a writer call writes through (for assignedObjs)
func tspMarkWriter(info *types.Info, x *ast.CallExpr, full string, mark func(ast.Expr)) {
	switch full {
	case "fmt.Fprintf", "io.WriteString":
		if len(x.Args) > 0 {
			mark(x.Args[0])
		}
	case "(io.Writer).Write":
		if sel, ok := trUnparen(x.Fun).(*ast.SelectorExpr); ok {
			mark(sel.X)
		}
	}
}

// tspWriteMethod: the translated method Write of the struct the expression w (not an io.Writer itself) points to
func (t *tsT) tspWriteMethod(pkg *trPkg, w ast.Expr) *tsFunc {
	tv, ok := pkg.info.Types[w]
	if !ok || tv.Type == nil || tspIsWriter(tv.Type) {
		return nil
	}
	obj, idx, _ := types.LookupFieldOrMethod(tv.Type, true, pkg.tpkg, "Write")
	fo, _ := obj.(*types.Func)
	if fo == nil || len(idx) != 1 {
		return nil
	}
	return t.funcs[fo.Origin()]
}

// tspCallees: the functions a writer call runs (for the call graph)
func (t *tsT) tspCallees(f *tsFunc, call *ast.CallExpr) []*tsFunc {
	fo := tsCalledFunc(f.pkg.info, call)
	if fo == nil || len(call.Args) == 0 {
		return nil
	}
	switch fo.FullName() {
	case "fmt.Fprintf", "io.WriteString":
		if g := t.tspWriteMethod(f.pkg, call.Args[0]); g != nil {
			return []*tsFunc{g}
		}
	}
	return nil
}

// a call whose first results rebind places (state passing), described for the common tail tspFinish
type tspCall struct {
	app     string
	effect  bool
	targets []*tsLval
	resTys  []types.Type
}

func tspIntErr() []types.Type {
	return []types.Type{types.Typ[types.Int], types.Universe.Lookup("error").Type()}
}

// tspWriteTo: "write the bytes `bytes` to w" — w an io.Writer, or a pointer to a struct with a translated method Write([]byte) (int, error)
func (c *tsCtx) tspWriteTo(w ast.Expr, bytes string, pos token.Pos, viaWriteString bool) *tspCall {
	ty := c.typeOf(w)
	if tspIsWriter(ty) {
		lv := c.lvalOf(w)
		if lv == nil {
			trFail(pos, "the io.Writer %s written to is not a variable or a field: outside the subset", trSrc(w))
		}
		return &tspCall{app: "Syn.Writer.Write " + c.expr(w) + " " + bytes + " " + c.goErrorName("nil"), targets: []*tsLval{lv}, resTys: tspIntErr()}
	}
	if viaWriteString {
		if obj, _, _ := types.LookupFieldOrMethod(ty, true, c.fn.pkg.tpkg, "WriteString"); obj != nil {
			trFail(pos, "io.WriteString to a %s, which has a method WriteString: outside the subset", ty)
		}
	}
	tf := c.t.tspWriteMethod(c.fn.pkg, w)
	if tf == nil {
		trFail(pos, "the writer %s is neither an io.Writer nor a pointer to a struct whose method Write is in the list of translated functions", trSrc(w))
	}
	if tf.rejected != nil {
		trFail(pos, "calls %s, which is rejected", tf.leanName)
	}
	sig := tf.obj.Type().(*types.Signature)
	if sig.Params().Len() != 1 || !tspIsBytes(sig.Params().At(0).Type()) || sig.Results().Len() != 2 || !tsIsIntLike(sig.Results().At(0).Type()) || !trIsError(sig.Results().At(1).Type()) || tf.alias {
		trFail(pos, "the method %s does not have the signature Write([]byte) (int, error)", tf.leanName)
	}
	var args []string
	if tf.fuel {
		if !c.fn.fuel {
			trFail(pos, "internal: call of a function with fuel from one without")
		}
		args = append(args, "fuel")
	}
	args = append(args, c.expr(w), bytes)
	wc := &tspCall{app: c.t.qname(c.unit(), tf.unit, tf.leanName) + " " + strings.Join(args, " "), effect: tf.effect,
		resTys: []types.Type{sig.Results().At(0).Type(), sig.Results().At(1).Type()}}
	for _, mi := range tf.mut {
		if mi != 0 {
			trFail(pos, "internal: %s assigns through its parameter", tf.leanName)
		}
		lv := c.lvalOf(w)
		if lv == nil {
			trFail(pos, "the writer %s is assigned through by its method Write and must be a variable or a field", trSrc(w))
		}
		wc.targets = append(wc.targets, lv)
	}
	return wc
}

// tspWriterCall: fmt.Fprintf / io.WriteString / (io.Writer).Write as a tspCall
func (c *tsCtx) tspWriterCall(x *ast.CallExpr) *tspCall {
	fo := tsCalledFunc(c.info(), x)
	if fo == nil {
		return nil
	}
	if x.Ellipsis != token.NoPos {
		trFail(x.Pos(), "call with … is outside the subset")
	}
	switch fo.FullName() {
	case "(io.Writer).Write":
		sel := trUnparen(x.Fun).(*ast.SelectorExpr)
		return c.tspWriteTo(sel.X, c.expr(x.Args[0]), x.Pos(), false)
	case "io.WriteString":
		return c.tspWriteTo(x.Args[0], c.expr(x.Args[1]), x.Pos(), true)
	case "fmt.Fprintf":
		return c.tspWriteTo(x.Args[0], c.tspFormat(x, 1), x.Pos(), false)
	}
	return nil
}

// tspFinish: bind the call, rebind the places it writes through, hand the projections of its results to `use`
func (c *tsCtx) tspFinish(wc *tspCall, pos token.Pos, nres int, use func(projs []string, tys []types.Type) trLines) trLines {
	if nres != -1 && nres != len(wc.resTys) {
		trFail(pos, "a call with %d results used for %d values", len(wc.resTys), nres)
	}
	var v string
	if wc.effect {
		v = c.hoist(wc.app, pos)
	} else {
		v = "(" + wc.app + ")"
	}
	pre := c.takePre()
	total := len(wc.targets) + len(wc.resTys)
	st := v
	wrap := func(b trLines) trLines { return b }
	if !wc.effect {
		st = c.fresh("r")
		name := st
		wrap = func(b trLines) trLines { return trLet(name, "", trOne(v), b) }
	}
	var body func(i int) trLines
	body = func(i int) trLines {
		if i == len(wc.targets) {
			var projs []string
			for j := range wc.resTys {
				projs = append(projs, tsProj(st, len(wc.targets)+j, total))
			}
			return use(projs, wc.resTys)
		}
		return c.storeLval(wc.targets[i], tsProj(st, i, total), pos, func() trLines { return body(i + 1) })
	}
	return tsWrapPre(pre, wrap(body(0)))
}

// tspFormat: the bytes fmt builds from the constant format x.Args[fi] and the operands after it
func (c *tsCtx) tspFormat(x *ast.CallExpr, fi int) string {
	tv := c.info().Types[x.Args[fi]]
	if tv.Value == nil || tv.Value.Kind() != constant.String {
		trFail(x.Pos(), "a non-constant format is outside the subset")
	}
	format := constant.StringVal(tv.Value)
	if !isValidUTF8(format) {
		trFail(x.Pos(), "a format that is not valid UTF-8 is outside the subset")
	}
	var parts []string
	arg := fi + 1
	lit := ""
	flush := func() {
		if lit != "" {
			parts = append(parts, "Syn.lit "+trLeanStr(lit))
			lit = ""
		}
	}
	next := func() ast.Expr {
		if arg >= len(x.Args) {
			trFail(x.Pos(), "format: missing operand")
		}
		arg++
		return x.Args[arg-1]
	}
	plainString := func(ty types.Type) bool {
		// a string without methods (fmt would call Error/String/Format of a named type)
		return tsIsString(ty) && types.NewMethodSet(ty).Len() == 0
	}
	for i := 0; i < len(format); i++ {
		if format[i] != '%' {
			lit += string(format[i])
			continue
		}
		i++
		if i >= len(format) {
			trFail(x.Pos(), "format ends in %%")
		}
		if format[i] == '%' {
			lit += "%"
			continue
		}
		flush()
		minus := "false"
		if format[i] == '-' {
			minus = "true"
			i++
		}
		width := "" // "" none, "n" digits
		wval := ""
		if i < len(format) && format[i] == '*' {
			trFail(x.Pos(), "format: a width taken from an operand (`*`) is outside the subset")
		} else {
			j := i
			for j < len(format) && format[j] >= '0' && format[j] <= '9' {
				j++
			}
			if j > i {
				if format[i] == '0' || j-i > 6 {
					trFail(x.Pos(), "format: the width %s (zero flag or above 999999) is outside the subset", format[i:j])
				}
				width, wval = "n", "("+format[i:j]+" : Int)"
				i = j
			}
		}
		if i >= len(format) {
			trFail(x.Pos(), "format ends inside a verb")
		}
		verb := format[i]
		a := next()
		ty := c.typeOf(a)
		isRune := false
		if b, ok := ty.(*types.Basic); ok && (b.Kind() == types.Int32 || b.Kind() == types.UntypedRune) {
			isRune = true
		}
		simple := width == "" && minus == "false"
		switch {
		case verb == 's' && plainString(ty) && simple:
			parts = append(parts, "Syn.Fmt.s "+c.expr(a))
		case verb == 's' && plainString(ty) && width == "n":
			parts = append(parts, "Syn.Fmt.sW "+minus+" "+wval+" "+c.expr(a))
		case verb == 'c' && isRune && simple:
			parts = append(parts, "Syn.Fmt.c "+c.expr(a))
		case verb == 'd' && tsIsIntLike(ty) && !isRune && simple && types.NewMethodSet(ty).Len() == 0:
			parts = append(parts, "Syn.Fmt.d "+c.expr(a))
		case verb == 'q' && plainString(ty) && simple:
			parts = append(parts, c.hoist("Syn.Fmt.q "+c.expr(a), x.Pos()))
		default:
			trFail(a.Pos(), "format: the verb %%%s with an operand of type %s is outside the subset", format[strings.LastIndex(format[:i], "%")+1:i+1], ty)
		}
	}
	flush()
	if arg != len(x.Args) {
		trFail(x.Pos(), "format: extra operands")
	}
	if len(parts) == 0 {
		return "(Syn.lit \"\")"
	}
	return "(" + strings.Join(parts, " ++ ") + ")"
}

// ---------------------------------------------------------------------------------------------- expressions

// tspPreludeCall: calls of the prelude that this file adds (ok = false: not one of them)
func (c *tsCtx) tspPreludeCall(full string, x *ast.CallExpr) (string, bool) {
	switch full {
	case "strings.Join":
		return "(Syn.Strings.Join " + c.expr(x.Args[0]) + " " + c.expr(x.Args[1]) + ")", true
	case "unicode/utf8.RuneCountInString":
		return "(Syn.RuneCountInString " + c.expr(x.Args[0]) + ")", true
	case "strings.Repeat":
		a, b := c.expr(x.Args[0]), c.expr(x.Args[1])
		return c.hoist("Syn.Strings.Repeat "+a+" "+b, x.Pos()), true
	case "fmt.Errorf":
		tv := c.info().Types[x.Args[0]]
		if tv.Value == nil || tv.Value.Kind() != constant.String || !isValidUTF8(constant.StringVal(tv.Value)) {
			trFail(x.Pos(), "fmt.Errorf with a non-constant format is outside the subset")
		}
		n := len(c.pre)
		for _, a := range x.Args[1:] {
			if tsIsEmptyInterface(c.typeOf(a)) || trIsError(c.typeOf(a)) {
				continue // an interface value: read only
			}
			c.expr(a)
		}
		if len(c.pre) != n {
			trFail(x.Pos(), "fmt.Errorf with an operand that can panic is outside the subset")
		}
		return "(" + c.goErrorName("fmt_Errorf") + " (Syn.lit " + trLeanStr(constant.StringVal(tv.Value)) + "))", true
	case "fmt.Fprintf", "io.WriteString", "(io.Writer).Write":
		trFail(x.Pos(), "a call of %s inside an expression is outside the subset (statement, assignment or return only)", full)
	}
	return "", false
}

// tspConversion: string ↔ []byte
func (c *tsCtx) tspConversion(from, to types.Type, x *ast.CallExpr) (string, bool) {
	if (tsIsString(from) && tspIsBytes(to)) || (tspIsBytes(from) && tsIsString(to)) {
		return c.expr(x.Args[0]), true
	}
	return "", false
}

// tspIndex: xs[i] on a slice
func (c *tsCtx) tspIndex(x *ast.IndexExpr) string {
	tx := c.typeOf(x.X)
	if !isSlice(tx) || tspIsBytes(tx) {
		trFail(x.Pos(), "indexing a value of type %s is outside the subset", tx)
	}
	c.leanType(tx, x.Pos())
	xs := c.expr(x.X)
	i := c.expr(x.Index)
	return c.hoist("index "+xs+" "+i, x.Pos())
}

// anyCtor: the constructor of GoAny for the struct type ty
func (c *tsCtx) tspAnyCtor(ty types.Type, pos token.Pos) string {
	n, ok := ty.(*types.Named)
	if !ok {
		trFail(pos, "the type %s in a type switch or assertion is outside the subset (struct types stored in the `any` only)", ty)
	}
	c.t.needAny(pos)
	for _, a := range c.t.anyTypes {
		if a == n {
			return c.t.qname(c.unit(), c.t.dirUnit(), "GoAny."+trMangle(n.Obj().Name()))
		}
	}
	trFail(pos, "the type %s is not among the struct types the translated code stores in an `any`", n)
	return ""
}

// ---------------------------------------------------------------------------------------------- statements

// tspAssertAssign: v, ok := x.(T)   (nil = not that statement)
func (c *tsCtx) tspAssertAssign(x *ast.AssignStmt, k tsK) trLines {
	if len(x.Rhs) != 1 || len(x.Lhs) != 2 {
		return nil
	}
	ta, ok := trUnparen(x.Rhs[0]).(*ast.TypeAssertExpr)
	if !ok || ta.Type == nil {
		return nil
	}
	if !tsIsEmptyInterface(c.typeOf(ta.X)) {
		trFail(x.Pos(), "a type assertion on a value of type %s is outside the subset", c.typeOf(ta.X))
	}
	ty := c.typeOf(ta.Type)
	ctor := c.tspAnyCtor(ty, ta.Pos())
	val := c.expr(ta.X)
	pre := c.takePre()
	r := c.fresh("r")
	v := c.fresh("v")
	term := "(match " + val + " with | " + ctor + " " + v + " => (" + v + ", true) | _ => ((GoZero.zero : " + c.leanType(ty, ta.Pos()) + "), false))"
	if x.Tok == token.DEFINE {
		for _, l := range x.Lhs {
			c.declare(l)
		}
	}
	body := c.store(x.Lhs[0], r+".1", x.Pos(), func() trLines {
		return c.store(x.Lhs[1], r+".2", x.Pos(), k)
	})
	return tsWrapPre(pre, trLet(r, "", trOne(term), body))
}

// typeSwitch: switch d := x.(type) { case T1: … case T2: … default: … }; every case with a type leaves the function
func (c *tsCtx) typeSwitch(x *ast.TypeSwitchStmt, k tsK) trLines {
	if x.Init != nil {
		return c.stmt(x.Init, func() trLines {
			y := *x
			y.Init = nil
			return c.typeSwitch(&y, k)
		})
	}
	var ta *ast.TypeAssertExpr
	switch a := x.Assign.(type) {
	case *ast.AssignStmt:
		if len(a.Rhs) == 1 {
			ta, _ = trUnparen(a.Rhs[0]).(*ast.TypeAssertExpr)
		}
	case *ast.ExprStmt:
		ta, _ = trUnparen(a.X).(*ast.TypeAssertExpr)
	}
	if ta == nil {
		trFail(x.Pos(), "this form of type switch is outside the subset")
	}
	if !tsIsEmptyInterface(c.typeOf(ta.X)) {
		trFail(x.Pos(), "a type switch on a value of type %s is outside the subset", c.typeOf(ta.X))
	}
	val := c.expr(ta.X)
	pre := c.takePre()
	scrut := c.fresh("tag")
	out := trLines{"match " + scrut + " with"}
	var deflt *ast.CaseClause
	seen := map[string]bool{}
	for _, cl := range x.Body.List {
		cc := cl.(*ast.CaseClause)
		ast.Inspect(cc, func(n ast.Node) bool {
			switch y := n.(type) {
			case *ast.BranchStmt:
				if y.Tok == token.BREAK || y.Tok == token.FALLTHROUGH {
					trFail(y.Pos(), "%s inside a type switch is outside the subset", y.Tok)
				}
			case *ast.ForStmt, *ast.RangeStmt, *ast.FuncLit:
				return false
			}
			return true
		})
		if cc.List == nil {
			deflt = cc
			continue
		}
		if len(cc.List) != 1 {
			trFail(cc.Pos(), "a case with several types is outside the subset")
		}
		if tsFallsThrough(cc.Body) {
			trFail(cc.Pos(), "a case of a type switch that falls through to the rest of the block is outside the subset")
		}
		ctor := c.tspAnyCtor(c.typeOf(cc.List[0]), cc.Pos())
		if seen[ctor] {
			trFail(cc.Pos(), "duplicate case in a type switch")
		}
		seen[ctor] = true
		name := "_"
		if obj := c.info().Implicits[cc]; obj != nil {
			name = c.local(obj)
		}
		out = append(out, "| "+ctor+" "+name+" =>")
		out = append(out, c.stmts(cc.Body, k).indent(2)...)
	}
	out = append(out, "| _ =>")
	if deflt != nil {
		body := c.stmts(deflt.Body, k)
		if obj := c.info().Implicits[deflt]; obj != nil {
			body = trLet(c.local(obj), "", trOne(scrut), body)
		}
		out = append(out, body.indent(2)...)
	} else {
		out = append(out, k().indent(2)...)
	}
	return tsWrapPre(pre, trLet(scrut, "", trOne(val), out))
}

// ---------------------------------------------------------------------------------------------- pinned compositions

// tspCheckPinnedFuncs: functions of /repo whose meaning is written out by hand in the agreement module (a composition of translated
// functions): their source text must be the pinned one.  Returns the reject lines.
func (t *tsT) tspCheckPinnedFuncs() []string {
	var rejects []string
	check := func(pkgPath, name, mod string) {
		full := trKnutPath + pkgPath + "." + name
		p, err := t.l.load(trKnutPath + pkgPath)
		if err != nil {
			rejects = append(rejects, fmt.Sprintf("trans-reject %s %s: cannot load package %s: %v", mod, name, pkgPath, err))
			return
		}
		fd := t.findFunc(p, name)
		if fd == nil {
			rejects = append(rejects, fmt.Sprintf("trans-reject %s %s: function not found in %s", mod, name, pkgPath))
			return
		}
		var b strings.Builder
		cp := *fd
		cp.Doc = nil
		if err := printer.Fprint(&b, t.l.fset, &cp); err != nil {
			rejects = append(rejects, fmt.Sprintf("trans-reject %s %s: %v", mod, name, err))
			return
		}
		got := strings.Join(strings.Fields(b.String()), " ")
		if got != tsPinned[full] {
			rejects = append(rejects, fmt.Sprintf("trans-reject %s %s: %s: the source of %s changed (the agreement module gives a meaning to `%s` only): %s",
				mod, name, t.l.relPos(fd.Pos()), name, tsPinned[full], got))
		}
	}
	check("lib/syntax", "FormatFile", "Printer")
	return rejects
}

// tspIsMutCall: a call of a translated function that assigns through its receiver or a parameter
func (c *tsCtx) tspIsMutCall(e ast.Expr) bool {
	call, ok := trUnparen(e).(*ast.CallExpr)
	if !ok {
		return false
	}
	ci := c.resolveCall(call)
	return ci.tf != nil && len(ci.tf.mut) > 0
}

// tspEffectCall: calls of the prelude that live in the Outcome monad (for the effect analysis)
func tspEffectCall(full string) bool { return full == "strings.Repeat" }
