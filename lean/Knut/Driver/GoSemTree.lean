import Knut.Wire
import Knut.GoSem.Multimap
/-! Driver op `gosemtree <program>`: the meaning `Knut/GoSem/Multimap.lean` gives to `lib/common/multimap` (the tree of report
nodes: `GetOrCreate` with an assignment through the returned pointer, `Sort`, `Sorted`, `PostOrder`), evaluated on a random
program for the differential stream `gosemtree` of C11 (`harness/gosem_tree.go`), which runs the same program on the real package. -/
namespace Knut.Driver.GoSemTree
open Knut Knut.Wire Knut.GoSem

abbrev T := MNode Int

/-- pre-order dump: `segment=value[sorted children as segment:value](children by key)` -/
partial def dump (n : T) : String :=
  let kids := (n.Children.mergeSort (fun a b => decide (a.1 ≤ b.1))).map (fun e => dump e.2)
  s!"{n.Segment}={n.Value}[{",".intercalate (n.Sorted.map (fun c => s!"{c.Segment}:{c.Value}"))}]({" ".intercalate kids})"

def byValue (sign : Int) (a b : T) : Int :=
  if sign * a.Value < sign * b.Value then -1 else if sign * a.Value > sign * b.Value then 1 else MNode.sortAlpha a b

/-- the function passed to `PostOrder`: the node's value becomes the sum over its subtree; the captured state is (total, count) -/
def visit (_path : List String) (st : Int × Int) (n : T) : Outcome ((Int × Int) × T) :=
  let n' : T := { n with Value := n.Value + n.Children.foldl (fun acc e => acc + e.2.Value) 0 }
  .ok ((st.1 + n'.Value, st.2 + 1), n')

def step (st : (Int × Int) × T) (op : String) : Option ((Int × Int) × T) :=
  match splitOn op ':' with
  | ["g", path, v] =>
    match parseInt v with
    | some v =>
      let ss := if path = "-" then [] else splitOn path '/'
      -- n := root.GetOrCreate(ss); n.Value = n.Value + v
      let root := MNode.create ss st.2
      let n := MNode.getAt root ss
      let n := { n with Value := n.Value + v }
      some (st.1, MNode.setAt root ss n)
    | none => none
  | ["s", k] =>
    match k with
    | "0" => some (st.1, MNode.sort MNode.sortAlpha st.2)
    | "1" => some (st.1, MNode.sort (byValue 1) st.2)
    | "2" => some (st.1, MNode.sort (byValue (-1)) st.2)
    | _ => none
  | ["p"] =>
    match MNode.postOrder visit (fun _ => ["d", "c", "b", "a"]) st.1 st.2 with
    | .ok r => some r
    | _ => none
  | _ => none

def handle (fields : List String) : Option String :=
  match fields with
  | ["gosemtree", prog] =>
    match (splitOn prog ';').foldlM step (((0, 0) : Int × Int), (MNode.new "" : T)) with
    | some r => some s!"{r.1.1} {r.1.2} {dump r.2}"
    | none => some "bad-op"
  | _ => none

end Knut.Driver.GoSemTree
