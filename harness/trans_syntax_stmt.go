package main

// Go→Lean translator for the syntax layer: statements (continuation-passing; see trans_syntax.go).

import (
	"go/ast"
	"go/token"
	"go/types"
	"sort"
	"strings"
)

type tsK func() trLines

// an assignable place: a local variable and a path of fields
type tsLval struct {
	base *types.Var
	path []string
}

func (c *tsCtx) lvalOf(e ast.Expr) *tsLval {
	switch x := trUnparen(e).(type) {
	case *ast.Ident:
		obj := c.info().Uses[x]
		if obj == nil {
			obj = c.info().Defs[x]
		}
		v, ok := obj.(*types.Var)
		if !ok || (v.Pkg() != nil && v.Parent() == v.Pkg().Scope()) {
			return nil
		}
		return &tsLval{base: v}
	case *ast.StarExpr:
		return c.lvalOf(x.X)
	case *ast.SelectorExpr:
		sel, ok := c.info().Selections[x]
		if !ok || sel.Kind() != types.FieldVal {
			return nil
		}
		inner := c.lvalOf(x.X)
		if inner == nil {
			return nil
		}
		// no alias field on the way
		ty := sel.Recv()
		for _, f := range c.fieldPath(sel, x.Pos()) {
			if p, ok := ty.Underlying().(*types.Pointer); ok {
				ty = p.Elem()
			}
			if a := tsAliasFieldOf(ty); a != "" && a == f {
				trFail(x.Pos(), "assignment through the alias field %s is outside the subset", f)
			}
			st := ty.Underlying().(*types.Struct)
			for i := 0; i < st.NumFields(); i++ {
				if st.Field(i).Name() == f {
					ty = st.Field(i).Type()
				}
			}
			inner.path = append(inner.path, f)
		}
		return inner
	}
	return nil
}

// storeLval: `lv = val` followed by k
func (c *tsCtx) storeLval(lv *tsLval, val string, pos token.Pos, k tsK) trLines {
	name := c.local(lv.base)
	if name == "_" {
		return k()
	}
	// a pointer that is not a parameter handled by state passing cannot be assigned through
	if _, isPtr := lv.base.Type().Underlying().(*types.Pointer); isPtr && len(lv.path) > 0 {
		ok := false
		for _, mi := range c.fn.mut {
			if c.fn.params[mi] == lv.base {
				ok = true
			}
		}
		if !ok {
			trFail(pos, "assignment through the pointer %s, which is not a parameter of this function, is outside the subset", lv.base.Name())
		}
	}
	term := val
	for i := len(lv.path) - 1; i >= 0; i-- {
		prefix := name
		for _, f := range lv.path[:i] {
			prefix += "." + trMangle(f)
		}
		term = "{ " + prefix + " with " + trMangle(lv.path[i]) + " := " + term + " }"
	}
	return trLet(name, c.leanType(lv.base.Type(), pos), trOne(term), k())
}

func (c *tsCtx) store(lhs ast.Expr, val string, pos token.Pos, k tsK) trLines {
	if id, ok := trUnparen(lhs).(*ast.Ident); ok && id.Name == "_" {
		return k()
	}
	if tl, ok := c.tsbStore(lhs, val, pos, k); ok { // map entries, slice elements (trans_syntax_bayes.go)
		return tl
	}
	lv := c.lvalOf(lhs)
	if lv == nil {
		trFail(pos, "assignment to %s is outside the subset", trSrc(lhs))
	}
	return c.storeLval(lv, val, pos, k)
}

func tsProj(st string, i, n int) string {
	if n == 1 {
		return st
	}
	p := st + strings.Repeat(".2", i)
	if i < n-1 {
		p += ".1"
	}
	return p
}

// ---------------------------------------------------------------------------------------------- analysis

func (c *tsCtx) assignedIn(nodes ...ast.Node) []types.Object {
	defined := map[types.Object]bool{}
	for _, n := range nodes {
		if n == nil || isNilNode(n) {
			continue
		}
		ast.Inspect(n, func(n ast.Node) bool {
			if id, ok := n.(*ast.Ident); ok {
				if o := c.info().Defs[id]; o != nil {
					defined[o] = true
				}
			}
			return true
		})
	}
	var res []types.Object
	for o := range c.t.assignedObjs(c.info(), nodes...) {
		if !defined[o] {
			res = append(res, o)
		}
	}
	sort.Slice(res, func(i, j int) bool { return res[i].Pos() < res[j].Pos() })
	return res
}

func (c *tsCtx) freeVars(except []types.Object, nodes ...ast.Node) []types.Object {
	defined := map[types.Object]bool{}
	used := map[types.Object]bool{}
	for _, n := range nodes {
		if n == nil || isNilNode(n) {
			continue
		}
		ast.Inspect(n, func(n ast.Node) bool {
			if id, ok := n.(*ast.Ident); ok {
				if o := c.info().Defs[id]; o != nil {
					defined[o] = true
				}
				if o, ok := c.info().Uses[id].(*types.Var); ok && !o.IsField() && !(o.Pkg() != nil && o.Parent() == o.Pkg().Scope()) {
					used[o] = true
				}
			}
			return true
		})
	}
	ex := map[types.Object]bool{}
	for _, o := range except {
		ex[o] = true
	}
	var res []types.Object
	for o := range used {
		if !defined[o] && !ex[o] {
			if _, known := c.names[o]; known {
				res = append(res, o)
			}
		}
	}
	sort.Slice(res, func(i, j int) bool { return res[i].Pos() < res[j].Pos() })
	return res
}

func (c *tsCtx) tupleOf(vars []types.Object) (term string, typ string) {
	if len(vars) == 0 {
		return "()", "Unit"
	}
	var ns, ts []string
	for _, v := range vars {
		ns = append(ns, c.names[v])
		ts = append(ts, c.leanType(v.Type(), v.Pos()))
	}
	if len(vars) == 1 {
		return ns[0], ts[0]
	}
	return "(" + strings.Join(ns, ", ") + ")", "(" + strings.Join(ts, " × ") + ")"
}

func (c *tsCtx) unpack(st string, vars []types.Object, body trLines) trLines {
	if len(vars) == 0 {
		return body
	}
	out := body
	for i := len(vars) - 1; i >= 0; i-- {
		proj := tsProj(st, i, len(vars))
		if proj == c.names[vars[i]] {
			continue
		}
		out = trLet(c.names[vars[i]], c.leanType(vars[i].Type(), vars[i].Pos()), trOne(proj), out)
	}
	return out
}

// jumps: does control leave the nodes other than by falling through (return, panic, break/continue of an enclosing loop)?
func (c *tsCtx) jumps(nodes ...ast.Node) (ret, brk bool) {
	var walk func(n ast.Node, inLoop bool)
	walk = func(n ast.Node, inLoop bool) {
		if n == nil || isNilNode(n) {
			return
		}
		ast.Inspect(n, func(m ast.Node) bool {
			switch x := m.(type) {
			case *ast.ReturnStmt:
				ret = true
			case *ast.BranchStmt:
				if !inLoop {
					brk = true
				}
			case *ast.ExprStmt:
				if call, ok := x.X.(*ast.CallExpr); ok {
					if id, ok := call.Fun.(*ast.Ident); ok && id.Name == "panic" {
						ret = true
					}
				}
			case *ast.ForStmt:
				walk(x.Body, true)
				return false
			case *ast.RangeStmt:
				walk(x.Body, true)
				return false
			case *ast.FuncLit:
				return false
			}
			return true
		})
	}
	for _, n := range nodes {
		walk(n, false)
	}
	return
}

func tsIsPanic(s ast.Stmt) bool {
	if es, ok := s.(*ast.ExprStmt); ok {
		if call, ok := es.X.(*ast.CallExpr); ok {
			if id, ok := call.Fun.(*ast.Ident); ok && id.Name == "panic" {
				return true
			}
		}
	}
	return false
}

// fallsThrough: can control reach the end of the statement list? (Go's terminating statements, conservatively)
func tsFallsThrough(list []ast.Stmt) bool {
	if len(list) == 0 {
		return true
	}
	switch x := list[len(list)-1].(type) {
	case *ast.ReturnStmt:
		return false
	case *ast.BranchStmt:
		return x.Tok != token.BREAK && x.Tok != token.CONTINUE
	case *ast.ExprStmt:
		return !tsIsPanic(x)
	case *ast.BlockStmt:
		return tsFallsThrough(x.List)
	case *ast.IfStmt:
		if x.Else == nil {
			return true
		}
		return tsFallsThrough(x.Body.List) || tsFallsThrough([]ast.Stmt{x.Else})
	case *ast.ForStmt:
		return !(x.Cond == nil && !trHasBreak(x))
	case *ast.SwitchStmt:
		hasDefault := false
		for _, cl := range x.Body.List {
			cc := cl.(*ast.CaseClause)
			if cc.List == nil {
				hasDefault = true
			}
			if tsFallsThrough(cc.Body) {
				return true
			}
		}
		return !hasDefault
	}
	return true
}

// needsMonad: the nodes contain something that lives in the Outcome monad
func (c *tsCtx) needsMonad(nodes ...ast.Node) bool {
	found := false
	for _, n := range nodes {
		if n == nil || isNilNode(n) {
			continue
		}
		ast.Inspect(n, func(m ast.Node) bool {
			switch x := m.(type) {
			case *ast.ForStmt, *ast.SliceExpr, *ast.IndexExpr:
				found = true
			case *ast.RangeStmt:
				if c.fn.effect {
					found = true
				}
			case *ast.CallExpr:
				if id, ok := trUnparen(x.Fun).(*ast.Ident); ok && id.Name == "panic" {
					found = true
				}
				if fo := tsCalledFunc(c.info(), x); fo != nil {
					if g := c.t.funcs[fo.Origin()]; (g != nil && g.effect) || tspEffectCall(fo.FullName()) {
						found = true
					}
					if fo.FullName() == "fmt.Sprintf" && len(x.Args) > 0 {
						if tv := c.info().Types[x.Args[0]]; tv.Value != nil && strings.Contains(tv.Value.ExactString(), "%q") {
							found = true
						}
					}
				}
			}
			return true
		})
	}
	return found
}

// ---------------------------------------------------------------------------------------------- statements

func (c *tsCtx) stmts(list []ast.Stmt, k tsK) trLines {
	if len(list) == 0 {
		return k()
	}
	return c.stmt(list[0], func() trLines { return c.stmts(list[1:], k) })
}

// retRaw: leave the function with the complete result value v
func (c *tsCtx) retRaw(v string) trLines {
	if c.flowDepth > 0 {
		v = "(Flow.ret " + v + ")"
	}
	if c.fn.effect {
		return trOne("Outcome.ok " + v)
	}
	return trOne(v)
}

func (c *tsCtx) returnTerm(vals []string, pos token.Pos) trLines {
	var all []string
	for _, mi := range c.fn.mut {
		all = append(all, c.names[c.fn.params[mi]])
	}
	all = append(all, vals...)
	v := "()"
	if len(all) == 1 {
		v = all[0]
	} else if len(all) > 1 {
		v = "(" + strings.Join(all, ", ") + ")"
	}
	return c.retRaw(v)
}

func (c *tsCtx) stmt(s ast.Stmt, k tsK) trLines {
	switch x := s.(type) {
	case *ast.BlockStmt:
		return c.stmts(x.List, k)
	case *ast.EmptyStmt:
		return k()
	case *ast.ReturnStmt:
		return c.returnStmt(x)
	case *ast.ExprStmt:
		return c.exprStmt(x, k)
	case *ast.DeclStmt:
		return c.declStmt(x, k)
	case *ast.AssignStmt:
		return c.assign(x, k)
	case *ast.IncDecStmt:
		if !tsIsIntLike(c.typeOf(x.X)) {
			trFail(x.Pos(), "%s on %s is outside the subset", x.Tok, c.typeOf(x.X))
		}
		op := "+"
		if x.Tok == token.DEC {
			op = "-"
		}
		val := "(" + c.expr(x.X) + " " + op + " (1 : Int))"
		pre := c.takePre()
		return tsWrapPre(pre, c.store(x.X, val, x.Pos(), k))
	case *ast.IfStmt:
		return c.ifStmt(x, k)
	case *ast.SwitchStmt:
		return c.switchStmt(x, k)
	case *ast.TypeSwitchStmt:
		return c.typeSwitch(x, k)
	case *ast.ForStmt:
		return c.forStmt(x, k)
	case *ast.RangeStmt:
		return c.rangeStmt(x, k)
	case *ast.BranchStmt:
		if x.Label != nil || c.loop == nil {
			trFail(x.Pos(), "%s here is outside the subset", x.Tok)
		}
		if c.flowDepth != c.loop.depth {
			trFail(x.Pos(), "%s inside a conditional that joins several branches with a return is outside the subset", x.Tok)
		}
		switch x.Tok {
		case token.BREAK:
			return c.loop.brk()
		case token.CONTINUE:
			return c.loop.cont()
		}
	}
	trFail(s.Pos(), "statement %T is outside the subset", s)
	return nil
}

func (c *tsCtx) returnStmt(x *ast.ReturnStmt) trLines {
	if len(x.Results) == 1 && (c.results.Len() > 1 || c.tspIsMutCall(x.Results[0])) {
		// return f(…) of a call with several results (or of one that assigns through its receiver)
		call, ok := trUnparen(x.Results[0]).(*ast.CallExpr)
		if !ok {
			trFail(x.Pos(), "return of a multi-valued expression that is not a call is outside the subset")
		}
		var vals []string
		body := c.callResults(call, c.results.Len(), func(projs []string, tys []types.Type) trLines {
			for i, p := range projs {
				vals = append(vals, c.convert(p, tys[i], c.results.At(i).Type(), x.Pos()))
			}
			return c.returnTerm(vals, x.Pos())
		})
		return body
	}
	if len(x.Results) != c.results.Len() {
		trFail(x.Pos(), "return with %d values in a function with %d results is outside the subset", len(x.Results), c.results.Len())
	}
	var vals []string
	for i, r := range x.Results {
		vals = append(vals, c.exprAs(r, c.results.At(i).Type()))
	}
	pre := c.takePre()
	return tsWrapPre(pre, c.returnTerm(vals, x.Pos()))
}

// convert: a value of static type `from` stored in a place of type `to`
func (c *tsCtx) convert(val string, from, to types.Type, pos token.Pos) string {
	if to != nil && tsIsEmptyInterface(to) && !tsIsEmptyInterface(from) {
		return c.anyValue(val, from, pos)
	}
	return val
}

// callResults: a call of a translated function in statement position: the arguments assigned through are rebound, then `use`
// gets the projections of the results
func (c *tsCtx) callResults(call *ast.CallExpr, nres int, use func(projs []string, tys []types.Type) trLines) trLines {
	ci := c.resolveCall(call)
	if ci.tf == nil {
		// a prelude call with several results
		if ci.fobj != nil && ci.fobj.FullName() == "unicode/utf8.DecodeRuneInString" {
			v := c.expr(call)
			pre := c.takePre()
			st := c.fresh("r")
			tup := c.typeOf(call).(*types.Tuple)
			return tsWrapPre(pre, trLet(st, "", trOne(v), use([]string{st + ".1", st + ".2"}, []types.Type{tup.At(0).Type(), tup.At(1).Type()})))
		}
		if tspIsWriterCall(c.info(), call) {
			return c.tspFinish(c.tspWriterCall(call), call.Pos(), nres, use)
		}
		trFail(call.Pos(), "a call of %s with several results is outside the subset", trSrc(call.Fun))
	}
	tf := ci.tf
	sig := tf.obj.Type().(*types.Signature)
	if sig.Results().Len() != nres && nres != -1 {
		trFail(call.Pos(), "call of %s with %d results used for %d values", tf.leanName, sig.Results().Len(), nres)
	}
	app := c.appOf(ci, call)
	var v string
	if tf.effect {
		v = c.hoist(app, call.Pos())
	} else {
		v = "(" + app + ")"
	}
	pre := c.takePre()
	total := len(tf.mut) + sig.Results().Len()
	st := v
	wrap := func(b trLines) trLines { return b }
	if !tf.effect && total > 0 {
		st = c.fresh("r")
		name := st
		wrap = func(b trLines) trLines { return trLet(name, "", trOne(v), b) }
	}
	// targets of the components assigned through
	var targets []*tsLval
	for _, mi := range tf.mut {
		var lv *tsLval
		if tf.decl.Recv != nil && mi == 0 {
			lv = c.lvalOf(ci.sel.X)
			if lv != nil {
				lv.path = append(lv.path, c.recvFields(ci.selObj)...)
			}
		} else {
			ai := mi
			if tf.decl.Recv != nil {
				ai--
			}
			lv = c.lvalOf(call.Args[ai])
		}
		if lv == nil {
			trFail(call.Pos(), "argument %d of %s is assigned through by the callee and must be a variable or a field", mi, tf.leanName)
		}
		targets = append(targets, lv)
	}
	var body func(i int) trLines
	body = func(i int) trLines {
		if i == len(targets) {
			var projs []string
			var tys []types.Type
			for j := 0; j < sig.Results().Len(); j++ {
				projs = append(projs, tsProj(st, len(tf.mut)+j, total))
				tys = append(tys, sig.Results().At(j).Type())
			}
			return use(projs, tys)
		}
		return c.storeLval(targets[i], tsProj(st, i, total), call.Pos(), func() trLines { return body(i + 1) })
	}
	return tsWrapPre(pre, wrap(body(0)))
}

func (c *tsCtx) exprStmt(x *ast.ExprStmt, k tsK) trLines {
	call, ok := x.X.(*ast.CallExpr)
	if !ok {
		trFail(x.Pos(), "expression statement %T is outside the subset", x.X)
	}
	if id, ok := call.Fun.(*ast.Ident); ok {
		if b, ok := c.info().Uses[id].(*types.Builtin); ok {
			if b.Name() == "panic" {
				if !c.fn.effect {
					trFail(x.Pos(), "internal: panic in a function classified as pure")
				}
				msg := "panic"
				if tv := c.info().Types[call.Args[0]]; tv.Value != nil {
					msg = strings.Trim(tv.Value.ExactString(), "\"")
				}
				return trOne("Outcome.panic " + trLeanStr(msg))
			}
			trFail(x.Pos(), "builtin %s as a statement is outside the subset", b.Name())
		}
	}
	// a call of a callback field: no step of the translated function (its arguments are pure here)
	if sel, ok := trUnparen(call.Fun).(*ast.SelectorExpr); ok {
		if s, ok := c.info().Selections[sel]; ok && s.Kind() == types.FieldVal && tsIsProc(s.Type()) {
			sig := s.Type().Underlying().(*types.Signature)
			for i, a := range call.Args {
				c.exprAs(a, sig.Params().At(i).Type())
			}
			pre := c.takePre()
			return tsWrapPre(pre, k())
		}
	}
	if tl, ok := c.tsbExprStmt(call, k); ok {
		return tl
	}
	ci := c.resolveCall(call)
	if ci.fobj != nil && ci.fobj.FullName() == "(*strings.Builder).WriteString" {
		val := "(Syn.Builder.WriteString " + c.expr(ci.sel.X) + " " + c.expr(call.Args[0]) + ")"
		pre := c.takePre()
		return tsWrapPre(pre, c.store(ci.sel.X, val, x.Pos(), k))
	}
	if ci.tf != nil || tspIsWriterCall(c.info(), call) {
		return c.callResults(call, -1, func([]string, []types.Type) trLines { return k() })
	}
	c.expr(call)
	pre := c.takePre()
	return tsWrapPre(pre, k())
}

func (c *tsCtx) declStmt(x *ast.DeclStmt, k tsK) trLines {
	gd, ok := x.Decl.(*ast.GenDecl)
	if !ok || gd.Tok != token.VAR {
		trFail(x.Pos(), "declaration %s inside a function is outside the subset", gd.Tok)
	}
	type bind struct{ name, typ, val string }
	var binds []bind
	for _, sp := range gd.Specs {
		vs := sp.(*ast.ValueSpec)
		if len(vs.Values) != 0 && len(vs.Values) != len(vs.Names) {
			trFail(vs.Pos(), "var with a multi-valued initialiser is outside the subset")
		}
		for i, n := range vs.Names {
			obj := c.info().Defs[n]
			ty := c.leanType(obj.Type(), n.Pos())
			val := "GoZero.zero"
			if len(vs.Values) > 0 {
				val = c.exprAs(vs.Values[i], obj.Type())
			}
			binds = append(binds, bind{c.local(obj), ty, val})
		}
	}
	pre := c.takePre()
	body := k()
	for i := len(binds) - 1; i >= 0; i-- {
		if binds[i].name == "_" {
			continue
		}
		body = trLet(binds[i].name, binds[i].typ, trOne(binds[i].val), body)
	}
	return tsWrapPre(pre, body)
}

func (c *tsCtx) declare(l ast.Expr) {
	id, ok := l.(*ast.Ident)
	if !ok {
		trFail(l.Pos(), "definition of %T is outside the subset", l)
	}
	if obj := c.info().Defs[id]; obj != nil {
		c.local(obj)
	}
}

func (c *tsCtx) lhsType(l ast.Expr) types.Type {
	if id, ok := trUnparen(l).(*ast.Ident); ok && id.Name == "_" {
		return nil
	}
	if tv, ok := c.info().Types[l]; ok && tv.Type != nil {
		return tv.Type
	}
	if id, ok := l.(*ast.Ident); ok {
		if o := c.info().Defs[id]; o != nil {
			return o.Type()
		}
	}
	return nil
}

func (c *tsCtx) assign(x *ast.AssignStmt, k tsK) trLines {
	switch x.Tok {
	case token.ASSIGN, token.DEFINE:
	default:
		ops := map[token.Token]token.Token{token.ADD_ASSIGN: token.ADD, token.SUB_ASSIGN: token.SUB, token.MUL_ASSIGN: token.MUL}
		op, ok := ops[x.Tok]
		if !ok || len(x.Lhs) != 1 {
			trFail(x.Pos(), "assignment operator %s is outside the subset", x.Tok)
		}
		be := &ast.BinaryExpr{X: x.Lhs[0], Op: op, Y: x.Rhs[0], OpPos: x.TokPos}
		c.info().Types[be] = c.info().Types[x.Lhs[0]]
		val := c.binary(be)
		pre := c.takePre()
		return tsWrapPre(pre, c.store(x.Lhs[0], val, x.Pos(), k))
	}
	if tl := c.tspAssertAssign(x, k); tl != nil {
		return tl
	}
	if tl := c.tsbCommaOk(x, k); tl != nil {
		return tl
	}
	// a call of a translated function (one or several results)
	if len(x.Rhs) == 1 {
		if call, ok := trUnparen(x.Rhs[0]).(*ast.CallExpr); ok {
			ci := c.resolveCall(call)
			isDecode := ci.fobj != nil && ci.fobj.FullName() == "unicode/utf8.DecodeRuneInString"
			if (ci.tf != nil && (len(ci.tf.mut) > 0 || len(x.Lhs) > 1)) || (isDecode && len(x.Lhs) == 2) || tspIsWriterCall(c.info(), call) {
				return c.callResults(call, len(x.Lhs), func(projs []string, tys []types.Type) trLines {
					if x.Tok == token.DEFINE {
						for _, l := range x.Lhs {
							c.declare(l)
						}
					}
					var body func(i int) trLines
					body = func(i int) trLines {
						if i == len(x.Lhs) {
							return k()
						}
						val := c.convert(projs[i], tys[i], c.lhsType(x.Lhs[i]), x.Pos())
						return c.store(x.Lhs[i], val, x.Pos(), func() trLines { return body(i + 1) })
					}
					return body(0)
				})
			}
		}
	}
	if len(x.Lhs) != len(x.Rhs) {
		trFail(x.Pos(), "assignment with %d targets and %d values is outside the subset", len(x.Lhs), len(x.Rhs))
	}
	if len(x.Lhs) == 1 {
		var val string
		if x.Tok == token.ASSIGN {
			val = c.exprAs(x.Rhs[0], c.lhsType(x.Lhs[0]))
		} else {
			val = c.expr(x.Rhs[0])
		}
		pre := c.takePre()
		if x.Tok == token.DEFINE {
			c.declare(x.Lhs[0])
		}
		return tsWrapPre(pre, c.store(x.Lhs[0], val, x.Pos(), k))
	}
	// parallel assignment: all right-hand sides first
	var tmps, vals []string
	for i, r := range x.Rhs {
		if x.Tok == token.ASSIGN {
			vals = append(vals, c.exprAs(r, c.lhsType(x.Lhs[i])))
		} else {
			vals = append(vals, c.expr(r))
		}
		tmps = append(tmps, c.fresh("v"))
	}
	pre := c.takePre()
	if x.Tok == token.DEFINE {
		for _, l := range x.Lhs {
			c.declare(l)
		}
	}
	var body func(i int) trLines
	body = func(i int) trLines {
		if i == len(x.Lhs) {
			return k()
		}
		return c.store(x.Lhs[i], tmps[i], x.Pos(), func() trLines { return body(i + 1) })
	}
	out := body(0)
	for i := len(tmps) - 1; i >= 0; i-- {
		out = trLet(tmps[i], "", trOne(vals[i]), out)
	}
	return tsWrapPre(pre, out)
}

// ---------------------------------------------------------------------------------------------- if / switch

type tsBranch struct {
	cond string // "" = else
	body []ast.Stmt
}

func (c *tsCtx) ifStmt(x *ast.IfStmt, k tsK) trLines {
	if x.Init != nil {
		return c.stmt(x.Init, func() trLines {
			y := *x
			y.Init = nil
			return c.ifStmt(&y, k)
		})
	}
	cond := c.expr(x.Cond)
	pre := c.takePre()
	var elseBody []ast.Stmt
	if x.Else != nil {
		elseBody = []ast.Stmt{x.Else}
	}
	return tsWrapPre(pre, c.branches([]tsBranch{{cond, x.Body.List}, {"", elseBody}}, x.Pos(), k))
}

func (c *tsCtx) switchStmt(x *ast.SwitchStmt, k tsK) trLines {
	if x.Init != nil {
		return c.stmt(x.Init, func() trLines {
			y := *x
			y.Init = nil
			return c.switchStmt(&y, k)
		})
	}
	tag := ""
	var tagLet func(body trLines) trLines
	if x.Tag != nil {
		tagTy := c.typeOf(x.Tag)
		if !(tsIsIntLike(tagTy) || tsIsString(tagTy) || tsIsBool(tagTy)) {
			trFail(x.Tag.Pos(), "switch on a value of type %s is outside the subset", tagTy)
		}
		val := c.expr(x.Tag)
		tn := c.fresh("tag")
		ty := c.leanType(tagTy, x.Tag.Pos())
		tagLet = func(body trLines) trLines { return trLet(tn, ty, trOne(val), body) }
		tag = tn
	}
	pre := c.takePre()
	var brs []tsBranch
	var deflt []ast.Stmt
	seenDefault := false
	for _, cl := range x.Body.List {
		cc := cl.(*ast.CaseClause)
		for _, s := range cc.Body {
			if b, ok := s.(*ast.BranchStmt); ok && (b.Tok == token.FALLTHROUGH) {
				trFail(b.Pos(), "%s in a switch is outside the subset", b.Tok)
			}
		}
		if cc.List == nil {
			deflt = cc.Body
			seenDefault = true
			continue
		}
		if seenDefault {
			trFail(cc.Pos(), "a case after the default clause is outside the subset")
		}
		var conds []string
		for _, e := range cc.List {
			if x.Tag != nil {
				conds = append(conds, "decide ("+tag+" = "+c.expr(e)+")")
			} else {
				conds = append(conds, c.expr(e))
			}
		}
		if len(c.pre) > 0 {
			trFail(cc.Pos(), "a case expression that can panic is outside the subset")
		}
		cond := "(" + strings.Join(conds, " || ") + ")"
		brs = append(brs, tsBranch{cond, cc.Body})
	}
	// a `break` directly inside a switch would leave the switch, not the loop
	for _, cl := range x.Body.List {
		ast.Inspect(cl, func(n ast.Node) bool {
			switch y := n.(type) {
			case *ast.BranchStmt:
				if y.Tok == token.BREAK {
					trFail(y.Pos(), "break inside a switch is outside the subset")
				}
			case *ast.ForStmt, *ast.RangeStmt, *ast.FuncLit:
				return false
			}
			return true
		})
	}
	brs = append(brs, tsBranch{"", deflt})
	out := c.branches(brs, x.Pos(), k)
	if tagLet != nil {
		out = tagLet(out)
	}
	return tsWrapPre(pre, out)
}

// branches: if c1 {…} else if c2 {…} … else {…}, followed by k
func (c *tsCtx) branches(brs []tsBranch, pos token.Pos, k tsK) trLines {
	var nodes []ast.Node
	falls := 0
	for _, b := range brs {
		for _, s := range b.body {
			nodes = append(nodes, s)
		}
		if tsFallsThrough(b.body) {
			falls++
		}
	}
	chain := func(k2 tsK) trLines {
		var build func(i int) trLines
		build = func(i int) trLines {
			if brs[i].cond == "" {
				return c.stmts(brs[i].body, k2)
			}
			return trIte(brs[i].cond, c.stmts(brs[i].body, k2), build(i+1))
		}
		return build(0)
	}
	ret, brk := c.jumps(nodes...)
	if ret || brk {
		if falls <= 1 {
			// the rest of the block continues in the one branch that can reach it
			return chain(k)
		}
		if brk {
			trFail(pos, "a conditional with break/continue in one branch and several branches that fall through is outside the subset")
		}
		if !c.fn.effect {
			trFail(pos, "a conditional that joins several branches with a return, in a function outside the Outcome monad, is outside the subset")
		}
		// join in Flow: next (the variables assigned) | ret (the value returned)
		vars := c.assignedIn(nodes...)
		tuple, ttyp := c.tupleOf(vars)
		c.flowDepth++
		savedLoop := c.loop
		t := chain(func() trLines { return trOne("Outcome.ok (Flow.next " + tuple + ")") })
		c.loop = savedLoop
		c.flowDepth--
		r := c.fresh("r")
		st := c.fresh("st")
		next := c.unpack(st, vars, k())
		out := trLines{"Outcome.bind ("}
		out = append(out, t.indent(2)...)
		out[len(out)-1] += ") (fun (" + r + " : Flow " + ttyp + " " + c.fn.resType + ") =>"
		m := trLines{"match " + r + " with", "| Flow.ret v => " + c.retRaw("v")[0], "| Flow.next " + st + " =>"}
		m = append(m, next.indent(2)...)
		out = append(out, m.indent(2)...)
		out[len(out)-1] += ")"
		return out
	}
	// the branches only assign: their effect is the tuple of the variables they assign
	vars := c.assignedIn(nodes...)
	tuple, ttyp := c.tupleOf(vars)
	st := c.fresh("st")
	if len(vars) == 1 {
		st = c.names[vars[0]]
	}
	if !c.needsMonad(nodes...) {
		t := chain(func() trLines { return trOne(tuple) })
		if len(c.pre) > 0 {
			trFail(pos, "internal: effect in a conditional classified as pure")
		}
		if len(vars) == 0 {
			return k()
		}
		return trLet(st, ttyp, t, c.unpack(st, vars, k()))
	}
	t := chain(func() trLines { return trOne("Outcome.ok " + tuple) })
	body := c.unpack(st, vars, k())
	out := trLines{"Outcome.bind ("}
	out = append(out, t.indent(2)...)
	out[len(out)-1] += ") (fun (" + st + " : " + ttyp + ") =>"
	out = append(out, body.indent(2)...)
	out[len(out)-1] += ")"
	return out
}

// ---------------------------------------------------------------------------------------------- loops

func (c *tsCtx) loopParams(free, state []types.Object) (params, callArgs, sparams, sargs []string) {
	if c.fn.fuel {
		params = append(params, "(fuel : Nat)")
		callArgs = append(callArgs, "fuel")
	}
	if c.aliasName != "" {
		trFail(c.fn.decl.Pos(), "a loop in a method that takes an alias argument is outside the subset")
	}
	for _, o := range free {
		params = append(params, "("+c.names[o]+" : "+c.leanType(o.Type(), o.Pos())+")")
		callArgs = append(callArgs, c.names[o])
	}
	for _, o := range state {
		sparams = append(sparams, "("+c.names[o]+" : "+c.leanType(o.Type(), o.Pos())+")")
		sargs = append(sargs, c.names[o])
	}
	params, callArgs = c.tsbLoopExtras(params, callArgs)
	return
}

func (c *tsCtx) forStmt(x *ast.ForStmt, k tsK) trLines {
	if !c.fn.effect || !c.fn.fuel {
		trFail(x.Pos(), "internal: for loop in a function without fuel")
	}
	if x.Init != nil {
		return c.stmt(x.Init, func() trLines {
			y := *x
			y.Init = nil
			return c.forStmt(&y, k)
		})
	}
	var post ast.Node
	if x.Post != nil {
		post = x.Post
	}
	var condNode ast.Node
	if x.Cond != nil {
		condNode = x.Cond
	}
	state := c.assignedIn(x.Body, post)
	free := c.freeVars(state, condNode, x.Body, post)
	hasRet := trHasReturn(x.Body)
	infinite := x.Cond == nil && !trHasBreak(x)
	direct := infinite && c.flowDepth == 0 && c.loop == nil
	c.nloop++
	name := c.fn.leanName + ".loop" + itoa(c.nloop)
	qn := c.t.qname(c.unit(), c.unit(), name)
	tuple, ttyp := c.tupleOf(state)
	params, callArgs, sparams, sargs := c.loopParams(free, state)

	var resTy, exit string
	switch {
	case direct:
		resTy, exit = c.fn.resType, ""
	case hasRet:
		resTy, exit = "(Flow "+ttyp+" "+c.fn.resType+")", "Outcome.ok (Flow.next "+tuple+")"
	default:
		resTy, exit = ttyp, "Outcome.ok "+tuple
	}
	savedLoop, savedPre, savedDepth := c.loop, c.takePre(), c.flowDepth
	if hasRet && !direct {
		c.flowDepth++
	}
	rec := func() trLines {
		return trOne(qn + " " + strings.Join(append(append(append([]string{}, callArgs...), "n"), sargs...), " "))
	}
	afterBody := func() trLines {
		if x.Post == nil {
			return rec()
		}
		saved := c.loop
		c.loop = nil
		defer func() { c.loop = saved }()
		return c.stmt(x.Post, rec)
	}
	lc := &tsLoop{depth: c.flowDepth, cont: afterBody}
	lc.brk = func() trLines { return trOne(exit) }
	c.loop = lc
	var cond string
	var condPre []tsPre
	if x.Cond != nil {
		cond = c.expr(x.Cond)
		condPre = c.takePre()
	}
	body := c.stmts(x.Body.List, afterBody)
	c.loop, c.pre, c.flowDepth = savedLoop, savedPre, savedDepth
	m := trLines{"match n with", "| 0 => Outcome.outOfFuel", "| n + 1 =>"}
	m = append(m, body.indent(2)...)
	def := m
	if x.Cond != nil {
		def = tsWrapPre(condPre, trIte(cond, m, trOne(exit)))
	}
	head := "def " + name + " " + strings.Join(append(append(params, "(n : Nat)"), sparams...), " ") + " : Outcome " + resTy + " :="
	c.aux = append(c.aux, "/-- loop of `"+c.fn.leanName+"` at "+c.t.l.relPos(x.Pos())+"; counter n, state: "+strings.Join(sargs, ", ")+" -/\n"+head+"\n"+def.indent(2).String()+"\n")

	call := qn + " " + strings.Join(append(append(append([]string{}, callArgs...), "fuel"), sargs...), " ")
	if direct {
		return trOne(call)
	}
	st := c.fresh("st")
	if !hasRet {
		return trBind(st, call, c.unpack(st, state, k()))
	}
	r := c.fresh("r")
	var next trLines
	if infinite {
		next = trOne("Outcome.panic \"unreachable: a loop without condition and break fell through\"")
	} else {
		next = c.unpack(st, state, k())
	}
	out := trLines{"match " + r + " with", "| Flow.ret v => " + c.retRaw("v")[0], "| Flow.next " + st + " =>"}
	out = append(out, next.indent(2)...)
	return trBind(r, call, out)
}

func (c *tsCtx) rangeStmt(x *ast.RangeStmt, k tsK) trLines {
	if x.Tok == token.ASSIGN {
		trFail(x.Pos(), "range with = (assignment to existing variables) is outside the subset")
	}
	tx := c.typeOf(x.X)
	strMode := tsIsString(tx)
	mapMode := false // for k := range m: the keys in the order given by an extra parameter (trans_syntax_bayes.go)
	var elemTy types.Type
	if mt, ok := tx.Underlying().(*types.Map); ok {
		mapMode, elemTy = true, mt.Key()
	} else if !strMode {
		sl, ok := tx.Underlying().(*types.Slice)
		if !ok {
			trFail(x.Pos(), "range over %s is outside the subset", tx)
		}
		elemTy = sl.Elem()
	}
	xs := c.expr(x.X)
	if mapMode {
		xs = c.tsbMapRange(x, xs)
	}
	pre := c.takePre()
	state := c.assignedIn(x.Body)
	free := c.freeVars(state, x.Body)
	hasRet := trHasReturn(x.Body)
	effect := c.fn.effect
	c.nloop++
	name := c.fn.leanName + ".range" + itoa(c.nloop)
	qn := c.t.qname(c.unit(), c.unit(), name)
	tuple, ttyp := c.tupleOf(state)
	keyName, valName := "", ""
	if id, ok := x.Key.(*ast.Ident); ok && id.Name != "_" {
		keyName = c.local(c.info().Defs[id])
	}
	if x.Value != nil {
		if id, ok := x.Value.(*ast.Ident); ok && id.Name != "_" {
			valName = c.local(c.info().Defs[id])
		}
	}
	if mapMode {
		keyName, valName = "", keyName // the loop variable is the element of the list of keys
	}
	var et string
	if strMode {
		et = "(Int × Int)"
		xs = "(Syn.runes " + xs + ")"
	} else {
		et = c.leanType(elemTy, x.Pos())
	}
	resTy, exit := ttyp, tuple
	if hasRet {
		resTy, exit = "(Flow "+ttyp+" "+c.fn.resType+")", "(Flow.next "+tuple+")"
	}
	if effect {
		exit = "Outcome.ok " + exit
		resTy = "Outcome " + resTy
	}
	params, callArgs, sparams, sargs := c.loopParams(free, state)
	items := c.fresh("items")
	el := c.fresh("el")
	idx := ""
	if keyName != "" && !strMode {
		idx = c.fresh("idx")
	}
	recArgs := func(first bool) string {
		parts := append([]string{}, callArgs...)
		if first {
			parts = append(parts, xs)
		} else {
			parts = append(parts, items)
		}
		if idx != "" {
			if first {
				parts = append(parts, "(0 : Int)")
			} else {
				parts = append(parts, "("+idx+" + 1)")
			}
		}
		parts = append(parts, sargs...)
		return qn + " " + strings.Join(parts, " ")
	}
	savedLoop, savedPre, savedDepth := c.loop, c.takePre(), c.flowDepth
	if hasRet {
		c.flowDepth++
	}
	lc := &tsLoop{depth: c.flowDepth}
	lc.cont = func() trLines { return trOne(recArgs(false)) }
	lc.brk = func() trLines { return trOne(exit) }
	c.loop = lc
	body := c.stmts(x.Body.List, lc.cont)
	c.loop, c.pre, c.flowDepth = savedLoop, savedPre, savedDepth
	if strMode {
		if valName != "" {
			body = trLet(valName, "Int", trOne(el+".2"), body)
		}
		if keyName != "" {
			body = trLet(keyName, "Int", trOne(el+".1"), body)
		}
	} else {
		if valName != "" {
			body = trLet(valName, et, trOne(el), body)
		}
		if keyName != "" {
			body = trLet(keyName, "Int", trOne(idx), body)
		}
	}
	def := trLines{"match " + items + " with", "| [] => " + exit, "| " + el + " :: " + items + " =>"}
	def = append(def, body.indent(2)...)
	ps := append([]string{}, params...)
	ps = append(ps, "("+items+" : List "+et+")")
	if idx != "" {
		ps = append(ps, "("+idx+" : Int)")
	}
	ps = append(ps, sparams...)
	head := "def " + name + " " + strings.Join(ps, " ") + " : " + resTy + " :="
	c.aux = append(c.aux, "/-- range loop of `"+c.fn.leanName+"` at "+c.t.l.relPos(x.Pos())+"; state: "+strings.Join(sargs, ", ")+" -/\n"+head+"\n"+def.indent(2).String()+"\n")

	call := recArgs(true)
	st := c.fresh("st")
	if !hasRet && len(state) == 1 {
		st = c.names[state[0]]
	}
	var after trLines
	if hasRet {
		r := c.fresh("r")
		next := c.unpack(st, state, k())
		after = trLines{"match " + r + " with", "| Flow.ret v => " + c.retRaw("v")[0], "| Flow.next " + st + " =>"}
		after = append(after, next.indent(2)...)
		if effect {
			return tsWrapPre(pre, trBind(r, call, after))
		}
		return tsWrapPre(pre, trLet(r, "", trOne(call), after))
	}
	after = c.unpack(st, state, k())
	if effect {
		return tsWrapPre(pre, trBind(st, call, after))
	}
	if len(state) == 0 {
		return tsWrapPre(pre, after)
	}
	return tsWrapPre(pre, trLet(st, ttyp, trOne(call), after))
}
