import Knut.Generated.TransPrice
import Knut.Generated.TransCompare
import Knut.Generated.TransCommodity
import Knut.Model.Prices
import Knut.Proofs.Prices
import Knut.Proofs.PricesSpec
/-!
# The translated `lib/model/price` agrees with the hand-written model

`Knut/Generated/TransPrice.lean` is regenerated from /repo's `prices.go` on every run.  Go maps keyed by
`*commodity.Commodity` are association lists keyed by the (interned) commodity value; the model keys its
association lists by the commodity NAME and updates them differently (`set` = cons after delete, the translated code
replaces in place), so agreement of maps is agreement of every lookup (`NPEquiv`, `PEquiv`).
-/
namespace Knut.FactsAgree.TransPrice
open Knut Knut.GoSem
open Knut.Generated.Go

/-- a commodity pointer of Go: interned by name; `cur` is the `IsCurrency` flag each name carries -/
def cGo (cur : String → Bool) (c : Knut.Commodity) : commodity.Commodity := { name := c, IsCurrency := cur c }

theorem cGo_inj (cur : String → Bool) {a b : Knut.Commodity} (h : cGo cur a = cGo cur b) : a = b := by
  simpa [cGo] using congrArg commodity.Commodity.name h

theorem Multiply_agrees (a b : Rat) : price.Multiply a b = Prices.multiply a b := by
  simp [price.Multiply, Prices.multiply, Prices.multiplyPlaces]

/-- every lookup by an interned commodity agrees -/
def NPEquiv (cur : String → Bool) (g : price.NormalizedPrices) (m : Prices.NPrices) : Prop :=
  ∀ c : Knut.Commodity, Knut.AMap.find? g (cGo cur c) = Prices.find c m

def PEquiv (cur : String → Bool) (g : price.Prices) (m : Prices.Prices) : Prop :=
  ∀ a : Knut.Commodity,
    match Knut.AMap.find? g (cGo cur a), Prices.find a m with
    | some gi, some mi => NPEquiv cur gi mi
    | none, none => True
    | _, _ => False

theorem Price_agrees (cur : String → Bool) (g : price.NormalizedPrices) (m : Prices.NPrices) (h : NPEquiv cur g m)
    (c : Knut.Commodity) :
    price.NormalizedPrices.Price g (cGo cur c) =
      match Prices.npPrice m c with
      | some p => (p, none)
      | none => (0, some ⟨"no price found for %v in %v"⟩) := by
  have hc := h c
  unfold price.NormalizedPrices.Price Prices.npPrice
  simp only [Knut.AMap.get, hc]
  cases Prices.find c m <;> simp

theorem Valuate_agrees (cur : String → Bool) (g : price.NormalizedPrices) (m : Prices.NPrices) (h : NPEquiv cur g m)
    (c : Knut.Commodity) (a : Rat) :
    price.NormalizedPrices.Valuate g (cGo cur c) a =
      match Prices.npValuate m c a with
      | some v => (v, none)
      | none => (0, some ⟨"no price found for %v in %v"⟩) := by
  have hc := h c
  unfold price.NormalizedPrices.Valuate Prices.npValuate
  simp only [Knut.AMap.get, hc]
  cases Prices.find c m <;> simp [Multiply_agrees]

theorem NPEquiv_set (cur : String → Bool) {g : price.NormalizedPrices} {m : Prices.NPrices} (h : NPEquiv cur g m)
    (c : Knut.Commodity) (v : Rat) : NPEquiv cur (Knut.AMap.set g (cGo cur c) v) (Prices.set m c v) := by
  intro k
  rw [Knut.AMap.find?_set]
  by_cases hk : c = k
  · subst hk; simp [Prices.find_set_self]
  · have : cGo cur c ≠ cGo cur k := fun e => hk (cGo_inj cur e)
    rw [if_neg this, Prices.find_set_ne _ _ _ _ (fun e => hk e.symm)]
    exact h k

theorem NPEquiv_nil (cur : String → Bool) : NPEquiv cur [] [] := by intro c; rfl

theorem addPrice_agrees (cur : String → Bool) {g : price.Prices} {m : Prices.Prices} (h : PEquiv cur g m)
    (t c : Knut.Commodity) (p : Rat) :
    PEquiv cur (price.Prices.addPrice g (cGo cur t) (cGo cur c) p) (Prices.addPrice m t c p) := by
  intro a
  unfold price.Prices.addPrice Prices.addPrice
  simp only [Knut.AMap.find?_set]
  by_cases ha : t = a
  · subst ha
    simp only [if_true, Prices.find_set_self]
    apply NPEquiv_set
    have := h t
    unfold getDefault price.newNormalizedPrices
    cases hg : Knut.AMap.find? g (cGo cur t) <;> cases hm : Prices.find t m <;> simp [hg, hm] at this ⊢
    · exact NPEquiv_nil cur
    · exact this
  · have : cGo cur t ≠ cGo cur a := fun e => ha (cGo_inj cur e)
    rw [if_neg this, Prices.find_set_ne _ _ _ _ (fun e => ha e.symm)]
    exact h a

/-- `Prices.Insert`: same verdict, and equivalent maps afterwards (the error leaves the map as it was) -/
theorem Insert_agrees (cur : String → Bool) {g : price.Prices} {m : Prices.Prices} (h : PEquiv cur g m)
    (d : Prices.Decl) :
    match price.Prices.Insert g (cGo cur d.commodity) d.price (cGo cur d.target), Prices.insert m d with
    | GoSem.Outcome.ok (g', none), some m' => PEquiv cur g' m'
    | GoSem.Outcome.ok (g', some e), none => g' = g ∧ e = ⟨"invalid price %s for commodity %s in %s"⟩
    | _, _ => False := by
  unfold price.Prices.Insert Prices.insert
  by_cases hz : d.price = 0
  · simp [hz]
  · simp only [Decimal.IsZero, hz, decide_false, Bool.false_eq_true, if_false, Decimal.Div, price.one, Decimal.NewFromInt,
      GoSem.Outcome.bind]
    have h1 := addPrice_agrees cur h d.target d.commodity d.price
    have h2 := addPrice_agrees cur h1 d.commodity d.target (Prices.recip d.price)
    have e : Decimal.Truncate (Dec.div16 ((1 : Int) : Rat) d.price) 8 = Prices.recip d.price := by
      simp [Prices.recip, Prices.insertPlaces]
    rw [e]
    exact h2

/-- `commodity.Compare` orders by name: `compare.Sort(keys, commodity.Compare)` (a `sort.Slice` with "less" = `Smaller`)
sorts ascending by name, which is the model's `sortNames` -/
theorem commodity_Compare_smaller (cur : String → Bool) (a b : Knut.Commodity) :
    commodity.Compare (cGo cur a) (cGo cur b) = -1 ↔ a < b := by
  unfold commodity.Compare commodity.Commodity.Name cmpOrdered cGo
  by_cases h1 : a < b
  · simp [h1]
  · by_cases h2 : b < a <;> simp [h1, h2]

theorem compare_Time_eq (a b : Int) : compare.Time a b = if a < b then -1 else if a = b then 0 else 1 := by
  unfold compare.Time
  by_cases h1 : a = b
  · simp [h1]
  · by_cases h2 : a < b <;> simp [h1, h2]

theorem compare_Decimal_eq (a b : Rat) : compare.Decimal a b = if a < b then -1 else if a = b then 0 else 1 := by
  unfold compare.Decimal
  by_cases h1 : a = b
  · simp [h1]
  · by_cases h2 : a < b <;> simp [h1, h2]

/-- non-vacuity: 1.5 * 1.123456789 truncated to 8 places; a price and its stored reciprocal -/
example : price.Multiply (3/2) (1123456789/1000000000) = 168518518/100000000 := by decide +kernel
example : price.Prices.Insert [] ⟨"CHF", false⟩ 4 ⟨"USD", false⟩ =
    GoSem.Outcome.ok ([(⟨"USD", false⟩, [(⟨"CHF", false⟩, 4)]), (⟨"CHF", false⟩, [(⟨"USD", false⟩, 1/4)])], none) := by
  decide +kernel
example : (price.Prices.Insert [] ⟨"CHF", false⟩ 0 ⟨"USD", false⟩) =
    GoSem.Outcome.ok ([], some ⟨"invalid price %s for commodity %s in %s"⟩) := by decide +kernel

/-! ## `Prices.normalize` / `Prices.Normalize` (breadth-first search over sorted neighbours)

The `for len(queue) > 0` loop has no comparison a bound could be derived from (the loop also appends to the queue): the translated
function takes its fuel as an explicit parameter, and the theorem says that `unvisited + |queue|` — the model's termination measure —
suffices.  Map equivalence is strengthened by the key sets (`NPEquivS`, `PEquivS`): `dict.SortedKeys` sorts the keys of the Go map, the
model sorts the keys of its association list. -/

/-- lookups agree, the Go keys are the model keys (up to order), the model keys do not repeat -/
structure NPEquivS (cur : String → Bool) (g : price.NormalizedPrices) (m : Prices.NPrices) : Prop where
  lookup : NPEquiv cur g m
  keys : (g.map Prod.fst).Perm ((Prices.keys m).map (cGo cur))
  nodup : (Prices.keys m).Nodup

def PEquivS (cur : String → Bool) (g : price.Prices) (m : Prices.Prices) : Prop :=
  ∀ a : Knut.Commodity,
    match Knut.AMap.find? g (cGo cur a), Prices.find a m with
    | some gi, some mi => NPEquivS cur gi mi
    | none, none => True
    | _, _ => False

theorem PEquivS.toPEquiv {cur : String → Bool} {g : price.Prices} {m : Prices.Prices} (h : PEquivS cur g m) : PEquiv cur g m := by
  intro a
  have := h a
  cases hg : Knut.AMap.find? g (cGo cur a) <;> cases hm : Prices.find a m <;> simp [hg, hm] at this ⊢
  exact this.lookup

theorem keys_amap_set {κ ν : Type} [DecidableEq κ] (m : Knut.AMap κ ν) (k : κ) (v : ν) :
    (Knut.AMap.set m k v).map Prod.fst = if (Knut.AMap.find? m k).isSome then m.map Prod.fst else m.map Prod.fst ++ [k] := by
  induction m with
  | nil => simp [Knut.AMap.set]
  | cons e rest ih =>
    obtain ⟨a, b⟩ := e
    by_cases hak : a = k
    · subst hak; simp [Knut.AMap.set, Knut.AMap.find?]
    · simp only [Knut.AMap.set, hak, if_false, List.map_cons, Knut.AMap.find?, ih]
      split <;> simp

theorem keys_del (m : Prices.AMap β) (k : Commodity) : Prices.keys (Prices.del k m) = (Prices.keys m).filter (fun x => x != k) := by
  induction m with
  | nil => rfl
  | cons e rest ih =>
    obtain ⟨a, b⟩ := e
    by_cases hak : a = k
    · subst hak; simp [Prices.del, Prices.keys] at ih ⊢; exact ih
    · simp [Prices.del, Prices.keys, hak] at ih ⊢; exact ih

theorem keys_set_perm (m : Prices.AMap β) (k : Commodity) (v : β) (hn : (Prices.keys m).Nodup) :
    (Prices.keys (Prices.set m k v)).Perm (if (Prices.find k m).isSome then Prices.keys m else Prices.keys m ++ [k]) ∧
    (Prices.keys (Prices.set m k v)).Nodup := by
  have hk : Prices.keys (Prices.set m k v) = k :: (Prices.keys m).filter (fun x => x != k) := by
    show Prices.keys ((k, v) :: Prices.del k m) = _
    simp only [Prices.keys, List.map_cons]
    have := keys_del m k
    simp only [Prices.keys] at this
    rw [this]
  rw [hk]
  constructor
  · by_cases hs : (Prices.find k m).isSome = true
    · simp only [hs, if_true]
      have hmem : k ∈ Prices.keys m := (Prices.isSome_iff_mem_keys m k).mp hs
      rw [← List.Nodup.erase_eq_filter hn k]
      exact (List.perm_cons_erase hmem).symm
    · simp only [hs, Bool.false_eq_true, if_false]
      have hmem : k ∉ Prices.keys m := fun x => hs ((Prices.isSome_iff_mem_keys m k).mpr x)
      have : (Prices.keys m).filter (fun x => x != k) = Prices.keys m := by
        apply List.filter_eq_self.mpr
        intro a ha; simp; intro e; subst e; exact hmem ha
      rw [this]
      exact (List.perm_append_singleton k (Prices.keys m)).symm
  · refine List.nodup_cons.mpr ⟨by simp, hn.filter _⟩

theorem NPEquivS_nil (cur : String → Bool) : NPEquivS cur [] [] :=
  ⟨NPEquiv_nil cur, by simp [Prices.keys], by simp [Prices.keys]⟩

theorem NPEquivS_set (cur : String → Bool) {g : price.NormalizedPrices} {m : Prices.NPrices} (h : NPEquivS cur g m)
    (c : Knut.Commodity) (v : Rat) : NPEquivS cur (Knut.AMap.set g (cGo cur c) v) (Prices.set m c v) := by
  obtain ⟨hp, hnd⟩ := keys_set_perm m c v h.nodup
  refine ⟨NPEquiv_set cur h.lookup c v, ?_, hnd⟩
  rw [keys_amap_set, h.lookup c]
  by_cases hs : (Prices.find c m).isSome = true
  · simp only [hs, if_true] at hp ⊢
    exact h.keys.trans (hp.map _).symm
  · simp only [hs, Bool.false_eq_true, if_false] at hp ⊢
    refine List.Perm.trans ?_ (hp.map _).symm
    simp only [List.map_append, List.map_cons, List.map_nil]
    exact List.Perm.append_right _ h.keys

theorem addPrice_agreesS (cur : String → Bool) {g : price.Prices} {m : Prices.Prices} (h : PEquivS cur g m)
    (t c : Knut.Commodity) (p : Rat) :
    PEquivS cur (price.Prices.addPrice g (cGo cur t) (cGo cur c) p) (Prices.addPrice m t c p) := by
  intro a
  unfold price.Prices.addPrice Prices.addPrice
  simp only [Knut.AMap.find?_set]
  by_cases ha : t = a
  · subst ha
    simp only [if_true, Prices.find_set_self]
    apply NPEquivS_set
    have := h t
    unfold getDefault price.newNormalizedPrices
    cases hg : Knut.AMap.find? g (cGo cur t) <;> cases hm : Prices.find t m <;> simp [hg, hm] at this ⊢
    · exact NPEquivS_nil cur
    · exact this
  · have : cGo cur t ≠ cGo cur a := fun e => ha (cGo_inj cur e)
    rw [if_neg this, Prices.find_set_ne _ _ _ _ (fun e => ha e.symm)]
    exact h a

/-- `Prices.Insert` keeps the strengthened equivalence: every price map built by `Insert` calls from the empty map satisfies it -/
theorem Insert_agreesS (cur : String → Bool) {g : price.Prices} {m : Prices.Prices} (h : PEquivS cur g m) (d : Prices.Decl) :
    match price.Prices.Insert g (cGo cur d.commodity) d.price (cGo cur d.target), Prices.insert m d with
    | GoSem.Outcome.ok (g', none), some m' => PEquivS cur g' m'
    | GoSem.Outcome.ok (g', some _), none => g' = g
    | _, _ => False := by
  unfold price.Prices.Insert Prices.insert
  by_cases hz : d.price = 0
  · simp [hz]
  · simp only [Decimal.IsZero, hz, decide_false, Bool.false_eq_true, if_false, Decimal.Div, price.one, Decimal.NewFromInt,
      GoSem.Outcome.bind]
    have h1 := addPrice_agreesS cur h d.target d.commodity d.price
    have h2 := addPrice_agreesS cur h1 d.commodity d.target (Prices.recip d.price)
    have e : Decimal.Truncate (Dec.div16 ((1 : Int) : Rat) d.price) 8 = Prices.recip d.price := by
      simp [Prices.recip, Prices.insertPlaces]
    rw [e]
    exact h2

theorem PEquivS_nil (cur : String → Bool) : PEquivS cur [] [] := by intro a; simp [Prices.find]

theorem Compare_le (a b : commodity.Commodity) : decide (commodity.Compare a b ≠ 1) = decide (a.name ≤ b.name) := by
  unfold commodity.Compare commodity.Commodity.Name cmpOrdered
  by_cases h1 : a.name < b.name
  · have : a.name ≤ b.name := String.not_lt.mp (String.lt_asymm h1)
    simp [h1, this]
  · by_cases h2 : b.name < a.name
    · have : ¬ a.name ≤ b.name := fun x => (String.not_lt.mpr x) h2
      simp [h1, h2, this]
    · have : a.name ≤ b.name := String.not_lt.mp h2
      simp [h1, h2, this]

/-- `dict.SortedKeys(ps[c], commodity.Compare)` is the model's `sortNames (keys …)` -/
theorem sortedKeys_agrees (cur : String → Bool) {gi : price.NormalizedPrices} {mi : Prices.NPrices} (h : NPEquivS cur gi mi) :
    sortedKeys gi commodity.Compare = (Prices.sortNames (Prices.keys mi)).map (cGo cur) := by
  unfold sortedKeys
  have hle : (fun a b : commodity.Commodity => decide (commodity.Compare a b ≠ 1)) = (fun a b => decide (a.name ≤ b.name)) := by
    funext a b; exact Compare_le a b
  rw [hle]
  have htrans : ∀ a b c : commodity.Commodity, decide (a.name ≤ b.name) = true → decide (b.name ≤ c.name) = true →
      decide (a.name ≤ c.name) = true := by
    intro a b c h1 h2
    simp only [decide_eq_true_eq] at h1 h2 ⊢
    exact String.le_trans h1 h2
  have htotal : ∀ a b : commodity.Commodity, (decide (a.name ≤ b.name) || decide (b.name ≤ a.name)) = true := by
    intro a b
    simp only [Bool.or_eq_true, decide_eq_true_eq]
    exact String.le_total _ _
  have htrans' : ∀ a b c : Commodity, decide (a ≤ b) = true → decide (b ≤ c) = true → decide (a ≤ c) = true := by
    intro a b c h1 h2
    simp only [decide_eq_true_eq] at h1 h2 ⊢
    exact String.le_trans h1 h2
  have htotal' : ∀ a b : Commodity, (decide (a ≤ b) || decide (b ≤ a)) = true := by
    intro a b
    simp only [Bool.or_eq_true, decide_eq_true_eq]
    exact String.le_total a b
  have hperm : ((gi.map Prod.fst).mergeSort (fun a b => decide (a.name ≤ b.name))).Perm
      ((Prices.sortNames (Prices.keys mi)).map (cGo cur)) :=
    ((List.mergeSort_perm _ _).trans h.keys).trans ((Prices.sortNames_perm _).map _).symm
  apply List.Perm.eq_of_pairwise (le := fun a b : commodity.Commodity => decide (a.name ≤ b.name) = true) _ _ _ hperm
  · intro a b ha hb h1 h2
    have ha' : a ∈ (Prices.sortNames (Prices.keys mi)).map (cGo cur) := hperm.mem_iff.mp ha
    obtain ⟨x, _, rfl⟩ := List.mem_map.mp ha'
    obtain ⟨y, _, rfl⟩ := List.mem_map.mp hb
    have : x = y := String.le_antisymm (of_decide_eq_true h1) (of_decide_eq_true h2)
    rw [this]
  · exact List.pairwise_mergeSort htrans htotal _
  · rw [List.pairwise_map]
    exact List.pairwise_mergeSort htrans' htotal' _

/-- body of the inner `range` loop of `normalize` as the translator writes it (state: `res`, `queue`) -/
def gvisit (ps : price.Prices) (c : commodity.Commodity) (st : price.NormalizedPrices × List commodity.Commodity)
    (el : commodity.Commodity) : price.NormalizedPrices × List commodity.Commodity :=
  let res : price.NormalizedPrices := st.1
  let queue : (List commodity.Commodity) := st.2
  let neighbor : commodity.Commodity := el
  let done : Bool := (Option.isSome (Knut.AMap.find? res neighbor))
  if done then
    (res, queue)
  else
    let res : price.NormalizedPrices := (Knut.AMap.set res neighbor (price.Multiply (Knut.AMap.get (Knut.AMap.get ps c (GoZero.zero : price.NormalizedPrices)) neighbor (GoZero.zero : Rat)) (Knut.AMap.get res c (GoZero.zero : Rat))))
    let queue : (List commodity.Commodity) := (queue ++ [neighbor])
    (res, queue)

theorem gvisit_agrees (cur : String → Bool) {g : price.Prices} {m : Prices.Prices} (h : PEquiv cur g m) (c n : Knut.Commodity)
    (gres : price.NormalizedPrices) (mres : Prices.NPrices) (q : List Knut.Commodity) (hr : NPEquiv cur gres mres) :
    (gvisit g (cGo cur c) (gres, q.map (cGo cur)) (cGo cur n)).2 = (Prices.visit m c (q, mres) n).1.map (cGo cur) ∧
    NPEquiv cur (gvisit g (cGo cur c) (gres, q.map (cGo cur)) (cGo cur n)).1 (Prices.visit m c (q, mres) n).2 := by
  unfold gvisit Prices.visit
  simp only [hr n]
  by_cases hd : (Prices.find n mres).isSome = true
  · simp [hd, hr]
  · simp only [hd, Bool.false_eq_true, if_false]
    refine ⟨by simp, ?_⟩
    have hp : Knut.AMap.get (Knut.AMap.get g (cGo cur c) (GoZero.zero : price.NormalizedPrices)) (cGo cur n) (GoZero.zero : Rat)
        = Prices.price m c n := by
      have := h c
      unfold Prices.price Prices.edge Knut.AMap.get
      cases hg : Knut.AMap.find? g (cGo cur c) <;> cases hm : Prices.find c m <;> simp [hg, hm] at this ⊢
      rw [this n]
    have hc : Knut.AMap.get gres (cGo cur c) (GoZero.zero : Rat) = (Prices.find c mres).getD 0 := by
      unfold Knut.AMap.get; rw [hr c]; rfl
    rw [hp, hc, Multiply_agrees]
    exact NPEquiv_set cur hr n _

theorem gvisitAll_agrees (cur : String → Bool) {g : price.Prices} {m : Prices.Prices} (h : PEquiv cur g m) (c : Knut.Commodity) :
    ∀ (ns : List Knut.Commodity) (gres : price.NormalizedPrices) (mres : Prices.NPrices) (q : List Knut.Commodity),
      NPEquiv cur gres mres →
      (List.foldl (gvisit g (cGo cur c)) (gres, q.map (cGo cur)) (ns.map (cGo cur))).2
        = (ns.foldl (Prices.visit m c) (q, mres)).1.map (cGo cur) ∧
      NPEquiv cur (List.foldl (gvisit g (cGo cur c)) (gres, q.map (cGo cur)) (ns.map (cGo cur))).1
        (ns.foldl (Prices.visit m c) (q, mres)).2 := by
  intro ns
  induction ns with
  | nil => intro gres mres q hr; exact ⟨rfl, hr⟩
  | cons n rest ih =>
    intro gres mres q hr
    simp only [List.map_cons, List.foldl_cons]
    obtain ⟨h1, h2⟩ := gvisit_agrees cur h c n gres mres q hr
    have e : gvisit g (cGo cur c) (gres, q.map (cGo cur)) (cGo cur n)
        = ((gvisit g (cGo cur c) (gres, q.map (cGo cur)) (cGo cur n)).1, (Prices.visit m c (q, mres) n).1.map (cGo cur)) := by
      rw [← h1]
    rw [e]
    have := ih _ (Prices.visit m c (q, mres) n).2 (Prices.visit m c (q, mres) n).1 h2
    simpa using this

/-- the `for len(queue) > 0` loop of `normalize`: with fuel ≥ `unvisited + |queue|` it ends (never `outOfFuel`, never an index
panic) in a map equivalent to the model's `normLoop` -/
theorem normalize_loop_agrees (cur : String → Bool) {g : price.Prices} {m : Prices.Prices} (h : PEquivS cur g m) :
    ∀ (fuel : Nat) (q : List Knut.Commodity) (c0 : commodity.Commodity) (gres : price.NormalizedPrices) (mres : Prices.NPrices),
      NPEquiv cur gres mres → Prices.unvisited m mres + q.length ≤ fuel →
      ∃ c' gres' q', price.Prices.normalize.loop1 g fuel c0 gres (q.map (cGo cur)) = GoSem.Outcome.ok (c', gres', q') ∧
        NPEquiv cur gres' (Prices.normLoop m q mres) := by
  intro fuel
  induction fuel with
  | zero =>
    intro q c0 gres mres hr hf
    have : q = [] := by cases q with | nil => rfl | cons a b => simp at hf
    subst this
    exact ⟨c0, gres, [], by simp [price.Prices.normalize.loop1], by simpa [Prices.normLoop_nil] using hr⟩
  | succ n ih =>
    intro q c0 gres mres hr hf
    cases q with
    | nil => exact ⟨c0, gres, [], by simp [price.Prices.normalize.loop1], by simpa [Prices.normLoop_nil] using hr⟩
    | cons c rest =>
      unfold price.Prices.normalize.loop1
      have hpos : ((((c :: rest).map (cGo cur)).length : Nat) : Int) > 0 := by simp <;> omega
      simp only [len, hpos, decide_true, if_true]
      have hi : index ((c :: rest).map (cGo cur)) 0 = GoSem.Outcome.ok (cGo cur c) := by
        simp [index]
      have hs : slice ((c :: rest).map (cGo cur)) 1 ((((c :: rest).map (cGo cur)).length : Nat) : Int) = GoSem.Outcome.ok (rest.map (cGo cur)) := by
        unfold slice
        have : ¬ ((1 : Int) < 0 ∨ ((((c :: rest).map (cGo cur)).length : Nat) : Int) < 1 ∨
            ((((c :: rest).map (cGo cur)).length : Nat) : Int) < ((((c :: rest).map (cGo cur)).length : Nat) : Int)) := by
          simp <;> omega
        simp only [this, if_false]
        simp
        rw [List.take_of_length_le (by simp)]
      rw [hi, hs]
      simp only [GoSem.Outcome.bind]
      -- the sorted neighbours
      have hsk : sortedKeys (Knut.AMap.get g (cGo cur c) (GoZero.zero : price.NormalizedPrices)) commodity.Compare
          = (Prices.neighbors m c).map (cGo cur) := by
        have := h c
        unfold Prices.neighbors Knut.AMap.get
        cases hg : Knut.AMap.find? g (cGo cur c) <;> cases hm : Prices.find c m <;> simp [hg, hm] at this ⊢
        · simp [sortedKeys, Prices.sortNames, Prices.keys]
        · exact sortedKeys_agrees cur this
      rw [hsk]
      obtain ⟨h1, h2⟩ := gvisitAll_agrees cur h.toPEquiv c (Prices.neighbors m c) gres mres rest hr
      have hfold : ∀ (init : price.NormalizedPrices × List commodity.Commodity) (l : List commodity.Commodity),
          List.foldl (fun (st5 : price.NormalizedPrices × List commodity.Commodity) (el6 : commodity.Commodity) =>
            let res : price.NormalizedPrices := st5.1
            let queue : (List commodity.Commodity) := st5.2
            let neighbor : commodity.Commodity := el6
            let done : Bool := (Option.isSome (Knut.AMap.find? res neighbor))
            if done then
              (res, queue)
            else
              let res : price.NormalizedPrices := (Knut.AMap.set res neighbor (price.Multiply (Knut.AMap.get (Knut.AMap.get g (cGo cur c) (GoZero.zero : price.NormalizedPrices)) neighbor (GoZero.zero : Rat)) (Knut.AMap.get res (cGo cur c) (GoZero.zero : Rat))))
              let queue : (List commodity.Commodity) := (queue ++ [neighbor])
              (res, queue)) init l = List.foldl (gvisit g (cGo cur c)) init l := fun _ _ => rfl
      rw [hfold]
      have hm := Prices.visitAll_measure m c (Prices.neighbors m c) (rest, mres) (Prices.neighbors_sub_universe m c)
      simp only [List.length_cons] at hf hm
      obtain ⟨c', gres', q', e1, e2⟩ := ih ((Prices.neighbors m c).foldl (Prices.visit m c) (rest, mres)).1 (cGo cur c)
        (List.foldl (gvisit g (cGo cur c)) (gres, rest.map (cGo cur)) ((Prices.neighbors m c).map (cGo cur))).1
        ((Prices.neighbors m c).foldl (Prices.visit m c) (rest, mres)).2 h2 (by omega)
      refine ⟨c', gres', q', ?_, ?_⟩
      · rw [← e1, h1]
      · rw [Prices.normLoop_cons]; exact e2

/-- `Prices.Normalize(t)`: for every fuel ≥ `unvisited + 1` the translated function returns a map whose every lookup is the
model's `normalize` (the BFS over sorted neighbours) -/
theorem Normalize_agrees (cur : String → Bool) {g : price.Prices} {m : Prices.Prices} (h : PEquivS cur g m) (t : Knut.Commodity)
    (fuel : Nat) (hf : Prices.unvisited m [(t, 1)] + 1 ≤ fuel) :
    ∃ gres, price.Prices.Normalize g (cGo cur t) fuel = GoSem.Outcome.ok gres ∧ NPEquiv cur gres (Prices.normalize m t) := by
  unfold price.Prices.Normalize price.Prices.normalize Prices.normalize
  have hr : NPEquiv cur (Knut.AMap.set ([] : price.NormalizedPrices) (cGo cur t) price.one) [(t, 1)] := by
    have := NPEquiv_set cur (NPEquiv_nil cur) t 1
    simpa [Prices.set, Prices.del, price.one] using this
  obtain ⟨c', gres', q', e1, e2⟩ := normalize_loop_agrees cur h fuel [t] (cGo cur t) _ _ hr (by simpa using hf)
  refine ⟨gres', ?_, e2⟩
  simp only [List.map_cons, List.map_nil] at e1
  simp [e1, GoSem.Outcome.bind]

/-- non-vacuity: the hypotheses of `Normalize_agrees` are satisfiable (the empty price map, fuel 1), and `PEquivS` is what `Insert`
maintains from the empty map (`PEquivS_nil`, `Insert_agreesS`) -/
example (cur : String → Bool) : ∃ gres, price.Prices.Normalize [] (cGo cur "CHF") 1 = GoSem.Outcome.ok gres ∧
    NPEquiv cur gres (Prices.normalize [] "CHF") :=
  Normalize_agrees cur (PEquivS_nil cur) "CHF" 1 (by simp [Prices.unvisited, Prices.allNames])

end Knut.FactsAgree.TransPrice
