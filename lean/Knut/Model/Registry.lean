/-!
# Model of the shared registries (`lib/model/commodity/registry.go`, `lib/model/account/registry.go`)

Every included file is converted to model objects in its own goroutine (`model.FromStream`), all of them
through ONE commodity registry and ONE account registry.  Everything downstream keys by object identity
(`*Commodity`, `*Account` pointers), so "the journal processed is the union of the files' directives"
needs `Get` to be an atomic get-or-create: one object per name, whatever the interleaving.

```go
func (cs *Registry) Get(name string) (*Commodity, error) {
	cs.mutex.RLock(); res, ok := cs.index[name]; cs.mutex.RUnlock()      // section 1 (read lock)
	if ok { return res, nil }
	cs.mutex.Lock(); defer cs.mutex.Unlock()                               // section 2 (write lock)
	if res, ok = cs.index[name]; ok { return res, nil }                    //   re-check
	if !isValidCommodity(name) { return nil, fmt.Errorf(…) }
	res = &Commodity{name: name}; cs.insert(res); return res, nil
}
```

The two critical sections are the atomic steps (the `sync.RWMutex` makes them so — trusted); a schedule is
any sequence of thread numbers, the scheduled thread runs its next section.  Object identities are
allocation numbers.  `recheck` is the fact extracted from the source on every run
(`Generated.commodityGetRechecks`, `Generated.accountGetRechecks`): with `false` the model is the
variant without the second lookup, for which `Properties/C19Registry.lean` exhibits the split.
-/
namespace Knut.Registry

/-- a Go map `name → object`: the newest binding of a name wins (insert overwrites) -/
structure Reg where
  index : List (String × Nat) := []
  next : Nat := 0
  deriving Repr, Inhabited

def Reg.lookup (r : Reg) (n : String) : Option Nat := (r.index.find? (fun e => e.1 == n)).map (·.2)

/-- one goroutine: the names it still has to resolve, and the name for which section 1 missed -/
structure Thread where
  todo : List String := []
  pending : Option String := none
  deriving Repr, Inhabited

/-- what a call of `Get` returned -/
inductive Ret | obj (id : Nat) | err
  deriving Repr, DecidableEq, Inhabited

/-- a completed call -/
structure Event where
  thread : Nat
  name : String
  ret : Ret
  deriving Repr, DecidableEq, Inhabited

structure Sys where
  reg : Reg := {}
  threads : List Thread := []
  deriving Repr, Inhabited

/-- section 2 of `Get` (under the write lock) -/
def slow (recheck : Bool) (valid : String → Bool) (r : Reg) (n : String) : Reg × Ret :=
  match (if recheck then r.lookup n else none) with
  | some i => (r, .obj i)
  | none =>
    if !valid n then (r, .err)
    else ({ index := (n, r.next) :: r.index, next := r.next + 1 }, .obj r.next)

/-- the scheduled thread runs its next critical section -/
def step (recheck : Bool) (valid : String → Bool) (s : Sys) (t : Nat) : Sys × Option Event :=
  match s.threads[t]? with
  | none => (s, none)
  | some th =>
    match th.pending with
    | some n =>
      let (r', ret) := slow recheck valid s.reg n
      ({ reg := r', threads := s.threads.set t { th with pending := none } }, some ⟨t, n, ret⟩)
    | none =>
      match th.todo with
      | [] => (s, none)
      | n :: rest =>
        match s.reg.lookup n with
        | some i => ({ s with threads := s.threads.set t { th with todo := rest } }, some ⟨t, n, .obj i⟩)
        | none => ({ s with threads := s.threads.set t { todo := rest, pending := some n } }, none)

/-- a whole schedule; the events in the order the calls returned -/
def run (recheck : Bool) (valid : String → Bool) : Sys → List Nat → Sys × List Event
  | s, [] => (s, [])
  | s, t :: ts =>
    let (s', e) := step recheck valid s t
    let (s'', es) := run recheck valid s' ts
    (s'', e.toList ++ es)

/-- the system at the start: an empty registry and one thread per program -/
def start (programs : List (List String)) : Sys := { threads := programs.map (fun p => { todo := p }) }

end Knut.Registry
