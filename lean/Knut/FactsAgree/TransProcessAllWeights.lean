import Knut.FactsAgree.TransProcessAllReturns
/-!
# `knut portfolio weights`: `j.Build().Process(ComputePrices, check, Valuate, ComputeValues, weights.Query{…}.Execute(j, rep))` — the stages BEFORE the query, over a WHOLE journal

The processor list is the one of `cmd/commands/portfolio/weights.go` (`execute`), in this order — read off the source by hand and PINNED
by `FactsAgree/ProcOrderPortfolio` (`ProcOrder.weightsOrder_eq`, against the list extracted from the source on every run):

    journal.ComputePrices(valuation), check.Check(), journal.Valuate(reg, valuation),
    calculator.ComputeValues(), weights.Query{Universe, Partition, Mapping}.Execute(j, rep)

**`weights.Query.Execute` is NOT translated** (it ranges over `Performance.V1`, a map, calls `Universe.Locate`, `shortenPath` and
`Report.Add`; only `Report.Add`/`PropagateWeights`/`SortWeighted` are translated, `FactsAgree/TransWeights*.lean`).  The composition
therefore STOPS before it: `processAllWeights` is the sequential meaning (`Pipeline.seqRun`, as in `TransProcessAllReturns.lean`) of the
FOUR translated processors before the query, i.e. the days as they REACH `Query.Execute`'s `DayEnd`.  The stages are the ones of
`TransProcessAllReturns` (`rPrices`, `rCheck`, `rValuate`, `rValues`, over the same parameter record `RetPar`, whose `part`, `oS` are not
used here) and `valued_segment` is reused as it is; the `ComputeValues` half of `values_flows_segment` is `values_segment`.

* `processAllWeights_eq`: stage-major `seqRun` = the four stages on every day in turn (`fused4`);
* **`values_segment`**: `ComputeValues` as a stage on a day without a `Performance` whose transactions stand for the model's valued
  transactions: succeeds, and the day afterwards carries `V0` = the model's `prev`, `V1` = the model's `valuesDay` (`DayRelW`);
* **`weights_day_agrees`**, **`weights_seq_agrees`** (induction over the days), **`processAllWeights_agrees`**: the Go run of the four
  stages succeeds ⇒ the model's valued days `ms` exist (`ValuedOrd`) and the days that reach the weights query carry, one by one, the
  per-commodity values `v0`, `v1` of `perfDaysV … ms` (= the model's `perfFrom`, the input of the model's `Weights.queryFrom`); it
  fails ⇒ the model's run fails (`ValuedFail`).  For EVERY admissible family of iteration orders (`RetParOK`; its `oS` clause is not
  used).
-/
namespace Knut.FactsAgree.TransProcessAllWeights
open Knut Knut.GoSem Knut.Pipeline
open Knut.Generated.Go
open Knut.FactsAgree.TransProcess Knut.FactsAgree.TransCheck
open Knut.FactsAgree.TransProcessAll
open Knut.FactsAgree.TransPerformance (calcGo cvProc CVRel PEq perfDaysV valuedDays)
open Knut.FactsAgree.TransProcessAllReturns

/-- **the instantiation of `Pipeline.Sys`** for the four translated processors before `weights.Query.Execute`:
`Process(ComputePrices(v), check.Check(), Valuate(reg, v), calculator.ComputeValues(), …)` -/
def weightsSys (P : RetPar) (G0 : RetGo) (days : List journal.Day) : Sys RetGo journal.Day PErr :=
  { n := 4, init := fun _ => G0, items := days,
    f := fun k =>
      match k with
      | 1 => liftStage RetGo.cp (fun S s => { S with cp := s }) (rPrices P)
      | 2 => liftStage RetGo.chk (fun S s => { S with chk := s }) (rCheck P)
      | 3 => liftStage RetGo.va (fun S s => { S with va := s }) (rValuate P)
      | 4 => liftStage RetGo.cv (fun S s => { S with cv := s }) (rValues P)
      | _ => idStage }

/-- **the days that reach `weights.Query.Execute`** in the sequential meaning of `Journal.Process` for `knut portfolio weights`; `none`
if one of the four stages before it failed -/
def processAllWeights (P : RetPar) (G0 : RetGo) (days : List journal.Day) : Option (List journal.Day) :=
  seqRun (weightsSys P G0 days)

/-- every successful schedule of the transition system of `cpr.Seq` delivers `processAllWeights` (`C19_confluent`) -/
theorem processAllWeights_meaning (P : RetPar) (G0 : RetGo) (days : List journal.Day)
    {s : St RetGo journal.Day PErr} (h : Reach (weightsSys P G0 days) s) (hd : s.done (weightsSys P G0 days)) :
    processAllWeights P G0 days = some s.out := seq_meaning h hd

abbrev WFused := ((journal.ComputePrices.State × check.Checker) × journal.Valuate.State) × performance.Calculator.ComputeValues.State

/-- the four stages on one day -/
def fused4 (P : RetPar) : WFused → journal.Day → Except PErr (WFused × journal.Day) := fuse (fused3 P) (rValues P)

def init4 (G0 : RetGo) : WFused := (((G0.cp, G0.chk), G0.va), G0.cv)

/-- **stage-major = day-major** -/
theorem processAllWeights_eq (P : RetPar) (G0 : RetGo) (days : List journal.Day) :
    processAllWeights P G0 days = seqStage (fused4 P) (init4 G0) days := by
  unfold processAllWeights seqRun weightsSys fused4 fused3 init4
  simp only [seqUpTo, Option.bind_some]
  rw [seqStage_lift' RetGo.cp _ (fun _ _ => rfl), seqStage_lift' RetGo.chk _ (fun _ _ => rfl),
    seqStage_lift' RetGo.va _ (fun _ _ => rfl), seqStage_lift' RetGo.cv _ (fun _ _ => rfl)]
  rw [seqStage_fuse, seqStage_fuse, seqStage_fuse]

/-- a day of the Go journal after `ComputeValues` (as it reaches the weights query) carries the model's per-commodity values: `V0` the
values at the end of the previous day, `V1` the values after the day's postings -/
def DayRelW (cur : String → Bool) (d : journal.Day) (dp : Performance.DayPerf) : Prop :=
  d.Date = dp.date ∧ ∃ p, d.Performance = some p ∧ PEq cur p.V0 dp.v0 ∧ PEq cur p.V1 dp.v1

/-- the captured states of the four processors stand for the model's `PState` -/
structure WInv (cur : String → Bool) (cfg : Performance.Cfg) (G : WFused) (ps : Performance.PState) : Prop where
  cp : cfg.valuation.isSome → CPEquiv cur G.1.1.1 ps.bal.graph ps.bal.norm
  chk : StEquiv cur G.1.1.2 ps.bal.chk
  va : cfg.valuation.isSome → ∃ old, VEquiv cur G.1.2 ps.bal.vPrev old ps.bal.vQty
  cv : CVRel cur G.2 ps.values ps.prev

/-- **`ComputeValues` as a stage** (the `ComputeValues` half of `values_flows_segment`) on a day without a `Performance` yet whose
transactions stand for the model's valued transactions: it succeeds for every admissible order, and the day afterwards carries
`V0` = `prev`, `V1` = `valuesDay` -/
theorem values_segment (cur : String → Bool) (cfg : Performance.Cfg) (P : RetPar) (hP : RetParOK cur cfg P)
    {g : performance.Calculator.ComputeValues.State} {vals prev : AMap Knut.Commodity Rat} (h : CVRel cur g vals prev)
    (dg : journal.Day) (date : Int) (hdate : dg.Date = date)
    (hnil : dg.Performance = none) (txs : List Knut.Transaction) (htx : AllRel (TRel cur) dg.Transactions txs)
    (i o pf : Rat) :
    ∃ g' dg1, rValues P g dg = .ok (g', dg1) ∧
      CVRel cur g' (Performance.valuesDay cfg vals txs) (Performance.valuesDay cfg vals txs) ∧
      DayRelW cur dg1 (Performance.DayPerf.mk date prev (Performance.valuesDay cfg vals txs) i o pf) := by
  obtain ⟨ho, hsub, hcov⟩ := hP.oE g dg vals prev txs h htx
  obtain ⟨g', v1, hcv, hrel, hv1, _⟩ := TransPerformance.ComputeValues_day_agrees cur cfg h dg txs htx (P.oE g dg) ho hsub hcov
  simp only [hnil, Option.getD_none] at hcv
  refine ⟨g', { dg with Performance := some { (GoZero.zero : journal.Performance) with V0 := g.prev, V1 := v1 } }, ?_, hrel,
    hdate, _, rfl, h.prev, hv1⟩
  unfold rValues
  rw [hP.cg]
  exact stageOf_ok hcv

/-- **one day through the four translated stages before the weights query against the model's `valuedDay` + `valuesDay`**: both
succeed — states related again, the day that reaches the query carrying the model's `v0`/`v1` — or both fail -/
theorem weights_day_agrees (cur : String → Bool) (cfg : Performance.Cfg) (P : RetPar) (hP : RetParOK cur cfg P)
    {G : WFused} {ps : Performance.PState} (hI : WInv cur cfg G ps) (dg : journal.Day) (d : Knut.Day) (hd : DayRelP cur dg d) :
    ∃ vq, Relist ps.bal.vQty vq ∧ (cfg.valuation = none → vq = ps.bal.vQty) ∧
      match fused4 P G dg, Performance.valuedDay cfg { ps.bal with vQty := vq } d with
      | .ok (G', dg'), .ok (bal', txs) =>
        WInv cur cfg G' ⟨bal', Performance.valuesDay cfg ps.values txs, Performance.valuesDay cfg ps.values txs⟩ ∧
        DayRelW cur dg' (Performance.DayPerf.mk d.date ps.prev (Performance.valuesDay cfg ps.values txs)
          (Performance.dayFlows cfg txs).1 (Performance.dayFlows cfg txs).2.1 (Performance.dayFlows cfg txs).2.2)
      | .error _, .error _ => True
      | _, _ => False := by
  obtain ⟨⟨⟨g1, g2⟩, g3⟩, g4⟩ := G
  obtain ⟨hcp, hchk, hva, hcv⟩ := hI
  simp only at hcp hchk hva hcv
  obtain ⟨vq, hr, hn, hm⟩ := valued_segment cur cfg P hP g1 g2 g3 ps.bal hcp hchk hva dg d hd.1
  refine ⟨vq, hr, hn, ?_⟩
  unfold fused4 fuse
  simp only
  cases h3 : fused3 P ((g1, g2), g3) dg with
  | error e =>
    rw [h3] at hm
    cases hmo : Performance.valuedDay cfg { ps.bal with vQty := vq } d with
    | ok r => rw [hmo] at hm; exact absurd hm (by simp)
    | error e' => simp
  | ok r =>
    obtain ⟨G3, dg3⟩ := r
    rw [h3] at hm
    cases hmo : Performance.valuedDay cfg { ps.bal with vQty := vq } d with
    | error e' => rw [hmo] at hm; exact absurd hm (by simp)
    | ok r' =>
      obtain ⟨bal', txs⟩ := r'
      rw [hmo] at hm
      simp only at hm
      obtain ⟨m1, m2, m3, m4, m5, m6⟩ := hm
      obtain ⟨g4', dg4, e4, hcv', hrel⟩ := values_segment cur cfg P hP hcv dg3 d.date
        (by rw [m4]; exact hd.1.date) (by rw [m5]; exact hd.2) txs m6
        (Performance.dayFlows cfg txs).1 (Performance.dayFlows cfg txs).2.1 (Performance.dayFlows cfg txs).2.2
      simp only [e4]
      exact ⟨⟨m1, m2, m3, hcv'⟩, hrel⟩

/-- **the four stages over the whole journal, by induction over the days**, both directions -/
theorem weights_seq_agrees (cur : String → Bool) (cfg : Performance.Cfg) (P : RetPar) (hP : RetParOK cur cfg P) :
    ∀ (gdays : List journal.Day) (days : List Knut.Day), AllRel (DayRelP cur) gdays days →
      ∀ (G : WFused) (ps : Performance.PState), WInv cur cfg G ps →
        match seqStage (fused4 P) G gdays with
        | some out => ∃ ms, ValuedOrd cfg ps.bal days ms ∧
            AllRel (DayRelW cur) out (perfDaysV cfg (ps.values, ps.prev) ms)
        | none => ValuedFail cfg ps.bal days := by
  intro gdays days hrel
  induction hrel with
  | nil =>
    intro G ps _
    rw [seqStage_nil]
    exact ⟨[], .nil _, .nil⟩
  | @cons dg d gds ds hd _ ih =>
    intro G ps hI
    obtain ⟨vq, hr, hn, hm⟩ := weights_day_agrees cur cfg P hP hI dg d hd
    rw [seqStage_cons]
    cases hgo : fused4 P G dg with
    | error e =>
      rw [hgo] at hm
      cases hmo : Performance.valuedDay cfg { ps.bal with vQty := vq } d with
      | ok r => rw [hmo] at hm; exact absurd hm (by simp)
      | error e' => exact ValuedFail.here vq hr hn hmo
    | ok r =>
      obtain ⟨G', dg'⟩ := r
      rw [hgo] at hm
      cases hmo : Performance.valuedDay cfg { ps.bal with vQty := vq } d with
      | error e' => rw [hmo] at hm; exact absurd hm (by simp)
      | ok r' =>
        obtain ⟨bal', txs⟩ := r'
        rw [hmo] at hm
        simp only at hm ⊢
        have := ih G' _ hm.1
        revert this
        cases seqStage (fused4 P) G' gds with
        | none => intro h; exact ValuedFail.later vq hr hn hmo h
        | some o =>
          intro h
          obtain ⟨ms, hpo, hpr⟩ := h
          exact ⟨(d.date, txs) :: ms, .cons vq hr hn hmo hpo, .cons hm.2 hpr⟩

/-! ### the whole pipeline before the query -/

/-- the states the four constructors start from (`reg`, `calculator`); the fields of `RetGo` for `ComputeFlows` and `Perf` are not used
by `weightsSys` -/
def weightsInit (cur : String → Bool) (cfg : Performance.Cfg) (cf : performance.Calculator.ComputeFlows.State)
    (pf : performance.Perf.State) : RetGo :=
  { cp := ⟨GoZero.zero, []⟩, chk := checkInit, va := ⟨GoZero.zero, GoZero.zero, []⟩,
    cv := performance.Calculator.ComputeValues.init (calcGo cur cfg), cf := cf, pf := pf }

theorem WInv_init (cur : String → Bool) (cfg : Performance.Cfg) (cf : performance.Calculator.ComputeFlows.State)
    (pf : performance.Perf.State) : WInv cur cfg (init4 (weightsInit cur cfg cf pf)) {} :=
  ⟨fun _ => ⟨TransPrice.PEquivS_nil cur, NPEquivO_nil cur⟩, checkInit_equiv cur,
    fun _ => ⟨none, NPEquivO_nil cur, NPEquivO_nil cur, QEquiv_nil cur⟩,
    TransPerformance.ComputeValues_init_agrees cur (calcGo cur cfg)⟩

/-- **`Journal.Process` of `knut portfolio weights` up to the (untranslated) query = the model's run**, for EVERY admissible family of
iteration orders and fuels (`RetParOK`), on Go days that stand for the model's days and carry no `Performance` yet:

* the four stages fail ⇒ the model's (re-listed) valuation of the days fails (`ValuedFail`);
* they succeed ⇒ the model's valued days `ms` exist (`ValuedOrd`) and the days that REACH `weights.Query.Execute` carry, one by one, the
  per-commodity values `v0`/`v1` of `perfDaysV … ms` — the model's `perfFrom`, what the model's `Weights.queryFrom` is run on. -/
theorem processAllWeights_agrees (cur : String → Bool) (cfg : Performance.Cfg) (P : RetPar) (hP : RetParOK cur cfg P)
    (cf : performance.Calculator.ComputeFlows.State) (pf : performance.Perf.State)
    (gdays : List journal.Day) (days : List Knut.Day) (hdays : AllRel (DayRelP cur) gdays days) :
    match processAllWeights P (weightsInit cur cfg cf pf) gdays with
    | none => ValuedFail cfg {} days
    | some out => ∃ ms, ValuedOrd cfg {} days ms ∧ AllRel (DayRelW cur) out (perfDaysV cfg ([], []) ms) := by
  rw [processAllWeights_eq]
  have h := weights_seq_agrees cur cfg P hP gdays days hdays _ {} (WInv_init cur cfg cf pf)
  revert h
  cases seqStage (fused4 P) (init4 (weightsInit cur cfg cf pf)) gdays with
  | none => intro h; exact h
  | some out => intro h; exact h

/-! ### Non-vacuity: the empty journal — all stages succeed on no day, the initial states are related (`WInv_init`); a non-empty
journal with admissible parameters: `Properties/C20Go3Ex.lean` -/
example (P : RetPar) (G0 : RetGo) : processAllWeights P G0 [] = some [] := by
  rw [processAllWeights_eq]; rfl

end Knut.FactsAgree.TransProcessAllWeights
