package main

// Differential stream `gosembean` (run as part of C11, after `gosemfmt`): what the translation of lib/journal/beancount adds to the
// prelude (lean/Knut/GoSem/Regexp.lean, SortSlice.lean; harness/trans_units_beancount.go) against the real Go packages:
//   strings.HasPrefix; regexp.MustCompile("[^a-zA-Z]").ReplaceAllString with replacements without `$`; the guarantee the agreement
//   theorems assume of knut's compare.Sort (= the unstable sort.Slice): its output is a permutation of its input in which no element
//   is Smaller than one before it (decided in Lean on the output of the real function, slices with many ties, longer than the
//   insertion-sort threshold of pdqsort); and the reading "a printer made by printer.New(w) and w are one sink".

import (
	"fmt"
	"io"
	"regexp"
	"sort"
	"strings"

	"github.com/sboehler/knut/lib/common/compare"
	"github.com/sboehler/knut/lib/journal/printer"
)

type gosemBeanItem struct{ key, id int }

func gosemBeanItems(xs []gosemBeanItem) string {
	if len(xs) == 0 {
		return "-"
	}
	parts := make([]string, len(xs))
	for i, x := range xs {
		parts[i] = itoa(x.key) + "." + itoa(x.id)
	}
	return strings.Join(parts, ",")
}

var gosemBeanRegex = regexp.MustCompile("[^a-zA-Z]")

func runGoSemBeanStream(c *Ctx, n int) {
	bt := c.NewBatch()
	defer bt.Flush()
	cmp := func(i int, op string, in map[string]any, impl string, fields ...string) {
		in["op"] = op
		bt.Add(func(model string) { c.Compare("gosembean", i, "gosembean "+op, in, impl, model) }, append([]string{"gosembean"}, fields...)...)
	}
	pieces := []string{"", "a", "Z", "m", "USD", "chf", "1", "42", "_", "-", ".", " ", "\n", "\t", "$", "€", "é", "É", "ß", "日本", "😀", "x1y", "Equity", ":", "Valuation", "Equity:Valuation:", "Equity:Valuation", "equity:valuation:", "`", "[", "@", "{", "z", "A"}
	repls := []string{"X", "", "__", "é", "x y"}
	for i := 0; i < n; i++ {
		if !c.Want("gosembean", i) {
			continue
		}
		r := c.Rng("gosembean", i)
		c.Evals++
		// ---- strings.HasPrefix
		s := ""
		for k := r.Range(0, 4); k > 0; k-- {
			s += Pick(r, pieces)
		}
		var p string
		switch r.Intn(4) {
		case 0:
			p = Pick(r, pieces)
		case 1: // a prefix of s that ends on a rune boundary
			rs := []rune(s)
			p = string(rs[:r.Intn(len(rs)+1)])
		case 2:
			p = s + Pick(r, pieces)
		default:
			p = Pick(r, pieces) + Pick(r, pieces)
		}
		cmp(i, "hasprefix", map[string]any{"s": s, "prefix": p}, itoa(gosemB2i(strings.HasPrefix(s, p))), "hasprefix", Hex(s), Hex(p))
		c.Class(fmt.Sprintf("gosembean/hasprefix/%v/plen%s", strings.HasPrefix(s, p), bucket(len(p))))
		// ---- the regular expression [^a-zA-Z]
		t := ""
		for k := r.Range(0, 6); k > 0; k-- {
			t += Pick(r, pieces)
		}
		repl := Pick(r, repls)
		cmp(i, "nonletter", map[string]any{"s": t, "repl": repl}, Hex(gosemBeanRegex.ReplaceAllString(t, repl)), "nonletter", Hex(t), Hex(repl))
		c.Class(fmt.Sprintf("gosembean/nonletter/len%s/repl%d", bucket(len(t)), len(repl)))
		// ---- compare.Sort: permutation, no element Smaller than one before it
		m := r.Range(0, 14)
		if r.Chance(1, 2) {
			m = r.Range(13, 70) // beyond pdqsort's insertion-sort threshold: the sort is not stable there
		}
		keys := r.Range(1, 6)
		xs := make([]gosemBeanItem, m)
		for k := range xs {
			xs[k] = gosemBeanItem{key: r.Intn(keys), id: k}
		}
		in := gosemBeanItems(xs)
		ys := append([]gosemBeanItem{}, xs...)
		compare.Sort(ys, func(a, b gosemBeanItem) compare.Order { return compare.Ordered(a.key, b.key) })
		stable := append([]gosemBeanItem{}, xs...)
		sort.SliceStable(stable, func(a, b int) bool { return stable[a].key < stable[b].key })
		same := gosemBeanItems(stable) == gosemBeanItems(ys)
		cmp(i, "sortslice", map[string]any{"in": in, "out": gosemBeanItems(ys)}, "ok", "sortslice", in, gosemBeanItems(ys))
		c.Class(fmt.Sprintf("gosembean/sortslice/len%s/keys%d/stable%v", bucket(m), keys, same))
		// ---- printer.New(w) and w are one sink
		a, b, cc, before := Pick(r, pieces), Pick(r, pieces), Pick(r, pieces), Pick(r, pieces)
		rec := &gosemRecWriter{text: []byte(before)}
		pr := printer.New(rec)
		io.WriteString(pr, a)
		io.WriteString(rec, b)
		pr.Write([]byte(cc))
		fmt.Fprintf(rec, "%s %s", a, b)
		cmp(i, "alias", map[string]any{"before": before, "a": a, "b": b, "c": cc}, Hex(string(rec.text)), "alias", Hex(before), Hex(a), Hex(b), Hex(cc))
	}
}
