package main

import (
	"fmt"
	"os"
	"path/filepath"
	"strings"
	"time"
)

// Stream "cli" of C11: the period columns and the attribution of dates to them, observed on the real command line.
//
// A journal books exactly 1 CHF from Equity:E to Assets:A on every day of a range, so that the cell of Assets:A in a
// column counts the days attributed to it.  `knut balance --csv` is run with a random window / interval / --last,
// cumulative or --diff, in varying time zones of the child process (runKnut).  Expected, independently of the pipeline
// model: the column dates are the period ends of the Lean partition model for the window clipped to the journal's
// period, and column k counts the days of the window that lie in period k (days before the first shown period go to the
// first period) — by plain arithmetic on day numbers.
func runC11CLI(c *Ctx) {
	if c.KnutBin == "" {
		return
	}
	n := c.N(160, 4000)
	dir := filepath.Join(c.WorkDir, "c11cli")
	os.MkdirAll(dir, 0o755)
	type job struct {
		idx                 int
		first, ndays        int
		from, to, iv, last  int
		diff                bool
		noTo                bool // no --to flag: the window ends today
		args                []string
		code                int
		stdout, stderr, txt string
	}
	var jobs []*job
	for i := 0; i < n; i++ {
		if !c.Want("cli", i) {
			continue
		}
		r := c.Rng("cli", i)
		jb := &job{idx: i}
		jb.first = dayNum(time.Date(r.Range(1995, 2023), time.Month(r.Range(1, 12)), r.Range(1, 28), 0, 0, 0, 0, time.UTC))
		jb.ndays = Pick(r, []int{1, 2, 7, 20, 45, 100, 200, 400})
		lastDay := jb.first + jb.ndays - 1
		if r.Chance(2, 3) {
			jb.from = jb.first + r.Range(-10, jb.ndays/2+2)
		}
		jb.to = lastDay + r.Range(-jb.ndays/2-2, 15)
		if r.Chance(1, 6) {
			// no --to: the window ends TODAY; the journal runs from the past into the future, so that some of its days lie
			// after the window ("later dates [are attributed] to no column"; seeded change C11-e dropped the filter stage
			// when neither --from nor --to is given and placed the zero date of the future amounts into the first column)
			jb.noTo = true
			jb.first = today() - r.Range(1, jb.ndays)
			lastDay = jb.first + jb.ndays - 1
			jb.to = today()
			if r.Chance(1, 2) {
				jb.from = 0
			} else {
				jb.from = jb.first + r.Range(-3, 3)
			}
		}
		if !jb.noTo && r.Chance(1, 8) {
			// a window ending exactly on a unit boundary
			t := dayTime(jb.to)
			jb.to = dayNum(time.Date(t.Year(), t.Month(), 1, 0, 0, 0, 0, time.UTC)) - r.Intn(2)
		}
		jb.iv = Pick(r, []int{0, 1, 2, 2, 3, 3, 4, 5})
		if jb.iv == 1 && jb.ndays > 100 {
			jb.iv = 2
		}
		if r.Chance(1, 3) {
			jb.last = r.Range(1, 5)
		}
		jb.diff = r.Chance(1, 2)
		var b strings.Builder
		fmt.Fprintf(&b, "%s open Assets:A\n%s open Equity:E\n\n", fmtDate(jb.first-1), fmtDate(jb.first-1))
		for d := 0; d < jb.ndays; d++ {
			fmt.Fprintf(&b, "%s \"d%d\"\nEquity:E Assets:A 1 CHF\n\n", fmtDate(jb.first+d), d)
		}
		jb.txt = b.String()
		jb.args = []string{"balance", "--color=false", "--csv", "--close=false"}
		if !jb.noTo {
			jb.args = append(jb.args, "--to", fmtDate(jb.to))
		}
		if jb.from != 0 {
			jb.args = append(jb.args, "--from", fmtDate(jb.from))
		}
		if jb.iv > 0 {
			jb.args = append(jb.args, intervalFlag[jb.iv])
		}
		if jb.last > 0 {
			jb.args = append(jb.args, "--last", itoa(jb.last))
		}
		if jb.diff {
			jb.args = append(jb.args, "--diff")
		}
		jobs = append(jobs, jb)
	}
	parallelFor(len(jobs), 16, func(k int) {
		jb := jobs[k]
		p := filepath.Join(dir, fmt.Sprintf("j%d.knut", jb.idx))
		os.WriteFile(p, []byte(jb.txt), 0o644)
		var env []string
		if jb.noTo {
			env = []string{"TZ=UTC"} // "today" must be the harness' today
		}
		jb.code, jb.stdout, jb.stderr = runKnut(c.KnutBin, 20*time.Second, env, append(jb.args, p)...)
		os.Remove(p)
	})
	bt := c.NewBatch()
	defer bt.Flush()
	for _, jb := range jobs {
		jb := jb
		c.Evals++
		lastDay := jb.first + jb.ndays - 1
		// the window of the command: [from or the beginning of time, to] clipped to the journal's period
		a, b := jb.first, lastDay
		if jb.from > a {
			a = jb.from
		}
		if jb.to < b {
			b = jb.to
		}
		in := map[string]any{"args": strings.Join(jb.args, " "), "journal": fmt.Sprintf("1 CHF from Equity:E to Assets:A on each of the %d days from %s", jb.ndays, fmtDate(jb.first)),
			"window":            map[string]any{"a": a, "b": b, "iv": jb.iv, "last": jb.last},
			"child_environment": strings.Join(childTZ(nil, append(append([]string{}, jb.args...), fmt.Sprintf("/j%d.knut", jb.idx))), " ")}
		c.Class(fmt.Sprintf("cli/iv%d/last%d/diff%v/from%v/noto%v/n%s/%s", jb.iv, min(jb.last, 2), jb.diff, jb.from != 0, jb.noTo, bucket(jb.ndays), sign(b-a)))
		if jb.idx < 2 {
			c.Sample(map[string]any{"stream": "cli", "args": jb.args, "stdout": clip(jb.stdout)})
		}
		if !c.Monitor("cli", jb.idx, "balance terminates with exit 0", in, jb.code == 0, fmt.Sprintf("exit %d stderr %s", jb.code, clip(jb.stderr))) {
			continue
		}
		// header dates and the row of Assets:A
		var header, row []string
		for _, l := range strings.Split(jb.stdout, "\n") {
			f := strings.Split(l, ",")
			switch {
			case strings.HasPrefix(l, "Account,"):
				header = f[2:]
			case f[0] == "A" && len(f) >= 2:
				row = f[2:]
			}
		}
		bt.Add(func(model string) {
			if !strings.HasPrefix(model, "ok") {
				c.Compare("cli", jb.idx, "columns", in, "header "+strings.Join(header, " "), model)
				return
			}
			var ends, starts []int
			for _, f := range strings.Fields(model)[1:] {
				var s, e int
				fmt.Sscanf(f, "%d:%d", &s, &e)
				starts, ends = append(starts, s), append(ends, e)
			}
			if b < a {
				// empty window: no bookings pass the filter, nothing to count
				c.Monitor("cli", jb.idx, "empty window shows no amounts", in, len(row) == 0 || strings.Join(row, "") == "" || allZero(row), jb.stdout)
				return
			}
			want := make([]string, len(ends))
			for k, e := range ends {
				want[k] = fmtDate(e)
			}
			if !c.Monitor("cli", jb.idx, "C11 columns are the period ends of the partition", in, strings.Join(header, ",") == strings.Join(want, ","),
				fmt.Sprintf("columns %v, period ends of the model %v\n%s", header, want, jb.stdout)) {
				return
			}
			// attribution: column k counts the days of [a, b] up to its end (cumulative) or inside its period (--diff);
			// days before the first shown period belong to the first column
			exp := make([]string, len(ends))
			for k, e := range ends {
				lo := a
				if jb.diff && k > 0 {
					lo = ends[k-1] + 1
				}
				cnt := e - lo + 1
				if cnt < 0 {
					cnt = 0
				}
				exp[k] = itoa(cnt)
				if cnt == 0 {
					exp[k] = ""
				}
			}
			got := append([]string{}, row...)
			for len(got) < len(exp) {
				got = append(got, "")
			}
			for k := range got {
				if got[k] == "0" {
					got[k] = ""
				}
			}
			c.Monitor("cli", jb.idx, "C11 every date is attributed to the column of its period", in, strings.Join(got, ",") == strings.Join(exp, ","),
				fmt.Sprintf("row of Assets:A %v, expected day counts %v (window %s..%s)\n%s", row, exp, fmtDate(a), fmtDate(b), jb.stdout))
		}, "part", itoa(a), itoa(b), itoa(jb.iv), itoa(jb.last))
	}
}

func allZero(fs []string) bool {
	for _, f := range fs {
		if f != "" && f != "0" {
			return false
		}
	}
	return true
}

// ---------------------------------------------------------------- stream "files"

// Stream "files" of C11: the same one-CHF-a-day journal, but laid out over several files (include), and loaded under
// several goroutine schedules.
//
// The window of a report is the requested period clipped to the journal's period, and the journal's period is put together
// from what the concurrently parsed files contribute, in whatever order they arrive (seeded change C11-f merged the date
// range of a whole file into the period and moved only its end when a file enclosed what had arrived before: the window
// then started too late and the earliest columns vanished).  The statement does not depend on the layout: the columns are
// the period ends of the partition of [first transaction or --from, last transaction/price or --to] and every day is
// counted in the column of its period.  Varied: which days each file holds (contiguous chunks in any file order, onion
// layers where a file encloses the next one on both or on one side with thin and thick layers, interleaved and random
// assignment, files without transactions), the include tree (flat, chain, random; subdirectories), where in a file the
// includes stand (the parser starts an included file when it meets the directive and hands a file on when it is
// finished, so position and size decide the natural arrival order), the order of the transactions in a file, prices
// before the first and after the last transaction (they move the end of the period, never its start), and the
// schedule: each tree is run unperturbed and with several KNUT_VERIF_SEED / GOMAXPROCS settings.
type c11File struct {
	rel    string
	parent int
	days   []int    // day offsets held by the file, in the order written
	extra  []string // other directives
	incPos int      // includes of the children: 0 at the top, 1 at the bottom, 2 anywhere
}

type c11Run struct {
	env            []string
	code           int
	stdout, stderr string
}

func c11DayRanges(ds []int) string {
	if len(ds) == 0 {
		return "-"
	}
	var parts []string
	for i := 0; i < len(ds); {
		j, step := i, 0
		if i+1 < len(ds) && (ds[i+1]-ds[i] == 1 || ds[i+1]-ds[i] == -1) {
			step = ds[i+1] - ds[i]
			for j+1 < len(ds) && ds[j+1]-ds[j] == step {
				j++
			}
		}
		if j == i {
			parts = append(parts, itoa(ds[i]))
		} else {
			parts = append(parts, fmt.Sprintf("%d..%d", ds[i], ds[j]))
		}
		i = j + 1
	}
	return strings.Join(parts, ",")
}

func runC11Files(c *Ctx) {
	if c.KnutBin == "" {
		return
	}
	n := c.N(140, 4000)
	nruns := c.N(3, 5)
	base := filepath.Join(c.WorkDir, "c11files")
	type job struct {
		idx                 int
		first, ndays        int
		from, to, iv, last  int
		diff                bool
		prePrice, postPrice int // day numbers, 0: none
		mode, shape         string
		files               []*c11File
		texts               []string
		args                []string
		runs                []*c11Run
		layout              []map[string]any
		root                string
	}
	var jobs []*job
	for i := 0; i < n; i++ {
		if !c.Want("files", i) {
			continue
		}
		r := c.Rng("files", i)
		jb := &job{idx: i}
		jb.first = dayNum(time.Date(r.Range(1995, 2022), time.Month(r.Range(1, 12)), r.Range(1, 28), 0, 0, 0, 0, time.UTC))
		jb.ndays = Pick(r, []int{2, 3, 7, 20, 45, 100, 200, 400})
		if c.Thorough() && r.Chance(1, 10) {
			jb.ndays = r.Range(2, 1000)
		}
		lastDay := jb.first + jb.ndays - 1
		if r.Chance(1, 2) {
			jb.from = jb.first + r.Range(-10, jb.ndays/2+2)
		}
		if r.Chance(1, 2) {
			jb.to = lastDay + r.Range(-jb.ndays/2-2, 15)
			if r.Chance(1, 8) {
				t := dayTime(jb.to)
				jb.to = dayNum(time.Date(t.Year(), t.Month(), 1, 0, 0, 0, 0, time.UTC)) - r.Intn(2)
			}
		}
		jb.iv = Pick(r, []int{0, 1, 2, 2, 3, 3, 3, 4, 4, 5})
		if jb.iv == 1 && jb.ndays > 100 {
			jb.iv = 2
		}
		if r.Chance(1, 3) {
			jb.last = r.Range(1, 5)
		}
		jb.diff = r.Chance(1, 2)
		if r.Chance(1, 4) {
			jb.prePrice = jb.first - r.Range(1, 400)
		}
		if r.Chance(1, 4) {
			jb.postPrice = lastDay + Pick(r, []int{1, 2, 10, 40, 100})
		}

		// ---- which file holds which days
		nfiles := r.Range(2, 5)
		if nfiles > jb.ndays {
			nfiles = jb.ndays
		}
		perm := make([]int, nfiles)
		for k := range perm {
			perm[k] = k
		}
		for k := nfiles - 1; k > 0; k-- {
			w := r.Intn(k + 1)
			perm[k], perm[w] = perm[w], perm[k]
		}
		hold := make([][]int, nfiles)
		switch r.Intn(5) {
		case 0: // contiguous chunks (a file per year), some possibly empty, in any file order
			jb.mode = "chunks"
			cuts := []int{0}
			for k := 1; k < nfiles; k++ {
				cuts = append(cuts, r.Range(0, jb.ndays))
			}
			cuts = append(cuts, jb.ndays)
			for a := 1; a < len(cuts); a++ {
				for b := a; b > 0 && cuts[b] < cuts[b-1]; b-- {
					cuts[b], cuts[b-1] = cuts[b-1], cuts[b]
				}
			}
			for k := 0; k < nfiles; k++ {
				for d := cuts[k]; d < cuts[k+1]; d++ {
					hold[perm[k]] = append(hold[perm[k]], d)
				}
			}
		case 1, 2: // onion: a file encloses the days of the next one, on both sides or on one
			jb.mode = "onion"
			lo, hi := 0, jb.ndays
			width := func(room int) int {
				if room < 1 {
					return 0
				}
				switch r.Intn(4) {
				case 0:
					return 1
				case 1:
					return room
				}
				return r.Range(1, room)
			}
			for k := 0; k < nfiles; k++ {
				f := perm[k]
				if k == nfiles-1 || hi-lo < 3 {
					for d := lo; d < hi; d++ {
						hold[f] = append(hold[f], d)
					}
					lo = hi
					continue
				}
				room := (hi - lo - 1) / 2
				wl, wr := width(room), width(room)
				switch r.Intn(6) {
				case 0:
					wl = 0
					jb.mode = "onion-onesided"
				case 1:
					wr = 0
					jb.mode = "onion-onesided"
				}
				for d := lo; d < lo+wl; d++ {
					hold[f] = append(hold[f], d)
				}
				for d := hi - wr; d < hi; d++ {
					hold[f] = append(hold[f], d)
				}
				lo, hi = lo+wl, hi-wr
			}
		case 3: // interleaved
			jb.mode = "interleaved"
			stride := Pick(r, []int{1, 1, 2, 7, 30})
			for d := 0; d < jb.ndays; d++ {
				f := perm[(d/stride)%nfiles]
				hold[f] = append(hold[f], d)
			}
		default:
			jb.mode = "random"
			for d := 0; d < jb.ndays; d++ {
				f := r.Intn(nfiles)
				hold[f] = append(hold[f], d)
			}
		}
		if r.Chance(1, 4) {
			// a further file without any transaction
			hold = append(hold, nil)
			nfiles++
			// ... which is the main file half of the time
			if r.Bool() {
				hold[0], hold[nfiles-1] = hold[nfiles-1], hold[0]
			}
		}
		// ---- the include tree
		treeKind := r.Intn(3)
		jb.shape = []string{"flat", "chain", "tree"}[treeKind]
		dirs := []string{"", "", "sub", "sub/deep", "y"}
		for k := 0; k < nfiles; k++ {
			f := &c11File{rel: "main.knut", parent: -1, days: hold[k], incPos: r.Intn(3)}
			if k > 0 {
				f.rel = filepath.Join(Pick(r, dirs), fmt.Sprintf("f%d.knut", k))
				switch treeKind {
				case 0:
					f.parent = 0
				case 1:
					f.parent = k - 1
				default:
					f.parent = r.Intn(k)
				}
			}
			switch r.Intn(3) {
			case 1: // newest first
				for a, b := 0, len(f.days)-1; a < b; a, b = a+1, b-1 {
					f.days[a], f.days[b] = f.days[b], f.days[a]
				}
			case 2:
				if r.Chance(1, 2) {
					for q := len(f.days) - 1; q > 0; q-- {
						w := r.Intn(q + 1)
						f.days[q], f.days[w] = f.days[w], f.days[q]
					}
				}
			}
			jb.files = append(jb.files, f)
		}
		of := jb.files[r.Intn(nfiles)]
		of.extra = append(of.extra, fmt.Sprintf("%s open Assets:A\n", fmtDate(jb.first-1)))
		of = jb.files[r.Intn(nfiles)]
		of.extra = append(of.extra, fmt.Sprintf("%s open Equity:E\n", fmtDate(jb.first-1)))
		if jb.prePrice != 0 {
			of = jb.files[r.Intn(nfiles)]
			of.extra = append(of.extra, fmt.Sprintf("%s price USD 0.9 CHF\n", fmtDate(jb.prePrice)))
		}
		if jb.postPrice != 0 {
			of = jb.files[r.Intn(nfiles)]
			of.extra = append(of.extra, fmt.Sprintf("%s price USD 1.1 CHF\n", fmtDate(jb.postPrice)))
		}
		// ---- the text of the files
		for k, f := range jb.files {
			var items []string
			for _, d := range f.days {
				items = append(items, fmt.Sprintf("%s \"d%d\"\nEquity:E Assets:A 1 CHF\n", fmtDate(jb.first+d), d))
			}
			for _, e := range f.extra {
				p := r.Intn(len(items) + 1)
				items = append(items[:p], append([]string{e}, items[p:]...)...)
			}
			var children []int
			for q := k + 1; q < nfiles; q++ {
				if jb.files[q].parent != k {
					continue
				}
				children = append(children, q)
				relp, _ := filepath.Rel(filepath.Dir(f.rel), jb.files[q].rel)
				inc := fmt.Sprintf("include \"%s\"\n", relp)
				p := 0
				switch f.incPos {
				case 1:
					p = len(items)
				case 2:
					p = r.Intn(len(items) + 1)
				}
				items = append(items[:p], append([]string{inc}, items[p:]...)...)
			}
			jb.texts = append(jb.texts, strings.Join(items, "\n"))
			jb.layout = append(jb.layout, map[string]any{"file": f.rel, "includes": children, "includes_at": []string{"top", "bottom", "anywhere"}[f.incPos],
				"days": c11DayRanges(f.days), "other": f.extra})
		}
		jb.args = []string{"balance", "--color=false", "--csv", "--close=false"}
		if jb.to != 0 {
			jb.args = append(jb.args, "--to", fmtDate(jb.to))
		}
		if jb.from != 0 {
			jb.args = append(jb.args, "--from", fmtDate(jb.from))
		}
		if jb.iv > 0 {
			jb.args = append(jb.args, intervalFlag[jb.iv])
		}
		if jb.last > 0 {
			jb.args = append(jb.args, "--last", itoa(jb.last))
		}
		if jb.diff {
			jb.args = append(jb.args, "--diff")
		}
		// ---- the schedules: unperturbed first
		for k := 0; k < nruns; k++ {
			run := &c11Run{}
			if k > 0 {
				run.env = append(run.env, fmt.Sprintf("KNUT_VERIF_SEED=%d", r.Range(1, 100000)))
			}
			if g := Pick(r, []string{"", "", "1", "2", "4"}); g != "" {
				run.env = append(run.env, "GOMAXPROCS="+g)
			}
			jb.runs = append(jb.runs, run)
		}
		jobs = append(jobs, jb)
	}
	for _, jb := range jobs {
		dir := filepath.Join(base, fmt.Sprintf("c%d", jb.idx))
		for k, f := range jb.files {
			p := filepath.Join(dir, f.rel)
			os.MkdirAll(filepath.Dir(p), 0o755)
			os.WriteFile(p, []byte(jb.texts[k]), 0o644)
		}
		jb.root = filepath.Join(dir, "main.knut")
	}
	type rj struct{ j, k int }
	var rjs []rj
	for j := range jobs {
		for k := range jobs[j].runs {
			rjs = append(rjs, rj{j, k})
		}
	}
	parallelFor(len(rjs), 16, func(q int) {
		jb := jobs[rjs[q].j]
		run := jb.runs[rjs[q].k]
		run.code, run.stdout, run.stderr = runKnut(c.KnutBin, 20*time.Second, run.env, append(append([]string{}, jb.args...), jb.root)...)
	})
	os.RemoveAll(base)
	bt := c.NewBatch()
	defer bt.Flush()
	for _, jb := range jobs {
		jb := jb
		c.Evals++
		lastDay := jb.first + jb.ndays - 1
		// the journal's period: first transaction .. last transaction or price; the window: the requested one clipped to it
		a, b := jb.first, lastDay
		if jb.postPrice > b {
			b = jb.postPrice
		}
		if jb.from > a {
			a = jb.from
		}
		to := jb.to
		if to == 0 {
			to = today()
		}
		if to < b {
			b = to
		}
		c.Class(fmt.Sprintf("files/%s/%s/n%d/iv%d/last%d/diff%v/from%v/to%v/pre%v/post%v/n%s/%s", jb.mode, jb.shape, len(jb.files), jb.iv, min(jb.last, 2), jb.diff, jb.from != 0, jb.to != 0,
			jb.prePrice != 0, jb.postPrice != 0, bucket(jb.ndays), sign(b-a)))
		if jb.idx < 1 {
			c.Sample(map[string]any{"stream": "files", "args": jb.args, "layout": jb.layout, "stdout": clip(jb.runs[0].stdout)})
		}
		// days of the journal inside [lo, hi] and inside the window
		count := func(lo, hi int) int {
			lo, hi = max(lo, a, jb.first), min(hi, b, lastDay)
			if hi < lo {
				return 0
			}
			return hi - lo + 1
		}
		for _, run := range jb.runs {
			run := run
			in := map[string]any{"args": strings.Join(jb.args, " ") + " main.knut", "journal": fmt.Sprintf("1 CHF from Equity:E to Assets:A on each of the %d days from %s (day 0), spread over files", jb.ndays, fmtDate(jb.first)),
				"layout": jb.layout, "window": map[string]any{"a": a, "b": b, "start": fmtDate(a), "end": fmtDate(b), "iv": jb.iv, "last": jb.last},
				"child_environment": strings.Join(childTZ(run.env, append(append([]string{}, jb.args...), jb.root)), " ")}
			if !c.Monitor("files", jb.idx, "balance terminates with exit 0", in, run.code == 0, fmt.Sprintf("exit %d stderr %s", run.code, clip(run.stderr))) {
				continue
			}
			var header, row []string
			for _, l := range strings.Split(run.stdout, "\n") {
				f := strings.Split(l, ",")
				switch {
				case strings.HasPrefix(l, "Account,"):
					header = f[2:]
				case f[0] == "A" && len(f) >= 2:
					row = f[2:]
				}
			}
			bt.Add(func(model string) {
				if !strings.HasPrefix(model, "ok") {
					c.Compare("files", jb.idx, "columns", in, "header "+strings.Join(header, " "), model)
					return
				}
				var ends []int
				for _, f := range strings.Fields(model)[1:] {
					var s, e int
					fmt.Sscanf(f, "%d:%d", &s, &e)
					ends = append(ends, e)
				}
				if b < a {
					c.Monitor("files", jb.idx, "empty window shows no amounts", in, len(row) == 0 || allZero(row), run.stdout)
					return
				}
				want := make([]string, len(ends))
				for k, e := range ends {
					want[k] = fmtDate(e)
				}
				if !c.Monitor("files", jb.idx, "C11 columns are the period ends of the partition, whatever the layout over files and their arrival order", in, strings.Join(header, ",") == strings.Join(want, ","),
					fmt.Sprintf("columns %v, period ends of the model %v for the window %s..%s\n%s", header, want, fmtDate(a), fmtDate(b), run.stdout)) {
					return
				}
				exp := make([]string, len(ends))
				for k, e := range ends {
					lo := 0
					if jb.diff && k > 0 {
						lo = ends[k-1] + 1
					}
					exp[k] = ""
					if cnt := count(lo, e); cnt > 0 {
						exp[k] = itoa(cnt)
					}
				}
				got := append([]string{}, row...)
				for len(got) < len(exp) {
					got = append(got, "")
				}
				for k := range got {
					if got[k] == "0" {
						got[k] = ""
					}
				}
				c.Monitor("files", jb.idx, "C11 every date is attributed to the column of its period, whatever the layout over files and their arrival order", in, strings.Join(got, ",") == strings.Join(exp, ","),
					fmt.Sprintf("row of Assets:A %v, expected day counts %v (window %s..%s)\n%s", row, exp, fmtDate(a), fmtDate(b), run.stdout))
			}, "part", itoa(a), itoa(b), itoa(jb.iv), itoa(jb.last))
		}
	}
}

// ---------------------------------------------------------------- stream "edges"

// Stream "edges" of C11: what stands at the chronological ends of the journal is a directive that books nothing.
//
// The window of a report is the requested period clipped to the journal's period, and the journal's period is spanned by
// the transactions (start and end) and the prices (end only) THAT THE RUN ACCEPTS: an open/close of an account nobody
// books to, a balance assertion, an empty included file move nothing; a price — also of a commodity the journal never
// uses — dated after the last transaction moves the end; a price that the run refuses (value 0 when a valuation is
// requested) refuses the whole journal: no report is printed.  (Seeded change C11-k let the builder drop a zero price
// after its date had already been merged into the journal's period: the columns of `--val` reports ran up to the date of a
// directive that is not part of the journal and --last kept empty periods.)  The journal is the one-CHF-a-day journal of
// the cli stream plus 1-4 such directives before the first / after the last / between the transactions, in the main file
// or in an included prices file, with and without --val, --from, --to, --last, --diff, all six intervals.
type c11Extra struct {
	kind, pos string
	day       int
	text      string
	file      int
}

func runC11Edges(c *Ctx) {
	if c.KnutBin == "" {
		return
	}
	n := c.N(220, 5000)
	base := filepath.Join(c.WorkDir, "c11edges")
	type job struct {
		idx                int
		first, ndays       int
		from, to, iv, last int
		diff, val          bool
		extras             []*c11Extra
		names, texts       []string
		args               []string
		runs               []*c11Run
		root               string
	}
	var jobs []*job
	for i := 0; i < n; i++ {
		if !c.Want("edges", i) {
			continue
		}
		r := c.Rng("edges", i)
		jb := &job{idx: i}
		jb.first = dayNum(time.Date(r.Range(1995, 2022), time.Month(r.Range(1, 12)), r.Range(1, 28), 0, 0, 0, 0, time.UTC))
		jb.ndays = Pick(r, []int{1, 2, 3, 7, 20, 45, 100, 200})
		lastDay := jb.first + jb.ndays - 1
		openDay := jb.first - Pick(r, []int{1, 1, 30, 500})
		if r.Chance(1, 3) {
			jb.from = jb.first + r.Range(-10, jb.ndays/2+2)
		}
		if r.Chance(1, 3) {
			jb.to = lastDay + Pick(r, []int{-jb.ndays / 2, -1, 0, 1, 5, 15, 50, 150, 500})
		}
		jb.iv = Pick(r, []int{0, 1, 2, 2, 3, 3, 3, 4, 4, 5})
		if jb.iv == 1 && jb.ndays > 45 {
			jb.iv = 2 // the directives after the end may lie a year away
		}
		if r.Chance(1, 3) {
			jb.last = r.Range(1, 4)
		}
		jb.diff = r.Chance(1, 2)
		jb.val = r.Chance(3, 5)
		// ---- the files: main, possibly a prices file, possibly a file without any directive
		jb.names = []string{"main.knut"}
		if r.Chance(1, 2) {
			jb.names = append(jb.names, "prices.knut")
		}
		nhold := len(jb.names)
		if r.Chance(1, 4) {
			jb.names = append(jb.names, "sub/empty.knut")
		}
		// ---- the directives that book nothing
		nextra := r.Range(1, 4)
		for k := 0; k < nextra; k++ {
			e := &c11Extra{kind: Pick(r, []string{"price", "price", "zeroprice", "zeroprice", "zeroprice", "otherprice", "open", "openclose", "assert", "assert"}),
				pos: Pick(r, []string{"after", "after", "after", "before", "before", "inside"}), file: r.Intn(nhold)}
			switch e.pos {
			case "after":
				e.day = lastDay + Pick(r, []int{1, 2, 10, 40, 86, 100, 400})
			case "before":
				e.day = jb.first - Pick(r, []int{1, 2, 10, 40, 86, 100, 400})
			default:
				e.day = jb.first + r.Intn(jb.ndays)
			}
			switch e.kind {
			case "price":
				e.text = fmt.Sprintf("%s price USD %s CHF\n", fmtDate(e.day), Pick(r, []string{"0.9", "1.1", "1", "0.00000001", "12345.678"}))
			case "zeroprice":
				e.text = fmt.Sprintf("%s price %s %s CHF\n", fmtDate(e.day), Pick(r, []string{"USD", "USD", "XAU"}), Pick(r, []string{"0", "0", "0.0", "0.000"}))
			case "otherprice":
				e.text = fmt.Sprintf("%s price XAU 1800 USD\n", fmtDate(e.day))
			case "open":
				e.text = fmt.Sprintf("%s open Assets:U%d\n", fmtDate(e.day), k)
			case "openclose":
				e.text = fmt.Sprintf("%s open Assets:U%d\n\n%s close Assets:U%d\n", fmtDate(e.day-Pick(r, []int{0, 1, 30})), k, fmtDate(e.day), k)
			case "assert":
				// within a day: openings, transactions, assertions
				if e.day < openDay {
					e.day = openDay
				}
				bal := min(max(e.day-jb.first+1, 0), jb.ndays)
				e.text = fmt.Sprintf("%s balance Assets:A %d CHF\n", fmtDate(e.day), bal)
			}
			jb.extras = append(jb.extras, e)
		}
		items := make([][]string, len(jb.names))
		for d := 0; d < jb.ndays; d++ {
			items[0] = append(items[0], fmt.Sprintf("%s \"d%d\"\nEquity:E Assets:A 1 CHF\n", fmtDate(jb.first+d), d))
		}
		ins := func(f int, s string, p int) {
			if p < 0 {
				p = r.Intn(len(items[f]) + 1)
			}
			items[f] = append(items[f][:p], append([]string{s}, items[f][p:]...)...)
		}
		for _, e := range jb.extras {
			ins(e.file, e.text, -1)
		}
		ins(0, fmt.Sprintf("%s open Assets:A\n", fmtDate(openDay)), -1)
		ins(0, fmt.Sprintf("%s open Equity:E\n", fmtDate(openDay)), -1)
		for k := 1; k < len(jb.names); k++ {
			ins(0, fmt.Sprintf("include \"%s\"\n", jb.names[k]), Pick(r, []int{0, len(items[0]), -1}))
		}
		for k := range jb.names {
			jb.texts = append(jb.texts, strings.Join(items[k], "\n"))
		}
		jb.args = []string{"balance", "--color=false", "--csv", "--close=false"}
		if jb.val {
			jb.args = append(jb.args, "--val", "CHF")
		}
		if jb.to != 0 {
			jb.args = append(jb.args, "--to", fmtDate(jb.to))
		}
		if jb.from != 0 {
			jb.args = append(jb.args, "--from", fmtDate(jb.from))
		}
		if jb.iv > 0 {
			jb.args = append(jb.args, intervalFlag[jb.iv])
		}
		if jb.last > 0 {
			jb.args = append(jb.args, "--last", itoa(jb.last))
		}
		if jb.diff {
			jb.args = append(jb.args, "--diff")
		}
		// the unperturbed schedule and a perturbed one
		jb.runs = []*c11Run{{}, {env: []string{fmt.Sprintf("KNUT_VERIF_SEED=%d", r.Range(1, 100000))}}}
		jobs = append(jobs, jb)
	}
	for _, jb := range jobs {
		dir := filepath.Join(base, fmt.Sprintf("c%d", jb.idx))
		for k, nm := range jb.names {
			p := filepath.Join(dir, nm)
			os.MkdirAll(filepath.Dir(p), 0o755)
			os.WriteFile(p, []byte(jb.texts[k]), 0o644)
		}
		jb.root = filepath.Join(dir, "main.knut")
	}
	type rj struct{ j, k int }
	var rjs []rj
	for j := range jobs {
		for k := range jobs[j].runs {
			rjs = append(rjs, rj{j, k})
		}
	}
	parallelFor(len(rjs), 16, func(q int) {
		jb := jobs[rjs[q].j]
		run := jb.runs[rjs[q].k]
		run.code, run.stdout, run.stderr = runKnut(c.KnutBin, 20*time.Second, run.env, append(append([]string{}, jb.args...), jb.root)...)
	})
	os.RemoveAll(base)
	bt := c.NewBatch()
	defer bt.Flush()
	for _, jb := range jobs {
		jb := jb
		c.Evals++
		lastDay := jb.first + jb.ndays - 1
		// the journal's period: first transaction .. last transaction or accepted price; a price of value 0 is an ordinary
		// directive unless a valuation is requested, and then the journal is refused
		a, b := jb.first, lastDay
		refused := false
		var kinds []string
		var layout []map[string]any
		for _, e := range jb.extras {
			kinds = append(kinds, e.kind+"-"+e.pos)
			layout = append(layout, map[string]any{"file": jb.names[e.file], "directive": e.text})
			switch e.kind {
			case "price", "otherprice":
				b = max(b, e.day)
			case "zeroprice":
				if jb.val {
					refused = true
				} else {
					b = max(b, e.day)
				}
			}
		}
		jend := b
		a = max(a, jb.from)
		to := jb.to
		if to == 0 {
			to = today()
		}
		b = min(b, to)
		for q := 1; q < len(kinds); q++ {
			for w := q; w > 0 && kinds[w] < kinds[w-1]; w-- {
				kinds[w], kinds[w-1] = kinds[w-1], kinds[w]
			}
		}
		c.Class(fmt.Sprintf("edges/%s/val%v/refused%v/files%d/iv%d/last%d/diff%v/from%v/to%v/%s", strings.Join(kinds, "+"), jb.val, refused, len(jb.names), jb.iv, min(jb.last, 2), jb.diff,
			jb.from != 0, jb.to != 0, sign(b-a)))
		if jb.idx < 1 {
			c.Sample(map[string]any{"stream": "edges", "args": jb.args, "files": jb.names, "other_directives": layout, "stdout": clip(jb.runs[0].stdout), "stderr": clip(jb.runs[0].stderr)})
		}
		count := func(lo, hi int) int {
			lo, hi = max(lo, a, jb.first), min(hi, b, lastDay)
			if hi < lo {
				return 0
			}
			return hi - lo + 1
		}
		for _, run := range jb.runs {
			run := run
			in := map[string]any{"args": strings.Join(jb.args, " ") + " main.knut",
				"journal":           fmt.Sprintf("1 CHF from Equity:E to Assets:A on each of the %d days from %s to %s (main.knut), and the directives listed", jb.ndays, fmtDate(jb.first), fmtDate(lastDay)),
				"files":             jb.names,
				"other_directives":  layout,
				"journal_period":    fmtDate(jb.first) + ".." + fmtDate(jend),
				"window":            map[string]any{"a": a, "b": b, "start": fmtDate(a), "end": fmtDate(b), "iv": jb.iv, "last": jb.last},
				"child_environment": strings.Join(childTZ(run.env, append(append([]string{}, jb.args...), jb.root)), " ")}
			var header, row []string
			skip := 2 // Account,Comm,...; with a valuation there is no commodity column
			if jb.val {
				skip = 1
			}
			for _, l := range strings.Split(run.stdout, "\n") {
				f := strings.Split(l, ",")
				switch {
				case strings.HasPrefix(l, "Account,"):
					header = f[skip:]
				case f[0] == "A" && len(f) >= skip:
					row = f[skip:]
				}
			}
			// a refused journal prints no report; an accepted one prints one
			outcome := fmt.Sprintf("exit %d, %d columns", run.code, len(header))
			switch {
			case run.code == 0 && strings.Contains(run.stdout, "Account"):
				outcome = "report"
			case run.code > 0 && strings.TrimSpace(run.stdout) == "":
				outcome = "refused"
				if strings.Contains(run.stderr, "invalid price") {
					outcome = "refused: invalid price"
				}
			}
			want := "report"
			if refused {
				want = "refused: invalid price"
			}
			detail := outcome
			if outcome != want {
				detail += "\nstdout:\n" + clip(run.stdout) + "\nstderr:\n" + clip(run.stderr)
			}
			c.Monitor("edges", jb.idx, "C11 a journal with a price that the valuation refuses prints no report, every other journal prints one", in, outcome == want, "expected "+want+", got "+detail)
			if outcome != "report" {
				continue
			}
			// a report was printed: its columns partition the window spanned by the accepted directives (a refused price is none)
			bt.Add(func(model string) {
				if !strings.HasPrefix(model, "ok") {
					c.Compare("edges", jb.idx, "columns", in, "header "+strings.Join(header, " "), model)
					return
				}
				var ends []int
				for _, f := range strings.Fields(model)[1:] {
					var s, e int
					fmt.Sscanf(f, "%d:%d", &s, &e)
					ends = append(ends, e)
				}
				if b < a {
					c.Monitor("edges", jb.idx, "empty window shows no amounts", in, len(row) == 0 || allZero(row), run.stdout)
					return
				}
				want := make([]string, len(ends))
				for k, e := range ends {
					want[k] = fmtDate(e)
				}
				if !c.Monitor("edges", jb.idx, "C11 columns are the period ends of the partition of the window spanned by the accepted directives", in, strings.Join(header, ",") == strings.Join(want, ","),
					fmt.Sprintf("columns %v, period ends of the model %v for the window %s..%s\n%s", header, want, fmtDate(a), fmtDate(b), run.stdout)) {
					return
				}
				exp := make([]string, len(ends))
				for k, e := range ends {
					lo := 0
					if jb.diff && k > 0 {
						lo = ends[k-1] + 1
					}
					exp[k] = ""
					if cnt := count(lo, e); cnt > 0 {
						exp[k] = itoa(cnt)
					}
				}
				got := append([]string{}, row...)
				for len(got) < len(exp) {
					got = append(got, "")
				}
				for k := range got {
					if got[k] == "0" {
						got[k] = ""
					}
				}
				c.Monitor("edges", jb.idx, "C11 every date is attributed to the column of its period, whatever stands at the ends of the journal", in, strings.Join(got, ",") == strings.Join(exp, ","),
					fmt.Sprintf("row of Assets:A %v, expected day counts %v (window %s..%s)\n%s", row, exp, fmtDate(a), fmtDate(b), run.stdout))
			}, "part", itoa(a), itoa(b), itoa(jb.iv), itoa(jb.last))
		}
	}
}
