import Knut.Proofs.MTMBridge
import Knut.Proofs.LedgerClose
/-!
# C03: the stages before Query do not look at `-m`, `--remap`, `--account`, `--commodity`

`plainOf cfg` is `cfg` without mapping, remapping and filters.  The transactions handed to the Query stage are the same
under `cfg` and `plainOf cfg` (`pipelineRun_plainOf`); only the report inserts differ, and the inserts under `cfg` are
the inserts under `plainOf cfg` passed through `reEntry cfg` (filters, then `mapAccount` on the account):
`run_plainOf`.
-/
namespace Knut.MTM
open Knut Knut.Dec

/-- the configuration without `-m`, `--remap` and filters -/
def plainOf (cfg : BalCfg) : BalCfg :=
  { cfg with mapping := [], remap := fun _ => false, accountFilter := fun _ => true, commodityFilter := fun _ => true }

theorem plain_plainOf (cfg : BalCfg) : Plain (plainOf cfg) := ⟨rfl, fun _ => rfl, fun _ => rfl, fun _ => rfl⟩

/-- the state with another insert log -/
def setE (st : BalState) (es : List Entry) : BalState := { st with entries := es }

theorem checkStage_setE (st : BalState) (es : List Entry) (d : Day) :
    Balance.checkStage (setE st es) d = (Balance.checkStage st d).map (fun s => setE s es) := by
  unfold Balance.checkStage setE
  simp only
  cases Check.day st.chk d <;> rfl

theorem pricesDay_setE (v : Commodity) (st : BalState) (es : List Entry) (d : Day) :
    Balance.pricesDay v (setE st es) d = (Balance.pricesDay v st d).map (fun s => setE s es) := by
  unfold Balance.pricesDay setE
  simp only [bind, Except.bind]
  cases d.prices.foldlM (fun g p =>
      match Prices.insert g ⟨p.commodity, p.price, p.target⟩ with
      | some g' => Except.ok g'
      | none => Except.error BalErr.zeroPrice) st.graph <;> rfl

theorem valuateDay_setE (v : Commodity) (st : BalState) (es : List Entry) (d : Day) :
    Balance.valuateDay v (setE st es) d = (Balance.valuateDay v st d).map (fun r => (setE r.1 es, r.2)) := by
  unfold Balance.valuateDay setE
  simp only [bind, Except.bind]
  cases Balance.adjustments v d.date st.vPrev st.norm st.vQty with
  | error e => rfl
  | ok adj =>
    simp only
    cases (d.transactions ++ adj).mapM (Balance.valueTx v st.norm) <;> rfl

theorem valuationStage_setE (cfg : BalCfg) (st : BalState) (es : List Entry) (d : Day) :
    Balance.valuationStage cfg (setE st es) d = (Balance.valuationStage cfg st d).map (fun r => (setE r.1 es, r.2)) := by
  unfold Balance.valuationStage
  cases cfg.valuation with
  | none => rfl
  | some v =>
    simp only [bind, Except.bind]
    rw [pricesDay_setE]
    cases Balance.pricesDay v st d with
    | error e => rfl
    | ok s =>
      simp only [Except.map]
      rw [valuateDay_setE]
      cases Balance.valuateDay v s d <;> rfl

theorem accStep_setE (st : BalState) (es : List Entry) (p : Posting) :
    LedgerClose.accStep (setE st es) p = setE (LedgerClose.accStep st p) es := by
  unfold LedgerClose.accStep setE
  split <;> rfl

theorem accumulate_setE (st : BalState) (es : List Entry) (ts : List Transaction) :
    Balance.accumulate (setE st es) ts = setE (Balance.accumulate st ts) es := by
  rw [LedgerClose.accumulate_eq, LedgerClose.accumulate_eq]
  generalize ts.flatMap (·.postings) = ps
  induction ps generalizing st with
  | nil => rfl
  | cons p rest ih => rw [List.foldl_cons, List.foldl_cons, accStep_setE, ih]

theorem closeStage_setE (cfg : BalCfg) (st : BalState) (es : List Entry) (d : Day) (txs : List Transaction) :
    Balance.closeStage cfg (setE st es) d txs =
      (setE (Balance.closeStage cfg st d txs).1 es, (Balance.closeStage cfg st d txs).2) := by
  unfold Balance.closeStage
  split
  · simp only
    rw [show (setE st es).cQty = st.cQty from rfl, show (setE st es).cVal = st.cVal from rfl, accumulate_setE]
  · rfl

theorem dayTxs_setE (cfg : BalCfg) (st : BalState) (es : List Entry) (d : Day) :
    Balance.dayTxs cfg (setE st es) d = (Balance.dayTxs cfg st d).map (fun r => (setE r.1 es, r.2)) := by
  unfold Balance.dayTxs
  simp only [bind, Except.bind]
  rw [checkStage_setE]
  cases Balance.checkStage st d with
  | error e => rfl
  | ok s =>
    simp only [Except.map]
    rw [valuationStage_setE]
    cases Balance.valuationStage cfg s d with
    | error e => rfl
    | ok r =>
      obtain ⟨s1, txs1⟩ := r
      simp only [Except.map]
      rw [closeStage_setE]

theorem dayTxs_plainOf (cfg : BalCfg) (st : BalState) (d : Day) :
    Balance.dayTxs (plainOf cfg) st d = Balance.dayTxs cfg st d := rfl

/-- the same transactions reach the Query stage with and without mapping and filters -/
theorem pipelineRun_plainOf (cfg : BalCfg) : ∀ (ds : List Day) (st st' : BalState) (txs : List Transaction) (es : List Entry),
    pipelineRun cfg st ds = .ok (st', txs) → ∃ es', pipelineRun (plainOf cfg) (setE st es) ds = .ok (setE st' es', txs)
  | [], st, st', txs, es, h => by
    unfold pipelineRun at h
    injection h with h; injection h with h1 h2; subst h1; subst h2
    exact ⟨es, rfl⟩
  | d :: ds, st, st', txs, es, h => by
    unfold pipelineRun at h
    cases hq : dayQ cfg st d with
    | error e => rw [hq] at h; cases h
    | ok r =>
      obtain ⟨sd, td⟩ := r
      rw [hq] at h; simp only at h
      cases hr : pipelineRun cfg sd ds with
      | error e => rw [hr] at h; cases h
      | ok r2 =>
        obtain ⟨s2, rest⟩ := r2
        rw [hr] at h; simp only at h
        injection h with h; injection h with h1 h2; subst h1; subst h2
        unfold dayQ at hq
        cases hd : Balance.dayTxs cfg st d with
        | error e => rw [hd] at hq; cases hq
        | ok r3 =>
          obtain ⟨s3, t3⟩ := r3
          rw [hd] at hq; simp only at hq
          injection hq with hq; injection hq with h1 h2; subst h1; subst h2
          have hq' : dayQ (plainOf cfg) (setE st es) d =
              .ok (setE { s3 with entries := s3.entries ++ t3.flatMap (Balance.queryTx cfg) }
                (es ++ t3.flatMap (Balance.queryTx (plainOf cfg))), t3) := by
            unfold dayQ
            rw [dayTxs_plainOf, dayTxs_setE, hd]
            rfl
          obtain ⟨es', hes'⟩ := pipelineRun_plainOf cfg ds _ s2 rest (es ++ t3.flatMap (Balance.queryTx (plainOf cfg))) hr
          refine ⟨es', ?_⟩
          unfold pipelineRun
          rw [hq']
          simp only
          rw [hes']

/-- what the mapping and the filters do to an insert of the plain report -/
def reEntry (cfg : BalCfg) (e : Entry) : Option Entry :=
  if cfg.accountFilter e.account.name && cfg.commodityFilter e.commodity then
    (mapAccount cfg e.account).map (fun a => { e with account := a })
  else none

theorem queryPosting_reEntry (cfg : BalCfg) (t : Transaction) (p : Posting) :
    Balance.queryPosting cfg t p = (Balance.queryPosting (plainOf cfg) t p).bind (reEntry cfg) := by
  have h1 : Balance.queryPosting (plainOf cfg) t p = some ⟨alignIn cfg.periods t.date, p.account, p.commodity,
      if cfg.valuation.isSome then p.value else p.quantity⟩ := by
    unfold Balance.queryPosting mapAccount shorten mappingLevel plainOf
    simp only [Bool.and_self, if_true, List.find?_nil, Bool.false_eq_true, if_false]
  rw [h1]
  unfold Balance.queryPosting reEntry
  simp only [Option.bind_some]
  split
  · cases mapAccount cfg p.account <;> rfl
  · rfl

theorem queryTx_reEntry (cfg : BalCfg) (t : Transaction) :
    Balance.queryTx cfg t = (Balance.queryTx (plainOf cfg) t).filterMap (reEntry cfg) := by
  unfold Balance.queryTx
  rw [List.filterMap_filterMap]
  apply LedgerClose.filterMap_ext'
  intro p _
  exact queryPosting_reEntry cfg t p

theorem flatMap_queryTx_reEntry (cfg : BalCfg) (txs : List Transaction) :
    txs.flatMap (Balance.queryTx cfg) = (txs.flatMap (Balance.queryTx (plainOf cfg))).filterMap (reEntry cfg) := by
  induction txs with
  | nil => rfl
  | cons t rest ih => rw [List.flatMap_cons, List.flatMap_cons, List.filterMap_append, ih, queryTx_reEntry]

/-- **a run under any mapping and filters is the plain run with its inserts mapped and filtered** -/
theorem run_plainOf (cfg : BalCfg) (days : List Day) (stF : BalState) (h : Balance.run cfg days = .ok stF) :
    ∃ stP, Balance.run (plainOf cfg) days = .ok stP ∧ stF.entries = stP.entries.filterMap (reEntry cfg) := by
  obtain ⟨txs, hp, hes⟩ := run_pipelineRun cfg days stF h
  obtain ⟨es', hp'⟩ := pipelineRun_plainOf cfg days {} stF txs [] hp
  have h0 : setE ({} : BalState) [] = {} := rfl
  rw [h0] at hp'
  refine ⟨setE stF es', ?_, ?_⟩
  · unfold Balance.run
    rw [foldlM_day_eq, hp']
    rfl
  · have := pipelineRun_entries (plainOf cfg) days {} _ txs hp'
    rw [this, hes]
    exact flatMap_queryTx_reEntry cfg txs

end Knut.MTM
