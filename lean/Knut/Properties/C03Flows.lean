import Knut.Proofs.MTMPeriods
import Knut.Properties.C03Modes
import Knut.Properties.C01
/-!
# C03 — the flow clause at cell level: every income/expense/equity account, closing on or off

* `C03_gain_delta_noclose` (pipeline, `--close=false`) – for ANY account `b` that is not asset/liability and every
  `(F, D]` (`F` the eve of the window or an earlier period end): the change of the row of `b` is
  `Spec.flowAt b − (Σ_{a ∈ S} Δ(a) − Spec.flowOver S)`, `S = Spec.mirrored days b` the journal's asset/liability accounts
  whose value adjustments are booked on `b` (`Income:<path>`; empty for every other account): its own bookings at the
  price of their booking day, minus the value adjustments (change of shown value minus booked value) of the mirrored
  accounts.  Exact.  This is the formula the monitor `gain_on_mirror_account` evaluates.
* `C03_close_period` (pipeline, `--close`) – the valued closing transfer of a period start removes everything booked on a
  closable account before it: the cumulative value in the column of a period is, in terms of the run WITHOUT closing,
  the cumulative value at the period end minus that on the eve of the period; asset/liability rows are untouched.
* `C03_command_row_shows` – what the cells of a per-account row show, as a function of the inserts (`accCum`).
* **`C03_command_flow_cell`** – the cells: in a cumulative valued report with per-account rows the row of an account `b`
  that is neither asset/liability nor (with closing) `Equity:Equity` shows in column `k`
  `−(flow(b) − (Σ_{a ∈ S} (shown(a, D_k) − shown(a, F_k)) − flow(S)))` over `(F_k, D_k]`, where `F_k` is the eve of the
  window without closing and the eve of the PERIOD with closing (the closing transfers have moved the earlier periods to
  `Equity:Equity`).
-/
namespace Knut.C03
open Knut Knut.Dec Knut.MTM Knut.LedgerCommand
open Knut.Table (Cell)

/-- **pipeline level, closing off, any non-A/L account** (see `MTM.run_gain_accounts_noclose`) -/
theorem C03_gain_delta_noclose (cfg : BalCfg) (v : Commodity) (b : Account) (days : List Day) (stF : BalState) (F D : Int)
    (hv : cfg.valuation = some v) (hcl : cfg.close = false) (hpl : Plain cfg) (hb : b.isAL = false) (hs : Sorted days)
    (hcons : ∀ d ∈ days, ∀ t ∈ d.transactions, t.date = d.date)
    (hz : ∀ d ∈ days, ∀ t ∈ d.transactions, ∀ p ∈ t.postings, p.value = 0)
    (hinc : List.Pairwise (· < ·) (cfg.periods.map (·.stop))) (hD : D ∈ cfg.periods.map (·.stop))
    (hF : IsEve cfg F D) (hDin : cfg.span.contains D = true)
    (h : Balance.run cfg days = .ok stF) :
    ∃ fl flS, Spec.flowAt v days b F D = some fl ∧ Spec.flowOver v days (Spec.mirrored days b) F D = some flS ∧
      accCum b stF.entries D - accCum b stF.entries F =
        fl - (((Spec.mirrored days b).map (fun a => accCum a stF.entries D - accCum a stF.entries F)).sum - flS) :=
  run_gain_accounts_noclose cfg v b days stF F D hv hcl hpl hb hs hcons hz hinc hD hF hDin h

/-- an account that is not below `Income` mirrors no asset/liability account: its row shows exactly its flow -/
theorem C03_mirrored_nil (days : List Day) (b : Account) (hb : b.segments.head? ≠ some "Income") :
    Spec.mirrored days b = [] := by
  unfold Spec.mirrored
  rw [List.filter_eq_nil_iff]
  intro a _ hc
  simp only [decide_eq_true_eq] at hc
  apply hb
  rw [← hc]
  rfl

/-- **pipeline level, closing on** (see `MTM.run_close_period`) -/
theorem C03_close_period (cfg : BalCfg) (v : Commodity) (hv : cfg.valuation = some v) (hcl : cfg.close = true)
    (hpl : Plain cfg) (days : List Day) (hs : Sorted days)
    (hcons : ∀ d ∈ days, ∀ t ∈ d.transactions, t.date = d.date)
    (hinc : List.Pairwise (· < ·) (cfg.periods.map (·.stop)))
    (st : BalState) (h : Balance.run cfg days = .ok st) :
    ∃ stN, Balance.run (noClose cfg) days = .ok stN ∧
      (∀ (sel : Entry → Bool), (∀ e, sel e = true → e.account.isAL = true) → st.entries.filter sel = stN.entries.filter sel) ∧
      ∀ (s D : Int), D ∈ cfg.periods.map (·.stop) → s ≤ D → s ∈ days.map (·.date) →
        (cfg.periods.map (·.start)).contains s = true →
        (∀ x ∈ cfg.periods.map (·.start), x ≤ s ∨ D < x) → IsEve cfg (s - 1) D → cfg.span.contains D = true →
        ∀ (b : Account), Spec.closable b = true →
          accCum b st.entries D = accCum b stN.entries D - accCum b stN.entries (s - 1) :=
  run_close_period cfg v hv hcl hpl days hs hcons hinc st h

/-! ### what a row shows -/

/-- the running total subtracted in column `k`: the previous column's in a `--diff` report, nothing otherwise -/
def prevCum (diff : Bool) (a : Account) (es : List Entry) (ends : List Int) (k : Nat) : Rat :=
  if diff then (match k with | 0 => 0 | j + 1 => accCum a es (ends.getD j 0)) else 0

theorem shownAt_prevCum (a : Account) (es : List Entry) (ends : List Int) (hinc : List.Pairwise (· < ·) ends)
    (hdates : ∀ e ∈ es, e.account = a → ∀ D', e.date = some D' → D' ∈ ends) (diff : Bool) (k : Nat) (hk : k < ends.length) :
    shownAt diff ends (BalanceReport.cellAt (BalanceReport.own es a.segments) false none) k =
      accCum a es ends[k] - prevCum diff a es ends k := by
  unfold shownAt prevCum
  cases diff with
  | false =>
    simp only [Bool.false_eq_true, if_false]
    rw [cum_eq_accCum a es ends hinc hdates k hk, rat_sub_zero]
  | true =>
    simp only [if_true, List.getD_eq_getElem?_getD, List.getElem?_eq_getElem hk, Option.getD_some]
    cases k with
    | zero =>
      simp only
      rw [diff_eq_accCum_zero a es ends hinc hdates hk, rat_sub_zero]
    | succ j =>
      have hj : j < ends.length := by omega
      simp only [List.getElem?_eq_getElem hj, Option.getD_some]
      exact diff_eq_accCum_sub a es ends hinc hdates j hk

/-- **what the cells of a per-account row show.**  In every valued report with per-account rows (cumulative or
`--diff`, closing on or off) the row of an account `a` with an insert exists — in the asset/liability section as it is,
in the income/expense/equity section with the sign flipped — and its cell in column `k` is the sum of the inserts on `a`
aligned to column dates `≤ D_k` (`accCum`), minus, in a `--diff` report, the same for the previous column. -/
theorem C03_command_row_shows (f : BalanceFlags) (v : Commodity) (hf : RowFlags f v)
    (ds : List Directive) (es : List Entry) (part : Partition) (h : BalanceCmd.entries f ds = .ok (es, part))
    (a : Account) (hne : a.segments ≠ []) (hmem : ∃ e ∈ es, e.account = a) :
    ∃ pre post cells,
      (BalanceReport.table (BalanceCmd.renderCfg f part) es).rows =
        pre ++ [Cell.text (a.segments.getLast?.getD "").toList .left ((2 * (a.segments.length - 1) : Nat) : Int) :: cells] ++ post ∧
      cells.length = part.endDates.length ∧
      ∀ (k : Nat) (hk : k < part.endDates.length) (hk' : k < cells.length),
        cellVal cells[k] = (if a.isAL then (accCum a es part.endDates[k] - prevCum f.diff a es part.endDates k)
          else -(accCum a es part.endDates[k] - prevCum f.diff a es part.endDates k)) := by
  obtain ⟨hpart, st, hrun, rfl⟩ := entries_ok h
  obtain ⟨e, he, rfl⟩ := hmem
  have hpl := hf.plain part
  have hcv : (cfgOf f part).valuation = some v := hf.valuation
  have hvs : (cfgOf f part).valuation.isSome = true := by rw [hcv]; rfl
  obtain ⟨hinc, _⟩ := Performance.endDates_increasing hpart
  generalize hrc : BalanceCmd.renderCfg f part = rc
  have hrv : rc.valuation.isSome = true := by rw [← hrc]; unfold BalanceCmd.renderCfg; rw [hf.valuation]; rfl
  have hrs : ∀ s, rc.showCommodities s = false := by
    intro s; rw [← hrc]; unfold BalanceCmd.renderCfg; rw [hf.show_]; rfl
  have hrd : rc.diff = f.diff := by rw [← hrc]; rfl
  have hre : rc.endDates = part.endDates := by rw [← hrc]; rfl
  have hdc : (rc.valuation.isNone || rc.hasShowCommodities) = false := by
    rw [← hrc]; unfold BalanceCmd.renderCfg; rw [hf.valuation, hf.show_]; rfl
  have hdates : ∀ (p : Entry → Bool), ∀ x ∈ st.entries.filter p, x.account = e.account →
      ∀ D', x.date = some D' → D' ∈ part.endDates := by
    intro p x hx _ D' hd
    obtain ⟨txs, _, hes⟩ := run_pipelineRun (cfgOf f part) _ st hrun
    have hx' := (List.mem_filter.mp hx).1
    rw [hes] at hx'
    obtain ⟨t, _, hdt⟩ := mem_queryTx_date (cfgOf f part) txs x hx'
    rw [hdt] at hd
    exact alignIn_mem part.periods t.date D' hd
  cases hal : e.account.isAL with
  | true =>
    obtain ⟨pre, post, hrows⟩ := table_has_row rc st.entries e he hal
    rw [hdc] at hrows
    obtain ⟨cc, cells, hnode, hcc, hlen, hcell⟩ := nodeRows_valued_dc rc false hrv (st.entries.filter (fun e => e.account.isAL))
      false e.account.segments (2 * (e.account.segments.length - 1)) (hrs _)
    simp only [Bool.false_eq_true, if_false, List.length_eq_zero_iff] at hcc
    subst hcc
    rw [hnode, List.nil_append] at hrows
    refine ⟨pre, post, cells, hrows, by rw [hlen, hre], ?_⟩
    intro k hk hk'
    have hk2 : k < rc.endDates.length := by rw [hre]; exact hk
    have := hcell k hk2 hk'
    simp only [Bool.false_eq_true, if_false] at this
    rw [this, hrd]
    simp only [hre, if_true]
    rw [shownAt_prevCum e.account _ part.endDates hinc (hdates _) f.diff k hk, accCum_al e.account hal]
    congr 1
    unfold prevCum
    cases f.diff with
    | false => rfl
    | true =>
      cases k with
      | zero => rfl
      | succ j => simp only [if_true]; exact accCum_al e.account hal _ _
  | false =>
    obtain ⟨pre, post, hrows⟩ := table_has_row_eie rc st.entries e he hal hne
    rw [hdc] at hrows
    obtain ⟨cc, cells, hnode, hcc, hlen, hcell⟩ := nodeRows_valued_dc rc false hrv (st.entries.filter (fun e => !e.account.isAL))
      true e.account.segments (2 * (e.account.segments.length - 1)) (hrs _)
    simp only [Bool.false_eq_true, if_false, List.length_eq_zero_iff] at hcc
    subst hcc
    rw [hnode, List.nil_append] at hrows
    refine ⟨pre, post, cells, hrows, by rw [hlen, hre], ?_⟩
    intro k hk hk'
    have hk2 : k < rc.endDates.length := by rw [hre]; exact hk
    have := hcell k hk2 hk'
    simp only [if_true] at this
    rw [this, hrd]
    simp only [hre, Bool.false_eq_true, if_false]
    rw [shownAt_prevCum e.account _ part.endDates hinc (hdates _) f.diff k hk, accCum_eie e.account hal]
    congr 2
    unfold prevCum
    cases f.diff with
    | false => rfl
    | true =>
      cases k with
      | zero => rfl
      | succ j => simp only [if_true]; exact accCum_eie e.account hal _ _

/-! ### the cells of an income/expense/equity row -/

theorem mirrored_daysOf (f : BalanceFlags) (ds : List Directive) (part : Partition) (b : Account) :
    Spec.mirrored (daysOf f ds part) b = Spec.mirrored (Builder.ofList ds).build b := by
  unfold Spec.mirrored Spec.alAccounts
  rw [← userPostings_core, core_daysOf, userPostings_core]

theorem flowOver_daysOf (f : BalanceFlags) (ds : List Directive) (part : Partition) (v : Commodity) (S : List Account)
    (F D : Int) : Spec.flowOver v (daysOf f ds part) S F D = Spec.flowOver v (Builder.ofList ds).build S F D := by
  unfold Spec.flowOver
  have : (fun a => Spec.flowAt v (daysOf f ds part) a F D) = (fun a => Spec.flowAt v (Builder.ofList ds).build a F D) :=
    funext (fun a => flowAt_daysOf f ds part v a F D)
  rw [this]

/-- without closing nothing is aligned before the window -/
theorem accCum_eve_zero_noclose (cfg : BalCfg) (hcl : cfg.close = false) (hpl : Plain cfg) (hvs : cfg.valuation.isSome = true)
    (b : Account) (days : List Day) (hs : Sorted days) (hcons : ∀ d ∈ days, ∀ t ∈ d.transactions, t.date = d.date)
    (st : BalState) (h : Balance.run cfg days = .ok st) : accCum b st.entries (cfg.span.start - 1) = 0 := by
  have hsplit := sorted_split cfg.span.start days hs
  obtain ⟨txs, hp, he⟩ := run_pipelineRun cfg days st h
  rw [hsplit] at hp
  obtain ⟨stA, tA, tR, hA, hR, e1⟩ := pipelineRun_append cfg _ _ _ _ _ hp
  have htA : tA = [] := pipelineRun_noclose_out cfg hcl _ {} stA tA (window_pre_out cfg.span days) hA
  rw [he, e1, htA, List.nil_append]
  apply accCum_zero_of_filter_nil
  intro e hem hc
  obtain ⟨t, ht, p, hpt, rfl⟩ := mem_entries_plain cfg hpl hvs tR e hem
  have hsub : ∀ d ∈ days.filter (fun d => !decide (d.date < cfg.span.start)), d ∈ days ∧ ¬ d.date < cfg.span.start := by
    intro d hd
    have := List.mem_filter.mp hd
    exact ⟨this.1, by simpa using this.2⟩
  obtain ⟨d, hd, hdt⟩ := pipelineRun_dates cfg _ stA st tR (fun d hd => hcons d (hsub d hd).1) hR t ht
  obtain ⟨_, D', h1, h2⟩ := hc
  simp only at h1
  have h3 := (hsub d hd).2
  have := alignIn_gt cfg.periods t.date (cfg.span.start - 1) D' (by rw [hdt]; omega) h1
  omega

/-- the eve of the flows shown in column `k` of a cumulative report: the day before the window start without closing;
with closing the eve of the period (the previous period end, or the day before the window start for the first column) -/
def flowEve (f : BalanceFlags) (part : Partition) (k : Nat) : Int :=
  if f.close then colEve part k else part.span.start - 1

/-- **the cells of an income/expense/equity row, closing on or off.**  In a cumulative valued report with per-account
rows, for every directive list whose postings arrive unvalued: the row of an account `b` that is not asset/liability —
and, with closing, is not `Equity:Equity` — exists whenever `b` has an insert, and its cell in column `k` is

`−(flow(b) − (Σ_{a ∈ S} (shown(a, D_k) − shown(a, F_k)) − flow(S)))`,

all flows over `(F_k, D_k]` at booking-day prices (`Spec.flowAt`, `Spec.flowOver`), `S = Spec.mirrored days b` the
journal's asset/liability accounts whose value adjustments are booked on `b` (empty unless `b` is `Income:<path>`:
`C03_mirrored_nil`), `shown(a, X) = accCum a es X` the value the row of `a` shows in the column of `X`
(`C03_command_row_shows`; 0 for `X` before the window).  `F_k` is the eve of the window without closing; WITH closing it
is the eve of period `k`: the valued closing transfers to `Equity:Equity` at every period start have removed the
earlier periods, the column shows the flows and the gains of its own period only.  With closing and `--last n` the
first column is excluded (its period does not start at the window start, the transfer on its first day has no column
to be read against). -/
theorem C03_command_flow_cell (f : BalanceFlags) (v : Commodity) (hf : PlainFlags f v) (ds : List Directive)
    (hz : ∀ t, Directive.tx t ∈ ds → ∀ p ∈ t.postings, p.value = 0)
    (es : List Entry) (part : Partition) (h : BalanceCmd.entries f ds = .ok (es, part))
    (b : Account) (hb1 : b.isAL = false) (hb3 : b.segments ≠ []) (hbe : f.close = true → b ≠ equityAccount)
    (hmem : ∃ e ∈ es, e.account = b) :
    ∃ pre post cells,
      (BalanceReport.table (BalanceCmd.renderCfg f part) es).rows =
        pre ++ [Cell.text (b.segments.getLast?.getD "").toList .left ((2 * (b.segments.length - 1) : Nat) : Int) :: cells] ++ post ∧
      cells.length = part.endDates.length ∧
      ∀ (k : Nat) (hk : k < part.endDates.length) (hk' : k < cells.length), (f.close = true → k = 0 → f.last ≤ 0) →
        ∃ fl flS, Spec.flowAt v (Builder.ofList ds).build b (flowEve f part k) part.endDates[k] = some fl ∧
          Spec.flowOver v (Builder.ofList ds).build (Spec.mirrored (Builder.ofList ds).build b)
            (flowEve f part k) part.endDates[k] = some flS ∧
          cellVal cells[k] = -(fl - (((Spec.mirrored (Builder.ofList ds).build b).map (fun a =>
            accCum a es part.endDates[k] - accCum a es (flowEve f part k))).sum - flS)) := by
  obtain ⟨hpart, st, hrun, rfl⟩ := entries_ok h
  obtain ⟨e, he, rfl⟩ := hmem
  have hcv : (cfgOf f part).valuation = some v := hf.valuation
  have hvs : (cfgOf f part).valuation.isSome = true := by rw [hcv]; rfl
  have hpl := plain_cfgOf hf part
  have hne := window_nonempty_any (cfgOf f part) _ st hrun (by intro h0; rw [h0] at he; cases he)
  have hspan := Performance.newPartition_span hpart
  obtain ⟨hinc, hin⟩ := Performance.endDates_increasing hpart
  have hne' : (BalanceCmd.window f (Builder.ofList ds)).start ≤ (BalanceCmd.window f (Builder.ofList ds)).stop := by
    rw [← hspan]; exact hne
  have hin' : ∀ D ∈ part.endDates, (cfgOf f part).span.contains D = true := by
    intro D hD
    have := hin hne' _ hD
    show part.span.contains _ = true
    rw [hspan]; exact this
  generalize hrc : BalanceCmd.renderCfg f part = rc
  have hrv : rc.valuation.isSome = true := by rw [← hrc]; unfold BalanceCmd.renderCfg; rw [hf.valuation]; rfl
  have hrs : ∀ s, rc.showCommodities s = false := by
    intro s; rw [← hrc]; unfold BalanceCmd.renderCfg; rw [hf.show_]; rfl
  have hrd : rc.diff = false := by rw [← hrc]; exact hf.diff
  have hre : rc.endDates = part.endDates := by rw [← hrc]; rfl
  have hdc : (rc.valuation.isNone || rc.hasShowCommodities) = false := by
    rw [← hrc]; unfold BalanceCmd.renderCfg; rw [hf.valuation, hf.show_]; rfl
  obtain ⟨pre, post, hrows⟩ := table_has_row_eie rc st.entries e he hb1 hb3
  rw [hdc] at hrows
  obtain ⟨cells, hnode, hlen, hcell⟩ := nodeRows_valued rc hrv hrs hrd (st.entries.filter (fun e => !e.account.isAL)) true
    e.account.segments (2 * (e.account.segments.length - 1))
  rw [hnode] at hrows
  refine ⟨pre, post, cells, hrows, by rw [hlen, hre], ?_⟩
  intro k hk hk' hk0
  have hDmem : part.endDates[k] ∈ part.endDates := List.getElem_mem hk
  have hDin := hin' _ hDmem
  -- the cell is minus the running total
  have hcv' := hcell k hk'
  simp only [if_true] at hcv'
  have hdates : ∀ x ∈ st.entries.filter (fun e => !e.account.isAL), x.account = e.account →
      ∀ D', x.date = some D' → D' ∈ rc.endDates := by
    intro x hx _ D' hd
    obtain ⟨txs, _, hes⟩ := run_pipelineRun (cfgOf f part) _ st hrun
    have hx' := (List.mem_filter.mp hx).1
    rw [hes] at hx'
    obtain ⟨t, _, p, _, rfl⟩ := mem_entries_plain (cfgOf f part) hpl hvs txs x hx'
    rw [hre]
    exact alignIn_mem part.periods t.date D' hd
  have hk2 : k < rc.endDates.length := by rw [hre]; exact hk
  have hcum := cum_eq_accCum e.account (st.entries.filter (fun e => !e.account.isAL)) rc.endDates
    (by rw [hre]; exact hinc) hdates k hk2
  have hreK : rc.endDates[k] = part.endDates[k] := by simp only [hre]
  rw [hcv', hcum, accCum_eie e.account hb1, hreK]
  have hsorted := daysOf_sorted f ds part
  have hcons := daysOf_consistent f ds part
  have hzero := daysOf_zero f ds part hz
  cases hcl : f.close with
  | false =>
    have hccl : (cfgOf f part).close = false := hcl
    have hev : flowEve f part k = part.span.start - 1 := by unfold flowEve; rw [hcl]; rfl
    rw [hev]
    obtain ⟨fl, flS, g1, g2, g3⟩ := run_gain_accounts_noclose (cfgOf f part) v e.account (daysOf f ds part) st
      (part.span.start - 1) part.endDates[k] hcv hccl hpl hb1 hsorted hcons hzero hinc hDmem (Or.inl rfl) hDin hrun
    rw [flowAt_daysOf] at g1
    rw [mirrored_daysOf, flowOver_daysOf] at g2
    rw [mirrored_daysOf] at g3
    refine ⟨fl, flS, g1, g2, ?_⟩
    have hz0 := accCum_eve_zero_noclose (cfgOf f part) hccl hpl hvs e.account _ hsorted hcons st hrun
    have hz0' : accCum e.account st.entries (part.span.start - 1) = 0 := hz0
    rw [hz0', rat_sub_zero] at g3
    rw [g3]
  | true =>
    have hccl : (cfgOf f part).close = true := hcl
    have hev : flowEve f part k = colEve part k := by unfold flowEve; rw [hcl]; rfl
    rw [hev]
    have hclosable : Spec.closable e.account = true := by
      rw [LedgerClose.closable_iff]
      exact ⟨by rw [hb1]; simp, hbe hcl⟩
    obtain ⟨stN, hrunN, hAL, hper⟩ := run_close_period (cfgOf f part) v hcv hccl hpl (daysOf f ds part) hsorted hcons hinc st hrun
    obtain ⟨p1, p2, p3⟩ := period_facts hpart k hk
    -- the period start and its eve
    have hsE : periodStart part k - 1 = colEve part k := by
      cases k with
      | zero =>
        have := first_start hpart (hk0 hcl rfl) hk
        rw [this]; rfl
      | succ j =>
        rw [p3 j rfl]
        unfold colEve
        simp only
        omega
    have hFeve : IsEve (cfgOf f part) (periodStart part k - 1) part.endDates[k] := by
      rw [hsE]
      have := eveOf_isEve (cfgOf f part) part.endDates rfl hinc hin' true k hk
      unfold eveOf at this
      simp only [if_true] at this
      unfold colEve
      exact this
    have hsD : periodStart part k ≤ part.endDates[k] := by
      rcases hFeve with e1 | ⟨_, e2, _⟩
      · unfold Period.contains at hDin
        have : ¬ (part.endDates[k] < (cfgOf f part).span.start) ∧ ¬ (part.endDates[k] > (cfgOf f part).span.stop) := by
          simpa using hDin
        omega
      · omega
    have hsday : periodStart part k ∈ (daysOf f ds part).map (·.date) := by
      apply daysOf_starts f hcl ds part
      have : periodStart part k ∈ part.periods.map (·.start) := by simpa using p1
      exact this
    have hcell2 := hper (periodStart part k) part.endDates[k] hDmem hsD hsday p1 p2 hFeve hDin e.account hclosable
    obtain ⟨fl, flS, g1, g2, g3⟩ := run_gain_accounts_noclose (noClose (cfgOf f part)) v e.account (daysOf f ds part) stN
      (periodStart part k - 1) part.endDates[k] hcv rfl (plain_noClose hpl) hb1 hsorted hcons hzero hinc hDmem hFeve hDin hrunN
    rw [flowAt_daysOf] at g1
    rw [mirrored_daysOf, flowOver_daysOf] at g2
    rw [mirrored_daysOf] at g3
    rw [hsE] at g1 g2 g3 hcell2
    refine ⟨fl, flS, g1, g2, ?_⟩
    rw [hcell2, g3]
    -- the asset/liability rows are the same in both runs
    have hsame : ∀ a ∈ Spec.mirrored (Builder.ofList ds).build e.account, ∀ X, accCum a stN.entries X = accCum a st.entries X := by
      intro a ha X
      have hal : a.isAL = true := by
        have := (mem_mirrored.mp ha).2
        unfold mirror at this
        simp only [Bool.and_eq_true] at this
        exact this.1
      rw [accCum_def, accCum_def, hAL (fun e => decide (e.account = a) && dateLe X e) (fun e he => by
        simp only [Bool.and_eq_true, decide_eq_true_eq] at he
        rw [he.1]; exact hal)]
    have : (Spec.mirrored (Builder.ofList ds).build e.account).map (fun a =>
        accCum a stN.entries part.endDates[k] - accCum a stN.entries (colEve part k)) =
        (Spec.mirrored (Builder.ofList ds).build e.account).map (fun a =>
        accCum a st.entries part.endDates[k] - accCum a st.entries (colEve part k)) := by
      apply List.map_congr_left
      intro a ha
      rw [hsame a ha, hsame a ha]
    rw [this]

/-! ### `Equity:Equity`, the receiving side of the closing transfers -/

/-- **`Equity:Equity` is the residual.**  The closing transfers are booked inside the income/expense/equity section
(`−value` on the closed account, `+value` on `Equity:Equity`), so they do not change the section's total; by double-entry
conservation (C01) all inserts aligned to column dates `≤ D` sum to 0, hence the running total of `Equity:Equity` is
minus the running total of all other accounts: with closing it carries, besides its own bookings, exactly what the
closing transfers took off the other income/expense/equity rows. -/
theorem C03_equity_equity_residual (cfg : BalCfg) (hu : Unfiltered cfg) (days : List Day) (hp : C01.PairedDays days)
    (st : BalState) (h : Balance.run cfg days = .ok st) (D : Int) :
    accCum equityAccount st.entries D = -(qCum (fun a => !decide (a = equityAccount)) st.entries D) := by
  have h0 := C01.C01_entries_cancel cfg hu days hp st h (fun date _ => match date with | some D' => decide (D' ≤ D) | none => false)
  have hsplit : sumSel (fun date _ => match date with | some D' => decide (D' ≤ D) | none => false) st.entries =
      accCum equityAccount st.entries D + qCum (fun a => !decide (a = equityAccount)) st.entries D := by
    rw [accCum_def]
    unfold qCum sumSel
    generalize st.entries = es
    have := sumAmounts_filter_or (fun e => decide (e.account = equityAccount) && dateLe D e)
      (fun e => !decide (e.account = equityAccount) && dateLe D e) es (fun e _ hc => by
        obtain ⟨h1, h2⟩ := hc
        simp only [Bool.and_eq_true, decide_eq_true_eq, Bool.not_eq_true', decide_eq_false_iff_not] at h1 h2
        exact h2.1 h1.1)
    rw [← this]
    unfold BalanceReport.sumAmounts
    congr 2
    apply List.filter_congr
    intro e _
    unfold dateLe
    by_cases he : e.account = equityAccount <;> simp [he] <;> rfl
  rw [hsplit] at h0
  grind

/-! ### Non-vacuity

The journal of `Properties/C03Report.lean`, daily columns from day 2 to day 4, valued in CHF.  `Income:A` has no booking
of its own; it mirrors `Assets:A`, whose row shows 1.75, 4.66666665, 3.33333332 and whose bookings at booking-day prices
are 1.75 (3.5 USD at 0.5 on day 2) and −1.33333333 (1 USD at 1.33333333 on day 4).

* `--close=false`: `Income:A` shows 0, 2.91666665, 2.91666665 = `(4.66666665 − 0) − 1.75`, `(3.33333332 − 0) − 0.41666667`.
* with closing: 0, 2.91666665, 0 — the gain of day 3 `(4.66666665 − 1.75) − 0` is transferred to `Equity:Equity` on day 4,
  whose own period has `(3.33333332 − 4.66666665) − (−1.33333333) = 0`.  `Equity:E` shows 1.75, 0, −1.33333333: the
  bookings of each period only. -/

def exI : Account := ⟨["Income", "A"]⟩
def exFlagsN : BalanceFlags := { valuation := some "CHF", from? := some 2, to := 4, interval := .daily, close := false }
def exFlagsC : BalanceFlags := { valuation := some "CHF", from? := some 2, to := 4, interval := .daily, close := true }

example : PlainFlags exFlagsN "CHF" ∧ PlainFlags exFlagsC "CHF" ∧ exI.isAL = false ∧ exI ≠ equityAccount ∧ exI.segments ≠ [] :=
  ⟨⟨rfl, rfl, rfl, rfl, fun _ => rfl, fun _ => rfl, fun _ => rfl⟩, ⟨rfl, rfl, rfl, rfl, fun _ => rfl, fun _ => rfl, fun _ => rfl⟩,
    by decide, by decide, by decide⟩

/-- the facts about a flag vector and the example journal that the kernel evaluates (everything except the table: it
cannot unfold `List.mergeSort` on the two top-level accounts of the second section) -/
def exFacts (f : BalanceFlags) (eves : List Int) (flS : List (Option Rat)) (flE : List (Option Rat)) : Prop :=
  ∃ es part, BalanceCmd.entries f exDirs = .ok (es, part) ∧ part.endDates = [2, 3, 4] ∧
    (∃ e ∈ es, e.account = exI) ∧ (∃ e ∈ es, e.account = exE) ∧
    Spec.mirrored (Builder.ofList exDirs).build exI = [exA] ∧
    [0, 1, 2].map (flowEve f part) = eves ∧
    (eves.zip [2, 3, 4]).map (fun x => Spec.flowAt "CHF" (Builder.ofList exDirs).build exI x.1 x.2) = [some 0, some 0, some 0] ∧
    (eves.zip [2, 3, 4]).map (fun x => Spec.flowOver "CHF" (Builder.ofList exDirs).build [exA] x.1 x.2) = flS ∧
    (eves.zip [2, 3, 4]).map (fun x => Spec.flowAt "CHF" (Builder.ofList exDirs).build exE x.1 x.2) = flE ∧
    [1, 2, 3, 4].map (accCum exA es) = [0, 7/4, 466666665/100000000, 333333332/100000000]

theorem exFacts_of (f : BalanceFlags) (eves : List Int) (flS flE : List (Option Rat))
    (h : (match BalanceCmd.entries f exDirs with
      | .ok (es, part) => decide (part.endDates = [2, 3, 4] ∧
          (∃ e ∈ es, e.account = exI) ∧ (∃ e ∈ es, e.account = exE) ∧
          Spec.mirrored (Builder.ofList exDirs).build exI = [exA] ∧
          [0, 1, 2].map (flowEve f part) = eves ∧
          (eves.zip [2, 3, 4]).map (fun x => Spec.flowAt "CHF" (Builder.ofList exDirs).build exI x.1 x.2) = [some 0, some 0, some 0] ∧
          (eves.zip [2, 3, 4]).map (fun x => Spec.flowOver "CHF" (Builder.ofList exDirs).build [exA] x.1 x.2) = flS ∧
          (eves.zip [2, 3, 4]).map (fun x => Spec.flowAt "CHF" (Builder.ofList exDirs).build exE x.1 x.2) = flE ∧
          [1, 2, 3, 4].map (accCum exA es) = [0, 7/4, 466666665/100000000, 333333332/100000000])
      | .error _ => false) = true) : exFacts f eves flS flE := by
  split at h
  · rename_i es part he
    simp only [decide_eq_true_eq] at h
    exact ⟨es, part, he, h⟩
  · cases h

/-- `--close=false`: flows over `(1, D]`; the bookings on `Assets:A` at booking-day prices total 1.75, 1.75, 0.41666667 -/
theorem exFactsN : exFacts exFlagsN [1, 1, 1] [some (7/4), some (7/4), some (41666667/100000000)]
    [some (-(7/4)), some (-(7/4)), some (-(41666667/100000000))] :=
  exFacts_of _ _ _ _ (by decide +kernel)

/-- with closing: flows over `(1, 2]`, `(2, 3]`, `(3, 4]` -/
theorem exFactsC : exFacts exFlagsC [1, 2, 3] [some (7/4), some 0, some (-(133333333/100000000))]
    [some (-(7/4)), some 0, some (133333333/100000000)] :=
  exFacts_of _ _ _ _ (by decide +kernel)

/-- the row of `Income:A` without closing: 0, 2.91666665, 2.91666665 -/
example : ∃ es part pre post cells, BalanceCmd.entries exFlagsN exDirs = .ok (es, part) ∧
    (BalanceReport.table (BalanceCmd.renderCfg exFlagsN part) es).rows =
      pre ++ [Cell.text "A".toList .left 2 :: cells] ++ post ∧
    cells.map cellVal = [0, 291666665/100000000, 291666665/100000000] := by
  obtain ⟨es, part, he, hends, hI, _, hmir, heve, hfI, hfS, _, hacc⟩ := exFactsN
  obtain ⟨pre, post, cells, r1, r2, r3⟩ := C03_command_flow_cell exFlagsN "CHF"
    ⟨rfl, rfl, rfl, rfl, fun _ => rfl, fun _ => rfl, fun _ => rfl⟩ exDirs (by
      intro t ht
      simp only [exDirs, List.mem_cons, List.not_mem_nil, or_false, reduceCtorEq, false_or, Directive.tx.injEq] at ht
      rcases ht with rfl | rfl | rfl <;> exact ofBookings_zero _ _ _ _) es part he exI (by decide) (by decide)
    (fun h => by cases h) hI
  refine ⟨es, part, pre, post, cells, he, r1, ?_⟩
  have hlen : cells.length = 3 := by rw [r2, hends]; rfl
  simp only [List.map_cons, List.map_nil, List.cons.injEq, and_true] at heve hacc
  obtain ⟨e0, e1, e2⟩ := heve
  obtain ⟨a1, a2, a3, a4⟩ := hacc
  rw [hmir] at r3
  match cells, hlen with
  | [c0, c1, c2], _ =>
    have h0 := r3 0 (by rw [hends]; decide) (by simp) (fun h => by cases h)
    have h1 := r3 1 (by rw [hends]; decide) (by simp) (fun h => by cases h)
    have h2 := r3 2 (by rw [hends]; decide) (by simp) (fun h => by cases h)
    simp only [hends, e0, e1, e2, List.getElem_cons_zero, List.getElem_cons_succ, List.map_cons, List.map_nil,
      List.sum_cons, List.sum_nil, a1, a2, a3, a4] at h0 h1 h2
    simp only [List.zip_cons_cons, List.zip_nil_right, List.map_cons, List.map_nil, List.cons.injEq, and_true]
      at hfI hfS
    obtain ⟨i0, i1, i2⟩ := hfI
    obtain ⟨s0, s1, s2⟩ := hfS
    obtain ⟨fl, flS, g1, g2, g3⟩ := h0
    rw [i0] at g1; rw [s0] at g2
    injection g1 with g1; injection g2 with g2; subst g1; subst g2
    obtain ⟨fl', flS', g1', g2', g3'⟩ := h1
    rw [i1] at g1'; rw [s1] at g2'
    injection g1' with g1'; injection g2' with g2'; subst g1'; subst g2'
    obtain ⟨fl'', flS'', g1'', g2'', g3''⟩ := h2
    rw [i2] at g1''; rw [s2] at g2''
    injection g1'' with g1''; injection g2'' with g2''; subst g1''; subst g2''
    simp only [List.map_cons, List.map_nil] at g3 g3' g3'' ⊢
    rw [g3, g3', g3'']
    refine List.cons_eq_cons.mpr ⟨by decide +kernel, List.cons_eq_cons.mpr ⟨by decide +kernel, List.cons_eq_cons.mpr ⟨by decide +kernel, rfl⟩⟩⟩

/-- the row of `Income:A` WITH closing: 0, 2.91666665, 0 — every column shows the gain of its own period -/
example : ∃ es part pre post cells, BalanceCmd.entries exFlagsC exDirs = .ok (es, part) ∧
    (BalanceReport.table (BalanceCmd.renderCfg exFlagsC part) es).rows =
      pre ++ [Cell.text "A".toList .left 2 :: cells] ++ post ∧
    cells.map cellVal = [0, 291666665/100000000, 0] := by
  obtain ⟨es, part, he, hends, hI, _, hmir, heve, hfI, hfS, _, hacc⟩ := exFactsC
  obtain ⟨pre, post, cells, r1, r2, r3⟩ := C03_command_flow_cell exFlagsC "CHF"
    ⟨rfl, rfl, rfl, rfl, fun _ => rfl, fun _ => rfl, fun _ => rfl⟩ exDirs (by
      intro t ht
      simp only [exDirs, List.mem_cons, List.not_mem_nil, or_false, reduceCtorEq, false_or, Directive.tx.injEq] at ht
      rcases ht with rfl | rfl | rfl <;> exact ofBookings_zero _ _ _ _) es part he exI (by decide) (by decide)
    (fun _ => by decide) hI
  refine ⟨es, part, pre, post, cells, he, r1, ?_⟩
  have hlen : cells.length = 3 := by rw [r2, hends]; rfl
  simp only [List.map_cons, List.map_nil, List.cons.injEq, and_true] at heve hacc
  obtain ⟨e0, e1, e2⟩ := heve
  obtain ⟨a1, a2, a3, a4⟩ := hacc
  rw [hmir] at r3
  match cells, hlen with
  | [c0, c1, c2], _ =>
    have h0 := r3 0 (by rw [hends]; decide) (by simp) (fun _ _ => by decide)
    have h1 := r3 1 (by rw [hends]; decide) (by simp) (fun _ _ => by decide)
    have h2 := r3 2 (by rw [hends]; decide) (by simp) (fun _ _ => by decide)
    simp only [hends, e0, e1, e2, List.getElem_cons_zero, List.getElem_cons_succ, List.map_cons, List.map_nil,
      List.sum_cons, List.sum_nil, a1, a2, a3, a4] at h0 h1 h2
    simp only [List.zip_cons_cons, List.zip_nil_right, List.map_cons, List.map_nil, List.cons.injEq, and_true]
      at hfI hfS
    obtain ⟨i0, i1, i2⟩ := hfI
    obtain ⟨s0, s1, s2⟩ := hfS
    obtain ⟨fl, flS, g1, g2, g3⟩ := h0
    rw [i0] at g1; rw [s0] at g2
    injection g1 with g1; injection g2 with g2; subst g1; subst g2
    obtain ⟨fl', flS', g1', g2', g3'⟩ := h1
    rw [i1] at g1'; rw [s1] at g2'
    injection g1' with g1'; injection g2' with g2'; subst g1'; subst g2'
    obtain ⟨fl'', flS'', g1'', g2'', g3''⟩ := h2
    rw [i2] at g1''; rw [s2] at g2''
    injection g1'' with g1''; injection g2'' with g2''; subst g1''; subst g2''
    simp only [List.map_cons, List.map_nil] at g3 g3' g3'' ⊢
    rw [g3, g3', g3'']
    refine List.cons_eq_cons.mpr ⟨by decide +kernel, List.cons_eq_cons.mpr ⟨by decide +kernel, List.cons_eq_cons.mpr ⟨by decide +kernel, rfl⟩⟩⟩

/-- `Equity:Equity` with closing on the same report: it carries −1.75 in the column of day 3 (the transfer of day 3 took
1.75 off `Equity:E`) and −4.66666665 in the column of day 4; the other accounts carry the opposite -/
example : (match BalanceCmd.entries exFlagsC exDirs with
    | .ok (es, _) => decide (accCum equityAccount es 3 = -(7/4) ∧ qCum (fun a => !decide (a = equityAccount)) es 3 = 7/4 ∧
        accCum equityAccount es 4 = -(466666665/100000000) ∧
        qCum (fun a => !decide (a = equityAccount)) es 4 = 466666665/100000000)
    | .error _ => false) = true := by decide +kernel

end Knut.C03
