package main

// Closures over captured state (builder trans2): the PROCESSOR constructors of lib/journal/process.go.
//
//   func F(params) *Processor {
//       if guard { return nil }                       // optional guards
//       var a, b T; c := e                            // state declarations (the PROLOGUE)
//       return &Processor{DayStart: func(d *Day) error {…}, Posting: func(t, p) error {…}, …}
//   }
//
// becomes
//
//   structure F.State where a : T; b : T; c : U        -- the prologue's variables (and assigned parameters) that a closure captures
//   def F.init params [ext…] : [Outcome] [Option] F.State  -- the prologue; `return nil` ↦ none (then the result is an Option)
//   def F.<Field> params (state : F.State) args [ext… order… fuel…] : [Outcome] (F.State × args assigned through × results)
//                                                       -- one per function literal, STATE PASSING exactly as for pointer receivers
//   def F.callbacks : List String                      -- the fields that are set (all others stay nil)
//   def F.nonNil / F.externals : List String           -- what the reading presupposes (see below), pinned by the agreement module
//
// Captured variables are read from `state` at the start of a callback and packed into the new state at every return.  A callback's own
// pointer parameters that the body assigns through (`p.Value = …`, `d.Transactions = append(…)`, `d.Normalized = …`) are returned as
// updated VALUES after the state and before the results: the caller (Processor.Process) must write them back where the pointer came from.
//
// A pointer parameter of the constructor is a struct VALUE here, so it cannot be nil: `if p == nil { return nil }` is read as the branch
// not taken and the name is recorded in `F.nonNil`.
//
// A call of an untranslated function of /repo (the registry) in the prologue is a value parameter `ext<N>` of `F.init` as before; inside a
// callback — which runs once per day/posting — it is a parameter of FUNCTION type applied to the translated arguments
// (`ext1 : Account → Account` for `reg.Accounts().ValuationAccountFor(a)`): this presupposes that the callee is a deterministic function
// of these arguments, does not panic and does not write to translated state.  The source text of every such call is listed in
// `F.externals`; the agreement module pins the list, so that a change of the call (or of its arguments) fails there.
//
// `*journal.Day` as a map key / type argument (`set.Set[*Day]`) is the day's DATE: the builder holds one *Day per date (trIdentityKey).

import (
	"fmt"
	"go/ast"
	"go/printer"
	"go/token"
	"go/types"
	"sort"
	"strings"
)

// trIdentityKey: struct types whose POINTER, used as a map key or as a type argument, is identified with one of its fields
// (journal.Builder.Day interns one *Day per date). Such pointers are mutable, so they are not `trInterned` (compared by value).
var trIdentityKey = map[string]string{
	trKnutPath + "lib/journal.Day": "Date",
}

func trIdentityField(ty types.Type) (*types.Var, bool) {
	p, ok := ty.(*types.Pointer)
	if !ok {
		return nil, false
	}
	n, ok := p.Elem().(*types.Named)
	if !ok || n.Obj().Pkg() == nil {
		return nil, false
	}
	fn, ok := trIdentityKey[n.Obj().Pkg().Path()+"."+n.Obj().Name()]
	if !ok {
		return nil, false
	}
	st, ok := n.Underlying().(*types.Struct)
	if !ok {
		return nil, false
	}
	for i := 0; i < st.NumFields(); i++ {
		if st.Field(i).Name() == fn {
			return st.Field(i), true
		}
	}
	return nil, false
}

// identityArg: an argument of identity-keyed pointer type passed for a parameter whose declared type is a type parameter
// (`closingDays.Has(d)` with Set[*Day]) is projected to its identity field
func (c *trCtx) identityArg(fobj *types.Func, i int, a ast.Expr, s string) string {
	osig, ok := fobj.Origin().Type().(*types.Signature)
	if !ok || i >= osig.Params().Len() {
		return s
	}
	if _, isTP := osig.Params().At(i).Type().(*types.TypeParam); !isTP {
		return s
	}
	if f, ok := trIdentityField(c.typeOf(a)); ok {
		return s + "." + trMangle(f.Name())
	}
	return s
}

type trCallback struct {
	field string
	lit   *ast.FuncLit
}

// closureCtor: the shape `…; return &T{Field: func…, …}`
func (t *trTranslator) closureCtor(f *trFunc) (*ast.ReturnStmt, []trCallback) {
	if f.decl == nil || f.decl.Body == nil || len(f.decl.Body.List) == 0 {
		return nil, nil
	}
	ret, ok := f.decl.Body.List[len(f.decl.Body.List)-1].(*ast.ReturnStmt)
	if !ok || len(ret.Results) != 1 {
		return nil, nil
	}
	u, ok := ret.Results[0].(*ast.UnaryExpr)
	if !ok || u.Op != token.AND {
		return nil, nil
	}
	cl, ok := u.X.(*ast.CompositeLit)
	if !ok || len(cl.Elts) == 0 {
		return nil, nil
	}
	var cbs []trCallback
	for _, el := range cl.Elts {
		kv, ok := el.(*ast.KeyValueExpr)
		if !ok {
			return nil, nil
		}
		k, ok := kv.Key.(*ast.Ident)
		if !ok {
			return nil, nil
		}
		fl, ok := kv.Value.(*ast.FuncLit)
		if !ok {
			return nil, nil
		}
		cbs = append(cbs, trCallback{k.Name, fl})
	}
	return ret, cbs
}

// nodeEffect: the statements need the Outcome monad (directly or through a translated callee)
func (t *trTranslator) nodeEffect(p *trPkg, nodes ...ast.Node) bool {
	for _, n := range nodes {
		if n == nil || isNilNode(n) {
			continue
		}
		if t.directEffectIn(p.info, n) {
			return true
		}
		for _, g := range t.calleesIn(p.info, n) {
			if g.effect {
				return true
			}
		}
	}
	return false
}

func trSrcText(fset *token.FileSet, n ast.Node) string {
	var b strings.Builder
	if err := printer.Fprint(&b, fset, n); err != nil {
		return trSrc(n)
	}
	return strings.Join(strings.Fields(b.String()), " ")
}

// paramDecl: the Lean binder of a Go parameter, or "" when its type is not translatable (then it is opaque: usable only inside
// calls of untranslated functions)
func (c *trCtx) paramDecl(v *types.Var, pos token.Pos) string {
	var lt string
	func() {
		defer func() {
			if r := recover(); r != nil {
				if _, ok := r.(trReject); ok {
					lt = ""
					return
				}
				panic(r)
			}
		}()
		lt = c.leanType(v.Type(), pos)
	}()
	if lt == "" {
		c.opaqueParams[v] = true
		return ""
	}
	n := c.local(v)
	if n == "_" {
		n = c.fresh("unused")
	}
	return "(" + n + " : " + lt + ")"
}

func (t *trTranslator) translateClosureCtor(f *trFunc, ret *ast.ReturnStmt, cbs []trCallback) {
	info := f.pkg.info
	sig := f.obj.Type().(*types.Signature)
	if sig.Variadic() || sig.TypeParams() != nil || sig.RecvTypeParams() != nil {
		trFail(f.decl.Pos(), "variadic or generic constructor of closures is outside the subset")
	}
	if len(f.mut) > 0 {
		trFail(f.decl.Pos(), "a constructor of closures that assigns through its parameter %s is outside the subset", f.mutObjs[0].Name())
	}
	body := f.decl.Body.List
	prologue := body[:len(body)-1]

	var outer []*types.Var
	if sig.Recv() != nil {
		outer = append(outer, sig.Recv())
	}
	for i := 0; i < sig.Params().Len(); i++ {
		outer = append(outer, sig.Params().At(i))
	}
	isOuter := map[types.Object]bool{}
	for _, v := range outer {
		isOuter[v] = true
	}

	// ---- the captured state: top-level variables of the prologue and assigned parameters, used inside a closure
	var locals []*types.Var
	addLocal := func(id *ast.Ident) {
		if id.Name == "_" {
			return
		}
		if v, ok := info.Defs[id].(*types.Var); ok {
			locals = append(locals, v)
		}
	}
	for _, s := range prologue {
		switch x := s.(type) {
		case *ast.DeclStmt:
			if gd, ok := x.Decl.(*ast.GenDecl); ok && gd.Tok == token.VAR {
				for _, sp := range gd.Specs {
					for _, n := range sp.(*ast.ValueSpec).Names {
						addLocal(n)
					}
				}
			}
		case *ast.AssignStmt:
			if x.Tok == token.DEFINE {
				for _, l := range x.Lhs {
					if id, ok := l.(*ast.Ident); ok {
						addLocal(id)
					}
				}
			}
		}
	}
	usedInClosure := map[types.Object]bool{}
	assigned := map[types.Object]bool{}        // anywhere in the function, closures included
	assignedThrough := map[types.Object]bool{} // x.f = …, x[k] = … (anywhere)
	markAssign := func(e ast.Expr) {
		id := trBaseIdent(e)
		if id == nil {
			return
		}
		if o, ok := info.Uses[id].(*types.Var); ok {
			assigned[o] = true
			if _, bare := trUnparen(e).(*ast.Ident); !bare {
				assignedThrough[o] = true
			}
		}
	}
	ast.Inspect(f.decl.Body, func(n ast.Node) bool {
		switch x := n.(type) {
		case *ast.AssignStmt:
			for _, l := range x.Lhs {
				markAssign(l)
			}
		case *ast.IncDecStmt:
			markAssign(x.X)
		case *ast.UnaryExpr:
			if x.Op == token.AND {
				if id := trBaseIdent(x.X); id != nil {
					if o, ok := info.Uses[id].(*types.Var); ok && !o.IsField() {
						if _, isMapAddr := trAddrOfMap(info, x); isMapAddr {
							return true // &m of a map: the map itself, state passing (trans_units_perf.go)
						}
						if _, isLit := x.X.(*ast.CompositeLit); !isLit {
							trFail(x.Pos(), "taking the address of %s in a constructor of closures is outside the subset", id.Name)
						}
					}
				}
			}
		}
		return true
	})
	for _, cb := range cbs {
		ast.Inspect(cb.lit, func(n ast.Node) bool {
			if id, ok := n.(*ast.Ident); ok {
				if o, ok := info.Uses[id].(*types.Var); ok {
					usedInClosure[o] = true
				}
			}
			return true
		})
	}
	var stateVars []*types.Var
	for _, v := range outer {
		if assigned[v] && usedInClosure[v] {
			if _, isPtr := v.Type().Underlying().(*types.Pointer); isPtr && assignedThrough[v] {
				trFail(f.decl.Pos(), "assignment through the captured pointer parameter %s is outside the subset (the object belongs to the caller)", v.Name())
			}
			stateVars = append(stateVars, v)
		}
	}
	for _, v := range locals {
		if usedInClosure[v] {
			stateVars = append(stateVars, v)
		}
	}
	sort.SliceStable(stateVars, func(i, j int) bool { return stateVars[i].Pos() < stateVars[j].Pos() })
	isState := map[types.Object]bool{}
	for _, v := range stateVars {
		isState[v] = true
	}
	stateName := f.leanName + ".State"

	var out strings.Builder
	var externals, nonNil []string

	// ---- F.init
	initFn := &trFunc{unit: f.unit, pkg: f.pkg, decl: f.decl, obj: f.obj, leanName: f.leanName + ".init"}
	initFn.effect = t.nodeEffectStmts(f.pkg, prologue)
	c := &trCtx{t: t, fn: initFn, names: map[types.Object]string{}, used: map[string]bool{"fuel": true}, opaqueParams: map[types.Object]bool{}}
	var params []string
	for _, v := range outer {
		if d := c.paramDecl(v, f.decl.Pos()); d != "" {
			params = append(params, d)
		}
	}
	// field types first: a state variable of untranslatable type rejects the constructor
	type sfield struct {
		name, typ string
		obj       types.Object
		isLog     bool
	}
	var fields []sfield
	hasFuncField := false
	for _, v := range stateVars {
		ty := c.leanType(v.Type(), v.Pos())
		if t.typeHasFunc(v.Type(), 0) {
			hasFuncField = true
		}
		fields = append(fields, sfield{trMangle(v.Name()), ty, v, false})
	}
	// write-only objects (an interface parameter on which the closures only call one method without results): their call logs
	var opaqueOuter []*types.Var
	for _, v := range outer {
		if c.opaqueParams[v] {
			opaqueOuter = append(opaqueOuter, v)
		}
	}
	logs := t.findLogParams(c, info, opaqueOuter, cbs)
	stdoutObj := t.stdoutLog(f, cbs) // fmt.Printf in a closure: the log `stdout` (trans_units_perf.go)
	if stdoutObj != nil {
		logs[stdoutObj] = &trLogVar{method: "Printf", typ: "(List Stdout.PrintfCall)"}
		opaqueOuter = append(opaqueOuter, stdoutObj)
	}
	var logObjs []*types.Var
	for _, v := range opaqueOuter {
		if lv := logs[v]; lv != nil {
			fields = append(fields, sfield{trMangle(v.Name()), lv.typ, v, true})
			logObjs = append(logObjs, v)
		}
	}
	optional := false
	for _, s := range prologue {
		if trHasReturn(s) {
			optional = true
		}
	}
	pack := func(cc *trCtx) string {
		if len(fields) == 0 {
			return "(⟨⟩ : " + stateName + ")"
		}
		var parts []string
		for _, fd := range fields {
			n, ok := cc.names[fd.obj]
			if !ok {
				if fd.isLog {
					n = "([] : " + fd.typ + ")" // the constructor itself calls nothing on the object
				} else {
					trFail(fd.obj.Pos(), "internal: state variable %s has no value here", fd.obj.Name())
				}
			}
			parts = append(parts, fd.name+" := "+n)
		}
		return "({ " + strings.Join(parts, ", ") + " } : " + stateName + ")"
	}
	c.nilParamHook = func(e ast.Expr, op token.Token) (string, bool) {
		id, ok := trUnparen(e).(*ast.Ident)
		if !ok || !isOuter[info.Uses[id]] {
			return "", false
		}
		if _, isPtr := c.typeOf(e).Underlying().(*types.Pointer); !isPtr {
			return "", false
		}
		c.leanType(c.typeOf(e), e.Pos()) // must be a pointer handled as a value
		seen := false
		for _, n := range nonNil {
			if n == id.Name {
				seen = true
			}
		}
		if !seen {
			nonNil = append(nonNil, id.Name)
		}
		if op == token.EQL {
			return "false", true
		}
		return "true", true
	}
	wrapOk := func(v string) trLines {
		if initFn.effect {
			return trOne("Outcome.ok " + v)
		}
		return trOne(v)
	}
	c.retHook = func(x *ast.ReturnStmt) trLines {
		if c.loop != nil || c.pureMode() {
			trFail(x.Pos(), "return inside a loop of a constructor of closures is outside the subset")
		}
		if x == ret {
			v := pack(c)
			if optional {
				v = "(some " + v + ")"
			}
			return wrapOk(v)
		}
		if len(x.Results) == 1 && c.isNil(x.Results[0]) {
			return wrapOk("(none : Option " + stateName + ")")
		}
		trFail(x.Pos(), "a constructor of closures may only return nil or the literal with the closures")
		return nil
	}
	c.nresults = 1
	c.resultTypes = []types.Type{sig.Results().At(0).Type()}
	initFn.resType = stateName
	if optional {
		initFn.resType = "(Option " + stateName + ")"
	}
	initTerm := c.stmts(body, func() trLines {
		trFail(f.decl.End(), "internal: control reaches the end of a constructor of closures")
		return nil
	})
	initParams := append(append([]string{}, params...), c.extraParams...)
	for _, e := range c.externals {
		externals = append(externals, "init."+e)
	}
	initAux := c.aux

	// ---- the callbacks
	var cbTexts []string
	var cbNames []string
	for _, cb := range cbs {
		fsig, ok := info.Types[cb.lit].Type.(*types.Signature)
		if !ok {
			trFail(cb.lit.Pos(), "function literal without a signature")
		}
		if fsig.Variadic() {
			trFail(cb.lit.Pos(), "variadic function literal is outside the subset")
		}
		cbFn := &trFunc{unit: f.unit, pkg: f.pkg, decl: f.decl, obj: f.obj, leanName: f.leanName + "." + trMangle(cb.field)}
		cbFn.effect = t.nodeEffect(f.pkg, cb.lit.Body)
		cc := &trCtx{t: t, fn: cbFn, names: map[types.Object]string{}, used: map[string]bool{"fuel": true}, opaqueParams: map[types.Object]bool{},
			inCallback: true, stdoutObj: stdoutObj}
		var ps []string
		usedHere := map[types.Object]bool{}
		ast.Inspect(cb.lit, func(n ast.Node) bool {
			if id, ok := n.(*ast.Ident); ok {
				if o := info.Uses[id]; o != nil {
					usedHere[o] = true
				}
			}
			return true
		})
		for _, v := range outer {
			if isState[v] || !usedHere[v] {
				continue // a parameter of the constructor that this closure does not mention
			}
			if d := cc.paramDecl(v, f.decl.Pos()); d != "" {
				ps = append(ps, d)
			}
		}
		stParam := cc.fresh("state")
		ps = append(ps, "("+stParam+" : "+stateName+")")
		var own []*types.Var
		for i := 0; i < fsig.Params().Len(); i++ {
			v := fsig.Params().At(i)
			own = append(own, v)
			if d := cc.paramDecl(v, cb.lit.Pos()); d != "" {
				ps = append(ps, d)
			}
		}
		for i := 0; i < fsig.Results().Len(); i++ {
			if fsig.Results().At(i).Name() != "" {
				trFail(cb.lit.Pos(), "named results are outside the subset")
			}
		}
		// state variables: local names, read from the state record
		type bind struct{ name, typ, val string }
		var binds []bind
		cc.logVars = logs
		for _, fd := range fields {
			binds = append(binds, bind{cc.local(fd.obj), fd.typ, stParam + "." + fd.name})
		}
		// the callback's own pointer/map parameters that the body assigns through
		through := map[types.Object]bool{}
		for _, o := range cc.assignedIn2(true, cb.lit.Body) {
			through[o] = true
		}
		for _, v := range outer {
			if through[v] && !isState[v] && logs[v] == nil {
				trFail(cb.lit.Pos(), "the closure assigns through the captured parameter %s: outside the subset", v.Name())
			}
		}
		cbFn.mut, cbFn.mutObjs = nil, nil
		for i, v := range own {
			switch v.Type().Underlying().(type) {
			case *types.Pointer, *types.Map:
				if through[v] {
					if cc.opaqueParams[v] {
						trFail(cb.lit.Pos(), "the closure assigns through %s, whose type is not translatable", v.Name())
					}
					cbFn.mut = append(cbFn.mut, i)
					cbFn.mutObjs = append(cbFn.mutObjs, v)
				}
			}
		}
		rts := []string{stateName}
		for _, m := range cbFn.mutObjs {
			rts = append(rts, cc.leanType(m.Type(), cb.lit.Pos()))
		}
		cc.nresults = fsig.Results().Len()
		for i := 0; i < fsig.Results().Len(); i++ {
			cc.resultTypes = append(cc.resultTypes, fsig.Results().At(i).Type())
			rts = append(rts, cc.leanType(fsig.Results().At(i).Type(), cb.lit.Pos()))
		}
		cbFn.resType = rts[0]
		if len(rts) > 1 {
			cbFn.resType = "(" + strings.Join(rts, " × ") + ")"
		}
		cc.statePack = func() string { return pack(cc) }
		cc.stateVars = append(append([]*types.Var{}, stateVars...), logObjs...)
		term := cc.stmts(cb.lit.Body.List, func() trLines {
			if fsig.Results().Len() > 0 {
				trFail(cb.lit.End(), "internal: control reaches the end of a closure with results")
			}
			return cc.returnTerm(nil, cb.lit.End())
		})
		for i := len(binds) - 1; i >= 0; i-- {
			term = trLet(binds[i].name, binds[i].typ, trOne(binds[i].val), term)
		}
		ps = append(ps, cc.extraParams...)
		for _, e := range cc.externals {
			externals = append(externals, cb.field+"."+e)
		}
		rt := cbFn.resType
		if cbFn.effect {
			rt = "Outcome " + rt
		}
		var b strings.Builder
		for _, a := range cc.aux {
			b.WriteString(a + "\n")
		}
		var thr []string
		for _, m := range cbFn.mutObjs {
			thr = append(thr, m.Name())
		}
		doc := fmt.Sprintf("Go: the closure `%s` of `%s` (%s); result: the new state", cb.field, f.decl.Name.Name, t.l.relPos(cb.lit.Pos()))
		if len(thr) > 0 {
			doc += ", the updated values of " + strings.Join(thr, ", ") + " (assigned through the pointer)"
		}
		if fsig.Results().Len() > 0 {
			doc += ", the results"
		}
		fmt.Fprintf(&b, "/-- %s -/\ndef %s %s : %s :=\n%s\n", doc, cbFn.leanName, strings.Join(ps, " "), rt, term.indent(2).String())
		cbTexts = append(cbTexts, b.String())
		cbNames = append(cbNames, cb.field)
		f.deps = append(f.deps, cbFn.deps...)
	}

	// ---- output
	var fl []string
	for _, fd := range fields {
		fl = append(fl, "  "+fd.name+" : "+fd.typ)
	}
	deriving := "  deriving DecidableEq, Repr\n"
	if hasFuncField {
		deriving = ""
	}
	var sv []string
	for _, fd := range fields {
		if fd.isLog {
			sv = append(sv, fd.obj.Name()+" (the log of the calls "+fd.obj.Name()+"."+logs[fd.obj].method+"(…): the object is write-only)")
		} else {
			sv = append(sv, fd.obj.Name())
		}
	}
	fmt.Fprintf(&out, "/-- Go: the variables that the closures of `%s` capture (%s): %s -/\nstructure %s where\n%s%s\n",
		f.decl.Name.Name, t.l.relPos(f.decl.Pos()), strings.Join(sv, ", "), stateName, trJoinLines(fl), deriving)
	for _, a := range initAux {
		out.WriteString(a + "\n")
	}
	rt := initFn.resType
	if initFn.effect {
		rt = "Outcome " + rt
	}
	optDoc := ""
	if optional {
		optDoc = "; `none` = the constructor returns nil (no processor)"
	}
	fmt.Fprintf(&out, "/-- Go: `%s` (%s), the statements before `return &%s{…}`: the initial state of the closures%s -/\ndef %s %s : %s :=\n%s\n\n",
		trSigText(f.decl), t.l.relPos(f.decl.Pos()), trSrc(ret.Results[0].(*ast.UnaryExpr).X.(*ast.CompositeLit).Type), optDoc,
		initFn.leanName, strings.Join(initParams, " "), rt, initTerm.indent(2).String())
	for _, s := range cbTexts {
		out.WriteString(s + "\n")
	}
	fmt.Fprintf(&out, "/-- the fields of the literal that `%s` sets, in source order (every other callback is nil) -/\ndef %s.callbacks : List String := %s\n\n",
		f.decl.Name.Name, f.leanName, trLeanStrList(cbNames))
	fmt.Fprintf(&out, "/-- pointer parameters of `%s` that are read as struct values, hence presupposed non-nil (`if p == nil` is the branch not taken) -/\ndef %s.nonNil : List String := %s\n\n",
		f.decl.Name.Name, f.leanName, trLeanStrList(nonNil))
	fmt.Fprintf(&out, "/-- the calls of untranslated functions whose results are the `ext` parameters (source text; pinned by the agreement module) -/\ndef %s.externals : List String := %s\n",
		f.leanName, trLeanStrList(externals))
	f.text = out.String()
	f.deps = append(f.deps, initFn.deps...)
}

func (t *trTranslator) nodeEffectStmts(p *trPkg, ss []ast.Stmt) bool {
	for _, s := range ss {
		if t.nodeEffect(p, s) {
			return true
		}
	}
	return false
}

func trLeanStrList(ss []string) string {
	var parts []string
	for _, s := range ss {
		parts = append(parts, trLeanStr(s))
	}
	return "[" + strings.Join(parts, ", ") + "]"
}

// isOpaqueChain: an expression built from untranslatable parameters only (`reg`, `reg.Accounts()`): the receiver of an external call
func (c *trCtx) isOpaqueChain(e ast.Expr) bool {
	switch x := trUnparen(e).(type) {
	case *ast.Ident:
		return c.opaqueParams[c.info().Uses[x]]
	case *ast.SelectorExpr:
		return c.isOpaqueChain(x.X)
	case *ast.CallExpr:
		if len(x.Args) != 0 {
			return false
		}
		return c.isOpaqueChain(x.Fun)
	}
	return false
}

// externalFn: a call of an untranslated function of /repo inside a closure (which runs many times): the callee, as a FUNCTION of its
// translated arguments, is an extra parameter. The receiver must be built from untranslatable parameters (the registry).
func (c *trCtx) externalFn(fobj *types.Func, x *ast.CallExpr) string {
	full := fobj.FullName()
	if sel, ok := trUnparen(x.Fun).(*ast.SelectorExpr); ok {
		if s, isSel := c.info().Selections[sel]; isSel {
			if s.Kind() != types.MethodVal || !c.isOpaqueChain(sel.X) {
				trFail(x.Pos(), "call of the untranslated method %s on a translated value inside a closure is outside the subset", full)
			}
		}
	}
	if x.Ellipsis != token.NoPos {
		trFail(x.Pos(), "call with … is outside the subset")
	}
	res := c.leanType(c.typeOf(x), x.Pos())
	var args, tys []string
	for _, a := range x.Args {
		args = append(args, c.expr(a))
		tys = append(tys, c.leanType(c.typeOf(a), a.Pos()))
	}
	ty := strings.Join(append(tys, res), " → ")
	c.norder++
	n := "ext" + itoa(c.norder)
	c.extraParams = append(c.extraParams, "("+n+" : "+ty+")")
	c.extraTypes = append(c.extraTypes, ty)
	c.externals = append(c.externals, n+" = "+trSrcText(c.t.l.fset, x)+" [as a function of its "+itoa(len(args))+" arguments]")
	if len(args) == 0 {
		return n
	}
	return "(" + n + " " + strings.Join(args, " ") + ")"
}

// returnMutCall: `return f(…)` where the translated callee assigns through pointer/map parameters (`return prc.Insert(…)`): the
// arguments are rebound to the new values first, the remaining components are the returned values
func (c *trCtx) returnMutCall(x *ast.ReturnStmt, call *ast.CallExpr, tf *trFunc, recv ast.Expr) trLines {
	if s := c.writerSynth(call); s != nil {
		call = s
	}
	nres := tf.obj.Type().(*types.Signature).Results().Len()
	if nres != c.nresults {
		trFail(x.Pos(), "return of a call with %d results from a function with %d results is outside the subset", nres, c.nresults)
	}
	var args []string
	if recv != nil {
		args = append(args, c.expr(recv))
	}
	for i, a := range call.Args {
		s := c.identityArg(tf.obj, i, a, c.expr(a))
		if ps := tf.obj.Type().(*types.Signature).Params(); i < ps.Len() {
			s = c.ifaceArg(ps.At(i).Type(), a, s)
		}
		args = append(args, s)
	}
	args = append(args, c.passExtras(tf)...)
	c.fn.deps = append(c.fn.deps, tf)
	app := c.t.qname(c.unit(), tf.unit, tf.leanName) + " " + strings.Join(args, " ")
	var v string
	if tf.effect {
		c.needEffect(call.Pos(), "call of "+tf.leanName)
		v = c.hoist(app, call.Pos())
	} else {
		v = "(" + app + ")"
	}
	pre := c.takePre()
	st := c.fresh("r")
	total := len(tf.mut) + nres
	proj := func(i int) string {
		if total == 1 {
			return st
		}
		p := st + strings.Repeat(".2", i)
		if i < total-1 {
			p += ".1"
		}
		return p
	}
	var targets []ast.Expr
	for _, mi := range tf.mut {
		a := c.callArg(call, recv, tf, mi)
		if a == nil || trBaseIdent(a) == nil {
			trFail(call.Pos(), "argument %d of %s is assigned through by the callee and must be a variable or a field", mi, tf.leanName)
		}
		targets = append(targets, a)
	}
	var body func(i int) trLines
	body = func(i int) trLines {
		if i == len(targets) {
			var vals []string
			for j := 0; j < nres; j++ {
				vals = append(vals, proj(len(targets)+j))
			}
			return c.returnTerm(vals, x.Pos())
		}
		return c.store(targets[i], proj(i), call.Pos(), func() trLines { return body(i + 1) })
	}
	return trWrapPre(pre, trLet(st, "", trOne(v), body(0)))
}

// extrasMark / extrasSince: extra parameters (ext functions, map orders, fuels of callees) that are created while a loop body is
// translated are used inside the loop function: they become its first parameters. The recursive calls are written with a placeholder
// that is replaced once the body is complete.
func (c *trCtx) extrasMark() (ph string, x0, a0 int) {
	c.nmark++
	return "⟪extras" + itoa(c.nmark) + "⟫", len(c.extraParams), len(c.aux)
}

func (c *trCtx) extrasSince(ph string, x0, a0 int, def trLines) (decls, names string) {
	for _, d := range c.extraParams[x0:] {
		decls += " " + d
		n := strings.TrimPrefix(d, "(")
		if i := strings.Index(n, " :"); i >= 0 {
			n = n[:i]
		}
		names += " " + n
	}
	for i := range def {
		def[i] = strings.ReplaceAll(def[i], ph, names)
	}
	for i := a0; i < len(c.aux); i++ {
		c.aux[i] = strings.ReplaceAll(c.aux[i], ph, names)
	}
	return decls, names
}
