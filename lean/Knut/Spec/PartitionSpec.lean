import Knut.Model.Partition
/-! Executable property predicates for C11 (used by the monitor on the implementation's
output, and proved of the model in `Properties/C11.lean`). -/
namespace Knut.Spec
open Knut

def consecutiveB : List Period → Bool
  | [] => true
  | [_] => true
  | p :: q :: rest => (p.stop + 1 == q.start) && consecutiveB (q :: rest)

/-- the property predicate of C11 on a list of periods (oldest first) -/
def partitionOK (a b : Int) (iv : Interval) (last : Int) (ps : List Period) : Bool :=
  if iv = .once then ps == [⟨a, b⟩]
  else if b < a then ps.isEmpty
  else
    consecutiveB ps &&
    ps.all (fun p => decide (p.start ≤ p.stop) && decide (a ≤ p.start) && decide (p.stop ≤ b)) &&
    ps.all (fun p => decide (startOf p.stop iv ≤ p.start)) &&
    ps.all (fun p => decide (p.start = a) || decide (p.start = startOf p.stop iv)) &&
    (match ps.getLast? with | some p => p.stop == b | none => false) &&
    (if last ≤ 0 then (match ps.head? with | some p => p.start == a | none => false)
     else decide ((ps.length : Int) ≤ last) &&
       (decide ((ps.length : Int) = last) || (match ps.head? with | some p => p.start == a | none => false)))

/-- what `Align` must return for day `d` given the shown periods -/
def alignSpec (b : Int) (ps : List Period) (d : Int) : Option Int :=
  if b < d then none else
  match ps.find? (fun p => decide (p.start ≤ d) && decide (d ≤ p.stop)) with
  | some p => some p.stop
  | none =>
    match ps.head? with
    | some p => if d < p.start then some p.stop else none
    | none => none

end Knut.Spec
