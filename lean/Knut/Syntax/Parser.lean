import Knut.Syntax.Scanner
/-!
# Model of `lib/syntax/parser`

One definition per Go method, same order of calls, same error decoration (`s.Annotate(err)` is the `ann`
argument of `Res.bind`; the places where Go forgets or replaces the decoration are reproduced). A Go loop
is a recursive function whose termination measure is the number of unconsumed tokens; the consumption
lemmas (`…_ext`: the state only moves forward, `…_extS`: by at least one token) that justify the measure
are proved right after each definition, because the next loop needs them.

On an error only the error chain is returned (Go also returns the partially filled tree; nothing reads it).
-/
namespace Knut.Syntax
open Knut.Utf8
set_option linter.unusedVariables false

/-! ### bind and consumption -/

theorem Res.bind_ext {α β} {r : Res α} {onErr : Err → St → Err} {f : α → St → Res β} {s : St}
    (h1 : Ext s r.st) (h2 : ∀ a s1, r = .ok a s1 → Ext s1 (f a s1).st) : Ext s (r.bind onErr f).st := by
  cases r with
  | ok a s1 => exact h1.trans (h2 a s1 rfl)
  | err e s1 => exact h1

theorem Res.bind_eq_ok {α β} {r : Res α} {onErr : Err → St → Err} {f : α → St → Res β} {b : β} {s' : St} :
    r.bind onErr f = .ok b s' ↔ ∃ a s1, r = .ok a s1 ∧ f a s1 = .ok b s' := by
  cases r with
  | ok a s1 =>
    simp only [Res.bind]
    constructor
    · intro h; exact ⟨a, s1, rfl, h⟩
    · rintro ⟨a', s1', h, hf⟩; cases h; exact hf
  | err e s1 => simp [Res.bind]

theorem Res.bind_eq_err {α β} {r : Res α} {onErr : Err → St → Err} {f : α → St → Res β} {e : Err} {s' : St} :
    r.bind onErr f = .err e s' ↔
      (∃ e0, r = .err e0 s' ∧ e = onErr e0 s') ∨ (∃ a s1, r = .ok a s1 ∧ f a s1 = .err e s') := by
  cases r with
  | ok a s1 =>
    simp only [Res.bind]
    constructor
    · intro h; exact Or.inr ⟨a, s1, rfl, h⟩
    · rintro (⟨e0, h, _⟩ | ⟨a', s1', h, hf⟩)
      · cases h
      · cases h; exact hf
  | err e0 s1 =>
    simp only [Res.bind]
    constructor
    · intro h; cases h; exact Or.inl ⟨e0, rfl, rfl⟩
    · rintro (⟨e1, h, he⟩ | ⟨a', s1', h, _⟩)
      · cases h; rw [he]
      · cases h

theorem ext_of_ok {α} {r : Res α} {s : St} {a : α} {s' : St} (h : Ext s r.st) (he : r = .ok a s') : Ext s s' := by
  rw [he] at h; exact h

theorem ext_of_err {α} {r : Res α} {s : St} {e : Err} {s' : St} (h : Ext s r.st) (he : r = .err e s') : Ext s s' := by
  rw [he] at h; exact h

/-- the result `r` of a call from state `s`: the state moved forward, and by at least one token if the call succeeded -/
def Prog {α} (s : St) (r : Res α) : Prop := Ext s r.st ∧ ∀ a s', r = .ok a s' → ExtS s s'

theorem Prog.ext {α} {s : St} {r : Res α} (h : Prog s r) : Ext s r.st := h.1

theorem Prog.of_ok {α} {s : St} {r : Res α} {a : α} {s' : St} (h : Prog s r) (he : r = .ok a s') : ExtS s s' := h.2 a s' he

/-- progress made by the first call -/
theorem Prog.bind_left {α β} {r : Res α} {onErr : Err → St → Err} {f : α → St → Res β} {s : St}
    (h1 : Prog s r) (h2 : ∀ a s1, r = .ok a s1 → Ext s1 (f a s1).st) : Prog s (r.bind onErr f) := by
  refine ⟨Res.bind_ext h1.1 h2, ?_⟩
  intro b s' hb
  obtain ⟨a, s1, hr, hf⟩ := Res.bind_eq_ok.mp hb
  exact (h1.2 a s1 hr).trans_ext (ext_of_ok (h2 a s1 hr) hf)

/-- progress made by the continuation -/
theorem Prog.bind_right {α β} {r : Res α} {onErr : Err → St → Err} {f : α → St → Res β} {s : St}
    (h1 : Ext s r.st) (h2 : ∀ a s1, r = .ok a s1 → Prog s1 (f a s1)) : Prog s (r.bind onErr f) := by
  refine ⟨Res.bind_ext h1 fun a s1 hr => (h2 a s1 hr).1, ?_⟩
  intro b s' hb
  obtain ⟨a, s1, hr, hf⟩ := Res.bind_eq_ok.mp hb
  exact (ext_of_ok h1 hr).trans_extS ((h2 a s1 hr).2 b s' hf)

theorem readCharacter_prog (r : Nat) (s : St) : Prog s (readCharacter r s) :=
  ⟨readCharacter_ext r s, fun x s' h => readCharacter_extS r s s' x h⟩

theorem readCharacterWith_prog (desc : String) (p : Nat → Bool) (s : St) : Prog s (readCharacterWith desc p s) :=
  ⟨readCharacterWith_ext desc p s, fun x s' h => readCharacterWith_extS desc p s s' x h⟩

theorem readWhile1_prog (desc : String) (p : Nat → Bool) (s : St) : Prog s (readWhile1 desc p s) :=
  ⟨readWhile1_ext desc p s, fun x s' h => readWhile1_extS desc p s s' x h⟩

theorem readString_prog (str : String) (hne : str.toList ≠ []) (s : St) : Prog s (readString str s) :=
  ⟨readString_ext str s, fun x s' h => readString_extS str s s' x hne h⟩

theorem readAlternative_prog (ss : List String) (hne : ∀ t ∈ ss, t.toList ≠ []) (s : St) :
    Prog s (readAlternative ss s) := by
  refine ⟨readAlternative_ext ss s, ?_⟩
  rintro ⟨r, t⟩ s' h
  have ⟨hm, hr⟩ := readAlternative_ok ss s r t s' h
  exact readString_extS t s s' r (hne t hm) hr

/-! ### small readers -/

/-- `Parser.readComment` -/
def readComment (s : St) : Res Range :=
  let start := s.off
  let ann := annotate "reading comment" start
  (readAlternative ["*", "//", "#"] s).bind ann fun _ s =>
  (readWhile (fun r => !isNewlineOrEOF r) s).bind ann fun _ s =>
  .ok (rng start s) s

theorem readComment_prog (s : St) : Prog s (readComment s) := by
  unfold readComment
  refine Prog.bind_left (readAlternative_prog _ (by decide) _) fun _ s1 _ => ?_
  refine Res.bind_ext (readWhile_ext _ _) fun _ s2 _ => ?_
  exact Ext.refl _

/-- `Parser.readWhitespace1` -/
def readWhitespace1 (s : St) : Res Range :=
  if !isWhitespaceOrNewline (cur s) && !atEOF s then
    .err [Frame.at ("unexpected character `" ++ runeStr (cur s) ++ "`, want whitespace or a newline") (rng s.off s)] s
  else readWhile isWhitespace s

theorem readWhitespace1_ext (s : St) : Ext s (readWhitespace1 s).st := by
  unfold readWhitespace1
  split
  · exact Ext.refl _
  · exact readWhile_ext _ _

/-- `Parser.readRestOfWhitespaceLine` -/
def readRestOfWhitespaceLine (s : St) : Res Range :=
  let start := s.off
  let ann := annotate "reading the rest of the line" start
  (readWhile isWhitespace s).bind ann fun _ s =>
  if atEOF s then .ok (rng start s) s
  else
    (readCharacter 10 s).bind ann fun _ s =>
    .ok (rng start s) s

theorem readRestOfWhitespaceLine_ext (s : St) : Ext s (readRestOfWhitespaceLine s).st := by
  unfold readRestOfWhitespaceLine
  refine Res.bind_ext (readWhile_ext _ _) fun _ s1 _ => ?_
  split
  · exact Ext.refl _
  · refine Res.bind_ext (readCharacter_ext _ _) fun _ s2 _ => ?_
    exact Ext.refl _

/-- a successful `readRestOfWhitespaceLine` away from EOF consumes something -/
theorem readRestOfWhitespaceLine_extS (s s' : St) (r : Range) (hE : atEOF s = false)
    (h : readRestOfWhitespaceLine s = .ok r s') : ExtS s s' := by
  unfold readRestOfWhitespaceLine at h
  simp only [Res.bind_eq_ok] at h
  obtain ⟨r1, s1, h1, h2⟩ := h
  have e1 := ext_of_ok (readWhile_ext _ _) h1
  split at h2
  · rename_i hE1
    injection h2 with _ h2; subst h2
    obtain ⟨c, hc, ho⟩ := e1
    refine ⟨c, ?_, hc, ho⟩
    intro hnil
    subst hnil
    simp only [List.nil_append] at hc
    simp only [atEOF] at hE hE1
    rw [hc] at hE
    simp [hE1] at hE
  · simp only [Res.bind_eq_ok] at h2
    obtain ⟨r2, s2, h2, h3⟩ := h2
    injection h3 with _ h3; subst h3
    exact e1.trans_extS (readCharacter_extS _ _ _ _ h2)

/-- `Parser.parseDate`: `dddd-dd-dd`, digits by `unicode.IsDigit` -/
def parseDate (s : St) : Res Date :=
  let start := s.off
  let ann := annotate "parsing the date" start
  let digit := readCharacterWith "a digit" isDigit
  (digit s).bind ann fun _ s =>
  (digit s).bind ann fun _ s =>
  (digit s).bind ann fun _ s =>
  (digit s).bind ann fun _ s =>
  (readCharacter 45 s).bind ann fun _ s =>
  (digit s).bind ann fun _ s =>
  (digit s).bind ann fun _ s =>
  (readCharacter 45 s).bind ann fun _ s =>
  (digit s).bind ann fun _ s =>
  (digit s).bind ann fun _ s =>
  .ok ⟨rng start s⟩ s

theorem parseDate_prog (s : St) : Prog s (parseDate s) := by
  unfold parseDate
  simp only
  refine Prog.bind_left (readCharacterWith_prog _ _ _) fun _ s1 _ => ?_
  refine Res.bind_ext (readCharacterWith_ext _ _ _) fun _ s1 _ => ?_
  refine Res.bind_ext (readCharacterWith_ext _ _ _) fun _ s1 _ => ?_
  refine Res.bind_ext (readCharacterWith_ext _ _ _) fun _ s1 _ => ?_
  refine Res.bind_ext (readCharacter_ext _ _) fun _ s1 _ => ?_
  refine Res.bind_ext (readCharacterWith_ext _ _ _) fun _ s1 _ => ?_
  refine Res.bind_ext (readCharacterWith_ext _ _ _) fun _ s1 _ => ?_
  refine Res.bind_ext (readCharacter_ext _ _) fun _ s1 _ => ?_
  refine Res.bind_ext (readCharacterWith_ext _ _ _) fun _ s1 _ => ?_
  refine Res.bind_ext (readCharacterWith_ext _ _ _) fun _ s1 _ => ?_
  exact Ext.refl _

/-- `Parser.parseQuotedString` -/
def parseQuotedString (s : St) : Res QuotedString :=
  let start := s.off
  let ann := annotate "parsing quoted string" start
  (readCharacter 34 s).bind ann fun _ s =>
  (readWhile (fun r => r != 34) s).bind ann fun content s =>
  (readCharacter 34 s).bind ann fun _ s =>
  .ok ⟨rng start s, content⟩ s

theorem parseQuotedString_prog (s : St) : Prog s (parseQuotedString s) := by
  unfold parseQuotedString
  refine Prog.bind_left (readCharacter_prog _ _) fun _ s1 _ => ?_
  refine Res.bind_ext (readWhile_ext _ _) fun _ s1 _ => ?_
  refine Res.bind_ext (readCharacter_ext _ _) fun _ s1 _ => ?_
  exact Ext.refl _

/-- `Parser.parseCommodity` -/
def parseCommodity (s : St) : Res Commodity :=
  let start := s.off
  let ann := annotate "parsing commodity" start
  (readWhile1 "a letter or a digit" isAlphanumeric s).bind ann fun _ s =>
  .ok ⟨rng start s⟩ s

theorem parseCommodity_prog (s : St) : Prog s (parseCommodity s) := by
  unfold parseCommodity
  refine Prog.bind_left (readWhile1_prog _ _ _) fun _ s1 _ => ?_
  exact Ext.refl _

/-- `Parser.parseDecimal`: `-?d+(.d+)?` -/
def parseDecimal (s : St) : Res Decimal :=
  let start := s.off
  let ann := annotate "parsing decimal" start
  (if cur s == 45 then (readCharacter 45 s).bind ann fun _ s => .ok () s else .ok () s).bind (fun e _ => e) fun _ s =>
  (readWhile1 "a digit" isDigit s).bind ann fun _ s =>
  if cur s != 46 then .ok ⟨rng start s⟩ s
  else
    (readCharacter 46 s).bind ann fun _ s =>
    (readWhile1 "a digit" isDigit s).bind ann fun _ s =>
    .ok ⟨rng start s⟩ s

theorem parseDecimal_prog (s : St) : Prog s (parseDecimal s) := by
  unfold parseDecimal
  refine Prog.bind_right ?_ fun _ s1 _ => ?_
  · split
    · refine Res.bind_ext (readCharacter_ext _ _) fun _ s1 _ => ?_
      exact Ext.refl _
    · exact Ext.refl _
  · refine Prog.bind_left (readWhile1_prog _ _ _) fun _ s2 _ => ?_
    split
    · exact Ext.refl _
    · refine Res.bind_ext (readCharacter_ext _ _) fun _ s1 _ => ?_
      refine Res.bind_ext (readWhile1_ext _ _ _) fun _ s1 _ => ?_
      exact Ext.refl _

/-- the `for` loop of `parseAccount`: further `:segment`s -/
def accountLoop (start : Nat) (s : St) : Res Account :=
  if cur s != 58 then .ok ⟨rng start s, false⟩ s
  else
    match h1 : readCharacter 58 s with
    | .err e s1 => .err (annotate "parsing account" start e s1) s1
    | .ok _ s1 =>
      match h2 : readWhile1 "a letter or a digit" isAlphanumeric s1 with
      | .err e s2 => .err (annotate "parsing account" start e s2) s2
      | .ok _ s2 => accountLoop start s2
termination_by s.toks.length
decreasing_by
  have a := (readCharacter_prog 58 s).of_ok h1
  have b := (readWhile1_prog _ _ s1).of_ok h2
  exact (a.trans_ext b.ext).length_lt

theorem accountLoop_ext (start : Nat) (s : St) : Ext s (accountLoop start s).st := by
  fun_induction accountLoop start s with
  | case1 s h => exact Ext.refl _
  | case2 s h e s1 h1 => exact ext_of_err (readCharacter_ext _ _) h1
  | case3 s h x s1 h1 e s2 h2 =>
    exact (ext_of_ok (readCharacter_ext _ _) h1).trans (ext_of_err (readWhile1_ext _ _ _) h2)
  | case4 s h x s1 h1 y s2 h2 ih =>
    exact ((ext_of_ok (readCharacter_ext _ _) h1).trans (ext_of_ok (readWhile1_ext _ _ _) h2)).trans ih

/-- `Parser.parseAccount`: `$letters` or `segment(:segment)*` -/
def parseAccount (s : St) : Res Account :=
  let start := s.off
  let ann := annotate "parsing account" start
  if cur s == 36 then
    (readCharacter 36 s).bind ann fun _ s =>
    (readWhile1 "a letter" isLetter s).bind ann fun _ s =>
    .ok ⟨rng start s, true⟩ s
  else
    (readWhile1 "a letter or a digit" isAlphanumeric s).bind ann fun _ s =>
    accountLoop start s

theorem parseAccount_prog (s : St) : Prog s (parseAccount s) := by
  unfold parseAccount
  simp only
  split
  · refine Prog.bind_left (readCharacter_prog _ _) fun _ s1 _ => ?_
    refine Res.bind_ext (readWhile1_ext _ _ _) fun _ s1 _ => ?_
    exact Ext.refl _
  · refine Prog.bind_left (readWhile1_prog _ _ _) fun _ s1 _ => ?_
    exact accountLoop_ext _ _

/-- `Parser.parseBooking` -/
def parseBooking (s : St) : Res Booking :=
  let start := s.off
  let ann := annotate "parsing booking" start
  (parseAccount s).bind ann fun credit s =>
  (readWhile1 "whitespace" isWhitespace s).bind ann fun _ s =>
  (parseAccount s).bind ann fun debit s =>
  (readWhile1 "whitespace" isWhitespace s).bind ann fun _ s =>
  (parseDecimal s).bind ann fun quantity s =>
  (readWhile1 "whitespace" isWhitespace s).bind ann fun _ s =>
  (parseCommodity s).bind ann fun commodity s =>
  .ok ⟨rng start s, credit, debit, quantity, commodity⟩ s

theorem parseBooking_prog (s : St) : Prog s (parseBooking s) := by
  unfold parseBooking
  refine Prog.bind_left (parseAccount_prog _) fun _ s1 _ => ?_
  refine Res.bind_ext (readWhile1_ext _ _ _) fun _ s1 _ => ?_
  refine Res.bind_ext (parseAccount_prog _).ext fun _ s1 _ => ?_
  refine Res.bind_ext (readWhile1_ext _ _ _) fun _ s1 _ => ?_
  refine Res.bind_ext (parseDecimal_prog _).ext fun _ s1 _ => ?_
  refine Res.bind_ext (readWhile1_ext _ _ _) fun _ s1 _ => ?_
  refine Res.bind_ext (parseCommodity_prog _).ext fun _ s1 _ => ?_
  exact Ext.refl _

/-- `Parser.parseBalance` -/
def parseBalance (s : St) : Res Balance :=
  let start := s.off
  let ann := annotate "parsing balance subdirective" start
  (parseAccount s).bind ann fun account s =>
  (readWhitespace1 s).bind ann fun _ s =>
  (parseDecimal s).bind ann fun quantity s =>
  (readWhitespace1 s).bind ann fun _ s =>
  (parseCommodity s).bind ann fun commodity s =>
  .ok ⟨rng start s, account, quantity, commodity⟩ s

theorem parseBalance_prog (s : St) : Prog s (parseBalance s) := by
  unfold parseBalance
  refine Prog.bind_left (parseAccount_prog _) fun _ s1 _ => ?_
  refine Res.bind_ext (readWhitespace1_ext _) fun _ s1 _ => ?_
  refine Res.bind_ext (parseDecimal_prog _).ext fun _ s1 _ => ?_
  refine Res.bind_ext (readWhitespace1_ext _) fun _ s1 _ => ?_
  refine Res.bind_ext (parseCommodity_prog _).ext fun _ s1 _ => ?_
  exact Ext.refl _

/-- `Parser.parseInterval` -/
def parseInterval (s : St) : Res Interval :=
  let start := s.off
  let ann := annotate "parsing interval" start
  (readAlternative ["daily", "weekly", "monthly", "quarterly"] s).bind ann fun _ s =>
  .ok ⟨rng start s⟩ s

theorem parseInterval_prog (s : St) : Prog s (parseInterval s) := by
  unfold parseInterval
  refine Prog.bind_left (readAlternative_prog _ (by decide) _) fun _ s1 _ => ?_
  exact Ext.refl _

/-- `Parser.parseAccrual` (called right after the keyword `@accrue`) -/
def parseAccrual (s : St) : Res Accrual :=
  let start := s.off
  let ann := annotate "parsing addons" start
  (readWhitespace1 s).bind ann fun _ s =>
  (parseInterval s).bind ann fun interval s =>
  (readWhitespace1 s).bind ann fun _ s =>
  (parseDate s).bind ann fun d0 s =>
  (readWhitespace1 s).bind ann fun _ s =>
  (parseDate s).bind ann fun d1 s =>
  (readWhitespace1 s).bind ann fun _ s =>
  (parseAccount s).bind ann fun account s =>
  .ok ⟨rng start s, interval, d0, d1, account⟩ s

theorem parseAccrual_ext (s : St) : Ext s (parseAccrual s).st := by
  unfold parseAccrual
  refine Res.bind_ext (readWhitespace1_ext _) fun _ s1 _ => ?_
  refine Res.bind_ext (parseInterval_prog _).ext fun _ s1 _ => ?_
  refine Res.bind_ext (readWhitespace1_ext _) fun _ s1 _ => ?_
  refine Res.bind_ext (parseDate_prog _).ext fun _ s1 _ => ?_
  refine Res.bind_ext (readWhitespace1_ext _) fun _ s1 _ => ?_
  refine Res.bind_ext (parseDate_prog _).ext fun _ s1 _ => ?_
  refine Res.bind_ext (readWhitespace1_ext _) fun _ s1 _ => ?_
  refine Res.bind_ext (parseAccount_prog _).ext fun _ s1 _ => ?_
  exact Ext.refl _

/-- the `for p.Current() == ','` loop of `parsePerformance`; `acc` holds the targets so far, newest first -/
def perfLoop (start : Nat) (acc : List Commodity) (s : St) : Res (List Commodity) :=
  if cur s != 44 then .ok acc.reverse s
  else
    match h1 : readCharacter 44 s with
    | .err e s1 => .err (annotate "parsing performance" start e s1) s1
    | .ok _ s1 =>
      match h2 : readWhile isWhitespace s1 with
      | .err e s2 => .err (annotate "parsing performance" start e s2) s2
      | .ok _ s2 =>
        match h3 : parseCommodity s2 with
        | .err e s3 => .err (annotate "parsing performance" start e s3) s3
        | .ok c s3 =>
          match h4 : readWhile isWhitespace s3 with
          | .err e s4 => .err (annotate "parsing performance" start e s4) s4
          | .ok _ s4 => perfLoop start (c :: acc) s4
termination_by s.toks.length
decreasing_by
  have a := (readCharacter_prog 44 s).of_ok h1
  have b := ext_of_ok (readWhile_ext _ _) h2
  have c := ext_of_ok (parseCommodity_prog _).ext h3
  have d := ext_of_ok (readWhile_ext _ _) h4
  exact (a.trans_ext (b.trans (c.trans d))).length_lt

theorem perfLoop_ext (start : Nat) (acc : List Commodity) (s : St) : Ext s (perfLoop start acc s).st := by
  fun_induction perfLoop start acc s with
  | case1 acc s h => exact Ext.refl _
  | case2 acc s h e s1 h1 => exact ext_of_err (readCharacter_ext _ _) h1
  | case3 acc s h x s1 h1 e s2 h2 =>
    exact (ext_of_ok (readCharacter_ext _ _) h1).trans (ext_of_err (readWhile_ext _ _) h2)
  | case4 acc s h x s1 h1 y s2 h2 e s3 h3 =>
    exact ((ext_of_ok (readCharacter_ext _ _) h1).trans (ext_of_ok (readWhile_ext _ _) h2)).trans
      (ext_of_err (parseCommodity_prog _).ext h3)
  | case5 acc s h x s1 h1 y s2 h2 c s3 h3 e s4 h4 =>
    exact (((ext_of_ok (readCharacter_ext _ _) h1).trans (ext_of_ok (readWhile_ext _ _) h2)).trans
      (ext_of_ok (parseCommodity_prog _).ext h3)).trans (ext_of_err (readWhile_ext _ _) h4)
  | case6 acc s h x s1 h1 y s2 h2 c s3 h3 z s4 h4 ih =>
    exact ((((ext_of_ok (readCharacter_ext _ _) h1).trans (ext_of_ok (readWhile_ext _ _) h2)).trans
      (ext_of_ok (parseCommodity_prog _).ext h3)).trans (ext_of_ok (readWhile_ext _ _) h4)).trans ih

/-- `Parser.parsePerformance` (called right after the keyword `@performance`) -/
def parsePerformance (s : St) : Res Performance :=
  let start := s.off
  let ann := annotate "parsing performance" start
  (readCharacter 40 s).bind ann fun _ s =>
  (readWhile isWhitespace s).bind ann fun _ s =>
  (if cur s != 41 then
      (parseCommodity s).bind ann fun c s =>
      (readWhile isWhitespace s).bind ann fun _ s =>
      .ok [c] s
    else .ok [] s).bind (fun e _ => e) fun first s =>
  (perfLoop start first s).bind (fun e _ => e) fun targets s =>
  (readCharacter 41 s).bind ann fun _ s =>
  .ok ⟨rng start s, targets⟩ s

theorem parsePerformance_prog (s : St) : Prog s (parsePerformance s) := by
  unfold parsePerformance
  refine Prog.bind_left (readCharacter_prog _ _) fun _ s1 _ => ?_
  refine Res.bind_ext (readWhile_ext _ _) fun _ s1 _ => ?_
  refine Res.bind_ext ?_ fun _ s2 _ => ?_
  · split
    · refine Res.bind_ext (parseCommodity_prog _).ext fun _ s1 _ => ?_
      refine Res.bind_ext (readWhile_ext _ _) fun _ s1 _ => ?_
      exact Ext.refl _
    · exact Ext.refl _
  · refine Res.bind_ext (perfLoop_ext _ _ _) fun _ s1 _ => ?_
    refine Res.bind_ext (readCharacter_ext _ _) fun _ s1 _ => ?_
    exact Ext.refl _

/-- one round of the `switch r.Extract()` in `parseAddons`: `r`/`kw` is the keyword just read -/
def addonStep (start : Nat) (perf : Performance) (accr : Accrual) (r : Range) (kw : String) (s : St) :
    Res (Performance × Accrual) :=
  let ann := annotate "parsing addons" start
  if kw == "@performance" then
    if !perf.range.empty then .err (ann [Frame.at "duplicate performance annotation" r] s) s
    else
      (parsePerformance s).bind ann fun p s =>
      .ok ({ p with range := p.range.extend r }, accr) s
  else if kw == "@accrue" then
    if !accr.range.empty then .err (ann [Frame.at "duplicate accrue annotation" r] s) s
    else
      (parseAccrual s).bind ann fun a s =>
      .ok (perf, { a with range := a.range.extend r }) s
  else .ok (perf, accr) s

theorem addonStep_ext (start : Nat) (perf : Performance) (accr : Accrual) (r : Range) (kw : String) (s : St) :
    Ext s (addonStep start perf accr r kw s).st := by
  unfold addonStep
  simp only
  split
  · split
    · exact Ext.refl _
    · refine Res.bind_ext (parsePerformance_prog _).ext fun _ s1 _ => ?_
      exact Ext.refl _
  · split
    · split
      · exact Ext.refl _
      · refine Res.bind_ext (parseAccrual_ext _) fun _ s1 _ => ?_
        exact Ext.refl _
    · exact Ext.refl _

/-- the `for` loop of `parseAddons` -/
def addonsLoop (start : Nat) (perf : Performance) (accr : Accrual) (s : St) : Res Addons :=
  match h1 : readAlternative ["@performance", "@accrue"] s with
  | .err e s1 => .err (annotate "parsing addons" start e s1) s1
  | .ok (r, kw) s1 =>
    match h2 : addonStep start perf accr r kw s1 with
    | .err e s2 => .err e s2
    | .ok (perf', accr') s2 =>
      match h3 : readRestOfWhitespaceLine s2 with
      | .err _ s3 => .err (annotate "parsing addons" start [Frame.zero] s3) s3
      | .ok _ s3 =>
        if cur s3 != 64 then .ok ⟨rng start s3, perf', accr'⟩ s3
        else addonsLoop start perf' accr' s3
termination_by s.toks.length
decreasing_by
  have a := (readAlternative_prog _ (by decide) s).of_ok h1
  have b := ext_of_ok (addonStep_ext _ _ _ _ _ _) h2
  have c := ext_of_ok (readRestOfWhitespaceLine_ext _) h3
  exact (a.trans_ext (b.trans c)).length_lt

theorem addonsLoop_prog (start : Nat) (perf : Performance) (accr : Accrual) (s : St) :
    Prog s (addonsLoop start perf accr s) := by
  fun_induction addonsLoop start perf accr s with
  | case1 perf accr s e s1 h1 =>
    exact ⟨ext_of_err (readAlternative_ext _ _) h1, fun _ _ h => by cases h⟩
  | case2 perf accr s r kw s1 h1 e s2 h2 =>
    exact ⟨(ext_of_ok (readAlternative_ext _ _) h1).trans (ext_of_err (addonStep_ext _ _ _ _ _ _) h2), fun _ _ h => by cases h⟩
  | case3 perf accr s r kw s1 h1 perf' accr' s2 h2 e s3 h3 =>
    exact ⟨((ext_of_ok (readAlternative_ext _ _) h1).trans (ext_of_ok (addonStep_ext _ _ _ _ _ _) h2)).trans
      (ext_of_err (readRestOfWhitespaceLine_ext _) h3), fun _ _ h => by cases h⟩
  | case4 perf accr s r kw s1 h1 perf' accr' s2 h2 x s3 h3 hc =>
    have a := (readAlternative_prog _ (by decide) s).of_ok h1
    have b := ext_of_ok (addonStep_ext _ _ _ _ _ _) h2
    have c := ext_of_ok (readRestOfWhitespaceLine_ext _) h3
    have t := a.trans_ext (b.trans c)
    exact ⟨t.ext, fun _ _ h => by cases h; exact t⟩
  | case5 perf accr s r kw s1 h1 perf' accr' s2 h2 x s3 h3 hc ih =>
    have a := (readAlternative_prog _ (by decide) s).of_ok h1
    have b := ext_of_ok (addonStep_ext _ _ _ _ _ _) h2
    have c := ext_of_ok (readRestOfWhitespaceLine_ext _) h3
    have t := a.trans_ext (b.trans c)
    exact ⟨t.ext.trans ih.1, fun x y h => t.trans_ext (ih.2 x y h).ext⟩

/-- `Parser.parseAddons` -/
def parseAddons (s : St) : Res Addons := addonsLoop s.off Performance.zero Accrual.zero s

theorem parseAddons_prog (s : St) : Prog s (parseAddons s) := addonsLoop_prog _ _ _ _

/-- the `for` loop of `parseTransaction`; `acc` holds the bookings so far, newest first -/
def bookingsLoop (start : Nat) (acc : List Booking) (s : St) : Res (List Booking) :=
  match h1 : parseBooking s with
  | .err e s1 => .err (annotate "parsing transaction" start e s1) s1
  | .ok b s1 =>
    match h2 : readRestOfWhitespaceLine s1 with
    | .err e s2 => .err (annotate "parsing transaction" start e s2) s2
    | .ok _ s2 =>
      if isWhitespaceOrNewline (cur s2) || atEOF s2 then .ok (b :: acc).reverse s2
      else bookingsLoop start (b :: acc) s2
termination_by s.toks.length
decreasing_by
  have a := (parseBooking_prog s).of_ok h1
  have b := ext_of_ok (readRestOfWhitespaceLine_ext _) h2
  exact (a.trans_ext b).length_lt

theorem bookingsLoop_prog (start : Nat) (acc : List Booking) (s : St) : Prog s (bookingsLoop start acc s) := by
  fun_induction bookingsLoop start acc s with
  | case1 acc s e s1 h1 => exact ⟨ext_of_err (parseBooking_prog _).ext h1, fun _ _ h => by cases h⟩
  | case2 acc s b s1 h1 e s2 h2 =>
    exact ⟨(ext_of_ok (parseBooking_prog _).ext h1).trans (ext_of_err (readRestOfWhitespaceLine_ext _) h2),
      fun _ _ h => by cases h⟩
  | case3 acc s b s1 h1 x s2 h2 hc =>
    have t := ((parseBooking_prog s).of_ok h1).trans_ext (ext_of_ok (readRestOfWhitespaceLine_ext _) h2)
    exact ⟨t.ext, fun _ _ h => by cases h; exact t⟩
  | case4 acc s b s1 h1 x s2 h2 hc ih =>
    have t := ((parseBooking_prog s).of_ok h1).trans_ext (ext_of_ok (readRestOfWhitespaceLine_ext _) h2)
    exact ⟨t.ext.trans ih.1, fun x y h => t.trans_ext (ih.2 x y h).ext⟩

/-- `Parser.parseTransaction`; `start` is the scope opened by `parseDirective` (before the addons) -/
def parseTransaction (start : Nat) (date : Date) (addons : Addons) (s : St) : Res Transaction :=
  let ann := annotate "parsing transaction" start
  (parseQuotedString s).bind ann fun description s =>
  (readRestOfWhitespaceLine s).bind ann fun _ s =>
  (bookingsLoop start [] s).bind (fun e _ => e) fun bookings s =>
  .ok ⟨rng start s, date, description, bookings, addons⟩ s

theorem parseTransaction_prog (start : Nat) (date : Date) (addons : Addons) (s : St) :
    Prog s (parseTransaction start date addons s) := by
  unfold parseTransaction
  refine Prog.bind_left (parseQuotedString_prog _) fun _ s1 _ => ?_
  refine Res.bind_ext (readRestOfWhitespaceLine_ext _) fun _ s1 _ => ?_
  refine Res.bind_ext (bookingsLoop_prog _ _ _).ext fun _ s1 _ => ?_
  exact Ext.refl _

/-- `Parser.parseOpen` -/
def parseOpen (start : Nat) (date : Date) (s : St) : Res Open :=
  (parseAccount s).bind (annotate "parsing `open` directive" start) fun account s =>
  .ok ⟨rng start s, date, account⟩ s

theorem parseOpen_prog (start : Nat) (date : Date) (s : St) : Prog s (parseOpen start date s) := by
  unfold parseOpen
  refine Prog.bind_left (parseAccount_prog _) fun _ s1 _ => ?_
  exact Ext.refl _

/-- `Parser.parseClose` -/
def parseClose (start : Nat) (date : Date) (s : St) : Res Close :=
  (parseAccount s).bind (annotate "parsing `close` directive" start) fun account s =>
  .ok ⟨rng start s, date, account⟩ s

theorem parseClose_prog (start : Nat) (date : Date) (s : St) : Prog s (parseClose start date s) := by
  unfold parseClose
  refine Prog.bind_left (parseAccount_prog _) fun _ s1 _ => ?_
  exact Ext.refl _

/-- the `for` loop of the multi-line form of `parseAssertion` -/
def balancesLoop (start : Nat) (acc : List Balance) (s : St) : Res (List Balance) :=
  match h1 : parseBalance s with
  | .err e s1 => .err (annotate "parsing `balance` directive" start e s1) s1
  | .ok b s1 =>
    match h2 : readRestOfWhitespaceLine s1 with
    | .err e s2 => .err (annotate "parsing `balance` directive" start e s2) s2
    | .ok _ s2 =>
      if isWhitespaceOrNewline (cur s2) || atEOF s2 then .ok (b :: acc).reverse s2
      else balancesLoop start (b :: acc) s2
termination_by s.toks.length
decreasing_by
  have a := (parseBalance_prog s).of_ok h1
  have b := ext_of_ok (readRestOfWhitespaceLine_ext _) h2
  exact (a.trans_ext b).length_lt

theorem balancesLoop_prog (start : Nat) (acc : List Balance) (s : St) : Prog s (balancesLoop start acc s) := by
  fun_induction balancesLoop start acc s with
  | case1 acc s e s1 h1 => exact ⟨ext_of_err (parseBalance_prog _).ext h1, fun _ _ h => by cases h⟩
  | case2 acc s b s1 h1 e s2 h2 =>
    exact ⟨(ext_of_ok (parseBalance_prog _).ext h1).trans (ext_of_err (readRestOfWhitespaceLine_ext _) h2),
      fun _ _ h => by cases h⟩
  | case3 acc s b s1 h1 x s2 h2 hc =>
    have t := ((parseBalance_prog s).of_ok h1).trans_ext (ext_of_ok (readRestOfWhitespaceLine_ext _) h2)
    exact ⟨t.ext, fun _ _ h => by cases h; exact t⟩
  | case4 acc s b s1 h1 x s2 h2 hc ih =>
    have t := ((parseBalance_prog s).of_ok h1).trans_ext (ext_of_ok (readRestOfWhitespaceLine_ext _) h2)
    exact ⟨t.ext.trans ih.1, fun x y h => t.trans_ext (ih.2 x y h).ext⟩

/-- `Parser.parseAssertion`: one balance on the same line, or one per following line -/
def parseAssertion (start : Nat) (date : Date) (s : St) : Res Assertion :=
  let ann := annotate "parsing `balance` directive" start
  if isNewline (cur s) then
    (readRestOfWhitespaceLine s).bind ann fun _ s =>
    (balancesLoop start [] s).bind (fun e _ => e) fun balances s =>
    .ok ⟨rng start s, date, balances⟩ s
  else
    (parseBalance s).bind ann fun b s =>
    .ok ⟨rng start s, date, [b]⟩ s

theorem parseAssertion_prog (start : Nat) (date : Date) (s : St) : Prog s (parseAssertion start date s) := by
  unfold parseAssertion
  simp only
  split
  · refine Prog.bind_right (readRestOfWhitespaceLine_ext _) fun _ s1 _ => ?_
    refine Prog.bind_left (balancesLoop_prog _ _ _) fun _ s1 _ => ?_
    exact Ext.refl _
  · refine Prog.bind_left (parseBalance_prog _) fun _ s1 _ => ?_
    exact Ext.refl _

/-- `Parser.parsePrice` (Go describes the scope as "parsing `balance` directive" and leaves the error of
the target commodity undecorated) -/
def parsePrice (start : Nat) (date : Date) (s : St) : Res Price :=
  let ann := annotate "parsing `balance` directive" start
  (parseCommodity s).bind ann fun commodity s =>
  (readWhitespace1 s).bind ann fun _ s =>
  (parseDecimal s).bind ann fun price s =>
  (readWhitespace1 s).bind ann fun _ s =>
  (parseCommodity s).bind (fun e _ => e) fun target s =>
  .ok ⟨rng start s, date, commodity, target, price⟩ s

theorem parsePrice_prog (start : Nat) (date : Date) (s : St) : Prog s (parsePrice start date s) := by
  unfold parsePrice
  refine Prog.bind_left (parseCommodity_prog _) fun _ s1 _ => ?_
  refine Res.bind_ext (readWhitespace1_ext _) fun _ s1 _ => ?_
  refine Res.bind_ext (parseDecimal_prog _).ext fun _ s1 _ => ?_
  refine Res.bind_ext (readWhitespace1_ext _) fun _ s1 _ => ?_
  refine Res.bind_ext (parseCommodity_prog _).ext fun _ s1 _ => ?_
  exact Ext.refl _

/-- `Parser.parseInclude` -/
def parseInclude (s : St) : Res Include :=
  let start := s.off
  let ann := annotate "parsing `include` statement" start
  (readString "include" s).bind ann fun _ s =>
  (readWhitespace1 s).bind ann fun _ s =>
  (parseQuotedString s).bind ann fun path s =>
  .ok ⟨rng start s, path⟩ s

theorem parseInclude_prog (s : St) : Prog s (parseInclude s) := by
  unfold parseInclude
  refine Prog.bind_left (readString_prog _ (by decide) _) fun _ s1 _ => ?_
  refine Res.bind_ext (readWhitespace1_ext _) fun _ s1 _ => ?_
  refine Res.bind_ext (parseQuotedString_prog _).ext fun _ s1 _ => ?_
  exact Ext.refl _

/-- the `switch r.Extract()` of `parseDirective` after the date; `kw` is one of the four keywords -/
def parseKeyword (start : Nat) (date : Date) (kw : String) (s : St) : Res Body :=
  let ann := annotate "parsing directive" start
  if kw == "open" then (parseOpen start date s).bind ann fun o s => .ok (.open o) s
  else if kw == "close" then (parseClose start date s).bind ann fun c s => .ok (.close c) s
  else if kw == "balance" then (parseAssertion start date s).bind ann fun a s => .ok (.assertion a) s
  else (parsePrice start date s).bind ann fun p s => .ok (.price p) s

theorem parseKeyword_ext (start : Nat) (date : Date) (kw : String) (s : St) :
    Ext s (parseKeyword start date kw s).st := by
  unfold parseKeyword
  simp only
  split
  · exact Res.bind_ext (parseOpen_prog _ _ _).ext fun _ _ _ => Ext.refl _
  · split
    · exact Res.bind_ext (parseClose_prog _ _ _).ext fun _ _ _ => Ext.refl _
    · split
      · exact Res.bind_ext (parseAssertion_prog _ _ _).ext fun _ _ _ => Ext.refl _
      · exact Res.bind_ext (parsePrice_prog _ _ _).ext fun _ _ _ => Ext.refl _

/-- the part of `parseDirective` after the optional addons -/
def parseDirectiveBody (start : Nat) (addons : Addons) (s : St) : Res Body :=
  let ann := annotate "parsing directive" start
  if cur s == 105 then
    (parseInclude s).bind ann fun i s => .ok (.include i) s
  else
    (parseDate s).bind ann fun date s =>
    (readWhitespace1 s).bind ann fun _ s =>
    if cur s == 34 then
      (parseTransaction start date addons s).bind ann fun t s => .ok (.transaction t) s
    else
      (readAlternative ["open", "close", "balance", "price"] s).bind ann fun (_, kw) s =>
      (readWhitespace1 s).bind ann fun _ s =>
      parseKeyword start date kw s

theorem parseDirectiveBody_prog (start : Nat) (addons : Addons) (s : St) :
    Prog s (parseDirectiveBody start addons s) := by
  unfold parseDirectiveBody
  simp only
  split
  · refine Prog.bind_left (parseInclude_prog _) fun _ s1 _ => ?_
    exact Ext.refl _
  · refine Prog.bind_left (parseDate_prog _) fun _ s1 _ => ?_
    refine Res.bind_ext (readWhitespace1_ext _) fun _ s1 _ => ?_
    split
    · refine Res.bind_ext (parseTransaction_prog _ _ _ _).ext fun _ s1 _ => ?_
      exact Ext.refl _
    · refine Res.bind_ext (readAlternative_ext _ _) fun x s1 _ => ?_
      refine Res.bind_ext (readWhitespace1_ext _) fun _ s1 _ => ?_
      exact parseKeyword_ext _ _ _ _

/-- `Parser.parseDirective` -/
def parseDirective (s : St) : Res Directive :=
  let start := s.off
  let ann := annotate "parsing directive" start
  (if cur s == 64 then (parseAddons s).bind ann fun a s => .ok a s else .ok Addons.zero s).bind (fun e _ => e)
    fun addons s =>
  (parseDirectiveBody start addons s).bind (fun e _ => e) fun body s =>
  .ok ⟨rng start s, body⟩ s

theorem parseDirective_prog (s : St) : Prog s (parseDirective s) := by
  unfold parseDirective
  refine Prog.bind_right ?_ fun _ s1 _ => ?_
  · split
    · refine Res.bind_ext (parseAddons_prog _).ext fun _ s1 _ => ?_
      exact Ext.refl _
    · exact Ext.refl _
  · refine Prog.bind_left (parseDirectiveBody_prog _ _ _) fun _ s2 _ => ?_
    exact Ext.refl _

/-- the `switch` in the loop of `ParseFile`: a comment, a directive, or neither -/
def fileItem (s : St) : Res (Option Directive) :=
  if cur s == 42 || cur s == 35 || cur s == 47 then
    (readComment s).bind (fun e _ => e) fun _ s => .ok none s
  else if isAlphanumeric (cur s) || cur s == 64 then
    (parseDirective s).bind (fun e _ => e) fun d s => .ok (some d) s
  else .ok none s

theorem fileItem_ext (s : St) : Ext s (fileItem s).st := by
  unfold fileItem
  split
  · exact Res.bind_ext (readComment_prog _).ext fun _ _ _ => Ext.refl _
  · split
    · exact Res.bind_ext (parseDirective_prog _).ext fun _ _ _ => Ext.refl _
    · exact Ext.refl _

def fileDesc (path : String) : String := "parsing file `" ++ path ++ "`"

/-- `file.Directives = append(file.Directives, dir)` if the round produced a directive (`acc` is newest first) -/
def pushOpt (d : Option Directive) (acc : List Directive) : List Directive :=
  match d with
  | some d => d :: acc
  | none => acc

/-- the loop of `ParseFile`; `acc` holds the directives so far, newest first -/
def fileLoop (path : String) (start : Nat) (acc : List Directive) (s : St) : Res File :=
  if hE : atEOF s then .ok ⟨rng start s, acc.reverse⟩ s
  else
    match h1 : fileItem s with
    | .err e s1 => .err (annotate (fileDesc path) start e s1) s1
    | .ok d s1 =>
      if hE1 : atEOF s1 then .ok ⟨rng start s1, (pushOpt d acc).reverse⟩ s1
      else
        match h2 : readRestOfWhitespaceLine s1 with
        | .err e s2 => .err (annotate (fileDesc path) start e s2) s2
        | .ok _ s2 => fileLoop path start (pushOpt d acc) s2
termination_by s.toks.length
decreasing_by
  have a := ext_of_ok (fileItem_ext _) h1
  have b := readRestOfWhitespaceLine_extS s1 s2 _ (by simpa using hE1) h2
  exact (a.trans_extS b).length_lt

/-- `Parser.ParseFile` -/
def parseFile (path : String) (s : St) : Res File := fileLoop path s.off [] s

/-- `syntax.ParseFile` after reading the file: `parser.New(text, path)`, `Advance()`, `ParseFile()` -/
def parseText (path : String) (text : List UInt8) : Except Err File :=
  match start (decodeAll text) with
  | .err e _ => .error e
  | .ok _ s =>
    match parseFile path s with
    | .ok f _ => .ok f
    | .err e _ => .error e

/-! ### The loops once more, as plain equations (`Res.bind` form, for unfolding in proofs and examples) -/

theorem accountLoop_eq (start : Nat) (s : St) : accountLoop start s =
    if cur s != 58 then .ok ⟨rng start s, false⟩ s
    else (readCharacter 58 s).bind (annotate "parsing account" start) fun _ s1 =>
      (readWhile1 "a letter or a digit" isAlphanumeric s1).bind (annotate "parsing account" start) fun _ s2 =>
      accountLoop start s2 := by
  rw [accountLoop]
  split
  · rfl
  · split
    · rename_i h; simp only [h, Res.bind]
    · rename_i h
      simp only [h, Res.bind]
      split
      · rename_i h2; simp only [h2]
      · rename_i h2; simp only [h2]

theorem perfLoop_eq (start : Nat) (acc : List Commodity) (s : St) : perfLoop start acc s =
    if cur s != 44 then .ok acc.reverse s
    else
      let ann := annotate "parsing performance" start
      (readCharacter 44 s).bind ann fun _ s1 =>
      (readWhile isWhitespace s1).bind ann fun _ s2 =>
      (parseCommodity s2).bind ann fun c s3 =>
      (readWhile isWhitespace s3).bind ann fun _ s4 =>
      perfLoop start (c :: acc) s4 := by
  rw [perfLoop]
  split
  · rfl
  · simp only
    split
    · rename_i h; simp only [h, Res.bind]
    · rename_i h
      simp only [h, Res.bind]
      split
      · rename_i h2; simp only [h2]
      · rename_i h2
        simp only [h2]
        split
        · rename_i h3; simp only [h3]
        · rename_i h3
          simp only [h3]
          split
          · rename_i h4; simp only [h4]
          · rename_i h4; simp only [h4]

theorem addonsLoop_eq (start : Nat) (perf : Performance) (accr : Accrual) (s : St) : addonsLoop start perf accr s =
    (readAlternative ["@performance", "@accrue"] s).bind (annotate "parsing addons" start) fun (r, kw) s1 =>
    (addonStep start perf accr r kw s1).bind (fun e _ => e) fun (perf', accr') s2 =>
    (readRestOfWhitespaceLine s2).bind (fun _ s3 => annotate "parsing addons" start [Frame.zero] s3) fun _ s3 =>
    if cur s3 != 64 then .ok ⟨rng start s3, perf', accr'⟩ s3 else addonsLoop start perf' accr' s3 := by
  rw [addonsLoop]
  split
  · rename_i h; simp only [h, Res.bind]
  · rename_i h
    simp only [h, Res.bind]
    split
    · rename_i h2; simp only [h2]
    · rename_i h2
      simp only [h2]
      split
      · rename_i h3; simp only [h3]
      · rename_i h3; simp only [h3]

theorem bookingsLoop_eq (start : Nat) (acc : List Booking) (s : St) : bookingsLoop start acc s =
    (parseBooking s).bind (annotate "parsing transaction" start) fun b s1 =>
    (readRestOfWhitespaceLine s1).bind (annotate "parsing transaction" start) fun _ s2 =>
    if isWhitespaceOrNewline (cur s2) || atEOF s2 then .ok (b :: acc).reverse s2
    else bookingsLoop start (b :: acc) s2 := by
  rw [bookingsLoop]
  split
  · rename_i h; simp only [h, Res.bind]
  · rename_i h
    simp only [h, Res.bind]
    split
    · rename_i h2; simp only [h2]
    · rename_i h2; simp only [h2]

theorem balancesLoop_eq (start : Nat) (acc : List Balance) (s : St) : balancesLoop start acc s =
    (parseBalance s).bind (annotate "parsing `balance` directive" start) fun b s1 =>
    (readRestOfWhitespaceLine s1).bind (annotate "parsing `balance` directive" start) fun _ s2 =>
    if isWhitespaceOrNewline (cur s2) || atEOF s2 then .ok (b :: acc).reverse s2
    else balancesLoop start (b :: acc) s2 := by
  rw [balancesLoop]
  split
  · rename_i h; simp only [h, Res.bind]
  · rename_i h
    simp only [h, Res.bind]
    split
    · rename_i h2; simp only [h2]
    · rename_i h2; simp only [h2]

theorem fileLoop_eq (path : String) (start : Nat) (acc : List Directive) (s : St) : fileLoop path start acc s =
    if atEOF s then .ok ⟨rng start s, acc.reverse⟩ s
    else (fileItem s).bind (annotate (fileDesc path) start) fun d s1 =>
      if atEOF s1 then .ok ⟨rng start s1, (pushOpt d acc).reverse⟩ s1
      else (readRestOfWhitespaceLine s1).bind (annotate (fileDesc path) start) fun _ s2 =>
        fileLoop path start (pushOpt d acc) s2 := by
  rw [fileLoop]
  split
  · rfl
  · split
    · rename_i h; simp only [h, Res.bind]
    · rename_i h
      simp only [h, Res.bind]
      split
      · rfl
      · split
        · rename_i h2; simp only [h2]
        · rename_i h2; simp only [h2]

end Knut.Syntax
