package main

import (
	"fmt"
	"os"
	"path/filepath"
	"sort"
	"strings"
	"time"

	"github.com/shopspring/decimal"
)

func init() { runners["C01"] = runC01 }

// deltaRowsZero evaluates the property predicate of C01 on the real output: every numeric cell of the
// Delta row(s) is zero (CSV: "0"; text: blank, as zero amounts are rendered blank).
func deltaRowsZero(stdout string, csv bool) (bool, string) {
	lines := strings.Split(stdout, "\n")
	if csv {
		in := false
		seen := false
		for _, l := range lines {
			if l == "Delta" || strings.HasPrefix(l, "Delta,") {
				in, seen = true, true
			} else if in && !strings.HasPrefix(l, ",") {
				in = false
			}
			if !in {
				continue
			}
			f := strings.Split(l, ",")
			// columns: name, [comm], numbers…; a commodity name never parses as a number
			for k, cell := range f[1:] {
				if cell == "" || cell == "0" {
					continue
				}
				if k == 0 && !isNumber(cell) {
					continue // the Comm column
				}
				return false, "non-zero Delta cell " + cell + " in line " + l
			}
		}
		if !seen {
			return false, "no Delta row"
		}
		return true, ""
	}
	in, seen := false, false
	for _, l := range lines {
		if strings.HasPrefix(l, "| Delta") {
			in, seen = true, true
		} else if in && strings.HasPrefix(l, "+") {
			in = false
		}
		if !in {
			continue
		}
		cells := strings.Split(strings.Trim(l, "|"), "|")
		for k, cell := range cells[1:] {
			cell = strings.TrimSpace(cell)
			if cell == "" || (k == 0 && !isNumber(cell)) {
				continue
			}
			return false, "non-blank Delta cell " + cell + " in line " + l
		}
	}
	if !seen {
		return false, "no Delta row"
	}
	return true, ""
}

func isNumber(s string) bool {
	if s == "" {
		return false
	}
	for _, ch := range s {
		if !(ch >= '0' && ch <= '9') && ch != '-' && ch != '.' && ch != ',' {
			return false
		}
	}
	return true
}

func runC01(c *Ctx) {
	n := c.N(6000, 40000)
	cases := genBalCases(c, "conservation", n, func(r *RNG) JGenOpts {
		o := JGenOpts{MaxAccounts: r.Range(2, 8), MaxDays: r.Range(1, 8), Unicode: true, BaseDay: 737000 + r.Intn(1500), SpanDays: Pick(r, []int{0, 5, 40, 100, 400, 800}), BoundaryDates: r.Chance(1, 8),
			ManyDecimals: r.Chance(1, 3), Accruals: r.Chance(1, 3), DupPrices: true, CaseVariants: true}
		if r.Chance(1, 2) {
			o.Prices, o.Valuation = true, Pick(r, []string{"CHF", "USD"})
		}
		return o
	}, BalGenOpts{Valued: true, NoFilters: true})
	bt := c.NewBatch()
	defer bt.Flush()
	c01Eval(c, bt, "conservation", cases)
	// stream "unpriced": valued reports of journals from which price declarations were withdrawn, with transactions of
	// many bookings in which bookings of an unpriced commodity stand before, between and after priced ones
	c01Eval(c, bt, "unpriced", c01GenUnpriced(c, "unpriced", c.N(1500, 12000)))
	// stream "dust": quantities of 9-20 decimal places (down to 1e-20) in deep account trees, next to ordinary amounts
	c01Eval(c, bt, "dust", c01GenDust(c, "dust", c.N(1200, 12000)))
	// stream "illformed": journals with bookings on accounts that are not open on the booking's date (never opened, closed
	// earlier, opened later), alone and among well-formed bookings, in single files and include trees
	c01Eval(c, bt, "illformed", c01GenIllformed(c, "illformed", c.N(1500, 12000)))
}

// c01Eval evaluates the property predicate on the REAL output of every case the real command accepts (whatever the
// model or the generator expect of the case) and compares the outcome with the model's.
func c01Eval(c *Ctx, bt *Batch, stream string, cases []*balCase) {
	for _, bc := range cases {
		bc := bc
		c.Evals++
		impl := bc.implOutcome()
		in := bc.Input()
		cls := "c01/" + strings.Fields(impl)[0] + "/" + flagClass(bc.F) + "/n" + bucket(len(bc.J.Dirs))
		for _, t := range bc.Tags {
			c.Tag(t)
			if strings.HasPrefix(t, "shape:") {
				cls += "/" + t
			}
		}
		c.Class(cls)
		if bc.Idx < 2 {
			c.Sample(map[string]any{"args": strings.Join(bc.F.Args(), " "), "journal": bc.Text, "stdout": bc.Stdout})
		}
		if bc.Code == 0 {
			ok, why := deltaRowsZero(bc.Stdout, bc.F.CSV)
			c.Monitor(stream, bc.Idx, "delta_row_zero", in, ok, why+"\n"+bc.Stdout+"\n"+bc.Stderr)
			c.Tag("accepted")
		} else {
			c.Tag("rejected")
		}
		bt.Add(func(model string) {
			if model == "unsupported" {
				c.Tag("model-unsupported")
				return
			}
			if !c.Compare(stream, bc.Idx, "balance", in, impl, modelOutcomeCanon(model)) {
				f := &c.Findings[len(c.Findings)-1]
				if strings.HasPrefix(model, "ok ") {
					f.Model = clip(UnHex(strings.TrimPrefix(model, "ok ")))
				}
				f.Impl = clip(bc.Stdout + "\n" + bc.Stderr)
			}
		}, "balance", bc.F.Wire(today()), bc.J.Wire())
	}
}

// c01GenUnpriced generates the cases of stream "unpriced" and runs the real `knut balance -v` on them. A journal of
// the lifecycle generator with prices gets (1) the price declarations of some commodities withdrawn before a cut day
// (or altogether), so that bookings of these commodities have no price on their date, and (2) its transactions
// regrouped (c01Regroup): the property speaks about transactions of any number of bookings, and what a command does
// with ONE booking it cannot value (reject the journal, as the unchanged code does; or skip it, value it at zero,
// drop a posting ...) shows in the Delta row only in the company of other bookings.
func c01GenUnpriced(c *Ctx, stream string, n int) []*balCase {
	dir := filepath.Join(c.WorkDir, stream)
	os.MkdirAll(dir, 0o755)
	var cases []*balCase
	for i := 0; i < n; i++ {
		if !c.Want(stream, i) {
			continue
		}
		r := c.Rng(stream, i)
		o := JGenOpts{MaxAccounts: r.Range(2, 8), MaxDays: r.Range(1, 6), Unicode: r.Chance(1, 3), BaseDay: 737000 + r.Intn(1500), SpanDays: Pick(r, []int{0, 5, 40, 100, 400}),
			ManyDecimals: r.Chance(1, 3), Accruals: r.Chance(1, 4), DupPrices: r.Chance(1, 2), CaseVariants: r.Chance(1, 2), BookOut: r.Chance(1, 4),
			Prices: true, Valuation: Pick(r, []string{"CHF", "USD"})}
		j, tags := GenJournal(r, o)
		tags = append(tags, c01Regroup(r, j, o.Valuation)...)
		f := GenBalFlags(r, j, o.Valuation, BalGenOpts{Valued: true, NoFilters: true})
		text, _ := j.Text()
		cases = append(cases, &balCase{Idx: i, J: j, Text: text, F: f, Tags: tags})
	}
	c01RunCases(c, dir, cases)
	return cases
}

// c01RunCases runs the real `knut balance` on every case.
func c01RunCases(c *Ctx, dir string, cases []*balCase) {
	parallelFor(len(cases), 16, func(k int) {
		bc := cases[k]
		path := filepath.Join(dir, fmt.Sprintf("c%d.knut", bc.Idx))
		os.WriteFile(path, []byte(bc.Text), 0o644)
		args := append([]string{"balance"}, bc.F.Args()...)
		args = append(args, path)
		bc.Code, bc.Stdout, bc.Stderr = runKnut(c.KnutBin, 20*time.Second, nil, args...)
		os.Remove(path)
	})
}

// c01Regroup withdraws price declarations and regroups the transactions of a generated journal; every change keeps
// the quantities of all accounts at the end of each day (assertions and closings stay true):
//   - the declarations that mention a chosen commodity are removed before a cut day (one of the journal's days, or
//     beyond its end), for one or more commodities; one journal in five keeps all its prices;
//   - consecutive transactions of one day are merged into one transaction (their bookings concatenated);
//   - a booking of quantity q is split into two (m and q-m, m a small integer, also negative);
//   - round trips (a->b and b->a, same quantity and commodity, any two open accounts, also A/L ones: positions that
//     exist only within the transaction) and bookings between open accounts outside assets/liabilities are added, in
//     commodities drawn half of the time from those without a price on the day;
//   - the bookings of a transaction are then shuffled, or those without a price moved to the front or to the end.
//
// Transactions with an @accrue annotation stay as they are. The tags tell which constellations the journal holds:
// a booking without price alone in its transaction, followed by / preceded by / between priced ones, runs of them.
func c01Regroup(r *RNG, j *Journal, val string) []string {
	tagSet := map[string]bool{}
	comSet := map[string]bool{val: true}
	var bookComs, allComs []string
	daySeen := map[int]bool{}
	var dayList []int
	for _, d := range j.Dirs {
		if !daySeen[d.Date] {
			daySeen[d.Date] = true
			dayList = append(dayList, d.Date)
		}
		for _, b := range d.Bookings {
			comSet[b.Com] = true
			if b.Com != val && !contains(bookComs, b.Com) {
				bookComs = append(bookComs, b.Com)
			}
		}
		if d.Kind == 'p' {
			comSet[d.Com], comSet[d.Target] = true, true
		}
	}
	for k := range comSet {
		allComs = append(allComs, k)
	}
	sort.Strings(allComs)
	sort.Strings(bookComs)
	sort.Ints(dayList)

	// (1) withdraw price declarations
	if len(bookComs) > 0 && !r.Chance(1, 5) {
		late := map[string]int{} // commodity -> first day on which its declarations count
		first := Pick(r, bookComs)
		for _, cm := range bookComs {
			if cm == first || r.Chance(1, 3) {
				k := r.Range(1, len(dayList))
				if k < len(dayList) {
					late[cm] = dayList[k]
				} else {
					late[cm] = 1 << 40
				}
			}
		}
		var kept []JDir
		for _, d := range j.Dirs {
			if d.Kind == 'p' {
				if cut, ok := late[d.Com]; ok && d.Date < cut {
					continue
				}
				if cut, ok := late[d.Target]; ok && d.Date < cut {
					continue
				}
			}
			kept = append(kept, d)
		}
		j.Dirs = kept
		tagSet["prices-withdrawn"] = true
	} else {
		tagSet["prices-complete"] = true
	}
	firstPrice := map[string]int{}
	for _, d := range j.Dirs {
		if d.Kind != 'p' {
			continue
		}
		for _, cm := range []string{d.Com, d.Target} {
			if v, ok := firstPrice[cm]; !ok || d.Date < v {
				firstPrice[cm] = d.Date
			}
		}
	}
	priced := func(cm string, day int) bool {
		if cm == val {
			return true
		}
		v, ok := firstPrice[cm]
		return ok && v <= day
	}

	// (2) regroup the transactions day by day
	isAL := func(a string) bool { return strings.HasPrefix(a, "Assets") || strings.HasPrefix(a, "Liabilities") }
	open := map[string]bool{}
	var openList []string // in order of opening
	amount := func() string {
		switch r.Intn(5) {
		case 0:
			return fmt.Sprintf("%d", r.Range(1, 900))
		case 1:
			return fmt.Sprintf("-%d.%02d", r.Intn(50), r.Intn(100))
		case 2:
			return "0"
		default:
			return fmt.Sprintf("%d.%02d", r.Intn(3000), r.Intn(100))
		}
	}
	extend := func(t JDir) JDir {
		bks := append([]JBook(nil), t.Bookings...)
		insert := func(b JBook) {
			at := r.Intn(len(bks) + 1)
			bks = append(bks, JBook{})
			copy(bks[at+1:], bks[at:])
			bks[at] = b
		}
		var unp []string
		for _, cm := range allComs {
			if !priced(cm, t.Date) {
				unp = append(unp, cm)
			}
		}
		pickCom := func() string {
			if len(unp) > 0 && r.Bool() {
				return Pick(r, unp)
			}
			return Pick(r, allComs)
		}
		var live, liveOther []string
		for _, a := range openList {
			if open[a] {
				live = append(live, a)
				if !isAL(a) {
					liveOther = append(liveOther, a)
				}
			}
		}
		for k := r.Intn(4); k > 0; k-- {
			switch r.Intn(3) {
			case 0: // split a booking
				if len(bks) == 0 {
					continue
				}
				i := r.Intn(len(bks))
				q, err := decimal.NewFromString(bks[i].Qty)
				if err != nil {
					continue
				}
				m := decimal.New(int64(Pick(r, []int{-3, -1, 1, 2, 7})), 0)
				b := bks[i]
				bks[i].Qty = q.Sub(m).String()
				b.Qty = m.String()
				insert(b)
				tagSet["booking-split"] = true
			case 1: // round trip between two open accounts
				if len(live) < 2 {
					continue
				}
				a := Pick(r, live)
				b := Pick(r, live)
				if a == b {
					b = live[(indexOf(live, a)+1)%len(live)]
				}
				q, cm := amount(), pickCom()
				insert(JBook{a, b, q, cm})
				if r.Bool() {
					insert(JBook{b, a, q, cm})
				} else {
					qd, _ := decimal.NewFromString(q)
					insert(JBook{a, b, qd.Neg().String(), cm})
				}
				tagSet["round-trip"] = true
			case 2: // a booking outside assets and liabilities
				if len(liveOther) == 0 {
					continue
				}
				a := Pick(r, liveOther)
				b := Pick(r, liveOther)
				if a == b && r.Chance(9, 10) {
					b = liveOther[(indexOf(liveOther, a)+1)%len(liveOther)]
				}
				insert(JBook{a, b, amount(), pickCom()})
				tagSet["extra-booking"] = true
			}
		}
		isUnp := func(b JBook) bool { return !priced(b.Com, t.Date) }
		switch r.Intn(5) {
		case 0: // as they are
		case 1, 2:
			for i := len(bks) - 1; i > 0; i-- {
				k := r.Intn(i + 1)
				bks[i], bks[k] = bks[k], bks[i]
			}
		case 3: // unpriced bookings first
			sort.SliceStable(bks, func(x, y int) bool { return isUnp(bks[x]) && !isUnp(bks[y]) })
		case 4: // unpriced bookings last
			sort.SliceStable(bks, func(x, y int) bool { return !isUnp(bks[x]) && isUnp(bks[y]) })
		}
		t.Bookings = bks
		return t
	}
	var out []JDir
	for i := 0; i < len(j.Dirs); {
		d := j.Dirs[i]
		switch d.Kind {
		case 'o':
			if !open[d.Account] {
				open[d.Account] = true
				if !contains(openList, d.Account) {
					openList = append(openList, d.Account)
				}
			}
		case 'c':
			open[d.Account] = false
		}
		if d.Kind != 't' || d.Accrual != nil {
			out = append(out, d)
			i++
			continue
		}
		k := i
		for k < len(j.Dirs) && j.Dirs[k].Kind == 't' && j.Dirs[k].Accrual == nil && j.Dirs[k].Date == d.Date {
			k++
		}
		run := j.Dirs[i:k]
		i = k
		if r.Chance(1, 5) {
			out = append(out, run...)
			continue
		}
		g := run[0]
		for _, t := range run[1:] {
			if r.Chance(2, 3) {
				g.Bookings = append(append([]JBook(nil), g.Bookings...), t.Bookings...)
				tagSet["transactions-merged"] = true
			} else {
				out = append(out, extend(g))
				g = t
			}
		}
		out = append(out, extend(g))
	}
	j.Dirs = out

	// the constellations of the result; shape = that of the first transaction with an unpriced non-zero booking
	shape := ""
	for _, d := range j.Dirs {
		if d.Kind != 't' {
			continue
		}
		var u []bool // per non-zero booking: unpriced?
		any := false
		for _, b := range d.Bookings {
			q, err := decimal.NewFromString(b.Qty)
			if err != nil || q.IsZero() {
				continue
			}
			u = append(u, !priced(b.Com, d.Date))
			any = any || !priced(b.Com, d.Date)
		}
		if !any {
			continue
		}
		var ts []string
		if len(u) == 1 {
			ts = append(ts, "alone")
		}
		for i := range u {
			if !u[i] {
				continue
			}
			if i+1 < len(u) && !u[i+1] {
				ts = append(ts, "then-priced")
			}
			if i > 0 && !u[i-1] {
				ts = append(ts, "after-priced")
			}
			if i+1 < len(u) && u[i+1] {
				ts = append(ts, "run")
			}
			if i > 0 && i+1 < len(u) && !u[i-1] && !u[i+1] {
				ts = append(ts, "between-priced")
			}
			if i == len(u)-1 && len(u) > 1 {
				ts = append(ts, "last")
			}
			if i == 0 && len(u) > 1 {
				ts = append(ts, "first")
			}
		}
		if d.Accrual != nil {
			ts = append(ts, "accrual")
		}
		for _, t := range ts {
			tagSet["unpriced-"+t] = true
		}
		if shape == "" {
			// position of the first unpriced booking among the non-zero bookings of the transaction
			i, n, after := 0, len(u), false
			for !u[i] {
				i++
			}
			for _, x := range u[i+1:] {
				after = after || !x
			}
			switch {
			case n == 1:
				shape = "shape:alone"
			case i == 0 && !after:
				shape = "shape:all-unpriced"
			case i == n-1:
				shape = "shape:last"
			case !after:
				shape = "shape:tail-run"
			case i == 0:
				shape = "shape:first-then-priced"
			default:
				shape = "shape:middle-then-priced"
			}
			if d.Accrual != nil {
				shape += "+accrual"
			}
			if len(d.Bookings) >= 5 {
				tagSet["unpriced-in-5+-bookings"] = true
			}
		}
	}
	if shape == "" {
		shape = "shape:all-priced"
	}
	tagSet[shape] = true
	var tags []string
	for t := range tagSet {
		tags = append(tags, t)
	}
	sort.Strings(tags)
	return tags
}

// ---------------------------------------------------------------- stream dust: quantities far below 1e-8
//
// The other streams write quantities of at most ~8 decimal places. The property speaks about every quantity the parser
// accepts: the Delta row is zero because debits and credits are the SAME exact decimal, however small. Here small journals
// over deep account trees (accounts with and without own bookings above sub-accounts, in all five account types) carry
// quantities of 9-20 decimal places down to 1e-20 (c01DustLiteral; the sizes around every power of ten from 1e-6 to
// 1e-20, and the literals of C02's stream magnitude, c02MagLiteral): single dust bookings into deep sub-accounts, dust next
// to ordinary amounts in the same commodity, dust that sums to zero only across accounts (also across days), ordinary
// amounts with a dust tail; unvalued, valued in the same commodity (value = quantity) and in another one (values are
// truncated to 8 decimals: dust has value 0), all period flags, --diff, --close=false.
// (Seeded change C01-l made Amounts.SumIntoBy delete sums below 1e-8 instead of zero sums - applied to the RUNNING
// total of Report.Totals, on one side of the report only.)

// c01DustLiteral draws a quantity literal and its class.
func c01DustLiteral(r *RNG) (string, string) {
	neg := func(s string) string {
		if r.Chance(1, 3) {
			return "-" + s
		}
		return s
	}
	switch r.Intn(10) {
	case 0, 1: // ordinary
		return Pick(r, []string{fmt.Sprintf("%d.%02d", r.Intn(2000), r.Intn(100)), fmt.Sprintf("%d", r.Range(1, 5000)), fmt.Sprintf("-%d.%d", r.Intn(500), r.Intn(10)), "1", "2"}), "ordinary"
	case 2: // the literals of C02's stream magnitude (huge, tiny, boundaries)
		q, _ := c02MagLiteral(r)
		return q, "magnitude"
	case 3: // an ordinary amount with a dust tail
		return neg(fmt.Sprintf("%d.%02d", r.Intn(300), r.Intn(100)) + strings.Repeat("0", r.Range(6, 17)) + fmt.Sprintf("%d", r.Range(1, 9))), "tail"
	case 4: // at and around a power of ten: 1e-k, 1e-k - 1e-(k+j), 1e-k + 1e-(k+j)
		k := Pick(r, []int{6, 7, 8, 8, 8, 9, 9, 10, 12, 16, 18, 20})
		one := "0." + strings.Repeat("0", k-1)
		switch r.Intn(3) {
		case 0:
			return neg(one + "1"), fmt.Sprintf("pow%d", k)
		case 1:
			return neg("0." + strings.Repeat("0", k) + strings.Repeat("9", r.Range(1, 6))), fmt.Sprintf("pow%d-", k)
		}
		return neg(one + "1" + strings.Repeat("0", r.Intn(5)) + "1"), fmt.Sprintf("pow%d+", k)
	}
	// dust: 9-20 decimal places
	z := r.Range(8, 19)
	ds := fmt.Sprintf("%d", r.Range(1, 9))
	if z < 19 && r.Bool() {
		ds = fmt.Sprintf("%d", r.Range(1, 99))
	}
	return neg("0." + strings.Repeat("0", z) + ds), fmt.Sprintf("dust%d", (z+len(ds))/4*4)
}

func c01GenDustJournal(r *RNG) (*Journal, string, []string) {
	tagSet := map[string]bool{}
	segs := []string{"Bank", "Cash", "Wallet", "Cold", "Main", "Sub", "X", "Y", "Salary", "Rent", "Fees", "Épargne"}
	// the account tree: chains below existing accounts are frequent (parents with and without own bookings)
	accounts := []string{"Assets:" + Pick(r, segs), "Equity:" + Pick(r, []string{"Equity", "Equity", "Opening"})}
	seen := map[string]bool{accounts[0]: true, accounts[1]: true}
	for nacc, tries := r.Range(3, 9), 0; len(accounts) < nacc && tries < 50; tries++ {
		a := Pick(r, typeNames) + ":" + Pick(r, segs)
		if r.Chance(1, 2) {
			a = Pick(r, accounts)
		}
		for k := Pick(r, []int{0, 1, 1, 1, 2, 3}); k > 0; k-- {
			a += ":" + Pick(r, segs)
		}
		if !seen[a] {
			seen[a] = true
			accounts = append(accounts, a)
		}
	}
	depth := func(a string) int { return strings.Count(a, ":") }
	var deep []string
	for _, a := range accounts {
		if depth(a) >= 2 {
			deep = append(deep, a)
		}
	}
	if len(deep) == 0 {
		deep = accounts
	}
	coms := []string{Pick(r, []string{"ETH", "CHF", "BTC"})}
	for _, cm := range []string{"USD", "WEI", "chf"} {
		if r.Chance(1, 4) {
			coms = append(coms, cm)
		}
	}
	main := coms[0]
	// valuation: none, in a commodity of the journal (value = quantity for it), in another one
	val := ""
	switch r.Intn(4) {
	case 0:
		val = Pick(r, coms)
		tagSet["val-same"] = true
	case 1:
		val = "EUR"
		tagSet["val-other"] = true
	default:
		tagSet["val-none"] = true
	}
	base := 737000 + r.Intn(1500)
	span := Pick(r, []int{0, 5, 40, 100, 400})
	daySet := map[int]bool{}
	for k := r.Range(1, 6); k > 0; k-- {
		daySet[base+r.Intn(span+1)] = true
	}
	var days []int
	for d := range daySet {
		days = append(days, d)
	}
	sortInts(days)
	j := &Journal{}
	openDay := days[0] - Pick(r, []int{0, 0, 1, 400})
	for _, a := range accounts {
		j.Dirs = append(j.Dirs, JDir{Kind: 'o', Date: openDay, Account: a})
	}
	price := func() string {
		return Pick(r, []string{"2000", "2500.5", "0.95", "1", fmt.Sprintf("%d.%02d", r.Range(1, 90000), r.Intn(100)), "0.00001234", "0.000000012345", "100000000"})
	}
	if val != "" {
		for _, cm := range coms {
			if cm != val {
				j.Dirs = append(j.Dirs, JDir{Kind: 'p', Date: openDay, Com: cm, Price: price(), Target: val})
			}
		}
	}
	other := func(a string) string {
		b := Pick(r, accounts)
		if b == a {
			b = accounts[(indexOf(accounts, a)+1)%len(accounts)]
		}
		return b
	}
	dust := func() string {
		for {
			if q, cl := c01DustLiteral(r); strings.HasPrefix(cl, "dust") || strings.HasPrefix(cl, "pow") {
				tagSet["qty:"+cl] = true
				return q
			}
		}
	}
	scenario := Pick(r, []string{"single-deep", "single-deep", "pair-across", "pair-across-days", "mixed", "mixed", "dust-only", "split"})
	tagSet["shape:dust-"+scenario] = true
	at := r.Intn(len(days)) // the day of the scenario's bookings
	var late []JDir
	for di, day := range days {
		if val != "" && di > 0 && r.Chance(1, 3) {
			for _, cm := range coms {
				if cm != val && r.Bool() {
					j.Dirs = append(j.Dirs, JDir{Kind: 'p', Date: day, Com: cm, Price: price(), Target: val})
				}
			}
		}
		var ts []JDir
		nt := r.Range(0, 3)
		if scenario == "dust-only" && nt == 0 {
			nt = 1
		}
		for k := nt; k > 0; k-- {
			t := JDir{Kind: 't', Date: day, Desc: Pick(r, []string{"t", "transfer", "sweep", "fee"})}
			for b := Pick(r, []int{1, 1, 1, 2, 3}); b > 0; b-- {
				cr := Pick(r, accounts)
				q, cl := c01DustLiteral(r)
				if scenario == "dust-only" {
					q, cl = dust(), "dust"
				} else if scenario != "mixed" && r.Chance(2, 3) { // the scenario's dust among ordinary amounts only
					q, cl = Pick(r, []string{fmt.Sprintf("%d", r.Range(1, 900)), fmt.Sprintf("%d.%02d", r.Intn(3000), r.Intn(100))}), "ordinary"
				}
				tagSet["qty:"+cl] = true
				cm := main
				if r.Chance(1, 4) {
					cm = Pick(r, coms)
				}
				t.Bookings = append(t.Bookings, JBook{cr, other(cr), q, cm})
			}
			ts = append(ts, t)
		}
		if di == at {
			t := JDir{Kind: 't', Date: day, Desc: "dust"}
			a := Pick(r, deep)
			src := other(a)
			switch scenario {
			case "single-deep": // one dust booking into a deep sub-account
				t.Bookings = append(t.Bookings, JBook{src, a, dust(), main})
			case "pair-across", "pair-across-days": // +d into one account, -d into another: zero only across accounts
				b := Pick(r, deep)
				if b == a {
					b = other(a)
				}
				d := dust()
				t.Bookings = append(t.Bookings, JBook{src, a, d, main})
				t2 := t
				t2.Bookings = []JBook{{b, Pick(r, []string{src, src, other(b)}), d, main}}
				if scenario == "pair-across-days" {
					t2.Date = days[r.Intn(len(days)-at)+at]
				}
				if t2.Date == day && r.Bool() {
					t.Bookings = append(t.Bookings, t2.Bookings...)
				} else if t2.Date == day {
					ts = append(ts, t2)
				} else {
					late = append(late, t2) // a later day
				}
			case "split": // an ordinary amount leaves as amount - d and d, to a parent and one of its sub-accounts
				d := dust()
				dd, _ := decimal.NewFromString(d)
				q := decimal.New(int64(r.Range(1, 500)), int32(-r.Intn(3)))
				parent := a[:strings.LastIndex(a, ":")]
				if !seen[parent] || depth(parent) < 1 {
					parent = other(a)
				}
				t.Bookings = append(t.Bookings, JBook{src, parent, q.Sub(dd).String(), main}, JBook{src, a, d, main})
			default: // mixed, dust-only: one more dust booking anywhere
				t.Bookings = append(t.Bookings, JBook{src, Pick(r, accounts), dust(), Pick(r, coms)})
				if t.Bookings[0].Credit == t.Bookings[0].Debit {
					t.Bookings[0].Debit = other(src)
				}
			}
			ts = append(ts, JDir{})
			k := r.Intn(len(ts))
			copy(ts[k+1:], ts[k:])
			ts[k] = t
		}
		j.Dirs = append(j.Dirs, ts...)
	}
	j.Dirs = append(j.Dirs, late...)
	sort.SliceStable(j.Dirs, func(x, y int) bool { return j.Dirs[x].Date < j.Dirs[y].Date })
	var tags []string
	for t := range tagSet {
		tags = append(tags, t)
	}
	sort.Strings(tags)
	return j, val, tags
}

// c01GenDust generates the cases of stream "dust" and runs the real `knut balance` on them.
func c01GenDust(c *Ctx, stream string, n int) []*balCase {
	dir := filepath.Join(c.WorkDir, stream)
	os.MkdirAll(dir, 0o755)
	var cases []*balCase
	for i := 0; i < n; i++ {
		if !c.Want(stream, i) {
			continue
		}
		r := c.Rng(stream, i)
		j, val, tags := c01GenDustJournal(r)
		f := GenBalFlags(r, j, val, BalGenOpts{Valued: true, NoFilters: true})
		if !f.CSV && r.Chance(1, 2) {
			f.Digits = Pick(r, []int{8, 9, 12, 20}) // show the decimals the journal carries
		}
		text, _ := j.Text()
		cases = append(cases, &balCase{Idx: i, J: j, Text: text, F: f, Tags: tags})
	}
	c01RunCases(c, dir, cases)
	return cases
}

// ---------------------------------------------------------------- stream illformed: bookings on accounts that are not open
//
// The other streams feed journals the checker accepts (or rejects for a missing price). The property says: WHENEVER the
// command prints a report, its Delta row is zero - also when the journal is ill-formed and the command, for whatever
// reason, goes on. Here journals of the lifecycle generator get 1-4 bookings on an account that is not open on the
// booking's date: an account that is never opened (any of the five types, also a child / the parent of an open account),
// one that was closed on an earlier day, one that is opened on a later day; the account stands on the credit side, the
// debit side or both; the booking is inserted as first / middle / last booking of an existing transaction, replaces a side
// of an existing booking, or forms a transaction of its own (on a day of the journal, or after everything); quantities are
// positive, negative, zero; in a quarter of the journals an open directive moves to a later day (the bookings in between
// stand before the open) or is left out; the journal is written as one file or as an include tree (the offending transaction in the
// root or in an included file). One journal in ten stays well-formed. The unchanged tree rejects every ill-formed journal
// (exit 1, no report), which satisfies the predicate trivially; the model's verdict is compared as in the other streams.
// (Seeded change C01-m made `knut balance` drop such bookings with a warning - and left one posting of the pair behind.)

func c01Illform(r *RNG, j *Journal) []string {
	tagSet := map[string]bool{}
	// life of every account: days on which it is open for transactions (open on or before the day, no close before the day)
	type span struct{ from, to int } // open for transactions on days from..to
	life := map[string][]span{}
	var accounts, coms []string
	lastDay := 0
	if r.Chance(1, 4) {
		// an open directive moves to a later day (the bookings in between stand before the open), or is left out
		var opens []int
		for i, d := range j.Dirs {
			if d.Kind == 'o' {
				opens = append(opens, i)
			}
		}
		if len(opens) > 0 {
			i := Pick(r, opens)
			if r.Chance(1, 3) {
				j.Dirs = append(j.Dirs[:i:i], j.Dirs[i+1:]...)
				tagSet["ill:open-dropped"] = true
			} else {
				d := j.Dirs[i]
				to := j.Dirs[r.Intn(len(j.Dirs))].Date
				if to <= d.Date {
					to = j.Dirs[len(j.Dirs)-1].Date + r.Intn(2)
				}
				if to > d.Date {
					d.Date = to
					j.Dirs = append(append(j.Dirs[:i:i], j.Dirs[i+1:]...), d)
					tagSet["ill:open-delayed"] = true
				}
			}
		}
	}
	for _, d := range j.Dirs {
		if d.Date > lastDay {
			lastDay = d.Date
		}
		switch d.Kind {
		case 'o':
			if !contains(accounts, d.Account) {
				accounts = append(accounts, d.Account)
			}
			life[d.Account] = append(life[d.Account], span{d.Date, 1 << 40})
		case 'c':
			if l := life[d.Account]; len(l) > 0 {
				l[len(l)-1].to = d.Date
			}
		case 't':
			for _, b := range d.Bookings {
				if !contains(coms, b.Com) {
					coms = append(coms, b.Com)
				}
			}
		}
	}
	if len(coms) == 0 {
		coms = []string{"CHF"}
	}
	isOpen := func(a string, day int) bool {
		for _, s := range life[a] {
			if s.from <= day && day <= s.to {
				return true
			}
		}
		return false
	}
	if len(accounts) == 0 || (len(tagSet) == 0 && r.Chance(1, 10)) {
		return []string{"shape:well-formed"}
	}
	ghost := func() (string, string) {
		segs := []string{"Bonus", "Ghost", "Bank", "Misc", "X", "Épargne"}
		switch r.Intn(4) {
		case 0: // child of an opened account
			return Pick(r, accounts) + ":" + Pick(r, segs), "never-opened-child"
		case 1: // parent of an opened account
			a := Pick(r, accounts)
			if k := strings.LastIndex(a, ":"); strings.Count(a, ":") >= 2 {
				if p := a[:k]; !contains(accounts, p) {
					return p, "never-opened-parent"
				}
			}
		}
		for {
			a := Pick(r, typeNames) + ":" + Pick(r, segs)
			if r.Chance(1, 3) {
				a += ":" + Pick(r, segs)
			}
			if !contains(accounts, a) {
				return a, "never-opened"
			}
		}
	}
	// an account that is not open on the day, and why
	offender := func(day int) (string, string) {
		var closed, later []string
		for _, a := range accounts {
			if isOpen(a, day) {
				continue
			}
			if life[a][0].from > day {
				later = append(later, a)
			} else {
				closed = append(closed, a)
			}
		}
		switch k := r.Intn(4); {
		case k == 0 && len(closed) > 0:
			return Pick(r, closed), "after-close"
		case k == 1 && len(later) > 0:
			return Pick(r, later), "before-open"
		case k == 2 && len(closed)+len(later) > 0:
			if len(closed) > 0 {
				return Pick(r, closed), "after-close"
			}
			return Pick(r, later), "before-open"
		}
		return ghost()
	}
	live := func(day int) []string {
		var res []string
		for _, a := range accounts {
			if isOpen(a, day) {
				res = append(res, a)
			}
		}
		return res
	}
	qty := func() string {
		switch r.Intn(8) {
		case 0:
			return "0"
		case 1, 2:
			return fmt.Sprintf("-%d.%02d", r.Intn(500), r.Intn(100))
		case 3:
			return fmt.Sprintf("%d", r.Range(1, 5000))
		}
		return fmt.Sprintf("%d.%02d", r.Intn(3000), r.Intn(100))
	}
	// the offending booking of a day: the side(s) of the account that is not open
	booking := func(day int) (JBook, bool) {
		lv := live(day)
		bad, why := offender(day)
		side := Pick(r, []string{"credit", "credit", "debit", "debit", "both"})
		if len(lv) == 0 {
			side = "both"
		}
		b := JBook{Qty: qty(), Com: Pick(r, coms)}
		switch side {
		case "credit":
			b.Credit, b.Debit = bad, Pick(r, lv)
		case "debit":
			b.Credit, b.Debit = Pick(r, lv), bad
		default:
			bad2, _ := offender(day)
			if bad2 == bad {
				bad2, _ = ghost()
			}
			if bad2 == bad {
				return b, false
			}
			b.Credit, b.Debit = bad, bad2
		}
		tagSet["ill:"+why] = true
		tagSet["ill:side-"+side] = true
		if strings.HasPrefix(b.Qty, "-") {
			tagSet["ill:negative"] = true
		} else if b.Qty == "0" {
			tagSet["ill:zero"] = true
		}
		return b, true
	}
	var txs []int
	for i, d := range j.Dirs {
		if d.Kind == 't' && d.Accrual == nil {
			txs = append(txs, i)
		}
	}
	shape := ""
	n := Pick(r, []int{1, 1, 1, 2, 3, 4})
	if len(tagSet) > 0 && r.Bool() {
		n, shape = 0, "open-moved" // the moved open only
	}
	for k := 0; k < n; k++ {
		how := r.Intn(6)
		if len(txs) == 0 && how < 4 {
			how = 4 + r.Intn(2)
		}
		sh := ""
		switch how {
		case 0, 1, 2: // a further booking in an existing transaction: first, middle, last
			i := Pick(r, txs)
			if k == 0 && r.Chance(1, 3) {
				i = txs[len(txs)-1] // late in the file
			}
			b, ok := booking(j.Dirs[i].Date)
			if !ok {
				continue
			}
			bks := append([]JBook(nil), j.Dirs[i].Bookings...)
			at := r.Intn(len(bks) + 1)
			bks = append(bks, JBook{})
			copy(bks[at+1:], bks[at:])
			bks[at] = b
			j.Dirs[i].Bookings = bks
			switch {
			case len(bks) == 1:
				sh = "alone"
			case at == 0:
				sh = "first"
			case at == len(bks)-1:
				sh = "last"
			default:
				sh = "middle"
			}
		case 3: // one side of an existing booking moves to the account that is not open
			i := Pick(r, txs)
			if len(j.Dirs[i].Bookings) == 0 {
				continue
			}
			bad, why := offender(j.Dirs[i].Date)
			bks := append([]JBook(nil), j.Dirs[i].Bookings...)
			at := r.Intn(len(bks))
			if r.Bool() {
				bks[at].Credit = bad
				tagSet["ill:side-credit"] = true
			} else {
				bks[at].Debit = bad
				tagSet["ill:side-debit"] = true
			}
			tagSet["ill:"+why] = true
			j.Dirs[i].Bookings = bks
			sh = "replaced"
		case 4: // a transaction of its own on a day of the journal
			day := j.Dirs[r.Intn(len(j.Dirs))].Date
			b, ok := booking(day)
			if !ok {
				continue
			}
			t := JDir{Kind: 't', Date: day, Desc: Pick(r, []string{"bonus", "transfer", "x"}), Bookings: []JBook{b}}
			at := len(j.Dirs)
			for at > 0 && j.Dirs[at-1].Date > day {
				at--
			}
			j.Dirs = append(j.Dirs, JDir{})
			copy(j.Dirs[at+1:], j.Dirs[at:])
			j.Dirs[at] = t
			for x := range txs {
				if txs[x] >= at {
					txs[x]++
				}
			}
			sh = "own-transaction"
		case 5: // after everything
			day := lastDay + r.Intn(3)
			b, ok := booking(day)
			if !ok {
				continue
			}
			t := JDir{Kind: 't', Date: day, Desc: "late", Bookings: []JBook{b}}
			if lv := live(day); len(lv) >= 2 && r.Bool() { // in the company of a well-formed booking
				w := JBook{lv[0], lv[1], qty(), Pick(r, coms)}
				if r.Bool() {
					t.Bookings = []JBook{w, b}
				} else {
					t.Bookings = []JBook{b, w}
				}
			}
			if day > lastDay {
				lastDay = day
			}
			j.Dirs = append(j.Dirs, t)
			sh = "late-transaction"
		}
		if shape == "" {
			shape = sh
		}
		tagSet["ill:"+sh] = true
	}
	if shape == "" {
		shape = "well-formed"
	}
	if n > 1 {
		tagSet["ill:several"] = true
	}
	tagSet["shape:ill-"+shape] = true
	var tags []string
	for t := range tagSet {
		tags = append(tags, t)
	}
	sort.Strings(tags)
	return tags
}

// c01IncludeTree distributes the directives of a journal over a root file and 1-3 included files (chain or star, one of
// them in a sub-directory); the returned map holds the files by relative path, the root is "main.knut".
func c01IncludeTree(r *RNG, j *Journal) map[string]string {
	nf := r.Range(2, 4)
	path := []string{"main.knut"}
	parent := []int{-1}
	for f := 1; f < nf; f++ {
		p := 0
		if r.Bool() {
			p = r.Intn(f)
		}
		name := fmt.Sprintf("inc%d.knut", f)
		if r.Chance(1, 3) {
			name = "sub/" + name
		}
		// included paths are relative to the including file: keep sub/ files' children next to them
		if strings.HasPrefix(path[p], "sub/") && !strings.HasPrefix(name, "sub/") {
			name = "sub/" + name
		}
		path = append(path, name)
		parent = append(parent, p)
	}
	body := make([]strings.Builder, nf)
	for f := 1; f < nf; f++ {
		rel := path[f]
		if strings.HasPrefix(path[parent[f]], "sub/") {
			rel = strings.TrimPrefix(rel, "sub/")
		}
		fmt.Fprintf(&body[parent[f]], "include \"%s\"\n\n", rel)
	}
	// runs of directives go to one file; the last transactions often go to an included file
	cur := r.Intn(nf)
	for _, d := range j.Dirs {
		if r.Chance(1, 3) {
			cur = r.Intn(nf)
		}
		body[cur].WriteString(d.Text())
		body[cur].WriteString("\n")
	}
	files := map[string]string{}
	for f := range path {
		files[path[f]] = body[f].String()
	}
	return files
}

// c01GenIllformed generates the cases of stream "illformed" and runs the real `knut balance` on them.
func c01GenIllformed(c *Ctx, stream string, n int) []*balCase {
	dir := filepath.Join(c.WorkDir, stream)
	os.MkdirAll(dir, 0o755)
	var cases []*balCase
	trees := map[int]map[string]string{}
	for i := 0; i < n; i++ {
		if !c.Want(stream, i) {
			continue
		}
		r := c.Rng(stream, i)
		inc := r.Chance(1, 3)
		o := JGenOpts{MaxAccounts: r.Range(2, 8), MaxDays: r.Range(1, 8), Unicode: r.Chance(1, 3), BaseDay: 737000 + r.Intn(1500), SpanDays: Pick(r, []int{0, 5, 40, 100, 400, 800}),
			ManyDecimals: r.Chance(1, 3), Accruals: r.Chance(1, 4), DupPrices: r.Chance(1, 2), CaseVariants: r.Chance(1, 2), BookOut: r.Chance(1, 2)}
		if inc {
			// the directives of one day reach the pipeline in an order that depends on the tree (and on the scheduling of the
			// parsers): no pair is declared twice on one day, nothing else in a report depends on the order within a day
			o.DupPrices = false
		}
		if r.Chance(1, 2) {
			o.Prices, o.Valuation = true, Pick(r, []string{"CHF", "USD"})
		}
		j, tags := GenJournal(r, o)
		tags = append(tags, c01Illform(r, j)...)
		f := GenBalFlags(r, j, o.Valuation, BalGenOpts{Valued: true, NoFilters: true})
		text, _ := j.Text()
		if inc {
			tree := c01IncludeTree(r, j)
			trees[i] = tree
			var names []string
			for name := range tree {
				names = append(names, name)
			}
			sort.Strings(names)
			var b strings.Builder
			for _, name := range names {
				fmt.Fprintf(&b, "# ---- file %s\n%s", name, tree[name])
			}
			text = b.String()
			tags = append(tags, "include-tree")
		}
		cases = append(cases, &balCase{Idx: i, J: j, Text: text, F: f, Tags: tags})
	}
	parallelFor(len(cases), 16, func(k int) {
		bc := cases[k]
		tree, ok := trees[bc.Idx]
		if !ok {
			tree = map[string]string{"main.knut": bc.Text}
		}
		root := filepath.Join(dir, fmt.Sprintf("c%d", bc.Idx))
		for name, content := range tree {
			p := filepath.Join(root, name)
			os.MkdirAll(filepath.Dir(p), 0o755)
			os.WriteFile(p, []byte(content), 0o644)
		}
		args := append([]string{"balance"}, bc.F.Args()...)
		args = append(args, filepath.Join(root, "main.knut"))
		bc.Code, bc.Stdout, bc.Stderr = runKnut(c.KnutBin, 20*time.Second, nil, args...)
		os.RemoveAll(root)
	})
	return cases
}
