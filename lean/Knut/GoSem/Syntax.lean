import Knut.GoSem.Basic
import Knut.Basic.Utf8
import Knut.Syntax.CharClass
/-!
# Meaning of the Go primitives used by the translated SYNTAX layer (`harness/trans_syntax*.go`)

The scanner and the parser of knut work on arbitrary byte strings.  In the translation of `lib/syntax/scanner`,
`lib/syntax/parser` and `lib/syntax/directives`

* a Go `string` is its **byte sequence** (`GoString = List UInt8`): `len(s)` and `s[lo:hi]` are `GoSem.len` and
  `GoSem.slice` on that list, a string constant is `lit "…"` (the UTF-8 bytes of the constant);
* a `rune` is an `Int` (Go's `int32`, unbounded here: runes are compared and tested, never computed with);
  `scanner.EOF = rune(-1)` is `-1`;
* `utf8.DecodeRuneInString` is `Knut.Utf8.decodeRune` (the model of exactly that function, compared with Go on its own
  stream of C07), `for _, ch := range s` walks the successive results of it;
* `unicode.IsLetter` / `unicode.IsDigit` are the range tables regenerated from the Go toolchain (`Generated/Unicode.lean`);
* `fmt.Sprintf` with `%s %c %d %q` builds bytes; `%q` has a meaning here for plain printable ASCII without `"` and `\` only
  (all the parser ever quotes) — anything else is the distinct outcome `panic "outside the model …"`, which the agreement
  theorems exclude;
* a struct field of function type without results (`Parser.Callback`) is a `Proc`: only its being `nil` or not is kept, and a
  call of it is **no step** of the translated function (the callee has no result and no access to the parser's state).
-/
namespace Knut.GoSem.Syn
open Knut.Utf8

/-- a Go `string`: bytes -/
abbrev GoString := List UInt8

/-- UTF-8 encoding of a scalar value, arithmetically; everything that is not a scalar value (surrogates, `> 0x10FFFF`) is
encoded as U+FFFD, as `utf8.AppendRune` does.  `decode_encode` below ties it to `decodeRune`. -/
def encodeRune (r : Nat) : List UInt8 :=
  if r < 0x80 then [UInt8.ofNat r]
  else if r < 0x800 then [UInt8.ofNat (0xC0 + r / 64), UInt8.ofNat (0x80 + r % 64)]
  else if 0xD800 ≤ r ∧ r < 0xE000 then [0xEF, 0xBF, 0xBD]
  else if r < 0x10000 then
    [UInt8.ofNat (0xE0 + r / 4096), UInt8.ofNat (0x80 + r / 64 % 64), UInt8.ofNat (0x80 + r % 64)]
  else if r < 0x110000 then
    [UInt8.ofNat (0xF0 + r / 262144), UInt8.ofNat (0x80 + r / 4096 % 64), UInt8.ofNat (0x80 + r / 64 % 64),
      UInt8.ofNat (0x80 + r % 64)]
  else [0xEF, 0xBF, 0xBD]

/-- a Go string constant (valid UTF-8 in the source): its bytes -/
def lit (s : String) : GoString := s.toList.flatMap (fun c => encodeRune c.toNat)

/-- Unicode scalar values -/
def validRune (r : Nat) : Prop := r < 0xD800 ∨ (0xE000 ≤ r ∧ r < 0x110000)

theorem toNat_ofNat_lt {n : Nat} (h : n < 256) : (UInt8.ofNat n).toNat = n := by
  simp [UInt8.toNat_ofNat']; omega

/-- `encodeRune` is the inverse of Go's decoder on scalar values, whatever follows: this pins it to UTF-8 -/
theorem decode_encode (r : Nat) (h : validRune r) (rest : List UInt8) :
    decodeRune (encodeRune r ++ rest) = ⟨r, encodeRune r⟩ := by
  unfold validRune at h
  unfold encodeRune
  by_cases h1 : r < 0x80
  · have e0 := toNat_ofNat_lt (n := r) (by omega)
    simp [h1, decodeRune, e0]
  by_cases h2 : r < 0x800
  · have e0 := toNat_ofNat_lt (n := 0xC0 + r / 64) (by omega)
    have e1 := toNat_ofNat_lt (n := 0x80 + r % 64) (by omega)
    simp only [h1, h2, if_false, if_true, List.cons_append, List.nil_append, decodeRune, e0, e1, isCont]
    have c1 : ¬ (0xC0 + r / 64 < 0x80) := by omega
    have c2 : ¬ (0xC0 + r / 64 < 0xC2) := by omega
    have c3 : (0xC0 + r / 64 < 0xE0) := by omega
    simp [c1, c2, c3]
    rw [if_pos (by omega)]; congr 1; omega
  by_cases h3 : 0xD800 ≤ r ∧ r < 0xE000
  · omega
  by_cases h4 : r < 0x10000
  · have e0 := toNat_ofNat_lt (n := 0xE0 + r / 4096) (by omega)
    have e1 := toNat_ofNat_lt (n := 0x80 + r / 64 % 64) (by omega)
    have e2 := toNat_ofNat_lt (n := 0x80 + r % 64) (by omega)
    simp only [h1, h2, h3, h4, if_false, if_true, List.cons_append, List.nil_append, decodeRune, e0, e1, e2, isCont, accept3]
    have c1 : ¬ (0xE0 + r / 4096 < 0x80) := by omega
    have c2 : ¬ (0xE0 + r / 4096 < 0xC2) := by omega
    have c3 : ¬ (0xE0 + r / 4096 < 0xE0) := by omega
    have c4 : (0xE0 + r / 4096 < 0xF0) := by omega
    simp only [c1, c2, c3, c4, if_false, if_true]
    have a2 : 0x80 + r / 64 % 64 ≤ (if 0xE0 + r / 4096 = 0xED then 0x9F else 0xBF) := by split <;> omega
    simp [a2]
    rw [if_pos (by split <;> omega), if_pos (by omega)]; congr 1; omega
  by_cases h5 : r < 0x110000
  · have e0 := toNat_ofNat_lt (n := 0xF0 + r / 262144) (by omega)
    have e1 := toNat_ofNat_lt (n := 0x80 + r / 4096 % 64) (by omega)
    have e2 := toNat_ofNat_lt (n := 0x80 + r / 64 % 64) (by omega)
    have e3 := toNat_ofNat_lt (n := 0x80 + r % 64) (by omega)
    simp only [h1, h2, h3, h4, h5, if_false, if_true, List.cons_append, List.nil_append, decodeRune, e0, e1, e2, e3, isCont,
      accept4]
    have c1 : ¬ (0xF0 + r / 262144 < 0x80) := by omega
    have c2 : ¬ (0xF0 + r / 262144 < 0xC2) := by omega
    have c3 : ¬ (0xF0 + r / 262144 < 0xE0) := by omega
    have c4 : ¬ (0xF0 + r / 262144 < 0xF0) := by omega
    have c5 : (0xF0 + r / 262144 < 0xF5) := by omega
    simp only [c1, c2, c3, c4, c5, if_false, if_true]
    have a2 : 0x80 + r / 4096 % 64 ≤ (if 0xF0 + r / 262144 = 0xF4 then 0x8F else 0xBF) := by split <;> omega
    simp [a2]
    rw [if_pos (by split <;> omega), if_pos (by omega), if_pos (by omega)]; congr 1; omega
  · omega

/-- `utf8.DecodeRuneInString(s)`: the rune and its width in bytes (`(RuneError, 1)` for an invalid sequence, `(RuneError, 0)`
for the empty string) -/
def DecodeRuneInString (s : GoString) : Int × Int :=
  let t := decodeRune s
  ((t.r : Int), (t.bytes.length : Int))

/-- byte offset and rune of every decoding step -/
def runesFrom : Int → List Tok → List (Int × Int)
  | _, [] => []
  | off, t :: rest => (off, (t.r : Int)) :: runesFrom (off + (t.bytes.length : Int)) rest

/-- `for i, ch := range s` on a string: the byte offset and the rune of the successive results of `DecodeRuneInString` -/
def runes (s : GoString) : List (Int × Int) := runesFrom 0 (decodeAll s)

/-- `unicode.IsLetter` (negative runes are in no table) -/
def IsLetter (r : Int) : Bool := if r < 0 then false else Knut.Syntax.isLetter r.toNat
/-- `unicode.IsDigit` -/
def IsDigit (r : Int) : Bool := if r < 0 then false else Knut.Syntax.isDigit r.toNat

namespace Fmt
/-- `%s` of a string -/
@[simp] def s (x : GoString) : GoString := x
/-- `%c` of a rune: its UTF-8 encoding, U+FFFD for everything that is not a scalar value (negative included) -/
def c (r : Int) : GoString := if r < 0 then encodeRune 0xFFFD else encodeRune r.toNat
/-- `%d` of an int -/
def d (i : Int) : GoString := lit (toString i)
/-- bytes that `strconv.Quote` copies unchanged -/
def plainByte (b : UInt8) : Bool := 0x20 ≤ b.toNat && b.toNat ≤ 0x7E && b.toNat != 0x22 && b.toNat != 0x5C
/-- `%q` of a string (`strconv.Quote`), defined for plain printable ASCII only -/
def q (x : GoString) : Outcome GoString :=
  if x.all plainByte then .ok ([0x22] ++ x ++ [0x22])
  else .panic "outside the model: %q of a string that is not plain printable ASCII"
end Fmt

/-! `strings.Builder`: the bytes written so far -/
namespace Builder
@[simp] def WriteString (b x : GoString) : GoString := b ++ x
@[simp] def String (b : GoString) : GoString := b
end Builder

/-- a value of a function type without results (a callback): only whether it is `nil` is kept -/
structure Proc where
  nonNil : Bool
  deriving DecidableEq, Repr

instance : GoZero Proc := ⟨⟨false⟩⟩

/-! ### The printer (`lib/syntax/printer`): `fmt.Fprintf` with widths, `strings.Join`, `strings.Repeat`, `utf8.RuneCountInString`, `io.Writer` -/

/-- `utf8.RuneCountInString`: the number of decoding steps (an invalid byte counts as one rune) -/
def RuneCountInString (s : GoString) : Int := ((decodeAll s).length : Int)

namespace Fmt
/-- `fmt`'s `writePadding(n)`: `n` spaces, nothing for `n ≤ 0` -/
def pad (n : Int) : GoString := List.replicate n.toNat 0x20
/-- `%Ns` (`minus = false`: padded on the left) and `%-Ns` (`minus = true`: padded on the right) of a string, for a width `N ≥ 0`
written in the format: `fmt.padString` pads to `N` **runes** (`N - utf8.RuneCountInString(s)` spaces; none when the string is longer).
A width taken from an operand (`%*s`) has no meaning here: `fmt` rejects widths above `10^6` with `%!(BADWIDTH)`, and knut pads by hand. -/
def sW (minus : Bool) (wid : Int) (x : GoString) : GoString :=
  if minus then x ++ pad (wid - RuneCountInString x) else pad (wid - RuneCountInString x) ++ x
end Fmt

namespace Strings
/-- `strings.Join(elems, sep)` -/
def Join : List GoString → GoString → GoString
  | [], _ => []
  | [a], _ => a
  | a :: b :: rest, sep => a ++ sep ++ Join (b :: rest) sep
/-- `strings.Repeat(s, count)`: a negative count panics (the overflow check of the real function concerns lengths above `2^63`,
which are outside the model of `int`) -/
def Repeat (s : GoString) (count : Int) : Outcome GoString :=
  if count < 0 then .panic "strings: negative Repeat count" else .ok (List.replicate count.toNat s).flatten
end Strings

/-- an `io.Writer`: the **bytes written so far**.  This is an in-memory buffer (`bytes.Buffer`, which `formatFile` and `infer` hand to
`syntax.FormatFile`): `Write` takes every byte and never fails.  Write errors of other writers are not modelled. -/
abbrev Writer := GoString

/-- `w.Write(bs)`: the new state of the writer, `len(bs)`, and the nil error (`nilErr`: the `nil` of the translated error type) -/
def Writer.Write {ε : Type} (w : Writer) (bs : GoString) (nilErr : ε) : Writer × Int × ε := (w ++ bs, (bs.length : Int), nilErr)

end Knut.GoSem.Syn
