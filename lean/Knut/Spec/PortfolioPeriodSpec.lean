import Knut.Model.Performance
/-!
# Specification side of C20, per period: when do "prices rest" and "only external flows occur" on a day?

Journal-level notions (no processor state) in which the per-period theorems of `Properties/C20Periods.lean` are stated,
and their executable forms, which the driver evaluates for the monitor `zero_period_when_calm` (soundness:
`Proofs/PortfolioCalm.lean`, `calmPeriodB_sound`).
-/
namespace Knut.Performance
open Knut

/-- the normalised prices in force after the days: `ComputePrices` alone, folded over the days -/
def normAfter (v : Commodity) (days : List Day) : Option Prices.NPrices :=
  match days.foldlM (Balance.pricesDay v) {} with
  | .ok st => st.norm
  | .error _ => none

/-- the price of `c` in the valuation commodity after the days (`none`: no price) -/
def priceAfter (v : Commodity) (days : List Day) (c : Commodity) : Option Rat :=
  (normAfter v days).bind (Prices.find c)

/-- the quantity of commodity `c` booked on account `a` by the transactions of the days -/
def heldQty (a : Account) (c : Commodity) (days : List Day) : Rat :=
  ((((days.flatMap (·.transactions)).flatMap (·.postings)).filter
    (fun p => decide (p.account = a) && decide (p.commodity = c))).map (·.quantity)).sum

/-- **prices rest on day `d`** (which follows the days `pre`): every commodity other than the valuation commodity of
which an asset/liability account holds a non-zero quantity at the start of `d` has the same price after `d` as before -/
def PricesRestOn (v : Commodity) (pre : List Day) (d : Day) : Prop :=
  ∀ a c, a.isAL = true → c ≠ v → heldQty a c pre ≠ 0 → priceAfter v (pre ++ [d]) c = priceAfter v pre c

/-! ### executable forms -/

/-- postings in mirrored pairs (what `posting.Builder.Build` makes of a booking) -/
def mirroredB : List Posting → Bool
  | [] => true
  | [_] => false
  | a :: b :: rest =>
    decide (b.commodity = a.commodity) && decide (b.quantity = -a.quantity) && decide (b.value = -a.value) &&
      decide (b.account = a.other) && decide (b.other = a.account) && mirroredB rest

/-- an un-annotated transaction of mirrored posting pairs -/
def plainB (t : Transaction) : Bool := t.targets.isNone && mirroredB t.postings

/-- the positions the days book on -/
def positionsOf (days : List Day) : List (Account × Commodity) :=
  ((days.flatMap (·.transactions)).flatMap (·.postings)).map (fun p => (p.account, p.commodity))

def pricesRestB (v : Commodity) (pre : List Day) (d : Day) : Bool :=
  let n0 := normAfter v pre
  let n1 := normAfter v (pre ++ [d])
  (positionsOf pre).all (fun k =>
    !k.1.isAL || decide (k.2 = v) || decide (heldQty k.1 k.2 pre = 0) ||
      decide (n1.bind (Prices.find k.2) = n0.bind (Prices.find k.2)))

/-- the hypotheses of the 0 %-clause on one day -/
def calmDayB (f : Flags) (pre : List Day) (d : Day) : Bool :=
  d.transactions.all plainB &&
    (match f.valuation with
     | none => true
     | some v => pricesRestB v pre d)

/-- every day with the days before it -/
def splits : List Day → List Day → List (List Day × Day)
  | _, [] => []
  | pre, d :: rest => (pre, d) :: splits (pre ++ [d]) rest

/-- the hypotheses of the 0 %-clause on every day of the period -/
def calmPeriodB (f : Flags) (days : List Day) (p : Period) : Bool :=
  (splits [] days).all (fun x => !(decide (p.start ≤ x.2.date) && decide (x.2.date ≤ p.stop)) || calmDayB f x.1 x.2)

/-- per period end of the command's partition: do the hypotheses of the 0 %-clause hold in the period? -/
def calmPeriods (f : Flags) (ds : List Directive) : List (Int × Bool) :=
  match setup f ds with
  | .ok (part, days) => part.periods.map (fun p => (p.stop, calmPeriodB f days p))
  | _ => []

end Knut.Performance
