package main

// Layout helpers of the Go→Lean translator: a Lean term is a list of lines (relative indentation).

import "strings"

type trLines []string

func trOne(s string) trLines { return trLines{s} }

func (l trLines) indent(n int) trLines {
	pad := strings.Repeat(" ", n)
	out := make(trLines, len(l))
	for i, s := range l {
		out[i] = pad + s
	}
	return out
}

func (l trLines) String() string { return strings.Join(l, "\n") }

// trLet: `let x : T := val` followed by body
func trLet(name, typ string, val trLines, body trLines) trLines {
	head := "let " + name
	if typ != "" {
		head += " : " + typ
	}
	var out trLines
	if len(val) == 1 {
		out = append(out, head+" := "+val[0])
	} else {
		out = append(out, head+" :=")
		out = append(out, val.indent(2)...)
	}
	return append(out, body...)
}

// trIte: if c then a else b
func trIte(c string, a, b trLines) trLines {
	out := trLines{"if " + c + " then"}
	out = append(out, a.indent(2)...)
	out = append(out, "else")
	out = append(out, b.indent(2)...)
	return out
}

// trBind: Outcome.bind act (fun x => body)
func trBind(name string, act string, body trLines) trLines {
	out := trLines{"Outcome.bind (" + act + ") (fun " + name + " =>"}
	out = append(out, body.indent(2)...)
	out[len(out)-1] += ")"
	return out
}

// trParen wraps a multi-line term in parentheses
func trParen(l trLines) trLines {
	if len(l) == 1 {
		return trLines{"(" + l[0] + ")"}
	}
	out := make(trLines, len(l))
	copy(out, l)
	out[0] = "(" + out[0]
	for i := 1; i < len(out); i++ {
		out[i] = " " + out[i]
	}
	out[len(out)-1] += ")"
	return out
}

var trLeanKeywords = map[string]bool{
	"rec": true, "end": true, "at": true, "from": true, "open": true, "in": true, "do": true, "then": true, "fun": true, "have": true,
	"show": true, "by": true, "match": true, "with": true, "if": true, "else": true, "let": true, "where": true,
	"structure": true, "instance": true, "namespace": true, "section": true, "theorem": true, "def": true, "local": true,
	"private": true, "class": true, "inductive": true, "export": true, "import": true, "variable": true, "universe": true,
	"for": true, "return": true, "mut": true, "try": true, "catch": true, "finally": true, "unless": true, "Type": true,
	"Prop": true, "Sort": true, "using": true, "deriving": true, "extends": true, "mutual": true, "abbrev": true,
	"example": true, "macro": true, "syntax": true, "notation": true, "infix": true, "prefix": true, "postfix": true,
	"attribute": true, "set_option": true, "noncomputable": true, "partial": true, "protected": true, "opaque": true,
	"axiom": true, "calc": true, "nomatch": true, "nofun": true, "suffices": true, "obtain": true, "fuel": true, "this": true,
	"open_": true, "index": true, "setIndex": true, "slice": true, "len": true, "idiv": true, "imod": true, "idivE": true, "imodE": true,
	"fuelGe": true, "fuelLt": true, "sortSearch": true, "foldlE": true, "decide": true, "id": true, "not": true, "max": true, "min": true, "sorry": true, "admit": true, "unsafe": true, "implemented_by": true, "pure": true, "bind": true, "some": true, "none": true, "true": true, "false": true, "True": true, "False": true,
}

// trMangle makes a Go identifier usable as a Lean identifier.
func trMangle(s string) string {
	if trLeanKeywords[s] {
		return s + "_"
	}
	if s == "_" {
		return "_"
	}
	return s
}
