package main

// Extracted facts about cmd/commands/balance.go (builder trans10): what of `execute` is outside the Go→Lean translator's subset (cobra,
// the registry, the journal builder, the processors as values, bufio) is pinned by SOURCE TEXT: which constructor gets which variables,
// how those variables are defined, how the renderers are filled from the flags, and which flag sets which field with which default.
// Knut.FactsAgree.TransBalanceCmd states what the model (Model/BalanceCmd.lean) assumes of each.  The `journal.Query{…}` literal itself
// is TRANSLATED (fragment `balanceRunner.execute.query`, trans_units_mapping.go).

import (
	"bytes"
	"go/ast"
	"go/printer"
	"go/token"
	"strings"
)

func factSrc(fset *token.FileSet, n ast.Node) string {
	var b bytes.Buffer
	if err := printer.Fprint(&b, fset, n); err != nil {
		return "?"
	}
	return strings.Join(strings.Fields(b.String()), " ")
}

func leanPairList(ps [][2]string) string {
	parts := make([]string, len(ps))
	for i, p := range ps {
		parts[i] = "(" + leanStr(p[0]) + ", " + leanStr(p[1]) + ")"
	}
	return "[" + strings.Join(parts, ", ") + "]"
}

// factsBalanceCmd: called from the balance block of facts.go
func factsBalanceCmd(o *factOut, ff *factFile) {
	fd := ff.funcDecl("execute")
	if fd == nil || fd.Body == nil {
		o.missing("balanceCmd", "func execute not found in cmd/commands/balance.go")
		return
	}
	// ---- the processors: constructor and the source text of its arguments, in the order of the literal
	var calls []string
	var procsLit *ast.CompositeLit
	ast.Inspect(fd, func(n ast.Node) bool {
		cl, ok := n.(*ast.CompositeLit)
		if !ok || procsLit != nil {
			return true
		}
		if at, ok := cl.Type.(*ast.ArrayType); ok {
			if st, ok := at.Elt.(*ast.StarExpr); ok {
				if se, ok := st.X.(*ast.SelectorExpr); ok && se.Sel.Name == "Processor" {
					procsLit = cl
				}
			}
		}
		return true
	})
	if procsLit != nil {
		for _, e := range procsLit.Elts {
			var args []string
			if call, ok := e.(*ast.CallExpr); ok {
				for _, a := range call.Args {
					args = append(args, factSrc(ff.fset, a))
				}
			}
			calls = append(calls, "("+leanStr(callName(e))+", "+leanStrList(args)+")")
		}
	}
	o.def("balanceProcessorCalls", "List (String × List String)", "["+strings.Join(calls, ", ")+"]")
	// ---- the statements of execute, top level, that define variables or assign err: `lhs` ↦ source text of the right side
	var setup [][2]string
	for _, s := range fd.Body.List {
		as, ok := s.(*ast.AssignStmt)
		if !ok || len(as.Rhs) != 1 {
			continue
		}
		if cl, ok := as.Rhs[0].(*ast.CompositeLit); ok {
			if cl == procsLit {
				setup = append(setup, [2]string{factSrc(ff.fset, as.Lhs[0]), "<the processors>"})
				continue
			}
			setup = append(setup, [2]string{factSrc(ff.fset, as.Lhs[0]), factSrc(ff.fset, cl.Type) + "{…}"})
			continue
		}
		var lhs []string
		for _, l := range as.Lhs {
			lhs = append(lhs, factSrc(ff.fset, l))
		}
		setup = append(setup, [2]string{strings.Join(lhs, ", "), factSrc(ff.fset, as.Rhs[0])})
	}
	o.def("balanceSetup", "List (String × String)", leanPairList(setup))
	// ---- the fields of the renderer literals
	lit := func(typ string) [][2]string {
		var res [][2]string
		ast.Inspect(fd, func(n ast.Node) bool {
			cl, ok := n.(*ast.CompositeLit)
			if !ok || factSrc(ff.fset, cl.Type) != typ {
				return true
			}
			for _, e := range cl.Elts {
				if kv, ok := e.(*ast.KeyValueExpr); ok {
					res = append(res, [2]string{factSrc(ff.fset, kv.Key), factSrc(ff.fset, kv.Value)})
				}
			}
			return false
		})
		return res
	}
	o.def("balanceRendererFields", "List (String × String)", leanPairList(lit("balance.Renderer")))
	o.def("balanceTextRendererFields", "List (String × String)", leanPairList(lit("table.TextRenderer")))
	o.def("balanceCSVRendererFields", "List (String × String)", leanPairList(lit("table.CSVRenderer")))
	// ---- the choice of the table renderer: (condition, what the then-branch assigns, what the else-branch assigns)
	var choice []string
	for _, s := range fd.Body.List {
		is, ok := s.(*ast.IfStmt)
		if !ok || is.Init != nil || len(is.Body.List) != 1 {
			continue
		}
		eb, ok := is.Else.(*ast.BlockStmt)
		if !ok || len(eb.List) != 1 {
			continue
		}
		a1, ok1 := is.Body.List[0].(*ast.AssignStmt)
		a2, ok2 := eb.List[0].(*ast.AssignStmt)
		if !ok1 || !ok2 || len(a1.Rhs) != 1 || len(a2.Rhs) != 1 || factSrc(ff.fset, a1.Lhs[0]) != factSrc(ff.fset, a2.Lhs[0]) {
			continue
		}
		typeOf := func(e ast.Expr) string {
			if u, ok := e.(*ast.UnaryExpr); ok {
				e = u.X
			}
			if cl, ok := e.(*ast.CompositeLit); ok {
				return factSrc(ff.fset, cl.Type)
			}
			return factSrc(ff.fset, e)
		}
		choice = append(choice, factSrc(ff.fset, a1.Lhs[0]), factSrc(ff.fset, is.Cond), typeOf(a1.Rhs[0]), typeOf(a2.Rhs[0]))
	}
	o.def("balanceRendererChoice", "List String", leanStrList(choice))
	// ---- the last statement: what is rendered where
	if n := len(fd.Body.List); n > 0 {
		o.def("balanceLastStatement", "String", leanStr(factSrc(ff.fset, fd.Body.List[n-1])))
	}
	// ---- the flags: (flag name, the field it sets, the default; "-" for a flag.Value without a default argument)
	var flags []string
	if sf := ff.funcDecl("setupFlags"); sf != nil && sf.Body != nil {
		for _, s := range sf.Body.List {
			es, ok := s.(*ast.ExprStmt)
			if !ok {
				continue
			}
			call, ok := es.X.(*ast.CallExpr)
			if !ok {
				continue
			}
			sel, ok := call.Fun.(*ast.SelectorExpr)
			if !ok || len(call.Args) < 2 {
				flags = append(flags, "("+leanStr(factSrc(ff.fset, call))+", \"\", \"\")")
				continue
			}
			m := sel.Sel.Name
			field := strings.TrimPrefix(factSrc(ff.fset, call.Args[0]), "&")
			name := strings.Trim(factSrc(ff.fset, call.Args[1]), "\"")
			def := "-"
			switch {
			case strings.HasSuffix(m, "VarP") && m != "VarP" && len(call.Args) >= 5:
				def = factSrc(ff.fset, call.Args[3])
			case strings.HasSuffix(m, "Var") && m != "Var" && len(call.Args) >= 4:
				def = factSrc(ff.fset, call.Args[2])
			}
			flags = append(flags, "("+leanStr(name)+", "+leanStr(field)+", "+leanStr(def)+")")
		}
	}
	o.def("balanceFlags", "List (String × String × String)", "["+strings.Join(flags, ", ")+"]")
}
