package main

import (
	"fmt"
	"os"
	"path/filepath"
	"strings"
	"time"
)

func init() { runners["C02"] = runC02 }

type balCase struct {
	Idx    int
	J      *Journal
	Text   string
	F      BalFlags
	Tags   []string
	Code   int
	Stdout string
	Stderr string
}

func (bc *balCase) Input() map[string]any {
	return map[string]any{"journal": bc.Text, "args": strings.Join(bc.F.Args(), " "), "wire_flags": bc.F.Wire(today()), "wire_journal": bc.J.Wire()}
}

// implOutcome canonicalises the real command's result in the driver's outcome format.
func (bc *balCase) implOutcome() string {
	switch {
	case strings.Contains(bc.Stderr, "panic:") || strings.Contains(bc.Stderr, "goroutine "):
		return "panic"
	case bc.Code == 0:
		return "ok " + Hex(canonTable(bc.Stdout))
	case bc.Code == -2:
		return "timeout"
	default:
		return "error"
	}
}

// canonTable reduces a rendered text table to its cell contents (column widths and padding are C17's subject, not
// that of the report properties): separator lines become "+", cells are trimmed, the first cell keeps its indentation.
func canonTable(out string) string {
	if !strings.HasPrefix(out, "+-") {
		return out
	}
	var b strings.Builder
	for _, l := range strings.Split(out, "\n") {
		switch {
		case strings.HasPrefix(l, "+"):
			b.WriteString("+\n")
		case strings.HasPrefix(l, "|"):
			cells := strings.Split(strings.TrimSuffix(strings.TrimPrefix(l, "|"), "|"), "|")
			for i, c := range cells {
				if i == 0 {
					cells[i] = strings.TrimRight(strings.TrimPrefix(c, " "), " ")
				} else {
					cells[i] = strings.TrimSpace(c)
				}
			}
			b.WriteString(strings.Join(cells, "|") + "\n")
		default:
			b.WriteString(l + "\n")
		}
	}
	return b.String()
}

// canonOutcome applies canonTable to an "ok <hex>" outcome.
func canonOutcome(o string) string {
	if strings.HasPrefix(o, "ok ") {
		return "ok " + Hex(canonTable(UnHex(strings.TrimPrefix(o, "ok "))))
	}
	return o
}

func modelOutcomeCanon(m string) string {
	f := strings.Fields(m)
	if len(f) == 0 {
		return m
	}
	switch f[0] {
	case "error":
		return "error"
	case "panic":
		return "panic"
	}
	return canonOutcome(m)
}

// genBalCases generates n (journal, flags) cases and runs the real `knut balance` on them in parallel.
func genBalCases(c *Ctx, stream string, n int, jo func(r *RNG) JGenOpts, bo BalGenOpts) []*balCase {
	return genBalCasesWith(c, stream, n, jo, func(r *RNG, j *Journal, val string) BalFlags { return GenBalFlags(r, j, val, bo) })
}

// genBalCasesWith is genBalCases with a custom flag generator.
func genBalCasesWith(c *Ctx, stream string, n int, jo func(r *RNG) JGenOpts, fo func(r *RNG, j *Journal, val string) BalFlags) []*balCase {
	dir := filepath.Join(c.WorkDir, stream)
	os.MkdirAll(dir, 0o755)
	var cases []*balCase
	for i := 0; i < n; i++ {
		if !c.Want(stream, i) {
			continue
		}
		r := c.Rng(stream, i)
		o := jo(r)
		j, tags := GenJournal(r, o)
		text, _ := j.Text()
		f := fo(r, j, o.Valuation)
		if r.Chance(1, 50) {
			// a very long comment line between two directives (longer than the 64 KiB token limit of a bufio.Scanner, longer
			// than a pipe buffer): the journal is the same (seeded change C02-e read files line by line and silently stopped
			// at such a line)
			if k := strings.Index(text, "\n\n"); k >= 0 {
				at := k + 2
				if q := strings.LastIndex(text[:len(text)*r.Range(1, 3)/3], "\n\n"); q >= 0 {
					at = q + 2
				}
				text = text[:at] + "# " + strings.Repeat(Pick(r, []string{"x", "-", "é"}), Pick(r, []int{65536, 70000, 200000})) + "\n\n" + text[at:]
				tags = append(tags, "long-line")
			}
		}
		cases = append(cases, &balCase{Idx: i, J: j, Text: text, F: f, Tags: tags})
	}
	parallelFor(len(cases), 16, func(k int) {
		bc := cases[k]
		path := filepath.Join(dir, fmt.Sprintf("c%d.knut", bc.Idx))
		os.WriteFile(path, []byte(bc.Text), 0o644)
		args := append([]string{"balance"}, bc.F.Args()...)
		args = append(args, path)
		bc.Code, bc.Stdout, bc.Stderr = runKnut(c.KnutBin, 20*time.Second, nil, args...)
		os.Remove(path)
	})
	return cases
}

func flagClass(f BalFlags) string {
	var b strings.Builder
	fmt.Fprintf(&b, "iv%d", f.Interval)
	if f.Val != "" {
		b.WriteString("/val")
	}
	if f.Last != 0 {
		b.WriteString("/last")
	}
	if f.Diff {
		b.WriteString("/diff")
	}
	if f.NoClose {
		b.WriteString("/noclose")
	}
	if len(f.Map) > 0 {
		b.WriteString("/map")
		for _, m := range f.Map {
			if m.Level == 0 {
				b.WriteString("0")
			}
			if m.Suffix > 0 {
				b.WriteString("s")
			}
		}
	}
	if len(f.Remap) > 0 {
		b.WriteString("/remap")
	}
	if len(f.Acc) > 0 || len(f.Com) > 0 {
		b.WriteString("/filter")
	}
	if f.From != 0 {
		b.WriteString("/from")
	}
	if f.CSV {
		b.WriteString("/csv")
	}
	return b.String()
}

func runC02(c *Ctx) {
	n := c.N(5000, 40000)
	cases := genBalCases(c, "balance", n, func(r *RNG) JGenOpts {
		return JGenOpts{MaxAccounts: r.Range(2, 8), MaxDays: r.Range(1, 8), Unicode: true, BaseDay: 737000 + r.Intn(1500), SpanDays: Pick(r, []int{0, 5, 40, 100, 400, 800}), BoundaryDates: r.Chance(1, 8),
			Mutate: r.Chance(1, 10), Accruals: r.Chance(1, 3), CaseVariants: true}
	}, BalGenOpts{})
	bt := c.NewBatch()
	defer bt.Flush()
	for _, bc := range cases {
		bc := bc
		c.Evals++
		impl := bc.implOutcome()
		in := bc.Input()
		c.Class("c02/" + strings.Fields(impl)[0] + "/" + flagClass(bc.F) + "/n" + bucket(len(bc.J.Dirs)))
		for _, t := range bc.Tags {
			c.Tag(t)
		}
		if bc.Idx < 2 {
			c.Sample(map[string]any{"args": strings.Join(bc.F.Args(), " "), "journal": bc.Text, "stdout": bc.Stdout})
		}
		bt.Add(func(model string) {
			if model == "unsupported" {
				c.Tag("model-unsupported")
				return
			}
			if !c.Compare("balance", bc.Idx, "balance", in, impl, modelOutcomeCanon(model)) {
				// show the decoded texts in the finding
				f := &c.Findings[len(c.Findings)-1]
				if strings.HasPrefix(model, "ok ") {
					f.Model = clip(UnHex(strings.TrimPrefix(model, "ok ")))
				}
				f.Impl = clip(fmt.Sprintf("exit %d\n%s\n%s", bc.Code, bc.Stdout, bc.Stderr))
			}
		}, "balance", bc.F.Wire(today()), bc.J.Wire())
		// monitor: the real output against the independent ledger specification (Lean Spec.ledgerEntries)
		bt.Add(func(spec string) {
			if spec == "unsupported" {
				return
			}
			ok := impl == modelOutcomeCanon(spec)
			detail := ""
			if !ok {
				detail = "real output:\n" + bc.Stdout + bc.Stderr + "\nledger specification:\n"
				if strings.HasPrefix(spec, "ok ") {
					detail += UnHex(strings.TrimPrefix(spec, "ok "))
				} else {
					detail += spec
				}
			}
			c.Monitor("balance", bc.Idx, "report_equals_ledger", in, ok, detail)
		}, "balance-spec", bc.F.Wire(today()), bc.J.Wire())
	}
}
