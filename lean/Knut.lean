import Knut.Basic.Date
import Knut.Wire
import Knut.Model.Partition
import Knut.Spec.PartitionSpec
import Knut.Proofs.Partition
import Knut.Properties.C11
