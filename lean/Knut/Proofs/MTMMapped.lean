import Knut.Proofs.MTMDiff
import Knut.Proofs.MTMPlain
/-!
# C03: mapped / collapsed rows (`-m`, `--remap`, `--account`)

The running total of a report row `r` under any mapping is the sum, over the accounts `a` that pass `--account` and that
`mapAccount` turns into `r`, of the running totals of `a` in the plain report (`accCum_mapped`, `sum_by_account`).
`mapAccount` keeps the asset/liability nature (`mapAccount_isAL`), so the row of an A/L account collects A/L accounts
only, and `run_row_mapped` sums `run_account_window` / `run_account_between` over the journal's accounts mapped to `r`
(`Spec.sourceAccounts`): value = `Spec.mtmOver … D − Spec.mtmOver … F` up to `Spec.stepBoundOver` units of the 8th decimal.
-/
namespace Knut.MTM
open Knut Knut.Dec Knut.Spec
open Knut.BalanceReport (sumAmounts)

/-! ### `mapAccount` keeps the account type class -/

theorem isAL_cons (s : String) (rest rest' : List String) : (Account.isAL ⟨s :: rest⟩) = (Account.isAL ⟨s :: rest'⟩) := rfl

theorem swapType_isAL (a : Account) : (swapType a).isAL = a.isAL := by
  obtain ⟨segs⟩ := a
  cases segs with
  | nil => rfl
  | cons s rest =>
    unfold swapType
    simp only
    split
    · rename_i h; subst h; rfl
    · split
      · rename_i h; subst h; rfl
      · split
        · rename_i h; subst h; rfl
        · split
          · rename_i h; subst h; rfl
          · rfl

theorem shorten_isAL (m : List MapRule) {a b : Account} (hb : shorten m a = some b) : b.isAL = a.isAL := by
  unfold shorten at hb
  split at hb
  · injection hb with hb; subst hb; rfl
  · rename_i level suffix _
    split at hb
    · cases hb
    · split at hb
      · injection hb with hb; subst hb; rfl
      · split at hb
        · injection hb with hb; subst hb; rfl
        · injection hb with hb; subst hb
          obtain ⟨segs⟩ := a
          cases segs with
          | nil => simp
          | cons s rest =>
            cases level with
            | zero => contradiction
            | succ n => simp only [List.take_succ_cons, List.cons_append]; exact isAL_cons _ _ _

theorem mapAccount_isAL (cfg : BalCfg) {a b : Account} (hb : mapAccount cfg a = some b) : b.isAL = a.isAL := by
  unfold mapAccount at hb
  split at hb
  · rw [shorten_isAL _ hb, swapType_isAL]
  · exact shorten_isAL _ hb

/-! ### the inserts of a mapped row -/

/-- the accounts collected in row `r`: they pass `--account`, and `--remap` followed by `-m` turns them into `r` -/
def srcSel (cfg : BalCfg) (r a : Account) : Bool := cfg.accountFilter a.name && decide (mapAccount cfg a = some r)

def dateLe (D : Int) (e : Entry) : Bool := match e.date with | some D' => decide (D' ≤ D) | none => false

theorem accCum_def (a : Account) (es : List Entry) (D : Int) :
    accCum a es D = sumAmounts (es.filter (fun e => decide (e.account = a) && dateLe D e)) := rfl

/-- the running total of row `r` of the mapped report, over the inserts of the plain report -/
theorem accCum_mapped (cfg : BalCfg) (hcom : ∀ s, cfg.commodityFilter s = true) (r : Account) (D : Int) :
    ∀ (esP : List Entry), accCum r (esP.filterMap (reEntry cfg)) D =
      sumAmounts (esP.filter (fun e => srcSel cfg r e.account && dateLe D e))
  | [] => rfl
  | e :: rest => by
    have ih := accCum_mapped cfg hcom r D rest
    rw [accCum_def] at ih ⊢
    have hre : reEntry cfg e = if cfg.accountFilter e.account.name = true then
        (mapAccount cfg e.account).map (fun a => { e with account := a }) else none := by
      unfold reEntry; rw [hcom, Bool.and_true]
    have hss : srcSel cfg r e.account =
        (cfg.accountFilter e.account.name && decide (mapAccount cfg e.account = some r)) := rfl
    rw [List.filterMap_cons, List.filter_cons, hre, hss]
    cases hf : cfg.accountFilter e.account.name with
    | false =>
      simp only [Bool.false_eq_true, if_false, Bool.false_and]
      exact ih
    | true =>
      simp only [if_true, Bool.true_and]
      cases hm : mapAccount cfg e.account with
      | none =>
        simp only [Option.map_none, reduceCtorEq, decide_false, Bool.false_and, Bool.false_eq_true, if_false]
        exact ih
      | some a' =>
        simp only [Option.map_some, List.filter_cons, Option.some.injEq]
        have hd : dateLe D { e with account := a' } = dateLe D e := rfl
        rw [hd]
        by_cases h1 : a' = r
        · subst h1
          simp only [decide_true, Bool.true_and]
          cases dateLe D e with
          | false => simp only [Bool.false_eq_true, if_false]; exact ih
          | true =>
            simp only [if_true]
            unfold sumAmounts at ih ⊢
            simp only [List.map_cons, List.sum_cons]
            rw [ih]
        · simp only [h1, decide_false, Bool.false_and, Bool.false_eq_true, if_false]
          exact ih

theorem sum_indicator_acc (x : Account) (r : Rat) : ∀ (K : List Account), K.Nodup → x ∈ K →
    (K.map (fun c => if x = c then r else 0)).sum = r
  | [], _, hx => by cases hx
  | k :: K, hn, hx => by
    rw [List.nodup_cons] at hn
    rw [List.map_cons, List.sum_cons]
    by_cases hk : x = k
    · subst hk
      rw [sum_map_zero _ K (fun c hc => by
        have : x ≠ c := fun e => hn.1 (e ▸ hc)
        simp [this])]
      simp only [if_true, Rat.add_zero]
    · simp only [hk, if_false, Rat.zero_add]
      rcases List.mem_cons.mp hx with e | e
      · exact absurd e hk
      · exact sum_indicator_acc x r K hn.2 e

/-- a sum of inserts selected by `Q`, split by account over a duplicate-free list `S` covering the selected accounts -/
theorem sum_by_account (S : List Account) (hS : S.Nodup) (Q : Entry → Bool) : ∀ (es : List Entry),
    (∀ e ∈ es, Q e = true → e.account ∈ S) →
    sumAmounts (es.filter Q) = (S.map (fun a => sumAmounts (es.filter (fun e => decide (e.account = a) && Q e)))).sum
  | [], _ => by
    simp only [List.filter_nil]
    exact (sum_map_zero _ S (fun _ _ => rfl)).symm
  | e :: es, h => by
    have ih := sum_by_account S hS Q es (fun x hx => h x (List.mem_cons_of_mem _ hx))
    have hcons : ∀ a, sumAmounts ((e :: es).filter (fun e => decide (e.account = a) && Q e)) =
        (if e.account = a then (if Q e = true then e.amount else 0) else 0) +
          sumAmounts (es.filter (fun e => decide (e.account = a) && Q e)) := by
      intro a
      rw [List.filter_cons]
      unfold sumAmounts
      by_cases h1 : e.account = a <;> cases h2 : Q e <;> simp [h1, Rat.zero_add]
    rw [funext hcons, sum_map_add, ← ih, List.filter_cons]
    cases h2 : Q e with
    | false =>
      simp only [Bool.false_eq_true, if_false]
      rw [sum_map_zero _ S (fun c _ => by split <;> rfl), Rat.zero_add]
    | true =>
      simp only [if_true]
      rw [sum_indicator_acc e.account e.amount S hS (h e List.mem_cons_self h2)]
      unfold sumAmounts
      simp only [List.map_cons, List.sum_cons]

/-- **the running total of a mapped row is the sum of the running totals of its source accounts in the plain report** -/
theorem accCum_mapped_sum (cfg : BalCfg) (hcom : ∀ s, cfg.commodityFilter s = true) (r : Account) (D : Int)
    (esP : List Entry) (S : List Account) (hS : S.Nodup) (hsel : ∀ a ∈ S, srcSel cfg r a = true)
    (hcov : ∀ e ∈ esP, srcSel cfg r e.account = true → e.account ∈ S) :
    accCum r (esP.filterMap (reEntry cfg)) D = (S.map (fun a => accCum a esP D)).sum := by
  rw [accCum_mapped cfg hcom r D esP,
    sum_by_account S hS (fun e => srcSel cfg r e.account && dateLe D e) esP (fun e he hq => by
      simp only [Bool.and_eq_true] at hq
      exact hcov e he hq.1)]
  congr 1
  apply List.map_congr_left
  intro a ha
  rw [accCum_def]
  congr 1
  apply List.filter_congr
  intro e _
  by_cases h1 : e.account = a
  · rw [h1, hsel a ha]; simp
  · simp [h1]

/-! ### one account of the plain report over a column's period -/

/-- no insert on an asset/liability account is aligned before the window -/
theorem accCum_eve_zero (cfg : BalCfg) (v : Commodity) (a : Account) (days : List Day) (stF : BalState)
    (hv : cfg.valuation = some v) (hal : a.isAL = true) (hpl : Plain cfg) (hs : Sorted days)
    (hcons : ∀ d ∈ days, ∀ t ∈ d.transactions, t.date = d.date)
    (h : Balance.run cfg days = .ok stF) : accCum a stF.entries (cfg.span.start - 1) = 0 := by
  have hvs : cfg.valuation.isSome = true := by rw [hv]; rfl
  have hsplit := sorted_split cfg.span.start days hs
  obtain ⟨txs, hp, he⟩ := run_pipelineRun cfg days stF h
  rw [hsplit] at hp
  obtain ⟨stA, tA, tR, hA, hR, e1⟩ := pipelineRun_append cfg _ _ _ _ _ hp
  rw [he, e1, List.flatMap_append, accCum_append]
  have hinv0 : CloseInv {} := by intro k hk; cases hk
  have hcA : accCum a (tA.flatMap (Balance.queryTx cfg)) (cfg.span.start - 1) = 0 := by
    apply accCum_zero_of_filter_nil
    intro e hem hc
    obtain ⟨t, ht, p, hpt, rfl⟩ := mem_entries_plain cfg hpl hvs tA e hem
    obtain ⟨_, _, _, q4⟩ := pipelineRun_any cfg v a p.commodity hv hal _ {} stA tA hinv0 hA
    have hnil := q4 (window_pre_out cfg.span days)
    have : p ∈ posOn a p.commodity tA := by
      unfold posOn
      rw [List.mem_filter]
      have h1 : p.account = a := hc.1
      exact ⟨List.mem_flatMap.mpr ⟨t, ht, hpt⟩, by unfold onPos; simp [h1]⟩
    rw [hnil] at this
    cases this
  have hcR : accCum a (tR.flatMap (Balance.queryTx cfg)) (cfg.span.start - 1) = 0 := by
    apply accCum_zero_of_filter_nil
    intro e hem hc
    obtain ⟨t, ht, p, hpt, rfl⟩ := mem_entries_plain cfg hpl hvs tR e hem
    have hsub : ∀ d ∈ days.filter (fun d => !decide (d.date < cfg.span.start)), d ∈ days ∧ ¬ d.date < cfg.span.start := by
      intro d hd
      have := List.mem_filter.mp hd
      exact ⟨this.1, by simpa using this.2⟩
    obtain ⟨d, hd, hdt⟩ := pipelineRun_dates cfg _ stA stF tR (fun d hd => hcons d (hsub d hd).1) hR t ht
    obtain ⟨_, D', h1, h2⟩ := hc
    simp only at h1
    have h3 := (hsub d hd).2
    have := alignIn_gt cfg.periods t.date (cfg.span.start - 1) D' (by rw [hdt]; omega) h1
    omega
  rw [hcA, hcR, Rat.add_zero]

/-- the eve of a column: the day before the window, or an earlier period end inside the window -/
def IsEve (cfg : BalCfg) (F D : Int) : Prop :=
  F = cfg.span.start - 1 ∨ (F ∈ cfg.periods.map (·.stop) ∧ F < D ∧ cfg.span.contains F = true)

/-- **one asset/liability account of a plain report over `(F, D]`**, `F` the eve of the window or an earlier period end -/
theorem run_account_delta (cfg : BalCfg) (v : Commodity) (a : Account) (days : List Day) (stF : BalState) (F D : Int)
    (hv : cfg.valuation = some v) (hal : a.isAL = true) (hpl : Plain cfg) (hs : Sorted days)
    (hcons : ∀ d ∈ days, ∀ t ∈ d.transactions, t.date = d.date)
    (hz : ∀ d ∈ days, ∀ t ∈ d.transactions, ∀ p ∈ t.postings, p.value = 0)
    (hinc : List.Pairwise (· < ·) (cfg.periods.map (·.stop))) (hD : D ∈ cfg.periods.map (·.stop))
    (hF : IsEve cfg F D) (hDin : cfg.span.contains D = true)
    (h : Balance.run cfg days = .ok stF) :
    ∃ mD mF, Spec.mtm v days a D = some mD ∧ Spec.mtm v days a F = some mF ∧
      -((Spec.stepBound v days a F D : Rat) * ulp 8) ≤ (accCum a stF.entries D - accCum a stF.entries F) - (mD - mF) ∧
      (accCum a stF.entries D - accCum a stF.entries F) - (mD - mF) ≤ (Spec.stepBound v days a F D : Rat) * ulp 8 := by
  rcases hF with rfl | ⟨hF1, hF2, hF3⟩
  · obtain ⟨mD, mF, h1, h2, h3, h4⟩ := run_account_window cfg v a days stF D hv hal hpl hs hcons hz hinc hD hDin h
    refine ⟨mD, mF, h1, h2, ?_⟩
    rw [accCum_eve_zero cfg v a days stF hv hal hpl hs hcons h]
    have e : accCum a stF.entries D - 0 = accCum a stF.entries D := by grind
    rw [e]
    exact ⟨h3, h4⟩
  · exact run_account_between cfg v a days stF F D hv hal hpl hs hcons hz hinc hD hF1 hF2 hF3 hDin h

/-- an account without a booking in the journal has value 0 and step bound 0 -/
theorem commoditiesOf_nil_of_not_mem {days : List Day} {a : Account}
    (h : a ∉ ((Spec.userPostings days).map (fun x => x.2.account))) : Spec.commoditiesOf days a = [] := by
  unfold Spec.commoditiesOf
  have : (Spec.userPostings days).filter (fun (x : Int × Posting) => match x with | (_, p) => decide (p.account = a)) = [] := by
    rw [List.filter_eq_nil_iff]
    intro x hx hc
    apply h
    obtain ⟨x1, x2⟩ := x
    simp only [decide_eq_true_eq] at hc
    exact List.mem_map.mpr ⟨(x1, x2), hx, hc⟩
  rw [this]
  rfl

/-! ### `Option` sums -/

theorem mapM_some_getD {α : Type} (f : α → Option Rat) : ∀ (S : List α), (∀ a ∈ S, ∃ m, f a = some m) →
    S.mapM f = some (S.map (fun a => (f a).getD 0))
  | [], _ => rfl
  | a :: S, h => by
    obtain ⟨m, hm⟩ := h a List.mem_cons_self
    rw [List.mapM_cons, hm, mapM_some_getD f S (fun x hx => h x (List.mem_cons_of_mem _ hx))]
    simp [hm]

theorem arith_row (sD sF xD xF mD mF B : Rat) (hx : xD - xF = 0) (s1 : -B ≤ (sD - sF) - (mD - mF))
    (s2 : (sD - sF) - (mD - mF) ≤ B) :
    -B ≤ ((sD + xD) - (sF + xF)) - (mD - mF) ∧ ((sD + xD) - (sF + xF)) - (mD - mF) ≤ B := by
  constructor <;> grind

/-! ### the mapped row -/

/-- **the row `r` of a mapped valued report over `(F, D]`**: for every valued configuration without a commodity filter
(any `-m`, `--remap`, `--account`), the inserts on an asset/liability row account `r` aligned to column dates in
`(F, D]` total `Spec.mtmOver … S D − Spec.mtmOver … S F` — `S` the journal's accounts collected in `r` — up to
`Spec.stepBoundOver … S F D` units of the 8th decimal; both values exist. -/
theorem run_row_mapped (cfg : BalCfg) (v : Commodity) (r : Account) (days : List Day) (stF : BalState) (F D : Int)
    (hv : cfg.valuation = some v) (hcom : ∀ s, cfg.commodityFilter s = true) (hal : r.isAL = true) (hs : Sorted days)
    (hcons : ∀ d ∈ days, ∀ t ∈ d.transactions, t.date = d.date)
    (hz : ∀ d ∈ days, ∀ t ∈ d.transactions, ∀ p ∈ t.postings, p.value = 0)
    (hinc : List.Pairwise (· < ·) (cfg.periods.map (·.stop))) (hD : D ∈ cfg.periods.map (·.stop))
    (hF : IsEve cfg F D) (hDin : cfg.span.contains D = true)
    (h : Balance.run cfg days = .ok stF) :
    ∃ mD mF, Spec.mtmOver v days (Spec.sourceAccounts (srcSel cfg r) days) D = some mD ∧
      Spec.mtmOver v days (Spec.sourceAccounts (srcSel cfg r) days) F = some mF ∧
      -((Spec.stepBoundOver v days (Spec.sourceAccounts (srcSel cfg r) days) F D : Rat) * ulp 8) ≤
        (accCum r stF.entries D - accCum r stF.entries F) - (mD - mF) ∧
      (accCum r stF.entries D - accCum r stF.entries F) - (mD - mF) ≤
        (Spec.stepBoundOver v days (Spec.sourceAccounts (srcSel cfg r) days) F D : Rat) * ulp 8 ∧
      (F = cfg.span.start - 1 → accCum r stF.entries F = 0) := by
  obtain ⟨stP, hrunP, hes⟩ := run_plainOf cfg days stF h
  have hvP : (plainOf cfg).valuation = some v := hv
  have hplP := plain_plainOf cfg
  generalize hS : Spec.sourceAccounts (srcSel cfg r) days = S
  have hSn : S.Nodup := by
    rw [← hS]; unfold Spec.sourceAccounts
    exact List.Pairwise.sublist List.filter_sublist (ReportPerm.nodup_eraseDups _ _ (Nat.le_refl _))
  have hSsel : ∀ a ∈ S, srcSel cfg r a = true := by
    intro a ha; rw [← hS] at ha; unfold Spec.sourceAccounts at ha
    exact (List.mem_filter.mp ha).2
  have hselAL : ∀ a, srcSel cfg r a = true → a.isAL = true := by
    intro a ha
    unfold srcSel at ha
    simp only [Bool.and_eq_true, decide_eq_true_eq] at ha
    rw [← mapAccount_isAL cfg ha.2]; exact hal
  -- the per-account statement
  have hacc : ∀ a, a.isAL = true → ∃ mD mF, Spec.mtm v days a D = some mD ∧ Spec.mtm v days a F = some mF ∧
      -((Spec.stepBound v days a F D : Rat) * ulp 8) ≤ (accCum a stP.entries D - accCum a stP.entries F) - (mD - mF) ∧
      (accCum a stP.entries D - accCum a stP.entries F) - (mD - mF) ≤ (Spec.stepBound v days a F D : Rat) * ulp 8 :=
    fun a ha => run_account_delta (plainOf cfg) v a days stP F D hvP ha hplP hs hcons hz hinc hD hF hDin hrunP
  -- the accounts with inserts that the journal does not book on
  let X := (((stP.entries.map (·.account)).eraseDups).filter (srcSel cfg r)).filter (fun a => !decide (a ∈ S))
  have hXn : X.Nodup :=
    List.Pairwise.sublist List.filter_sublist
      (List.Pairwise.sublist List.filter_sublist (ReportPerm.nodup_eraseDups _ _ (Nat.le_refl _)))
  have hXS : ∀ a ∈ X, a ∉ S := by
    intro a ha
    have := (List.mem_filter.mp ha).2
    simpa using this
  have hXsel : ∀ a ∈ X, srcSel cfg r a = true := by
    intro a ha
    exact (List.mem_filter.mp (List.mem_filter.mp ha).1).2
  have hSXn : (S ++ X).Nodup := by
    rw [List.nodup_append]
    refine ⟨hSn, hXn, ?_⟩
    intro x hx y hy e
    exact hXS y hy (e ▸ hx)
  have hcov : ∀ e ∈ stP.entries, srcSel cfg r e.account = true → e.account ∈ S ++ X := by
    intro e he hsel
    by_cases hc : e.account ∈ S
    · exact List.mem_append_left _ hc
    · apply List.mem_append_right
      rw [List.mem_filter]
      refine ⟨?_, by simp [hc]⟩
      rw [List.mem_filter]
      refine ⟨?_, hsel⟩
      rw [List.mem_eraseDups]
      exact List.mem_map.mpr ⟨e, he, rfl⟩
  have hsum : ∀ Y, accCum r stF.entries Y = (S.map (fun a => accCum a stP.entries Y)).sum +
      (X.map (fun a => accCum a stP.entries Y)).sum := by
    intro Y
    rw [hes, accCum_mapped_sum cfg hcom r Y stP.entries (S ++ X) hSXn
      (fun a ha => by
        rcases List.mem_append.mp ha with h1 | h1
        · exact hSsel a h1
        · exact hXsel a h1) hcov, List.map_append, sum_append_rat]
  -- accounts outside the journal contribute nothing
  have hXzero : (X.map (fun a => accCum a stP.entries D - accCum a stP.entries F)).sum = 0 := by
    apply sum_map_zero
    intro a ha
    have hnot : a ∉ ((Spec.userPostings days).map (fun x => x.2.account)) := by
      intro hm
      apply hXS a ha
      rw [← hS]
      unfold Spec.sourceAccounts
      rw [List.mem_filter, List.mem_eraseDups]
      exact ⟨hm, hXsel a ha⟩
    obtain ⟨mD, mF, h1, h2, h3, h4⟩ := hacc a (hselAL a (hXsel a ha))
    have hc := commoditiesOf_nil_of_not_mem hnot
    unfold Spec.mtm at h1 h2
    rw [hc] at h1 h2
    unfold Spec.stepBound at h3 h4
    rw [hc] at h3 h4
    injection h1 with h1
    injection h2 with h2
    subst h1; subst h2
    simp only [List.map_nil, List.sum_nil] at h3 h4
    have e0 : (((0 : Nat) : Rat)) = 0 := rfl
    grind
  have hmD : Spec.mtmOver v days S D = some ((S.map (fun a => (Spec.mtm v days a D).getD 0)).sum) := by
    unfold Spec.mtmOver
    rw [mapM_some_getD _ S (fun a ha => by
      obtain ⟨mD, _, h1, _⟩ := hacc a (hselAL a (hSsel a ha)); exact ⟨mD, h1⟩)]
    rfl
  have hmF : Spec.mtmOver v days S F = some ((S.map (fun a => (Spec.mtm v days a F).getD 0)).sum) := by
    unfold Spec.mtmOver
    rw [mapM_some_getD _ S (fun a ha => by
      obtain ⟨_, mF, _, h2, _⟩ := hacc a (hselAL a (hSsel a ha)); exact ⟨mF, h2⟩)]
    rfl
  refine ⟨_, _, hmD, hmF, ?_⟩
  have hdev : ∀ a ∈ S,
      -((Spec.stepBound v days a F D : Rat) * ulp 8) ≤
        (accCum a stP.entries D - accCum a stP.entries F) - ((Spec.mtm v days a D).getD 0 - (Spec.mtm v days a F).getD 0) ∧
      (accCum a stP.entries D - accCum a stP.entries F) - ((Spec.mtm v days a D).getD 0 - (Spec.mtm v days a F).getD 0) ≤
        (Spec.stepBound v days a F D : Rat) * ulp 8 := by
    intro a ha
    obtain ⟨mD, mF, h1, h2, h3, h4⟩ := hacc a (hselAL a (hSsel a ha))
    rw [h1, h2]
    exact ⟨h3, h4⟩
  obtain ⟨s1, s2⟩ := sum_bounds _ _ S hdev
  rw [sum_map_sub, sum_map_sub, sum_map_sub] at s1 s2
  rw [sum_map_sub] at hXzero
  unfold Spec.stepBoundOver
  have hzeroF : F = cfg.span.start - 1 → accCum r stF.entries F = 0 := by
    intro hFe
    rw [hsum F, sum_map_zero _ S (fun a ha => by
        rw [hFe]; exact accCum_eve_zero (plainOf cfg) v a days stP hvP (hselAL a (hSsel a ha)) hplP hs hcons hrunP),
      sum_map_zero _ X (fun a ha => by
        rw [hFe]; exact accCum_eve_zero (plainOf cfg) v a days stP hvP (hselAL a (hXsel a ha)) hplP hs hcons hrunP)]
    exact Rat.add_zero 0
  rw [natCast_sum_mul, List.map_map, hsum D, hsum F]
  obtain ⟨r1, r2⟩ := arith_row _ _ _ _ _ _ _ hXzero s1 s2
  exact ⟨r1, r2, by rw [← hsum F]; exact hzeroF⟩

/-- every insert is dated by `Align` of a transaction date -/
theorem mem_queryTx_date (cfg : BalCfg) (txs : List Transaction) (e : Entry) (he : e ∈ txs.flatMap (Balance.queryTx cfg)) :
    ∃ t ∈ txs, e.date = alignIn cfg.periods t.date := by
  obtain ⟨t, ht, het⟩ := List.mem_flatMap.mp he
  unfold Balance.queryTx at het
  obtain ⟨p, _, hq⟩ := List.mem_filterMap.mp het
  unfold Balance.queryPosting at hq
  split at hq
  · split at hq
    · injection hq with hq; subst hq; exact ⟨t, ht, rfl⟩
    · cases hq
  · cases hq

/-- an insert on an asset/liability row exists only if the window is not empty (any mapping) -/
theorem window_nonempty_of_entry_mapped (cfg : BalCfg) (v : Commodity) (hv : cfg.valuation = some v)
    (days : List Day) (st : BalState) (h : Balance.run cfg days = .ok st)
    (e : Entry) (he : e ∈ st.entries) (hal : e.account.isAL = true) : cfg.span.start ≤ cfg.span.stop := by
  obtain ⟨stP, hrunP, hes⟩ := run_plainOf cfg days st h
  rw [hes] at he
  obtain ⟨eP, heP, hre⟩ := List.mem_filterMap.mp he
  unfold reEntry at hre
  split at hre
  · cases hm : mapAccount cfg eP.account with
    | none => rw [hm] at hre; cases hre
    | some a' =>
      rw [hm] at hre
      simp only [Option.map_some, Option.some.injEq] at hre
      subst hre
      have hal' : eP.account.isAL = true := by rw [← mapAccount_isAL cfg hm]; exact hal
      apply Classical.byContradiction
      intro hlt
      have hout : ∀ d ∈ days, (plainOf cfg).span.contains d.date = false := by
        intro d _
        show cfg.span.contains d.date = false
        unfold Period.contains
        by_cases h1 : d.date < cfg.span.start
        · simp [h1]
        · have : d.date > cfg.span.stop := by omega
          simp [this]
      obtain ⟨txs, hp, hes'⟩ := run_pipelineRun (plainOf cfg) days stP hrunP
      have hvs : (plainOf cfg).valuation.isSome = true := by show cfg.valuation.isSome = true; rw [hv]; rfl
      rw [hes'] at heP
      obtain ⟨t, ht, p, hpt, rfl⟩ := mem_entries_plain (plainOf cfg) (plain_plainOf cfg) hvs txs eP heP
      have hinv0 : CloseInv {} := by intro k hk; cases hk
      obtain ⟨_, _, _, q4⟩ := pipelineRun_any (plainOf cfg) v p.account p.commodity hv hal' days {} stP txs hinv0 hp
      have : p ∈ posOn p.account p.commodity txs := by
        unfold posOn
        rw [List.mem_filter]
        exact ⟨List.mem_flatMap.mpr ⟨t, ht, hpt⟩, by unfold onPos; simp⟩
      rw [q4 hout] at this
      cases this
  · cases hre

end Knut.MTM
