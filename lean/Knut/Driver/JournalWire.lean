import Knut.Wire
import Knut.Model.Journal
/-!
# Wire form of journals (see `harness/jgen.go`)

```
journal   := "-" | directive ("|" directive)*
open      := o~<day>~<account>            close := c~<day>~<account>
price     := p~<day>~<commodity>~<decimal>~<target>
assertion := a~<day>~<account>,<decimal>,<commodity>(;…)*
tx        := t~<day>~<desc-hex>~<targets>~<accrual>~<credit>,<debit>,<decimal>,<commodity>(;…)*
targets   := "-" (none) | "=" c1,c2,…      accrual := "-" | <interval>,<start>,<end>,<account>
```
-/
namespace Knut.Driver
open Knut Knut.Wire

abbrev RawBooking := Knut.Booking

structure RawAccrual where
  interval : String
  start : Int
  stop : Int
  account : Account
  deriving Repr

/-- a directive as the generator states it: transactions still carry bookings and the accrual annotation -/
inductive RawDirective where
  | price (p : Price)
  | opening (o : Open)
  | closing (c : Close)
  | assertion (a : Assertion)
  | tx (date : Int) (desc : String) (targets : Option (List Commodity)) (accrual : Option RawAccrual) (bookings : List RawBooking)
  deriving Repr

def parseBooking (s : String) : Option RawBooking :=
  match splitOn s ',' with
  | [c, d, q, com] => do
    let q ← Dec.parseDec q
    pure ⟨Account.ofName c, Account.ofName d, q, com⟩
  | _ => none

def parseBalance (s : String) : Option Balance :=
  match splitOn s ',' with
  | [a, q, com] => do
    let q ← Dec.parseDec q
    pure ⟨Account.ofName a, q, com⟩
  | _ => none

def parseTargets (s : String) : Option (Option (List Commodity)) :=
  if s = "-" then some none
  else if s.startsWith "=" then
    let rest := (s.drop 1).toString
    some (some (if rest = "" then [] else splitOn rest ','))
  else none

def parseAccrual (s : String) : Option (Option RawAccrual) :=
  if s = "-" then some none else
  match splitOn s ',' with
  | [iv, a, b, acc] => do
    let a ← parseInt a
    let b ← parseInt b
    pure (some ⟨iv, a, b, Account.ofName acc⟩)
  | _ => none

def parseDirective (s : String) : Option RawDirective :=
  match splitOn s '~' with
  | ["o", d, acc] => do
    let d ← parseInt d
    pure (.opening ⟨d, Account.ofName acc⟩)
  | ["c", d, acc] => do
    let d ← parseInt d
    pure (.closing ⟨d, Account.ofName acc⟩)
  | ["p", d, c, p, t] => do
    let d ← parseInt d
    let p ← Dec.parseDec p
    pure (.price ⟨d, c, p, t⟩)
  | ["a", d, bals] => do
    let d ← parseInt d
    let bals ← (splitOn bals ';').mapM parseBalance
    pure (.assertion ⟨d, bals⟩)
  | ["t", d, desc, tg, ac, bks] => do
    let d ← parseInt d
    let desc ← unhexStr desc
    let tg ← parseTargets tg
    let ac ← parseAccrual ac
    let bks ← (splitOn bks ';').mapM parseBooking
    pure (.tx d desc tg ac bks)
  | _ => none

def parseJournal (s : String) : Option (List RawDirective) :=
  if s = "-" then some [] else (splitOn s '|').mapM parseDirective

/-- a transaction without accrual annotation becomes one model transaction (`transaction.Create`) -/
def plainTx (date : Int) (desc : String) (targets : Option (List Commodity)) (bks : List RawBooking) : Transaction :=
  Transaction.ofBookings date desc targets bks

end Knut.Driver
