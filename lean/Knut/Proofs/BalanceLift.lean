import Knut.Proofs.Balance
import Knut.Proofs.Builder
import Knut.Proofs.Accrual
import Knut.Driver.C04
/-! Lemmas that lift C01 from `Balance.run` to the command and the rendered table: the journal builder keeps
transactions paired, everything `transaction.Create` (and the driver's loader) produces is paired, and the
shape of the rows `renderVals` produces. -/
namespace Knut
open Knut.Table (Cell)

/-- days all of whose transactions are made of posting pairs (`C01.PairedDays`) -/
def DaysPaired (days : List Day) : Prop := ∀ d ∈ days, ∀ t ∈ d.transactions, TxPaired t

/-! ## the builder keeps pairedness -/
theorem insertDay_paired (days : List Day) (date : Int) (h : DaysPaired days) : DaysPaired (insertDay days date) := by
  induction days with
  | nil =>
    intro d hd t ht
    simp only [insertDay, List.mem_singleton] at hd
    subst hd; cases ht
  | cons d0 rest ih =>
    unfold insertDay
    split
    · intro d hd t ht
      rcases List.mem_cons.mp hd with rfl | hd
      · cases ht
      · exact h d hd t ht
    · split
      · exact h
      · intro d hd t ht
        rcases List.mem_cons.mp hd with rfl | hd
        · exact h d List.mem_cons_self t ht
        · exact ih (fun d' hd' => h d' (List.mem_cons_of_mem _ hd')) d hd t ht

theorem addToDays_paired (days : List Day) (x : Directive) (h : DaysPaired days)
    (hx : ∀ t, x = .tx t → TxPaired t) : DaysPaired (addToDays days x) := by
  intro d hd t ht
  unfold addToDays at hd
  obtain ⟨d0, hd0, rfl⟩ := List.mem_map.mp hd
  have h0 := insertDay_paired days x.date h d0 hd0
  split at ht
  · cases x with
    | tx tx =>
      simp only [Day.add, List.mem_append, List.mem_singleton] at ht
      rcases ht with ht | rfl
      · exact h0 t ht
      · exact hx _ rfl
    | _ => exact h0 t ht
  · exact h0 t ht

theorem foldl_add_paired (ds : List Directive) (hp : ∀ t, Directive.tx t ∈ ds → TxPaired t) :
    ∀ b : Builder, DaysPaired b.days → DaysPaired (ds.foldl Builder.add b).days := by
  induction ds with
  | nil => intro b hb; exact hb
  | cons x rest ih =>
    intro b hb
    simp only [List.foldl_cons]
    apply ih (fun t ht => hp t (List.mem_cons_of_mem _ ht))
    rw [Builder.add_days]
    exact addToDays_paired _ _ hb (fun t e => hp t (by rw [e]; exact List.mem_cons_self))

theorem ofList_paired (ds : List Directive) (hp : ∀ t, Directive.tx t ∈ ds → TxPaired t) :
    DaysPaired (Builder.ofList ds).days :=
  foldl_add_paired ds hp {} (by intro d hd; cases hd)

theorem ensureDays_paired (b : Builder) (dates : List Int) (h : DaysPaired b.days) :
    DaysPaired (b.ensureDays dates).days := by
  unfold Builder.ensureDays
  simp only
  generalize b.days = days at h
  induction dates generalizing days with
  | nil => exact h
  | cons x rest ih => simp only [List.foldl_cons]; exact ih _ (insertDay_paired _ _ h)



theorem paired_flatMap_bookings (bks : List Booking) :
    Paired (bks.flatMap (fun b => postingBuild b.credit b.debit b.commodity b.quantity)) := by
  induction bks with
  | nil => exact Paired.nil
  | cons b rest ih => simp only [List.flatMap_cons]; exact (paired_postingBuild _ _ _ _ _).append ih

/-! ## what `transaction.Create` produces is paired -/
open Knut.Accrual in
theorem rebook_paired (t : Transaction) (date : Int) (desc : String) (acc : Account) (p : Posting) (q : Rat) :
    TxPaired (rebook t date desc acc p q) := by
  unfold TxPaired rebook
  exact paired_postingBuild _ _ _ _ _

open Knut.Accrual in
theorem expandPosting_paired (t : Transaction) (ad : Addon) (p : Posting) (txs : List Transaction)
    (h : expandPosting t ad p = .ok txs) : ∀ g ∈ txs, TxPaired g := by
  unfold expandPosting at h
  split at h
  · injection h with h
    subst h
    intro g hg
    simp only [List.mem_singleton] at hg
    subst hg
    exact rebook_paired _ _ _ _ _ _
  · split at h
    · cases h
    · split at h
      · cases h
      · injection h with h
        subst h
        exact ieLoop_all _ _ _ _ _ _ _ _ _ (fun date desc q => rebook_paired t date desc ad.account p q)

open Knut.Accrual in
theorem expandLoop_paired (t : Transaction) (ad : Addon) (ps : List Posting) (txs : List Transaction)
    (h : expandLoop t ad ps = .ok txs) : ∀ g ∈ txs, TxPaired g := by
  induction ps generalizing txs with
  | nil =>
    simp only [expandLoop, Step.ok.injEq] at h
    subst h; simp
  | cons p rest ih =>
    simp only [expandLoop] at h
    cases h1 : expandPosting t ad p with
    | panic s => simp [h1] at h
    | ok txs1 =>
      simp only [h1] at h
      cases h2 : expandLoop t ad rest with
      | panic s => simp [h2] at h
      | ok txs2 =>
        simp only [h2, Step.ok.injEq] at h
        subst h
        intro g hg
        rcases List.mem_append.mp hg with hg | hg
        · exact expandPosting_paired t ad p txs1 h1 g hg
        · exact ih txs2 h2 g hg

open Knut.Accrual in
theorem postingsOf_paired (bs : List Accrual.Booking) : Paired (postingsOf bs) := by
  unfold postingsOf
  induction bs with
  | nil => exact Paired.nil
  | cons b rest ih => simp only [List.flatMap_cons]; exact (paired_postingBuild _ _ _ _ _).append ih

open Knut.Accrual in
/-- what `create` does on an annotated transaction that it accepts (as `C10.create_ok`) -/
theorem create_ok' {t : TxInput} {ad : Addon} {gen : List Transaction}
    (ha : t.accrual = some ad) (h : create t = .ok gen) :
    expandLoop { date := t.date, description := t.description, postings := postingsOf t.bookings, targets := t.targets }
      ad (postingsOf t.bookings) = .ok gen := by
  unfold create at h
  split at h
  · cases h
  · simp only [ha] at h
    unfold expand at h
    split at h
    · cases h
    · split at h
      · cases h
      · split at h
        · cases h
        · rename_i txs hx
          injection h with h
          subst h
          exact hx

open Knut.Accrual in
/-- **everything `transaction.Create` returns is paired**, with or without `@accrue` -/
theorem create_paired (t : TxInput) (gen : List Transaction) (h : create t = .ok gen) :
    ∀ g ∈ gen, TxPaired g := by
  cases ha : t.accrual with
  | none =>
    unfold create at h
    split at h
    · cases h
    · simp only [ha] at h
      injection h with h
      subst h
      intro g hg
      simp only [List.mem_singleton] at hg
      subst hg
      exact postingsOf_paired _
  | some ad => exact expandLoop_paired _ ad _ gen (create_ok' ha h)


/-! ## the driver's loader (`Driver.C04.load`, used by every journal-taking driver op) -/

/-- transactions among indexed directives are paired -/
def IdsPaired (ids : List (Nat × Directive)) : Prop := ∀ p ∈ ids, ∀ t, p.2 = Directive.tx t → TxPaired t

theorem load_go_paired :
    ∀ (rest : List Driver.RawDirective) (i : Nat) (acc ids : List (Nat × Directive)), IdsPaired acc →
      Driver.C04.load.go i rest acc = .ok ids → IdsPaired ids := by
  intro rest
  induction rest with
  | nil =>
    intro i acc ids hacc h
    simp only [Driver.C04.load.go] at h
    injection h with h
    subst h
    intro p hp; exact hacc p (List.mem_reverse.mp hp)
  | cons d tl ih =>
    intro i acc ids hacc h
    have hcons : ∀ (x : Directive), (∀ t, x = .tx t → TxPaired t) → IdsPaired ((i, x) :: acc) := by
      intro x hx p hp t ht
      rcases List.mem_cons.mp hp with rfl | hp
      · exact hx t ht
      · exact hacc p hp t ht
    cases d with
    | price p => simp only [Driver.C04.load.go] at h; exact ih _ _ _ (hcons _ (by intro t e; cases e)) h
    | opening p => simp only [Driver.C04.load.go] at h; exact ih _ _ _ (hcons _ (by intro t e; cases e)) h
    | closing p => simp only [Driver.C04.load.go] at h; exact ih _ _ _ (hcons _ (by intro t e; cases e)) h
    | assertion p => simp only [Driver.C04.load.go] at h; exact ih _ _ _ (hcons _ (by intro t e; cases e)) h
    | tx date desc tg ac bks =>
      cases ac with
      | none =>
        simp only [Driver.C04.load.go] at h
        refine ih _ _ _ (hcons _ ?_) h
        intro t e; injection e with e; subst e
        exact paired_flatMap_bookings _
      | some a =>
        simp only [Driver.C04.load.go] at h
        split at h
        · cases h
        · split at h
          · rename_i txs hc
            refine ih _ _ _ ?_ h
            intro p hp t ht
            rcases List.mem_append.mp hp with hp | hp
            · obtain ⟨g, hg, rfl⟩ := List.mem_map.mp (List.mem_reverse.mp hp)
              injection ht with ht; subst ht
              exact create_paired _ _ hc g hg
            · exact hacc p hp t ht
          · cases h
          · cases h

/-! ## shape of rendered rows -/

/-- shape of the rows rendered for one name: a first row that starts with the name, continuation rows
that start with an empty cell -/
theorem renderVals_shape (rc : RenderCfg) (dc : Bool) (indent : Nat) (name : String) (neg : Bool)
    (coms : List (Option Commodity)) (cell : Option Commodity → Int → Rat) :
    ∃ r rs, BalanceReport.renderVals rc dc indent name neg coms cell = r :: rs ∧
      r.head? = some (Cell.text name.toList .left indent) ∧ ∀ r' ∈ rs, r'.head? = some Cell.empty := by
  unfold BalanceReport.renderVals
  simp only
  cases coms with
  | nil => exact ⟨_, [], rfl, rfl, by intro r' h; cases h⟩
  | cons c cs =>
    simp only [List.isEmpty_cons, Bool.false_eq_true, if_false, List.zipIdx_cons, List.map_cons]
    refine ⟨_, _, rfl, rfl, ?_⟩
    intro r' hr'
    obtain ⟨p, hm, rfl⟩ := List.mem_map.mp hr'
    have hi : 0 + 1 ≤ p.2 := List.le_snd_of_mem_zipIdx hm
    have : ¬ p.2 = 0 := by omega
    simp only [this, if_false, List.cons_append, List.head?_cons]

end Knut
