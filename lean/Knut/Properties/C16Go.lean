import Knut.Properties.C16
import Knut.FactsAgree.TransBeancount
/-!
# C16 on the generated definitions

The theorems of `Properties/C16.lean` are about the entry list `Beancount.transcodeEntries v days` (= `Beancount.entries` of the
processed days `Beancount.process v days`); `FactsAgree/TransBeancount.lean` proves that the function translated from `/repo`'s
`lib/beancount/beancount.go` writes exactly the text of that entry list (`Transcode_agrees`), for EVERY sorting algorithm `sort1` with
the guarantee of the unstable `compare.Sort` on each day's transactions.  This module composes the two: the clauses of C16 are stated
about the text `Go.beancount.Transcode w j v sort1` returns.

**Partial** (every theorem here is named `…_go_partial`): the hypothesis `hj : AllRel (PDayRel cur) j.Days pds` — the Go journal handed
to `Transcode` stands, day by day, for the processed days `pds` of the model's pipeline — is NOT discharged.  It is what running the
translated stages `Sort`, `ComputePrices`, `check`, `Valuate` (per DAY proved equal to the model in `FactsAgree/TransProcess.lean`,
`TransCheck.lean`) over the whole journal through the untranslated `Journal.Process` (`cpr.Seq`, C19) would establish; the composition of
those per-day theorems over a journal is missing.  The other hypotheses are those of `Transcode_agrees`: `DayOK` (dates from year 0 on,
one account per name among a day's postings — what the registry guarantees) and `v ≠ ""`.

The clauses speak about the entry list `es` of which the written text is the rendering `Beancount.render v es` (the harness reads the
entries back from the real output; no ledger parser exists in Lean).
-/
namespace Knut.C16Go
open Knut Knut.Beancount Knut.BeancountSpec
open Knut.Generated.Go
open Knut.FactsAgree.TransBeancount Knut.FactsAgree.TransProcess Knut.FactsAgree.TransPosting

/-- the type of the sorting algorithm parameter of the translated `Transcode` -/
abbrev SortAlg := (transaction.Transaction → transaction.Transaction → GoSem.Outcome Int) →
  List transaction.Transaction → List transaction.Transaction

/-- **the bridge**: what the translated `Transcode` writes is the rendering of the model's entry list, no error, no panic -/
theorem Transcode_writes_go_partial (cur : String → Bool) (w : String) (j : journal.Journal) (days : List Day)
    (pds : List ProcDay) (v : Commodity) (sort1 : SortAlg)
    (hs : ∀ g ∈ j.Days, GoSem.SortSliceOn sort1 transaction.Compare (GoSem.Outcome.ok (-1)) g.Transactions)
    (hp : process v days = .ok pds) (hj : AllRel (PDayRel cur) j.Days pds) (hok : ∀ d ∈ pds, DayOK d) (hv : v ≠ "") :
    ∃ es, transcodeEntries v days = .ok es ∧
      beancount.Transcode w j (commodityGo cur v) sort1 = .ok (w ++ render v es, none) := by
  refine ⟨entries pds, by simp [transcodeEntries, hp, Except.map], ?_⟩
  exact Transcode_agrees cur w j pds v sort1 hs hj hok hv

/-- **balanced**: the text written is the rendering of a ledger whose every transaction sums to exactly zero in the valuation commodity -/
theorem C16_balanced_go_partial (cur : String → Bool) (w : String) (j : journal.Journal) (days : List Day)
    (pds : List ProcDay) (v : Commodity) (sort1 : SortAlg)
    (hs : ∀ g ∈ j.Days, GoSem.SortSliceOn sort1 transaction.Compare (GoSem.Outcome.ok (-1)) g.Transactions)
    (hp : process v days = .ok pds) (hj : AllRel (PDayRel cur) j.Days pds) (hok : ∀ d ∈ pds, DayOK d) (hv : v ≠ "")
    (hpaired : C16.PairedDays days) :
    ∃ es, beancount.Transcode w j (commodityGo cur v) sort1 = .ok (w ++ render v es, none) ∧ balanced es = true := by
  obtain ⟨es, he, ht⟩ := Transcode_writes_go_partial cur w j days pds v sort1 hs hp hj hok hv
  exact ⟨es, ht, C16.C16_balanced v days hpaired es he⟩

/-- **chronological**: … whose entry dates never decrease -/
theorem C16_chronological_go_partial (cur : String → Bool) (w : String) (j : journal.Journal) (days : List Day)
    (pds : List ProcDay) (v : Commodity) (sort1 : SortAlg)
    (hs : ∀ g ∈ j.Days, GoSem.SortSliceOn sort1 transaction.Compare (GoSem.Outcome.ok (-1)) g.Transactions)
    (hp : process v days = .ok pds) (hj : AllRel (PDayRel cur) j.Days pds) (hok : ∀ d ∈ pds, DayOK d) (hv : v ≠ "")
    (hw : C16.WFDays days) :
    ∃ es, beancount.Transcode w j (commodityGo cur v) sort1 = .ok (w ++ render v es, none) ∧ chronological es = true := by
  obtain ⟨es, he, ht⟩ := Transcode_writes_go_partial cur w j days pds v sort1 hs hp hj hok hv
  exact ⟨es, ht, C16.C16_chronological v days hw es he⟩

/-- **open before use** (itself partial in the model: the generated valuation account of a value adjustment is excepted, known finding) -/
theorem C16_open_before_use_go_partial (cur : String → Bool) (w : String) (j : journal.Journal) (days : List Day)
    (pds : List ProcDay) (v : Commodity) (sort1 : SortAlg)
    (hs : ∀ g ∈ j.Days, GoSem.SortSliceOn sort1 transaction.Compare (GoSem.Outcome.ok (-1)) g.Transactions)
    (hp : process v days = .ok pds) (hj : AllRel (PDayRel cur) j.Days pds) (hok : ∀ d ∈ pds, DayOK d) (hv : v ≠ "")
    (hw : C16.WFDays days) :
    ∃ es, beancount.Transcode w j (commodityGo cur v) sort1 = .ok (w ++ render v es, none) ∧
      lifecycleOKExceptValuation es = true := by
  obtain ⟨es, he, ht⟩ := Transcode_writes_go_partial cur w j days pds v sort1 hs hp hj hok hv
  exact ⟨es, ht, C16.C16_open_before_use_partial v days hw es he⟩

/-- **transaction bijection**: the transactions of the ledger written are exactly the transactions of the processed journal, each once
— whatever rearrangement of tied transactions the unstable sort chose -/
theorem C16_tx_bijection_go_partial (cur : String → Bool) (w : String) (j : journal.Journal) (days : List Day)
    (pds : List ProcDay) (v : Commodity) (sort1 : SortAlg)
    (hs : ∀ g ∈ j.Days, GoSem.SortSliceOn sort1 transaction.Compare (GoSem.Outcome.ok (-1)) g.Transactions)
    (hp : process v days = .ok pds) (hj : AllRel (PDayRel cur) j.Days pds) (hok : ∀ d ∈ pds, DayOK d) (hv : v ≠ "") :
    ∃ es, beancount.Transcode w j (commodityGo cur v) sort1 = .ok (w ++ render v es, none) ∧
      (txsOf es).Perm (pds.flatMap (·.transactions)) ∧ sameTxs (txsOf es) (pds.flatMap (·.transactions)) = true := by
  obtain ⟨es, he, ht⟩ := Transcode_writes_go_partial cur w j days pds v sort1 hs hp hj hok hv
  obtain ⟨pds', hp', h1, h2⟩ := C16.C16_tx_bijection v days es he
  rw [hp] at hp'
  injection hp' with hp'
  subst hp'
  exact ⟨es, ht, h1, h2⟩

/-- **the sorting algorithm cannot show**: two algorithms with the guarantee of `sort.Slice` write the same text -/
theorem C16_sort_irrelevant_go_partial (cur : String → Bool) (w : String) (j : journal.Journal) (pds : List ProcDay)
    (v : Commodity) (sort1 sort2 : SortAlg)
    (hs1 : GoSem.SortSliceSpec sort1 transaction.Compare (GoSem.Outcome.ok (-1)))
    (hs2 : GoSem.SortSliceSpec sort2 transaction.Compare (GoSem.Outcome.ok (-1)))
    (hj : AllRel (PDayRel cur) j.Days pds) (hok : ∀ d ∈ pds, DayOK d) (hv : v ≠ "") :
    beancount.Transcode w j (commodityGo cur v) sort1 = beancount.Transcode w j (commodityGo cur v) sort2 := by
  rw [Transcode_agrees_spec cur w j pds v sort1 hs1 hj hok hv, Transcode_agrees_spec cur w j pds v sort2 hs2 hj hok hv]

/-! ### Non-vacuity: an empty journal (the command on a file without directives): every hypothesis holds, the translated `Transcode`
writes the header only.  (`FactsAgree/TransBeancount.lean` ends with an `example` that discharges `hs`, `hj`, `DayOK` on a day with two
tied transactions and the reversing "sort".) -/
example : ∃ es, beancount.Transcode "" ⟨[]⟩ (commodityGo (fun _ => true) "CHF") (fun _ xs => xs) =
      .ok ("" ++ render "CHF" es, none) ∧ balanced es = true ∧ chronological es = true :=
  let ⟨es, he, ht⟩ := Transcode_writes_go_partial (fun _ => true) "" ⟨[]⟩ [] [] "CHF" (fun _ xs => xs)
    (by intro g hg; cases hg) rfl .nil (by intro d hd; cases hd) (by decide)
  ⟨es, ht, C16.C16_balanced "CHF" [] (by intro d hd; cases hd) es he,
    C16.C16_chronological "CHF" [] ⟨List.Pairwise.nil, by intro d hd; cases hd⟩ es he⟩

end Knut.C16Go
