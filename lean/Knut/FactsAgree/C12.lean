import Knut.Generated.Facts
import Knut.Model.Prices
/-! The constants and structural facts extracted from `lib/model/price/prices.go` (and the pinned
shopspring source) on every run agree with what the model assumes.  A source change that
invalidates one of them breaks this module, hence `Properties/C12.lean`. -/
namespace Knut.FactsAgree.C12
open Knut

theorem multiply_truncate : Generated.priceMultiplyTruncate = Prices.multiplyPlaces := by decide
theorem insert_truncate : Generated.priceInsertTruncate = Prices.insertPlaces := by decide
theorem normalize_sorts : Generated.priceNormalizeSortedNeighbors = Prices.sortsNeighbors := by decide
/-- `Dec.div16` rounds the quotient to `DivisionPrecision` = 16 places -/
theorem division_precision : Generated.divisionPrecision = 16 := by decide

end Knut.FactsAgree.C12
