import Knut.Generated.TransAccount
import Knut.FactsAgree.TransAccount
import Knut.FactsAgree.TransMapping
/-!
# The type-word swap of `account.Registry.SwapType` (a translated FRAGMENT) agrees with the model's `swapType`

`SwapType` as a whole is outside the translated subset (mutexes, the swap cache, the registry's `Get`).  Its middle part — the
statements that compute the NAME of the swapped account from `a.name` and `a.Type()` — is translated as the fragment
`account.Registry.SwapType.name` (`harness/trans_units_mapping.go`, `Knut/Generated/TransAccount.lean`):

    n := a.name
    switch a.Type() { case ASSETS: n = LIABILITIES.String() + strings.TrimPrefix(n, ASSETS.String()) … }

What is around it is not translated: before it the lookup in the cache `as.swaps` (which holds results of earlier calls), after it
`as.Get(n)` (the account of that name; a panic if there is none) and the store into the cache.
-/
namespace Knut.FactsAgree.TransSwapType
open Knut Knut.GoSem
open Knut.Generated.Go
open Knut.FactsAgree.TransAccount (accountGo typeGo)

/-- what follows the first segment in an account's name -/
def tailChars (rest : List String) : List Char := rest.flatMap (fun s => ':' :: s.toList)

theorem name_toList (x : String) (rest : List String) :
    (Knut.Account.name ⟨x :: rest⟩).toList = x.toList ++ tailChars rest := by
  unfold Knut.Account.name tailChars
  rw [String.toList_intercalate]
  have : (":" : String).toList = [':'] := rfl
  rw [this]
  show [':'].intercalate ((x :: rest).map String.toList) = _
  induction rest generalizing x with
  | nil => simp
  | cons y ys ih =>
    simp only [List.map_cons] at ih ⊢
    rw [List.intercalate_cons_cons, ih y]
    simp

theorem TrimPrefix_name (x : String) (rest : List String) :
    Strings.TrimPrefix (Knut.Account.name ⟨x :: rest⟩) x = String.ofList (tailChars rest) := by
  unfold Strings.TrimPrefix
  rw [name_toList]
  simp

theorem swap_name (x y : String) (rest : List String) :
    y ++ Strings.TrimPrefix (Knut.Account.name ⟨x :: rest⟩) x = Knut.Account.name ⟨y :: rest⟩ := by
  rw [TrimPrefix_name]
  apply String.toList_inj.mp
  rw [name_toList]
  simp

theorem ofName_eq {s : String} {t : AccountType} (h : AccountType.ofName s = some t) : s = t.name := by
  unfold AccountType.ofName at h
  repeat' split at h
  all_goals first | (injection h with h; subst h; subst_vars; rfl) | cases h

/-- **`SwapType`'s name computation** = the name of the model's `swapType`: for an account that starts with a type word the
translated statements produce the name with `Assets ↔ Liabilities`, `Income ↔ Expenses` swapped and every other name unchanged;
never a panic -/
theorem SwapType_name_agrees (a : Knut.Account) (h : a.wf = true) :
    account.Registry.SwapType.name (accountGo a) = .ok (swapType a).name := by
  obtain ⟨segs⟩ := a
  cases segs with
  | nil => cases h
  | cons s rest =>
    have ht : (AccountType.ofName s).isSome = true := h
    cases hty : AccountType.ofName s with
    | none => rw [hty] at ht; cases ht
    | some t =>
      have hs := ofName_eq hty
      have hacc : (accountGo ⟨s :: rest⟩).accountType = typeGo t := by
        simp [accountGo, Knut.Account.type?, hty]
      have hname : (accountGo ⟨s :: rest⟩).name = Knut.Account.name ⟨s :: rest⟩ := rfl
      unfold account.Registry.SwapType.name
      simp only [account.Account.Type_, hacc, hname]
      subst hs
      cases t <;>
        simp [typeGo, account.ASSETS, account.LIABILITIES, account.INCOME, account.EXPENSES, account.EQUITY, account.Type_.String,
          swapType, AccountType.name, swap_name]

/-- an account without a type word (never created by the registry) keeps its name -/
theorem SwapType_name_other (a : account.Account)
    (h : a.accountType ≠ account.ASSETS ∧ a.accountType ≠ account.LIABILITIES ∧ a.accountType ≠ account.INCOME ∧
      a.accountType ≠ account.EXPENSES) :
    account.Registry.SwapType.name a = .ok a.name := by
  unfold account.Registry.SwapType.name
  simp [account.Account.Type_, h.1, h.2.1, h.2.2.1, h.2.2.2]

theorem name_externals_pinned : account.Registry.SwapType.name.externals = [] := rfl

/-- `SwapType` as the untranslated statements around the fragment compose it: the account that `as.Get` returns for the computed
name (a hit in the cache `as.swaps` returns what an earlier call stored there: the same account) -/
def swapVia (get : String → account.Account) (a : account.Account) : account.Account :=
  match account.Registry.SwapType.name a with
  | .ok n => get n
  | _ => a

/-- with a registry whose `Get` returns THE account of a name, `SwapType` is what `TransMapping.Remap_model` and
`TransBalanceCmd.query_posting_model` assume of it (`RegistrySwap`) -/
theorem RegistrySwap_of_get (get : String → account.Account)
    (hget : ∀ b : Knut.Account, b.wf = true → get b.name = accountGo b) :
    TransMapping.RegistrySwap (swapVia get) := by
  intro b hb
  unfold swapVia
  rw [SwapType_name_agrees b hb]
  exact hget _ (TransMapping.swapType_wf hb)

/-- non-vacuity -/
example : account.Registry.SwapType.name (accountGo ⟨["Assets", "Bank", "CHF"]⟩) = .ok "Liabilities:Bank:CHF" ∧
    account.Registry.SwapType.name (accountGo ⟨["Expenses"]⟩) = .ok "Income" ∧
    account.Registry.SwapType.name (accountGo ⟨["Equity", "X"]⟩) = .ok "Equity:X" := by decide +kernel

end Knut.FactsAgree.TransSwapType
