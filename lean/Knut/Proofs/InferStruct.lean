import Knut.Proofs.InferCounts
/-!
# What `inferAccount` / `Infer` can and cannot change (helper lemmas for C15), for every score function
-/
namespace Knut.Infer
open Knut Knut.Syntax Knut.Spec.Infer

variable {S : Type} (sc : Scorer S) (m : Model)

theorem inferStep_other (tokens : List Bytes) (other : Bytes) (st : Bytes × Option S) : inferStep sc m tokens other st other = st := by
  simp [inferStep]

theorem inferStep_cases (tokens : List Bytes) (other : Bytes) (st : Bytes × Option S) (c : Bytes) :
    inferStep sc m tokens other st c = st ∨
      (c ≠ other ∧ inferStep sc m tokens other st c = (c, some (m.scoreCandidate sc c tokens))) := by
  unfold inferStep
  by_cases h : c = other
  · simp [h]
  · simp only [h, if_false]
    rcases st with ⟨best, mx⟩
    cases mx with
    | none => exact Or.inr ⟨h, by simp⟩
    | some mx =>
      by_cases g : sc.gt (m.scoreCandidate sc c tokens) mx = true
      · exact Or.inr ⟨h, by simp [g]⟩
      · exact Or.inl (by simp [g])

theorem inferStep_first (tokens : List Bytes) (other : Bytes) (best c : Bytes) (h : c ≠ other) :
    inferStep sc m tokens other (best, none) c = (c, some (m.scoreCandidate sc c tokens)) := by
  simp [inferStep, h]

/-- the loop either keeps `best` or moves it to a candidate of the list that is not `other` -/
theorem foldl_inferStep_fst (tokens : List Bytes) (other : Bytes) : ∀ (l : List Bytes) (st : Bytes × Option S),
    (l.foldl (inferStep sc m tokens other) st).1 = st.1 ∨
      ((l.foldl (inferStep sc m tokens other) st).1 ∈ l ∧ (l.foldl (inferStep sc m tokens other) st).1 ≠ other)
  | [], st => Or.inl rfl
  | c :: cs, st => by
    rw [List.foldl_cons]
    rcases inferStep_cases sc m tokens other st c with h | ⟨hne, h⟩
    · rw [h]
      rcases foldl_inferStep_fst tokens other cs st with e | ⟨e1, e2⟩
      · exact Or.inl e
      · exact Or.inr ⟨List.mem_cons_of_mem _ e1, e2⟩
    · rw [h]
      rcases foldl_inferStep_fst tokens other cs (c, some (m.scoreCandidate sc c tokens)) with e | ⟨e1, e2⟩
      · right; rw [e]; exact ⟨by simp, hne⟩
      · exact Or.inr ⟨List.mem_cons_of_mem _ e1, e2⟩

/-- starting from `max = -Inf`, the first candidate that is not `other` is taken, so the loop ends on a candidate -/
theorem foldl_inferStep_some (tokens : List Bytes) (other : Bytes) : ∀ (l : List Bytes) (best : Bytes), (∃ c ∈ l, c ≠ other) →
    (l.foldl (inferStep sc m tokens other) (best, none)).1 ∈ l ∧ (l.foldl (inferStep sc m tokens other) (best, none)).1 ≠ other
  | [], _, h => by obtain ⟨c, hc, _⟩ := h; cases hc
  | c :: cs, best, h => by
    rw [List.foldl_cons]
    by_cases hc : c = other
    · subst hc
      rw [inferStep_other]
      obtain ⟨x, hx, hxo⟩ := h
      have : ∃ c' ∈ cs, c' ≠ c := by
        rcases List.mem_cons.mp hx with e | e
        · exact absurd e hxo
        · exact ⟨x, e, hxo⟩
      obtain ⟨h1, h2⟩ := foldl_inferStep_some tokens c cs best this
      exact ⟨List.mem_cons_of_mem _ h1, h2⟩
    · rw [inferStep_first sc m tokens other best c hc]
      rcases foldl_inferStep_fst sc m tokens other cs (c, some (m.scoreCandidate sc c tokens)) with e | ⟨e1, e2⟩
      · rw [e]; exact ⟨by simp, hc⟩
      · exact ⟨List.mem_cons_of_mem _ e1, e2⟩

/-- without a candidate the loop changes nothing -/
theorem foldl_inferStep_none (tokens : List Bytes) (other : Bytes) : ∀ (l : List Bytes) (st : Bytes × Option S), (∀ c ∈ l, c = other) →
    l.foldl (inferStep sc m tokens other) st = st
  | [], _, _ => rfl
  | c :: cs, st, h => by
    rw [List.foldl_cons, h c (by simp), inferStep_other]
    exact foldl_inferStep_none tokens other cs st (fun x hx => h x (List.mem_cons_of_mem _ hx))

/-- the inferred account is a key of `countByAccount`, differs from `other`, and is not the empty name -/
theorem inferAccount_some {desc : Bytes} {b : BookingV} {other a : Bytes} (h : m.inferAccount sc desc b other = some a) :
    a ∈ m.countByAccount.keys ∧ a ≠ other ∧ a ≠ [] := by
  simp only [Model.inferAccount] at h
  split at h
  · cases h
  · rename_i hne
    injection h with h
    subst h
    rcases foldl_inferStep_fst sc m (tokenize desc b.commodity b.quantity other) other (sortU m.countByAccount.keys) ([], none) with e | ⟨e1, e2⟩
    · exact absurd e hne
    · exact ⟨mem_sortU.mp e1, e2, hne⟩

/-- no key other than `other`: `ok = false` -/
theorem inferAccount_none {desc : Bytes} {b : BookingV} {other : Bytes} (h : ∀ k ∈ m.countByAccount.keys, k = other) :
    m.inferAccount sc desc b other = none := by
  simp only [Model.inferAccount]
  rw [foldl_inferStep_none sc m _ other _ _ (fun c hc => h c (mem_sortU.mp hc))]
  simp

/-- some key other than `other` (and no empty key, as after training): an account is inferred -/
theorem inferAccount_isSome {desc : Bytes} {b : BookingV} {other : Bytes} (hne : [] ∉ m.countByAccount.keys)
    (h : ∃ k ∈ m.countByAccount.keys, k ≠ other) : ∃ a, m.inferAccount sc desc b other = some a := by
  obtain ⟨k, hk, hko⟩ := h
  have := foldl_inferStep_some sc m (tokenize desc b.commodity b.quantity other) other (sortU m.countByAccount.keys) []
    ⟨k, mem_sortU.mpr hk, hko⟩
  simp only [Model.inferAccount]
  split
  · rename_i e
    rw [e] at this
    exact absurd (mem_sortU.mp this.1) hne
  · exact ⟨_, rfl⟩

/-- what `Infer` does to one booking, in terms of the keys of `countByAccount` -/
structure BookingSpec (keys : List Bytes) (placeholder : Bytes) (b b' : BookingV) : Prop where
  quantity : b'.quantity = b.quantity
  commodity : b'.commodity = b.commodity
  credit_other : b.credit ≠ placeholder → b'.credit = b.credit
  credit_kept : (∀ k ∈ keys, k = b.debit) → b'.credit = b.credit
  credit_new : b.credit = placeholder → (∃ k ∈ keys, k ≠ b.debit) → b'.credit ∈ keys ∧ b'.credit ≠ b.debit
  credit_cases : b'.credit = b.credit ∨ (b.credit = placeholder ∧ b'.credit ∈ keys ∧ b'.credit ≠ b.debit ∧ b'.credit ≠ [])
  debit_other : b.debit ≠ placeholder → b'.debit = b.debit
  debit_kept : (∀ k ∈ keys, k = b'.credit) → b'.debit = b.debit
  debit_new : b.debit = placeholder → (∃ k ∈ keys, k ≠ b'.credit) → b'.debit ∈ keys ∧ b'.debit ≠ b'.credit
  debit_cases : b'.debit = b.debit ∨ (b.debit = placeholder ∧ b'.debit ∈ keys ∧ b'.debit ≠ b'.credit ∧ b'.debit ≠ [])

/-- the first half of the loop body of `Infer` -/
def Model.inferCredit (desc : Bytes) (b : BookingV) : BookingV :=
  if b.credit = m.account then
    match m.inferAccount sc desc b b.debit with
    | some a => { b with credit := a }
    | none => b
  else b

/-- the second half -/
def Model.inferDebit (desc : Bytes) (b1 : BookingV) : BookingV :=
  if b1.debit = m.account then
    match m.inferAccount sc desc b1 b1.credit with
    | some a => { b1 with debit := a }
    | none => b1
  else b1

theorem inferCredit_fields (desc : Bytes) (b : BookingV) :
    (m.inferCredit sc desc b).debit = b.debit ∧ (m.inferCredit sc desc b).quantity = b.quantity ∧
      (m.inferCredit sc desc b).commodity = b.commodity := by
  unfold Model.inferCredit
  split
  · split <;> simp
  · simp

theorem inferDebit_fields (desc : Bytes) (b : BookingV) :
    (m.inferDebit sc desc b).credit = b.credit ∧ (m.inferDebit sc desc b).quantity = b.quantity ∧
      (m.inferDebit sc desc b).commodity = b.commodity := by
  unfold Model.inferDebit
  split
  · split <;> simp
  · simp

theorem inferBooking_steps (desc : Bytes) (b : BookingV) :
    m.inferBooking sc desc b = m.inferDebit sc desc (m.inferCredit sc desc b) := by
  simp only [Model.inferBooking, Model.inferDebit, Model.inferCredit]
  have key : ∀ b1 : BookingV, b1.debit = b.debit →
      (if b.debit = m.account then
        match m.inferAccount sc desc b1 b1.credit with
        | some a => { b1 with debit := a }
        | none => b1
      else b1) =
      (if b1.debit = m.account then
        match m.inferAccount sc desc b1 b1.credit with
        | some a => { b1 with debit := a }
        | none => b1
      else b1) := by
    intro b1 e; rw [e]
  exact key _ (inferCredit_fields sc m desc b).1

/-- **`Infer` on one booking, for every score function** (`hne`: no empty key, as after training) -/
theorem inferBooking_spec (desc : Bytes) (b : BookingV) (hne : [] ∉ m.countByAccount.keys) :
    BookingSpec m.countByAccount.keys m.account b (m.inferBooking sc desc b) := by
  rw [inferBooking_steps]
  obtain ⟨c1, c2, c3⟩ := inferCredit_fields sc m desc b
  obtain ⟨d1, d2, d3⟩ := inferDebit_fields sc m desc (m.inferCredit sc desc b)
  -- the credit step
  have hc_other : b.credit ≠ m.account → (m.inferCredit sc desc b).credit = b.credit := by
    intro h; simp [Model.inferCredit, h]
  have hc_kept : (∀ k ∈ m.countByAccount.keys, k = b.debit) → (m.inferCredit sc desc b).credit = b.credit := by
    intro h
    unfold Model.inferCredit
    rw [inferAccount_none sc m h]
    split <;> rfl
  have hc_cases : (m.inferCredit sc desc b).credit = b.credit ∨
      (b.credit = m.account ∧ (m.inferCredit sc desc b).credit ∈ m.countByAccount.keys ∧
        (m.inferCredit sc desc b).credit ≠ b.debit ∧ (m.inferCredit sc desc b).credit ≠ []) := by
    unfold Model.inferCredit
    split
    · rename_i hph
      cases hi : m.inferAccount sc desc b b.debit with
      | none => exact Or.inl rfl
      | some a => exact Or.inr ⟨hph, inferAccount_some sc m hi⟩
    · exact Or.inl rfl
  have hc_new : b.credit = m.account → (∃ k ∈ m.countByAccount.keys, k ≠ b.debit) →
      (m.inferCredit sc desc b).credit ∈ m.countByAccount.keys ∧ (m.inferCredit sc desc b).credit ≠ b.debit := by
    intro hph hex
    obtain ⟨a, ha⟩ := inferAccount_isSome sc m (desc := desc) (b := b) hne hex
    have := inferAccount_some sc m ha
    simp only [Model.inferCredit, hph, if_true, ha]
    exact ⟨this.1, this.2.1⟩
  -- the debit step, on the booking the credit step left
  generalize m.inferCredit sc desc b = b1 at *
  have hd_other : b1.debit ≠ m.account → (m.inferDebit sc desc b1).debit = b1.debit := by
    intro h; simp [Model.inferDebit, h]
  have hd_kept : (∀ k ∈ m.countByAccount.keys, k = b1.credit) → (m.inferDebit sc desc b1).debit = b1.debit := by
    intro h
    unfold Model.inferDebit
    rw [inferAccount_none sc m h]
    split <;> rfl
  have hd_cases : (m.inferDebit sc desc b1).debit = b1.debit ∨
      (b1.debit = m.account ∧ (m.inferDebit sc desc b1).debit ∈ m.countByAccount.keys ∧
        (m.inferDebit sc desc b1).debit ≠ b1.credit ∧ (m.inferDebit sc desc b1).debit ≠ []) := by
    unfold Model.inferDebit
    split
    · rename_i hph
      cases hi : m.inferAccount sc desc b1 b1.credit with
      | none => exact Or.inl rfl
      | some a => exact Or.inr ⟨hph, inferAccount_some sc m hi⟩
    · exact Or.inl rfl
  have hd_new : b1.debit = m.account → (∃ k ∈ m.countByAccount.keys, k ≠ b1.credit) →
      (m.inferDebit sc desc b1).debit ∈ m.countByAccount.keys ∧ (m.inferDebit sc desc b1).debit ≠ b1.credit := by
    intro hph hex
    obtain ⟨a, ha⟩ := inferAccount_isSome sc m (desc := desc) (b := b1) hne hex
    have := inferAccount_some sc m ha
    simp only [Model.inferDebit, hph, if_true, ha]
    exact ⟨this.1, this.2.1⟩
  refine ⟨by rw [d2, c2], by rw [d3, c3], ?_, ?_, ?_, ?_, ?_, ?_, ?_, ?_⟩
  · intro h; rw [d1]; exact hc_other h
  · intro h; rw [d1]; exact hc_kept h
  · intro h1 h2; rw [d1]; exact hc_new h1 h2
  · rw [d1]; exact hc_cases
  · intro h; rw [← c1] at h ⊢; exact hd_other h
  · intro h; rw [d1] at h; rw [← c1]; exact hd_kept h
  · intro h1 h2; rw [d1] at h2 ⊢; rw [← c1] at h1; exact hd_new h1 h2
  · rw [d1, ← c1]; exact hd_cases

/-! ### the executable predicate holds of what the model does -/

theorem all_beq_iff (l : List Bytes) (x : Bytes) : (l.all (· == x)) = true ↔ ∀ k ∈ l, k = x := by
  simp [List.all_eq_true]

/-- `bookingOK` from `BookingSpec`, for any enumeration `training` of the keys that contains neither the placeholder
nor the empty name -/
theorem bookingOK_of_spec {keys training : List Bytes} {placeholder : Bytes} {b b' : BookingV}
    (h : BookingSpec keys placeholder b b') (hk : ∀ a, a ∈ training ↔ a ∈ keys) :
    bookingOK placeholder training b b' = true := by
  have hall : ∀ x, (training.all (· == x)) = true ↔ ∀ k ∈ keys, k = x := by
    intro x; rw [all_beq_iff]; exact ⟨fun f k hk' => f k ((hk k).mpr hk'), fun f k hk' => f k ((hk k).mp hk')⟩
  have hcredit : fieldOK placeholder training b.credit b'.credit b.debit b'.debit = true := by
    unfold fieldOK
    by_cases h1 : b.credit = placeholder
    · simp only [h1, beq_self_eq_true, if_true]
      by_cases h2 : ∀ k ∈ keys, k = b.debit
      · rw [if_pos ((hall _).mpr h2)]
        simp [h.credit_kept h2, h1]
      · rw [if_neg (fun e => h2 ((hall _).mp e))]
        have hex : ∃ k ∈ keys, k ≠ b.debit := by
          apply Classical.byContradiction; intro hn; apply h2; intro k hk'
          apply Classical.byContradiction; intro hne; exact hn ⟨k, hk', hne⟩
        obtain ⟨n1, n2⟩ := h.credit_new h1 hex
        have n3 : b'.credit ≠ b'.debit := by
          rcases h.debit_cases with e | ⟨_, _, e, _⟩
          · rw [e]; exact n2
          · exact fun x => e x.symm
        simp [(hk _).mpr n1, n2, n3]
    · have := h.credit_other h1
      simp [h1, this]
  have hdebit : fieldOK placeholder training b.debit b'.debit b'.credit b'.credit = true := by
    unfold fieldOK
    by_cases h1 : b.debit = placeholder
    · simp only [h1, beq_self_eq_true, if_true]
      by_cases h2 : ∀ k ∈ keys, k = b'.credit
      · rw [if_pos ((hall _).mpr h2)]
        simp [h.debit_kept h2, h1]
      · rw [if_neg (fun e => h2 ((hall _).mp e))]
        have hex : ∃ k ∈ keys, k ≠ b'.credit := by
          apply Classical.byContradiction; intro hn; apply h2; intro k hk'
          apply Classical.byContradiction; intro hne; exact hn ⟨k, hk', hne⟩
        obtain ⟨n1, n2⟩ := h.debit_new h1 hex
        simp [(hk _).mpr n1, n2]
    · have := h.debit_other h1
      simp [h1, this]
  simp [bookingOK, h.quantity, h.commodity, hcredit, hdebit]

theorem bookingsOK_map {keys training : List Bytes} {placeholder : Bytes} (f : BookingV → BookingV)
    (h : ∀ b, BookingSpec keys placeholder b (f b)) (hk : ∀ a, a ∈ training ↔ a ∈ keys) :
    ∀ bs : List BookingV, bookingsOK placeholder training bs (bs.map f) = true
  | [] => rfl
  | b :: bs => by
    simp only [List.map_cons, bookingsOK, Bool.and_eq_true]
    exact ⟨bookingOK_of_spec (h b) hk, bookingsOK_map f h hk bs⟩

theorem dirOK_inferDir {training : List Bytes} (hne : [] ∉ m.countByAccount.keys)
    (hk : ∀ a, a ∈ training ↔ a ∈ m.countByAccount.keys) (d : DirV) :
    dirOK m.account training d (m.inferDir sc d) = true := by
  cases d with
  | transaction accr perf date desc bs =>
    simp only [Model.inferDir, dirOK, beq_self_eq_true, Bool.true_and]
    exact bookingsOK_map _ (fun b => inferBooking_spec sc m desc b hne) hk bs
  | _ => simp [Model.inferDir, dirOK]

theorem viewsOK_map {training : List Bytes} (hne : [] ∉ m.countByAccount.keys)
    (hk : ∀ a, a ∈ training ↔ a ∈ m.countByAccount.keys) :
    ∀ vs : List DirV, viewsOK m.account training vs (vs.map (m.inferDir sc)) = true
  | [] => rfl
  | v :: vs => by
    simp only [List.map_cons, viewsOK, Bool.and_eq_true]
    exact ⟨dirOK_inferDir sc m hne hk v, viewsOK_map hne hk vs⟩

end Knut.Infer
