import Knut.Proofs.AtomicWrite
/-!
# C18 — In-place rewrites are all-or-nothing

Statement (properties.jsonl): when `knut format` or `knut infer --inplace` rewrites a journal file and the
write fails or is cut short at any byte, the file afterwards holds either its complete previous contents or
the complete new contents, never a truncated or mixed file; when the command fails before writing (for
example on a parse error in that file) the file is bit-identical to before, and a failure on one of several
files does not prevent or corrupt the others.

Proved here for the file-system model of `formatFile` / `infer -i` / `atomic.WriteFile`
(`Knut.AtomicWrite.rewriteFile`), for every file system, every target, every renderer, every scenario
(injected error at any operation, any file-size limit, failing clean-up), with `tmp ≠ target` (the temp name is
created with `O_EXCL`, hence fresh):

* `C18_invariant`            — in *every* intermediate state (so also after a crash at any point, and for every
                                length at which the write is cut short) the target is the old or the complete new file
* `C18_every_prefix_is_a_state` — the states really include the temp file at every byte length up to the failure
* `C18_error_means_old`, `C18_ok_means_new` — an error leaves the whole directory as it was (only a temp file may
                                remain, and only if its removal failed too); success installs the new content with the old mode
* `C18_parse_error_untouched` — a file that does not parse: the file system is identical, not a single state in between
* `C18_others_untouched`      — no other path is touched at any time
* `C18_files_independent`     — several files: each ends as if it had been rewritten alone; outcomes likewise
* `C18_predicate`             — the monitor's predicate `allOrNothing` holds on the model's result

PARTIAL with respect to the real system: the kernel's rename atomicity / fsync durability are assumptions of the
model (`rename` is one step), power loss is not modelled.
-/
namespace Knut.C18
open Knut.AtomicWrite

/-- **all-or-nothing at every moment.** -/
theorem C18_invariant (render : Bytes → Option Bytes) (sc : Scenario) {tmp target : Path} (fs : FS) (hne : tmp ≠ target) :
    ∀ st ∈ (rewriteFile render sc tmp target fs).states (),
      FS.get st target = FS.get fs target ∨
      ∃ f new, FS.get fs target = some f ∧ render f.content = some new ∧ FS.get st target = some ⟨new, f.mode⟩ := by
  have hnt : target ≠ tmp := fun h => hne h.symm
  unfold rewriteFile
  split
  · intro st h; simp at h; exact Or.inl (by rw [h])
  · split
    · intro st h; simp at h; exact Or.inl (by rw [h])
    · rename_i f hg
      split
      · intro st h; simp at h; exact Or.inl (by rw [h])
      · rename_i new hr
        obtain ⟨_, hst, hok, _⟩ := writeFile_spec sc new fs hne
        intro st hmem
        rcases hst st hmem with h | ⟨rfl, ho⟩
        · exact Or.inl (h target hnt)
        · right
          refine ⟨f, new, hg, hr, ?_⟩
          rw [(hok ho).1]
          simp [newFile, hg]

/-- the write passes through every length: for every `j` up to the number of bytes that reach the disk, the
state "temp file holds the first `j` bytes, everything else as before" is one of the states of the run. -/
theorem C18_every_prefix_is_a_state (sc : Scenario) {tmp target : Path} (new : Bytes) (fs : FS)
    (hc : sc.fault ≠ some .createTemp) (j : Nat) (hj : j ≤ written sc new) :
    FS.set fs tmp ⟨new.take j, 0o600⟩ ∈ (writeFile sc tmp target new fs).states () := by
  have hmem : FS.set fs tmp ⟨new.take j, 0o600⟩ ∈ copyStates sc tmp new fs := by
    unfold copyStates
    apply List.mem_append_right
    exact List.mem_map.mpr ⟨j, by simp; omega, rfl⟩
  have hcl : ∀ (st : Unit → List FS) (f : FS) (op : Op), FS.set fs tmp ⟨new.take j, 0o600⟩ ∈ st () →
      FS.set fs tmp ⟨new.take j, 0o600⟩ ∈ (cleanup sc tmp st f op).states () := by
    intro st f op h
    unfold cleanup
    split
    · exact h
    · exact List.mem_append_left _ h
  unfold writeFile
  simp only [hc, if_false]
  split
  · exact hcl _ _ _ hmem
  · split
    · exact hcl _ _ _ hmem
    · split
      · exact hcl _ _ _ hmem
      · split
        · exact hcl _ _ _ hmem
        · split
          · split
            · exact hcl _ _ _ hmem
            · exact List.mem_append_left _ hmem
          · split
            · exact hcl _ _ _ hmem
            · split
              · exact hcl _ _ _ hmem
              · split
                · exact hcl _ _ _ (List.mem_append_left _ hmem)
                · exact List.mem_append_left _ hmem

/-- **an error means the old file**: the target and every other path except the temp name are as before; the
temp file is gone too unless its removal failed as well. -/
theorem C18_error_means_old (render : Bytes → Option Bytes) (sc : Scenario) {tmp target : Path} (fs : FS) (hne : tmp ≠ target)
    {op : Op} (h : (rewriteFile render sc tmp target fs).outcome = .error op) :
    (∀ p, p ≠ tmp → FS.get (rewriteFile render sc tmp target fs).final p = FS.get fs p) ∧
    (sc.unlinkFails = false → FS.get fs tmp = none → FS.get (rewriteFile render sc tmp target fs).final tmp = none) := by
  rcases rewriteFile_cases render sc tmp target fs with ⟨_, hfin, _⟩ | ⟨f, new, hg, hr, heq⟩
  · rw [hfin]; exact ⟨fun _ _ => rfl, fun _ h => h⟩
  · rw [heq] at h ⊢
    obtain ⟨_, _, _, herr⟩ := writeFile_spec sc new fs hne
    obtain ⟨h1, h2, h3⟩ := herr op h
    refine ⟨h1, ?_⟩
    intro hu hfresh
    by_cases hop : op = .createTemp
    · rw [h3 hop]; exact hfresh
    · exact h2 hop hu

/-- **success means the new file**, complete, with the mode of the old one, and no temp file left. -/
theorem C18_ok_means_new (render : Bytes → Option Bytes) (sc : Scenario) {tmp target : Path} (fs : FS) (hne : tmp ≠ target)
    (h : (rewriteFile render sc tmp target fs).outcome = .ok) :
    ∃ f new, FS.get fs target = some f ∧ render f.content = some new ∧
      FS.get (rewriteFile render sc tmp target fs).final target = some ⟨new, f.mode⟩ ∧
      FS.get (rewriteFile render sc tmp target fs).final tmp = none := by
  rcases rewriteFile_cases render sc tmp target fs with ⟨_, _, ho | ⟨ho, _⟩⟩ | ⟨f, new, hg, hr, heq⟩
  · rw [ho] at h; cases h
  · rw [ho] at h; cases h
  · rw [heq] at h ⊢
    obtain ⟨_, _, hok, _⟩ := writeFile_spec sc new fs hne
    obtain ⟨h1, h2, _⟩ := hok h
    exact ⟨f, new, hg, hr, by rw [h1]; simp [newFile, hg], h2⟩

/-- **a parse error (or an unreadable target) leaves the file system bit-identical**: no state in between at all. -/
theorem C18_parse_error_untouched (render : Bytes → Option Bytes) (sc : Scenario) (tmp target : Path) (fs : FS)
    (h : ∀ f, FS.get fs target = some f → render f.content = none) :
    (rewriteFile render sc tmp target fs).states () = [fs] ∧ (rewriteFile render sc tmp target fs).final = fs ∧
    ((rewriteFile render sc tmp target fs).outcome = .error .read ∨ (rewriteFile render sc tmp target fs).outcome = .error .parse) := by
  unfold rewriteFile
  split
  · exact ⟨rfl, rfl, Or.inl rfl⟩
  · split
    · exact ⟨rfl, rfl, Or.inl rfl⟩
    · rename_i f hg
      rw [h f hg]
      exact ⟨rfl, rfl, Or.inr rfl⟩

/-- **no other path is touched**, at any time. -/
theorem C18_others_untouched (render : Bytes → Option Bytes) (sc : Scenario) {tmp target : Path} (fs : FS) (hne : tmp ≠ target)
    {p : Path} (hp1 : p ≠ tmp) (hp2 : p ≠ target) :
    ∀ st ∈ (rewriteFile render sc tmp target fs).states (), FS.get st p = FS.get fs p :=
  rewriteFile_frame render sc fs hne hp1 hp2

/-- **several files are independent**: with pairwise different targets and temp names, every target ends
exactly as if its file had been rewritten alone on the initial file system, the outcomes are those of the
single runs, and nothing else changes — so a failure on one file neither prevents nor corrupts the others. -/
theorem C18_files_independent (render : Bytes → Option Bytes) (jobs : List Job) (fs : FS)
    (hnd : (jobs.flatMap Job.paths).Nodup) :
    (∀ j ∈ jobs, FS.get (rewriteAll render jobs fs).1 j.target =
        FS.get (rewriteFile render j.sc j.tmp j.target fs).final j.target) ∧
    (rewriteAll render jobs fs).2 = jobs.map (fun j => (rewriteFile render j.sc j.tmp j.target fs).outcome) ∧
    (∀ p, p ∉ jobs.flatMap Job.paths → FS.get (rewriteAll render jobs fs).1 p = FS.get fs p) := by
  obtain ⟨h1, h2, h3⟩ := rewriteAll_spec render jobs fs hnd
  have hne : ∀ j ∈ jobs, j.tmp ≠ j.target := by
    intro j hj heq
    have hsub : (Job.paths j).Nodup := nodup_paths_of_mem hnd hj
    simp [Job.paths] at hsub
    exact hsub heq.symm
  refine ⟨?_, ?_, h1⟩
  · intro j hj
    rw [h2 j hj, rewriteFile_target render j.sc fs (hne j hj)]
  · rw [h3]
    apply List.map_congr_left
    intro j hj
    rw [rewriteFile_outcome render j.sc fs (hne j hj)]

/-- **the monitor's predicate holds on the model**: old, rendered new, observed final target and the reported
status satisfy `allOrNothing`. -/
theorem C18_predicate (render : Bytes → Option Bytes) (sc : Scenario) {tmp target : Path} (fs : FS) (hne : tmp ≠ target) :
    allOrNothing (FS.get fs target) ((FS.get fs target).bind (fun f => render f.content))
      (FS.get (rewriteFile render sc tmp target fs).final target)
      (some (decide ((rewriteFile render sc tmp target fs).outcome = .ok))) = true := by
  rw [rewriteFile_target render sc fs hne, rewriteFile_outcome render sc fs hne]
  cases hg : FS.get fs target with
  | none => simp [allOrNothing, isOld, isNew, rewriteTarget, rewriteOutcome]
  | some f =>
    cases hr : render f.content with
    | none =>
      by_cases hread : sc.fault = some .read <;>
        simp [allOrNothing, isOld, isNew, rewriteTarget, rewriteOutcome, hr, hread]
    | some new =>
      simp only [rewriteTarget, hr, Option.bind_some]
      cases ho : rewriteOutcome render sc (some f) with
      | ok => simp [allOrNothing, isOld, isNew]
      | error op => simp [allOrNothing, isOld, isNew]

/-! ### non-vacuity -/

def demoFS : FS := [("a.knut", ⟨[1, 2, 3], 0o644⟩), ("b.knut", ⟨[9], 0o600⟩)]
def demoRender : Bytes → Option Bytes := fun b => if b = [9] then none else some (b ++ [10])

example : (rewriteFile demoRender {} "a.knut.tmp" "a.knut" demoFS).outcome = .ok := by decide
example : FS.get (rewriteFile demoRender {} "a.knut.tmp" "a.knut" demoFS).final "a.knut" = some ⟨[1, 2, 3, 10], 0o644⟩ := by decide
example : (rewriteFile demoRender { limit := some 2 } "a.knut.tmp" "a.knut" demoFS).outcome = .error .write := by decide
example : FS.get (rewriteFile demoRender { limit := some 2 } "a.knut.tmp" "a.knut" demoFS).final "a.knut" = some ⟨[1, 2, 3], 0o644⟩ := by decide
example : ((rewriteFile demoRender { limit := some 2 } "a.knut.tmp" "a.knut" demoFS).states ()).length = 6 := by decide
example : (rewriteFile demoRender {} "b.knut.tmp" "b.knut" demoFS).outcome = .error .parse := by decide
example : (rewriteAll demoRender [⟨{}, "b.knut.tmp", "b.knut"⟩, ⟨{}, "a.knut.tmp", "a.knut"⟩] demoFS).2 = [.error .parse, .ok] := by decide
/-- what a non-atomic writer (truncate, then write) leaves behind after a write cut short fails the predicate -/
example : allOrNothing (some ⟨[1, 2, 3], 0o644⟩) (some [1, 2, 3, 10]) (some ⟨[1, 2], 0o644⟩) (some false) = false := by decide

end Knut.C18
