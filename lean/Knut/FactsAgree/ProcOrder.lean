import Knut.FactsAgree.ProcOrderBalance
import Knut.FactsAgree.ProcOrderTranscode
import Knut.FactsAgree.ProcOrderCheck
import Knut.FactsAgree.ProcOrderPrint
import Knut.FactsAgree.ProcOrderPortfolio
/-!
# The PROCESSOR ORDER of every pipeline command is the one the composition modules assume

Each pipeline command builds, in its `execute` method, the list of `*journal.Processor`s it hands to `Journal.Process` (`cpr.Seq` over the
days).  `harness/facts_procorder.go` reads that list off the syntax tree of the tree under test on every run of `bin/check` and writes
`Generated/ProcOrder.lean`: per command `<c>Order` (the callee of every processor expression, in source order; `pkg.F` = function of an
imported package, `pkg.T.M` = method called on a literal `pkg.T{…}`, `(pkg.T).M` / `(*pkg.T).M` = method of a local variable that
`execute` defines by `v := pkg.T{…}` / `v := &pkg.T{…}`; a processor appended under a condition carries ` if <condition>`) and
`<c>Calls` (the same with the source text of the arguments of the call).  A list that is built in another shape than the extractor
accepts (see the file's header) is NOT emitted: this module then no longer builds and the check reports
`census: gone site <file>: the processor list of … cannot be read off execute`.

The theorems below pin the extracted lists to the stage order in which the modules `FactsAgree/TransProcessAll*.lean` compose the
translated processors (`Pipeline.Sys` instances `balanceSys`, `transcodeSys`, `returnsSys`, `weightsSys`, and the one-stage runs of
`check` / `print`).  Those modules took the order from the source BY HAND; with this module a reordering, a new, a dropped or a
conditional processor, or a changed argument (e.g. a second valuation variable) in a command file breaks a `decide` here.
All processors of all commands are unconditional.

The theorems are spread over one module per command family so that a change in one command file breaks only the properties that are
about that command: `ProcOrderBalance` (C01, C02, C03), `ProcOrderTranscode` (C16), `ProcOrderCheck` (C04), `ProcOrderPrint` (C09),
`ProcOrderPortfolio` (C20: returns, weights).  This module imports them all, adds `knut register`, and is registered under C19 (the
pipeline property is about every command that runs `cpr.Seq`).  All theorems live in the namespace `Knut.FactsAgree.ProcOrder`.
-/
namespace Knut.FactsAgree.ProcOrder
open Knut.Generated.ProcOrder

/-- `knut register` (`cmd/commands/register.go`): Sort, ComputePrices, check, Valuate, Filter, Query.Into.  No composition module yet
(the stages are those of `transcode` followed by `Filter` and a query); pinned so that the C19 streams over the pipeline commands
and a future composition start from a checked order. -/
theorem registerOrder_eq : registerOrder =
    ["journal.Sort", "journal.ComputePrices", "check.Check", "journal.Valuate", "journal.Filter", "journal.Query.Into"] := by decide

theorem registerCalls_eq : registerCalls =
    [("journal.Sort", []), ("journal.ComputePrices", ["valuation"]), ("check.Check", []), ("journal.Valuate", ["reg", "valuation"]),
     ("journal.Filter", ["partition"]), ("journal.Query.Into", ["rep"])] := by decide

end Knut.FactsAgree.ProcOrder
