import Knut.Proofs.Pipeline
/-!
# Every step of the `cpr.Seq` transition system preserves the invariant
-/
namespace Knut.Pipeline

variable {σ α ε : Type}

theorem take_succ_of_get {l : List α} {i : Nat} {a : α} (h : l[i]? = some a) : l.take (i + 1) = l.take i ++ [a] := by
  rw [List.take_add_one, h]; rfl

theorem lt_of_get {l : List α} {i : Nat} {a : α} (h : l[i]? = some a) : i < l.length := by
  rcases Nat.lt_or_ge i l.length with x | x
  · exact x
  · rw [List.getElem?_eq_none x] at h; cases h

theorem inv_feed {S : Sys σ α ε} {s s' : St σ α ε} (hi : Inv S s) (h : step? S s .feed = some s') : Inv S s' := by
  obtain ⟨a, hc, hn, hs1, ha, rfl⟩ := step_feed h
  have hlt := lt_of_get ha
  have hfed := hi.fed_le
  have hch0 := hi.chain 0 hn
  simp only [emitted_succ, emitted_zero, occ, hs1, List.length_take] at hch0
  have hh1 : (s.hist 1).length = s.fed := by simp at hch0; omega
  constructor
  · show s.fed + 1 ≤ _; omega
  · intro k hk
    have := hi.chain k hk
    rcases Nat.eq_zero_or_pos k with rfl | hkpos
    · simp [emitted, occ, List.length_take]; omega
    · have h1 : k + 1 ≠ 1 := by omega
      have h0 : k ≠ 0 := by omega
      simpa [emitted, occ, upd_other _ _ h1, h0] using this
  · have := hi.out_eq
    have h0 : S.n ≠ 0 := by omega
    simpa [emitted, h0] using this
  · intro k hk hs
    rcases Nat.eq_zero_or_pos k with rfl | hkpos
    · simp at hs
    · have h1 : k + 1 ≠ 1 := by omega
      have h0 : k ≠ 0 := by omega
      simp only [upd_other _ _ h1] at hs
      have := hi.data_idle k hk hs
      simpa [emitted, h0] using this
  · intro k b hk hs
    rcases Nat.eq_zero_or_pos k with rfl | hkpos
    · simp at hs
      subst hs
      have hd := hi.data_idle 0 hn hs1
      simp only [emitted_zero] at hd ⊢
      rw [take_succ_of_get ha]
      constructor
      · rw [proc_append _ _ _ (by simp; omega)]; exact hd
      · simp only [Nat.zero_add]
        rw [hh1, List.getElem?_append_right (by simp; omega)]
        simp [Nat.min_eq_left hfed]
    · have h1 : k + 1 ≠ 1 := by omega
      have h0 : k ≠ 0 := by omega
      simp only [upd_other _ _ h1] at hs
      have := hi.data_busy k b hk hs
      simpa [emitted, h0] using this
  · intro k b hk hs
    rcases Nat.eq_zero_or_pos k with rfl | hkpos
    · simp at hs
    · have h1 : k + 1 ≠ 1 := by omega
      have h0 : k ≠ 0 := by omega
      simp only [upd_other _ _ h1] at hs
      have := hi.data_done k b hk hs
      simpa [emitted, h0] using this
  · intro k e he
    obtain ⟨h1, h2, b, hb, hf⟩ := hi.err_ok k e he
    refine ⟨h1, h2, b, ?_, hf⟩
    have : k ≠ 1 := by rintro rfl; rw [hs1] at hb; cases hb
    simpa [upd_other _ _ this] using hb
  · exact hi.canc
  · exact hi.rep
  · exact hi.norep
  · intro k hk
    have : k ≠ 1 := by omega
    simpa [upd_other _ _ this] using hi.outside k hk

theorem inv_direct {S : Sys σ α ε} {s s' : St σ α ε} (hi : Inv S s) (h : step? S s .direct = some s') : Inv S s' := by
  obtain ⟨a, hc, hn, ha, rfl⟩ := step_direct h
  have hlt := lt_of_get ha
  constructor
  · show s.fed + 1 ≤ _; omega
  · intro k hk; omega
  · have := hi.out_eq
    simp only [hn, emitted_zero] at this ⊢
    rw [take_succ_of_get ha, this]
  · intro k hk; omega
  · intro k b hk; omega
  · intro k b hk; omega
  · exact hi.err_ok
  · exact hi.canc
  · exact hi.rep
  · exact hi.norep
  · exact hi.outside

theorem inv_work {S : Sys σ α ε} {s s' : St σ α ε} {k : Nat} (hi : Inv S s) (h : step? S s (.work k) = some s') : Inv S s' := by
  obtain ⟨a, t, a', hk1, hkn, hek, hsk, hf, rfl⟩ := step_work h
  constructor
  · exact hi.fed_le
  · intro j hj
    have := hi.chain j hj
    by_cases hjk : j + 1 = k
    · subst hjk; simpa [emitted, occ, hsk] using this
    · simpa [emitted, occ, upd_other _ _ hjk] using this
  · exact hi.out_eq
  · intro j hj hs
    by_cases hjk : j + 1 = k
    · subst hjk; simp at hs
    · simp only [upd_other _ _ hjk] at hs ⊢
      exact hi.data_idle j hj hs
  · intro j b hj hs
    by_cases hjk : j + 1 = k
    · subst hjk; simp at hs
    · simp only [upd_other _ _ hjk] at hs ⊢
      exact hi.data_busy j b hj hs
  · intro j b hj hs
    by_cases hjk : j + 1 = k
    · subst hjk
      simp at hs; subst hs
      obtain ⟨hp, hg⟩ := hi.data_busy j a hj hsk
      simp only [upd_same]
      exact proc_step hp hg hf
    · simp only [upd_other _ _ hjk] at hs ⊢
      exact hi.data_done j b hj hs
  · intro j e he
    have hjk : j ≠ k := by rintro rfl; rw [hek] at he; cases he
    simp only [upd_other _ _ hjk]
    exact hi.err_ok j e he
  · exact hi.canc
  · exact hi.rep
  · exact hi.norep
  · intro j hj
    have hjk : j ≠ k := by omega
    simp only [upd_other _ _ hjk]
    exact hi.outside j hj

theorem inv_fail {S : Sys σ α ε} {s s' : St σ α ε} {k : Nat} (hi : Inv S s) (h : step? S s (.fail k) = some s') : Inv S s' := by
  obtain ⟨a, e, hk1, hkn, hek, hsk, hf, rfl⟩ := step_fail h
  constructor
  · exact hi.fed_le
  · exact hi.chain
  · exact hi.out_eq
  · exact hi.data_idle
  · exact hi.data_busy
  · exact hi.data_done
  · intro j e' he
    by_cases hjk : j = k
    · subst hjk
      simp at he; subst he
      exact ⟨hk1, hkn, a, hsk, hf⟩
    · simp only [upd_other _ _ hjk] at he
      exact hi.err_ok j e' he
  · exact hi.canc
  · intro j e' hr
    have := hi.rep j e' hr
    have hjk : j ≠ k := by rintro rfl; rw [hek] at this; cases this
    simpa [upd_other _ _ hjk] using this
  · exact hi.norep
  · exact hi.outside

theorem inv_cancel {S : Sys σ α ε} {s s' : St σ α ε} {k : Nat} (hi : Inv S s) (h : step? S s (.cancel k) = some s') : Inv S s' := by
  obtain ⟨e, hc, he, rfl⟩ := step_cancel h
  constructor
  · exact hi.fed_le
  · exact hi.chain
  · exact hi.out_eq
  · exact hi.data_idle
  · exact hi.data_busy
  · exact hi.data_done
  · exact hi.err_ok
  · intro _; exact ⟨k, e, rfl⟩
  · intro j e' hr
    simp at hr
    obtain ⟨rfl, rfl⟩ := hr
    exact he
  · intro hx; simp at hx
  · exact hi.outside

theorem inv_pass {S : Sys σ α ε} {s s' : St σ α ε} {k : Nat} (hi : Inv S s) (h : step? S s (.pass k) = some s') : Inv S s' := by
  obtain ⟨a, hc, hk1, hkn, hnext, hsk, rfl⟩ := step_pass h
  have hk0 : k ≠ 0 := by omega
  have hchk := hi.chain k hkn
  simp only [emitted_succ, emitted_pos S s hk1, occ, hnext] at hchk
  have hlen : (s.hist (k + 1)).length = (s.hist k).length := by simpa using hchk
  constructor
  · exact hi.fed_le
  · intro j hj
    have := hi.chain j hj
    by_cases h1 : j + 1 = k
    · subst h1
      have hj0 : j ≠ j + 1 := by omega
      have hj2 : j + 1 ≠ j + 1 + 1 := by omega
      simp only [emitted_succ, occ, hsk] at this
      simp only [emitted_succ, occ, upd_same, upd_other _ _ hj2, List.length_append]
      by_cases hz : j = 0
      · subst hz; simp [emitted] at this ⊢; omega
      · simp [emitted, hz, upd_other _ _ hj0] at this ⊢; omega
    · by_cases h2 : j = k
      · subst h2
        have hj2 : j + 1 ≠ j := by omega
        simp [emitted, occ, hk0, upd_other _ _ hj2]; omega
      · have h3 : j + 1 ≠ k + 1 := by omega
        simp only [emitted_succ, occ, upd_other _ _ h1, upd_other _ _ h3]
        by_cases hz : j = 0
        · subst hz; simpa [emitted, occ] using this
        · simpa [emitted, occ, hz, upd_other _ _ h2] using this
  · have := hi.out_eq
    have h0 : S.n ≠ 0 := by omega
    have h1 : S.n ≠ k := by omega
    simpa [emitted, h0, upd_other _ _ h1] using this
  · intro j hj hs
    by_cases h1 : j + 1 = k
    · subst h1
      have hj0 : j ≠ j + 1 := by omega
      have hd := hi.data_done j a hj hsk
      simp only [upd_same, List.length_append, List.length_singleton]
      by_cases hz : j = 0
      · subst hz; simpa [emitted] using hd
      · simpa [emitted, hz, upd_other _ _ hj0] using hd
    · by_cases h2 : j = k
      · subst h2; simp at hs
      · have h3 : j + 1 ≠ k + 1 := by omega
        simp only [upd_other _ _ h1, upd_other _ _ h3] at hs ⊢
        have hd := hi.data_idle j hj hs
        by_cases hz : j = 0
        · subst hz; simpa [emitted] using hd
        · simpa [emitted, hz, upd_other _ _ h2] using hd
  · intro j b hj hs
    by_cases h2 : j = k
    · subst h2
      have hj2 : j + 1 ≠ j := by omega
      simp at hs; subst hs
      have hd := hi.data_idle j hj hnext
      simp only [emitted_pos S _ hk1, upd_same, upd_other _ _ hj2] at hd ⊢
      constructor
      · rw [proc_append _ _ _ (by omega)]; exact hd
      · rw [hlen]; simp
    · by_cases h1 : j + 1 = k
      · subst h1
        have hj2 : j + 1 ≠ j + 1 + 1 := by omega
        simp [upd_other _ _ hj2] at hs
      · have h3 : j + 1 ≠ k + 1 := by omega
        simp only [upd_other _ _ h1, upd_other _ _ h3] at hs ⊢
        have hd := hi.data_busy j b hj hs
        by_cases hz : j = 0
        · subst hz; simpa [emitted] using hd
        · simpa [emitted, hz, upd_other _ _ h2] using hd
  · intro j b hj hs
    by_cases h2 : j = k
    · subst h2; simp at hs
    · by_cases h1 : j + 1 = k
      · subst h1
        have hj2 : j + 1 ≠ j + 1 + 1 := by omega
        simp [upd_other _ _ hj2] at hs
      · have h3 : j + 1 ≠ k + 1 := by omega
        simp only [upd_other _ _ h1, upd_other _ _ h3] at hs ⊢
        have hd := hi.data_done j b hj hs
        by_cases hz : j = 0
        · subst hz; simpa [emitted] using hd
        · simpa [emitted, hz, upd_other _ _ h2] using hd
  · intro j e he
    obtain ⟨h1, h2, b, hb, hf⟩ := hi.err_ok j e he
    have hjk : j ≠ k := by rintro rfl; rw [hsk] at hb; cases hb
    have hjk1 : j ≠ k + 1 := by rintro rfl; rw [hnext] at hb; cases hb
    exact ⟨h1, h2, b, by simpa [upd_other _ _ hjk, upd_other _ _ hjk1] using hb, hf⟩
  · exact hi.canc
  · exact hi.rep
  · exact hi.norep
  · intro j hj
    have hjk : j ≠ k := by omega
    have hjk1 : j ≠ k + 1 := by omega
    simpa [upd_other _ _ hjk, upd_other _ _ hjk1] using hi.outside j hj

theorem inv_sink {S : Sys σ α ε} {s s' : St σ α ε} (hi : Inv S s) (h : step? S s .sink = some s') : Inv S s' := by
  obtain ⟨a, hc, hn, hsn, rfl⟩ := step_sink h
  have hn0 : S.n ≠ 0 := by omega
  constructor
  · exact hi.fed_le
  · intro j hj
    have := hi.chain j hj
    have hjn : j ≠ S.n := by omega
    by_cases h1 : j + 1 = S.n
    · simp only [emitted_succ, occ] at this ⊢
      rw [h1] at this ⊢
      simp only [hsn] at this
      simp only [upd_same, List.length_append]
      by_cases hz : j = 0
      · subst hz; simp [emitted] at this ⊢; omega
      · simp [emitted, hz, upd_other _ _ hjn] at this ⊢; omega
    · simp only [emitted_succ, occ, upd_other _ _ h1]
      by_cases hz : j = 0
      · subst hz; simpa [emitted, occ] using this
      · simpa [emitted, occ, hz, upd_other _ _ hjn] using this
  · have := hi.out_eq
    simp [emitted, hn0] at this ⊢
    exact this
  · intro j hj hs
    have hjn : j ≠ S.n := by omega
    by_cases h1 : j + 1 = S.n
    · have hd := hi.data_done j a hj (h1 ▸ hsn)
      rw [h1] at hd ⊢
      simp only [upd_same, List.length_append, List.length_singleton]
      by_cases hz : j = 0
      · subst hz; simpa [emitted] using hd
      · simpa [emitted, hz, upd_other _ _ hjn] using hd
    · simp only [upd_other _ _ h1] at hs ⊢
      have hd := hi.data_idle j hj hs
      by_cases hz : j = 0
      · subst hz; simpa [emitted] using hd
      · simpa [emitted, hz, upd_other _ _ hjn] using hd
  · intro j b hj hs
    have hjn : j ≠ S.n := by omega
    by_cases h1 : j + 1 = S.n
    · rw [h1] at hs; simp at hs
    · simp only [upd_other _ _ h1] at hs ⊢
      have hd := hi.data_busy j b hj hs
      by_cases hz : j = 0
      · subst hz; simpa [emitted] using hd
      · simpa [emitted, hz, upd_other _ _ hjn] using hd
  · intro j b hj hs
    have hjn : j ≠ S.n := by omega
    by_cases h1 : j + 1 = S.n
    · rw [h1] at hs; simp at hs
    · simp only [upd_other _ _ h1] at hs ⊢
      have hd := hi.data_done j b hj hs
      by_cases hz : j = 0
      · subst hz; simpa [emitted] using hd
      · simpa [emitted, hz, upd_other _ _ hjn] using hd
  · intro j e he
    obtain ⟨h1, h2, b, hb, hf⟩ := hi.err_ok j e he
    have hjk : j ≠ S.n := by rintro rfl; rw [hsn] at hb; cases hb
    exact ⟨h1, h2, b, by simpa [upd_other _ _ hjk] using hb, hf⟩
  · exact hi.canc
  · exact hi.rep
  · exact hi.norep
  · intro j hj
    have hjk : j ≠ S.n := by omega
    simpa [upd_other _ _ hjk] using hi.outside j hj

/-- **invariant preservation**, all steps -/
theorem inv_step {S : Sys σ α ε} {s s' : St σ α ε} {l : Label} (hi : Inv S s) (h : step? S s l = some s') : Inv S s' := by
  cases l with
  | feed => exact inv_feed hi h
  | direct => exact inv_direct hi h
  | work k => exact inv_work hi h
  | fail k => exact inv_fail hi h
  | pass k => exact inv_pass hi h
  | sink => exact inv_sink hi h
  | cancel k => exact inv_cancel hi h

theorem inv_reach {S : Sys σ α ε} {s : St σ α ε} (h : Reach S s) : Inv S s := by
  induction h with
  | init => exact inv_initial S
  | step l _ hs ih => exact inv_step ih hs

end Knut.Pipeline
