package main

// Expressions of the Go→Lean translator.

import (
	"fmt"
	"go/ast"
	"go/constant"
	"go/token"
	"go/types"
	"strconv"
	"strings"
)

// trPrim: a function or method of the prelude (lean/Knut/GoSem)
type trPrim struct {
	lean   string
	effect bool                                                  // result in the Outcome monad
	mutRecv bool                                                 // statement-only: the receiver variable is rebound to the result
	results bool                                                 // with mutRecv: the Lean function returns the new receiver first, then the results (trans_units_jprinter.go)
	args   func(c *trCtx, call *ast.CallExpr) []ast.Expr // optional: checks the call and selects the arguments that are translated
	leanOf func(c *trCtx, call *ast.CallExpr) string     // optional: the prelude function depends on the call (time.Parse by its constant layout: trans_units_import.go)
}

var trPrims = map[string]trPrim{
	"time.Date": {lean: "Time.Date", args: func(c *trCtx, call *ast.CallExpr) []ast.Expr {
		// only time.Date(y, m, d, 0, 0, 0, 0, time.UTC) has a meaning in the prelude
		for i := 3; i < 7; i++ {
			if tv := c.info().Types[call.Args[i]]; tv.Value == nil || tv.Value.ExactString() != "0" {
				trFail(call.Args[i].Pos(), "time.Date with a non-zero time of day is outside the subset")
			}
		}
		if s, ok := call.Args[7].(*ast.SelectorExpr); !ok || s.Sel.Name != "UTC" {
			trFail(call.Args[7].Pos(), "time.Date with a location other than time.UTC is outside the subset")
		}
		return call.Args[:3]
	}},
	"(time.Time).Year":    {lean: "Time.Year"},
	"(time.Time).Month":   {lean: "Time.Month"},
	"(time.Time).Day":     {lean: "Time.Day"},
	"(time.Time).Weekday": {lean: "Time.Weekday"},
	"(time.Time).AddDate": {lean: "Time.AddDate"},
	"(time.Time).Before":  {lean: "Time.Before"},
	"(time.Time).After":   {lean: "Time.After"},
	"(time.Time).Equal":   {lean: "Time.Equal"},
	"(time.Time).IsZero":  {lean: "Time.IsZero"},
	"(time.Time).Compare": {lean: "Time.Compare"},

	"github.com/shopspring/decimal.NewFromInt":             {lean: "Decimal.NewFromInt"},
	"(github.com/shopspring/decimal.Decimal).Add":          {lean: "Decimal.Add"},
	"(github.com/shopspring/decimal.Decimal).Sub":          {lean: "Decimal.Sub"},
	"(github.com/shopspring/decimal.Decimal).Mul":          {lean: "Decimal.Mul"},
	"(github.com/shopspring/decimal.Decimal).Neg":          {lean: "Decimal.Neg"},
	"(github.com/shopspring/decimal.Decimal).Abs":          {lean: "Decimal.Abs"},
	"(github.com/shopspring/decimal.Decimal).Truncate":     {lean: "Decimal.Truncate"},
	"(github.com/shopspring/decimal.Decimal).Round":        {lean: "Decimal.Round"},
	"(github.com/shopspring/decimal.Decimal).Div":          {lean: "Decimal.Div", effect: true},
	"(github.com/shopspring/decimal.Decimal).QuoRem":       {lean: "Decimal.QuoRem", effect: true},
	"(github.com/shopspring/decimal.Decimal).IsZero":       {lean: "Decimal.IsZero"},
	"(github.com/shopspring/decimal.Decimal).IsNegative":   {lean: "Decimal.IsNegative"},
	"(github.com/shopspring/decimal.Decimal).IsPositive":   {lean: "Decimal.IsPositive"},
	"(github.com/shopspring/decimal.Decimal).Sign":         {lean: "Decimal.Sign"},
	"(github.com/shopspring/decimal.Decimal).Equal":        {lean: "Decimal.Equal"},
	"(github.com/shopspring/decimal.Decimal).Cmp":          {lean: "Decimal.Cmp"},
	"(github.com/shopspring/decimal.Decimal).LessThan":     {lean: "Decimal.LessThan"},
	"(github.com/shopspring/decimal.Decimal).GreaterThan":  {lean: "Decimal.GreaterThan"},
	"(github.com/shopspring/decimal.Decimal).String":       {lean: "Decimal.String"},
	"(github.com/shopspring/decimal.Decimal).StringFixed":  {lean: "Decimal.StringFixed"},
	"strings.ReplaceAll":                                    {lean: "Strings.ReplaceAll"},
	"strings.Index":                                         {lean: "Strings.Index"},
	"(*strings.Builder).String":                             {lean: "Strings.Builder.String"},
	"(*strings.Builder).WriteString":                        {lean: "Strings.Builder.WriteString", mutRecv: true},
	"(*strings.Builder).WriteRune":                          {lean: "Strings.Builder.WriteRune", mutRecv: true},
	"unicode.IsDigit":                                       {lean: "Unicode.IsDigit"},
	"(github.com/shopspring/decimal.Decimal).Shift":         {lean: "Decimal.Shift"},
	"strings.Repeat":                                        {lean: "Strings.Repeat"},
	"unicode/utf8.RuneCountInString":                        {lean: "Strings.RuneCount"},
}

// package-level variables of the prelude
var trPrimVars = map[string]string{
	"github.com/shopspring/decimal.Zero": "Decimal.Zero",
}

// trCtx: translation of one function
type trCtx struct {
	t      *trTranslator
	fn     *trFunc
	names  map[types.Object]string
	used   map[string]bool
	pre    []trPre // hoisted effectful sub-expressions of the statement being translated
	ntmp   int
	nloop  int
	aux    []string // auxiliary definitions (loops), emitted before the function
	noHoist int     // >0: inside the right operand of && / ||, where hoisting would change the evaluation order
	loop   *trLoopCtx
	pureDepth int // >0: translating a join as a pure term
	extraParams []string // explicit iteration orders of the maps ranged over, explicit fuels
	extraTypes  []string
	opaqueParams map[types.Object]bool
	markingCall bool
	inLambda    int
	externals   []string // documentation of the ext parameters
	norder    int
	resultTypes []types.Type // result types of the function (of the returned function literal for a curried method)
	nresults  int // number of results of the function (of the returned function literal for a curried method)
	// closures over captured state (trans_closure.go)
	retHook      func(*ast.ReturnStmt) trLines                  // constructor of closures: `return nil` / `return &T{…}`
	statePack    func() string                                  // callback: the record of the captured variables, first component of every result
	stateVars    []*types.Var                                   // callback: the captured variables
	nmark        int
	nlitN        int
	logVars      map[types.Object]*trLogVar // write-only objects of a constructor of closures (trans_funcval.go)
	aliases      map[types.Object]*trAlias // local variables that point into a map entry (trans_alias.go)
	inCallback   bool                                           // inside a closure that runs many times: untranslated calls are FUNCTION parameters
	nilParamHook func(e ast.Expr, op token.Token) (string, bool) // `param == nil` for a pointer parameter read as a value
	deadAlias    map[types.Object]bool                          // trans_tree.go: aliases into a tree that was modified since
	pureLits     map[*ast.FuncLit]string                        // trans_tree.go: function literals already translated as pure definitions
	postLits     map[*ast.FuncLit]*trPostLit                    // trans_tree.go: function literals already translated for PostOrder
	stdoutObj    *types.Var                                     // closure whose constructor logs fmt.Printf (trans_units_perf.go)
	synth        map[ast.Expr]string                            // synthetic expression nodes that carry a translated term (trans_units_jprinter.go)
	writerMove   *trWriterMove                                  // the io.Writer parameter lives in a field of a local (trans_units_jprinter.go)
	wAliases     []*trWAlias                                    // a struct field and a variable that are one io.Writer (trans_units_beancount.go)
}

type trPre struct {
	name string
	act  string
}

func (c *trCtx) info() *types.Info { return c.fn.pkg.info }
func (c *trCtx) unit() *trUnit      { return c.fn.unit }

func (c *trCtx) fresh(base string) string {
	for {
		c.ntmp++
		n := fmt.Sprintf("%s%d", base, c.ntmp)
		if !c.used[n] {
			c.used[n] = true
			return n
		}
	}
}

// local declares the Lean name of a local variable (unique within the function)
func (c *trCtx) local(obj types.Object) string {
	if n, ok := c.names[obj]; ok {
		return n
	}
	base := trMangle(obj.Name())
	if base == "_" {
		return "_"
	}
	n := base
	if c.importShadowsType(obj) {
		c.used[base] = true // `field field`: a local named like a type of its package is renamed (trans_units_import.go)
	}
	for i := 1; c.used[n]; i++ {
		n = fmt.Sprintf("%s_%d", base, i)
	}
	c.used[n] = true
	c.names[obj] = n
	return n
}

func (c *trCtx) hoist(act string, pos token.Pos) string {
	if c.pureMode() && c.fn.effect {
		panic(trPureFail{})
	}
	if !c.fn.effect {
		trFail(pos, "internal: effectful expression in a function classified as pure")
	}
	if c.noHoist > 0 {
		trFail(pos, "a call that can panic inside the right operand of && or || is outside the subset")
	}
	n := c.fresh("t")
	c.pre = append(c.pre, trPre{n, act})
	return n
}

func (c *trCtx) takePre() []trPre {
	p := c.pre
	c.pre = nil
	return p
}

func trWrapPre(pre []trPre, body trLines) trLines {
	for i := len(pre) - 1; i >= 0; i-- {
		body = trBind(pre[i].name, pre[i].act, body)
	}
	return body
}

func (c *trCtx) typeOf(e ast.Expr) types.Type {
	tv, ok := c.info().Types[e]
	if !ok || tv.Type == nil || tv.Type == types.Typ[types.Invalid] {
		trFail(e.Pos(), "expression %s has no type here: it uses a declaration outside the prelude and the translated packages", trSrc(e))
	}
	return tv.Type
}

func trSrc(e ast.Node) string {
	var b strings.Builder
	switch x := e.(type) {
	case *ast.Ident:
		return x.Name
	case *ast.SelectorExpr:
		return trSrc(x.X) + "." + x.Sel.Name
	case *ast.CallExpr:
		return trSrc(x.Fun) + "(…)"
	case *ast.BasicLit:
		return x.Value
	}
	fmt.Fprintf(&b, "%T", e)
	return b.String()
}

func (c *trCtx) leanType(ty types.Type, pos token.Pos) string {
	return c.t.leanType(c.unit(), ty, pos)
}

func trLeanStr(s string) string {
	var b strings.Builder
	b.WriteByte('"')
	for _, r := range s {
		switch {
		case r == '"':
			b.WriteString("\\\"")
		case r == '\\':
			b.WriteString("\\\\")
		case r == '\n':
			b.WriteString("\\n")
		case r == '\t':
			b.WriteString("\\t")
		case r == '\r':
			b.WriteString("\\r")
		case r < 0x20 || r == 0x7f:
			fmt.Fprintf(&b, "\\x%02x", r)
		default:
			b.WriteRune(r)
		}
	}
	b.WriteByte('"')
	return b.String()
}

// exprAs: an expression in a position whose type is known (gives `nil` its type)
func (c *trCtx) exprAs(e ast.Expr, ty types.Type) string {
	if r, ok := c.funcValAs(e, ty); ok {
		return r
	}
	if trIsError(ty) {
		if r, ok := c.errorBox(e); ok {
			return r
		}
	}
	if c.isNil(e) {
		if r, ok := c.perfNil(e, ty); ok {
			return r
		}
		if r, ok := c.tableNil(e, ty); ok {
			return r // r.table = nil (trans_units_tablerender.go)
		}
		if r, ok := c.createNil(e, ty); ok {
			return r // nil for a *T result of a Create function (trans_units_create.go)
		}
		if r, ok := c.internedNil(e, ty); ok {
			return r // nil where an interned pointer is expected: the zero value of the struct (trans_units_mapping.go)
		}
		switch {
		case trIsError(ty):
			return "(none : Option Error)"
		default:
			if _, ok := ty.Underlying().(*types.Slice); ok {
				return "([] : " + c.leanType(ty, e.Pos()) + ")" // nil slice: len 0, append and range as for an empty slice
			}
		}
		trFail(e.Pos(), "nil of type %s is outside the subset", ty)
	}
	return c.ifaceArg(ty, e, c.expr(e)) // a *T in a position of a sum-type interface: the constructor of T (trans_units_jprinter.go)
}

// errorBox: a struct literal of a type that implements `error`, used as an error: only its message is kept — the constant
// `Msg`/`Message` field, or the format of the fmt.Sprintf that builds it (the other fields name the directive or the source range)
func (c *trCtx) errorBox(e ast.Expr) (string, bool) {
	cl, ok := trUnparen(e).(*ast.CompositeLit)
	if !ok {
		return "", false
	}
	tv, ok := c.info().Types[cl]
	if !ok || tv.Type == nil {
		// a type of a package that is not loaded (syntax.Error): the literal still shows its message
		if cl.Type == nil {
			return "", false
		}
	} else if trIsError(tv.Type) {
		return "", false
	}
	msg := ""
	found := false
	for _, el := range cl.Elts {
		kv, ok := el.(*ast.KeyValueExpr)
		if !ok {
			continue
		}
		k, ok := kv.Key.(*ast.Ident)
		if !ok || (k.Name != "Msg" && k.Name != "Message") {
			continue
		}
		if v := c.info().Types[kv.Value]; v.Value != nil {
			msg = strings.Trim(v.Value.ExactString(), "\"")
			found = true
		} else if call, ok := kv.Value.(*ast.CallExpr); ok && len(call.Args) > 0 {
			if v := c.info().Types[call.Args[0]]; v.Value != nil {
				msg = strings.Trim(v.Value.ExactString(), "\"")
				found = true
			}
		}
	}
	if !found {
		trFail(e.Pos(), "a struct literal used as an error without a constant Msg/Message is outside the subset")
	}
	return "(some (Error.mk " + trLeanStr(msg) + "))", true
}

// expr translates an expression to a single-line Lean term (atomic or parenthesised).
func (c *trCtx) expr(e ast.Expr) string {
	if s, ok := c.synth[e]; ok {
		return s
	}
	if s, ok := c.createExpr(e); ok {
		return s // addresses of syntax nodes, slices of a sum-type interface (trans_units_create.go)
	}
	// constants fold (except names of constants, which keep their name)
	if tv, ok := c.info().Types[e]; ok && tv.Value != nil {
		switch x := e.(type) {
		case *ast.Ident:
			if r := c.constName(x, x); r != "" {
				return r
			}
		case *ast.SelectorExpr:
			if r := c.constName(x.Sel, x); r != "" {
				return r
			}
		case *ast.ParenExpr:
			return c.expr(x.X)
		}
		ty := tv.Type
		if trIsRune(ty) {
			if n, ok := constantInt(tv.Value); ok {
				return "(Char.ofNat " + strconv.Itoa(n) + ")"
			}
		}
		if trIsInt(ty) || isBasicKind(ty, types.IsBoolean|types.IsString) {
			lit := c.t.constLit(tv.Value, ty, e.Pos())
			if trIsInt(ty) {
				return "(" + strings.Trim(lit, "()") + " : Int)"
			}
			return lit
		}
		if trIsFloat(ty) {
			return c.floatConst(tv.Value, e.Pos())
		}
		trFail(e.Pos(), "constant of type %s is outside the subset", ty)
	}
	switch x := e.(type) {
	case *ast.ParenExpr:
		return c.expr(x.X)
	case *ast.Ident:
		return c.ident(x)
	case *ast.BasicLit:
		trFail(x.Pos(), "literal %s is outside the subset", x.Value)
	case *ast.UnaryExpr:
		return c.unary(x)
	case *ast.BinaryExpr:
		return c.binary(x)
	case *ast.SelectorExpr:
		return c.selector(x)
	case *ast.CallExpr:
		return c.call(x)
	case *ast.CompositeLit:
		return c.composite(x)
	case *ast.IndexExpr:
		return c.indexExpr(x)
	case *ast.SliceExpr:
		return c.sliceExpr(x)
	case *ast.FuncLit:
		return c.funcLit(x)
	case *ast.StarExpr:
		// *p of a pointer handled as a value
		c.leanType(c.typeOf(x.X), x.Pos())
		return c.expr(x.X)
	}
	trFail(e.Pos(), "expression %T is outside the subset", e)
	return ""
}

func constantInt(v constant.Value) (int, bool) {
	if v.Kind() != constant.Int {
		return 0, false
	}
	n, ok := constant.Int64Val(v)
	return int(n), ok
}

func isBasicKind(ty types.Type, info types.BasicInfo) bool {
	b, ok := ty.Underlying().(*types.Basic)
	return ok && b.Info()&info != 0
}

// constName: the Lean name of a named constant of a translated package (so that the generated text keeps `Once`)
func (c *trCtx) constName(id *ast.Ident, e ast.Expr) string {
	k, ok := c.info().Uses[id].(*types.Const)
	if !ok || k.Pkg() == nil {
		return ""
	}
	u := c.t.unitOfPkg(k.Pkg())
	if u == nil {
		return ""
	}
	n, ok := trUnalias(k.Type()).(*types.Named)
	if !ok || k.Parent() != k.Pkg().Scope() {
		return ""
	}
	c.t.needType(u, n, e.Pos())
	return c.t.qname(c.unit(), u, trMangle(k.Name()))
}

func (c *trCtx) ident(x *ast.Ident) string {
	obj := c.info().Uses[x]
	if obj == nil {
		obj = c.info().Defs[x]
	}
	switch o := obj.(type) {
	case *types.Var:
		if o.Pkg() != nil && o.Parent() == o.Pkg().Scope() {
			return c.pkgVar(o, x.Pos())
		}
		if c.deadAlias[o] {
			trFail(x.Pos(), "%s points into a tree that was modified (other than through it) since: outside the subset", x.Name)
		}
		if n, ok := c.names[o]; ok {
			if c.nilSliceVar(o) {
				return "(Option.getD " + n + " [])" // read as a list: nil reads as empty (trans_units_perf.go)
			}
			return n
		}
		if c.opaqueParams[o] {
			trFail(x.Pos(), "parameter %s (type %s, not translatable) is used outside the calls of untranslated functions", x.Name, o.Type())
		}
		trFail(x.Pos(), "variable %s is used before the translator saw its declaration", x.Name)
	case *types.Func:
		return c.funcValue(o, x.Pos())
	case *types.Nil:
		ty := c.typeOf(x)
		if trIsError(ty) {
			return "(none : Option Error)"
		}
		if _, ok := ty.Underlying().(*types.Slice); ok {
			return "([] : " + c.leanType(ty, x.Pos()) + ")" // nil slice: len 0, append and range as for an empty slice; comparison with nil is rejected
		}
		trFail(x.Pos(), "nil of type %s is outside the subset", ty)
	}
	trFail(x.Pos(), "identifier %s (%T) is outside the subset", x.Name, obj)
	return ""
}

// externalCall: a call of a function of /repo that is not translated (the registry, the syntax layer), outside every loop: its
// RESULT becomes an extra parameter `ext<N>` of the translated function (the call is executed at most once; the translated state
// holds no pointer the callee could write through: pointers are values there). The arguments are not translated.
func (c *trCtx) externalCall(fobj *types.Func, x *ast.CallExpr) (string, bool) {
	full := fobj.FullName()
	if fobj.Pkg() == nil || (!strings.HasPrefix(fobj.Pkg().Path(), trKnutPath) && !trExtStd[full]) { // (trExtStd: trans_units_import.go)
		return "", false
	}
	if _, ok := trPinned[fobj.Origin().FullName()]; ok {
		return "", false
	}
	if tf := c.t.funcs[fobj.Origin()]; tf != nil && (c.createMode() || !trCreateUnitSet[tf.unit]) && trFragsOf(tf) == nil { // (only fragments translated: not callable, trans_units_mapping.go)
		return "", false // (the functions of the Create units are translated for those units only: trans_units_create.go)
	}
	if c.inCallback || c.createMode() {
		return c.externalFn(fobj, x), true // (in the Create units the registry calls stand inside loops: trans_units_create.go)
	}
	if c.loop != nil || c.inLambda > 0 {
		trFail(x.Pos(), "call of %s, which is not translated, inside a loop is outside the subset (outside loops its result would be a parameter)", full)
	}
	ty := c.leanType(c.typeOf(x), x.Pos())
	c.norder++
	n := "ext" + itoa(c.norder)
	c.extraParams = append(c.extraParams, "("+n+" : "+ty+")")
	c.extraTypes = append(c.extraTypes, ty)
	if c.retHook != nil {
		c.externals = append(c.externals, n+" = "+trSrcText(c.t.l.fset, x)) // pinned by the agreement module: no line number
	} else {
		c.externals = append(c.externals, n+" = "+full+" ("+c.t.l.relPos(x.Pos())+")")
	}
	return n, true
}

func (c *trCtx) passExtras(tf *trFunc) []string {
	var names []string
	for _, ty := range tf.extras {
		if n, ok := c.ambientExtra(ty); ok {
			names = append(names, n) // the caller's own (trans_units_tablerender.go)
			continue
		}
		ty = c.requalifyExtra(tf, ty) // the callee lives in another unit: its type names get their namespace (trans_units_mapping.go)
		c.norder++
		n := "extra" + itoa(c.norder)
		c.extraParams = append(c.extraParams, "("+n+" : "+ty+")")
		c.extraTypes = append(c.extraTypes, ty)
		names = append(names, n)
	}
	return names
}

// funcValue: the name of a translated pure function used as a value (argument of a pinned helper)
func (c *trCtx) funcValue(o *types.Func, pos token.Pos) string {
	if r, ok := c.perfPinnedValue(o, pos); ok {
		return r // a pinned helper with a prelude meaning used as a value (trans_units_perf.go)
	}
	tf := c.t.funcs[o.Origin()]
	if tf == nil || tf.effect || len(tf.mut) > 0 || tf.norder > 0 {
		trFail(pos, "the function value %s is not a translated pure function", o.FullName())
	}
	c.fn.deps = append(c.fn.deps, tf)
	return c.t.qname(c.unit(), tf.unit, tf.leanName)
}

// pkgVar: a package-level variable with a pure initialiser that is never assigned is a Lean definition
func (c *trCtx) pkgVar(o *types.Var, pos token.Pos) string {
	if lean, ok := trPrimVars[o.Pkg().Path()+"."+o.Name()]; ok {
		return lean
	}
	u := c.t.unitOfPkg(o.Pkg())
	if u == nil {
		trFail(pos, "package variable %s.%s is outside the prelude and the translated packages", o.Pkg().Name(), o.Name())
	}
	c.t.needPkgVar(u, o, pos)
	return c.t.qname(c.unit(), u, trMangle(o.Name()))
}

func (c *trCtx) unary(x *ast.UnaryExpr) string {
	switch x.Op {
	case token.NOT:
		return "(!" + c.expr(x.X) + ")"
	case token.SUB:
		if trIsInt(c.typeOf(x.X)) || trIsFloat(c.typeOf(x.X)) {
			return "(-" + c.expr(x.X) + ")"
		}
	case token.AND:
		if m, ok := trAddrOfMap(c.info(), x); ok {
			return c.expr(m) // a pointer to a map is the map (trans_units_perf.go)
		}
		// &T{…} / &x of a pointer handled as a value
		c.leanType(c.typeOf(x), x.Pos())
		if _, ok := x.X.(*ast.CompositeLit); ok {
			return c.expr(x.X)
		}
		trFail(x.Pos(), "taking the address of %s is outside the subset", trSrc(x.X))
	}
	trFail(x.Pos(), "unary operator %s on %s is outside the subset", x.Op, c.typeOf(x.X))
	return ""
}

func (c *trCtx) isNil(e ast.Expr) bool {
	id, ok := trUnparen(e).(*ast.Ident)
	if !ok {
		return false
	}
	_, isNil := c.info().Uses[id].(*types.Nil)
	return isNil
}

func (c *trCtx) binary(x *ast.BinaryExpr) string {
	switch x.Op {
	case token.LAND, token.LOR:
		return c.shortCircuit(x) // an effectful right operand runs only when the left one lets it (trans_units_perf.go)
	}
	// comparison with nil: errors only
	if x.Op == token.EQL || x.Op == token.NEQ {
		var other ast.Expr
		if c.isNil(x.Y) {
			other = x.X
		} else if c.isNil(x.X) {
			other = x.Y
		}
		if other != nil {
			if r, ok := c.nilPtrCompare(other, x.Op); ok {
				return r
			}
			if r, ok := c.regexpNilCompare(other, x.Op); ok {
				return r // *regexp.Regexp: Option.isNone / isSome (trans_units_mapping.go)
			}
			if sel, ok := c.nilableSel(other); ok {
				if x.Op == token.EQL {
					return "(Option.isNone " + c.nilableRaw(sel) + ")"
				}
				return "(Option.isSome " + c.nilableRaw(sel) + ")"
			}
			if trSigOf(c.typeOf(other)) != nil {
				if x.Op == token.EQL {
					return "(Option.isNone " + c.expr(other) + ")"
				}
				return "(Option.isSome " + c.expr(other) + ")"
			}
			if sel, isSel := trUnparen(other).(*ast.SelectorExpr); isSel && trIsInterned(c.typeOf(other)) {
				if s, ok := c.info().Selections[sel]; ok && s.Kind() == types.FieldVal {
					// a FIELD of interned pointer type: nil is the zero value of the struct (as in a literal that omits the field); the
					// registry never hands out a pointer to a zero-valued object
					lt := c.leanType(c.typeOf(other), x.Pos())
					if x.Op == token.EQL {
						return "(decide (" + c.expr(other) + " = (GoZero.zero : " + lt + ")))"
					}
					return "(!decide (" + c.expr(other) + " = (GoZero.zero : " + lt + ")))"
				}
			}
			if _, isID := trUnparen(other).(*ast.Ident); isID && trIsInterned(c.typeOf(other)) {
				if _, isParam := c.names[c.info().Uses[trUnparen(other).(*ast.Ident)]]; isParam && c.nilParamHook == nil {
					// a local VARIABLE of interned pointer type (the value variable of a range over []*Commodity): nil is the zero value,
					// as for a field
					lt := c.leanType(c.typeOf(other), x.Pos())
					if x.Op == token.EQL {
						return "(decide (" + c.expr(other) + " = (GoZero.zero : " + lt + ")))"
					}
					return "(!decide (" + c.expr(other) + " = (GoZero.zero : " + lt + ")))"
				}
			}
			if !trIsError(c.typeOf(other)) {
				if c.nilParamHook != nil {
					if r, ok := c.nilParamHook(other, x.Op); ok {
						return r
					}
				}
				if r, ok := c.internedParamNil(other, x.Op); ok {
					return r // a parameter of interned pointer type: nil is the zero value (trans_units_beancount.go)
				}
				trFail(x.Pos(), "comparison of %s with nil is outside the subset (only errors)", c.typeOf(other))
			}
			if x.Op == token.EQL {
				return "(Option.isNone " + c.expr(other) + ")"
			}
			return "(Option.isSome " + c.expr(other) + ")"
		}
	}
	tx, ty := c.typeOf(x.X), c.typeOf(x.Y)
	a, b := c.expr(x.X), c.expr(x.Y)
	if r, ok := c.floatBinary(x, tx, ty, a, b); ok {
		return r
	}
	switch x.Op {
	case token.EQL, token.NEQ:
		if _, ok := tx.Underlying().(*types.Pointer); ok {
			if c.leanTypeIsOpaque(tx) == "" && !trIsInterned(tx) {
				trFail(x.Pos(), "comparison of pointers (%s) is outside the subset", tx)
			}
		}
		c.leanType(tx, x.Pos())
		if c.t.hasOmitted(tx) {
			trFail(x.Pos(), "comparison of %s, a struct with omitted fields, is outside the subset", tx)
		}
		if x.Op == token.EQL {
			return "(decide (" + a + " = " + b + "))"
		}
		return "(!decide (" + a + " = " + b + "))"
	case token.LSS, token.LEQ, token.GTR, token.GEQ:
		if !(trIsInt(tx) && trIsInt(ty)) && !(isBasicKind(tx, types.IsString) && isBasicKind(ty, types.IsString)) && !(trIsRune(tx) && trIsRune(ty)) {
			trFail(x.Pos(), "ordering %s on %s is outside the subset", x.Op, tx)
		}
		op := map[token.Token]string{token.LSS: "<", token.LEQ: "≤", token.GTR: ">", token.GEQ: "≥"}[x.Op]
		return "(decide (" + a + " " + op + " " + b + "))"
	case token.ADD:
		if isBasicKind(tx, types.IsString) {
			return "(" + a + " ++ " + b + ")"
		}
		fallthrough
	case token.SUB, token.MUL:
		if !trIsInt(tx) || !trIsInt(ty) {
			trFail(x.Pos(), "operator %s on %s is outside the subset", x.Op, tx)
		}
		return "(" + a + " " + x.Op.String() + " " + b + ")"
	case token.QUO, token.REM:
		if !trIsInt(tx) || !trIsInt(ty) {
			trFail(x.Pos(), "operator %s on %s is outside the subset", x.Op, tx)
		}
		fn := map[token.Token]string{token.QUO: "idiv", token.REM: "imod"}[x.Op]
		if tv := c.info().Types[x.Y]; tv.Value != nil && tv.Value.ExactString() != "0" {
			return "(" + fn + " " + a + " " + b + ")"
		}
		return c.hoist(fn+"E "+a+" "+b, x.Pos())
	}
	trFail(x.Pos(), "operator %s is outside the subset", x.Op)
	return ""
}

func (c *trCtx) leanTypeIsOpaque(ty types.Type) string {
	p, ok := ty.Underlying().(*types.Pointer)
	if !ok {
		return ""
	}
	if n, ok := p.Elem().(*types.Named); ok && n.Obj().Pkg() != nil && strings.HasPrefix(n.Obj().Pkg().Path(), trKnutPath+"lib/syntax") {
		return "" // Ref: never compared
	}
	if n, ok := trUnalias(p.Elem()).(*types.Named); ok && n.Obj().Pkg() != nil {
		return trOpaque["*"+n.Obj().Pkg().Path()+"."+n.Obj().Name()]
	}
	return ""
}

func (c *trCtx) selector(x *ast.SelectorExpr) string {
	if sel, ok := c.info().Selections[x]; ok {
		switch sel.Kind() {
		case types.FieldVal:
			if r, ok := c.createSelector(x, sel); ok {
				return r // a field of a syntax node (trans_units_create.go)
			}
			if len(sel.Index()) != 1 {
				trFail(x.Pos(), "selection of the promoted field %s is outside the subset", x.Sel.Name)
			}
			if r, ok := c.perfSelect(x, sel); ok {
				return r // through a nilable pointer / of a nilable map field (trans_units_perf.go)
			}
			c.leanType(sel.Recv(), x.Pos())
			if c.t.fieldOmitted(sel.Recv(), x.Sel.Name) {
				trFail(x.Pos(), "field %s has a type outside the subset and is omitted from the translated struct", x.Sel.Name)
			}
			if trNilableField(sel.Recv(), x.Sel.Name) {
				return "(Option.getD " + c.expr(x.X) + "." + trMangle(x.Sel.Name) + " [])" // read as a list: nil reads as empty
			}
			return c.expr(x.X) + "." + trMangle(x.Sel.Name)
		default:
			trFail(x.Pos(), "method value %s is outside the subset", trSrc(x))
		}
	}
	// qualified identifier pkg.Name
	switch o := c.info().Uses[x.Sel].(type) {
	case *types.Var:
		return c.pkgVar(o, x.Pos())
	case *types.Func:
		return c.funcValue(o, x.Pos())
	case nil:
		trFail(x.Pos(), "%s is not declared in the prelude or in a translated package", trSrc(x))
	}
	trFail(x.Pos(), "selector %s is outside the subset", trSrc(x))
	return ""
}

func (c *trCtx) composite(x *ast.CompositeLit) string {
	ty := c.typeOf(x)
	lt := c.leanType(ty, x.Pos())
	if (trIsTime(ty) || trIsDecimal(ty)) && len(x.Elts) == 0 {
		return "(0 : " + lt + ")" // time.Time{} = 0001-01-01 00:00 UTC = day 0; decimal.Decimal{} = 0
	}
	under := ty.Underlying()
	if p, ok := under.(*types.Pointer); ok {
		under = p.Elem().Underlying()
	}
	switch u := under.(type) {
	case *types.Struct:
		if u.NumFields() == 0 {
			if lt != "Unit" {
				return "({} : " + lt + ")" // a NAMED struct type without fields is a structure (trans_units_tablerender.go)
			}
			return "()"
		}
		given := map[string]string{}
		fieldType := func(name string) types.Type {
			for i := 0; i < u.NumFields(); i++ {
				if u.Field(i).Name() == name {
					return u.Field(i).Type()
				}
			}
			return nil
		}
		// an omitted field (untranslatable type) set from an untranslatable parameter: dropped with the field
		opaqueGiven := map[string]bool{}
		for i, el := range x.Elts {
			if kv, ok := el.(*ast.KeyValueExpr); ok {
				if fn := kv.Key.(*ast.Ident).Name; c.t.fieldOmitted(ty, fn) {
					if id, isID := trUnparen(kv.Value).(*ast.Ident); isID && c.opaqueParams[c.info().Uses[id]] {
						given[fn], opaqueGiven[fn] = "", true
						continue
					}
				}
				if fn := kv.Key.(*ast.Ident).Name; trNilableField(ty, fn) {
					given[fn] = c.nilableValue(kv.Value, fieldType(fn))
					continue
				}
				given[kv.Key.(*ast.Ident).Name] = c.elemExpr(kv.Value, fieldType(kv.Key.(*ast.Ident).Name))
			} else {
				if trNilableField(ty, u.Field(i).Name()) {
					given[u.Field(i).Name()] = c.nilableValue(el, u.Field(i).Type())
					continue
				}
				given[u.Field(i).Name()] = c.elemExpr(el, u.Field(i).Type())
			}
		}
		var parts []string
		for i := 0; i < u.NumFields(); i++ {
			f := u.Field(i)
			if c.t.fieldOmitted(ty, f.Name()) {
				if _, set := given[f.Name()]; set && !opaqueGiven[f.Name()] {
					trFail(x.Pos(), "field %s is omitted from the translated struct and cannot be set", f.Name())
				}
				continue
			}
			v, ok := given[f.Name()]
			if !ok {
				v = "GoZero.zero"
			}
			parts = append(parts, trMangle(f.Name())+" := "+v)
			if trCapFieldOf(ty, f.Name()) {
				parts = append(parts, trMangle(f.Name())+"_cap := "+c.capGiven(x, i, ok)) // (trans_units_tablerender.go)
			}
		}
		return "({ " + strings.Join(parts, ", ") + " } : " + lt + ")"
	case *types.Slice:
		var parts []string
		for _, el := range x.Elts {
			if _, ok := el.(*ast.KeyValueExpr); ok {
				trFail(el.Pos(), "keyed slice literal is outside the subset")
			}
			parts = append(parts, c.elemExpr(el, u.Elem()))
		}
		return "([" + strings.Join(parts, ", ") + "] : " + lt + ")"
	case *types.Map:
		// entries are set in source order into the empty map
		r := "([] : " + lt + ")"
		for _, el := range x.Elts {
			kv := el.(*ast.KeyValueExpr)
			r = "(AMap.set " + r + " " + c.expr(kv.Key) + " " + c.elemExpr(kv.Value, u.Elem()) + ")"
		}
		return r
	}
	trFail(x.Pos(), "composite literal of type %s is outside the subset", ty)
	return ""
}

// elemExpr: an element of a composite literal; `{…}` without a type takes the element type
func (c *trCtx) elemExpr(e ast.Expr, elem types.Type) string {
	if elem != nil {
		if r, ok := c.funcValAs(e, elem); ok {
			return r
		}
	}
	return c.expr(e)
}

func (c *trCtx) indexExpr(x *ast.IndexExpr) string {
	if r, ok := c.perfFuncInst(x); ok {
		return r // F[T] as a value: the type argument is implicit in Lean (trans_units_perf.go)
	}
	tx := c.typeOf(x.X)
	switch u := tx.Underlying().(type) {
	case *types.Slice:
		return c.hoist("index "+c.expr(x.X)+" "+c.expr(x.Index), x.Pos())
	case *types.Map:
		// m[k]: the zero value when absent
		return "(AMap.get " + c.expr(x.X) + " " + c.expr(x.Index) + " (GoZero.zero : " + c.leanType(u.Elem(), x.Pos()) + "))"
	}
	trFail(x.Pos(), "indexing a value of type %s is outside the subset", tx)
	return ""
}

func (c *trCtx) sliceExpr(x *ast.SliceExpr) string {
	tx := c.typeOf(x.X)
	if isBasicKind(tx, types.IsString) && !x.Slice3 {
		// s[lo:hi] by BYTE offsets
		str := c.expr(x.X)
		lo, hi := "(0 : Int)", "(Strings.byteLen "+str+")"
		if x.Low != nil {
			lo = c.expr(x.Low)
		}
		if x.High != nil {
			hi = c.expr(x.High)
		}
		return c.hoist("Strings.slice "+str+" "+lo+" "+hi, x.Pos())
	}
	if _, ok := tx.Underlying().(*types.Slice); !ok || x.Slice3 {
		trFail(x.Pos(), "slicing a value of type %s is outside the subset", tx)
	}
	xs := c.expr(x.X)
	lo, hi := "(0 : Int)", "(len "+xs+")"
	if x.Low != nil {
		lo = c.expr(x.Low)
	}
	if x.High != nil {
		hi = c.expr(x.High)
	}
	return c.hoist("slice "+xs+" "+lo+" "+hi, x.Pos())
}

func (c *trCtx) call(x *ast.CallExpr) string {
	// conversion T(e)
	if tv, ok := c.info().Types[x.Fun]; ok && tv.IsType() {
		from, to := c.typeOf(x.Args[0]), tv.Type
		if trIsInt(from) && trIsInt(to) {
			c.leanType(to, x.Pos())
			return c.expr(x.Args[0])
		}
		if types.Identical(from.Underlying(), to.Underlying()) {
			c.leanType(to, x.Pos())
			return c.expr(x.Args[0])
		}
		if trIsInt(from) && trIsFloat(to) {
			return "((" + c.expr(x.Args[0]) + " : Int) : Rat)" // exact (trans_units_perf.go)
		}
		trFail(x.Pos(), "conversion from %s to %s is outside the subset", from, to)
	}
	// builtins
	if id, ok := trUnparen(x.Fun).(*ast.Ident); ok {
		if b, ok := c.info().Uses[id].(*types.Builtin); ok {
			return c.builtin(b.Name(), x)
		}
	}
	// explicit instantiation F[T](…) of a declared generic function: the call of F (type arguments are implicit in Lean)
	if ix, ok := trUnparen(x.Fun).(*ast.IndexExpr); ok && c.calledFunc(x) != nil {
		y := *x
		y.Fun = ix.X
		c.info().Types[&y] = c.info().Types[x]
		return c.call(&y)
	}
	if r, ok := c.tparamMethodCall(x); ok {
		return r // t.Name() for t of a type parameter constrained by an interface: the dictionary parameter (trans_units_mapping.go)
	}
	if r, ok := c.treeCallExpr(x); ok {
		return r
	}
	if r, ok := c.builderNew(x); ok {
		return r
	}
	if m, _ := c.builderCallInfo(x); m != nil {
		trFail(x.Pos(), "a call on a table builder object inside an expression is outside the subset (statements and `x := t.AddRow()…` only)")
	}
	if r, ok := c.importStrCall(x); ok {
		return r // MatchString / Replace on package-level values of the prelude in the importer units (trans_units_import.go)
	}
	if r, ok := c.regexpMatchCall(x); ok {
		return r // re.MatchString(s) on a *regexp.Regexp value (trans_units_mapping.go)
	}
	if r, ok := c.colorCall(x); ok {
		return r // color.New(attrs…) (trans_units_tablerender.go)
	}
	if r, ok := c.regexpCall(x); ok {
		return r // re.ReplaceAllString on a package-level regular expression of the prelude (trans_units_beancount.go)
	}
	if r, ok := c.perfGetExpr(x); ok {
		return r
	}
	if r, ok := c.createCall(x); ok {
		return r // methods of syntax nodes, calls that pass the registry or a node (trans_units_create.go)
	}
	if fo := c.calledFunc(x); fo != nil {
		if r, ok := c.externalCall(fo, x); ok {
			return r
		}
	}
	if r, ok := c.funcCall(x); ok {
		return r
	}
	var fobj *types.Func
	var recv ast.Expr
	switch f := trUnparen(x.Fun).(type) {
	case *ast.Ident:
		fobj, _ = c.info().Uses[f].(*types.Func)
	case *ast.SelectorExpr:
		if sel, ok := c.info().Selections[f]; ok {
			if sel.Kind() != types.MethodVal {
				trFail(x.Pos(), "call of the function value %s is outside the subset", trSrc(f))
			}
			if len(sel.Index()) != 1 {
				trFail(x.Pos(), "call of the promoted method %s is outside the subset", trSrc(f))
			}
			fobj, _ = sel.Obj().(*types.Func)
			recv = f.X
		} else {
			fobj, _ = c.info().Uses[f.Sel].(*types.Func)
		}
	}
	if fobj == nil {
		trFail(x.Pos(), "call of %s: not a function of the prelude or of a translated package", trSrc(x.Fun))
	}
	if r, ok := c.externalCall(fobj, x); ok {
		return r
	}
	if x.Ellipsis != token.NoPos {
		trFail(x.Pos(), "call with … is outside the subset")
	}
	var args []string
	if recv != nil {
		args = append(args, c.expr(recv))
	}
	full := fobj.FullName()
	if strings.HasPrefix(full, "fmt.") {
		return c.fmtCall(fobj.Name(), x)
	}
	if full == "sort.Search" {
		return c.sortSearch(x)
	}
	argExprs := x.Args
	prim, isPrim := trPrims[full]
	if isPrim && prim.args != nil {
		argExprs = prim.args(c, x)
	}
	sigParams := fobj.Type().(*types.Signature).Params()
	_, calleePinned := trPinned[full]
	for i, a := range argExprs {
		if c.droppedArg(fobj, i) {
			continue // the callee's parameter is dropped (an untranslatable type: the registry) (trans_units_mapping.go)
		}
		if r, ok := c.variadicArgs(fobj, x, i, argExprs); ok {
			args = append(args, r) // the trailing arguments of a translated variadic function as one list (trans_units_mapping.go)
			break
		}
		if calleePinned {
			args = append(args, c.expr(a)) // the prelude's helpers take plain Lean functions
		} else if i < sigParams.Len() && !fobj.Type().(*types.Signature).Variadic() {
			if r, ok := c.extNilSlice(fobj, i, a); ok {
				args = append(args, r) // the result of an untranslated call for a nil-tracked slice parameter: an ext parameter `Option (List T)` (trans_units_mapping.go)
				continue
			}
			if trNilSliceParam(fobj, i) {
				args = append(args, c.nilSliceValue(a, sigParams.At(i).Type()))
				continue
			}
			args = append(args, c.identityArg(fobj, i, a, c.exprAs(a, sigParams.At(i).Type())))
		} else {
			args = append(args, c.expr(a))
		}
	}
	if pin, ok := trPinned[full]; ok && pin.lean != "" {
		c.t.checkPinned(fobj, x.Pos())
		return "(" + pin.lean + " " + strings.Join(args, " ") + ")"
	}
	if p, ok := trPrims[full]; ok {
		if p.mutRecv {
			trFail(x.Pos(), "%s inside an expression is outside the subset (statement only)", full)
		}
		app := p.lean + " " + strings.Join(args, " ")
		if p.leanOf != nil {
			app = p.leanOf(c, x) + " " + strings.Join(args, " ")
		}
		if p.effect {
			return c.hoist(app, x.Pos())
		}
		return "(" + app + ")"
	}
	tf := c.t.funcs[fobj.Origin()]
	if tf == nil {
		trFail(x.Pos(), "call of %s, which is neither in the prelude nor in the list of translated functions", full)
	}
	if len(tf.mut) > 0 {
		trFail(x.Pos(), "call of %s (assigns through a pointer or map parameter) inside an expression is outside the subset", full)
	}
	// the callee's extra parameters (map iteration orders, explicit fuels) become extra parameters of this function
	args = append(c.dictArgs(tf, x), args...) // the methods of interface-constrained type arguments (trans_units_mapping.go)
	extras := c.passExtras(tf)
	c.fn.deps = append(c.fn.deps, tf)
	name := c.t.qname(c.unit(), tf.unit, tf.leanName)
	if r, ok := c.partialApp(tf, name, args, extras); ok {
		return r // a curried function called with its outer arguments: a function value (trans_units_mapping.go)
	}
	args = append(args, extras...)
	app := name
	if len(args) > 0 {
		app += " " + strings.Join(args, " ")
	}
	if tf.effect {
		return c.hoist(app, x.Pos())
	}
	if len(args) == 0 {
		return name
	}
	return "(" + app + ")"
}

func (c *trCtx) builtin(name string, x *ast.CallExpr) string {
	switch name {
	case "len":
		ty := c.typeOf(x.Args[0])
		switch ty.Underlying().(type) {
		case *types.Slice:
			if trIsByteSlice(ty) {
				trFail(x.Pos(), "len of a []byte is outside the subset (a []byte is only passed on to Write)")
			}
			return "(len " + c.expr(x.Args[0]) + ")"
		case *types.Map:
			// the number of entries: every map the translated code builds (from the empty map by AMap.set/erase) holds a key once; the
			// agreement theorems state this (`WF`) for maps that are arguments
			return "(len " + c.expr(x.Args[0]) + ")"
		}
		if isBasicKind(ty, types.IsString) {
			return "(Strings.byteLen " + c.expr(x.Args[0]) + ")"
		}
		trFail(x.Pos(), "len of %s is outside the subset", ty)
	case "append":
		if _, isSub := trUnparen(x.Args[0]).(*ast.SliceExpr); isSub {
			// e.g. weights.Query.Execute: append(ss[:level], …) writes into the slice Universe.Locate returned (trans_units_perf.go)
			trFail(x.Pos(), "append onto a sub-slice (xs[i:j]) may write into the array that xs shares: capacity and sharing of arrays are not modelled")
		}
		if x.Ellipsis != token.NoPos {
			if len(x.Args) != 2 {
				trFail(x.Pos(), "append with … and more than one argument is outside the subset")
			}
			return "(" + c.expr(x.Args[0]) + " ++ " + c.expr(x.Args[1]) + ")"
		}
		var els []string
		for _, a := range x.Args[1:] {
			els = append(els, c.expr(a))
		}
		return "(" + c.expr(x.Args[0]) + " ++ [" + strings.Join(els, ", ") + "])"
	case "cap":
		if r, ok := c.capBuiltin(x); ok {
			return r // of a field whose capacity is tracked (trans_units_tablerender.go)
		}
	case "new":
		return c.perfNew(x)
	case "make":
		ty := c.typeOf(x)
		lt := c.leanType(ty, x.Pos())
		switch ty.Underlying().(type) {
		case *types.Slice:
			if len(x.Args) == 3 || len(x.Args) == 2 {
				if tv := c.info().Types[x.Args[1]]; len(x.Args) == 3 && tv.Value != nil && tv.Value.ExactString() == "0" {
					return "([] : " + lt + ")" // make([]T, 0, cap): the capacity is not observable
				}
			}
			if r, ok := c.makeSliceLen(x); ok {
				return r // (trans_units_tablerender.go)
			}
			trFail(x.Pos(), "make of a slice with a non-zero length is outside the subset")
		case *types.Map:
			return "([] : " + lt + ")"
		}
		trFail(x.Pos(), "make(%s) is outside the subset", ty)
	}
	trFail(x.Pos(), "builtin %s in expression position is outside the subset", name)
	return ""
}

// fmt.Errorf → an Error that keeps the format string; fmt.Sprintf with %s / %d / %v of strings and ints → concatenation
func (c *trCtx) fmtCall(name string, x *ast.CallExpr) string {
	tv := c.info().Types[x.Args[0]]
	if tv.Value == nil {
		trFail(x.Pos(), "fmt.%s with a non-constant format is outside the subset", name)
	}
	format, _ := strconv.Unquote(tv.Value.ExactString())
	switch name {
	case "Errorf":
		// the operands are evaluated by Go but have no effect in the subset; the message keeps the format only
		return "(some (Error.mk " + trLeanStr(format) + "))"
	case "Sprintf":
		if s, ok := c.floatSprintf(x, 0); ok {
			return s // a verb f (trans_units_tablerender.go)
		}
		var parts []string
		arg := 1
		lit := ""
		flush := func() {
			if lit != "" {
				parts = append(parts, trLeanStr(lit))
				lit = ""
			}
		}
		for i := 0; i < len(format); i++ {
			if format[i] != '%' {
				lit += string(format[i])
				continue
			}
			i++
			if i >= len(format) {
				trFail(x.Pos(), "fmt.Sprintf: format ends in %%")
			}
			switch format[i] {
			case '%':
				lit += "%"
			case 's', 'd', 'v':
				if arg >= len(x.Args) {
					trFail(x.Pos(), "fmt.Sprintf: missing operand")
				}
				ty := c.typeOf(x.Args[arg])
				flush()
				switch {
				case isBasicKind(ty, types.IsString) && format[i] != 'd':
					parts = append(parts, c.expr(x.Args[arg]))
				case trIsInt(ty) && format[i] != 's' && ty == types.Typ[types.Int]:
					parts = append(parts, "(Strings.itoa "+c.expr(x.Args[arg])+")")
				default:
					trFail(x.Args[arg].Pos(), "fmt.Sprintf: verb %%%c with an operand of type %s is outside the subset", format[i], ty)
				}
				arg++
			default:
				trFail(x.Pos(), "fmt.Sprintf: verb %%%c is outside the subset", format[i])
			}
		}
		flush()
		if arg != len(x.Args) {
			trFail(x.Pos(), "fmt.Sprintf: extra operands")
		}
		if len(parts) == 0 {
			return "\"\""
		}
		return "(" + strings.Join(parts, " ++ ") + ")"
	}
	trFail(x.Pos(), "fmt.%s is outside the subset", name)
	return ""
}

// sort.Search(n, func(i int) bool { return e }) → sortSearch n (fun i => e) in the Outcome monad
func (c *trCtx) sortSearch(x *ast.CallExpr) string {
	fl, ok := x.Args[1].(*ast.FuncLit)
	if !ok || len(fl.Body.List) != 1 {
		trFail(x.Pos(), "sort.Search with a predicate that is not a function literal with a single return is outside the subset")
	}
	ret, ok := fl.Body.List[0].(*ast.ReturnStmt)
	if !ok || len(ret.Results) != 1 {
		trFail(x.Pos(), "sort.Search with a predicate that is not a function literal with a single return is outside the subset")
	}
	n := c.expr(x.Args[0])
	param := fl.Type.Params.List[0].Names[0]
	pn := c.local(c.info().Defs[param])
	saved := c.takePre()
	body := c.expr(ret.Results[0])
	inner := c.takePre()
	c.pre = saved
	term := trWrapPre(inner, trOne("Outcome.ok "+body))
	return c.hoist("sortSearch "+n+" (fun "+pn+" => "+strings.Join(term, " ")+")", x.Pos())
}
