import Knut.Proofs.ImportAccounts
/-!
# C13: the row models are faithful to the statement readers — broker importers
-/
set_option linter.unusedSimpArgs false
namespace Knut.Proofs.Import
open Knut Knut.Import Knut.Spec.Import

/-! ## ch.swissquote -/

/-- the accounts given by flags are all different from the import account -/
structure AcctsOK (a : Swissquote.Accts) : Prop where
  tbd : a.account ≠ tbd
  dividend : a.account ≠ a.dividend
  tax : a.account ≠ a.tax
  fee : a.account ≠ a.fee
  interest : a.account ≠ a.interest
  trading : a.account ≠ a.trading

structure RowOf (l : Rec) (r : Swissquote.Row) : Prop where
  date : r.date = dateOf10 layoutDMYdash (fldD l 0)
  ty : r.trxType = fldD l 2
  cur : r.currency = fldD l 12
  net : r.net = numApos (fldD l 10)
  fee : r.fee = numApos (fldD l 8)
  qty : r.quantity = numApos (fldD l 6)
  price : r.price = numApos (fldD l 7)
  sym : ∀ s, r.symbol = some s → s = fldD l 3

theorem swissquote_toRow {l : Rec} {r : Swissquote.Row} (h : Swissquote.toRow l = .ok r) : RowOf l r := by
  unfold Swissquote.toRow at h
  obtain ⟨d, hd, h⟩ := Res.bind_eq_ok h
  obtain ⟨sym, hsym, h⟩ := Res.bind_eq_ok h
  obtain ⟨quantity, hq, h⟩ := Res.bind_eq_ok h
  obtain ⟨price, hp, h⟩ := Res.bind_eq_ok h
  obtain ⟨fee, hf, h⟩ := Res.bind_eq_ok h
  obtain ⟨interest, hi, h⟩ := Res.bind_eq_ok h
  obtain ⟨net, hn, h⟩ := Res.bind_eq_ok h
  obtain ⟨balance, hb, h⟩ := Res.bind_eq_ok h
  obtain ⟨currency, hc, h⟩ := Res.bind_eq_ok h
  simp at h; subst h
  refine ⟨(dateOf10_eq hd).symm, rfl, (getCommodity_eq_ok hc).1, ?_, ?_, ?_, ?_, ?_⟩
  · simp [numApos, ofOption_eq_ok hn]
  · simp [numApos, ofOption_eq_ok hf]
  · simp [numApos, ofOption_eq_ok hq]
  · simp [numApos, ofOption_eq_ok hp]
  · intro s hs
    simp only at hs
    split at hsym
    · obtain ⟨c, hc', hsym⟩ := Res.bind_eq_ok hsym
      simp at hsym
      rw [← hsym] at hs
      simp at hs
      rw [← hs]; exact (getCommodity_eq_ok hc').1
    · simp at hsym; rw [← hsym] at hs; cases hs

theorem effect_trade (acct trading fee : Account) (h1 : acct ≠ trading) (h2 : acct ≠ fee) (sym cur : Commodity)
    (qty net f : Rat) (c' : Commodity) :
    pbSum acct c' [⟨trading, acct, sym, qty⟩, ⟨trading, acct, cur, net + f⟩, ⟨fee, acct, cur, -f⟩] =
      expected [(sym, qty), (cur, net)] c' := by
  simp [pbSum, pbEffect, expected, h1.symm, h2.symm]; grind

theorem effect_dividend (acct dividend tax : Account) (h1 : acct ≠ dividend) (h2 : acct ≠ tax) (cur : Commodity)
    (p f : Rat) (c' : Commodity) :
    pbSum acct c' (⟨dividend, acct, cur, p⟩ :: (if f = 0 then [] else [⟨acct, tax, cur, f⟩])) =
      expected [(cur, p), (cur, -f)] c' := by
  by_cases hz : f = 0
  · simp [pbSum, pbEffect, expected, h1.symm, hz]; grind
  · simp [pbSum, pbEffect, expected, h1.symm, h2.symm, hz]; grind

/-- the pending forex half of the model and of the reader describe the same row -/
def LastRel : Option Swissquote.Row → Option Rec → Prop
  | none, none => True
  | some r, some l => RowOf l r
  | _, _ => False

theorem swissquote_rows (a : Swissquote.Accts) (ok : AcctsOK a) : ∀ (ls : List Rec) (last : Option Swissquote.Row)
    (lastRec : Option Rec) (ds : List Directive), LastRel last lastRec → Swissquote.rows a last ls = .ok ds →
    All2 (Matches a.account) (swissquoteRows lastRec ls) ds := by
  intro ls
  induction ls with
  | nil => intro last lastRec ds _ h; simp [Swissquote.rows] at h; subst h; exact All2.nil
  | cons l ls ih =>
    intro last lastRec ds hrel h
    unfold Swissquote.rows at h
    split at h
    · cases h
    · obtain ⟨r, hr, h⟩ := Res.bind_eq_ok h
      obtain ⟨⟨last', ds1⟩, hstep, h⟩ := Res.bind_eq_ok h
      obtain ⟨ds2, hrec, h⟩ := Res.bind_eq_ok h
      simp at h; subst h
      have R := swissquote_toRow hr
      unfold swissquoteRows
      simp only
      unfold Swissquote.step at hstep
      rw [R.ty] at hstep
      by_cases htrade : (fldD l 2 = "Kauf" ∨ fldD l 2 = "Verkauf")
      · -- trade
        have hb : (decide (fldD l 2 = "Kauf") || decide (fldD l 2 = "Verkauf")) = true := by
          rcases htrade with h1 | h1 <;> simp [h1]
        simp only [hb, if_true] at hstep ⊢
        split at hstep
        · cases hstep
        · rename_i sym hsym
          simp at hstep
          obtain ⟨h1, h2⟩ := hstep
          subst h1 h2
          have es := R.sym sym hsym
          refine All2.cons ?_ (ih _ _ _ hrel hrec)
          rw [← R.date, ← R.net, ← R.qty, ← R.cur, ← es]
          refine mkTx_matches _ _ _ _ _ _ ?_ (by simp)
          intro c'
          by_cases hv : fldD l 2 = "Verkauf"
          · simp only [hv, if_true]
            exact effect_trade a.account a.trading a.fee ok.trading ok.fee _ _ _ _ _ c'
          · simp only [hv, if_false]
            exact effect_trade a.account a.trading a.fee ok.trading ok.fee _ _ _ _ _ c'
      · have hb : (decide (fldD l 2 = "Kauf") || decide (fldD l 2 = "Verkauf")) = false := by
          simp only [not_or] at htrade; simp [htrade.1, htrade.2]
        simp only [hb, Bool.false_eq_true, if_false] at hstep ⊢
        by_cases hfx : Swissquote.forexTypes.contains (fldD l 2) = true
        · simp only [hfx, if_true] at hstep ⊢
          cases last with
          | none =>
            cases lastRec with
            | none =>
              simp at hstep
              obtain ⟨h1, h2⟩ := hstep
              subst h1 h2
              simp only [List.nil_append]
              exact ih (some r) (some l) ds2 R hrec
            | some f => exact absurd hrel (by simp [LastRel])
          | some lr =>
            cases lastRec with
            | none => exact absurd hrel (by simp [LastRel])
            | some f =>
              simp at hstep
              obtain ⟨h1, h2⟩ := hstep
              subst h1 h2
              have F : RowOf f lr := hrel
              refine All2.cons ?_ (ih none none ds2 trivial hrec)
              rw [← R.date, ← R.net, ← R.cur, ← F.net, ← F.cur]
              refine mkTx_matches _ _ _ _ _ _ ?_ (by simp)
              intro c'
              exact effect_debit2 a.account a.trading ok.trading _ _ _ _ c'
        · simp only [hfx, Bool.false_eq_true, if_false] at hstep ⊢
          cases last with
          | some lr => simp at hstep
          | none =>
            have hlr : lastRec = none := by
              cases lastRec with
              | none => rfl
              | some f => exact absurd hrel (by simp [LastRel])
            subst hlr
            simp only [Option.isSome_none, Bool.false_eq_true, if_false] at hstep
            by_cases hdiv : Swissquote.dividendTypes.contains (fldD l 2) = true
            · simp only [hdiv, if_true] at hstep ⊢
              split at hstep
              · cases hstep
              · rename_i sym hsym
                simp at hstep
                obtain ⟨h1, h2⟩ := hstep
                subst h1 h2
                refine All2.cons ?_ (ih none none ds2 trivial hrec)
                rw [← R.date, ← R.fee, ← R.price, ← R.cur]
                refine mkTx_matches _ _ _ _ _ _ ?_ (by simp)
                intro c'
                exact effect_dividend a.account a.dividend a.tax ok.dividend ok.tax _ _ _ c'
            · simp only [hdiv, Bool.false_eq_true, if_false] at hstep ⊢
              rw [← R.date, ← R.net, ← R.cur]
              split at hstep
              · simp at hstep
                obtain ⟨h1, h2⟩ := hstep
                subst h1 h2
                refine All2.cons ?_ (ih none none ds2 trivial hrec)
                refine mkTx_matches _ _ _ _ _ _ ?_ (by simp)
                intro c'
                exact effect_debit a.account a.fee ok.fee _ _ c'
              · split at hstep
                · simp at hstep
                  obtain ⟨h1, h2⟩ := hstep
                  subst h1 h2
                  refine All2.cons ?_ (ih none none ds2 trivial hrec)
                  refine mkTx_matches _ _ _ _ _ _ ?_ (by simp)
                  intro c'
                  exact effect_debit a.account tbd ok.tbd _ _ c'
                · split at hstep
                  · simp at hstep
                    obtain ⟨h1, h2⟩ := hstep
                    subst h1 h2
                    refine All2.cons ?_ (ih none none ds2 trivial hrec)
                    refine mkTx_matches _ _ _ _ _ _ ?_ (by simp)
                    intro c'
                    exact effect_debit a.account a.interest ok.interest _ _ c'
                  · simp at hstep
                    obtain ⟨h1, h2⟩ := hstep
                    subst h1 h2
                    refine All2.cons ?_ (ih none none ds2 trivial hrec)
                    refine mkTx_matches _ _ _ _ _ _ ?_ (by simp)
                    intro c'
                    exact effect_debit a.account tbd ok.tbd _ _ c'

theorem swissquote_faithful (a : Swissquote.Accts) (ok : AcctsOK a) (recs : List Rec) (ds : List Directive)
    (h : Swissquote.run a recs = .ok ds) : Faithful a.account (swissquote recs) ds := by
  unfold Swissquote.run at h
  cases recs with
  | nil => cases h
  | cons hd ls =>
    simp only at h
    split at h
    · cases h
    · exact swissquote_rows a ok ls none none ds trivial h

end Knut.Proofs.Import
