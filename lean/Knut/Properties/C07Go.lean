import Knut.Properties.C07
import Knut.FactsAgree.TransParser4
/-!
# C07 on the generated definitions

The theorems of `Properties/C07.lean` are about the model parser `parseText`; `FactsAgree/TransParser4.lean` proves the
parser translated from `/repo`'s `lib/syntax/{scanner,parser,directives}` equal to it (`ParseFile_agrees`,
`goSyntaxParse_agrees`).  This module composes the two.  The object of every statement is

  `goSyntaxParse fuel text path cb` = `parser.New(text, path)`, `Advance()`, `Callback = cb`, `ParseFile()`

built from the GENERATED `Go.parser.New`, `Go.scanner.Scanner.Advance`, `Go.parser.Parser.ParseFile`, for every byte string `text`
(valid UTF-8 or not), every path, every callback (nil or not) and every fuel above the number of bytes of the text (`FuelOK`;
precisely: above its number of tokens).  Results are Go values: `directives.File`, `directives.GoError`; ranges are read off the Go
tree (`rangeOf`, `topRanges`).  The clauses about the inner nodes of the tree are stated on the model tree `f` of which the Go tree is
the field-by-field image `goFile text path f` (bridge `parse_ok`; `goFile` and the conversions below it are part of the statement).
-/
namespace Knut.C07Go
open Knut Knut.Syntax Knut.Spec.Syntax Knut.Utf8 Knut.GoSem
open Knut.Generated.Go
open Knut.FactsAgree.TransScanner Knut.FactsAgree.TransParser

theorem decodeAll_length_le (bs : List UInt8) : (decodeAll bs).length ≤ bs.length := by
  match bs with
  | [] => simp
  | b :: rest =>
    rw [decodeAll_cons]
    have ih := decodeAll_length_le ((b :: rest).drop (decodeRune (b :: rest)).bytes.length)
    have hp := decodeRune_width_pos b rest
    simp only [List.length_cons, List.length_drop] at ih ⊢
    omega
termination_by bs.length
decreasing_by
  have := decodeRune_width_pos b rest
  simp only [List.length_drop, List.length_cons]
  omega

/-- an adequate fuel: more than the bytes of the text (every loop of the parser consumes a token per pass) -/
def FuelOK (text : Bytes) (fuel : Nat) : Prop := text.length < fuel

theorem FuelOK.tokens {text : Bytes} {fuel : Nat} (h : FuelOK text fuel) : (decodeAll text).length < fuel :=
  Nat.lt_of_le_of_lt (decodeAll_length_le text) h

/-- the (start, end) of a Go range as the model's range -/
def rangeOf (r : directives.Range) : Syntax.Range := ⟨r.Start.toNat, r.End.toNat⟩

@[simp] theorem rangeOf_goRange (text : Bytes) (path : String) (r : Syntax.Range) : rangeOf (goRange text path r) = r := by
  simp [rangeOf, goRange]

/-- the ranges of the top-level directives of a Go file -/
def topRanges (G : directives.File) : List Syntax.Range := G.Directives.map (fun d => rangeOf d.Range)

theorem topRanges_goFile (text : Bytes) (path : String) (f : Syntax.File) :
    topRanges (goFile text path f) = f.directives.map (·.range) := by
  simp [topRanges, goFile, goDirective, Function.comp_def]

/-- **total**: for every byte string, path, callback and adequate fuel the translated parser returns — a tree and an error
value; it never panics (no slice bound, no index, no nil callback) and never runs out of fuel. -/
theorem C07_total_go (text : Bytes) (path : String) (cb : Syn.Proc) (fuel : Nat) (hf : FuelOK text fuel) :
    ∃ G err, goSyntaxParse fuel text path cb = .ok (G, err) := by
  have := goSyntaxParse_agrees text path cb fuel hf.tokens
  cases hp : parseText path text with
  | ok f => rw [hp] at this; exact ⟨_, _, this⟩
  | error e => rw [hp] at this; obtain ⟨_, pv, h⟩ := this; exact ⟨_, _, h⟩

/-- **the bridge, success**: a nil error of the translated parser means the model parsed the text, and the Go tree is the image of
the model's tree -/
theorem parse_ok {text : Bytes} {path : String} {cb : Syn.Proc} {fuel : Nat} {G : directives.File}
    (hf : FuelOK text fuel) (h : goSyntaxParse fuel text path cb = .ok (G, .nil)) :
    ∃ f, parseText path text = .ok f ∧ G = goFile text path f := by
  have := goSyntaxParse_agrees text path cb fuel hf.tokens
  cases hp : parseText path text with
  | ok f =>
    rw [hp] at this
    rw [h] at this
    injection this with this
    injection this with h1 _
    exact ⟨f, rfl, h1⟩
  | error e =>
    rw [hp] at this
    obtain ⟨hne, pv, h'⟩ := this
    rw [h] at h'
    injection h' with h'
    injection h' with _ h2
    exact absurd h2.symm (goErr_ne_nil text path hne)

/-- **the bridge, failure**: a non-nil error of the translated parser is the model's error chain -/
theorem parse_error {text : Bytes} {path : String} {cb : Syn.Proc} {fuel : Nat} {G : directives.File} {err : directives.GoError}
    (hf : FuelOK text fuel) (h : goSyntaxParse fuel text path cb = .ok (G, err)) (hne : err ≠ .nil) :
    ∃ e, parseText path text = .error e ∧ e ≠ [] ∧ err = goErr text path e := by
  have := goSyntaxParse_agrees text path cb fuel hf.tokens
  cases hp : parseText path text with
  | ok f =>
    rw [hp] at this
    rw [h] at this
    injection this with this
    injection this with _ h2
    exact absurd h2 hne
  | error e =>
    rw [hp] at this
    obtain ⟨hne', pv, h'⟩ := this
    rw [h] at h'
    injection h' with h'
    injection h' with _ h2
    exact ⟨e, rfl, hne', h2⟩

/-- the file's own range is the whole text, and it carries the text and the path it was parsed from -/
theorem C07_file_range_go {text : Bytes} {path : String} {cb : Syn.Proc} {fuel : Nat} {G : directives.File}
    (hf : FuelOK text fuel) (h : goSyntaxParse fuel text path cb = .ok (G, .nil)) :
    G.Range = { Start := 0, End := text.length, Path := goStr path, Text := text } := by
  obtain ⟨f, hp, rfl⟩ := parse_ok hf h
  simp [goFile, goRange, C07.C07_file_range hp]

/-- every top-level directive's range carries the text and the path, and lies in the text -/
theorem C07_top_level_in_text_go {text : Bytes} {path : String} {cb : Syn.Proc} {fuel : Nat} {G : directives.File}
    (hf : FuelOK text fuel) (h : goSyntaxParse fuel text path cb = .ok (G, .nil)) :
    ∀ d ∈ G.Directives, d.Range.Text = text ∧ d.Range.Path = goStr path ∧
      0 ≤ d.Range.Start ∧ d.Range.Start ≤ d.Range.End ∧ d.Range.End ≤ text.length := by
  obtain ⟨f, hp, rfl⟩ := parse_ok hf h
  intro d hd
  simp only [goFile, List.mem_map] at hd
  obtain ⟨m, hm, rfl⟩ := hd
  have := (parseText_ok hp).2.2.1 m hm
  simp only [Directive.toNode, nodeWF_mk] at this
  simp only [goDirective, goRange]
  refine ⟨?_, ?_, ?_, ?_, ?_⟩ <;> first | trivial | rfl | omega

/-- **top-level directives in increasing order, disjoint, non-empty** — read off the Go tree -/
theorem C07_top_level_sorted_disjoint_go {text : Bytes} {path : String} {cb : Syn.Proc} {fuel : Nat} {G : directives.File}
    (hf : FuelOK text fuel) (h : goSyntaxParse fuel text path cb = .ok (G, .nil)) :
    sortedDisjoint 0 (topRanges G) = true := by
  obtain ⟨f, hp, rfl⟩ := parse_ok hf h
  rw [topRanges_goFile]
  exact C07.C07_top_level_sorted_disjoint hp

/-- **each top-level directive's text is the slice it points to**: the generated `Range.Extract` does not panic and returns
`text[start:end]` -/
theorem C07_extract_is_slice_go {text : Bytes} {path : String} {cb : Syn.Proc} {fuel : Nat} {G : directives.File}
    (hf : FuelOK text fuel) (h : goSyntaxParse fuel text path cb = .ok (G, .nil)) :
    ∀ d ∈ G.Directives, directives.Range.Extract d.Range = .ok (Spec.Syntax.slice text (rangeOf d.Range).start (rangeOf d.Range).stop) := by
  intro d hd
  obtain ⟨ht, _, h0, h1, h2⟩ := C07_top_level_in_text_go hf h d hd
  unfold directives.Range.Extract GoSem.slice
  rw [ht]
  have : ¬ (d.Range.Start < 0 ∨ d.Range.End < d.Range.Start ∨ (text.length : Int) < d.Range.End) := by omega
  simp only [this, if_false, GoSem.Outcome.bind, rangeOf, Spec.Syntax.slice]
  congr 1
  rw [List.drop_take]

/-- **ranges in the text, children in their parents; every element's text is the slice it points to** — on the model tree of which
the Go tree is the image -/
theorem C07_ranges_nested_go {text : Bytes} {path : String} {cb : Syn.Proc} {fuel : Nat} {G : directives.File}
    (hf : FuelOK text fuel) (h : goSyntaxParse fuel text path cb = .ok (G, .nil)) :
    ∃ f, G = goFile text path f ∧ nodeWF 0 text.length f.toNode = true ∧ nodeAll (extractOK text) f.toNode = true := by
  obtain ⟨f, hp, rfl⟩ := parse_ok hf h
  exact ⟨f, rfl, C07.C07_ranges_nested hp, C07.C07_extract_is_slice hp⟩

/-- **outside the directives only whitespace and comment lines** -/
theorem C07_gaps_blank_or_comment_go {text : Bytes} {path : String} {cb : Syn.Proc} {fuel : Nat} {G : directives.File}
    (hf : FuelOK text fuel) (h : goSyntaxParse fuel text path cb = .ok (G, .nil)) :
    ∀ g ∈ gapsOf text 0 (topRanges G), gapOK g = true := by
  obtain ⟨f, hp, rfl⟩ := parse_ok hf h
  rw [topRanges_goFile]
  exact C07.C07_gaps_blank_or_comment hp

/-- **gaps and directives interleave to the exact input** -/
theorem C07_cover_go {text : Bytes} {path : String} {cb : Syn.Proc} {fuel : Nat} {G : directives.File}
    (hf : FuelOK text fuel) (h : goSyntaxParse fuel text path cb = .ok (G, .nil)) :
    interleave (gapsOf text 0 (topRanges G)) ((topRanges G).map fun r => Spec.Syntax.slice text r.start r.stop) = text := by
  obtain ⟨f, hp, rfl⟩ := parse_ok hf h
  rw [topRanges_goFile]
  exact C07.C07_cover hp

/-- all clauses about a returned tree at once: the monitor's predicate holds of the tree the Go tree is the image of -/
theorem C07_treeOK_go {text : Bytes} {path : String} {cb : Syn.Proc} {fuel : Nat} {G : directives.File}
    (hf : FuelOK text fuel) (h : goSyntaxParse fuel text path cb = .ok (G, .nil)) :
    ∃ f, G = goFile text path f ∧ treeOK text f.toNode = true := by
  obtain ⟨f, hp, rfl⟩ := parse_ok hf h
  exact ⟨f, rfl, C07.C07_treeOK hp⟩

/-- a Go error value whose every link with a position has `0 ≤ start ≤ end ≤ n` (`Error{}`, `io.EOF`, `fmt.Errorf` carry none) -/
def errInBounds (n : Nat) : directives.GoError → Prop
  | .nil => True
  | .io_EOF => True
  | .fmt_Errorf _ => True
  | .Error r _ w => 0 ≤ r.Start ∧ r.Start ≤ r.End ∧ r.End ≤ n ∧ errInBounds n w

theorem errInBounds_goErrRev (text : Bytes) (path : String) (n : Nat) : ∀ (e : List Frame), (∀ fr ∈ e, frameOK n fr = true) →
    errInBounds n (goErrRev text path e) := by
  intro e
  induction e with
  | nil => intro _; trivial
  | cons fr rest ih =>
    intro h
    have hr := ih (fun x hx => h x (List.mem_cons_of_mem _ hx))
    have hf := h fr List.mem_cons_self
    cases fr with
    | «at» msg r =>
      simp only [frameOK, within_iff] at hf
      simp only [goErrRev, goFrame, errInBounds, goRange]
      refine ⟨by omega, by omega, by omega, hr⟩
    | zero =>
      simp only [goErrRev, goFrame, errInBounds]
      exact ⟨by decide, by decide, by simp [GoZero.zero], trivial⟩
    | eof => simp only [goErrRev, goFrame, errInBounds]

/-- **error position inside the input**: every link of the error value the translated parser returns has its position inside the text -/
theorem C07_error_in_bounds_go {text : Bytes} {path : String} {cb : Syn.Proc} {fuel : Nat} {G : directives.File}
    {err : directives.GoError} (hf : FuelOK text fuel) (h : goSyntaxParse fuel text path cb = .ok (G, err)) :
    errInBounds text.length err := by
  by_cases hne : err = .nil
  · subst hne; trivial
  · obtain ⟨e, hp, _, rfl⟩ := parse_error hf h hne
    have := C07.C07_errOK hp
    simp only [errOK, List.all_eq_true] at this
    exact errInBounds_goErrRev text path _ _ (fun fr hfr => this fr (List.mem_reverse.mp hfr))

/-- the result does not depend on the fuel (above the bound) nor on the callback -/
theorem C07_fuel_callback_irrelevant_go (text : Bytes) (path : String) (cb cb' : Syn.Proc) (fuel fuel' : Nat)
    (hf : FuelOK text fuel) (hf' : FuelOK text fuel') :
    (∃ G, goSyntaxParse fuel text path cb = .ok (G, .nil) ∧ goSyntaxParse fuel' text path cb' = .ok (G, .nil)) ∨
    (∃ G G' err, err ≠ .nil ∧ goSyntaxParse fuel text path cb = .ok (G, err) ∧ goSyntaxParse fuel' text path cb' = .ok (G', err)) := by
  have h1 := goSyntaxParse_agrees text path cb fuel hf.tokens
  have h2 := goSyntaxParse_agrees text path cb' fuel' hf'.tokens
  cases hp : parseText path text with
  | ok f => rw [hp] at h1 h2; exact Or.inl ⟨_, h1, h2⟩
  | error e =>
    rw [hp] at h1 h2
    obtain ⟨hne, pv, h1⟩ := h1
    obtain ⟨_, pv', h2⟩ := h2
    exact Or.inr ⟨pv, pv', _, goErr_ne_nil text path hne, h1, h2⟩

/-! ## Non-vacuity: the worked example of C07 (a comment line and an `open` directive, 23 bytes) through the translated parser -/

example : ∃ G, goSyntaxParse 24 (bytesOf exText) "j.knut" ⟨true⟩ = .ok (G, .nil) ∧ FuelOK (bytesOf exText) 24 ∧
    topRanges G = [⟨3, 22⟩] := by
  have hf : FuelOK (bytesOf exText) 24 := by unfold FuelOK; decide
  have := goSyntaxParse_agrees (bytesOf exText) "j.knut" ⟨true⟩ 24 hf.tokens
  rw [ex_parse] at this
  exact ⟨_, this, hf, by rw [topRanges_goFile]; rfl⟩

/-- the error side: an invalid byte after the first digit -/
example : ∃ G err, goSyntaxParse 3 [0x32, 0xff] "j.knut" ⟨false⟩ = .ok (G, err) ∧ err ≠ .nil ∧ errInBounds 2 err := by
  have hf : FuelOK [0x32, 0xff] 3 := by unfold FuelOK; decide
  obtain ⟨G, err, h⟩ := C07_total_go [0x32, 0xff] "j.knut" ⟨false⟩ 3 hf
  refine ⟨G, err, h, ?_, C07_error_in_bounds_go hf h⟩
  intro hn
  subst hn
  obtain ⟨f, hp, _⟩ := parse_ok hf h
  rw [ex_invalid] at hp
  cases hp

end Knut.C07Go
