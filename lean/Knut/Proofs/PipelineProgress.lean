import Knut.Proofs.PipelineInv
/-!
# Progress, termination measure and the sequential result of the `cpr.Seq` transition system
-/
namespace Knut.Pipeline

variable {σ α ε : Type}

/-! ### lengths along the chain -/

theorem emitted_len_mono {S : Sys σ α ε} {s : St σ α ε} (hi : Inv S s) :
    ∀ d j, j + d ≤ S.n → (emitted S s (j + d)).length ≤ (emitted S s j).length := by
  intro d
  induction d with
  | zero => intro j _; simp
  | succ d ih =>
    intro j h
    have h1 := ih j (by omega)
    have h2 := hi.chain (j + d) (by omega)
    have : j + (d + 1) = j + d + 1 := by omega
    rw [this]; omega

theorem emitted_len_le {S : Sys σ α ε} {s : St σ α ε} (hi : Inv S s) {j k : Nat} (hjk : j ≤ k) (hk : k ≤ S.n) :
    (emitted S s k).length ≤ (emitted S s j).length := by
  have := emitted_len_mono hi (k - j) j (by omega)
  have e : j + (k - j) = k := by omega
  rwa [e] at this

/-- a later stage that holds an item is strictly behind an earlier stage -/
theorem emitted_len_lt {S : Sys σ α ε} {s : St σ α ε} (hi : Inv S s) {j k : Nat} (hjk : j < k) (hk : k ≤ S.n)
    (hocc : (s.slot k).isSome) : (emitted S s k).length + 1 ≤ (emitted S s j).length := by
  obtain ⟨k', rfl⟩ : ∃ k', k = k' + 1 := ⟨k - 1, by omega⟩
  have h1 := emitted_len_le hi (show j ≤ k' by omega) (by omega)
  have h2 := hi.chain k' (by omega)
  simp only [occ, hocc] at h2
  simp at h2
  omega

theorem emitted_zero_len {S : Sys σ α ε} {s : St σ α ε} (hi : Inv S s) : (emitted S s 0).length = s.fed := by
  simp [emitted, Nat.min_eq_left hi.fed_le]

theorem emitted_len_le_items {S : Sys σ α ε} {s : St σ α ε} (hi : Inv S s) {k : Nat} (hk : k ≤ S.n) :
    (emitted S s k).length ≤ S.items.length := by
  have := emitted_len_le hi (Nat.zero_le k) hk
  rw [emitted_zero_len hi] at this
  have := hi.fed_le
  omega

/-! ### progress -/

theorem exists_max (P : Nat → Prop) (n : Nat) (h : ∃ k, k ≤ n ∧ P k) :
    ∃ k, k ≤ n ∧ P k ∧ ∀ j, k < j → j ≤ n → ¬ P j := by
  induction n with
  | zero =>
    obtain ⟨k, hk, hp⟩ := h
    have : k = 0 := by omega
    subst this
    exact ⟨0, Nat.le_refl _, hp, by intro j h1 h2; omega⟩
  | succ n ih =>
    by_cases hp : P (n + 1)
    · exact ⟨n + 1, Nat.le_refl _, hp, by intro j h1 h2; omega⟩
    · have : ∃ k, k ≤ n ∧ P k := by
        obtain ⟨k, hk, hpk⟩ := h
        refine ⟨k, ?_, hpk⟩
        rcases Nat.lt_or_ge k (n + 1) with x | x
        · omega
        · have : k = n + 1 := by omega
          subst this; exact absurd hpk hp
      obtain ⟨k, hk, hpk, hmax⟩ := ih this
      refine ⟨k, by omega, hpk, ?_⟩
      intro j h1 h2
      rcases Nat.lt_or_ge j (n + 1) with x | x
      · exact hmax j h1 (by omega)
      · have : j = n + 1 := by omega
        subst this; exact hp

theorem enabled_of_isSome {S : Sys σ α ε} {s : St σ α ε} (l : Label) (h : (step? S s l).isSome) :
    ∃ l s', step? S s l = some s' := by
  cases hx : step? S s l with
  | none => rw [hx] at h; cases h
  | some s' => exact ⟨l, s', hx⟩

/-- a stage that holds an unfinished item and has not failed can take a `work` or a `fail` step -/
theorem can_work_or_fail {S : Sys σ α ε} {s : St σ α ε} {k : Nat} {a : α} (h1 : 1 ≤ k) (hn : k ≤ S.n)
    (hs : s.slot k = some (a, false)) (he : s.err k = none) : ∃ l s', step? S s l = some s' := by
  cases hf : S.f k (s.st k) a with
  | ok r =>
    obtain ⟨t, a'⟩ := r
    exact enabled_of_isSome (.work k) (by simp [step?, h1, hn, he, hs, hf])
  | error e =>
    exact enabled_of_isSome (.fail k) (by simp [step?, h1, hn, he, hs, hf])

theorem slot_range {S : Sys σ α ε} {s : St σ α ε} (hi : Inv S s) {k : Nat} (h : (s.slot k).isSome) : 1 ≤ k ∧ k ≤ S.n := by
  rcases Nat.lt_or_ge k 1 with x | x
  · have := hi.outside k (Or.inl (by omega)); rw [this] at h; cases h
  · rcases Nat.lt_or_ge S.n k with y | y
    · have := hi.outside k (Or.inr y); rw [this] at h; cases h
    · exact ⟨x, y⟩

theorem progress {S : Sys σ α ε} {s : St σ α ε} (hi : Inv S s) (hd : ¬ s.done S) (hs : ¬ s.stopped) :
    ∃ l s', step? S s l = some s' := by
  cases hc : s.cancelled with
  | true =>
    -- some stage function is still running
    have : ∃ k a, s.slot k = some (a, false) ∧ s.err k = none := by
      apply Classical.byContradiction
      intro hne
      apply hs
      refine ⟨hc, ?_⟩
      intro k a hk he
      exact hne ⟨k, a, hk, he⟩
    obtain ⟨k, a, hk, he⟩ := this
    have ⟨h1, hn⟩ := slot_range hi (k := k) (by simp [hk])
    exact can_work_or_fail h1 hn hk he
  | false =>
    by_cases herr : ∃ k e, s.err k = some e
    · obtain ⟨k, e, he⟩ := herr
      exact enabled_of_isSome (.cancel k) (by simp [step?, hc, he])
    · have hnoerr : ∀ k, s.err k = none := by
        intro k
        cases he : s.err k with
        | none => rfl
        | some e => exact absurd ⟨k, e, he⟩ herr
      have hlen : s.out.length ≠ S.items.length := fun h => hd ⟨hc, hnoerr, h⟩
      by_cases hocc : ∃ k, k ≤ S.n ∧ (s.slot k).isSome
      · obtain ⟨k, hkn, hk, hmax⟩ := exists_max (fun k => (s.slot k).isSome = true) S.n hocc
        have ⟨h1, _⟩ := slot_range hi hk
        cases hsk : s.slot k with
        | none => rw [hsk] at hk; cases hk
        | some p =>
          obtain ⟨a, d⟩ := p
          cases d with
          | false => exact can_work_or_fail h1 hkn hsk (hnoerr k)
          | true =>
            by_cases hlast : k = S.n
            · subst hlast
              exact enabled_of_isSome .sink (by simp [step?, hc, hsk]; omega)
            · have hnext : s.slot (k + 1) = none := by
                cases hx : s.slot (k + 1) with
                | none => rfl
                | some q => exact absurd (by simp [hx]) (hmax (k + 1) (by omega) (by omega))
              exact enabled_of_isSome (.pass k) (by simp [step?, hc, hsk, hnext, h1]; omega)
      · -- the pipeline is empty: everything fed has been delivered
        have hnone : ∀ k, s.slot k = none := by
          intro k
          cases hx : s.slot k with
          | none => rfl
          | some q =>
            have hk : (s.slot k).isSome := by simp [hx]
            exact absurd ⟨k, (slot_range hi hk).2, hk⟩ hocc
        have hall : ∀ k, k ≤ S.n → (emitted S s k).length = s.fed := by
          intro k
          induction k with
          | zero => intro _; exact emitted_zero_len hi
          | succ k ih =>
            intro hk
            have := hi.chain k (by omega)
            simp only [occ, hnone] at this
            simp at this
            rw [this]; exact ih (by omega)
        have hout : s.out.length = s.fed := by rw [hi.out_eq]; exact hall S.n (Nat.le_refl _)
        have hfed : s.fed < S.items.length := by have := hi.fed_le; omega
        have hget : S.items[s.fed]? = some (S.items[s.fed]'hfed) := List.getElem?_eq_getElem hfed
        by_cases hn : S.n = 0
        · exact enabled_of_isSome .direct (by simp [step?, hc, hn, hget])
        · exact enabled_of_isSome .feed (by simp [step?, hc, hnone, hget]; omega)

/-! ### termination measure -/

def sumTo (g : Nat → Nat) : Nat → Nat
  | 0 => g 0
  | k + 1 => sumTo g k + g (k + 1)

theorem sumTo_le {g g' : Nat → Nat} : ∀ n, (∀ j, j ≤ n → g' j ≤ g j) → sumTo g' n ≤ sumTo g n := by
  intro n
  induction n with
  | zero => intro h; exact h 0 (Nat.le_refl _)
  | succ n ih =>
    intro h
    have := ih (fun j hj => h j (by omega))
    have := h (n + 1) (Nat.le_refl _)
    simp only [sumTo]; omega

theorem sumTo_lt_at {g g' : Nat → Nat} {k : Nat} : ∀ n, (∀ j, j ≤ n → g' j ≤ g j) → k ≤ n → g' k + 1 ≤ g k →
    sumTo g' n + 1 ≤ sumTo g n := by
  intro n
  induction n with
  | zero =>
    intro h hk hlt
    have : k = 0 := by omega
    subst this; exact hlt
  | succ n ih =>
    intro h hk hlt
    simp only [sumTo]
    have hlast := h (n + 1) (Nat.le_refl _)
    rcases Nat.lt_or_ge k (n + 1) with x | x
    · have := ih (fun j hj => h j (by omega)) (by omega) hlt
      omega
    · have : k = n + 1 := by omega
      subst this
      have := sumTo_le n (fun j hj => h j (by omega))
      omega

theorem sumTo_le_add_at {g g' : Nat → Nat} (k : Nat) : ∀ n, (∀ j, j ≤ n → j ≠ k → g' j ≤ g j) → g' k ≤ g k + 1 →
    sumTo g' n ≤ sumTo g n + 1 := by
  intro n
  induction n with
  | zero =>
    intro h hk
    by_cases h0 : 0 = k
    · subst h0; exact hk
    · have := h 0 (Nat.le_refl _) h0
      simp only [sumTo]; omega
  | succ n ih =>
    intro h hk
    simp only [sumTo]
    by_cases hkn : n + 1 = k
    · subst hkn
      have := sumTo_le (g := g) (g' := g') n (fun j hj => h j (by omega) (by omega))
      omega
    · have := ih (fun j hj hne => h j (by omega) hne) hk
      have := h (n + 1) (Nat.le_refl _) hkn
      omega

/-- stage `k` is running its function -/
def pend (s : St σ α ε) (k : Nat) : Nat :=
  match s.slot k, s.err k with
  | some (_, false), none => 1
  | _, _ => 0

/-- hand-overs still to come (twice), stage functions running, and the pending cancellation -/
def measure (S : Sys σ α ε) (s : St σ α ε) : Nat :=
  2 * sumTo (fun k => S.items.length - (emitted S s k).length) S.n + sumTo (pend s) S.n + (if s.cancelled then 0 else 1)

theorem measure_initial (S : Sys σ α ε) : measure S (St.initial S) = 2 * (S.n + 1) * S.items.length + 1 := by
  have h1 : ∀ n, sumTo (fun k => S.items.length - (emitted S (St.initial S) k).length) n = (n + 1) * S.items.length := by
    intro n
    induction n with
    | zero => simp [sumTo, emitted, St.initial]
    | succ n ih => simp only [sumTo, ih]; simp [emitted, St.initial, Nat.add_mul]
  have h2 : ∀ n, sumTo (pend (St.initial S)) n = 0 := by
    intro n
    induction n with
    | zero => simp [sumTo, pend, St.initial]
    | succ n ih => simp only [sumTo, ih]; simp [pend, St.initial]
  simp only [measure, h1, h2]
  simp [St.initial, Nat.mul_assoc]

theorem pend_le_one (s : St σ α ε) (k : Nat) : pend s k ≤ 1 := by
  unfold pend; split <;> omega

theorem measure_decreases {S : Sys σ α ε} {s s' : St σ α ε} {l : Label} (hi : Inv S s) (h : step? S s l = some s') :
    measure S s' + 1 ≤ measure S s := by
  cases l with
  | feed =>
    obtain ⟨a, hc, hn, hs1, ha, rfl⟩ := step_feed h
    have hlt := lt_of_get ha
    have hA : sumTo (fun k => S.items.length - (emitted S { s with fed := s.fed + 1, slot := upd s.slot 1 (some (a, false)) } k).length) S.n + 1
        ≤ sumTo (fun k => S.items.length - (emitted S s k).length) S.n := by
      apply sumTo_lt_at (k := 0) S.n
      · intro j _
        by_cases hz : j = 0
        · subst hz; simp [emitted]; omega
        · simp [emitted, hz]
      · omega
      · simp [emitted]; omega
    have hB : sumTo (pend { s with fed := s.fed + 1, slot := upd s.slot 1 (some (a, false)) }) S.n ≤ sumTo (pend s) S.n + 1 := by
      apply sumTo_le_add_at 1 S.n
      · intro j _ hj1
        simp [pend, upd_other _ _ hj1]
      · have := pend_le_one { s with fed := s.fed + 1, slot := upd s.slot 1 (some (a, false)) } 1
        omega
    simp only [measure, hc] at hA hB ⊢
    omega
  | direct =>
    obtain ⟨a, hc, hn, ha, rfl⟩ := step_direct h
    have hlt := lt_of_get ha
    simp only [measure, hn, sumTo, hc]
    simp [emitted, pend]; omega
  | work k =>
    obtain ⟨a, t, a', hk1, hkn, hek, hsk, hf, rfl⟩ := step_work h
    have hB : sumTo (pend { s with st := upd s.st k t, slot := upd s.slot k (some (a', true)) }) S.n + 1 ≤ sumTo (pend s) S.n := by
      apply sumTo_lt_at (k := k) S.n
      · intro j _
        by_cases hjk : j = k
        · subst hjk; simp [pend]
        · simp [pend, upd_other _ _ hjk]
      · exact hkn
      · simp [pend, hsk, hek]
    simp only [measure] at hB ⊢
    have hA : ∀ j, emitted S { s with st := upd s.st k t, slot := upd s.slot k (some (a', true)) } j = emitted S s j := by
      intro j; simp [emitted]
    simp only [hA]
    omega
  | fail k =>
    obtain ⟨a, e, hk1, hkn, hek, hsk, hf, rfl⟩ := step_fail h
    have hB : sumTo (pend { s with err := upd s.err k (some e) }) S.n + 1 ≤ sumTo (pend s) S.n := by
      apply sumTo_lt_at (k := k) S.n
      · intro j _
        by_cases hjk : j = k
        · subst hjk; simp [pend, hsk]
        · simp [pend, upd_other _ _ hjk]
      · exact hkn
      · simp [pend, hsk, hek]
    simp only [measure] at hB ⊢
    have hA : ∀ j, emitted S { s with err := upd s.err k (some e) } j = emitted S s j := by
      intro j; simp [emitted]
    simp only [hA]
    omega
  | pass k =>
    obtain ⟨a, hc, hk1, hkn, hnext, hsk, rfl⟩ := step_pass h
    have hk0 : k ≠ 0 := by omega
    have hlt : (s.hist k).length + 1 ≤ S.items.length := by
      have h1 := emitted_len_lt hi (j := 0) (k := k) (by omega) (by omega) (by simp [hsk])
      rw [emitted_zero_len hi, emitted_pos S s hk1] at h1
      have := hi.fed_le
      omega
    have hA : sumTo (fun j => S.items.length - (emitted S { s with slot := upd (upd s.slot k none) (k + 1) (some (a, false)), hist := upd s.hist k (s.hist k ++ [a]) } j).length) S.n + 1
        ≤ sumTo (fun k => S.items.length - (emitted S s k).length) S.n := by
      apply sumTo_lt_at (k := k) S.n
      · intro j _
        by_cases hz : j = 0
        · subst hz; simp [emitted]
        · by_cases hjk : j = k
          · subst hjk; simp [emitted, hz]; omega
          · simp [emitted, hz, upd_other _ _ hjk]
      · omega
      · simp [emitted, hk0]; omega
    have hB : sumTo (pend { s with slot := upd (upd s.slot k none) (k + 1) (some (a, false)), hist := upd s.hist k (s.hist k ++ [a]) }) S.n ≤ sumTo (pend s) S.n + 1 := by
      apply sumTo_le_add_at (k + 1) S.n
      · intro j _ hj1
        by_cases hjk : j = k
        · subst hjk
          have : j ≠ j + 1 := by omega
          simp [pend, upd_other _ _ this]
        · simp [pend, upd_other _ _ hj1, upd_other _ _ hjk]
      · have := pend_le_one { s with slot := upd (upd s.slot k none) (k + 1) (some (a, false)), hist := upd s.hist k (s.hist k ++ [a]) } (k + 1)
        omega
    simp only [measure, hc] at hA hB ⊢
    omega
  | sink =>
    obtain ⟨a, hc, hn, hsn, rfl⟩ := step_sink h
    have hn0 : S.n ≠ 0 := by omega
    have hlt : (s.hist S.n).length + 1 ≤ S.items.length := by
      have h1 := emitted_len_lt hi (j := 0) (k := S.n) (by omega) (by omega) (by simp [hsn])
      rw [emitted_zero_len hi, emitted_pos S s (by omega)] at h1
      have := hi.fed_le
      omega
    have hA : sumTo (fun j => S.items.length - (emitted S { s with slot := upd s.slot S.n none, hist := upd s.hist S.n (s.hist S.n ++ [a]), out := s.out ++ [a] } j).length) S.n + 1
        ≤ sumTo (fun k => S.items.length - (emitted S s k).length) S.n := by
      apply sumTo_lt_at (k := S.n) S.n
      · intro j _
        by_cases hz : j = 0
        · subst hz; simp [emitted]
        · by_cases hjk : j = S.n
          · rw [hjk]; simp [emitted, hn0]; omega
          · simp [emitted, hz, upd_other _ _ hjk]
      · omega
      · simp [emitted, hn0]; omega
    have hB : sumTo (pend { s with slot := upd s.slot S.n none, hist := upd s.hist S.n (s.hist S.n ++ [a]), out := s.out ++ [a] }) S.n ≤ sumTo (pend s) S.n := by
      apply sumTo_le
      intro j _
      by_cases hjk : j = S.n
      · rw [hjk]; simp [pend]
      · simp [pend, upd_other _ _ hjk]
    simp only [measure, hc] at hA hB ⊢
    omega
  | cancel k =>
    obtain ⟨e, hc, he, rfl⟩ := step_cancel h
    have hA : ∀ j, emitted S { s with cancelled := true, reported := some (k, e) } j = emitted S s j := by
      intro j; simp [emitted]
    have hB : pend { s with cancelled := true, reported := some (k, e) } = pend s := by
      funext j; simp [pend]
    simp only [measure, hA, hB, hc]
    simp

/-! ### the sequential result -/

theorem done_all {S : Sys σ α ε} {s : St σ α ε} (hi : Inv S s) (hd : s.done S) :
    s.fed = S.items.length ∧ (∀ k, k ≤ S.n → (emitted S s k).length = S.items.length) ∧ ∀ k, s.slot k = none := by
  obtain ⟨_, _, hlen⟩ := hd
  have hn : (emitted S s S.n).length = S.items.length := by rw [← hi.out_eq]; exact hlen
  have hall : ∀ k, k ≤ S.n → (emitted S s k).length = S.items.length := by
    intro k hk
    have h1 := emitted_len_le hi hk (Nat.le_refl _)
    have h2 := emitted_len_le_items hi hk
    omega
  have hfed : s.fed = S.items.length := by
    have := hall 0 (Nat.zero_le _)
    rwa [emitted_zero_len hi] at this
  refine ⟨hfed, hall, ?_⟩
  intro k
  cases hx : s.slot k with
  | none => rfl
  | some q =>
    exfalso
    have hk : (s.slot k).isSome := by simp [hx]
    have ⟨h1, h2⟩ := slot_range hi hk
    have := emitted_len_lt hi (j := 0) (k := k) (by omega) h2 hk
    rw [hall k h2, hall 0 (Nat.zero_le _)] at this
    omega

theorem done_seq {S : Sys σ α ε} {s : St σ α ε} (hi : Inv S s) (hd : s.done S) :
    ∀ k, k ≤ S.n → seqUpTo S k = some (emitted S s k) := by
  obtain ⟨hfed, hall, hnone⟩ := done_all hi hd
  intro k
  induction k with
  | zero =>
    intro _
    simp [seqUpTo, emitted, hfed]
  | succ k ih =>
    intro hk
    have hd := hi.data_idle k (by omega) (hnone (k + 1))
    have h1 := hall (k + 1) hk
    have h0 := hall k (by omega)
    rw [emitted_succ] at h1
    simp only [seqUpTo, ih (by omega), Option.bind_some, seqStage]
    rw [h0, ← h1, hd, emitted_succ]
    rfl

/-! ### runs -/

theorem run_reach {S : Sys σ α ε} {s s' : St σ α ε} {ls : List Label} (h : Run S s ls s') (hr : Reach S s) : Reach S s' := by
  induction h with
  | nil => exact hr
  | cons l hs _ ih => exact ih (Reach.step l hr hs)

theorem run_measure {S : Sys σ α ε} {s s' : St σ α ε} {ls : List Label} (h : Run S s ls s') (hi : Inv S s) :
    ls.length + measure S s' ≤ measure S s := by
  induction h with
  | nil => simp
  | cons l hs _ ih =>
    have h1 := measure_decreases hi hs
    have h2 := ih (inv_step hi hs)
    simp only [List.length_cons]; omega

/-- a recorded error stays recorded -/
theorem err_persist {S : Sys σ α ε} {s s' : St σ α ε} {l : Label} (h : step? S s l = some s') {k : Nat} {e : ε}
    (he : s.err k = some e) : s'.err k = some e := by
  cases l with
  | feed => obtain ⟨a, _, _, _, _, rfl⟩ := step_feed h; exact he
  | direct => obtain ⟨a, _, _, _, rfl⟩ := step_direct h; exact he
  | work j => obtain ⟨a, t, a', _, _, _, _, _, rfl⟩ := step_work h; exact he
  | fail j =>
    obtain ⟨a, e', _, _, hej, _, _, rfl⟩ := step_fail h
    have hjk : k ≠ j := by rintro rfl; rw [hej] at he; cases he
    simpa [upd_other _ _ hjk] using he
  | pass j => obtain ⟨a, _, _, _, _, _, rfl⟩ := step_pass h; exact he
  | sink => obtain ⟨a, _, _, _, rfl⟩ := step_sink h; exact he
  | cancel j => obtain ⟨e', _, _, rfl⟩ := step_cancel h; exact he

theorem run_err_persist {S : Sys σ α ε} {s s' : St σ α ε} {ls : List Label} (h : Run S s ls s') {k : Nat} {e : ε}
    (he : s.err k = some e) : s'.err k = some e := by
  induction h with
  | nil => exact he
  | cons l hs _ ih => exact ih (err_persist hs he)

/-- once the context is cancelled only running stage functions can still finish -/
theorem cancelled_steps {S : Sys σ α ε} {s s' : St σ α ε} {l : Label} (h : step? S s l = some s') (hc : s.cancelled = true) :
    (∃ k, l = .work k ∨ l = .fail k) ∧ s'.cancelled = true := by
  cases l with
  | feed => obtain ⟨a, hx, _⟩ := step_feed h; rw [hc] at hx; cases hx
  | direct => obtain ⟨a, hx, _⟩ := step_direct h; rw [hc] at hx; cases hx
  | work j => obtain ⟨a, t, a', _, _, _, _, _, rfl⟩ := step_work h; exact ⟨⟨j, Or.inl rfl⟩, hc⟩
  | fail j => obtain ⟨a, e', _, _, _, _, _, rfl⟩ := step_fail h; exact ⟨⟨j, Or.inr rfl⟩, hc⟩
  | pass j => obtain ⟨a, hx, _⟩ := step_pass h; rw [hc] at hx; cases hx
  | sink => obtain ⟨a, hx, _⟩ := step_sink h; rw [hc] at hx; cases hx
  | cancel j => obtain ⟨e', hx, _⟩ := step_cancel h; rw [hc] at hx; cases hx

end Knut.Pipeline
