import Knut.Properties.C09Journal
import Knut.FactsAgree.TransJPrinter2
/-!
# C09 (the print clauses) on the generated definitions

The print clauses of C09 (`Properties/C09Text.lean`, `C09Journal.lean`) are about the model `JournalPrinter.print`;
`FactsAgree/TransJPrinter.lean` and `TransJPrinter2.lean` prove that `journal.Print`, translated from `/repo`'s `lib/journal/printer.go`
and `lib/model/printer`, writes exactly that text (`PrintJournal_agrees`).  This module composes the two: the clauses are stated
about the text the GENERATED `Go.journal.Print w j ext` appends to its sink.

Parameters of the translated `Print` that stay: `ext` — journal, printer and error result that the effect call
`j.Process(Sort(), paddingUpdater)` leaves; it is `processExt srt j (printer.New w)`: the translated closures (`Sort.DayEnd`,
`paddingUpdater.Transaction`) run by the hand-written `processDays` (the untranslated `Journal.Process` = `cpr.Seq`, C19), for EVERY
function `srt` the unstable `sort.Slice` may be on each day's transactions (`SortOK`: a permutation sorted by `transaction.Compare`).
Hypotheses that stay: `hr` (the Go days stand for the model days, every `Src` pointer arbitrary, descriptions exactly the model's) and
`TargetsOK` (transactions of one day that compare equal carry the same `@performance` targets — otherwise the unstable sort shows in the
output).  `DayDatesOK` (years ≥ 0) is DISCHARGED here from `PrintableJournal` (`datesOK_of_printable`).
-/
namespace Knut.C09Go
open Knut Knut.FromSyntax Knut.JournalPrinter Knut.Utf8
open Knut.Generated.Go
open Knut.FactsAgree.TransJPrinter Knut.FactsAgree.TransJPrinter2 Knut.FactsAgree.TransProcess

theorem dateOK_of_printable {z : Int} (h : PrintableDate z) : DateOK z := (year_bounds z h.1 h.2).1

/-- the date hypothesis of `PrintJournal_agrees` follows from printability -/
theorem datesOK_of_printable {d : Knut.Day} (h : PrintableDay d) : DayDatesOK d := by
  have hx : ∀ x ∈ rawDirs d, PrintableDir x := fun x hx => (h.2 x hx).2
  refine ⟨?_, ?_, ?_, ?_, ?_⟩
  · intro x hm
    have := hx (.price x) (by simp [rawDirs, hm])
    exact dateOK_of_printable this.1
  · intro x hm
    have := hx (.opening x) (by simp [rawDirs, hm])
    exact dateOK_of_printable this.1
  · intro x hm
    have := hx (.tx x) (by simp [rawDirs, hm])
    exact dateOK_of_printable this.1
  · intro x hm
    have := hx (.assertion x) (by simp [rawDirs, hm])
    exact dateOK_of_printable this.1
  · intro x hm
    have := hx (.closing x) (by simp [rawDirs, hm])
    exact dateOK_of_printable this.1

/-- **the bridge**: the translated `journal.Print` on a Go journal that stands for a printable journal appends exactly the model's
text to its sink, returns no error and never panics — for every admissible sort -/
theorem Print_writes_go (cur : String → Bool) (srt : List transaction.Transaction → List transaction.Transaction)
    (w : String) (gds : List journal.Day) (days : List Knut.Day) (hs : ∀ g ∈ gds, SortOK srt g.Transactions)
    (hr : AllRel (DayRelE cur) gds days) (hp : PrintableJournal days) (ht : ∀ d ∈ days, TargetsOK d) :
    ∃ e, processExt srt ⟨gds⟩ (printer.New w) = .ok e ∧ e.2.2 = none ∧
      journal.Print w ⟨gds⟩ e = .ok (w ++ print days, e.1, none) :=
  PrintJournal_agrees cur srt w gds days hs hr (fun d hd => datesOK_of_printable (hp.2 d hd)) ht

/-- **what `Print` wrote loads again to the same journal**: the text parses and elaborates to the directives of the journal, day by
day with the transactions in sort order; the rebuilt journal is the journal with sorted days, and prints to the same text -/
theorem C09_text_journal_fixpoint_go (cur : String → Bool) (srt : List transaction.Transaction → List transaction.Transaction)
    (path : String) (gds : List journal.Day) (days : List Knut.Day) (hs : ∀ g ∈ gds, SortOK srt g.Transactions)
    (hr : AllRel (DayRelE cur) gds days) (hp : PrintableJournal days) (ht : ∀ d ∈ days, TargetsOK d) :
    ∃ e T ds, journal.Print "" ⟨gds⟩ e = .ok (T, e.1, none) ∧ processExt srt ⟨gds⟩ (printer.New "") = .ok e ∧
      loadText path (strBytes T) = .ok ds ∧
      (Builder.ofList ds).build = days.map (fun d => { d with transactions := sortTxs d.transactions }) ∧
      print (Builder.ofList ds).build = T := by
  obtain ⟨e, he, _, hP⟩ := Print_writes_go cur srt "" gds days hs hr hp ht
  obtain ⟨ds, hl, _, hb, hpr⟩ := C09.C09_text_journal_fixpoint path days hp
  refine ⟨e, print days, ds, ?_, he, hl, hb, hpr⟩
  simpa using hP

/-- **the output of `Print` is accepted iff the journal is**: the text written loads, and the checker gives the same verdict on the
reloaded journal -/
theorem C09_print_accepted_go (cur : String → Bool) (srt : List transaction.Transaction → List transaction.Transaction)
    (path : String) (gds : List journal.Day) (days : List Knut.Day) (hs : ∀ g ∈ gds, SortOK srt g.Transactions)
    (hr : AllRel (DayRelE cur) gds days) (hp : PrintableJournal days) (ht : ∀ d ∈ days, TargetsOK d) :
    ∃ e T ds, journal.Print "" ⟨gds⟩ e = .ok (T, e.1, none) ∧ processExt srt ⟨gds⟩ (printer.New "") = .ok e ∧
      loadText path (strBytes T) = .ok ds ∧ (Check.run (Builder.ofList ds).build).isOk = (Check.run days).isOk := by
  obtain ⟨e, he, _, hP⟩ := Print_writes_go cur srt "" gds days hs hr hp ht
  obtain ⟨ds, hl, hc⟩ := C09.C09_print_accepted path days hp
  exact ⟨e, print days, ds, by simpa using hP, he, hl, hc⟩

/-- **`knut print` reproduces what `Print` wrote**: on the text the translated `Print` wrote for an accepted journal the command
(model `printFile`: load, build, check, print) prints that text; on a rejected one it fails in processing -/
theorem C09_print_fixpoint_go (cur : String → Bool) (srt : List transaction.Transaction → List transaction.Transaction)
    (path : String) (gds : List journal.Day) (days : List Knut.Day) (hs : ∀ g ∈ gds, SortOK srt g.Transactions)
    (hr : AllRel (DayRelE cur) gds days) (hp : PrintableJournal days) (ht : ∀ d ∈ days, TargetsOK d) :
    ∃ e T, journal.Print "" ⟨gds⟩ e = .ok (T, e.1, none) ∧ processExt srt ⟨gds⟩ (printer.New "") = .ok e ∧
      ((Check.run days).isOk = true → printFile path (strBytes T) = .ok T) ∧
      ((Check.run days).isOk = false → printFile path (strBytes T) = .error "processing") := by
  obtain ⟨e, he, _, hP⟩ := Print_writes_go cur srt "" gds days hs hr hp ht
  exact ⟨e, print days, by simpa using hP, he, C09.C09_print_fixpoint path days hp, C09.C09_print_rejected path days hp⟩

/-- **the sort cannot show**: two admissible sorts make `Print` write the same text -/
theorem C09_sort_irrelevant_go (cur : String → Bool) (srt srt' : List transaction.Transaction → List transaction.Transaction)
    (w : String) (gds : List journal.Day) (days : List Knut.Day) (hs : ∀ g ∈ gds, SortOK srt g.Transactions)
    (hs' : ∀ g ∈ gds, SortOK srt' g.Transactions)
    (hr : AllRel (DayRelE cur) gds days) (hp : PrintableJournal days) (ht : ∀ d ∈ days, TargetsOK d) :
    ∃ e e' T, processExt srt ⟨gds⟩ (printer.New w) = .ok e ∧ processExt srt' ⟨gds⟩ (printer.New w) = .ok e' ∧
      journal.Print w ⟨gds⟩ e = .ok (T, e.1, none) ∧ journal.Print w ⟨gds⟩ e' = .ok (T, e'.1, none) := by
  obtain ⟨e, he, _, hP⟩ := Print_writes_go cur srt w gds days hs hr hp ht
  obtain ⟨e', he', _, hP'⟩ := Print_writes_go cur srt' w gds days hs' hr hp ht
  exact ⟨e, e', _, he, he', hP, hP'⟩

/-! ### Non-vacuity: the empty journal satisfies every hypothesis; the translated `Print` writes nothing.
(`FactsAgree/TransJPrinter2.lean` ends with an example that discharges `SortOK`, `DayRelE`, `DayDatesOK`, `TargetsOK` on a day with a
price, an opening, two transactions out of order and a two-balance assertion.) -/
example : ∃ e, processExt (fun xs => xs) ⟨[]⟩ (printer.New "") = .ok e ∧
    journal.Print "" ⟨[]⟩ e = .ok ("" ++ print [], e.1, none) :=
  let ⟨e, he, _, hP⟩ := Print_writes_go (fun _ => true) (fun xs => xs) "" [] [] (by intro g hg; cases hg) .nil
    ⟨List.Pairwise.nil, by intro d hd; cases hd⟩ (by intro d hd; cases hd)
  ⟨e, he, hP⟩

end Knut.C09Go
