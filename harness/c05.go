package main

import (
	"fmt"
	"os"
	"path"
	"path/filepath"
	"sort"
	"strings"
	"time"

	"github.com/shopspring/decimal"
)

func init() { runners["C05"] = runC05 }

// c05WriteTree distributes the directives (in the given order) over an include tree under dir and
// returns the root file. Shapes: depth up to 3, relative paths with ./ and ../, sub-directories.
// Every file is written in a byte layout of its own drawn from lr (layout.go: how the file begins, what stands between
// two directives, how it ends — also without a final newline, after a directive of any kind, an include among them —
// and whether its includes stand where they were drawn, all at the end or all at the beginning); lr == nil: a blank
// line after every directive. The third result describes the layouts for the recorded input. raw (stream `reject`): the
// text written for some directives instead of the generator's own.
func c05WriteTree(r, lr *RNG, dir string, j *Journal, order []int, raw map[int]string) (string, string, string) {
	os.MkdirAll(dir, 0o755)
	nfiles := r.Range(1, 5)
	if len(order) < nfiles {
		nfiles = 1
	}
	dirs := []string{"", "sub", "sub/deep", "other"}
	// a third of the trees use directory and file names with characters that mean something to globbing, shells,
	// URLs or comment syntax (seeded change C05-c expanded include paths with filepath.Glob: names containing '['
	// silently matched nothing)
	odd := r.Chance(1, 3)
	oddName := func(base string) string { return base }
	if odd {
		dirs = []string{"", "books [2023]", "books [2023]/q?", "a*b", "with space", "ünï#x"}
		marks := []string{"[chf]", "*", "?", "[", "]", " ", "#", "'", "{a,b}", "~", "$HOME", "%20", "é", "[a-z]", "[!x]", "\\"}
		oddName = func(base string) string {
			if r.Chance(1, 2) {
				return base
			}
			return base + Pick(r, marks)
		}
	}
	type file struct {
		rel    string
		parent int
		dirs   []int
	}
	files := []*file{{rel: "main.knut", parent: -1}}
	for k := 1; k < nfiles; k++ {
		d := Pick(r, dirs)
		files = append(files, &file{rel: path.Join(d, oddName(fmt.Sprintf("f%d", k))+".knut"), parent: r.Intn(k)})
	}
	for _, idx := range order {
		f := files[r.Intn(nfiles)]
		f.dirs = append(f.dirs, idx)
	}
	shape := fmt.Sprintf("files%d", nfiles)
	if odd && nfiles > 1 {
		shape += "+oddnames"
	}
	var lays []string
	for k, f := range files {
		// include directives for the children of this file, at random positions
		var incs []string
		for c := k + 1; c < nfiles; c++ {
			if files[c].parent != k {
				continue
			}
			relp, _ := filepath.Rel(path.Dir(f.rel), files[c].rel)
			switch r.Intn(3) {
			case 0:
				relp = "./" + relp
			case 1:
				if path.Dir(f.rel) != "." {
					relp = "../" + path.Join(path.Base(path.Dir(f.rel)), relp)
				}
			}
			incs = append(incs, relp)
		}
		pos := make([]int, len(incs))
		for i := range incs {
			pos[i] = r.Intn(len(f.dirs) + 1)
		}
		var items []layItem
		for i := 0; i <= len(f.dirs); i++ {
			for q, p := range pos {
				if p == i {
					items = append(items, layItem{Text: incs[q], Include: true})
				}
			}
			if i < len(f.dirs) {
				items = append(items, c05Item(j, f.dirs[i], raw))
			}
		}
		lay := layCanon(len(items))
		if lr != nil {
			lay = layDraw(lr, len(items))
			lays = append(lays, fmt.Sprintf("%s: %s", f.rel, lay.field()))
		}
		full := filepath.Join(dir, f.rel)
		os.MkdirAll(filepath.Dir(full), 0o755)
		os.WriteFile(full, []byte(lay.render(lay.arrange(items, len(items)))), 0o644)
	}
	return filepath.Join(dir, "main.knut"), shape, strings.Join(lays, "; ")
}

// c05CanonPrint canonicalises printed journals up to the order of directives sharing date and kind:
// transaction blocks keep their sequence, all other directives of a date are pooled and sorted.
func c05CanonPrint(out string) string {
	blocks := strings.Split(strings.TrimRight(out, "\n"), "\n\n")
	type day struct {
		txs   []string
		other []string
	}
	days := map[string]*day{}
	var order []string
	get := func(d string) *day {
		if days[d] == nil {
			days[d] = &day{}
			order = append(order, d)
		}
		return days[d]
	}
	for _, b := range blocks {
		if strings.TrimSpace(b) == "" {
			continue
		}
		lines := strings.Split(b, "\n")
		first := lines[0]
		if strings.HasPrefix(first, "@performance") && len(lines) > 1 {
			first = lines[1]
		}
		date := ""
		if len(first) >= 10 {
			date = first[:10]
		}
		isTx := len(first) > 11 && first[11] == '"'
		if isTx {
			get(date).txs = append(get(date).txs, b)
			continue
		}
		for li := 0; li < len(lines); li++ {
			l := lines[li]
			d := date
			if len(l) >= 10 {
				d = l[:10]
			}
			if strings.HasSuffix(l, " balance") {
				// a multi-line assertion extends to the end of its block
				get(d).other = append(get(d).other, strings.Join(lines[li:], "\n"))
				break
			}
			get(d).other = append(get(d).other, l)
		}
	}
	sort.Strings(order)
	var sb strings.Builder
	for _, d := range order {
		sort.Strings(days[d].other)
		// transactions are printed in transaction.Compare order, which ignores the @performance targets: two transactions
		// of one day that differ in nothing else keep their input order. The property allows exactly that (relative
		// order of directives sharing date and kind), so the blocks of a day are compared as a multiset.
		sort.Strings(days[d].txs)
		sb.WriteString(strings.Join(days[d].other, "\n") + "\n--\n" + strings.Join(days[d].txs, "\n\n") + "\n====\n")
	}
	return sb.String()
}

// c05CanonDump sorts the items of a days dump (`ok <min> <max> item|item|…`, see loadtext.go / Driver/Load.lean):
// the real loader delivers the files in goroutine arrival order, the model depth first; the property — and
// C05_layout_arrival — is about the multiset per (day, kind), and every item carries its kind letter and its date.
func c05CanonDump(d string) string {
	d = canonPanic(d)
	f := strings.SplitN(d, " ", 4)
	if len(f) != 4 || f[0] != "ok" || f[3] == "-" {
		return d
	}
	items := strings.Split(f[3], "|")
	sort.Strings(items)
	return strings.Join(f[:3], " ") + " " + strings.Join(items, "|")
}

type c05Variant struct {
	FS     string // the include tree as the loader can see it, wire form of c14FS ("" = not expressible / too large)
	Dump   string // the days the REAL loader builds from Root (in-process), format of implLoadDump
	Order  []int
	Root   string
	Shape  string
	Layout string // the byte layout of each file (layFile.field)
	Seed   int
	Check  int
	BalC   int
	Bal    string
	PrC    int
	Print  string
	ErrOut string
}

func runC05(c *Ctx) {
	// file layout under the concurrent loader: sibling files which introduce the same new commodities at the same moment
	// (stream `shared`, shared with C19: the include tree must balance byte for byte like the concatenated file)
	if !c.Replay || c.OnlyStr == "shared" {
		c.c19Shared()
		if c.Replay {
			return
		}
	}
	base := filepath.Join(c.WorkDir, "c05")
	type cs struct {
		stream string
		kind   string // stream order: which rule of the checker the journal breaks (or "valid…"); stream prices: the shape of the price graph
		idx    int
		j      *Journal
		f      BalFlags
		vars   []*c05Variant
		tags   []string
		sweep  []*c05Sweep
		raw    map[int]string // stream reject: directive index -> the text written instead of the generator's (a directive the model conversion rejects)
	}
	var cases []*cs
	// stream `layout`: journals of the lifecycle generator (mostly valid). Stream `order`: journals whose verdict hangs on
	// state that several same-day transactions build up before a directive of a LATER day breaks a rule of the checker
	// (c05GenOrder); rejected in every directive order and every layout. Stream `prices`: valued reports over price graphs in
	// which a commodity is reached from the valuation commodity over SEVERAL chains of equal length with different products
	// (c05GenPrices); which chain counts must not depend on where the commodities involved are mentioned first.
	streams := []struct {
		name    string
		n, nvar int
	}{{"layout", c.N(500, 4000), c.N(5, 10)}, {"order", c.N(200, 2500), c.N(6, 10)}, {"prices", c.N(120, 2500), c.N(6, 10)}, {"reject", c.N(100, 2500), c.N(7, 10)},
		{"requote", c.N(100, 2500), c.N(6, 10)}}
	for _, st := range streams {
		stream, nvar := st.name, st.nvar
		// the streams about price directives share their variants (one directive to the top, same-day shuffle of the prices) and
		// the model comparison on every variant
		pricey := stream == "prices" || stream == "requote"
		for i := 0; i < st.n; i++ {
			if !c.Want(stream, i) {
				continue
			}
			r := c.Rng(stream, i)
			var j *Journal
			var tags []string
			var f BalFlags
			kind := ""
			var raw map[int]string
			bad := -1
			if stream == "reject" {
				var val string
				j, kind, val, bad, raw, tags = c05GenReject(r)
				f = GenBalFlags(r, j, val, BalGenOpts{Valued: true})
				if r.Chance(1, 2) {
					f.To = 0
				}
			} else if stream == "order" {
				j, kind, tags = c05GenOrder(r)
				f = GenBalFlags(r, j, "", BalGenOpts{})
				if r.Chance(1, 2) {
					f.To = 0
				}
			} else if pricey {
				var val string
				if stream == "requote" {
					j, kind, val, tags = c05GenRequote(r)
				} else {
					j, kind, val, tags = c05GenPrices(r)
				}
				if r.Bool() {
					// a plain valued report: nothing filtered, nothing mapped, so that every position shows with its value
					f = BalFlags{Val: val, Interval: Pick(r, []int{0, 1, 2, 3, 3, 4}), Diff: r.Chance(1, 4), NoClose: r.Chance(1, 3), CSV: r.Chance(1, 3)}
					if !f.CSV {
						f.Digits = Pick(r, []int{0, 2, 4, 8})
					}
				} else {
					f = GenBalFlags(r, j, val, BalGenOpts{Valued: true})
					if r.Chance(1, 2) {
						f.To = 0
					}
				}
			} else {
				o := JGenOpts{MaxAccounts: r.Range(2, 6), MaxDays: r.Range(1, 5), Unicode: true, BaseDay: 737000 + r.Intn(1500), SpanDays: Pick(r, []int{0, 3, 30, 200}), BoundaryDates: r.Chance(1, 4),
					Mutate: r.Chance(1, 5), Accruals: r.Chance(1, 4)}
				if r.Chance(1, 2) {
					o.Prices, o.Valuation = true, "CHF"
					o.PricesFirstDayOnly = r.Chance(1, 2)
				}
				j, tags = GenJournal(r, o)
				f = GenBalFlags(r, j, o.Valuation, BalGenOpts{Valued: true})
				if r.Chance(1, 3) {
					// two mapping rules of different shape: the mapped account an earlier posting created must not depend on which
					// rule, or which account, a later posting meets first (seeded change C05-e let mapped accounts share a scratch
					// buffer, so that the report row of a posting depended on the order of the transactions of a day)
					accounts, _ := journalNames(j)
					f.Map = []MapRuleF{{Level: r.Range(1, 2), Suffix: 1, Regex: genPattern(r, accounts)}, {Level: r.Range(1, 2), Suffix: r.Range(2, 3), Regex: genPattern(r, accounts)}}
					if r.Bool() {
						f.Map = append(f.Map, MapRuleF{Level: r.Range(1, 3)})
					}
				}
				if r.Chance(1, 2) {
					f.To = 0 // the report end then comes from the journal period
				}
			}
			k := &cs{stream: stream, kind: kind, idx: i, j: j, f: f, tags: tags, raw: raw}
			for v := 0; v < nvar; v++ {
				order := make([]int, len(j.Dirs))
				for q := range order {
					order[q] = q
				}
				switch {
				case v == 0: // the original order in a single file
				case stream == "reject" && bad >= 0 && v >= 1 && v <= 5:
					// the directive the conversion rejects as the first (v = 1, 3) or the last (v = 2, 4) directive of the file that holds
					// it - a single file, or whichever file of an include tree it falls into - the others in their order or (v = 4) shuffled;
					// v = 5: directly behind one other directive
					var rest []int
					for _, q := range order {
						if q != bad {
							rest = append(rest, q)
						}
					}
					if v == 4 {
						for q := len(rest) - 1; q > 0; q-- {
							w := r.Intn(q + 1)
							rest[q], rest[w] = rest[w], rest[q]
						}
					}
					switch {
					case v == 1 || v == 3:
						order = append([]int{bad}, rest...)
					case v == 5 && len(rest) > 0:
						order = append([]int{rest[0], bad}, rest[1:]...)
					default:
						order = append(rest, bad)
					}
				case v == 1: // newest first (reverse chronological)
					for a, b := 0, len(order)-1; a < b; a, b = a+1, b-1 {
						order[a], order[b] = order[b], order[a]
					}
				case v == 2: // grouped by kind: prices, then transactions newest first, then the rest
					rank := func(q int) int {
						switch j.Dirs[q].Kind {
						case 'p':
							return 0
						case 't':
							return 1
						}
						return 2
					}
					sort.SliceStable(order, func(a, b int) bool {
						ra, rb := rank(order[a]), rank(order[b])
						if ra != rb {
							return ra < rb
						}
						if ra == 1 {
							return j.Dirs[order[a]].Date > j.Dirs[order[b]].Date
						}
						return false
					})
				case v == 3 && stream == "order": // the file stays chronological, only the transactions of each day change places
					order = c05SameDayShuffle(r, j)
				case v == 3 && pricey: // the smallest change of order: one directive moves to the top of the file
					q := r.Intn(len(order))
					copy(order[1:q+1], order[:q])
					order[0] = q
				case v == 4 && pricey: // the file stays chronological, only the price directives of each day change places
					order = c05SameDayShuffleKind(r, j, 'p')
				default:
					for q := len(order) - 1; q > 0; q-- {
						w := r.Intn(q + 1)
						order[q], order[w] = order[w], order[q]
					}
				}
				vr := &c05Variant{Order: order, Seed: r.Intn(1000) + 1}
				dir := filepath.Join(base, fmt.Sprintf("%s%d/v%d", stream, i, v))
				// the byte layout of the variant's files has a generator of its own (the directive orders and tree shapes of a
				// case do not move when the layout tables change); the original, variant 0, keeps the printed layout
				lr := c.Rng(stream+"/bytes", i*64+v)
				if (v <= 2 && (v == 0 || stream == "reject" || r.Chance(1, 2))) || (v == 3 && stream == "order") || ((v == 3 || v == 4) && pricey) {
					text := c05Text(j, order, raw)
					if v > 0 {
						var items []layItem
						for _, q := range order {
							items = append(items, c05Item(j, q, raw))
						}
						lay := layDraw(lr, len(items))
						text, vr.Layout = lay.render(items), "main.knut: "+lay.field()
					}
					os.MkdirAll(dir, 0o755)
					vr.Root = filepath.Join(dir, "main.knut")
					os.WriteFile(vr.Root, []byte(text), 0o644)
					vr.Shape = "single"
				} else {
					vr.Root, vr.Shape, vr.Layout = c05WriteTree(r, lr, dir, j, order, raw)
				}
				k.vars = append(k.vars, vr)
			}
			if stream == "reject" && bad >= 0 {
				// the rejected directive at further places of one file (the others in their order), judged by the real loader
				// in-process; sweep[0] is the original order
				n := len(j.Dirs)
				at := []int{-1, 0, n - 1, 1, n - 2}
				for q := c.N(3, 8); q > 0; q-- {
					at = append(at, r.Intn(n))
				}
				seen := map[int]bool{}
				for _, p := range at {
					if p < -1 || p >= n || seen[p] {
						continue
					}
					seen[p] = true
					sw := &c05Sweep{}
					for q := 0; q < n; q++ {
						if p >= 0 && q == bad {
							continue
						}
						sw.Order = append(sw.Order, q)
					}
					if p >= 0 {
						sw.Order = append(sw.Order[:p:p], append([]int{bad}, sw.Order[p:]...)...)
					}
					k.sweep = append(k.sweep, sw)
				}
			}
			if stream == "order" {
				// further orders of the same directives in one file, judged by the real loader and checker in-process (no report, so
				// many of them are cheap): same-day shuffles and full permutations
				for q := c.N(8, 16); q > 0; q-- {
					sw := &c05Sweep{}
					if r.Bool() {
						sw.Order = c05SameDayShuffle(r, j)
					} else {
						sw.Order = make([]int, len(j.Dirs))
						for a := range sw.Order {
							sw.Order[a] = a
						}
						for a := len(sw.Order) - 1; a > 0; a-- {
							w := r.Intn(a + 1)
							sw.Order[a], sw.Order[w] = sw.Order[w], sw.Order[a]
						}
					}
					k.sweep = append(k.sweep, sw)
				}
			}
			cases = append(cases, k)
		}
	}
	type job struct{ k, v int }
	var jobs []job
	for k := range cases {
		for v := range cases[k].vars {
			jobs = append(jobs, job{k, v})
		}
	}
	parallelFor(len(jobs), 16, func(q int) {
		k, vr := cases[jobs[q].k], cases[jobs[q].k].vars[jobs[q].v]
		env := []string{fmt.Sprintf("KNUT_VERIF_SEED=%d", vr.Seed)}
		var e1, e2, e3 string
		vr.Check, _, e1 = runKnut(c.KnutBin, 20*time.Second, env, "check", vr.Root)
		args := append([]string{"balance"}, k.f.Args()...)
		vr.BalC, vr.Bal, e2 = runKnut(c.KnutBin, 20*time.Second, env, append(args, vr.Root)...)
		vr.PrC, vr.Print, e3 = runKnut(c.KnutBin, 20*time.Second, env, "print", vr.Root)
		vr.ErrOut = e1 + e2 + e3
		// the journal itself: what the real loader (journal.FromPath, in-process) builds from the tree, and the tree as the
		// model's file system (read back from disk like C14 does). A panic in a loader goroutine cannot be recovered
		// in-process; the subprocess runs above would have shown it.
		if !strings.Contains(vr.ErrOut, "panic") {
			if fs, ok := c14FS(filepath.Dir(vr.Root), []string{"main.knut"}, nil); ok {
				vr.FS = fs
				vr.Dump = implLoadDump(vr.Root)
			}
		}
	})
	// stream order: the in-process sweep (sweep[0] is the original order)
	var sweepCases []*cs
	for _, k := range cases {
		if len(k.sweep) > 0 {
			sweepCases = append(sweepCases, k)
		}
	}
	parallelFor(len(sweepCases), 8, func(q int) {
		k := sweepCases[q]
		dir := filepath.Join(base, fmt.Sprintf("%s%d/sweep", k.stream, k.idx))
		os.MkdirAll(dir, 0o755)
		for si, sw := range k.sweep {
			sw.Text = c05Text(k.j, sw.Order, k.raw)
			p := filepath.Join(dir, fmt.Sprintf("s%d.knut", si))
			os.WriteFile(p, []byte(sw.Text), 0o644)
			sw.Verdict, _, sw.Msg = implCheck(p, nil)
		}
	})
	os.RemoveAll(base)
	bt := c.NewBatch()
	defer bt.Flush()
	for _, k := range cases {
		k := k
		c.Evals++
		text := c05Text(k.j, nil, k.raw)
		for _, t := range k.tags {
			c.Tag(t)
		}
		b0 := k.vars[0]
		shapes := map[string]bool{}
		for _, vr := range k.vars {
			shapes[vr.Shape] = true
		}
		if k.stream == "layout" {
			c.Class(fmt.Sprintf("c05/check%d/%s/shapes%d/n%s", b0.Check, flagClass(k.f), len(shapes), bucket(len(k.j.Dirs))))
		} else {
			c.Class(fmt.Sprintf("c05/%s/%s/check%d/shapes%d/n%s", k.stream, k.kind, b0.Check, len(shapes), bucket(len(k.j.Dirs))))
			c.Tag(fmt.Sprintf("%s-verdict:%s/exit%d", k.stream, k.kind, b0.Check))
			if k.stream == "prices" || k.stream == "requote" {
				c.Tag(fmt.Sprintf("prices-balance:%s/exit%d", k.kind, b0.BalC))
			}
		}
		if k.idx < 2 {
			c.Sample(map[string]any{"journal": text, "args": strings.Join(k.f.Args(), " "), "variants": len(k.vars)})
		}
		// Layout.journalOf (loader model on the tree read back from disk, elaboration, builder) against the days the real
		// loader built from the same tree, for every variant including the original
		for vi, vr := range k.vars {
			if vr.FS == "" {
				continue
			}
			vr := vr
			in := map[string]any{"journal": text, "variant": vi, "order": vr.Order, "shape": vr.Shape, "layout": vr.Layout, "fs": vr.FS}
			bt.Add(func(model string) {
				c.Compare(k.stream, k.idx, "journal-of", in, c05CanonDump(vr.Dump), c05CanonDump(model))
				if k.stream == "reject" && model == "error" {
					// the model conversion rejects a directive of the journal: so does every command, wherever the directive stands
					impl := "error"
					if vr.Check == 0 || vr.BalC == 0 || vr.PrC == 0 {
						impl = fmt.Sprintf("accepted: exit codes check/balance/print %d/%d/%d", vr.Check, vr.BalC, vr.PrC)
					}
					c.Compare(k.stream, k.idx, "load-verdict", in, impl, model)
				}
			}, "c05journal", Hex("main.knut"), vr.FS)
		}
		for vi, vr := range k.vars[1:] {
			in := map[string]any{"journal": text, "args": strings.Join(k.f.Args(), " "), "variant": vi + 1, "order": vr.Order, "shape": vr.Shape, "layout": vr.Layout, "schedule_seed": vr.Seed}
			if k.stream != "layout" {
				in["kind"] = k.kind
				in["variant_directives_in_order"] = c05Text(k.j, vr.Order, k.raw)
			}
			same := vr.Check == b0.Check && vr.PrC == b0.PrC && vr.BalC == b0.BalC && !strings.Contains(vr.ErrOut, "panic")
			if !same || (b0.BalC == 0 && vr.BalC == 0 && vr.Bal != b0.Bal) || (b0.PrC == 0 && vr.PrC == 0 && c05CanonPrint(vr.Print) != c05CanonPrint(b0.Print)) {
				in["variant_files"] = c05Files(vr.FS) // the variant's tree byte for byte, as read back from disk
			}
			c.Monitor(k.stream, k.idx, "verdict_same", in, same,
				fmt.Sprintf("exit codes check/balance/print: original %d/%d/%d, variant %d/%d/%d\n%s", b0.Check, b0.BalC, b0.PrC, vr.Check, vr.BalC, vr.PrC, clip(vr.ErrOut)))
			if b0.BalC == 0 && vr.BalC == 0 {
				c.Monitor(k.stream, k.idx, "balance_bytes_same", in, vr.Bal == b0.Bal, "original:\n"+b0.Bal+"\nvariant:\n"+vr.Bal)
			}
			if b0.PrC == 0 && vr.PrC == 0 {
				c.Monitor(k.stream, k.idx, "print_same_up_to_block_order", in, c05CanonPrint(vr.Print) == c05CanonPrint(b0.Print), "original:\n"+b0.Print+"\nvariant:\n"+vr.Print)
			}
			// the model on the permuted directive list gives the same report as the real code on the variant
			// (not for a journal with a directive the structured form cannot express)
			if (vi < 2 || ((k.stream == "prices" || k.stream == "requote") && vi < 5)) && len(k.raw) == 0 {
				pj := &Journal{}
				for _, q := range vr.Order {
					pj.Dirs = append(pj.Dirs, k.j.Dirs[q])
				}
				impl := "error"
				if vr.BalC == 0 {
					impl = "ok " + Hex(canonTable(vr.Bal))
				}
				bt.Add(func(model string) {
					if model == "unsupported" {
						return
					}
					c.Compare(k.stream, k.idx, "balance-permuted", in, impl, modelOutcomeCanon(model))
				}, "balance", k.f.Wire(today()), pj.Wire())
			}
		}
		if k.stream == "reject" && len(k.sweep) > 0 {
			s0 := k.sweep[0]
			for si, sw := range k.sweep[1:] {
				in := map[string]any{"journal": s0.Text, "kind": k.kind, "sweep": si + 1, "order": sw.Order, "variant_journal": sw.Text}
				c.Monitor(k.stream, k.idx, "verdict_same_in_process", in, sw.Verdict == s0.Verdict && (sw.Verdict == "ok" || sw.Verdict == "error" || sw.Verdict == "load-error"),
					fmt.Sprintf("journal.FromPath + check.Check in-process: original order %s (%s), this order %s (%s)", s0.Verdict, clip(s0.Msg), sw.Verdict, clip(sw.Msg)))
			}
		}
		if k.stream != "order" {
			continue
		}
		// the verdict of `knut check` on every variant against the model's checker on the directives in that variant's order
		for vi, vr := range k.vars {
			if vr.Check != 0 && vr.Check != 1 {
				continue
			}
			vr := vr
			in := map[string]any{"journal": text, "kind": k.kind, "variant": vi, "order": vr.Order, "shape": vr.Shape, "layout": vr.Layout, "variant_directives_in_order": c05Permuted(k.j, vr.Order)}
			pj := &Journal{}
			for _, q := range vr.Order {
				pj.Dirs = append(pj.Dirs, k.j.Dirs[q])
			}
			bt.Add(func(model string) {
				c.Compare(k.stream, k.idx, "check-verdict", in, []string{"ok", "error"}[vr.Check], strings.Fields(model + " ?")[0])
			}, "check", pj.Wire())
		}
		// the sweep: every further order of the same directives gets the verdict of the original order
		s0 := k.sweep[0]
		for si, sw := range k.sweep[1:] {
			in := map[string]any{"journal": s0.Text, "kind": k.kind, "sweep": si + 1, "order": sw.Order, "variant_journal": sw.Text}
			c.Monitor(k.stream, k.idx, "verdict_same_in_process", in, sw.Verdict == s0.Verdict && (sw.Verdict == "ok" || sw.Verdict == "error"),
				fmt.Sprintf("journal.FromPath + check.Check in-process: original order %s (%s), this order %s (%s)", s0.Verdict, clip(s0.Msg), sw.Verdict, clip(sw.Msg)))
		}
	}
}

// c05Files decodes the wire form of a file system (c14FS) into path -> content.
func c05Files(fs string) map[string]string {
	res := map[string]string{}
	if fs == "" || fs == "-" {
		return res
	}
	for _, e := range strings.Split(fs, ",") {
		if pd := strings.SplitN(e, ":", 2); len(pd) == 2 {
			res[UnHex(pd[0])] = UnHex(pd[1])
		}
	}
	return res
}

// c05Item is directive idx of the journal as a layout item; raw[idx], when present, is the text written for it.
func c05Item(j *Journal, idx int, raw map[int]string) layItem {
	it := layDir(j.Dirs[idx])
	if t, ok := raw[idx]; ok {
		it.Text = strings.TrimSuffix(t, "\n")
	}
	return it
}

// c05Text is the text of the journal with its directives in the given order (nil: as they are), a blank line after each;
// raw as in c05Item.
func c05Text(j *Journal, order []int, raw map[int]string) string {
	var b strings.Builder
	put := func(q int) {
		if t, ok := raw[q]; ok {
			b.WriteString(t)
		} else {
			b.WriteString(j.Dirs[q].Text())
		}
		b.WriteString("\n")
	}
	if order == nil {
		for q := range j.Dirs {
			put(q)
		}
	}
	for _, q := range order {
		put(q)
	}
	return b.String()
}

// c05GenReject: a well-formed journal (lifecycle generator, no mutation: nothing for the checker to object to) in which ONE
// directive is written so that the syntax parser accepts it and the conversion to the model (model.ParseDirective) rejects it
// (c02Fault: a date that does not exist, an account whose first segment is no account type, a number in foreign digits, an
// @accrue annotation with an impossible window, date or account). The directive is of any kind and stands anywhere among the
// others. Such a journal is rejected by every command wherever the directive stands - first, last or in the middle of the
// main file or of an included one: the verdict is a function of the SET of directives. One journal in eight is a control
// without fault. Results: journal, fault kind, valuation commodity, index of the faulted directive (-1: none), its text.
func c05GenReject(r *RNG) (*Journal, string, string, int, map[int]string, []string) {
	o := JGenOpts{MaxAccounts: r.Range(2, 6), MaxDays: r.Range(1, 6), Unicode: true, BaseDay: 737000 + r.Intn(1500), SpanDays: Pick(r, []int{0, 3, 30, 200}), BoundaryDates: r.Chance(1, 6),
		Accruals: r.Chance(1, 2)}
	if r.Chance(1, 3) {
		o.Prices, o.Valuation = true, "CHF"
	}
	j, tags := GenJournal(r, o)
	n := len(j.Dirs)
	if n == 0 || r.Chance(1, 8) {
		return j, "none", o.Valuation, -1, nil, append(tags, "reject:none")
	}
	var cand []int
	if r.Bool() {
		for q, d := range j.Dirs {
			if d.Kind == 't' && (d.Accrual != nil || !r.Chance(1, 3)) {
				cand = append(cand, q)
			}
		}
	}
	if len(cand) == 0 {
		for q := range j.Dirs {
			cand = append(cand, q)
		}
	}
	bad := Pick(r, cand)
	switch r.Intn(5) { // the ends of the journal more often than chance has them
	case 0:
		bad = cand[0]
	case 1:
		bad = cand[len(cand)-1]
	}
	text, fault := c02Fault(r, j.Dirs[bad], false)
	where := "mid"
	switch {
	case n == 1:
		where = "only"
	case bad == 0:
		where = "first"
	case bad == n-1:
		where = "last"
	}
	return j, fault, o.Valuation, bad, map[int]string{bad: text}, append(tags, "reject:"+fault, fmt.Sprintf("reject-at:%c/%s", j.Dirs[bad].Kind, where))
}

// c05Sweep is one further order of a case's directives, written to a single file and judged in-process.
type c05Sweep struct {
	Order   []int
	Text    string
	Verdict string
	Msg     string
}

// c05Permuted is the text of the journal with its directives in the given order.
func c05Permuted(j *Journal, order []int) string {
	jj := &Journal{}
	for _, q := range order {
		jj.Dirs = append(jj.Dirs, j.Dirs[q])
	}
	text, _ := jj.Text()
	return text
}

// c05SameDayShuffle keeps every directive where it is, except that the transactions of each day are dealt out anew
// over the places the transactions of that day hold.
func c05SameDayShuffle(r *RNG, j *Journal) []int { return c05SameDayShuffleKind(r, j, 't') }

// c05SameDayShuffleKind: the same for the directives of the given kind.
func c05SameDayShuffleKind(r *RNG, j *Journal, kind byte) []int {
	order := make([]int, len(j.Dirs))
	byDay := map[int][]int{}
	var days []int
	for q, d := range j.Dirs {
		order[q] = q
		if d.Kind == kind {
			if byDay[d.Date] == nil {
				days = append(days, d.Date)
			}
			byDay[d.Date] = append(byDay[d.Date], q)
		}
	}
	sort.Ints(days)
	for _, day := range days {
		pos := byDay[day]
		vals := append([]int(nil), pos...)
		for a := len(vals) - 1; a > 0; a-- {
			w := r.Intn(a + 1)
			vals[a], vals[w] = vals[w], vals[a]
		}
		for a, p := range pos {
			order[p] = vals[a]
		}
	}
	return order
}

// c05GenOrder builds a journal whose verdict hangs on state that SEVERAL transactions of one day build up (which accounts are
// open, which positions they hold, which accounts were booked last) and a directive of a later day that breaks one rule of
// the checker against that state — every rule it has: booking on a closed / never opened / not yet opened account, second
// open, close with a position, second close, failed assertion, assertion on a closed account. Two kinds are valid controls
// (close, re-open, book again; nothing broken). Whatever order the directives are written in and however they are spread
// over files, the days hold the same directives, so the verdict is the same: these journals are rejected in EVERY order.
// Around the offending directive: 1-3 busy days of 2-6 transactions most of which touch the account in question, the
// offender 0-3 days after the state it depends on, 0-2 transactions on other accounts in between, its own transaction
// sometimes with a harmless booking first, the account on either side of the booking, sometimes valid days afterwards.
var c05OrderKinds = []string{"closed-booking", "closed-booking", "closed-booking", "never-opened", "not-yet-opened", "double-open", "close-with-position",
	"failed-assertion", "assert-closed", "double-close", "valid-reopen", "valid"}

func c05GenOrder(r *RNG) (*Journal, string, []string) {
	kind := Pick(r, c05OrderKinds)
	segs := []string{"Bank", "Cash", "Broker", "Savings", "Checking", "Food", "Rent", "Salary", "Car", "A", "B"}
	isAL := func(a string) bool { return strings.HasPrefix(a, "Assets") || strings.HasPrefix(a, "Liabilities") }
	accounts := []string{"Assets:" + Pick(r, segs), Pick(r, []string{"Equity:Opening", "Income:Salary", "Expenses:Food", "Liabilities:Card"})}
	for nacc := r.Range(3, 6); len(accounts) < nacc; {
		a := Pick(r, typeNames) + ":" + Pick(r, segs)
		if r.Chance(1, 3) {
			a += ":" + Pick(r, segs)
		}
		if !contains(accounts, a) {
			accounts = append(accounts, a)
		}
	}
	coms := []string{"CHF"}
	if r.Bool() {
		coms = append(coms, Pick(r, []string{"USD", "AAPL"}))
	}
	// the account in question
	x := Pick(r, accounts)
	if kind == "close-with-position" || kind == "failed-assertion" || r.Chance(1, 2) {
		var al []string
		for _, a := range accounts {
			if isAL(a) {
				al = append(al, a)
			}
		}
		x = Pick(r, al)
	}
	j := &Journal{}
	open := map[string]bool{}
	qty := map[[2]string]decimal.Decimal{}
	descs := []string{"Groceries", "Salary", "rent", "Transfer", "x", "fee", ""}
	amount := func() string {
		switch r.Intn(4) {
		case 0:
			return fmt.Sprintf("%d.%02d", r.Intn(300), r.Range(1, 99))
		case 1:
			return fmt.Sprintf("-%d", r.Range(1, 50))
		}
		return fmt.Sprintf("%d", r.Range(1, 900))
	}
	book := func(day int, desc string, bks ...JBook) {
		j.Dirs = append(j.Dirs, JDir{Kind: 't', Date: day, Desc: desc, Bookings: bks})
		for _, b := range bks {
			q, _ := decimal.NewFromString(b.Qty)
			if isAL(b.Credit) {
				qty[[2]string{b.Credit, b.Com}] = qty[[2]string{b.Credit, b.Com}].Sub(q)
			}
			if isAL(b.Debit) {
				qty[[2]string{b.Debit, b.Com}] = qty[[2]string{b.Debit, b.Com}].Add(q)
			}
		}
	}
	// open accounts other than the one in question
	others := func() []string {
		var res []string
		for _, a := range accounts {
			if open[a] && a != x {
				res = append(res, a)
			}
		}
		return res
	}
	pair := func(a string) JBook {
		o := others()
		b := Pick(r, o)
		if b == a {
			b = o[(indexOf(o, a)+1)%len(o)]
		}
		if r.Bool() {
			a, b = b, a
		}
		return JBook{a, b, amount(), Pick(r, coms)}
	}
	day := 737000 + r.Intn(1500)
	unopened := kind == "never-opened" || kind == "not-yet-opened"
	var late []string // opened on the first busy day instead of the first day
	for ai, a := range accounts {
		if a == x && unopened {
			continue
		}
		if ai >= 3 && a != x && r.Chance(1, 5) {
			late = append(late, a)
			continue
		}
		j.Dirs = append(j.Dirs, JDir{Kind: 'o', Date: day, Account: a})
		open[a] = true
	}
	// busy days
	for b, nb := 0, r.Range(1, 3); b < nb; b++ {
		if b > 0 || r.Bool() {
			day += r.Range(1, 4)
		}
		for _, a := range late {
			j.Dirs = append(j.Dirs, JDir{Kind: 'o', Date: day, Account: a})
			open[a] = true
		}
		late = nil
		for t, ntx := 0, r.Range(2, 6); t < ntx; t++ {
			a := Pick(r, others())
			if open[x] && r.Chance(3, 5) {
				a = x
			}
			bks := []JBook{pair(a)}
			if r.Chance(1, 6) {
				bks = append(bks, pair(Pick(r, others())))
			}
			book(day, Pick(r, descs), bks...)
		}
		if r.Chance(1, 3) { // true assertions (the quantity is filled in at the end: later directives may still book on this day)
			for _, a := range accounts {
				if open[a] && isAL(a) && r.Bool() {
					j.Dirs = append(j.Dirs, JDir{Kind: 'a', Date: day, Balances: []JBal{{a, "?", Pick(r, coms)}}})
				}
			}
		}
	}
	for _, a := range late { // (no busy day opened them)
		j.Dirs = append(j.Dirs, JDir{Kind: 'o', Date: day, Account: a})
		open[a] = true
	}
	// the account in question is emptied by bookings of the last busy day and closed on that day or soon after
	closeX := func() {
		var bks []JBook
		for _, c := range coms {
			q := qty[[2]string{x, c}]
			if q.IsZero() {
				continue
			}
			to := Pick(r, others())
			if r.Bool() {
				bks = append(bks, JBook{x, to, q.String(), c})
			} else {
				bks = append(bks, JBook{to, x, q.Neg().String(), c})
			}
		}
		if len(bks) > 1 && r.Bool() {
			for _, b := range bks {
				book(day, Pick(r, descs), b)
			}
		} else if len(bks) > 0 {
			book(day, Pick(r, descs), bks...)
		}
		day += r.Range(0, 2)
		j.Dirs = append(j.Dirs, JDir{Kind: 'c', Date: day, Account: x})
		open[x] = false
		for _, c := range coms {
			delete(qty, [2]string{x, c})
		}
	}
	// 0-2 transactions among the other accounts between the state and the offender (on the days from..to)
	fillers := func(from, to int) {
		for n := Pick(r, []int{0, 0, 1, 2}); n > 0; n-- {
			book(from+r.Intn(to-from+1), Pick(r, descs), pair(Pick(r, others())))
		}
	}
	// the transaction that books on the account in question: sometimes a harmless booking first
	bookX := func(d int, desc string) {
		var bks []JBook
		if r.Chance(1, 4) {
			bks = append(bks, pair(Pick(r, others())))
		}
		y := Pick(r, others())
		if r.Bool() {
			bks = append(bks, JBook{x, y, amount(), Pick(r, coms)})
		} else {
			bks = append(bks, JBook{y, x, amount(), Pick(r, coms)})
		}
		if r.Chance(1, 6) {
			bks = append(bks, pair(Pick(r, others())))
		}
		book(d, desc, bks...)
	}
	state := day
	switch kind {
	case "closed-booking":
		closeX()
		off := day + r.Range(1, 3)
		fillers(state, off)
		bookX(off, "late")
		day = off
	case "assert-closed":
		closeX()
		off := day + r.Range(1, 3)
		fillers(state, off)
		j.Dirs = append(j.Dirs, JDir{Kind: 'a', Date: off, Balances: []JBal{{x, "0", Pick(r, coms)}}})
		day = off
	case "double-close":
		closeX()
		off := day + r.Range(1, 3)
		fillers(state, off)
		j.Dirs = append(j.Dirs, JDir{Kind: 'c', Date: off, Account: x})
		day = off
	case "valid-reopen":
		closeX()
		re := day + r.Range(1, 3)
		fillers(state, re)
		j.Dirs = append(j.Dirs, JDir{Kind: 'o', Date: re, Account: x})
		open[x] = true
		day = re + r.Range(0, 2)
		bookX(day, "again")
	case "never-opened":
		off := day + r.Range(0, 3)
		fillers(state, off)
		bookX(off, "stray")
		day = off
	case "not-yet-opened":
		off := day + r.Range(0, 3)
		fillers(state, off)
		bookX(off, "early")
		day = off + r.Range(1, 3)
		j.Dirs = append(j.Dirs, JDir{Kind: 'o', Date: day, Account: x})
		open[x] = true
		if r.Bool() {
			bookX(day+r.Range(0, 2), "in time")
		}
	case "double-open":
		off := day + r.Range(0, 3)
		fillers(state, off)
		j.Dirs = append(j.Dirs, JDir{Kind: 'o', Date: off, Account: x})
		day = off
	case "close-with-position":
		held := false
		for _, c := range coms {
			held = held || !qty[[2]string{x, c}].IsZero()
		}
		if !held {
			book(day, "deposit", JBook{Pick(r, others()), x, fmt.Sprintf("%d", r.Range(1, 900)), Pick(r, coms)})
		}
		off := day + r.Range(0, 3)
		fillers(state, off)
		j.Dirs = append(j.Dirs, JDir{Kind: 'c', Date: off, Account: x})
		day = off
	case "failed-assertion":
		off := day + r.Range(0, 3)
		fillers(state, off)
		c := Pick(r, coms)
		wrong := qty[[2]string{x, c}].Add(decimal.New(int64(Pick(r, []int{-100, -1, 1, 5, 1000})), int32(-r.Intn(3))))
		j.Dirs = append(j.Dirs, JDir{Kind: 'a', Date: off, Balances: []JBal{{x, wrong.String(), c}}})
		day = off
	default: // valid
		fillers(state, day+2)
		day += 2
		for _, a := range accounts {
			if open[a] && isAL(a) {
				j.Dirs = append(j.Dirs, JDir{Kind: 'a', Date: day, Balances: []JBal{{a, "?", Pick(r, coms)}}})
			}
		}
	}
	if r.Chance(1, 3) { // the journal goes on
		book(day+r.Range(1, 5), Pick(r, descs), pair(Pick(r, others())))
	}
	for i, d := range j.Dirs {
		if d.Kind != 'a' || d.Balances[0].Qty != "?" {
			continue
		}
		// the position at the end of the assertion's day (an account is only closed with all positions at zero)
		bal := d.Balances[0]
		var sum decimal.Decimal
		for _, t := range j.Dirs {
			if t.Kind != 't' || t.Date > d.Date {
				continue
			}
			for _, b := range t.Bookings {
				q, _ := decimal.NewFromString(b.Qty)
				if b.Com == bal.Com && b.Credit == bal.Account {
					sum = sum.Sub(q)
				}
				if b.Com == bal.Com && b.Debit == bal.Account {
					sum = sum.Add(q)
				}
			}
		}
		bal.Qty = sum.String()
		j.Dirs[i].Balances = []JBal{bal}
	}
	return j, kind, []string{"order:" + kind}
}

// c05GenPrices builds a journal for a VALUED report whose price graph offers a choice: a commodity is reached from the
// valuation commodity over two or more chains of price directives of EQUAL length whose products differ (a diamond: VT quoted
// in USD and in EUR, both quoted in CHF), so that the value of a position hangs on which chain the normalisation takes. That
// choice may depend on the names and on the prices, never on where in the journal (which directive, which file, which arrival
// order) the commodities involved are mentioned first, nor on the order of the price directives of a day. No commodity pair is
// priced twice on one day (in either direction; C05 excludes that).
// Shapes: diamond, wide diamond (3-4 intermediate commodities), long diamond (2-3 chains of 2-3 intermediates), stacked
// diamonds, a ring of 4-7 commodities through the valuation commodity, a layered graph (2-3 layers of 1-3 commodities, each
// quoted in a random non-empty part of the layer before, sometimes within its layer or two layers up), and two controls (a
// diamond with a direct quote, a tree). Sometimes a pendant commodity behind the choice and a chord. Every quote in a random
// direction; the quotes on one day or spread over 1-6 days (the choice appears, or disappears, when a later day completes a
// chain); a fifth of the pairs re-quoted on another day. The valuation commodity is any of the names (first, last or in the
// middle of the name order). Mentions: most commodities are held (booked after they became reachable; one in ten anywhere,
// which may fail — in every order alike), 0-3 later-dated transactions and 0-2 assertions name further commodities, so that
// in the directive orders and layouts of the variants the first mention of a commodity is a price, a transaction, an
// assertion, early or late in the file, in this file or that.
var c05PriceShapes = []string{"diamond", "diamond", "wide-diamond", "long-diamond", "stacked-diamonds", "ring", "layered", "layered", "diamond+direct", "tree"}

func c05GenPrices(r *RNG) (*Journal, string, string, []string) {
	shape := Pick(r, c05PriceShapes)
	pool := []string{"AAPL", "BTC", "CHF", "EUR", "GBP", "GOLD", "JPY", "USD", "VT", "XAU", "ZAR", "abc", "MSCI", "N225"}
	if r.Chance(1, 6) {
		pool = append(pool, "Ünit")
	}
	for a := len(pool) - 1; a > 0; a-- {
		w := r.Intn(a + 1)
		pool[a], pool[w] = pool[w], pool[a]
	}
	var nodes []string
	fresh := func() string {
		s := fmt.Sprintf("C%d", len(nodes))
		if len(nodes) < len(pool) {
			s = pool[len(nodes)]
		}
		nodes = append(nodes, s)
		return s
	}
	val := fresh()
	var edges [][2]string
	has := map[[2]string]bool{}
	add := func(a, b string) {
		k := [2]string{a, b}
		if a > b {
			k = [2]string{b, a}
		}
		if a == b || has[k] {
			return
		}
		has[k] = true
		edges = append(edges, [2]string{a, b})
	}
	diamond := func(from string, width, length int) string {
		to := fresh()
		for w := 0; w < width; w++ {
			prev := from
			for l := 0; l < length; l++ {
				x := fresh()
				add(prev, x)
				prev = x
			}
			add(prev, to)
		}
		return to
	}
	switch shape {
	case "diamond":
		diamond(val, 2, 1)
	case "wide-diamond":
		diamond(val, r.Range(3, 4), 1)
	case "long-diamond":
		diamond(val, r.Range(2, 3), r.Range(2, 3))
	case "stacked-diamonds":
		diamond(diamond(val, 2, 1), r.Range(2, 3), 1)
	case "diamond+direct":
		add(val, diamond(val, r.Range(2, 3), r.Range(1, 2)))
	case "ring":
		prev := val
		for n := r.Range(3, 6); n > 0; n-- {
			x := fresh()
			add(prev, x)
			prev = x
		}
		add(prev, val)
	case "layered":
		layers := [][]string{{val}}
		for l, nl := 1, r.Range(2, 3); l <= nl; l++ {
			var layer []string
			for w := r.Range(1, 3); w > 0; w-- {
				x := fresh()
				layer = append(layer, x)
				above := layers[l-1]
				add(Pick(r, above), x)
				for _, p := range above {
					if r.Bool() {
						add(p, x)
					}
				}
				if l >= 2 && r.Chance(1, 4) {
					add(Pick(r, layers[l-2]), x)
				}
			}
			if len(layer) > 1 && r.Chance(1, 3) {
				add(layer[0], layer[1])
			}
			layers = append(layers, layer)
		}
	default: // tree
		for n := r.Range(2, 5); n > 0; n-- {
			add(Pick(r, nodes), fresh())
		}
	}
	if r.Bool() { // a commodity behind the choice
		add(Pick(r, nodes[1:]), fresh())
	}
	if r.Chance(1, 4) { // a chord
		add(Pick(r, nodes), Pick(r, nodes))
	}
	// the quotes
	j := &Journal{}
	d0 := 737000 + r.Intn(1500)
	oneDay := r.Chance(1, 3)
	quote := func() string {
		switch r.Intn(5) {
		case 0:
			return fmt.Sprintf("%d", r.Range(1, 12))
		case 1:
			return fmt.Sprintf("0.%d", r.Range(1, 9))
		}
		return fmt.Sprintf("%d.%02d", r.Range(0, 300), r.Range(1, 99))
	}
	last := d0
	type dated struct {
		day  int
		a, b string
	}
	var quotes []dated
	declare := func(day int, a, b string) {
		if r.Bool() {
			a, b = b, a
		}
		j.Dirs = append(j.Dirs, JDir{Kind: 'p', Date: day, Com: a, Price: quote(), Target: b})
		quotes = append(quotes, dated{day, a, b})
		if day > last {
			last = day
		}
	}
	for _, e := range edges {
		day := d0
		if !oneDay && r.Chance(1, 3) {
			day += r.Range(1, 5)
		}
		declare(day, e[0], e[1])
		if r.Chance(1, 5) {
			declare(day+r.Range(1, 6), e[0], e[1])
		}
	}
	// the first day on which a commodity has a price in the valuation commodity, and how many shortest chains lead to it
	// in the graph of all quotes
	sort.SliceStable(quotes, func(a, b int) bool { return quotes[a].day < quotes[b].day })
	reach := map[string]int{val: d0}
	chains := map[string]int{}
	for qi, q := range quotes {
		if qi+1 < len(quotes) && quotes[qi+1].day == q.day {
			continue
		}
		adj := map[string][]string{}
		for _, p := range quotes[:qi+1] {
			adj[p.a] = append(adj[p.a], p.b)
			adj[p.b] = append(adj[p.b], p.a)
		}
		dist := map[string]int{val: 0}
		chains = map[string]int{val: 1}
		for queue := []string{val}; len(queue) > 0; queue = queue[1:] {
			x := queue[0]
			seen := map[string]bool{}
			for _, y := range adj[x] {
				if seen[y] {
					continue
				}
				seen[y] = true
				if _, ok := dist[y]; !ok {
					dist[y] = dist[x] + 1
					queue = append(queue, y)
				}
				if dist[y] == dist[x]+1 {
					chains[y] += chains[x]
				}
			}
		}
		for x := range dist {
			if _, ok := reach[x]; !ok {
				reach[x] = q.day
			}
		}
	}
	// accounts and bookings
	segs := []string{"Bank", "Broker", "Cash", "Depot", "A", "B"}
	assets := []string{"Assets:" + Pick(r, segs)}
	for n := r.Range(0, 2); n > 0; n-- {
		if a := "Assets:" + Pick(r, segs); !contains(assets, a) {
			assets = append(assets, a)
		}
	}
	sources := []string{"Equity:Opening"}
	if r.Bool() {
		sources = append(sources, "Income:Salary")
	}
	accounts := append(append([]string{}, assets...), sources...)
	if r.Bool() {
		accounts = append(accounts, "Expenses:Food")
	}
	dOpen := d0 - r.Range(0, 3)
	for _, a := range accounts {
		j.Dirs = append(j.Dirs, JDir{Kind: 'o', Date: dOpen, Account: a})
	}
	qty := func() string {
		switch r.Intn(4) {
		case 0:
			return fmt.Sprintf("%d.%02d", r.Intn(300), r.Range(1, 99))
		case 1:
			return fmt.Sprintf("-%d", r.Range(1, 50))
		}
		return fmt.Sprintf("%d", r.Range(1, 900))
	}
	descs := []string{"Transfer portfolio", "Salary", "Bonus", "buy", "x", ""}
	held, heldChoice := 0, 0
	for pass := 0; held == 0 && pass < 4; pass++ {
		for _, x := range nodes[1:] {
			day, ok := reach[x]
			if !ok || !r.Chance(3, 4) {
				continue
			}
			day += Pick(r, []int{0, 0, 1, 2, 6})
			if r.Chance(1, 10) {
				day = dOpen + r.Intn(last-dOpen+2)
			}
			j.Dirs = append(j.Dirs, JDir{Kind: 't', Date: day, Desc: Pick(r, descs), Bookings: []JBook{{Pick(r, sources), Pick(r, assets), qty(), x}}})
			held++
			if chains[x] > 1 {
				heldChoice++
			}
		}
	}
	// later-dated bookings and assertions that name commodities (in another directive order they are their first mention)
	var priced []string
	for _, x := range nodes {
		if _, ok := reach[x]; ok {
			priced = append(priced, x)
		}
	}
	for n := r.Intn(4); n > 0; n-- {
		b := JBook{Pick(r, sources), Pick(r, assets), qty(), Pick(r, priced)}
		if r.Chance(1, 3) && contains(accounts, "Expenses:Food") {
			b = JBook{Pick(r, assets), "Expenses:Food", qty(), Pick(r, priced)}
		}
		j.Dirs = append(j.Dirs, JDir{Kind: 't', Date: last + r.Range(1, 60), Desc: Pick(r, descs), Bookings: []JBook{b}})
	}
	for n := Pick(r, []int{0, 0, 1, 2}); n > 0; n-- {
		j.Dirs = append(j.Dirs, JDir{Kind: 'a', Date: last + r.Range(0, 70), Balances: []JBal{{Pick(r, assets), "?", Pick(r, priced)}}})
	}
	c05FillAssertions(j)
	// the original: a chronological file, the directives of a day in no particular order
	for a := len(j.Dirs) - 1; a > 0; a-- {
		w := r.Intn(a + 1)
		j.Dirs[a], j.Dirs[w] = j.Dirs[w], j.Dirs[a]
	}
	sort.SliceStable(j.Dirs, func(a, b int) bool { return j.Dirs[a].Date < j.Dirs[b].Date })
	choice := "no-choice"
	for _, n := range chains {
		if n > 1 {
			choice = "choice"
		}
	}
	if heldChoice > 0 {
		choice = "choice-held"
	}
	return j, shape, val, []string{"prices:" + shape, "prices:" + choice}
}

// c05FillAssertions replaces the quantity "?" of single-balance assertions by the position the account holds at the end of the
// assertion's day.
func c05FillAssertions(j *Journal) {
	for i, d := range j.Dirs {
		if d.Kind != 'a' || d.Balances[0].Qty != "?" {
			continue
		}
		bal := d.Balances[0]
		var sum decimal.Decimal
		for _, t := range j.Dirs {
			if t.Kind != 't' || t.Date > d.Date {
				continue
			}
			for _, b := range t.Bookings {
				q, _ := decimal.NewFromString(b.Qty)
				if b.Com == bal.Com && b.Credit == bal.Account {
					sum = sum.Sub(q)
				}
				if b.Com == bal.Com && b.Debit == bal.Account {
					sum = sum.Add(q)
				}
			}
		}
		bal.Qty = sum.String()
		j.Dirs[i].Balances = []JBal{bal}
	}
}

// c05GenRequote builds a journal for a VALUED report with a QUOTE HISTORY: after the days that establish the prices, later
// days re-declare SEVERAL commodity pairs at once, some with exactly the value the price table currently holds for the pair
// (a repeat: the table does not move), some with another value - C03's c03Requote (reused: pairs quoted in both directions,
// values of either direction from a pool of one or two, exact reciprocals, trailing zeros), called 1-4 times so that 1-12
// pairs have a history and the days of the journal carry 2-6 price directives of which any subset is a repeat. Whatever the
// price stage remembers between two directives of a day (a "changed" flag, the last pair, a cache of the last normalisation)
// must not make the day's prices depend on which of them arrives last: the variants put the price directives of each day in
// other orders and spread them over include trees. C05 excludes two prices for one commodity pair on one day (in either
// direction: file order decides there), so of such directives only the first is kept. Base journal: the lifecycle generator
// with prices (held commodities quoted in CHF) or one of c05GenPrices' graphs (the repeat then sits on a link of a chain).
func c05GenRequote(r *RNG) (*Journal, string, string, []string) {
	var j *Journal
	var tags []string
	val, kind := "CHF", "lifecycle"
	if r.Chance(1, 3) {
		j, kind, val, tags = c05GenPrices(r)
		kind = "graph-" + kind
	} else {
		o := JGenOpts{MaxAccounts: r.Range(2, 5), MaxDays: r.Range(2, 6), BaseDay: 737000 + r.Intn(1500), SpanDays: Pick(r, []int{3, 10, 30, 200}), Prices: true, Valuation: "CHF",
			PricesFirstDayOnly: r.Chance(1, 3)}
		j, tags = GenJournal(r, o)
	}
	for n := r.Range(1, 4); n > 0; n-- {
		tags = append(tags, c03Requote(r, j, val)...)
	}
	// no pair twice on one day
	type pk struct {
		day  int
		a, b string
	}
	seen := map[pk]bool{}
	kept := j.Dirs[:0:0]
	perDay := map[int]int{}
	for _, d := range j.Dirs {
		if d.Kind == 'p' {
			k := pk{d.Date, d.Com, d.Target}
			if k.a > k.b {
				k.a, k.b = k.b, k.a
			}
			if seen[k] {
				continue
			}
			seen[k] = true
			perDay[d.Date]++
		}
		kept = append(kept, d)
	}
	j.Dirs = kept
	// coverage: days on which one pair repeats the stored value (of that direction, as written or as the reciprocal the table
	// derives is not tracked: written values only) next to a pair whose value moves
	type dk struct{ a, b string }
	last := map[dk]string{}
	repeatDay, moveDay := map[int]bool{}, map[int]bool{}
	for _, d := range j.Dirs {
		if d.Kind != 'p' {
			continue
		}
		k := dk{d.Com, d.Target}
		if p, ok := last[k]; ok && c03SameNumber(p, d.Price) {
			repeatDay[d.Date] = true
		} else {
			moveDay[d.Date] = true
		}
		last[k] = d.Price
		delete(last, dk{d.Target, d.Com})
	}
	mixed, busiest := "no-mixed-day", 0
	for day := range repeatDay {
		if moveDay[day] {
			mixed = "mixed-day"
		}
	}
	for _, n := range perDay {
		if n > busiest {
			busiest = n
		}
	}
	return j, kind, val, append(tags, "requote:"+kind, "requote:"+mixed, "requote-prices-per-day:"+bucket(busiest))
}
