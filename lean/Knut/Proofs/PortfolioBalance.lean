import Knut.Proofs.PortfolioCalm
import Knut.Proofs.PortfolioPeriods
/-! Lemmas for C20: the values `ComputeValues` holds are the totals of the report inserts of `knut balance -v` on the
asset/liability accounts.  The two commands run different processor lists over the same days
(`ComputePrices, check, Valuate` vs `check, ComputePrices, Valuate, Filter, CloseAccounts, Query`); here they are run in
lockstep. -/
namespace Knut.Performance
open Knut Knut.MTM

/-! ### the balance side: what the report holds for a commodity up to a date -/

/-- the column date of a report insert is not after `D` (`none` = aligned after the window: never shown) -/
def dateOK (o : Option Int) (D : Int) : Bool :=
  match o with
  | some x => decide (x ≤ D)
  | none => false

/-- the total of the report inserts of `knut balance` on asset/liability accounts, commodity `c`, in the columns up to
`D`: what the (cumulative) balance report shows for `c` on the date `D`, summed over the asset/liability accounts -/
def balanceValue (es : List Entry) (c : Commodity) (D : Int) : Rat :=
  ((es.filter (fun e => e.account.isAL && decide (e.commodity = c) && dateOK e.date D)).map (·.amount)).sum

theorem balanceValue_append (xs ys : List Entry) (c : Commodity) (D : Int) :
    balanceValue (xs ++ ys) c D = balanceValue xs c D + balanceValue ys c D := by
  unfold balanceValue
  rw [List.filter_append, List.map_append, sum_append_rat]

/-- the flags of the two commands agree: same valuation commodity and filters; the balance has no `-m`, no `--remap` -/
structure Matches (cfg : Cfg) (b : BalCfg) (v : Commodity) : Prop where
  val : cfg.valuation = some v
  bval : b.valuation = some v
  acc : b.accountFilter = cfg.accountFilter
  com : b.commodityFilter = cfg.commodityFilter
  mapping : b.mapping = []
  remap : ∀ s, b.remap s = false

/-- what a list of valued transactions adds to the value `ComputeValues` holds for `c` -/
def alVal (cfg : Cfg) (c : Commodity) (T : List Transaction) : Rat := sumOver (inVc cfg c) (T.flatMap (·.postings))

theorem alVal_nil (cfg : Cfg) (c : Commodity) : alVal cfg c [] = 0 := rfl

theorem alVal_append (cfg : Cfg) (c : Commodity) (X Y : List Transaction) :
    alVal cfg c (X ++ Y) = alVal cfg c X + alVal cfg c Y := by
  unfold alVal
  rw [List.flatMap_append, sumOver_append]

theorem queryPosting_matches {cfg : Cfg} {b : BalCfg} {v : Commodity} (hm : Matches cfg b v) (t : Transaction)
    (p : Posting) :
    Balance.queryPosting b t p =
      if (cfg.accountFilter p.account.name && cfg.commodityFilter p.commodity) = true then
        some ⟨alignIn b.periods t.date, p.account, p.commodity, p.value⟩
      else none := by
  unfold Balance.queryPosting mapAccount shorten mappingLevel
  simp only [hm.acc, hm.com, hm.remap, hm.mapping, hm.bval, List.find?_nil, Bool.false_eq_true, if_false,
    Option.isSome_some, if_true]

theorem bv_postings {cfg : Cfg} {b : BalCfg} {v : Commodity} (hm : Matches cfg b v) (t : Transaction) (c : Commodity)
    (D : Int) : ∀ ps : List Posting,
    balanceValue (ps.filterMap (Balance.queryPosting b t)) c D =
      if dateOK (alignIn b.periods t.date) D = true then sumOver (inVc cfg c) ps else 0 := by
  intro ps
  induction ps with
  | nil => simp [balanceValue, sumOver]
  | cons p rest ih =>
    rw [List.filterMap_cons, queryPosting_matches hm]
    have hcons : ∀ (e : Entry) (es : List Entry), balanceValue (e :: es) c D =
        (if (e.account.isAL && decide (e.commodity = c) && dateOK e.date D) = true then e.amount else 0) +
          balanceValue es c D := by
      intro e es
      unfold balanceValue
      rw [List.filter_cons]
      split
      · simp only [List.map_cons, List.sum_cons]
      · rw [Rat.zero_add]
    have hs : sumOver (inVc cfg c) (p :: rest) = inVc cfg c p + sumOver (inVc cfg c) rest := by
      simp [sumOver]
    rw [hs]
    by_cases h4 : p.commodity = c
    · subst h4
      cases h1 : cfg.accountFilter p.account.name <;> cases h2 : cfg.commodityFilter p.commodity <;>
        cases h3 : p.account.isAL <;> cases h5 : dateOK (alignIn b.periods t.date) D <;>
        simp [inVc, isPortfolio, h1, h2, h3, h5, hcons, ih, Rat.zero_add, Rat.add_zero]
    · cases h1 : cfg.accountFilter p.account.name <;> cases h2 : cfg.commodityFilter p.commodity <;>
        cases h3 : p.account.isAL <;> cases h5 : dateOK (alignIn b.periods t.date) D <;>
        simp [inVc, isPortfolio, h1, h2, h3, h4, h5, hcons, ih, Rat.zero_add, Rat.add_zero]

theorem bv_queryTx {cfg : Cfg} {b : BalCfg} {v : Commodity} (hm : Matches cfg b v) (t : Transaction) (c : Commodity)
    (D : Int) :
    balanceValue (Balance.queryTx b t) c D =
      if dateOK (alignIn b.periods t.date) D = true then sumOver (inVc cfg c) t.postings else 0 :=
  bv_postings hm t c D t.postings

theorem bv_flatMap {cfg : Cfg} {b : BalCfg} {v : Commodity} (hm : Matches cfg b v) (c : Commodity) (D dd : Int) :
    ∀ (T : List Transaction), (∀ t ∈ T, t.date = dd) →
    balanceValue (T.flatMap (Balance.queryTx b)) c D =
      if dateOK (alignIn b.periods dd) D = true then alVal cfg c T else 0 := by
  intro T
  induction T with
  | nil => intro _; simp [balanceValue, alVal, sumOver]
  | cons t rest ih =>
    intro hd
    rw [List.flatMap_cons, balanceValue_append, bv_queryTx hm, ih (fun x hx => hd x (List.mem_cons_of_mem _ hx)),
      hd t List.mem_cons_self]
    have : alVal cfg c (t :: rest) = sumOver (inVc cfg c) t.postings + alVal cfg c rest := by
      unfold alVal; rw [List.flatMap_cons, sumOver_append]
    rw [this]
    split <;> simp [Rat.add_zero]

theorem sumOver_zero (f : Posting → Rat) (ps : List Posting) (h : ∀ p ∈ ps, f p = 0) : sumOver f ps = 0 := by
  unfold sumOver
  induction ps with
  | nil => rfl
  | cons p rest ih =>
    simp only [List.map_cons, List.sum_cons, h p List.mem_cons_self, Rat.zero_add]
    exact ih (fun q hq => h q (List.mem_cons_of_mem _ hq))

/-- closing transactions move income/expense/equity balances to `Equity:Equity`: nothing on asset/liability accounts -/
theorem closings_facts (cfg : Cfg) (c : Commodity) (date : Int) (cQty cVal : AMap Position Rat)
    (hk : ∀ k ∈ cQty.map (·.1), k.1.isAL = false) :
    alVal cfg c (Balance.closings date cQty cVal) = 0 ∧ ∀ t ∈ Balance.closings date cQty cVal, t.date = date := by
  constructor
  · unfold alVal
    apply sumOver_zero
    intro p hp
    rw [List.mem_flatMap] at hp
    obtain ⟨t, ht, hpt⟩ := hp
    unfold Balance.closings at ht
    rw [List.mem_filterMap] at ht
    obtain ⟨⟨⟨a', c'⟩, q⟩, he, h⟩ := ht
    simp only at h
    split at h
    · cases h
    · injection h with h; subst h
      simp only at hpt
      have hna : a'.isAL = false := hk (a', c') (List.mem_map.mpr ⟨((a', c'), q), he, rfl⟩)
      have : p.account.isAL = false := by
        rcases build_account _ _ _ _ _ p hpt with h1 | h1
        · rw [h1]; exact hna
        · rw [h1]; exact equityAccount_not_AL
      unfold inVc isPortfolio
      simp [this]
  · intro t ht
    unfold Balance.closings at ht
    rw [List.mem_filterMap] at ht
    obtain ⟨⟨⟨a', c'⟩, q⟩, _, h⟩ := ht
    simp only at h
    split at h
    · cases h
    · injection h with h; subst h; rfl

/-! ### the dates of a day's valued transactions -/

theorem adjustStep_dates {v : Commodity} {date : Int} {prev cur : Option Prices.NPrices} {acc acc' : List Transaction}
    {e : Position × Rat} (hacc : ∀ t ∈ acc, t.date = date) (h : Balance.adjustStep v date prev cur acc e = .ok acc') :
    ∀ t ∈ acc', t.date = date := by
  unfold Balance.adjustStep at h
  split at h
  · injection h with h; subst h; exact hacc
  · simp only [bind, Except.bind] at h
    cases hl : Balance.lookupPrice prev e.1.2 with
    | error x => rw [hl] at h; cases h
    | ok pp =>
      rw [hl] at h; simp only at h
      cases hl2 : Balance.lookupPrice cur e.1.2 with
      | error x => rw [hl2] at h; cases h
      | ok cp =>
        rw [hl2] at h; simp only at h
        split at h
        · injection h with h; subst h; exact hacc
        · injection h with h; subst h
          intro t ht
          rcases List.mem_append.mp ht with ht | ht
          · exact hacc t ht
          · simp only [List.mem_singleton] at ht; subst ht; rfl

theorem adjustments_dates {v : Commodity} {date : Int} {prev cur : Option Prices.NPrices} {qty : AMap Position Rat}
    {adj : List Transaction} (h : Balance.adjustments v date prev cur qty = .ok adj) : ∀ t ∈ adj, t.date = date := by
  unfold Balance.adjustments at h
  suffices hgen : ∀ (q : AMap Position Rat) (acc res : List Transaction), (∀ t ∈ acc, t.date = date) →
      q.foldlM (Balance.adjustStep v date prev cur) acc = .ok res → ∀ t ∈ res, t.date = date from
    hgen qty [] adj (fun t ht => by cases ht) h
  intro q
  induction q with
  | nil => intro acc res hacc h; simp only [List.foldlM_nil, pure, Except.pure] at h; injection h with h; subst h; exact hacc
  | cons e rest ih =>
    intro acc res hacc h
    simp only [List.foldlM_cons, bind, Except.bind] at h
    cases hs : Balance.adjustStep v date prev cur acc e with
    | error x => rw [hs] at h; cases h
    | ok acc' =>
      rw [hs] at h; simp only at h
      exact ih acc' res (adjustStep_dates hacc hs) h

theorem mapM_valueTx_dates {v : Commodity} {cur : Option Prices.NPrices} (dd : Int) : ∀ (ts ts' : List Transaction),
    (∀ t ∈ ts, t.date = dd) → ts.mapM (Balance.valueTx v cur) = .ok ts' → ∀ t ∈ ts', t.date = dd := by
  intro ts
  induction ts with
  | nil => intro ts' _ h; simp [List.mapM_nil, pure, Except.pure] at h; subst h; intro t ht; cases ht
  | cons x rest ih =>
    intro ts' hall h
    simp only [List.mapM_cons, bind, Except.bind] at h
    cases hx : Balance.valueTx v cur x with
    | error e => rw [hx] at h; cases h
    | ok x' =>
      rw [hx] at h; simp only at h
      cases hr : rest.mapM (Balance.valueTx v cur) with
      | error e => rw [hr] at h; cases h
      | ok rest' =>
        rw [hr] at h; simp only [pure, Except.pure] at h
        injection h with h; subst h
        intro t ht
        rcases List.mem_cons.mp ht with rfl | ht'
        · have := hall x List.mem_cons_self
          unfold Balance.valueTx at hx
          simp only [bind, Except.bind] at hx
          split at hx
          · cases hx
          · injection hx with hx; subst hx; exact this
        · exact ih rest' (fun t ht => hall t (List.mem_cons_of_mem _ ht)) hr t ht'

/-- the valued transactions of a day carry the day's date -/
theorem valuedDay_dates {cfg : Cfg} {v : Commodity} {st st' : BalState} {d : Day} {txs : List Transaction}
    (hv : cfg.valuation = some v) (hd : ∀ t ∈ d.transactions, t.date = d.date)
    (h : valuedDay cfg st d = .ok (st', txs)) : ∀ t ∈ txs, t.date = d.date := by
  obtain ⟨s1, adj, _, e2, e3, _⟩ := valuedDay_some hv h
  apply mapM_valueTx_dates d.date _ _ _ e3
  intro t ht
  rcases List.mem_append.mp ht with ht | ht
  · exact hd t ht
  · exact adjustments_dates e2 t ht

/-! ### the two pipelines in lockstep -/

/-- the part of the state that `check`, `ComputePrices` and `Valuate` own is the same -/
structure SameSt (p s : BalState) : Prop where
  chk : s.chk = p.chk
  graph : s.graph = p.graph
  norm : s.norm = p.norm
  vPrev : s.vPrev = p.vPrev
  vQty : s.vQty = p.vQty

/-- `ComputePrices, check, Valuate` (portfolio) and `check, ComputePrices, Valuate` (balance) on one day, from states
that agree: the same valued transactions, states that agree; the balance's closing/report state is not touched -/
theorem stages_lockstep {cfg : Cfg} {b : BalCfg} {v : Commodity} (hm : Matches cfg b v) {pb pb' st : BalState} {d : Day}
    {txs : List Transaction} (hs : SameSt pb st) (hv : valuedDay cfg pb d = .ok (pb', txs)) :
    ∃ c1 st1, Balance.checkStage st d = .ok c1 ∧ Balance.valuationStage b c1 d = .ok (st1, txs) ∧ SameSt pb' st1 ∧
      st1.cQty = st.cQty ∧ st1.cVal = st.cVal ∧ st1.entries = st.entries := by
  obtain ⟨e1, e2, e3, e4, e5⟩ := hs
  obtain ⟨chk, graph, norm, vPrev, vQty, cQty, cVal, entries⟩ := st
  obtain ⟨chk', graph', norm', vPrev', vQty', cQty', cVal', entries'⟩ := pb
  simp only at e1 e2 e3 e4 e5
  subst e1; subst e2; subst e3; subst e4; subst e5
  unfold valuedDay at hv
  rw [hm.val] at hv
  simp only [bind, Except.bind] at hv
  cases hp : Balance.pricesDay v ⟨chk, graph, norm, vPrev, vQty, cQty', cVal', entries'⟩ d with
  | error e => rw [hp] at hv; cases hv
  | ok p1 =>
    rw [hp] at hv; simp only at hv
    cases hc : Balance.checkStage p1 d with
    | error e => rw [hc] at hv; cases hv
    | ok p2 =>
      rw [hc] at hv; simp only at hv
      unfold Balance.pricesDay at hp
      simp only [bind, Except.bind] at hp
      split at hp
      · cases hp
      · rename_i g hg
        injection hp with hp; subst hp
        unfold Balance.checkStage at hc
        simp only at hc
        split at hc
        · rename_i ck hck
          injection hc with hc; subst hc
          unfold Balance.valuateDay at hv
          simp only [bind, Except.bind] at hv
          split at hv
          · cases hv
          · rename_i adj hadj
            split at hv
            · cases hv
            · rename_i txsv hmap
              injection hv with hv; injection hv with h1 h2; subst h1; subst h2
              refine ⟨⟨ck, graph, norm, vPrev, vQty, cQty, cVal, entries⟩,
                ⟨ck, g, if d.prices.isEmpty then norm else some (Prices.normalize g v),
                  if d.prices.isEmpty then norm else some (Prices.normalize g v),
                  Balance.addQty vQty (d.transactions ++ adj), cQty, cVal, entries⟩, ?_, ?_, ?_, rfl, rfl, rfl⟩
              · unfold Balance.checkStage
                simp only [hck]
              · unfold Balance.valuationStage
                rw [hm.bval]
                simp only [bind, Except.bind]
                unfold Balance.pricesDay
                simp only [bind, Except.bind, hg]
                unfold Balance.valuateDay
                simp only [bind, Except.bind, hadj, hmap]
              · exact ⟨rfl, rfl, rfl, rfl, rfl⟩
        · cases hc

theorem sameSt_accumulate {p s : BalState} (h : SameSt p s) (ts : List Transaction) :
    SameSt p (Balance.accumulate s ts) :=
  accumulate_inv (fun x => SameSt p x) (fun _ _ hx _ => ⟨hx.chk, hx.graph, hx.norm, hx.vPrev, hx.vQty⟩) s ts h

theorem entries_accumulate (s : BalState) (ts : List Transaction) : (Balance.accumulate s ts).entries = s.entries :=
  accumulate_inv (fun x => x.entries = s.entries) (fun _ _ hx _ => hx) s ts rfl

/-- **one day of `knut balance -v`** next to one day of the portfolio pipeline: the report grows by inserts whose
asset/liability total for `c` up to `D` is what `ComputeValues` adds for `c` — if the day's column is not after `D` and
the day lies inside the balance's window (`Filter`), nothing otherwise -/
theorem balance_day {cfg : Cfg} {b : BalCfg} {v : Commodity} (hm : Matches cfg b v) {pb pb' st : BalState} {d : Day}
    {txs : List Transaction} (hs : SameSt pb st) (hinv : CloseInv st) (hd : ∀ t ∈ d.transactions, t.date = d.date)
    (hv : valuedDay cfg pb d = .ok (pb', txs)) :
    ∃ st' E, Balance.day b st d = .ok st' ∧ SameSt pb' st' ∧ CloseInv st' ∧ st'.entries = st.entries ++ E ∧
      ∀ c D, balanceValue E c D =
        if (dateOK (alignIn b.periods d.date) D && b.span.contains d.date) = true then alVal cfg c txs else 0 := by
  obtain ⟨c1, st1, k1, k2, k3, k4, k5, k6⟩ := stages_lockstep hm hs hv
  have hdates := valuedDay_dates hm.val hd hv
  have hinv1 : CloseInv st1 := by unfold CloseInv; rw [k4]; exact hinv
  unfold Balance.day Balance.dayTxs
  simp only [bind, Except.bind, k1, k2]
  generalize hcs : Balance.closeStage b st1 d (Balance.filterStage b d txs) = r
  obtain ⟨st2, txs2⟩ := r
  simp only
  have hF : ∀ c D, balanceValue ((Balance.filterStage b d txs).flatMap (Balance.queryTx b)) c D =
      if (dateOK (alignIn b.periods d.date) D && b.span.contains d.date) = true then alVal cfg c txs else 0 := by
    intro c D
    unfold Balance.filterStage
    cases hsp : b.span.contains d.date with
    | true =>
      simp only [if_true, Bool.and_true]
      exact bv_flatMap hm c D d.date txs hdates
    | false =>
      simp [balanceValue]
  have key : SameSt pb' st2 ∧ CloseInv st2 ∧ st2.entries = st.entries ∧
      ∀ c D, balanceValue (txs2.flatMap (Balance.queryTx b)) c D =
        if (dateOK (alignIn b.periods d.date) D && b.span.contains d.date) = true then alVal cfg c txs else 0 := by
    unfold Balance.closeStage at hcs
    split at hcs
    · injection hcs with h1 h2; subst h1; subst h2
      refine ⟨sameSt_accumulate k3 _, accumulate_closeInv _ _ hinv1, by rw [entries_accumulate, k6], ?_⟩
      intro c D
      rw [List.flatMap_append, balanceValue_append, hF]
      have hcl : balanceValue ((if (b.periods.map (·.start)).contains d.date = true
          then Balance.closings d.date st1.cQty st1.cVal else []).flatMap (Balance.queryTx b)) c D = 0 := by
        split
        · obtain ⟨z1, z2⟩ := closings_facts cfg c d.date st1.cQty st1.cVal hinv1
          rw [bv_flatMap hm c D d.date _ z2, z1]
          split <;> rfl
        · simp [balanceValue]
      rw [hcl, Rat.add_zero]
    · injection hcs with h1 h2; subst h1; subst h2
      exact ⟨k3, hinv1, k6, hF⟩
  obtain ⟨q1, q2, q3, q4⟩ := key
  refine ⟨{ st2 with entries := st2.entries ++ txs2.flatMap (Balance.queryTx b) }, txs2.flatMap (Balance.queryTx b),
    rfl, ⟨q1.chk, q1.graph, q1.norm, q1.vPrev, q1.vQty⟩, q2, by simp only; rw [q3], q4⟩

/-! ### the fold over the days -/

/-- what a day adds to the value of commodity `c` -/
def gain (c : Commodity) (p : DayPerf) : Rat := p.v1.get c 0 - p.v0.get c 0

/-- a day on which nothing is booked and nothing is held yet yields no valued transaction -/
theorem valuedDay_idle {cfg : Cfg} {v : Commodity} {pb pb' : BalState} {d : Day} {txs : List Transaction}
    (hv : cfg.valuation = some v) (hq : pb.vQty = []) (ht : d.transactions = [])
    (h : valuedDay cfg pb d = .ok (pb', txs)) : txs = [] ∧ pb'.vQty = [] := by
  obtain ⟨s1, adj, _, e2, e3, e4, _⟩ := valuedDay_some hv h
  have hadj : adj = [] := by
    rw [hq] at e2
    unfold Balance.adjustments at e2
    simp only [List.foldlM_nil, pure, Except.pure] at e2
    injection e2 with e2; exact e2.symm
  subst hadj
  rw [ht] at e3 e4
  simp only [List.append_nil, List.mapM_nil, pure, Except.pure] at e3
  injection e3 with e3
  refine ⟨e3.symm, ?_⟩
  rw [e4, hq]
  rfl

theorem perfDay_parts {cfg : Cfg} {ps ps' : PState} {d : Day} {p : DayPerf} (h : perfDay cfg ps d = .ok (ps', p)) :
    ∃ txs, valuedDay cfg ps.bal d = .ok (ps'.bal, txs) ∧ ps'.values = valuesDay cfg ps.values txs ∧
      ps'.prev = ps'.values ∧ p.date = d.date ∧ p.v0 = ps.prev ∧ p.v1 = ps'.values := by
  unfold perfDay at h
  simp only [bind, Except.bind] at h
  cases hvd : valuedDay cfg ps.bal d with
  | error e => rw [hvd] at h; cases h
  | ok r =>
    obtain ⟨bal, txs⟩ := r
    rw [hvd] at h; simp only at h
    injection h with h; injection h with h1 h2; subst h1; subst h2
    exact ⟨txs, rfl, rfl, rfl, rfl, rfl, rfl⟩

/-- **the run**: `knut balance -v` over the same days accepts what the portfolio pipeline accepts, and its report grows,
for commodity `c` on asset/liability accounts in the columns up to `D`, by what the days up to `D` add to the value of
`c` — provided every day up to `D` lies inside the balance's window or nothing has been booked up to it -/
theorem balance_run {cfg : Cfg} {b : BalCfg} {v : Commodity} (hm : Matches cfg b v) (c : Commodity) (D : Int)
    (hal : ∀ x, dateOK (alignIn b.periods x) D = decide (x ≤ D)) :
    ∀ (days : List Day) (ps : PState) (st : BalState) (perfs : List DayPerf),
      SameSt ps.bal st → CloseInv st → ps.prev = ps.values →
      (∀ d ∈ days, ∀ t ∈ d.transactions, t.date = d.date) →
      (∀ pre d post, days = pre ++ d :: post → d.date ≤ D →
        b.span.contains d.date = true ∨ (st.vQty = [] ∧ ∀ x ∈ pre ++ [d], x.transactions = [])) →
      perfFrom cfg ps days = .ok perfs →
      ∃ stF, days.foldlM (Balance.day b) st = .ok stF ∧
        balanceValue stF.entries c D = balanceValue st.entries c D +
          ((perfs.filter (fun p => decide (p.date ≤ D))).map (gain c)).sum := by
  intro days
  induction days with
  | nil =>
    intro ps st perfs _ _ _ _ _ h
    simp only [perfFrom] at h; injection h with h; subst h
    exact ⟨st, rfl, by simp [Rat.add_zero]⟩
  | cons d rest ih =>
    intro ps st perfs hs hinv hprev hdates hwin h
    simp only [perfFrom, bind, Except.bind] at h
    cases hd0 : perfDay cfg ps d with
    | error e => rw [hd0] at h; cases h
    | ok r =>
      obtain ⟨ps1, p⟩ := r
      rw [hd0] at h; simp only at h
      cases hrr : perfFrom cfg ps1 rest with
      | error e => rw [hrr] at h; cases h
      | ok perfs' =>
        rw [hrr] at h; simp only at h
        injection h with h; subst h
        obtain ⟨txs, hv, hvals, hprev1, hpd, hp0, hp1⟩ := perfDay_parts hd0
        obtain ⟨st', E, hday, hs', hinv', hent, hE⟩ := balance_day hm hs hinv (hdates d List.mem_cons_self) hv
        -- the gain of the day
        have hgain : gain c p = alVal cfg c txs := by
          unfold gain alVal
          rw [hp0, hp1, hvals, valuesDay_get, hprev]
          grind
        -- the window hypothesis for the remaining days
        have hwin' : ∀ pre d' post, rest = pre ++ d' :: post → d'.date ≤ D →
            b.span.contains d'.date = true ∨ (st'.vQty = [] ∧ ∀ x ∈ pre ++ [d'], x.transactions = []) := by
          intro pre d' post hsplit hle
          rcases hwin (d :: pre) d' post (by rw [hsplit]; rfl) hle with hin | ⟨hq, hno⟩
          · exact Or.inl hin
          · right
            have hq' : ps.bal.vQty = [] := by rw [← hs.vQty]; exact hq
            have hidle := valuedDay_idle hm.val hq' (hno d (by simp)) hv
            refine ⟨by rw [hs'.vQty]; exact hidle.2, ?_⟩
            intro x hx
            exact hno x (by simp only [List.cons_append, List.mem_cons]; exact Or.inr hx)
        obtain ⟨stF, hfold, hsum⟩ := ih ps1 st' perfs' hs' hinv' hprev1
          (fun d' hd' => hdates d' (List.mem_cons_of_mem _ hd')) hwin' hrr
        refine ⟨stF, by rw [List.foldlM_cons, hday]; exact hfold, ?_⟩
        rw [hsum, hent, balanceValue_append, hE, hal, List.filter_cons, hpd]
        by_cases hle : d.date ≤ D
        · simp only [hle, decide_true, Bool.true_and, if_true, List.map_cons, List.sum_cons, hgain]
          rcases hwin [] d rest rfl hle with hin | ⟨hq, hno⟩
          · simp only [hin, if_true]; grind
          · have hq' : ps.bal.vQty = [] := by rw [← hs.vQty]; exact hq
            have hidle := valuedDay_idle hm.val hq' (hno d (by simp)) hv
            rw [hidle.1, alVal_nil]
            split <;> grind
        · simp only [hle, decide_false, Bool.false_and, Bool.false_eq_true, if_false, Rat.add_zero]

theorem gain_telescopes (c : Commodity) : ∀ (L : List DayPerf) (prev : AMap Commodity Rat), Linked prev L →
    (L.map (gain c)).sum = (lastV1 prev L).get c 0 - prev.get c 0 := by
  intro L
  induction L with
  | nil => intro prev _; simp [lastV1]; grind
  | cons p rest ih =>
    intro prev hl
    obtain ⟨h0, h1⟩ := hl
    simp only [List.map_cons, List.sum_cons, lastV1, ih p.v1 h1, gain, h0]
    grind

/-- the value at the end of day `D` is the sum of the gains of the days up to `D` -/
theorem valueAt_eq_gains (perfs : List DayPerf) (hl : Linked [] perfs) (hs : DSorted perfs) (c : Commodity) (D : Int) :
    (valueAt perfs D).get c 0 = ((perfs.filter (fun p => decide (p.date ≤ D))).map (gain c)).sum := by
  have h1 := split_lt perfs hs (D + 1)
  have e1 : perfs.filter (fun p => decide (p.date < D + 1)) = perfs.filter (fun p => decide (p.date ≤ D)) := by
    apply List.filter_congr
    intro p _
    by_cases a : p.date ≤ D <;> simp [a] <;> omega
  rw [e1] at h1
  rw [h1] at hl
  have hlA := (linked_append _ _ [] hl).1
  rw [gain_telescopes c _ [] hlA]
  unfold valueAt
  have : AMap.get ([] : AMap Commodity Rat) c 0 = 0 := rfl
  rw [this]
  grind

/-! ### the column dates of the balance report -/

theorem dateOK_align_false (D x : Int) : ∀ (ps : List Period), (∀ r ∈ ps, D < r.stop) →
    dateOK (alignIn ps x) D = false := by
  intro ps h
  unfold alignIn
  cases hf : ps.find? (fun p => !decide (p.stop < x)) with
  | none => rfl
  | some r =>
    have := h r (List.mem_of_find?_eq_some hf)
    simp only [Option.map_some, dateOK, decide_eq_false_iff_not]
    omega

/-- **Align and the columns**: if the period ends increase and `D` is one of them, a transaction dated `x` lands in a
column up to `D` exactly when `x ≤ D` -/
theorem dateOK_align (D x : Int) : ∀ (ps : List Period), List.Pairwise (· < ·) (ps.map (·.stop)) →
    D ∈ ps.map (·.stop) → dateOK (alignIn ps x) D = decide (x ≤ D) := by
  intro ps
  induction ps with
  | nil => intro _ hD; cases hD
  | cons q rest ih =>
    intro hp hD
    simp only [List.map_cons, List.pairwise_cons] at hp
    obtain ⟨hq, hrest⟩ := hp
    have hqD : q.stop ≤ D := by
      simp only [List.map_cons, List.mem_cons] at hD
      rcases hD with rfl | hD
      · exact Int.le_refl _
      · have := hq D hD; omega
    by_cases hx : q.stop < x
    · have e : alignIn (q :: rest) x = alignIn rest x := by
        unfold alignIn
        rw [List.find?_cons]
        simp [hx]
      rw [e]
      simp only [List.map_cons, List.mem_cons] at hD
      rcases hD with rfl | hD
      · rw [dateOK_align_false q.stop x rest (fun r hr => hq r.stop (List.mem_map.mpr ⟨r, hr, rfl⟩))]
        simp; omega
      · exact ih hrest hD
    · have e : alignIn (q :: rest) x = some q.stop := by
        unfold alignIn
        rw [List.find?_cons]
        simp [hx]
      rw [e]
      simp only [dateOK]
      have : x ≤ D := by omega
      simp [hqD, this]

/-! ### the values a run records have distinct keys -/

theorem perfFrom_v1_nodup {cfg : Cfg} : ∀ (rest pre : List Day) (ps : PState) (perfs : List DayPerf),
    Reach cfg pre ps → perfFrom cfg ps rest = .ok perfs → ∀ p ∈ perfs, AMap.NodupKeys p.v1 := by
  intro rest
  induction rest with
  | nil => intro pre ps perfs _ h; simp only [perfFrom] at h; injection h with h; subst h; intro p hp; cases hp
  | cons d rest ih =>
    intro pre ps perfs hr h
    simp only [perfFrom, bind, Except.bind] at h
    cases hd0 : perfDay cfg ps d with
    | error e => rw [hd0] at h; cases h
    | ok r =>
      obtain ⟨ps1, p0⟩ := r
      rw [hd0] at h; simp only at h
      cases hrr : perfFrom cfg ps1 rest with
      | error e => rw [hrr] at h; cases h
      | ok perfs' =>
        rw [hrr] at h; simp only at h
        injection h with h; subst h
        have hr1 := perfDay_reach hr hd0
        intro p hp
        rcases List.mem_cons.mp hp with rfl | hp
        · obtain ⟨_, _, _, _, _, _, hp1⟩ := perfDay_parts hd0
          rw [hp1]; exact hr1.nodup_values
        · exact ih _ ps1 perfs' hr1 hrr p hp

theorem get_of_mem_nodup {m : AMap Commodity Rat} (hn : AMap.NodupKeys m) {e : Commodity × Rat} (he : e ∈ m) :
    m.get e.1 0 = e.2 := by
  unfold AMap.get
  rw [AMap.find?_of_mem hn (k := e.1) (v := e.2) he]
  rfl

end Knut.Performance
