import Knut.Proofs.PipelineProgress
import Knut.Proofs.PipelineTrace
/-!
# Every run of the `cpr.Seq` transition system is logged as a trace the relaxed acceptor accepts
-/
namespace Knut.Pipeline

variable {σ α ε : Type}

def doneBit (s : St σ α ε) (k : Nat) : Nat :=
  match s.slot k with
  | some (_, true) => 1
  | _ => 0

/-- the acceptor state that corresponds to a state of the transition system -/
def accOf (S : Sys σ α ε) (s : St σ α ε) : Acc :=
  { begun := fun k => if 1 ≤ k ∧ k ≤ S.n then (s.hist k).length + occ s k else 0,
    ended := fun k => if 1 ≤ k ∧ k ≤ S.n then (s.hist k).length + doneBit s k else 0,
    dead := fun k => (s.err k).isSome,
    sunk := s.out.length }

theorem accOf_initial (S : Sys σ α ε) : accOf S (St.initial S) = Acc.initial := by
  simp only [accOf, Acc.initial, St.initial, occ, doneBit]
  congr 1 <;> funext k <;> simp

theorem Acc.ext' {a b : Acc} (h1 : ∀ k, a.begun k = b.begun k) (h2 : ∀ k, a.ended k = b.ended k)
    (h3 : ∀ k, a.dead k = b.dead k) (h4 : a.sunk = b.sunk) : a = b := by
  cases a; cases b
  simp only [Acc.mk.injEq]
  exact ⟨funext h1, funext h2, funext h3, h4⟩

theorem err_none_of_slot_none {S : Sys σ α ε} {s : St σ α ε} (hi : Inv S s) {k : Nat} (h : s.slot k = none) : s.err k = none := by
  cases he : s.err k with
  | none => rfl
  | some e =>
    obtain ⟨_, _, a, hs, _⟩ := hi.err_ok k e he
    rw [h] at hs; cases hs

theorem sim_step {S : Sys σ α ε} {s s' : St σ α ε} {l : Label} (hi : Inv S s) (h : step? S s l = some s') :
    match l.event with
    | some e => accStep S.n S.items.length (accOf S s) e = some (accOf S s')
    | none => accOf S s' = accOf S s := by
  cases l with
  | cancel k =>
    obtain ⟨e, _, _, rfl⟩ := step_cancel h
    simp only [Label.event]
    rfl
  | feed =>
    obtain ⟨a, hc, hn, hs1, ha, rfl⟩ := step_feed h
    have hlt := lt_of_get ha
    have hch0 := hi.chain 0 hn
    simp only [emitted_succ, emitted_zero, occ, hs1, List.length_take] at hch0
    have hh1 : (s.hist 1).length = s.fed := by simp at hch0; have := hi.fed_le; omega
    have he1 := err_none_of_slot_none hi hs1
    have hn1 : 1 ≤ S.n := hn
    simp only [Label.event, accStep]
    have hg : 1 ≤ 1 ∧ 1 ≤ S.n ∧ (accOf S s).dead 1 = false ∧ (accOf S s).begun 1 = (accOf S s).ended 1 ∧
        (accOf S s).begun 1 < upstream S.items.length (accOf S s) 1 := by
      simp [accOf, upstream, occ, doneBit, hs1, he1, hh1, hn1]; omega
    rw [if_pos hg]
    congr 1
    apply Acc.ext'
    · intro k
      by_cases hk : k = 1
      · subst hk; simp [accOf, occ, hs1, hn1]
      · simp [accOf, occ, upd_other _ _ hk]
    · intro k
      by_cases hk : k = 1
      · subst hk; simp [accOf, doneBit, hs1]
      · simp [accOf, doneBit, upd_other _ _ hk]
    · intro k; rfl
    · rfl
  | direct =>
    obtain ⟨a, hc, hn, ha, rfl⟩ := step_direct h
    have hlt := lt_of_get ha
    have hout := hi.out_eq
    simp only [hn, emitted_zero] at hout
    have hlen : s.out.length = s.fed := by rw [hout]; simp; exact Nat.min_eq_left hi.fed_le
    simp only [Label.event, accStep]
    have hg : (accOf S s).sunk < sinkLimit S.n S.items.length (accOf S s) := by
      simp [accOf, sinkLimit, hn, hlen]; exact hlt
    rw [if_pos hg]
    congr 1
    apply Acc.ext'
    · intro k; rfl
    · intro k; rfl
    · intro k; rfl
    · simp [accOf]
  | work k =>
    obtain ⟨a, t, a', hk1, hkn, hek, hsk, hf, rfl⟩ := step_work h
    simp only [Label.event, accStep]
    have hg : 1 ≤ k ∧ k ≤ S.n ∧ (accOf S s).dead k = false ∧ (accOf S s).begun k = (accOf S s).ended k + 1 := by
      simp [accOf, occ, doneBit, hsk, hek, hk1, hkn]
    rw [if_pos hg]
    congr 1
    apply Acc.ext'
    · intro j
      by_cases hj : j = k
      · subst hj; simp [accOf, occ, hsk]
      · simp [accOf, occ, upd_other _ _ hj]
    · intro j
      by_cases hj : j = k
      · subst hj; simp [accOf, doneBit, hsk, hk1, hkn]
      · simp [accOf, doneBit, upd_other _ _ hj]
    · intro j; rfl
    · rfl
  | fail k =>
    obtain ⟨a, e, hk1, hkn, hek, hsk, hf, rfl⟩ := step_fail h
    simp only [Label.event, accStep]
    have hg : 1 ≤ k ∧ k ≤ S.n ∧ (accOf S s).dead k = false ∧ (accOf S s).begun k = (accOf S s).ended k + 1 := by
      simp [accOf, occ, doneBit, hsk, hek, hk1, hkn]
    rw [if_pos hg]
    congr 1
    apply Acc.ext'
    · intro j; rfl
    · intro j; rfl
    · intro j
      by_cases hj : j = k
      · subst hj; simp [accOf]
      · simp [accOf, upd_other _ _ hj]
    · rfl
  | pass k =>
    obtain ⟨a, hc, hk1, hkn, hnext, hsk, rfl⟩ := step_pass h
    have hchk := hi.chain k hkn
    simp only [emitted_succ, emitted_pos S s hk1, occ, hnext] at hchk
    have hlen : (s.hist (k + 1)).length = (s.hist k).length := by simpa using hchk
    have hen := err_none_of_slot_none hi hnext
    simp only [Label.event, accStep]
    have hk10 : k + 1 ≠ 1 := by omega
    have hg : 1 ≤ k + 1 ∧ k + 1 ≤ S.n ∧ (accOf S s).dead (k + 1) = false ∧ (accOf S s).begun (k + 1) = (accOf S s).ended (k + 1) ∧
        (accOf S s).begun (k + 1) < upstream S.items.length (accOf S s) (k + 1) := by
      have h2 : k + 1 ≤ S.n := by omega
      have h3 : k ≤ S.n := by omega
      have hk0 : k ≠ 0 := by omega
      simp [accOf, upstream, occ, doneBit, hnext, hen, hsk, hlen, hk1, h2, h3, hk0]
    rw [if_pos hg]
    congr 1
    have hkk : k ≠ k + 1 := by omega
    have h2 : k + 1 ≤ S.n := by omega
    have h3 : k ≤ S.n := by omega
    apply Acc.ext'
    · intro j
      by_cases hj1 : j = k + 1
      · subst hj1; simp [accOf, occ, hnext, upd_other _ _ hkk.symm, h2]
      · by_cases hj : j = k
        · subst hj; simp [accOf, occ, hsk, upd_other _ _ hj1, hk1, h3]
        · simp [accOf, occ, upd_other _ _ hj1, upd_other _ _ hj]
    · intro j
      by_cases hj1 : j = k + 1
      · subst hj1; simp [accOf, doneBit, hnext, upd_other _ _ hkk.symm, h2]
      · by_cases hj : j = k
        · subst hj; simp [accOf, doneBit, hsk, upd_other _ _ hj1, hk1, h3]
        · simp [accOf, doneBit, upd_other _ _ hj1, upd_other _ _ hj]
    · intro j; rfl
    · rfl
  | sink =>
    obtain ⟨a, hc, hn, hsn, rfl⟩ := step_sink h
    have hn0 : S.n ≠ 0 := by omega
    have hn1 : 1 ≤ S.n := hn
    have hout := hi.out_eq
    rw [emitted_pos S s (by omega)] at hout
    simp only [Label.event, accStep]
    have hg : (accOf S s).sunk < sinkLimit S.n S.items.length (accOf S s) := by
      simp [accOf, sinkLimit, hn0, doneBit, hsn, hout, hn1]
    rw [if_pos hg]
    congr 1
    apply Acc.ext'
    · intro j
      by_cases hj : j = S.n
      · rw [hj]; simp [accOf, occ, hsn, hn1]
      · simp [accOf, occ, upd_other _ _ hj]
    · intro j
      by_cases hj : j = S.n
      · rw [hj]; simp [accOf, doneBit, hsn, hn1]
      · simp [accOf, doneBit, upd_other _ _ hj]
    · intro j; rfl
    · simp [accOf]

/-- the events a run is logged as -/
def traceOf (ls : List Label) : List Ev := ls.filterMap Label.event

theorem sim_run {S : Sys σ α ε} {s s' : St σ α ε} {ls : List Label} (h : Run S s ls s') (hi : Inv S s) :
    accRun S.n S.items.length (accOf S s) (traceOf ls) = some (accOf S s') := by
  induction h with
  | nil => simp [traceOf, accRun]
  | cons l hs _ ih =>
    have hstep := sim_step hi hs
    have ih' := ih (inv_step hi hs)
    simp only [traceOf, List.filterMap_cons] at ih' ⊢
    cases he : l.event with
    | none =>
      rw [he] at hstep
      simp only at hstep
      rw [hstep] at ih'
      simpa using ih'
    | some e =>
      rw [he] at hstep
      simp only at hstep
      simp only [accRun, hstep, Option.bind_some]
      exact ih'

end Knut.Pipeline
