import Knut.Proofs.PrintParseLex
/-!
# Single printed directives load back to themselves
-/
namespace Knut.FromSyntax
open Knut Knut.Syntax Knut.Utf8 Knut.Dec Knut.JournalPrinter
set_option linter.unusedVariables false

theorem strToks_lit (s : String) (h : ∀ c ∈ s.toList, c.toNat < 128) : strToks s = lits s := by
  unfold strToks charsToks lits
  apply List.map_congr_left
  intro c hc
  exact charTok_ascii c (h c hc)

/-- one rendered directive, alone in a file -/
theorem load_one (padding : Nat) (path : String) (v : DirT) (hok : v.ok) (hcan : v.canon) (it : Item)
    (hit : itemV v.bytes = some it) : loadText path (flat (renderT padding v)) = loadItems [it] := by
  have hs : ItemsShape [Syntax.Item.dir [] default v [] []] := by
    unfold ItemsShape
    exact ⟨hok, hcan, All.nil, Or.inl rfl, Valid.nil, Canon.nil, fun _ => rfl, by unfold ItemsShape; trivial⟩
  have := loadText_rendered padding path _ hs
  simp only [outToks, Item.out, List.append_nil, viewsOf, List.mapM_cons, List.mapM_nil, hit, Option.bind_eq_bind,
    Option.bind_some, Option.pure_def] at this
  exact this

/-- 0000-01-01 … 9999-12-31: the dates `time.Parse("2006-01-02")` accepts -/
def PrintableDate (z : Int) : Prop := minDate ≤ z ∧ z ≤ maxDate
instance (z : Int) : Decidable (PrintableDate z) := by unfold PrintableDate; exact inferInstance

/-- an amount `String()` prints exactly: a decimal rational -/
def PrintableQty (q : Rat) : Prop := q.den ∣ 10 ^ q.den
instance (q : Rat) : Decidable (PrintableQty q) := by unfold PrintableQty; exact inferInstance

def dateT (z : Int) : List Tok := charsToks (dateChars z)

theorem strToks_fmtDate (z : Int) : strToks (fmtDate z) = dateT z := by
  unfold strToks dateT; rw [fmtDate_toList]

theorem flat_dateT (z : Int) : flat (dateT z) = flat (charsToks (dateChars z)) := rfl

/-! ### open / close -/

theorem strBytes_eq_flat (s : String) : strBytes s = flat (strToks s) := (flat_strToks s).symm

theorem load_open (path : String) (o : Open) (hd : PrintableDate o.date) (ha : PrintableAccount o.account = true) :
    loadText path (strBytes (printOpen o)) = .ok [.opening o] := by
  have e : strToks (printOpen o) = renderT 0 (.open (dateT o.date) (strToks o.account.name)) := by
    simp only [printOpen, strToks_append, strToks_fmtDate, renderT]
    rw [strToks_lit " open " (by decide)]
  rw [strBytes_eq_flat, e]
  rw [load_one 0 path (.open (dateT o.date) (strToks o.account.name)) ⟨dateOK _ hd.1 hd.2, accountOK_name _ ha⟩
    ⟨canon_charsToks _, canon_charsToks _⟩ (.opening o)
    (by simp [itemV, DirT.bytes, accountV_name _ ha, dateT, parseDate_fmtDate _ hd.1 hd.2])]
  rfl

theorem load_close (path : String) (o : Close) (hd : PrintableDate o.date) (ha : PrintableAccount o.account = true) :
    loadText path (strBytes (printClose o)) = .ok [.closing o] := by
  have e : strToks (printClose o) = renderT 0 (.close (dateT o.date) (strToks o.account.name)) := by
    simp only [printClose, strToks_append, strToks_fmtDate, renderT]
    rw [strToks_lit " close " (by decide)]
  rw [strBytes_eq_flat, e]
  rw [load_one 0 path (.close (dateT o.date) (strToks o.account.name)) ⟨dateOK _ hd.1 hd.2, accountOK_name _ ha⟩
    ⟨canon_charsToks _, canon_charsToks _⟩ (.closing o)
    (by simp [itemV, DirT.bytes, accountV_name _ ha, dateT, parseDate_fmtDate _ hd.1 hd.2])]
  rfl

/-! ### price -/

theorem load_price (path : String) (p : Price) (hd : PrintableDate p.date) (hc : okName p.commodity = true)
    (hq : PrintableQty p.price) (ht : okName p.target = true) :
    loadText path (strBytes (printPrice p)) = .ok [.price p] := by
  have e : strToks (printPrice p) =
      renderT 0 (.price (dateT p.date) (strToks p.commodity) (strToks (showDec p.price)) (strToks p.target)) := by
    simp only [printPrice, strToks_append, strToks_fmtDate, renderT]
    rw [strToks_lit " price " (by decide), strToks_lit " " (by decide)]
    simp [lits, List.append_assoc]
  rw [strBytes_eq_flat, e]
  rw [load_one 0 path (.price (dateT p.date) (strToks p.commodity) (strToks (showDec p.price)) (strToks p.target))
    ⟨dateOK _ hd.1 hd.2, commodityOK_of_okName hc, decimalOK_showDec _, commodityOK_of_okName ht⟩
    ⟨canon_charsToks _, canon_charsToks _, canon_charsToks _, canon_charsToks _⟩ (.price p)
    (by simp [itemV, DirT.bytes, dateT, parseDate_fmtDate _ hd.1 hd.2, utf8_str, decimalV_showDec _ _ hq])]
  rfl

/-- one rendered directive followed by a line break -/
theorem load_one_nl (padding : Nat) (path : String) (v : DirT) (hok : v.ok) (hcan : v.canon) (it : Item)
    (hit : itemV v.bytes = some it) : loadText path (flat (renderT padding v ++ [tk 10])) = loadItems [it] := by
  have hs : ItemsShape [Syntax.Item.dir [] default v [] [tk 10]] := by
    unfold ItemsShape
    exact ⟨hok, hcan, All.nil, Or.inr ⟨tk 10, rfl, rfl⟩, Valid.cons (tk_valid (by decide)) Valid.nil,
      Canon.cons c10 Canon.nil, (fun h => by cases h), (by unfold ItemsShape; trivial)⟩
  have := loadText_rendered padding path _ hs
  simp only [outToks, Item.out, List.append_nil, List.nil_append, viewsOf, List.mapM_cons, List.mapM_nil, hit,
    Option.bind_eq_bind, Option.bind_some, Option.pure_def] at this
  exact this

/-! ### balance assertions -/

def PrintableBalance (b : Balance) : Prop :=
  PrintableAccount b.account = true ∧ PrintableQty b.quantity ∧ okName b.commodity = true

def balanceT (b : Balance) : BalanceT := ⟨strToks b.account.name, strToks (showDec b.quantity), strToks b.commodity⟩

theorem balanceT_ok (b : Balance) (h : PrintableBalance b) : (balanceT b).ok ∧ (balanceT b).canon :=
  ⟨⟨accountOK_name _ h.1, decimalOK_showDec _, commodityOK_of_okName h.2.2⟩,
   ⟨canon_charsToks _, canon_charsToks _, canon_charsToks _⟩⟩

theorem balanceV_balanceT (b : Balance) (h : PrintableBalance b) : balanceV (balanceT b).bytes = some b := by
  simp [balanceV, balanceT, BalanceT.bytes, accountV_name _ h.1, decimalV_showDec _ _ h.2.1, utf8_str]

theorem mapM_balanceV (bs : List Balance) (h : ∀ b ∈ bs, PrintableBalance b) :
    (bs.map (fun b => (balanceT b).bytes)).mapM balanceV = some bs := by
  induction bs with
  | nil => rfl
  | cons b rest ih =>
    simp [List.mapM_cons, balanceV_balanceT b (h b List.mem_cons_self), ih (fun x hx => h x (List.mem_cons_of_mem _ hx))]

theorem strToks_balanceLine (b : Balance) :
    strToks (b.account.name ++ " " ++ showDec b.quantity ++ " " ++ b.commodity) = renderBalanceT (balanceT b) := by
  simp only [strToks_append, renderBalanceT, balanceT]
  rw [strToks_lit " " (by decide)]
  simp [lits, List.append_assoc]

theorem strToks_join_balances (bs : List Balance) :
    strToks (String.join (bs.map (fun b => "\n" ++ b.account.name ++ " " ++ showDec b.quantity ++ " " ++ b.commodity)) ++ "\n") =
      tk 10 :: renderBalancesT (bs.map balanceT) := by
  induction bs with
  | nil =>
    simp only [List.map_nil, renderBalancesT]
    have : String.join [] ++ "\n" = "\n" := by decide
    rw [this, strToks_lit "\n" (by decide)]; rfl
  | cons b rest ih =>
    have ej : String.join ((b :: rest).map (fun b => "\n" ++ b.account.name ++ " " ++ showDec b.quantity ++ " " ++ b.commodity)) =
        ("\n" ++ b.account.name ++ " " ++ showDec b.quantity ++ " " ++ b.commodity) ++
          String.join (rest.map (fun b => "\n" ++ b.account.name ++ " " ++ showDec b.quantity ++ " " ++ b.commodity)) := by
      apply String.ext
      simp [String.toList_join, String.toList_append]
    rw [ej, String.append_assoc, strToks_append, ih]
    have e2 : strToks ("\n" ++ b.account.name ++ " " ++ showDec b.quantity ++ " " ++ b.commodity) =
        tk 10 :: renderBalanceT (balanceT b) := by
      have : "\n" ++ b.account.name ++ " " ++ showDec b.quantity ++ " " ++ b.commodity =
          "\n" ++ (b.account.name ++ " " ++ showDec b.quantity ++ " " ++ b.commodity) := by
        simp [String.append_assoc]
      rw [this, strToks_append, strToks_balanceLine, strToks_lit "\n" (by decide)]; rfl
    rw [e2]
    simp [renderBalancesT]

def PrintableAssertion (a : Assertion) : Prop :=
  PrintableDate a.date ∧ a.balances ≠ [] ∧ ∀ b ∈ a.balances, PrintableBalance b

/-- an assertion as `printAssertions` writes it (with its final line break) -/
theorem load_assertion (path : String) (a : Assertion) (h : PrintableAssertion a) :
    loadText path (strBytes (printAssertions [a])) = .ok [.assertion a] := by
  obtain ⟨hd, hne, hb⟩ := h
  have hv : (DirT.assertion (dateT a.date) (a.balances.map balanceT)).ok ∧
      (DirT.assertion (dateT a.date) (a.balances.map balanceT)).canon := by
    refine ⟨⟨dateOK _ hd.1 hd.2, by simpa using hne, ?_⟩, ⟨canon_charsToks _, ?_⟩⟩
    · intro x hx
      simp only [List.mem_map] at hx
      obtain ⟨b, hbm, rfl⟩ := hx
      exact (balanceT_ok b (hb b hbm)).1
    · intro x hx
      simp only [List.mem_map] at hx
      obtain ⟨b, hbm, rfl⟩ := hx
      exact (balanceT_ok b (hb b hbm)).2
  have hit : itemV (DirT.assertion (dateT a.date) (a.balances.map balanceT)).bytes = some (.assertion a) := by
    simp only [itemV, DirT.bytes, dateT, parseDate_fmtDate _ hd.1 hd.2, Option.bind_eq_bind, Option.bind_some, List.map_map]
    have := mapM_balanceV a.balances hb
    simp only [Function.comp_def] at this ⊢
    rw [this]
    rfl
  rw [strBytes_eq_flat]
  simp only [printAssertions, printAssertion]
  match hbs : a.balances, hne with
  | [b], _ =>
    have e : strToks (fmtDate a.date ++ " balance" ++ (" " ++ b.account.name ++ " " ++ showDec b.quantity ++ " " ++ b.commodity) ++ "\n") =
        renderT 0 (.assertion (dateT a.date) [balanceT b]) ++ [tk 10] := by
      have : " " ++ b.account.name ++ " " ++ showDec b.quantity ++ " " ++ b.commodity =
          " " ++ (b.account.name ++ " " ++ showDec b.quantity ++ " " ++ b.commodity) := by simp [String.append_assoc]
      rw [this]
      simp only [strToks_append, strToks_fmtDate, strToks_balanceLine, renderT]
      rw [strToks_lit " balance" (by decide), strToks_lit " " (by decide), strToks_lit "\n" (by decide)]
      have l1 : lits " balance " = lits " balance" ++ lits " " := by decide
      rw [l1]
      simp [lits, List.append_assoc, renderBalanceT, balanceT]
    rw [e]
    rw [hbs] at hv hit
    simp only [List.map_cons, List.map_nil] at hv hit
    rw [load_one_nl 0 path _ hv.1 hv.2 _ hit]
    rfl
  | b1 :: b2 :: rest, _ =>
    have e : strToks (fmtDate a.date ++ " balance" ++
        String.join ((b1 :: b2 :: rest).map (fun b => "\n" ++ b.account.name ++ " " ++ showDec b.quantity ++ " " ++ b.commodity)) ++ "\n") =
        renderT 0 (.assertion (dateT a.date) ((b1 :: b2 :: rest).map balanceT)) := by
      rw [String.append_assoc, strToks_append, strToks_join_balances, strToks_append, strToks_fmtDate,
        strToks_lit " balance" (by decide)]
      simp [renderT]
    rw [e]
    rw [hbs] at hv hit
    rw [load_one 0 path _ hv.1 hv.2 _ hit]
    rfl

end Knut.FromSyntax
