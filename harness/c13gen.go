package main

import (
	"fmt"
	"sort"
	"strings"
	"unicode"
	"unicode/utf8"

	"github.com/shopspring/decimal"
)

// ---------------------------------------------------------------- C13: statement generators
//
// A generated statement is: the importer, its flag vector, the file bytes, and the generator's OWN reading of the
// statement (c13Item: booking rows with date and signed amounts on the import account, carried balances, carried prices).
// That reading is the independent oracle of the fidelity monitors.

type c13Eff struct {
	Com string
	Qty decimal.Decimal
}

type c13Item struct {
	Kind   byte // 'b' booking row, 'a' carried balance, 'p' carried price
	Day    int
	Effs   []c13Eff        // b
	Qty    decimal.Decimal // a, p
	Com    string          // a, p
	Target string          // p
}

func (it c13Item) Wire() string {
	switch it.Kind {
	case 'b':
		if len(it.Effs) == 0 {
			return fmt.Sprintf("b~%d~-", it.Day)
		}
		parts := make([]string, len(it.Effs))
		for i, e := range it.Effs {
			parts[i] = e.Com + "=" + e.Qty.String()
		}
		return fmt.Sprintf("b~%d~%s", it.Day, strings.Join(parts, ","))
	case 'a':
		return fmt.Sprintf("a~%d~%s~%s", it.Day, it.Qty.String(), it.Com)
	}
	return fmt.Sprintf("p~%d~%s~%s~%s", it.Day, it.Com, it.Qty.String(), it.Target)
}

func c13ItemsWire(items []c13Item) string {
	if len(items) == 0 {
		return "-"
	}
	parts := make([]string, len(items))
	for i, it := range items {
		parts[i] = it.Wire()
	}
	return strings.Join(parts, "|")
}

type c13Dialect struct {
	Comma  rune
	Trim   bool // TrimLeadingSpace
	Lazy   bool // LazyQuotes
	Latin1 bool // file is ISO 8859-1
	BOM    bool // a UTF-8 byte order mark is skipped
	JSON   bool
}

type c13Stmt struct {
	Imp      string
	Flags    []string // flag values in the order of the model (first = import account / commodity)
	Args     []string // command line flags
	File     []byte
	Items    []c13Item // the generator's reading (oracle)
	Strict   []c13Item // reading without the importer's documented netting/rounding (nil = same as Items)
	Alt      []c13Item // what the importer is known to book instead of Items (a recorded finding), nil = none
	AltKey   string    // key of that finding
	Accounts []string  // every account the output may use
	Tags     []string
	Rows     int
	OneTx    bool // every booking row is expected to give exactly one transaction
	Checked  bool // balances are consistent from a zero opening balance: `knut print` must accept the output
}

var c13Dialects = map[string]c13Dialect{
	"ch.swisscard2":         {Comma: ',', Trim: true},
	"ch.swisscard":          {Comma: ',', Trim: true},
	"ch.supercard":          {Comma: ';', Trim: true, Latin1: true},
	"ch.cumulus":            {Comma: ',', Lazy: true},
	"ch.postfinance":        {Comma: ';', Trim: true, Lazy: true, BOM: true},
	"revolut2":              {Comma: ',', Trim: true},
	"revolut":               {Comma: ';', Trim: true},
	"com.wise":              {Comma: ',', Trim: true},
	"ch.viac":               {JSON: true},
	"ch.swissquote":         {Comma: ';', Lazy: true},
	"us.interactivebrokers": {Comma: ',', Lazy: true},
}

var c13Importers = []string{"ch.swisscard2", "ch.swisscard", "ch.supercard", "ch.cumulus", "ch.postfinance", "revolut2", "revolut",
	"com.wise", "ch.viac", "ch.swissquote", "us.interactivebrokers"}

// ---------------------------------------------------------------- text, amounts, dates

var c13PlainWords = []string{"Migros", "Coop", "SBB", "Zahlung", "Besten Dank", "Restaurant", "AMZN Mktp", "Kiosk 24", "Tankstelle", "ref 4711", "x", "Uber"}
var c13LatinWords = []string{"Zürich", "Café", "Ärztliche Dienstleistungen", "Gebühren", "señor", "Æther", "50%", "ß", " ", "naïve", "£5", "¤", "\u0085"}
var c13UniWords = []string{"Москва", "東京", "🍕", "ﬁn", "１２３", " wide ", "�", "​", "Ω", "😀😀", " ", "ǅ", "x́", "　"}
var c13NastyWords = []string{"say \"hi\"", "\"", "\"\"", "a;b", ";", "x,y", ",", "O'Brien", "'", "tab\there", "a|b", "til~de", "back\\slash", "*star*",
	"// comment", "# hash", "@performance(X)", "2020-01-01 open Assets:X", "(ref)", "-dash-", "  two  spaces  ", " lead", "trail ", "=\"formula\"", "\"quoted\"", "{}", "a\"b", "\\\"", "%s %d", "\x00", "\x7f", "\x1b[31m"}
var c13NewlineWords = []string{"line1\nline2", "cr\r\nlf", "\n", "a\n\nb", "x\r"}

type c13TextOpts struct {
	Latin1  bool
	Newline bool
	NoSemi  bool // the format cannot carry the separator in this position (unquoted single-field lines)
}

// c13Text generates a free-text field and the feature tags it carries.
func c13Text(r *RNG, o c13TextOpts, tags map[string]bool) string {
	n := r.Range(1, 3)
	var parts []string
	for i := 0; i < n; i++ {
		k := r.Intn(100)
		var w string
		switch {
		case k < 45:
			w = Pick(r, c13PlainWords)
		case k < 60:
			w = Pick(r, c13LatinWords)
			tags["latin"] = true
		case k < 72:
			if o.Latin1 {
				w = Pick(r, c13LatinWords)
				tags["latin"] = true
			} else {
				w = Pick(r, c13UniWords)
				tags["unicode"] = true
			}
		case k < 94:
			w = Pick(r, c13NastyWords)
			if strings.Contains(w, "\"") {
				tags["quote"] = true
			}
			if strings.ContainsAny(w, ";,") {
				tags["sep"] = true
			}
			if !strings.ContainsAny(w, "\";,") {
				tags["punct"] = true
			}
		default:
			if o.Newline {
				w = Pick(r, c13NewlineWords)
				tags["newline"] = true
			} else {
				w = Pick(r, c13PlainWords)
			}
		}
		parts = append(parts, w)
	}
	s := strings.Join(parts, " ")
	if c13Long != nil {
		s = c13Long.visit(s, o, tags)
	}
	if o.NoSemi {
		s = strings.NewReplacer(";", ":", "\"", "'", "\n", " ", "\r", " ").Replace(s)
	}
	return s
}

var c13Currencies = []string{"CHF", "EUR", "USD", "GBP", "NZD", "AUD", "JPY"}
var c13OddCurrencies = []string{"BTC", "X1", "Ω", "ＣＨＦ", "Pkt", "a"}

func c13Currency(r *RNG, tags map[string]bool) string {
	if r.Chance(1, 12) {
		tags["odd-currency"] = true
		return Pick(r, c13OddCurrencies)
	}
	return Pick(r, c13Currencies)
}

type c13AmtOpts struct {
	MaxDecimals int  // 2 for formats that round; 8 otherwise
	AllowZero   bool // zero amounts are generated now and then
}

// c13Amount generates a non-negative amount.
func c13Amount(r *RNG, o c13AmtOpts, tags map[string]bool) decimal.Decimal {
	if o.AllowZero && r.Chance(1, 14) {
		tags["zero-amount"] = true
		return decimal.Zero
	}
	dec := 2
	k := r.Intn(100)
	switch {
	case k < 65:
		dec = 2
	case k < 75:
		dec = 0
	case k < 83:
		dec = 1
	default:
		dec = r.Range(3, 8)
	}
	if dec > o.MaxDecimals {
		dec = o.MaxDecimals
	}
	if dec > 2 {
		tags["many-decimals"] = true
	}
	var unscaled int64
	switch r.Intn(10) {
	case 0:
		unscaled = int64(r.Range(1, 9))
	case 1, 2:
		unscaled = int64(r.Range(100000, 99999999))
		tags["thousands"] = true
	case 3:
		unscaled = int64(r.Next() % 1000000000000)
		tags["large"] = true
	default:
		unscaled = int64(r.Range(1, 99999))
	}
	return decimal.New(unscaled, int32(-dec))
}

// c13Num writes a (possibly negative) amount as statements do: fixed decimals, optional thousands separator.
func c13Num(r *RNG, v decimal.Decimal, sep string, tags map[string]bool) string {
	neg := v.IsNegative()
	a := v.Abs()
	places := int32(0)
	if e := a.Exponent(); e < 0 {
		places = -e
	}
	if places < 2 && r.Chance(4, 5) {
		places = 2
	}
	if r.Chance(1, 15) {
		places += int32(r.Range(1, 2)) // trailing zeros
	}
	s := a.StringFixed(places)
	ip, fp := s, ""
	if i := strings.IndexByte(s, '.'); i >= 0 {
		ip, fp = s[:i], s[i:]
	}
	if sep != "" && len(ip) > 3 && r.Chance(3, 4) {
		var b strings.Builder
		for i, ch := range ip {
			if i > 0 && (len(ip)-i)%3 == 0 {
				b.WriteString(sep)
			}
			b.WriteRune(ch)
		}
		ip = b.String()
		tags["thousands-sep"] = true
	}
	if r.Chance(1, 40) && fp != "" && ip == "0" {
		ip = "" // .50
		tags["exotic-number"] = true
	}
	s = ip + fp
	if r.Chance(1, 60) && !neg && sep == "" {
		tags["exotic-number"] = true
		if exp := a.Exponent(); exp < 0 {
			s = a.Coefficient().String() + fmt.Sprintf("e%d", exp) // 1250e-2
		}
	}
	if neg {
		s = "-" + s
	}
	return s
}

// c13Days generates n day numbers, non-decreasing, with repeats (several rows per day).
func c13Days(r *RNG, n int) []int {
	base := dayNum(dayTime(0).AddDate(1989+r.Intn(45), r.Intn(12), r.Intn(28)))
	if r.Chance(1, 30) {
		base = dayNum(dayTime(0).AddDate(r.Range(1000, 1200), 0, 0))
	}
	res := make([]int, n)
	d := base
	if n > 200 {
		// a long statement (stream big): a busy account, a few hundred to two thousand booking days with one to some hundred
		// rows each and no gaps of a year, so that tens of thousands of rows stay within a decade (dates beyond the year 9999
		// are not dates of the journal syntax; the model's journal builder takes time proportional to rows x days)
		busy := r.Range(200, 2000)
		for i := range res {
			if r.Intn(n) < busy {
				d++
				if r.Chance(1, 5) {
					d += r.Range(1, 4)
				}
			}
			res[i] = d
		}
		return res
	}
	for i := range res {
		switch r.Intn(6) {
		case 0, 1:
		case 2, 3:
			d++
		case 4:
			d += r.Range(2, 40)
		default:
			d += r.Range(300, 400)
		}
		res[i] = d
	}
	return res
}

var c13AccountSegs = []string{"Bank", "Card", "Cumulus", "Postfinance", "Revolut", "Wise", "IB", "Swissquote", "Konto1", "Ärzte", "Счёт", "A", "Accounts", "X9"}

func c13Account(r *RNG, types []string) string {
	segs := []string{Pick(r, types)}
	n := r.Range(1, 3)
	for i := 0; i < n; i++ {
		segs = append(segs, Pick(r, c13AccountSegs))
	}
	return strings.Join(segs, ":")
}

func c13ImportAccount(r *RNG) string {
	return c13Account(r, []string{"Assets", "Assets", "Liabilities"})
}

func c13Tags(m map[string]bool) []string {
	var ts []string
	for t := range m {
		ts = append(ts, t)
	}
	sort.Strings(ts)
	return ts
}

// ---------------------------------------------------------------- CSV writing

type c13CsvOpts struct {
	QuoteAll bool
	Lazy     bool // the reader has LazyQuotes: an inner quote may stay bare
	Space    bool // the reader trims leading space: put blanks after separators now and then
	CRLF     bool
}

func c13CsvField(r *RNG, f string, sep rune, o c13CsvOpts) string {
	if o.Space && f != "" && strings.Trim(f, " ") == "" {
		return f // a blank field of a statement read with TrimLeadingSpace: bare, so that it reads as empty
	}
	needs := false
	if strings.ContainsRune(f, sep) || strings.ContainsAny(f, "\"\n\r") || strings.HasPrefix(f, " ") {
		needs = true
	}
	if o.Lazy && needs && !strings.ContainsRune(f, sep) && !strings.ContainsAny(f, "\n\r") && !strings.HasPrefix(strings.TrimLeftFunc(f, unicode.IsSpace), "\"") && !strings.HasPrefix(f, " ") && r.Chance(1, 2) {
		return f // bare quote inside an unquoted field
	}
	if needs || o.QuoteAll {
		return "\"" + strings.ReplaceAll(f, "\"", "\"\"") + "\""
	}
	return f
}

func c13Csv(r *RNG, recs [][]string, sep rune, o c13CsvOpts) string {
	var b strings.Builder
	nl := "\n"
	if o.CRLF {
		nl = "\r\n"
	}
	for _, rec := range recs {
		if len(rec) == 1 && rec[0] == "" {
			b.WriteString("\"\"" + nl)
			continue
		}
		for i, f := range rec {
			if i > 0 {
				b.WriteRune(sep)
				if o.Space && r.Chance(1, 6) {
					b.WriteString(" ")
				}
			}
			b.WriteString(c13CsvField(r, f, sep, o))
		}
		b.WriteString(nl)
	}
	return b.String()
}

func c13Latin1(s string) []byte {
	var b []byte
	for _, ch := range s {
		if ch < 256 {
			b = append(b, byte(ch))
		} else {
			b = append(b, '?')
		}
	}
	return b
}

func c13CsvOptsFor(r *RNG, d c13Dialect, tags map[string]bool) c13CsvOpts {
	o := c13CsvOpts{Lazy: d.Lazy, Space: d.Trim}
	if r.Chance(1, 4) {
		o.QuoteAll = true
		tags["quote-all"] = true
	}
	if r.Chance(1, 8) {
		o.CRLF = true
		tags["crlf"] = true
	}
	return o
}

// ---------------------------------------------------------------- per-format generators

// c13Gen generates a statement and then lets the account flags collide now and then (see c13CollideFlags). The collision
// draws come after every draw of the statement itself, so the statement of a (seed, stream, index) does not depend on them.
func c13Gen(r *RNG, imp string) *c13Stmt {
	st := c13GenBase(r, imp)
	c13CollideFlags(r, st)
	return st
}

// ---------------------------------------------------------------- account flags that name the same account
//
// The importers with several account flags (revolut2: --fee; com.wise: --fee, --trading; ch.swissquote and
// us.interactivebrokers: --dividend, --tax, --fee, --interest, --trading) book every leg of a row between the import
// account and one of these accounts or Expenses:TBD. Nothing requires the flags to name different accounts: the C13 theorems
// assume only that every flag differs from the import account (and the import account from Expenses:TBD). So two, three or
// all flags may name one account, and a flag may name Expenses:TBD; the row's effect on the import account must not change.
// The generator's reading of the statement (Items) is about the import account only and stays as it is.

const c13TBD = "Expenses:TBD"

// c13FlagSlots: the positions in st.Flags of the account flags other than the import account.
func c13FlagSlots(st *c13Stmt) []int {
	if c13Dialects[st.Imp].JSON {
		return nil // ch.viac: a commodity and a date
	}
	var res []int
	for j := 1; j < len(st.Flags); j++ {
		res = append(res, j)
	}
	return res
}

func c13SetFlag(st *c13Stmt, j int, v string) {
	st.Flags[j] = v
	st.Args[2*j+1] = v
}

var c13PartitionCache = map[int][][]int{}

// c13Partitions lists the set partitions of {TBD, flag 1, …, flag k} as restricted growth strings a[0..k] (a[0] = 0 is the
// block of Expenses:TBD): Bell(k+1) of them (k = 1: 2, k = 2: 5, k = 5: 203). The first one has every flag alone in its block.
func c13Partitions(k int) [][]int {
	if ps, ok := c13PartitionCache[k]; ok {
		return ps
	}
	var res [][]int
	a := make([]int, k+1)
	var rec func(i, max int)
	rec = func(i, max int) {
		if i > k {
			res = append(res, append([]int{}, a...))
			return
		}
		for b := max + 1; b >= 0; b-- { // new block first: the identity partition comes first
			a[i] = b
			m := max
			if b > m {
				m = b
			}
			rec(i+1, m)
		}
	}
	rec(1, 0)
	c13PartitionCache[k] = res
	return res
}

// c13ApplyPartition: the flags of one block all name the account drawn for the block's first flag; the flags in the block
// of TBD name Expenses:TBD. It also tags the statement with what coincides.
func c13ApplyPartition(st *c13Stmt, rgs []int) {
	slots := c13FlagSlots(st)
	first := map[int]string{0: c13TBD}
	for i, j := range slots {
		b := rgs[i+1]
		if _, ok := first[b]; !ok {
			first[b] = st.Flags[j]
		}
		c13SetFlag(st, j, first[b])
	}
	c13TagFlags(st)
}

func c13TagFlags(st *c13Stmt) {
	slots := c13FlagSlots(st)
	count := map[string]int{}
	for _, j := range slots {
		count[st.Flags[j]]++
	}
	tags := map[string]bool{}
	for a, n := range count {
		switch {
		case a == c13TBD:
			tags["flag-is-tbd"] = true
		case n == 2:
			tags["flags-equal"] = true
		case n > 2:
			tags["flags-3-equal"] = true
		}
		if a == c13TBD && n > 1 {
			tags["flags-equal"] = true
		}
	}
	for _, t := range st.Tags {
		delete(tags, t)
	}
	for t := range tags {
		st.Tags = append(st.Tags, t)
	}
	sort.Strings(st.Tags)
}

// c13CollideFlags: half of the statements of an importer with several account flags keep the accounts as drawn; the others
// get a pair, a triple, all of them, one of them and Expenses:TBD, or an arbitrary partition merged.
func c13CollideFlags(r *RNG, st *c13Stmt) {
	slots := c13FlagSlots(st)
	k := len(slots)
	if k == 0 || r.Chance(1, 2) {
		return
	}
	rgs := make([]int, k+1)
	for i := 1; i <= k; i++ {
		rgs[i] = i // every flag alone
	}
	merge := func(n int) { // n flags (at random positions) into one block
		perm := make([]int, k)
		for i := range perm {
			perm[i] = i + 1
		}
		for i := k - 1; i > 0; i-- {
			j := r.Intn(i + 1)
			perm[i], perm[j] = perm[j], perm[i]
		}
		if n > k {
			n = k
		}
		for _, i := range perm[:n] {
			rgs[i] = perm[0]
		}
	}
	switch q := r.Intn(100); {
	case q < 35:
		merge(2)
	case q < 50:
		merge(3)
	case q < 60:
		merge(k)
	case q < 75:
		rgs[1+r.Intn(k)] = 0 // one flag names Expenses:TBD
	case q < 85:
		merge(2)
		rgs[1+r.Intn(k)] = 0 // … which may pull the pair's account or another one to TBD
	default:
		ps := c13Partitions(k)
		copy(rgs, ps[r.Intn(len(ps))])
	}
	// blocks are named by a member here, not in growth order: c13ApplyPartition only needs equal numbers for equal accounts
	c13ApplyPartition(st, rgs)
}

func c13GenBase(r *RNG, imp string) *c13Stmt {
	switch imp {
	case "ch.swisscard2":
		return c13GenSwisscard2(r)
	case "ch.swisscard":
		return c13GenSwisscard(r)
	case "ch.supercard":
		return c13GenSupercard(r)
	case "ch.cumulus":
		return c13GenCumulus(r)
	case "ch.postfinance":
		return c13GenPostfinance(r)
	case "revolut2":
		return c13GenRevolut2(r)
	case "revolut":
		return c13GenRevolut(r)
	case "com.wise":
		return c13GenWise(r)
	case "ch.viac":
		return c13GenViac(r)
	case "ch.swissquote":
		return c13GenSwissquote(r)
	case "us.interactivebrokers":
		return c13GenIB(r)
	}
	panic("no generator for " + imp)
}

// c13ForceRows > 0: the next statements have this many rows (the big stream sets it while it builds its statements, which
// happens sequentially; the other streams draw 0..60 rows).
var c13ForceRows int

func c13RowCount(r *RNG) int {
	if c13ForceRows > 0 {
		return c13ForceRows
	}
	switch r.Intn(10) {
	case 0:
		return 0
	case 1:
		return 1
	case 2:
		return r.Range(30, 60)
	}
	return r.Range(2, 14)
}

func dmyDot(z int) string  { return dayTime(z).Format("02.01.2006") }
func dmyDash(z int) string { return dayTime(z).Format("02-01-2006") }
func ymd(z int) string     { return dayTime(z).Format("2006-01-02") }

func c13GenSwisscard2(r *RNG) *c13Stmt {
	tags := map[string]bool{}
	acct := c13ImportAccount(r)
	n := c13RowCount(r)
	days := c13Days(r, n)
	recs := [][]string{{"Transaktionsdatum", "Beschreibung", "Händler", "Kartennummer", "Währung", "Betrag", "Fremdwährung", "Betrag in Fremdwährung", "Debit/Kredit", "Status", "Händlerkategorie", "Registrierte Kategorie"}}
	st := &c13Stmt{Imp: "ch.swisscard2", Flags: []string{acct}, Args: []string{"--account", acct}, Accounts: []string{acct, "Expenses:TBD"}, Rows: n, OneTx: true, Checked: true}
	to := c13TextOpts{Newline: true}
	for i := 0; i < n; i++ {
		cur := c13Currency(r, tags)
		amt := c13Amount(r, c13AmtOpts{MaxDecimals: 8, AllowZero: true}, tags)
		kind := "Belastung"
		if r.Chance(1, 5) {
			amt = amt.Neg()
			kind = "Gutschrift"
			tags["credit"] = true
		}
		recs = append(recs, []string{dmyDot(days[i]), c13Text(r, to, tags), c13Text(r, to, tags), fmt.Sprint(r.Range(1000, 9999)), cur, c13Num(r, amt, "", tags),
			"", "", kind, "Gebucht", c13Text(r, to, tags), c13Text(r, to, tags)})
		st.Items = append(st.Items, c13Item{Kind: 'b', Day: days[i], Effs: []c13Eff{{cur, amt.Neg()}}})
	}
	st.File = []byte(c13Csv(r, recs, ',', c13CsvOptsFor(r, c13Dialects[st.Imp], tags)))
	st.Tags = c13Tags(tags)
	return st
}

func c13GenSwisscard(r *RNG) *c13Stmt {
	tags := map[string]bool{}
	acct := c13ImportAccount(r)
	n := c13RowCount(r)
	days := c13Days(r, n)
	recs := [][]string{{"Transaction Date", "Posting Date", "Card Number ", "Billing Amount", "Description", "Merchant City ", "Merchant State ", "Merchant Zip ", "Reference Number ", "Debit/Credit Flag ", "SICMCC Code"}}
	st := &c13Stmt{Imp: "ch.swisscard", Flags: []string{acct}, Args: []string{"--account", acct}, Accounts: []string{acct, "Expenses:TBD"}, Rows: n, OneTx: true, Checked: true}
	to := c13TextOpts{Newline: true}
	for i := n - 1; i >= 0; i-- { // newest first, as the bank does
		amt := c13Amount(r, c13AmtOpts{MaxDecimals: 8, AllowZero: true}, tags)
		flag := "D"
		text := "CHF" + c13Num(r, amt, "'", tags)
		if r.Chance(1, 5) {
			amt = amt.Neg()
			flag = "C"
			text = "-CHF" + c13Num(r, amt.Neg(), "'", tags)
			tags["credit"] = true
		}
		words := func() string {
			if r.Chance(1, 3) {
				return ""
			}
			return c13Text(r, to, tags)
		}
		recs = append(recs, []string{dmyDot(days[i]), dmyDot(days[i] + r.Intn(3)), fmt.Sprint(r.Range(1000, 9999)), text, c13Text(r, to, tags), words(), words(), words(), words(), flag, words()})
		st.Items = append(st.Items, c13Item{Kind: 'b', Day: days[i], Effs: []c13Eff{{"CHF", amt.Neg()}}})
	}
	if r.Chance(1, 4) { // a summary line that is not a booking
		recs = append(recs, []string{"Total", "", "", "CHF0.00", "", "", "", "", "", "", ""})
		tags["summary-line"] = true
	}
	st.File = []byte(c13Csv(r, recs, ',', c13CsvOptsFor(r, c13Dialects[st.Imp], tags)))
	st.Tags = c13Tags(tags)
	return st
}

func c13GenSupercard(r *RNG) *c13Stmt {
	tags := map[string]bool{}
	acct := c13ImportAccount(r)
	n := c13RowCount(r)
	days := c13Days(r, n)
	recs := [][]string{{"sep=", ""}, {"Kontonummer", "Kartennummer", "Konto-/Karteninhaber", "Einkaufsdatum", "Buchungstext", "Branche", "Betrag", "Originalwährung", "Kurs", "Währung", "Belastung", "Gutschrift", "Buchung"}}
	st := &c13Stmt{Imp: "ch.supercard", Flags: []string{acct}, Args: []string{"--account", acct}, Accounts: []string{acct, "Expenses:TBD"}, Rows: n, OneTx: true, Checked: true}
	to := c13TextOpts{Latin1: true, Newline: true}
	if r.Chance(1, 3) {
		recs = append(recs, []string{"1425 0000 0000", "", "OWNER", "", "Saldovortrag", "", "", "", "", "CHF", "100.00", "", ""})
		tags["saldovortrag"] = true
	}
	for i := 0; i < n; i++ {
		cur := Pick(r, c13Currencies)
		amt := c13Amount(r, c13AmtOpts{MaxDecimals: 8, AllowZero: true}, tags)
		text := c13Num(r, amt, "", tags)
		bel, gut := text, " "
		eff := amt.Neg()
		if r.Chance(1, 5) {
			bel, gut = " ", text
			eff = amt
			tags["credit"] = true
		}
		if r.Chance(1, 2) {
			// with TrimLeadingSpace a blank field reads as empty
			if bel == " " {
				bel = ""
			}
			if gut == " " {
				gut = ""
			}
		}
		recs = append(recs, []string{"1425 0000 0000", "1111 2222 3333 4444", "OWNER", dmyDot(days[i]), c13Text(r, to, tags), c13Text(r, to, tags), text, cur, " ", cur, bel, gut, dmyDot(days[i] + 1)})
		st.Items = append(st.Items, c13Item{Kind: 'b', Day: days[i], Effs: []c13Eff{{cur, eff}}})
		if r.Chance(1, 10) {
			recs = append(recs, []string{"", "", "", "", "Total Karte", "", "", "", "", "CHF", "1.00", "", ""})
			tags["no-account-line"] = true
		}
	}
	if r.Chance(1, 4) {
		recs = append(recs, []string{"x", "", "", "", "Saldo", "", "", "", "", "CHF", "5.00"})
		tags["eleven-field-line"] = true
	}
	o := c13CsvOptsFor(r, c13Dialects[st.Imp], tags)
	text := c13Csv(r, recs, ';', o)
	// the first line is literally `sep=;`
	if i := strings.Index(text, "\n"); i >= 0 {
		nl := "\n"
		if o.CRLF {
			nl = "\r\n"
		}
		text = "sep=;" + nl + text[i+1:]
	}
	st.File = c13Latin1(text)
	st.Tags = c13Tags(tags)
	return st
}

func c13GenCumulus(r *RNG) *c13Stmt {
	tags := map[string]bool{}
	acct := c13ImportAccount(r)
	n := c13RowCount(r)
	days := c13Days(r, n)
	st := &c13Stmt{Imp: "ch.cumulus", Flags: []string{acct}, Args: []string{"--account", acct}, Accounts: []string{acct, "Expenses:TBD"}, Rows: n, OneTx: true, Checked: true}
	to := c13TextOpts{Newline: true}
	var recs [][]string
	recs = append(recs, []string{"Verbucht am", "Beschreibung", "Gutschrift CHF", "Belastung CHF"})
	recs = append(recs, []string{"", "Saldovortrag letzte Rechnung", "", "1'234.56"})
	if r.Chance(1, 2) && n > 0 {
		recs = append(recs, []string{dmyDot(days[0]), "Ihre LSV-Zahlung - Besten Dank", "1'234.56", ""})
		tags["payment-line"] = true
	}
	recs = append(recs, []string{"Einkaufs-Datum", "Verbucht am", "Beschreibung", "Gutschrift CHF", "Belastung CHF"})
	for i := 0; i < n; i++ {
		amt := c13Amount(r, c13AmtOpts{MaxDecimals: 8, AllowZero: true}, tags)
		text := c13Num(r, amt, "'", tags)
		if r.Chance(1, 8) {
			// rounding line
			if r.Chance(1, 2) {
				recs = append(recs, []string{dmyDot(days[i]), "Rundungskorrektur", text, ""})
				st.Items = append(st.Items, c13Item{Kind: 'b', Day: days[i], Effs: []c13Eff{{"CHF", amt}}})
			} else {
				recs = append(recs, []string{dmyDot(days[i]), "Rundungskorrektur", "", text})
				st.Items = append(st.Items, c13Item{Kind: 'b', Day: days[i], Effs: []c13Eff{{"CHF", amt.Neg()}}})
			}
			tags["rounding-line"] = true
			continue
		}
		gut, bel := "", text
		eff := amt.Neg()
		if r.Chance(1, 5) {
			gut, bel = text, ""
			eff = amt
			tags["credit"] = true
		}
		recs = append(recs, []string{dmyDot(days[i]), dmyDot(days[i] + r.Intn(3)), c13Text(r, to, tags), gut, bel})
		st.Items = append(st.Items, c13Item{Kind: 'b', Day: days[i], Effs: []c13Eff{{"CHF", eff}}})
		if r.Chance(1, 4) {
			fx := c13Text(r, to, tags)
			if fx != "" {
				recs = append(recs, []string{"", "", fx, "", ""})
				tags["fx-comment"] = true
			}
		}
	}
	st.File = []byte(c13Csv(r, recs, ',', c13CsvOptsFor(r, c13Dialects[st.Imp], tags)))
	st.Tags = c13Tags(tags)
	return st
}

func c13GenPostfinance(r *RNG) *c13Stmt {
	tags := map[string]bool{}
	acct := c13ImportAccount(r)
	n := c13RowCount(r)
	days := c13Days(r, n)
	st := &c13Stmt{Imp: "ch.postfinance", Flags: []string{acct}, Args: []string{"--account", acct}, Accounts: []string{acct, "Expenses:TBD"}, Rows: n, OneTx: true, Checked: true}
	to := c13TextOpts{Newline: true}
	cur := "CHF"
	var recs [][]string
	recs = append(recs, []string{"Buchungsart:", "=\"Alle Buchungen\""})
	recs = append(recs, []string{"Konto:", "=\"CH4609000000877991229\""})
	if r.Chance(3, 4) {
		cur = Pick(r, []string{"CHF", "CHF", "EUR", "USD"})
		recs = append(recs, []string{"Währung:", "=\"" + cur + "\""})
	} else {
		tags["no-currency-key"] = true
	}
	recs = append(recs, []string{"Buchungsdatum", "Avisierungstext", "Gutschrift in " + cur, "Lastschrift in " + cur, "Label", "Kategorie", "Valuta", "Saldo in " + cur})
	for i := n - 1; i >= 0; i-- {
		amt := c13Amount(r, c13AmtOpts{MaxDecimals: 8, AllowZero: true}, tags)
		gut, last := "", ""
		eff := amt
		if r.Chance(1, 3) {
			gut = c13Num(r, amt, "'", tags)
			tags["credit"] = true
		} else {
			eff = amt.Neg()
			if amt.IsZero() {
				last = "-" + c13Num(r, amt, "'", tags)
			} else {
				last = c13Num(r, eff, "'", tags)
			}
		}
		rec := []string{dmyDot(days[i]), c13Text(r, to, tags), gut, last, c13Text(r, to, tags), c13Text(r, to, tags), dmyDot(days[i] + r.Intn(3))}
		if r.Chance(5, 6) {
			rec = append(rec, c13Num(r, c13Amount(r, c13AmtOpts{MaxDecimals: 2}, map[string]bool{}), "", map[string]bool{}))
		} else {
			tags["seven-field-row"] = true
		}
		recs = append(recs, rec)
		st.Items = append(st.Items, c13Item{Kind: 'b', Day: days[i], Effs: []c13Eff{{cur, eff}}})
	}
	recs = append(recs, []string{"Disclaimer:"})
	recs = append(recs, []string{c13Text(r, c13TextOpts{NoSemi: true}, tags)})
	o := c13CsvOptsFor(r, c13Dialects[st.Imp], tags)
	o.QuoteAll = false // the key/value block is written with bare quotes (="CHF"), which only LazyQuotes reads
	nl := "\n"
	if o.CRLF {
		nl = "\r\n"
	}
	var b strings.Builder
	if r.Chance(1, 2) {
		b.WriteString("\ufeff")
		tags["bom"] = true
	}
	headerSeen := false
	for _, rec := range recs {
		switch {
		case len(rec) <= 2: // key/value lines and the disclaimer, written raw
			b.WriteString(strings.Join(rec, ";") + nl)
		case !headerSeen:
			headerSeen = true
			b.WriteString(nl + c13Csv(r, [][]string{rec}, ';', o) + nl)
		default:
			b.WriteString(c13Csv(r, [][]string{rec}, ';', o))
		}
		if len(rec) == 1 && rec[0] == "Disclaimer:" {
			continue
		}
	}
	st.File = []byte(b.String())
	st.Tags = c13Tags(tags)
	return st
}

func c13GenRevolut2(r *RNG) *c13Stmt {
	tags := map[string]bool{}
	acct := c13ImportAccount(r)
	fee := c13Account(r, []string{"Expenses"})
	n := c13RowCount(r)
	days := c13Days(r, n)
	st := &c13Stmt{Imp: "revolut2", Flags: []string{acct, fee}, Args: []string{"--account", acct, "--fee", fee}, Accounts: []string{acct, fee, "Expenses:TBD"}, Rows: n, OneTx: true, Checked: true}
	to := c13TextOpts{Newline: true}
	recs := [][]string{{"Type", "Product", "Started Date", "Completed Date", "Description", "Amount", "Fee", "Currency", "State", "Balance"}}
	curs := []string{c13Currency(r, tags)}
	if r.Chance(1, 3) {
		curs = append(curs, c13Currency(r, tags))
		tags["multi-currency"] = true
	}
	bal := map[string]decimal.Decimal{}
	type key struct {
		day int
		cur string
	}
	last := map[key]decimal.Decimal{}
	for i := 0; i < n; i++ {
		cur := Pick(r, curs)
		amt := c13Amount(r, c13AmtOpts{MaxDecimals: 8, AllowZero: true}, tags)
		if r.Chance(3, 4) {
			amt = amt.Neg()
		}
		f := decimal.Zero
		if r.Chance(1, 4) {
			f = c13Amount(r, c13AmtOpts{MaxDecimals: 4}, tags)
			tags["fee"] = true
		}
		if r.Chance(1, 12) {
			// pending row: no completed date, not booked
			recs = append(recs, []string{"CARD_PAYMENT", "Current", ymd(days[i]) + " 10:00:00", "", c13Text(r, to, tags), c13Num(r, amt, "", tags), "0.00", cur, "PENDING", ""})
			tags["pending-row"] = true
			continue
		}
		bal[cur] = bal[cur].Add(amt).Sub(f)
		last[key{days[i], cur}] = bal[cur]
		recs = append(recs, []string{Pick(r, []string{"CARD_PAYMENT", "TOPUP", "EXCHANGE", "TRANSFER"}), "Current", ymd(days[i]-r.Intn(2)) + " 16:35:02", ymd(days[i]) + fmt.Sprintf(" %02d:27:33", r.Intn(24)),
			c13Text(r, to, tags), c13Num(r, amt, "", tags), c13Num(r, f, "", tags), cur, "COMPLETED", c13Num(r, bal[cur], "", tags)})
		st.Items = append(st.Items, c13Item{Kind: 'b', Day: days[i], Effs: []c13Eff{{cur, amt.Sub(f)}}})
		if r.Chance(1, 6) {
			// the same purchase twice on one day: two rows that agree in every field but the running balance (rows carry
			// no identifier; seeded change C13-d de-duplicated transactions that compare equal)
			prev := recs[len(recs)-1]
			bal[cur] = bal[cur].Add(amt).Sub(f)
			last[key{days[i], cur}] = bal[cur]
			dup := append([]string{}, prev...)
			dup[9] = c13Num(r, bal[cur], "", tags)
			recs = append(recs, dup)
			st.Items = append(st.Items, c13Item{Kind: 'b', Day: days[i], Effs: []c13Eff{{cur, amt.Sub(f)}}})
			st.Rows++
			tags["identical-rows"] = true
		}
	}
	var keys []key
	for k := range last {
		keys = append(keys, k)
	}
	sort.Slice(keys, func(i, j int) bool {
		if keys[i].day != keys[j].day {
			return keys[i].day < keys[j].day
		}
		return keys[i].cur < keys[j].cur
	})
	for _, k := range keys {
		st.Items = append(st.Items, c13Item{Kind: 'a', Day: k.day, Qty: last[k], Com: k.cur})
	}
	st.File = []byte(c13Csv(r, recs, ',', c13CsvOptsFor(r, c13Dialects[st.Imp], tags)))
	st.Tags = c13Tags(tags)
	return st
}

func c13GenRevolut(r *RNG) *c13Stmt {
	tags := map[string]bool{}
	acct := c13ImportAccount(r)
	n := c13RowCount(r)
	days := c13Days(r, n)
	cur := Pick(r, []string{"EUR", "CHF", "USD", "GBP", "Eur"})
	val := "Income:" + strings.SplitN(acct, ":", 2)[1]
	st := &c13Stmt{Imp: "revolut", Flags: []string{acct}, Args: []string{"--account", acct}, Accounts: []string{acct, "Expenses:TBD", val}, Rows: n, OneTx: true, Checked: true}
	to := c13TextOpts{Newline: true}
	header := []string{"Completed Date", "Reference", "Paid Out (" + cur + ")", "Paid In (" + cur + ")", "Exchange Out", "Exchange In", " Balance (" + cur + ")", "Exchange Rate", "Category"}
	bal := decimal.Zero
	var rows [][]string
	var items []c13Item
	for i := 0; i < n; i++ {
		amt := c13Amount(r, c13AmtOpts{MaxDecimals: 8, AllowZero: true}, tags)
		out := r.Chance(3, 4)
		eff := amt
		if out {
			eff = amt.Neg()
		}
		bal = bal.Add(eff)
		date := dayTime(days[i]).Format("2 Jan 2006")
		text := c13Num(r, amt, "'", tags)
		po, pi := "", text
		if out {
			po, pi = text, ""
		}
		effs := []c13Eff{{cur, eff}}
		ref, exOut, exIn, rate := c13Text(r, to, tags), "", "", " "
		if r.Chance(1, 6) {
			other := Pick(r, []string{"CHF", "USD", "GBP", "JPY", "EUR"})
			for other == strings.ToUpper(cur) {
				other = Pick(r, []string{"CHF", "USD", "GBP", "JPY", "EUR"})
			}
			oamt := c13Amount(r, c13AmtOpts{MaxDecimals: 6}, tags)
			up := strings.ToUpper(cur)
			if out {
				ref = "Sold " + up + " to " + other
				exOut = other + "  " + c13Num(r, oamt, "'", tags)
				effs = append(effs, c13Eff{other, oamt})
			} else {
				ref = "Bought " + up + " from " + other
				exIn = other + "  " + c13Num(r, oamt, "'", tags)
				effs = append(effs, c13Eff{other, oamt.Neg()})
			}
			rate = "FX-rate € 1 = " + other + " 1.0809"
			tags["fx"] = true
		}
		rows = append(rows, []string{date, ref, po, pi, exOut, exIn, c13Num(r, bal, "'", tags), rate, c13Text(r, to, tags)})
		items = append(items, c13Item{Kind: 'b', Day: days[i], Effs: effs})
		if i+1 == n || days[i+1] != days[i] {
			items = append(items, c13Item{Kind: 'a', Day: days[i], Qty: bal, Com: cur})
		}
	}
	recs := [][]string{header}
	for i := len(rows) - 1; i >= 0; i-- { // newest first
		recs = append(recs, rows[i])
	}
	st.Items = items
	st.File = []byte(c13Csv(r, recs, ';', c13CsvOptsFor(r, c13Dialects[st.Imp], tags)))
	st.Tags = c13Tags(tags)
	return st
}

func c13GenWise(r *RNG) *c13Stmt {
	tags := map[string]bool{}
	acct := c13ImportAccount(r)
	fee := c13Account(r, []string{"Expenses"})
	trading := c13Account(r, []string{"Expenses", "Income"})
	n := c13RowCount(r)
	days := c13Days(r, n)
	st := &c13Stmt{Imp: "com.wise", Flags: []string{acct, fee, trading}, Args: []string{"--account", acct, "--fee", fee, "--trading", trading},
		Accounts: []string{acct, fee, trading, "Expenses:TBD"}, Rows: n, OneTx: true, Checked: true}
	to := c13TextOpts{Newline: true}
	recs := [][]string{{"ID", "Status", "Direction", "Created on", "Finished on", "Source fee amount", "Source fee currency", "Target fee amount", "Target fee currency", "Source name",
		"Source amount (after fees)", "Source currency", "Target name", "Target amount (after fees)", "Target currency", "Exchange rate", "Reference", "Batch"}}
	for i := n - 1; i >= 0; i-- {
		sc := c13Currency(r, tags)
		tc := sc
		if r.Chance(1, 3) {
			tc = Pick(r, c13Currencies)
		}
		sa := c13Amount(r, c13AmtOpts{MaxDecimals: 8, AllowZero: true}, tags)
		ta := sa
		if tc != sc {
			ta = c13Amount(r, c13AmtOpts{MaxDecimals: 8, AllowZero: true}, tags)
		}
		dir := Pick(r, []string{"OUT", "OUT", "IN", "NEUTRAL"})
		status := "COMPLETED"
		if r.Chance(1, 10) {
			status = "CANCELLED"
			tags["cancelled-row"] = true
		}
		sfa, sfc, tfa, tfc := "", "", "", ""
		var effs []c13Eff
		if r.Chance(1, 2) {
			f := c13Amount(r, c13AmtOpts{MaxDecimals: 4, AllowZero: true}, tags)
			sfa, sfc = c13Num(r, f, "", tags), sc
			effs = append(effs, c13Eff{sc, f.Neg()})
			tags["fee"] = true
		}
		if r.Chance(1, 8) {
			f := c13Amount(r, c13AmtOpts{MaxDecimals: 4}, tags)
			tfa, tfc = c13Num(r, f, "", tags), tc
			effs = append(effs, c13Eff{tc, f.Neg()})
			tags["target-fee"] = true
		}
		id := Pick(r, []string{"CARD_TRANSACTION-", "TRANSFER-", "BALANCE_TRANSACTION-", "x_y-z-"}) + fmt.Sprint(r.Range(1, 99999))
		created := ymd(days[i]) + " 15:20:30"
		finished := ymd(days[i]+r.Intn(4)) + " 01:33:37"
		recs = append(recs, []string{id, status, dir, created, finished, sfa, sfc, tfa, tfc, c13Text(r, to, tags), c13Num(r, sa, "", tags), sc, c13Text(r, to, tags), c13Num(r, ta, "", tags), tc, "1.75685000", "", ""})
		if status == "CANCELLED" {
			continue
		}
		if sc != tc {
			tags["conversion"] = true
			conv := append(append([]c13Eff{}, effs...), c13Eff{sc, sa.Neg()}, c13Eff{tc, ta})
			st.Items = append(st.Items, c13Item{Kind: 'b', Day: days[i], Effs: conv})
			switch dir {
			case "OUT":
				st.Items = append(st.Items, c13Item{Kind: 'b', Day: days[i], Effs: []c13Eff{{tc, ta.Neg()}}})
				st.OneTx = false
			case "IN":
				st.Items = append(st.Items, c13Item{Kind: 'b', Day: days[i], Effs: []c13Eff{{tc, ta}}})
				st.OneTx = false
			}
		} else {
			switch dir {
			case "OUT":
				st.Items = append(st.Items, c13Item{Kind: 'b', Day: days[i], Effs: append(effs, c13Eff{sc, sa.Neg()})})
			case "IN":
				st.Items = append(st.Items, c13Item{Kind: 'b', Day: days[i], Effs: append(effs, c13Eff{sc, sa})})
			default:
				tags["neutral-row"] = true
			}
		}
	}
	st.File = []byte(c13Csv(r, recs, ',', c13CsvOptsFor(r, c13Dialects[st.Imp], tags)))
	st.Tags = c13Tags(tags)
	return st
}

func c13GenViac(r *RNG) *c13Stmt {
	tags := map[string]bool{}
	com := Pick(r, []string{"Viac", "VIAC3a", "Säule3a", "P1"})
	n := c13RowCount(r)
	days := c13Days(r, n)
	st := &c13Stmt{Imp: "ch.viac", Flags: []string{com, "0"}, Args: []string{"--commodity", com}, Rows: n, OneTx: true, Checked: true}
	from := 0
	if r.Chance(1, 3) && n > 0 {
		from = days[r.Intn(n)]
		st.Flags[1] = fmt.Sprint(from)
		st.Args = append(st.Args, "--from", ymd(from))
		tags["from"] = true
	}
	var b strings.Builder
	b.WriteString("{\"dailyWealth\":[")
	for i := 0; i < n; i++ {
		v := c13Amount(r, c13AmtOpts{MaxDecimals: 8, AllowZero: true}, tags)
		if r.Chance(1, 4) {
			v = v.Add(decimal.New(int64(r.Range(1, 999999999)), -20)) // long fractions as in the real export
			tags["long-fraction"] = true
		}
		if r.Chance(1, 20) {
			v = v.Neg()
			tags["negative"] = true
		}
		if r.Chance(1, 10) {
			v = decimal.New(int64(r.Range(0, 2000))*10+int64(Pick(r, []int{4, 5, 5, 6})), -3) // x.xx5: rounding boundary
			tags["half-cent"] = true
		}
		lit := v.String()
		if r.Chance(1, 25) && !v.IsZero() {
			lit = v.Coefficient().String() + fmt.Sprintf("e%d", v.Exponent())
			tags["exponent-literal"] = true
		}
		if i > 0 {
			b.WriteString(",")
		}
		if r.Chance(1, 10) {
			b.WriteString(" ")
		}
		fmt.Fprintf(&b, "{\"date\":\"%s\",\"value\":%s}", ymd(days[i]), lit)
		if days[i] >= from && !v.IsZero() {
			st.Items = append(st.Items, c13Item{Kind: 'p', Day: days[i], Com: com, Qty: v.Round(2), Target: "CHF"})
		}
	}
	b.WriteString("]}")
	if r.Chance(1, 3) {
		b.WriteString("\n")
	}
	st.File = []byte(b.String())
	st.Tags = c13Tags(tags)
	return st
}

func c13GenSwissquote(r *RNG) *c13Stmt {
	tags := map[string]bool{}
	acct := c13ImportAccount(r)
	dividend := c13Account(r, []string{"Income"})
	tax := c13Account(r, []string{"Expenses"})
	fee := c13Account(r, []string{"Expenses"})
	interest := c13Account(r, []string{"Income"})
	trading := c13Account(r, []string{"Expenses", "Equity"})
	n := c13RowCount(r)
	days := c13Days(r, n)
	st := &c13Stmt{Imp: "ch.swissquote", Flags: []string{acct, dividend, tax, fee, interest, trading},
		Args:     []string{"--account", acct, "--dividend", dividend, "--tax", tax, "--fee", fee, "--interest", interest, "--trading", trading},
		Accounts: []string{acct, dividend, tax, fee, interest, trading, "Expenses:TBD"}, Rows: n, OneTx: true, Checked: true}
	to := c13TextOpts{Newline: true}
	recs := [][]string{{"Datum", "Auftrag #", "Transaktionen", "Symbol", "Name", "ISIN", "Anzahl", "Stückpreis", "Kosten", "Aufgelaufene Zinsen", "Nettobetrag", "Saldo", "Währung"}}
	syms := []string{"VWRL", "NESN", "AAPL", "CSSMI", "Ω3"}
	stamp := func(z int) string { return dmyDash(z) + fmt.Sprintf(" %02d:17:42", r.Intn(24)) }
	num := func(v decimal.Decimal) string { return c13Num(r, v, "'", tags) }
	for i := n - 1; i >= 0; i-- {
		cur := Pick(r, c13Currencies)
		saldo := num(c13Amount(r, c13AmtOpts{MaxDecimals: 2}, map[string]bool{}))
		k := r.Intn(100)
		switch {
		case k < 30: // trade
			sym := Pick(r, syms)
			q := decimal.New(int64(r.Range(1, 500)), 0)
			if r.Chance(1, 5) {
				q = decimal.New(int64(r.Range(1, 99999)), -3)
			}
			p := c13Amount(r, c13AmtOpts{MaxDecimals: 4}, tags)
			if r.Chance(1, 25) {
				p = decimal.Zero
				tags["zero-price-trade"] = true
			}
			f := c13Amount(r, c13AmtOpts{MaxDecimals: 2, AllowZero: true}, tags)
			gross := q.Mul(p).Round(2)
			ty, net, qeff := "Kauf", gross.Add(f).Neg(), q
			if r.Chance(1, 3) {
				ty, net, qeff = "Verkauf", gross.Sub(f), q.Neg()
			}
			recs = append(recs, []string{stamp(days[i]), fmt.Sprint(r.Range(10000000, 99999999)), ty, sym, c13Text(r, to, tags), c13Text(r, to, tags), q.String(), num(p), num(f), "0.00", num(net), saldo, cur})
			st.Items = append(st.Items, c13Item{Kind: 'b', Day: days[i], Effs: []c13Eff{{sym, qeff}, {cur, net}}})
			if ty == "Verkauf" && gross.IsZero() {
				tags["zero-proceeds-sale"] = true // the importer must go by the row type, not by the sign of the proceeds
			}
			tags["trade"] = true
		case k < 42: // forex pair: two rows, one transaction (on the second row's date)
			cur2 := Pick(r, c13Currencies)
			a1 := c13Amount(r, c13AmtOpts{MaxDecimals: 2}, tags)
			a2 := c13Amount(r, c13AmtOpts{MaxDecimals: 2}, tags).Neg()
			t1, t2 := "Forex-Gutschrift", "Forex-Belastung"
			if r.Chance(1, 3) {
				t1, t2 = "Fx-Gutschrift Comp.", "Fx-Belastung Comp."
			}
			recs = append(recs, []string{stamp(days[i]), "00000000", t1, "", "", "", "1.0", num(a1), "0.00", "0.00", num(a1), saldo, cur})
			recs = append(recs, []string{stamp(days[i]), "00000000", t2, "", "", "", "1.0", num(a2.Neg()), "0.00", "0.00", num(a2), saldo, cur2})
			st.Items = append(st.Items, c13Item{Kind: 'b', Day: days[i], Effs: []c13Eff{{cur, a1}, {cur2, a2}}})
			st.OneTx = false
			tags["forex-pair"] = true
		case k < 55: // dividend
			sym := Pick(r, syms)
			gross := c13Amount(r, c13AmtOpts{MaxDecimals: 2, AllowZero: true}, tags)
			wt := decimal.Zero
			if r.Chance(1, 2) {
				wt = c13Amount(r, c13AmtOpts{MaxDecimals: 2}, tags)
				tags["withholding"] = true
			}
			net := gross.Sub(wt)
			recs = append(recs, []string{stamp(days[i]), "00000000", Pick(r, []string{"Dividende", "Capital Gain", "Kapitalrückzahlung"}), sym, c13Text(r, to, tags), c13Text(r, to, tags), "1.0", num(gross), num(wt), "0.00", num(net), saldo, cur})
			st.Items = append(st.Items, c13Item{Kind: 'b', Day: days[i], Effs: []c13Eff{{cur, net}}})
			tags["dividend"] = true
		default:
			ty := Pick(r, []string{"Depotgebühren", "Einzahlung", "Auszahlung", "Vergütung", "Belastung", "Zins", "Spesen Steuerauszug", "Titeleingang"})
			net := c13Amount(r, c13AmtOpts{MaxDecimals: 8, AllowZero: true}, tags)
			if r.Chance(1, 2) {
				net = net.Neg()
			}
			recs = append(recs, []string{stamp(days[i]), "00000000", ty, "", "", "", "1.0", num(net.Abs()), "0.00", "0.00", num(net), saldo, cur})
			st.Items = append(st.Items, c13Item{Kind: 'b', Day: days[i], Effs: []c13Eff{{cur, net}}})
		}
	}
	st.File = []byte(c13Csv(r, recs, ';', c13CsvOptsFor(r, c13Dialects[st.Imp], tags)))
	st.Tags = c13Tags(tags)
	return st
}

func c13GenIB(r *RNG) *c13Stmt {
	tags := map[string]bool{}
	acct := c13ImportAccount(r)
	dividend := c13Account(r, []string{"Income"})
	tax := c13Account(r, []string{"Expenses"})
	fee := c13Account(r, []string{"Expenses"})
	interest := c13Account(r, []string{"Income", "Expenses"})
	trading := c13Account(r, []string{"Expenses", "Equity"})
	n := c13RowCount(r)
	days := c13Days(r, n+1)
	st := &c13Stmt{Imp: "us.interactivebrokers", Flags: []string{acct, dividend, tax, fee, interest, trading},
		Args:     []string{"--account", acct, "--dividend", dividend, "--tax", tax, "--fee", fee, "--interest", interest, "--trading", trading},
		Accounts: []string{acct, dividend, tax, fee, interest, trading, "Expenses:TBD"}, Rows: n, OneTx: true, Checked: true}
	to := c13TextOpts{Newline: true}
	base := Pick(r, []string{"CHF", "EUR", "USD"})
	// fine: amounts with more than two decimals in the fields the importer rounds
	fine := r.Chance(1, 3)
	maxDec := 2
	if fine {
		maxDec = 6
		tags["sub-cent-amounts"] = true
	}
	from, toDay := days[0], days[n]+r.Intn(5)
	long := func(z int) string { return dayTime(z).Format("January 2, 2006") }
	recs := [][]string{
		{"Statement", "Header", "Field Name", "Field Value"},
		{"Statement", "Data", "BrokerName", "Interactive Brokers"},
		{"Statement", "Data", "Title", c13Text(r, to, tags)},
		{"Statement", "Data", "Period", long(from) + " - " + long(toDay)},
		{"Account Information", "Data", "Name", c13Text(r, to, tags)},
		{"Account Information", "Data", "Base Currency", base},
	}
	syms := []string{"AAPL", "VWRL", "NESN", "X9"}
	cash := map[string]decimal.Decimal{} // per commodity, as the importer books (rounded)
	num := func(v decimal.Decimal) string { return c13Num(r, v, ",", tags) }
	var strict []c13Item
	add := func(day int, effs, exact []c13Eff) {
		st.Items = append(st.Items, c13Item{Kind: 'b', Day: day, Effs: effs})
		strict = append(strict, c13Item{Kind: 'b', Day: day, Effs: exact})
		for _, e := range effs {
			if len(e.Com) > 0 {
				cash[e.Com] = cash[e.Com].Add(e.Qty)
			}
		}
	}
	for i := 0; i < n; i++ {
		day := days[i]
		cur := Pick(r, []string{"USD", "CHF", "EUR"})
		stamp := ymd(day) + fmt.Sprintf(", %02d:17:49", r.Intn(24))
		switch k := r.Intn(100); {
		case k < 30: // stock trade
			sym := Pick(r, syms)
			q := decimal.New(int64(r.Range(1, 300)), 0)
			if fine && r.Chance(1, 2) {
				q = decimal.New(int64(r.Range(1, 99999)), -4)
			}
			if r.Chance(1, 3) {
				q = q.Neg()
			}
			p := c13Amount(r, c13AmtOpts{MaxDecimals: 4}, tags)
			proceeds := q.Mul(p).Neg().Round(int32(maxDec))
			f := c13Amount(r, c13AmtOpts{MaxDecimals: maxDec, AllowZero: true}, tags).Neg()
			recs = append(recs, []string{"Trades", "Data", "Order", "Stocks", cur, sym, stamp, num(q), num(p), num(p), num(proceeds), f.String(), "0", "0", "40.425", "O"})
			add(day, []c13Eff{{sym, q.Round(2)}, {cur, proceeds.Round(2).Add(f)}}, []c13Eff{{sym, q}, {cur, proceeds.Add(f)}})
			tags["stock-trade"] = true
		case k < 45: // forex trade
			other := Pick(r, []string{"CHF", "EUR", "USD", "GBP"})
			q := c13Amount(r, c13AmtOpts{MaxDecimals: maxDec}, tags)
			if r.Chance(1, 2) {
				q = q.Neg()
			}
			p := c13Amount(r, c13AmtOpts{MaxDecimals: 5}, tags)
			proceeds := q.Mul(p).Neg().Round(int32(maxDec))
			f := decimal.Zero
			if r.Chance(1, 2) {
				f = c13Amount(r, c13AmtOpts{MaxDecimals: maxDec}, tags).Neg()
			}
			recs = append(recs, []string{"Trades", "Data", "Order", "Forex", cur, other + "." + cur, stamp, num(q), num(p), "", num(proceeds), num(f), "", "", "", "3.446", ""})
			effs := []c13Eff{{other, q.Round(2)}, {cur, proceeds.Round(2)}}
			exact := []c13Eff{{other, q}, {cur, proceeds}}
			if !f.Round(2).IsZero() {
				effs = append(effs, c13Eff{base, f.Round(2)})
			}
			if !f.IsZero() {
				exact = append(exact, c13Eff{base, f})
			}
			add(day, effs, exact)
			tags["forex-trade"] = true
		case k < 60: // deposit / withdrawal
			q := c13Amount(r, c13AmtOpts{MaxDecimals: maxDec, AllowZero: true}, tags)
			if r.Chance(1, 3) {
				q = q.Neg()
			}
			recs = append(recs, []string{"Deposits & Withdrawals", "Data", cur, ymd(day), c13Text(r, to, tags), num(q)})
			add(day, []c13Eff{{cur, q.Round(2)}}, []c13Eff{{cur, q}})
			tags["deposit"] = true
		case k < 75: // dividend (+ withholding tax)
			sym := Pick(r, syms)
			q := c13Amount(r, c13AmtOpts{MaxDecimals: 2, AllowZero: true}, tags)
			recs = append(recs, []string{"Dividends", "Data", cur, ymd(day), sym + "(US0378331005) Cash Dividend " + c13Text(r, to, tags), num(q)})
			add(day, []c13Eff{{cur, q}}, []c13Eff{{cur, q}})
			if r.Chance(1, 2) {
				t := c13Amount(r, c13AmtOpts{MaxDecimals: 2}, tags).Neg()
				recs = append(recs, []string{"Withholding Tax", "Data", cur, ymd(day), sym + "(US0378331005) Cash Dividend - US Tax " + c13Text(r, to, tags), num(t), ""})
				add(day, []c13Eff{{cur, t}}, []c13Eff{{cur, t}})
				tags["withholding"] = true
			}
			tags["dividend"] = true
		case k < 85: // interest
			q := c13Amount(r, c13AmtOpts{MaxDecimals: 2}, tags).Neg()
			recs = append(recs, []string{"Interest", "Data", cur, ymd(day), cur + " Debit Interest " + c13Text(r, to, tags), num(q)})
			add(day, []c13Eff{{cur, q}}, []c13Eff{{cur, q}})
			tags["interest"] = true
		default: // lines the importer must ignore
			switch r.Intn(4) {
			case 0:
				recs = append(recs, []string{"Dividends", "Data", "Total", "", "", "12.00"})
			case 1:
				recs = append(recs, []string{"Deposits & Withdrawals", "Data", "Total", "", "", "1000"})
			case 2:
				recs = append(recs, []string{"Trades", "SubTotal", "", "Stocks", "USD", "AAPL", "", "7", "", "", "-1.00", "-1.00", "0", "0", "40.425", ""})
			default:
				recs = append(recs, []string{"Notes/Legal Notes", "Data", c13Text(r, to, tags)})
			}
			tags["ignored-line"] = true
		}
	}
	// positions and cash at the end of the period, consistent with the bookings above
	if !fine && r.Chance(3, 4) {
		var coms []string
		for c := range cash {
			coms = append(coms, c)
		}
		sort.Strings(coms)
		for _, c := range coms {
			isCur := false
			for _, x := range []string{"USD", "CHF", "EUR", "GBP"} {
				if x == c {
					isCur = true
				}
			}
			if isCur {
				recs = append(recs, []string{"Forex Balances", "Data", "Forex", base, c, num(cash[c]), "0", "0", "0", "0", "0", ""})
			} else {
				recs = append(recs, []string{"Open Positions", "Data", "Summary", "Stocks", "USD", c, cash[c].String(), "1", "100.00", "100.00", "100.00", "100.00", "100.00", "100.00", ""})
			}
			st.Items = append(st.Items, c13Item{Kind: 'a', Day: toDay, Qty: cash[c], Com: c})
			strict = append(strict, c13Item{Kind: 'a', Day: toDay, Qty: cash[c], Com: c})
			tags["balances"] = true
		}
	}
	if fine {
		st.Strict = strict
	}
	st.File = []byte(c13Csv(r, recs, ',', c13CsvOptsFor(r, c13Dialects[st.Imp], tags)))
	st.Tags = c13Tags(tags)
	return st
}

// ---------------------------------------------------------------- long fields, long physical lines (stream long)
//
// Nothing in the property bounds the length of a free-text field or of a line of the statement: a payment reference with an
// embedded document, a remittance text of some hundred KiB, a quoted field that runs over thousands of lines are rows like any
// other, and every row before, at and after them yields its transaction. The other streams write fields of a few words (lines
// below 1 KiB). Here one to three free-text fields of a statement - in the first, a middle or the last rows, for every importer
// and every free-text column, ch.viac: white space between two values - are 1 KiB to 1 MiB long, with lengths just around
// the sizes at which readers, scanners and buffers change behaviour (4096, 65536, 1 MiB and the powers of two between, +-2),
// measured on the FIELD or on the PHYSICAL LINE that holds it, as plain words, one unbroken token, text with embedded line
// ends (a long logical field on short physical lines, or on one long line among short ones), Unicode / ISO 8859-1 text (a
// multi-byte character across the boundary), or text full of quotes and separators (every quote doubled in the file).
// The statement's rows, amounts and dates, and so the generator's reading of it, are those of the same draws without the long
// text: the filler comes from a generator of its own, so the draws of the statement are not disturbed.

type c13LongSpec struct {
	Kind  string `json:"kind"`  // plain, solid, newlines, newline-long, unicode, quotes
	Len   int    `json:"bytes"` // length of the filler in bytes (UTF-8; ISO 8859-1 statements: characters)
	Place string `json:"place"` // after, before, alone: where the filler stands relative to the field's own words
	Call  int    `json:"free_text_field"`
}

type c13LongPlan struct {
	seed  uint64
	calls int
	at    map[int]*c13LongSpec
}

// c13Long != nil: c13Text counts its calls and extends the fields named in the plan (the stream long sets it while it builds a
// statement, which happens sequentially).
var c13Long *c13LongPlan

func (p *c13LongPlan) visit(s string, o c13TextOpts, tags map[string]bool) string {
	k := p.calls
	p.calls++
	sp, ok := p.at[k]
	if !ok {
		return s
	}
	fill := c13LongFill(NewRNG(p.seed, "long-fill", k), sp.Kind, sp.Len, o)
	tags["long-field"] = true
	if strings.ContainsAny(fill, "\n\r") {
		tags["newline"] = true
	}
	if strings.Contains(fill, "\"") {
		tags["quote"] = true
	}
	switch sp.Place {
	case "after":
		return s + " " + fill
	case "before":
		return fill + " " + s
	}
	return fill
}

// c13LongFill: n bytes of text of the given kind (cut at a character boundary; never ending in a blank).
func c13LongFill(r *RNG, kind string, n int, o c13TextOpts) string {
	var b strings.Builder
	b.Grow(n + 64)
	uni := c13UniWords
	if o.Latin1 {
		uni = c13LatinWords
	}
	if !o.Newline && (kind == "newlines" || kind == "newline-long") {
		kind = "plain"
	}
	nextBreak := r.Range(20, 200)
	if kind == "newline-long" {
		// a few short lines, then one long one
		for i := r.Range(1, 4); i > 0; i-- {
			b.WriteString(Pick(r, c13PlainWords))
			b.WriteString(Pick(r, []string{"\n", "\n", "\r\n"}))
		}
	}
	for b.Len() < n {
		switch kind {
		case "solid":
			b.WriteString(Pick(r, []string{"REF", "0123456789", "ABCDEF", "x", "4711", "ZZ9", "k"}))
			continue
		case "unicode":
			if r.Chance(1, 2) {
				b.WriteString(Pick(r, uni))
			} else {
				b.WriteString(Pick(r, c13PlainWords))
			}
		case "quotes":
			if r.Chance(1, 3) {
				b.WriteString(Pick(r, []string{"\"", "\"\"", "a;b", ";", "x,y", ",", "say \"hi\"", "'", "=\"f\"", "\\\""}))
			} else {
				b.WriteString(Pick(r, c13PlainWords))
			}
		case "newlines":
			b.WriteString(Pick(r, c13PlainWords))
			if b.Len() >= nextBreak {
				b.WriteString(Pick(r, []string{"\n", "\n", "\r\n", "\n\n"}))
				nextBreak = b.Len() + r.Range(1, 400)
				continue
			}
		default:
			b.WriteString(Pick(r, c13PlainWords))
		}
		b.WriteString(" ")
	}
	s := b.String()
	if len(s) > n {
		s = s[:n]
		for len(s) > 0 {
			if ch, size := utf8.DecodeLastRuneInString(s); ch != utf8.RuneError || size != 1 {
				break
			}
			s = s[:len(s)-1]
		}
	}
	if k := len(s); k > 0 && (s[k-1] == ' ' || s[k-1] == '\n' || s[k-1] == '\r') {
		s = s[:k-1] + "x"
	}
	return s
}

// the sizes at which readers, scanners and buffers change behaviour
var c13LongEdges = []int{4096, 65536, 1 << 20}
var c13LongOtherEdges = []int{1024, 2048, 8192, 16384, 32768, 131072, 262144, 524288}

type c13LongCase struct {
	Target  string        `json:"length_measured_on"` // field | line
	Edge    int           `json:"edge,omitempty"`
	Want    int           `json:"wanted_bytes"`
	Where   string        `json:"where"` // first, middle, last, any
	Fields  []c13LongSpec `json:"long_fields"`
	Texts   int           `json:"free_text_fields"`
	MaxLine int           `json:"longest_physical_line"`
	Exact   bool          `json:"line_length_exact"`
}

func c13LogUniform(r *RNG, lo, hi int) int {
	// uniform in the exponent: as many sizes between 1 and 2 KiB as between 512 KiB and 1 MiB
	steps := 0
	for x := lo; x < hi; x *= 2 {
		steps++
	}
	v := lo << r.Intn(steps)
	v += r.Intn(v)
	if v > hi {
		v = hi
	}
	return v
}

func c13LongestLine(file []byte) int {
	m, start := 0, 0
	for i, ch := range file {
		if ch == '\n' {
			if i+1-start > m {
				m = i + 1 - start
			}
			start = i + 1
		}
	}
	if len(file)-start > m {
		m = len(file) - start
	}
	return m
}

// c13GenLong: the statement of the draws of r for importer imp, with long free-text fields as class cls (0..11) says; huge =
// false turns the MiB sizes into sizes around 64 KiB (quick tier: most indices).
func c13GenLong(mk func() *RNG, imp string, cls int, huge bool) (*c13Stmt, *c13LongCase) {
	pr := mk()
	plan := NewRNG(pr.Next(), "long-plan", cls)
	fillSeed := pr.Next()
	rows := plan.Range(1, 40)
	if plan.Chance(1, 4) {
		rows = plan.Range(1, 3)
	}
	lc := &c13LongCase{Target: "field"}
	delta := plan.Range(-2, 2)
	switch cls {
	case 0, 10:
		lc.Target, lc.Edge = "line", 65536
	case 1:
		lc.Edge = 65536
	case 2:
		lc.Target, lc.Edge = "line", 4096
	case 3:
		lc.Edge = 1 << 20
	case 4:
		lc.Want = c13LogUniform(plan, 1024, 1<<20)
	case 5:
		lc.Target, lc.Want = "line", 65536+plan.Range(3, 6000)
	case 6:
		lc.Edge = 4096
	case 7:
		lc.Target, lc.Edge = "line", 1<<20
	case 8:
		lc.Target, lc.Edge = Pick(plan, []string{"line", "field"}), Pick(plan, c13LongOtherEdges)
	case 9:
		lc.Want = plan.Range(65536, 200000)
	default:
		lc.Want = c13LogUniform(plan, 1024, 65536)
	}
	if !huge && (lc.Edge > 300000 || lc.Want > 300000) {
		lc.Edge, lc.Want = 65536, 0
	}
	if lc.Edge > 0 {
		lc.Want = lc.Edge + delta
	}
	kinds := []string{"plain", "plain", "solid", "unicode", "quotes", "newlines", "newline-long"}
	if lc.Target == "line" {
		kinds = []string{"plain", "plain", "solid", "unicode", "quotes", "newline-long"}
	}
	kind := Pick(plan, kinds)
	if cls == 10 {
		kind = "newline-long"
	}
	lc.Where = Pick(plan, []string{"first", "middle", "last", "last", "any"})
	place := Pick(plan, []string{"after", "after", "before", "alone"})
	extra := 0
	if plan.Chance(1, 4) {
		extra = plan.Range(1, 2)
	}
	gen := func(at map[int]*c13LongSpec) (*c13Stmt, int) {
		c13ForceRows = rows
		c13Long = &c13LongPlan{seed: fillSeed, at: at}
		defer func() { c13ForceRows, c13Long = 0, nil }()
		st := c13Gen(mk(), imp)
		return st, c13Long.calls
	}
	st, texts := gen(nil)
	if texts == 0 && !c13Dialects[imp].JSON {
		rows = 40 // ch.swissquote: only trades and dividends carry free text
		st, texts = gen(nil)
	}
	lc.Texts = texts
	if c13Dialects[imp].JSON {
		// ch.viac: no free text; white space between two values of the array (or before / after the document)
		ws := c13LongFill(plan, Pick(plan, []string{"plain", "newlines"}), lc.Want, c13TextOpts{Newline: true})
		ws = strings.Map(func(ch rune) rune {
			switch {
			case ch == '\n' || ch == '\r' || ch == ' ':
				return ch
			case ch == 'x':
				return '\t'
			}
			return ' '
		}, ws)
		text := string(st.File)
		var cuts []int
		for i := 0; i+1 < len(text); i++ {
			if text[i] == ',' && text[i+1] == '{' {
				cuts = append(cuts, i+1)
			}
		}
		cuts = append(cuts, 0, len(text))
		at := cuts[plan.Intn(len(cuts))]
		switch {
		case lc.Where == "first":
			at = cuts[0]
		case lc.Where == "last" && len(cuts) > 2:
			at = cuts[len(cuts)-3]
		}
		st.File = []byte(text[:at] + ws + text[at:])
		st.Tags = append(st.Tags, "long-field")
		sort.Strings(st.Tags)
		lc.Target = "field"
		lc.Fields = []c13LongSpec{{Kind: "white space", Len: len(ws), Place: fmt.Sprintf("at byte %d", at)}}
		lc.MaxLine = c13LongestLine(st.File)
		return st, lc
	}
	if texts == 0 {
		lc.MaxLine = c13LongestLine(st.File)
		return st, lc
	}
	pickCall := func(where string) int {
		span := min(3, texts)
		switch where {
		case "first":
			return plan.Intn(span)
		case "last":
			return texts - 1 - plan.Intn(span)
		case "middle":
			return texts/2 + plan.Intn(span) - span/2
		}
		return plan.Intn(texts)
	}
	at := map[int]*c13LongSpec{}
	main := &c13LongSpec{Kind: kind, Len: lc.Want, Place: place, Call: min(max(pickCall(lc.Where), 0), texts-1)}
	at[main.Call] = main
	for ; extra > 0; extra-- {
		k := pickCall("any")
		if _, ok := at[k]; !ok {
			at[k] = &c13LongSpec{Kind: Pick(plan, kinds), Len: c13LogUniform(plan, 1024, min(32768, lc.Want/2+1024)), Place: "after", Call: k}
		}
	}
	// the wanted length is that of the longest physical line: adjust the filler until it is (the rest of the line does not
	// change with the filler's length; quotes are doubled and characters may take several bytes, hence more than one round)
	for round := 0; ; round++ {
		var calls int
		st, calls = gen(at)
		lc.MaxLine = c13LongestLine(st.File)
		if calls != texts {
			panic("c13GenLong: the long text changed the draws of the statement")
		}
		if lc.Target != "line" || lc.MaxLine == lc.Want || round == 5 {
			break
		}
		main.Len = max(16, main.Len+lc.Want-lc.MaxLine)
	}
	lc.Exact = lc.Target == "line" && lc.MaxLine == lc.Want
	var calls []int
	for k := range at {
		calls = append(calls, k)
	}
	sort.Ints(calls)
	for _, k := range calls {
		lc.Fields = append(lc.Fields, *at[k])
	}
	return st, lc
}
