import Knut.Spec.PartitionSpec
import Knut.Properties.C11
/-!
# Helper lemmas for C11's monitor soundness (`Properties/C11Monitor.lean`)

* `alignIn_eq_alignSpec` – on ANY consecutive list of non-empty periods ending at `b`, the model of
  `Partition.Align` returns what `Spec.alignSpec` computes;
* `partitionOK_of_tiles` – `Spec.partitionOK` holds of the (reversed) `n` newest periods of a tiling;
* `periods_shape` – the model's output is such a list.
-/

namespace Knut.C11
open Knut Knut.Date Knut.Spec

theorem consecutiveB_of : ∀ (L : List Period), Consecutive L → consecutiveB L = true
  | [], _ => rfl
  | [_], _ => rfl
  | p :: q :: rest, h => by
    obtain ⟨h1, h2⟩ := h
    simp only [consecutiveB, Bool.and_eq_true, beq_iff_eq]
    exact ⟨h1, consecutiveB_of (q :: rest) h2⟩

/-- in a consecutive list of non-empty periods everything after the head starts after the head ends -/
theorem consecutive_head_lt : ∀ (p : Period) (rest : List Period), Consecutive (p :: rest) →
    (∀ r ∈ p :: rest, r.start ≤ r.stop) → ∀ r ∈ rest, p.stop < r.start
  | _, [], _, _, r, hr => by simp at hr
  | p, q :: rest, hc, hle, r, hr => by
    obtain ⟨h1, h2⟩ := hc
    rcases List.mem_cons.mp hr with rfl | hr'
    · omega
    · have := consecutive_head_lt q rest h2 (fun r hr => hle r (List.mem_cons_of_mem _ hr)) r hr'
      have := hle q (by simp)
      omega

theorem consecutive_tail : ∀ (p : Period) (rest : List Period), Consecutive (p :: rest) → Consecutive rest
  | _, [], _ => trivial
  | _, _ :: _, h => h.2

/-- `Align` on any consecutive list of non-empty periods ending at `b` is what the monitor expects -/
theorem alignIn_eq_alignSpec (b d : Int) : ∀ (ps : List Period), Consecutive ps →
    (∀ p ∈ ps, p.start ≤ p.stop) → (∀ p ∈ ps, p.stop ≤ b) → (∀ p, ps.getLast? = some p → p.stop = b) →
    alignIn ps d = alignSpec b ps d
  | [], _, _, _, _ => by
    unfold alignIn alignSpec; split <;> simp
  | p :: rest, hc, hle, hb, hlast => by
    have ih := alignIn_eq_alignSpec b d rest (consecutive_tail p rest hc)
      (fun r hr => hle r (List.mem_cons_of_mem _ hr)) (fun r hr => hb r (List.mem_cons_of_mem _ hr))
    have hp := hle p (by simp)
    have hpb := hb p (by simp)
    by_cases hbd : b < d
    · -- after the window: nothing found
      have h1 : alignSpec b (p :: rest) d = none := by unfold alignSpec; simp [hbd]
      rw [h1]
      unfold alignIn
      have : (p :: rest).find? (fun p => !(decide (p.stop < d))) = none := by
        apply List.find?_eq_none.mpr
        intro q hq
        have := hb q hq
        simp; omega
      rw [this]; rfl
    · by_cases hd : d ≤ p.stop
      · have h1 : alignIn (p :: rest) d = some p.stop := by
          unfold alignIn
          have : ¬ p.stop < d := by omega
          simp [this]
        rw [h1]
        unfold alignSpec
        simp only [hbd, if_false]
        by_cases hs : p.start ≤ d
        · simp [hs, hd]
        · have hnone : rest.find? (fun p => decide (p.start ≤ d) && decide (d ≤ p.stop)) = none := by
            apply List.find?_eq_none.mpr
            intro q hq
            have := consecutive_head_lt p rest hc hle q hq
            simp; omega
          have : d < p.start := by omega
          simp [hs, hnone, this]
      · -- d is after p
        have hd' : p.stop < d := by omega
        have h1 : alignIn (p :: rest) d = alignIn rest d := by
          unfold alignIn
          simp [hd']
        cases rest with
        | nil =>
          have := hlast p (by simp)
          omega
        | cons q rest' =>
          have hlast' : ∀ r, (q :: rest').getLast? = some r → r.stop = b := by
            intro r hr
            apply hlast r
            rw [List.getLast?_cons_cons]; exact hr
          rw [h1, ih hlast']
          unfold alignSpec
          simp only [hbd, if_false]
          have hnd : ¬ d ≤ p.stop := hd
          have e1 : (p :: q :: rest').find? (fun p => decide (p.start ≤ d) && decide (d ≤ p.stop)) =
              (q :: rest').find? (fun p => decide (p.start ≤ d) && decide (d ≤ p.stop)) := by
            simp [List.find?_cons, hnd]
          rw [e1]
          cases hf : (q :: rest').find? (fun p => decide (p.start ≤ d) && decide (d ≤ p.stop)) with
          | some r => rfl
          | none =>
            have hq : q.start = p.stop + 1 := hc.1.symm
            have n1 : ¬ d < q.start := by omega
            have n2 : ¬ d < p.start := by omega
            simp [n1, n2]


theorem not_once_ne {iv : Interval} (h : iv ≠ .once) : (iv = Interval.once) = False := by simp [h]

/-- the monitor predicate holds of every prefix (the `n` newest periods, `n ≥ 1`) of a tiling of a
non-empty window, provided `n` is what `last` asks for -/
theorem partitionOK_of_tiles {a b : Int} {iv : Interval} {last : Int} {L0 : List Period} {n : Nat}
    (hiv : iv ≠ .once) (hab : a ≤ b) (ht : Tiles a iv b L0)
    (h0 : last ≤ 0 → L0.length ≤ n) (h1 : 0 < last → n = last.toNat) :
    partitionOK a b iv last (L0.take n).reverse = true := by
  -- the full tiling is not empty
  obtain ⟨p0, rest0, hL0⟩ : ∃ p0 rest0, L0 = p0 :: rest0 := by
    cases L0 with
    | nil => unfold Tiles at ht; omega
    | cons p r => exact ⟨p, r, rfl⟩
  have hn : 1 ≤ n := by
    by_cases hl : last ≤ 0
    · have := h0 hl; rw [hL0] at this; simp at this; omega
    · have := h1 (by omega); omega
  obtain ⟨m, rfl⟩ : ∃ m, n = m + 1 := ⟨n - 1, by omega⟩
  have hmem : ∀ p ∈ (L0.take (m + 1)).reverse, p ∈ L0 := fun p hp =>
    List.mem_of_mem_take (List.mem_reverse.mp hp)
  have hbnd := ht.mem_bounds
  have hp0 : p0.stop = b := ht.head_stop p0 (by rw [hL0]; rfl)
  have hcons : consecutiveB (L0.take (m + 1)).reverse = true :=
    consecutiveB_of _ (consecutive_reverse _ (take_consecutiveRev _ _ ht.consecutiveRev))
  have hlastq : (L0.take (m + 1)).reverse.getLast? = some p0 := by
    rw [List.getLast?_reverse, hL0]; rfl
  have hheadfull : L0.length ≤ m + 1 → ∀ p, (L0.take (m + 1)).reverse.head? = some p → p.start = a := by
    intro hlen p hp
    rw [List.take_of_length_le hlen, List.head?_reverse] at hp
    exact ht.getLast_start p hp
  have hne : ∃ q, (L0.take (m + 1)).reverse.head? = some q := by
    cases hh : (L0.take (m + 1)).reverse.head? with
    | some q => exact ⟨q, rfl⟩
    | none =>
      rw [List.head?_eq_none_iff] at hh
      rw [hh] at hlastq; simp at hlastq
  unfold partitionOK
  have hba : ¬ b < a := by omega
  simp only [not_once_ne hiv, if_false, hba, hcons, hlastq, Bool.true_and, Bool.and_eq_true]
  refine ⟨⟨⟨⟨?_, ?_⟩, ?_⟩, ?_⟩, ?_⟩
  · rw [List.all_eq_true]
    intro p hp
    have := hbnd p (hmem p hp)
    simp; omega
  · rw [List.all_eq_true]
    intro p hp
    have := hbnd p (hmem p hp)
    simp only [decide_eq_true_eq]
    rw [this.2.2.2]; unfold clampStart; split <;> omega
  · rw [List.all_eq_true]
    intro p hp
    have := (hbnd p (hmem p hp)).2.2.2
    simp only [Bool.or_eq_true, decide_eq_true_eq]
    unfold clampStart at this
    split at this
    · exact Or.inl this
    · exact Or.inr this
  · simp [hp0]
  · obtain ⟨q, hq⟩ := hne
    by_cases hl : last ≤ 0
    · simp only [hl, if_true, hq, beq_iff_eq]
      exact hheadfull (h0 hl) q hq
    · have hn' := h1 (by omega)
      simp only [hl, if_false, hq, Bool.and_eq_true, Bool.or_eq_true, decide_eq_true_eq, beq_iff_eq,
        List.length_reverse, List.length_take]
      refine ⟨by omega, ?_⟩
      by_cases hlen : L0.length ≤ m + 1
      · exact Or.inr (hheadfull hlen q hq)
      · left; omega


/-- shape of the model's output for a proper interval: the reversed `n` newest periods of the full tiling -/
theorem periods_shape {span : Period} {iv : Interval} {last : Int} {P : Partition}
    (h : newPartition span iv last = .ok P) (hiv : iv ≠ .once) :
    ∃ L0 n, Tiles span.start iv span.stop L0 ∧ P.periods = (L0.take n).reverse ∧
      (last ≤ 0 → L0.length ≤ n) ∧ (0 < last → n = last.toNat) := by
  have ⟨_, hp⟩ := periods_eq h
  by_cases hl : last ≤ 0
  · refine ⟨partLoop span.start iv last span.stop 0, (partLoop span.start iv last span.stop 0).length,
      partLoop_tiles _ _ _ _ _ hl, ?_, fun _ => Nat.le_refl _, fun h => by omega⟩
    rw [hp, List.take_length]
    simp only [periodsOf, hiv, if_false]
  · refine ⟨partLoop span.start iv 0 span.stop 0, last.toNat,
      partLoop_tiles _ _ _ _ _ (Int.le_refl _), ?_, fun h => by omega, fun _ => rfl⟩
    rw [hp]
    simp only [periodsOf, hiv, if_false]
    rw [partLoop_last _ _ _ _ _ (by omega) (Int.le_refl _) (by omega)]
    simp

end Knut.C11
