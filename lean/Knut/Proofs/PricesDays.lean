import Knut.Proofs.PricesSpec
/-!
# `journal.ComputePrices`: what `Day.Normalized` is on every day
-/
namespace Knut.Prices
open Knut Knut.Dec Knut.Spec

/-- the declarations of the days `0 … i`, in journal order -/
def declsUpTo (days : List Day) (i : Nat) : List Decl := (days.take (i + 1)).flatMap (·.prices)

theorem insertAll_append (ps : Prices) (a b : List Decl) :
    insertAll ps (a ++ b) = (insertAll ps a).bind (fun ps' => insertAll ps' b) := by
  induction a generalizing ps with
  | nil => simp [insertAll]
  | cons d rest ih =>
    simp only [List.cons_append, insertAll]
    cases insert ps d with
    | none => rfl
    | some ps1 => exact ih ps1

theorem declsUpTo_zero (d : Day) (ds : List Day) : declsUpTo (d :: ds) 0 = d.prices := by
  simp [declsUpTo]

theorem declsUpTo_succ (d : Day) (ds : List Day) (i : Nat) :
    declsUpTo (d :: ds) (i + 1) = d.prices ++ declsUpTo ds i := by
  simp [declsUpTo]

/-- `Day.Normalized` of day `i` is `Normalize(v)` of the price map holding every declaration of the days
`0 … i` (inserted in journal order), or nil if there is none yet.  `pre` are the declarations already
in the processor's map. -/
theorem computePrices_spec (v : Commodity) (days : List Day) :
    ∀ (st : CPState) (pre : List Decl) (out : List (Int × Option NPrices)),
    insertAll [] pre = some st.prc →
    st.previous = (if pre = [] then none else some (normalize st.prc v)) →
    computePrices v st days = some out →
    out.length = days.length ∧
    ∀ i (hi : i < days.length), ∃ ps, insertAll [] (pre ++ declsUpTo days i) = some ps ∧
      out[i]? = some (days[i].date, if pre ++ declsUpTo days i = [] then none else some (normalize ps v)) := by
  induction days with
  | nil =>
    intro st pre out _ _ h
    simp only [computePrices, Option.some.injEq] at h
    subst h
    exact ⟨rfl, fun i hi => absurd hi (Nat.not_lt_zero i)⟩
  | cons d ds ih =>
    intro st pre out hst hprev h
    simp only [computePrices, cpDay] at h
    cases hins : insertAll st.prc d.prices with
    | none => simp [hins] at h
    | some prc =>
      simp only [hins] at h
      -- the state after the day
      have hpre' : insertAll [] (pre ++ d.prices) = some prc := by
        rw [insertAll_append, hst]; exact hins
      have hprev' : (if d.prices.length > 0 then some (normalize prc v) else st.previous) =
          (if pre ++ d.prices = [] then none else some (normalize prc v)) := by
        by_cases hd : d.prices = []
        · have hprc : prc = st.prc := by
            rw [hd] at hins; simp only [insertAll, Option.some.injEq] at hins; exact hins.symm
          simp [hd, hprev, hprc]
        · have : d.prices.length > 0 := List.length_pos_iff.mpr hd
          simp [this, hd]
      cases hrest : computePrices v { prc := prc, previous := if d.prices.length > 0 then some (normalize prc v) else st.previous } ds with
      | none => simp [hrest] at h
      | some rest =>
        simp only [hrest, Option.some.injEq] at h
        subst h
        have := ih { prc := prc, previous := if d.prices.length > 0 then some (normalize prc v) else st.previous }
          (pre ++ d.prices) rest hpre' hprev' hrest
        refine ⟨by simp [this.1], ?_⟩
        intro i hi
        cases i with
        | zero =>
          refine ⟨prc, by rw [declsUpTo_zero]; exact hpre', ?_⟩
          simp only [List.getElem?_cons_zero, List.getElem_cons_zero, declsUpTo_zero, hprev']
        | succ j =>
          have hj : j < ds.length := by simpa using hi
          obtain ⟨ps, h1, h2⟩ := this.2 j hj
          refine ⟨ps, by rw [declsUpTo_succ, ← List.append_assoc]; exact h1, ?_⟩
          simp only [List.getElem?_cons_succ, List.getElem_cons_succ, declsUpTo_succ, ← List.append_assoc]
          exact h2

end Knut.Prices
