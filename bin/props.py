# Per-property configuration of bin/check: Lean modules holding the property theorems, level, notes.
PROPS = {
    "C11": {
        "lean": ["Knut.Properties.C11"],
        "level": "proof",
        "claim": "Lean theorems for all windows, all six intervals and all --last values over the model of lib/common/date: periods are consecutive, "
                 "cover the window exactly, are pairwise disjoint, lie within one calendar unit, start at the window start or a unit start, --last n keeps the n "
                 "most recent, Align attributes inside/before/after dates as stated, inverted windows give no (or one empty) period; the loop's termination is a "
                 "well-founded recursion. The calendar model (year/month/day/weekday from a day number) is tied to Go's time package by an exhaustive comparison "
                 "over every day 0001-01-01..9999-12-31 in the thorough tier; partitions and Align by differential runs of date.NewPartition; the property "
                 "predicate (Lean partitionOK/alignSpec) is evaluated on the real output of every case.",
        "note": "Trusted: Lean kernel; axioms propext, Classical.choice, Quot.sound; Go time package outside the compared range; sort.Search modelled as linear search; "
                "flag parsing in cmd/flags (Multiperiod.Partition = NewPartition(period.Clip(journal period), interval, last)) is covered through the balance checks (C02), not here.",
        "rule": "stream calendar: day numbers (quick: 20k random + all month borders 1890-2110; thorough: every day 0001-01-01..9999-12-31) "
                "compared on Year/Month/Day/Weekday/StartOf x6/EndOf x6; stream partition: random windows (inverted, single day, long, near zero time, "
                "on unit borders) x 6 intervals x --last values, compared on the period list and on Align at border/random probe dates, "
                "and monitored with the Lean predicates partitionOK/alignSpec. A class = (month, weekday, leap) resp. "
                "(interval, inverted?, sign of last, bucket of period count); distinct_nontrivial counts classes hit.",
        "assumptions": ["Go's time package (Date normalisation, AddDate, Weekday) behaves as the day-number model on 0001..9999 (checked exhaustively in the thorough tier)",
                        "sort.Search in Partition.Align is modelled as a linear search over the (strictly increasing) period ends"],
    },
}

NOT_APPLICABLE = {}
