import Knut.Properties.C05
/-!
# C06 — Output is a function of the input alone

In the model every place where the Go code ranges over a map or receives from concurrent producers
takes the enumeration order as it comes (the order of an association list / of a directive list).
"Output is a function of the input" then means: *the result is the same for every permutation of those
lists*.  The code achieves this in exactly three ways, and each is a theorem here, for every input:

1. **sort before use** (`dict.SortedKeys`, `compare.Sort` with a total comparator: price normalisation,
   report rows, commodities/dates of a row, bayes candidates and tokens, revolut2 balances) —
   `C06_sort_oracle_irrelevant`, `C06_sorted_fold_oracle_irrelevant`;
2. **fold a commutative operation** (`Amounts.Add`, `SumBy`, `SumOver`, `Totals`, min/max of the journal
   period) — `C06_sum_oracle_irrelevant`, `C06_comm_fold_oracle_irrelevant`;
3. **group by a key and keep per-key order** (the journal builder: C05's `ofList_spec`).

Consequences proved: `C06_report_cells_deterministic` (any two enumerations of the report inserts give
the same cells), `C06_journal_deterministic` (any two arrival orders of the directives give the same
days, the same per-day-and-kind contents up to order and the same journal period).

PARTIAL: the theorems cover the model's enumeration sites generically; that the Go code has no *other*
order leak (and float summation order in `portfolio`/`infer` scores, which the exact/abstract model
cannot exhibit) is decided by running every command repeatedly on tie-rich inputs under different
schedule seeds, GOMAXPROCS values and (by Go's per-run map randomisation) map orders, comparing stdout
bytes and exit status.
-/
namespace Knut.C06
open Knut

/-- **sorting removes the enumeration order**: for a transitive, total, antisymmetric comparator the
sorted list is the same for every permutation of the input. -/
theorem C06_sort_oracle_irrelevant {α : Type} (le : α → α → Bool)
    (trans : ∀ a b c, le a b → le b c → le a c) (total : ∀ a b, le a b || le b a)
    (antisymm : ∀ a b, le a b → le b a → a = b) (l l' : List α) (hp : l.Perm l') :
    l.mergeSort le = l'.mergeSort le := by
  apply List.Perm.eq_of_pairwise (le := fun a b => le a b = true)
  · intro a b _ _ h1 h2; exact antisymm a b h1 h2
  · exact List.pairwise_mergeSort trans total l
  · exact List.pairwise_mergeSort trans total l'
  · exact (List.mergeSort_perm l le).trans (hp.trans (List.mergeSort_perm l' le).symm)

/-- a fold over the *sorted* keys of a map does not depend on the map's iteration order -/
theorem C06_sorted_fold_oracle_irrelevant {κ ν β : Type} (le : κ → κ → Bool)
    (trans : ∀ a b c, le a b → le b c → le a c) (total : ∀ a b, le a b || le b a)
    (antisymm : ∀ a b, le a b → le b a → a = b)
    (m m' : List (κ × ν)) (hp : m.Perm m') (f : β → κ → β) (init : β) :
    ((m.map (·.1)).mergeSort le).foldl f init = ((m'.map (·.1)).mergeSort le).foldl f init := by
  rw [C06_sort_oracle_irrelevant le trans total antisymm _ _ (hp.map _)]

/-- sums of amounts do not depend on the enumeration order -/
theorem C06_sum_oracle_irrelevant (l l' : List Rat) (hp : l.Perm l') : l.sum = l'.sum := C05.sum_perm hp

/-- folding an operation whose steps commute does not depend on the enumeration order -/
theorem C06_comm_fold_oracle_irrelevant {α β : Type} (f : β → α → β)
    (hcomm : ∀ b x y, f (f b x) y = f (f b y) x) (l l' : List α) (hp : l.Perm l') (init : β) :
    l.foldl f init = l'.foldl f init := by
  induction hp generalizing init with
  | nil => rfl
  | cons x _ ih => simp only [List.foldl_cons]; exact ih _
  | swap x y l => simp only [List.foldl_cons, hcomm]
  | trans _ _ ih1 ih2 => rw [ih1, ih2]

/-- **report cells**: any two enumerations of the report inserts give the same cells -/
theorem C06_report_cells_deterministic (es es' : List Entry) (hp : es.Perm es') (byCom : Bool)
    (c : Option Commodity) (d : Int) :
    BalanceReport.cellAt es byCom c d = BalanceReport.cellAt es' byCom c d := C05.C05_cells_perm es es' hp byCom c d

/-- **journal**: any two arrival orders of the directives give the same days, the same contents per
day and kind up to order, and the same journal period -/
theorem C06_journal_deterministic (ds ds' : List Directive) (hp : ds.Perm ds') :
    (Builder.ofList ds).days.map (·.date) = (Builder.ofList ds').days.map (·.date) ∧
    (∀ y, (contentOn txKind (Builder.ofList ds).days y).Perm (contentOn txKind (Builder.ofList ds').days y)) ∧
    (Builder.ofList ds).min = (Builder.ofList ds').min ∧ (Builder.ofList ds).max = (Builder.ofList ds').max := by
  refine ⟨C05.C05_same_dates ds ds' hp, fun y => C05.C05_same_day_content txKind ds ds' hp y, ?_, ?_⟩
  · rw [(C05.builder_period ds).1, (C05.builder_period ds').1, (C05.C05_journal_period_perm ds ds' hp).1]
  · rw [(C05.builder_period ds).2, (C05.builder_period ds').2, (C05.C05_journal_period_perm ds ds' hp).2]

/-! Non-vacuity: the comparator hypotheses are satisfiable (integers), and a concrete permutation. -/
example : [3, 1, 2].mergeSort (fun (a b : Int) => decide (a ≤ b)) = [2, 3, 1].mergeSort (fun a b => decide (a ≤ b)) := by
  apply C06_sort_oracle_irrelevant
  · intro a b c h1 h2; simp at *; omega
  · intro a b; simp; omega
  · intro a b h1 h2; simp at *; omega
  · decide

end Knut.C06
