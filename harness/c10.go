package main

import (
	"context"
	"fmt"
	"os"
	"os/exec"
	"path/filepath"
	"runtime"
	"sort"
	"strings"
	"time"

	"github.com/sboehler/knut/lib/journal"
	"github.com/sboehler/knut/lib/model"
	"github.com/sboehler/knut/lib/model/registry"
	"github.com/sboehler/knut/lib/model/transaction"
	"github.com/sboehler/knut/lib/syntax"
	"github.com/sboehler/knut/lib/syntax/parser"
	"github.com/shopspring/decimal"
)

func init() { runners["C10"] = runC10 }

// ---------------------------------------------------------------- inputs

type c10Booking struct{ Credit, Debit, Qty, Com string }

type c10Case struct {
	Date     string
	Desc     string
	Bookings []c10Booking
	Perf     []string // nil = no @performance
	HasPerf  bool
	Interval string
	Start    string
	End      string
	Account  string
	NoAccrue bool
	Text     string // if set, used as is (malformed stream / replay)
}

var c10Intervals = []string{"daily", "weekly", "monthly", "quarterly"}

func (k c10Case) text() string {
	if k.Text != "" {
		return k.Text
	}
	var b strings.Builder
	if !k.NoAccrue {
		fmt.Fprintf(&b, "@accrue %s %s %s %s\n", k.Interval, k.Start, k.End, k.Account)
	}
	if k.HasPerf {
		fmt.Fprintf(&b, "@performance(%s)\n", strings.Join(k.Perf, ","))
	}
	fmt.Fprintf(&b, "%s \"%s\"\n", k.Date, k.Desc)
	for _, bk := range k.Bookings {
		fmt.Fprintf(&b, "%s %s %s %s\n", bk.Credit, bk.Debit, bk.Qty, bk.Com)
	}
	return b.String()
}

var c10Accounts = map[string][]string{
	"A":  {"Assets:Bank", "Assets:Bank:Checking", "Assets:Cash", "Assets:Prepaid", "Assets"},
	"L":  {"Liabilities:Card", "Liabilities:Accrued", "Liabilities:Tax:Federal"},
	"Q":  {"Equity:Opening", "Equity:Equity", "Equity:Accruals"},
	"I":  {"Income:Salary", "Income:Interest", "Income:Salary:Bonus", "Income"},
	"E":  {"Expenses:Rent", "Expenses:Tax", "Expenses:Tax:Federal", "Expenses:Ünïcode", "Expenses"},
	"AC": {"Assets:Prepaid", "Liabilities:Accrued", "Equity:Accruals", "Assets:Accrual:Sub"},
}

var c10Types = []string{"A", "L", "Q", "I", "E"}

func c10Account(r *RNG) string { return Pick(r, c10Accounts[Pick(r, c10Types)]) }

func c10DateStr(r *RNG) string {
	switch r.Intn(8) {
	case 0: // month ends and starts
		t := time.Date(r.Range(2015, 2026), time.Month(r.Range(1, 12)), 1, 0, 0, 0, 0, time.UTC).AddDate(0, 0, -r.Intn(2))
		return t.Format("2006-01-02")
	case 1: // around leap days
		return Pick(r, []string{"2020-02-28", "2020-02-29", "2020-03-01", "2019-02-28", "2100-02-28", "2000-02-29", "2024-12-31", "2025-01-01"})
	}
	return time.Date(r.Range(1990, 2035), time.Month(r.Range(1, 12)), r.Range(1, 28), 0, 0, 0, 0, time.UTC).Format("2006-01-02")
}

func c10Qty(r *RNG) string {
	switch r.Intn(10) {
	case 0, 1:
		return fmt.Sprintf("%d", r.Range(1, 20000))
	case 2: // not divisible: remainder goes to the first part
		return Pick(r, []string{"100", "1000", "10", "1", "0.1", "0.3", "7", "99.99", "0.01", "12000", "-100", "-0.1"})
	case 3:
		return fmt.Sprintf("%d.%02d", r.Range(0, 5000), r.Intn(100))
	}
	return genDecimal(r)
}

func c10Gen(r *RNG, malformed bool) c10Case {
	var k c10Case
	k.Date = c10DateStr(r)
	k.Desc = Pick(r, []string{"2020 Taxes", "rent", "Prämie (jährlich)", "100% bonus", "a %d b %s", "x", "", "insurance 1/2", "日本"})
	nb := r.Range(1, 4)
	if r.Chance(1, 10) {
		nb = r.Range(5, 8)
	}
	k.Account = Pick(r, c10Accounts["AC"])
	for i := 0; i < nb; i++ {
		var bk c10Booking
		switch r.Intn(12) {
		case 0: // both income/expense
			bk.Credit, bk.Debit = Pick(r, c10Accounts["I"]), Pick(r, c10Accounts["E"])
		case 1: // neither
			bk.Credit, bk.Debit = Pick(r, c10Accounts["A"]), Pick(r, c10Accounts[Pick(r, []string{"A", "L", "Q"})])
		case 2: // touches the accrual account itself
			bk.Credit, bk.Debit = k.Account, c10Account(r)
			if r.Bool() {
				bk.Credit, bk.Debit = bk.Debit, bk.Credit
			}
		case 3: // equity leg
			bk.Credit, bk.Debit = Pick(r, c10Accounts["Q"]), Pick(r, c10Accounts[Pick(r, []string{"I", "E"})])
		case 4: // same account on both sides
			bk.Credit = c10Account(r)
			bk.Debit = bk.Credit
		case 5, 6, 7: // the README shape
			bk.Credit, bk.Debit = Pick(r, c10Accounts[Pick(r, []string{"A", "L"})]), Pick(r, c10Accounts["E"])
		default:
			bk.Credit, bk.Debit = c10Account(r), c10Account(r)
		}
		bk.Qty = c10Qty(r)
		bk.Com = Pick(r, []string{"CHF", "USD", "CHF", "AAPL", "BTC", "X1"})
		k.Bookings = append(k.Bookings, bk)
	}
	if r.Chance(1, 6) {
		k.HasPerf = true
		for i := r.Intn(3); i > 0; i-- {
			k.Perf = append(k.Perf, Pick(r, []string{"CHF", "USD", "AAPL"}))
		}
	}
	k.Interval = Pick(r, c10Intervals)
	// window: independent of the transaction date
	start, _ := time.Parse("2006-01-02", c10DateStr(r))
	var end time.Time
	unit := map[string]int{"daily": 1, "weekly": 7, "monthly": 30, "quarterly": 91}[k.Interval]
	// number of periods: mostly a handful, sometimes dozens, rarely hundreds (keeps the generated lists small on average)
	np := r.Range(0, 14)
	if r.Chance(1, 6) {
		np = r.Range(15, 60)
	}
	if r.Chance(1, 40) {
		np = r.Range(61, 400)
	}
	switch r.Intn(10) {
	case 0:
		end = start // a single day
	case 1:
		end = start.AddDate(0, 0, r.Range(1, 6)) // inside one week
	case 2: // whole months
		m := r.Range(1, 12)
		if unit < 30 && np < 61 {
			m = r.Range(1, 2)
		}
		end = start.AddDate(0, m, 0).AddDate(0, 0, -1)
	case 3: // on unit borders: first/last days of months
		end = time.Date(start.Year(), start.Month()+time.Month(r.Range(0, 3)), 1, 0, 0, 0, 0, time.UTC).AddDate(0, 0, r.Intn(3)-1)
		if end.Before(start) {
			end = start
		}
	default:
		end = start.AddDate(0, 0, np*unit+r.Intn(unit+1)-unit/2)
		if end.Before(start) {
			end = start
		}
	}
	k.Start, k.End = start.Format("2006-01-02"), end.Format("2006-01-02")
	if r.Chance(1, 25) {
		k.NoAccrue = true
	}
	if malformed {
		switch r.Intn(8) {
		case 0: // window ends before it starts
			k.Start, k.End = end.AddDate(0, 0, r.Range(1, 40)).Format("2006-01-02"), start.Format("2006-01-02")
		case 1: // Go's zero time as window start
			k.Start = "0001-01-01"
			k.End = Pick(r, []string{"0001-01-01", "0001-03-01", "0002-01-01"})
		case 2: // invalid account type
			k.Account = Pick(r, []string{"Foo:Bar", "assets:Prepaid", "Asset:X"})
		case 3:
			k.Bookings[0].Credit = Pick(r, []string{"Foo:Bar", "expenses:X"})
		case 4: // impossible calendar dates
			k.Start = Pick(r, []string{"2023-02-30", "2023-13-01", "2023-00-10", "0000-00-00"})
		case 5:
			k.Date = Pick(r, []string{"2023-02-29", "2023-04-31"})
		case 6: // accrual account of income/expense type
			k.Account = Pick(r, []string{"Expenses:Accrual", "Income:Accrual", "Expenses:Tax"})
		case 7: // raw text mutation
			t := []byte(k.text())
			if len(t) > 0 {
				for j := r.Range(1, 3); j > 0; j-- {
					p := r.Intn(len(t))
					switch r.Intn(3) {
					case 0:
						t = append(t[:p], t[p+1:]...)
					case 1:
						t[p] = Pick(r, []byte{' ', '\n', ':', '"', '@', '0', 'x', '-', '.'})
					default:
						t = append(t[:p], append([]byte{Pick(r, []byte{' ', '\n', ':', '-', '9'})}, t[p:]...)...)
					}
					if len(t) == 0 {
						break
					}
				}
			}
			k.Text = string(t)
			if k.Text == "" {
				k.Text = "\n"
			}
		}
	}
	return k
}

// ---------------------------------------------------------------- implementation side

type c10Impl struct {
	ParseOK  bool
	Outcome  string // "ok ..." / "error" / "panic <msg>" / "syntax-error" / "no-transaction"
	Gen      []string
	Orig     string // postings of the transaction created without the annotation
	ModelReq []string
	MonReq   func(gen string) []string
	HasAcc   bool
	Inverted bool
	BadDate  bool
	IELegs   int
	Legs     int
	Periods  int
}

func c10Targets(t *transaction.Transaction) string {
	if t.Targets == nil {
		return "n"
	}
	s := "t"
	for _, c := range t.Targets {
		s += ":" + Hex(c.Name())
	}
	return s
}

func c10Postings(t *transaction.Transaction) string {
	if len(t.Postings) == 0 {
		return "-"
	}
	ps := make([]string, len(t.Postings))
	for i, p := range t.Postings {
		ps[i] = Hex(p.Account.Name()) + ">" + Hex(p.Other.Name()) + ">" + Hex(p.Commodity.Name()) + ">" + p.Quantity.String()
	}
	return strings.Join(ps, ";")
}

func c10ShowTx(t *transaction.Transaction) string {
	return fmt.Sprintf("%d|%s|%s|%s", dayNum(t.Date), Hex(t.Description), c10Postings(t), c10Targets(t))
}

func c10Create(t *syntax.Transaction) (out string, txs []*transaction.Transaction) {
	defer func() {
		if p := recover(); p != nil {
			out = fmt.Sprintf("panic %v", p)
			txs = nil
		}
	}()
	res, err := transaction.Create(registry.New(), t)
	if err != nil {
		return "error", nil
	}
	return "ok", res
}

func c10Run(text string) (im c10Impl) {
	p := parser.New(text, "")
	var f syntax.File
	err := func() (err error) {
		defer func() {
			if r := recover(); r != nil {
				err = fmt.Errorf("parser panic %v", r)
			}
		}()
		if err := p.Advance(); err != nil {
			return err
		}
		f, err = p.ParseFile()
		return err
	}()
	if err != nil {
		im.Outcome = "syntax-error"
		return
	}
	var trx *syntax.Transaction
	for i := range f.Directives {
		if t, ok := f.Directives[i].Directive.(syntax.Transaction); ok {
			trx = &t
			break
		}
	}
	if trx == nil {
		im.Outcome = "no-transaction"
		return
	}
	im.ParseOK = true
	// a mutated digit in a date can make the window span centuries: such cases are outside the budget
	// of the model driver (hundreds of thousands of transactions) and are skipped, counted by class
	if !trx.Addons.Accrual.Empty() {
		s0, e1 := time.Parse("2006-01-02", trx.Addons.Accrual.Start.Extract())
		e0, e2 := time.Parse("2006-01-02", trx.Addons.Accrual.End.Extract())
		unit := map[string]int{"daily": 1, "weekly": 7, "monthly": 28, "quarterly": 89}[trx.Addons.Accrual.Interval.Extract()]
		if e1 == nil && e2 == nil && unit > 0 && int(e0.Sub(s0).Hours()/24)/unit*len(trx.Bookings) > 4000 {
			im.ParseOK = false
			im.Outcome = "window-too-large-skipped"
			return
		}
	}
	out, txs := c10Create(trx)
	im.Outcome = out
	if out == "ok" {
		for _, t := range txs {
			im.Gen = append(im.Gen, c10ShowTx(t))
		}
		im.Outcome = "ok"
		if len(im.Gen) > 0 {
			im.Outcome += " " + strings.Join(im.Gen, " ")
		}
	}
	// the structured form of what was parsed, for the model
	day := func(s string) (int, bool) {
		t, err := time.Parse("2006-01-02", s)
		if err != nil || t.Year() < 1 {
			return 0, false
		}
		return dayNum(t), true
	}
	date, okd := day(trx.Date.Extract())
	var bks []string
	for _, b := range trx.Bookings {
		bks = append(bks, Hex(b.Credit.Extract())+">"+Hex(b.Debit.Extract())+">"+b.Quantity.Extract()+">"+Hex(b.Commodity.Extract()))
	}
	targets := "n"
	if !trx.Addons.Performance.Empty() {
		targets = "t"
		for _, c := range trx.Addons.Performance.Targets {
			targets += ":" + Hex(c.Extract())
		}
	}
	accrual := "n"
	oks, oke := true, true
	if !trx.Addons.Accrual.Empty() {
		im.HasAcc = true
		var a, b int
		a, oks = day(trx.Addons.Accrual.Start.Extract())
		b, oke = day(trx.Addons.Accrual.End.Extract())
		im.Inverted = oks && oke && b < a
		iv := indexOfStr(c10Intervals, trx.Addons.Accrual.Interval.Extract()) + 1
		accrual = fmt.Sprintf("%d:%d:%d:%s", iv, a, b, Hex(trx.Addons.Accrual.Account.Extract()))
		im.MonReq = func(gen string) []string { return []string{"c10mon", itoa(date), im.Orig, accrual, gen} }
	}
	im.BadDate = !okd || !oks || !oke
	if !im.BadDate && len(bks) > 0 {
		im.ModelReq = []string{"c10", itoa(date), Hex(trx.Description.Content.Extract()), strings.Join(bks, ","), targets, accrual}
	}
	// what the original transaction books: the same transaction created without the annotation
	plain := *trx
	plain.Addons.Accrual = syntax.Accrual{}
	if o, ptx := c10Create(&plain); o == "ok" && len(ptx) == 1 {
		im.Orig = c10Postings(ptx[0])
		im.Legs = len(ptx[0].Postings)
		for _, p := range ptx[0].Postings {
			if p.Account.IsIE() {
				im.IELegs++
			}
		}
	}
	return
}

func indexOfStr(xs []string, s string) int {
	for i, x := range xs {
		if x == s {
			return i
		}
	}
	return -1
}

const c10KnownZeroTime = "accrual-window-starting-0001-01-01-panics"

func (c *Ctx) c10RunCase(bt *Batch, stream string, i int, k c10Case) {
	c.Evals++
	text := k.text()
	in := map[string]any{"text": text}
	im := c10Run(text)
	if !im.ParseOK {
		c.Class("c10/" + stream + "/" + im.Outcome)
		if stream == "accrual" {
			// the structured generator only emits grammatical text
			c.Compare(stream, i, "parse", in, im.Outcome, "ok")
		}
		return
	}
	if im.ModelReq != nil {
		bt.Add(func(model string) {
			impl := im.Outcome
			if strings.HasPrefix(impl, "panic") {
				impl = "panic"
			}
			c.Compare(stream, i, "c10", in, impl, model)
		}, im.ModelReq...)
	}
	kind := "plain"
	switch {
	case strings.HasPrefix(im.Outcome, "panic"):
		kind = "panic"
		if im.HasAcc && strings.Contains(text, " 0001-01-01 ") && strings.Contains(im.Outcome, "zero time") {
			c.MonitorKnown(stream, i, "expansion does not panic", in, im.Outcome, c10KnownZeroTime)
		} else {
			c.Monitor(stream, i, "expansion does not panic", in, false, im.Outcome)
		}
	case im.Outcome == "error":
		kind = "error"
		// with a well-formed window (start <= end, real dates) and valid accounts the expansion must succeed
		if im.HasAcc && !im.Inverted && !im.BadDate && im.Orig != "" && stream == "accrual" {
			c.Monitor(stream, i, "non-empty window expands", in, false, "Create returned an error")
		}
	case im.HasAcc:
		kind = "expanded"
		if im.Inverted {
			c.Monitor(stream, i, "end before start is rejected", in, false, im.Outcome)
		}
		gen := "-"
		if len(im.Gen) > 0 {
			gen = strings.Join(im.Gen, ",")
		}
		if im.Orig != "" && !im.Inverted && !im.BadDate {
			bt.Add(func(mon string) {
				c.Monitor(stream, i, "accrualOK", in, mon == "ok", "generated "+c10Readable(im.Gen)+" => "+mon)
			}, im.MonReq(gen)...)
		}
	}
	c.Class(fmt.Sprintf("c10/%s/%s/%s/legs%s/ie%d/gen%s", stream, kind, k.Interval, bucket(im.Legs), minInt(im.IELegs, 4), bucket(len(im.Gen))))
	if i >= 0 && i < 2 {
		c.Sample(map[string]any{"stream": stream, "input": in, "impl": clipN(im.Outcome, 600)})
	}
}

func minInt(a, b int) int {
	if a < b {
		return a
	}
	return b
}

func clipN(s string, n int) string {
	if len(s) > n {
		return s[:n] + "…"
	}
	return s
}

// c10Readable decodes the hex fields of generated transactions for the finding text.
func c10Readable(gen []string) string {
	var b strings.Builder
	for j, g := range gen {
		if j >= 12 {
			fmt.Fprintf(&b, " … (%d transactions)", len(gen))
			break
		}
		parts := strings.Split(g, "|")
		if len(parts) != 4 {
			b.WriteString(g)
			continue
		}
		d := 0
		fmt.Sscanf(parts[0], "%d", &d)
		fmt.Fprintf(&b, "[%s %q", dayTime(d).Format("2006-01-02"), UnHex(parts[1]))
		for _, p := range strings.Split(parts[2], ";") {
			f := strings.Split(p, ">")
			if len(f) == 4 {
				fmt.Fprintf(&b, " %s %s %s;", UnHex(f[0]), f[3], UnHex(f[2]))
			}
		}
		b.WriteString("] ")
	}
	return b.String()
}

// c10Around: variations of a case on which code and model differ.
func c10Around(r *RNG, k c10Case) []c10Case {
	var out []c10Case
	if k.Text != "" {
		return nil
	}
	start, err1 := time.Parse("2006-01-02", k.Start)
	end, err2 := time.Parse("2006-01-02", k.End)
	if err1 != nil || err2 != nil {
		return nil
	}
	for _, iv := range c10Intervals {
		for _, ds := range []int{0, -1, 1, -3, 7, 31} {
			for _, de := range []int{0, -1, 1, 3, -7, 31, 365} {
				k2 := k
				k2.Interval = iv
				s2, e2 := start.AddDate(0, 0, ds), end.AddDate(0, 0, de)
				if e2.Before(s2) || s2.Year() < 1 {
					continue
				}
				k2.Start, k2.End = s2.Format("2006-01-02"), e2.Format("2006-01-02")
				out = append(out, k2)
			}
		}
	}
	// one booking at a time, with simple quantities
	for _, b := range k.Bookings {
		for _, q := range []string{"100", "-100", "0.1", "1000.07", "1"} {
			k2 := k
			k2.Bookings = []c10Booking{{b.Credit, b.Debit, q, b.Com}}
			out = append(out, k2)
		}
	}
	return out
}

// c10PrintCase: the same expansion observed at the command level. `knut print` on a journal holding the
// annotated transaction must print exactly the transactions the library call returns: its output is
// parsed back (real parser, real Create) and compared as a sorted list.
func (c *Ctx) c10PrintCase(i int, k c10Case) {
	text := k.text()
	im := c10Run(text)
	if !im.ParseOK || im.BadDate || strings.HasPrefix(im.Outcome, "panic") {
		return
	}
	c.Evals++
	var jb strings.Builder
	seen := map[string]bool{}
	for _, b := range k.Bookings {
		for _, a := range []string{b.Credit, b.Debit, k.Account} {
			if a == k.Account && k.NoAccrue && a != b.Credit && a != b.Debit {
				continue // the accrual account is not part of the journal
			}
			if !seen[a] {
				seen[a] = true
				fmt.Fprintf(&jb, "1900-01-01 open %s\n", a)
			}
		}
	}
	jb.WriteString("\n" + text)
	os.MkdirAll(c.WorkDir, 0o755)
	path := filepath.Join(c.WorkDir, "c10print.knut")
	if err := os.WriteFile(path, []byte(jb.String()), 0o644); err != nil {
		fatalf("%v", err)
	}
	in := map[string]any{"text": text, "journal": jb.String(), "cmd": "knut print " + path}
	ctx, cancel := context.WithTimeout(context.Background(), 20*time.Second)
	defer cancel()
	cmd := exec.CommandContext(ctx, c.KnutBin, "print", path)
	var stdout, stderr strings.Builder
	cmd.Stdout, cmd.Stderr = &stdout, &stderr
	err := cmd.Run()
	if im.Outcome == "error" {
		c.Monitor("print", i, "knut print rejects what Create rejects", in, err != nil || strings.Contains(stdout.String()+stderr.String(), "rror"), clipN(stdout.String()+stderr.String(), 300))
		c.Class("c10/print/error")
		return
	}
	if err != nil {
		c.Compare("print", i, "print", in, "exit: "+err.Error()+" "+clipN(stderr.String(), 300), "ok")
		return
	}
	// parse the printed journal back
	p := parser.New(stdout.String(), "")
	var printed []string
	if err := p.Advance(); err == nil {
		if f, err := p.ParseFile(); err == nil {
			for j := range f.Directives {
				if t, ok := f.Directives[j].Directive.(syntax.Transaction); ok {
					if o, txs := c10Create(&t); o == "ok" {
						for _, x := range txs {
							printed = append(printed, c10ShowTx(x))
						}
					} else {
						printed = append(printed, "create:"+o)
					}
				}
			}
		} else {
			printed = append(printed, "unparseable output: "+err.Error())
		}
	}
	want := append([]string(nil), im.Gen...)
	sort.Strings(want)
	sort.Strings(printed)
	c.Compare("print", i, "print", in, c10Readable(printed), c10Readable(want))
	// and the property itself on what the command printed (order-free part: balanced + conserved)
	c.Class(fmt.Sprintf("c10/print/%s/gen%s", k.Interval, bucket(len(want))))
}

func runC10(c *Ctx) {
	if !c.Replay || c.OnlyStr == "dec" {
		runDecStream(c, c.N(3000, 40000))
	}
	bt := c.NewBatch()
	defer bt.Flush()
	if !c.Replay || c.OnlyStr == "loader" {
		c.c10LoaderStream()
		if c.Replay {
			return
		}
	}
	if c.Replay && c.ReplayInput != nil && c.OnlyStr != "dec" && c.OnlyStr != "print" {
		text, _ := c.ReplayInput["text"].(string)
		stream, idx := c.OnlyStr, c.OnlyIndex
		c.Replay = false
		c.c10RunCase(bt, stream, idx, c10Case{Text: text, Interval: "replay"})
		return
	}
	gens := map[string]c10Case{}
	for _, st := range []struct {
		name      string
		n         int
		malformed bool
	}{{"accrual", c.N(8000, 150000), false}, {"malformed", c.N(3000, 40000), true}} {
		for i := 0; i < st.n; i++ {
			if !c.Want(st.name, i) {
				continue
			}
			r := c.Rng(st.name, i)
			k := c10Gen(r, st.malformed)
			c.c10RunCase(bt, st.name, i, k)
		}
		bt.Flush()
		for _, f := range c.Findings {
			if f.Kind == "disagree" && f.What == "c10" && f.Stream == st.name && len(gens) < 6 {
				gens[fmt.Sprintf("%s/%d", st.name, f.Index)] = c10Gen(c.Rng(st.name, f.Index), st.malformed)
			}
		}
	}
	// ---- command level: knut print
	if c.KnutBin != "" && c.WorkDir != "" {
		np := c.N(250, 4000)
		for i := 0; i < np; i++ {
			if !c.Want("print", i) {
				continue
			}
			r := c.Rng("print", i)
			k := c10Gen(r, r.Chance(1, 12))
			if k.Text != "" {
				continue
			}
			if r.Chance(1, 4) { // a booking written several times in the transaction (also the other way round)
				k.Bookings = c10Repeat(r, k.Bookings)
			}
			c.c10PrintCase(i, k)
		}
	}
	if len(gens) > 0 && !c.Replay {
		n := 0
		for key, s := range gens {
			for _, k := range c10Around(c.Rng("accrual-directed", 0), s) {
				n++
				c.c10RunCase(bt, "accrual-directed", -n, k)
			}
			_ = key
		}
		bt.Flush()
		c.Notes = append(c.Notes, fmt.Sprintf("directed search: %d variations (4 intervals x shifted window starts/ends, single bookings with simple quantities) of %d cases on which Create differs from the model", n, len(gens)))
	}
}

// ---------------------------------------------------------------- stream loader
//
// C10 on what the real loading pipeline builds: a text journal spread over an include tree of 4-12 files, some of which
// hold accruals that expand into hundreds or thousands of transactions (daily over years, weekly / monthly over decades)
// next to many small files and bulk files of plain transactions (slow to parse: they arrive late), loaded
//   (a) through journal.FromPath (what `knut balance` does) and
//   (b) through the same three stages composed by hand (syntax.ParseFileRecursively -> model.FromStream -> Builder.Add per
//       directive, as journal.FromModelStream does) with a consumer that loses the CPU at seeded places inside a batch,
// each under GOMAXPROCS 1 / 2 / 16. On every loaded journal the property's statements are evaluated per original accrual
// transaction (the transactions carrying its unique description): each balances, per account and commodity they add up to
// what the original books, the accrual account nets to zero, one transaction per period end; and the loaded journal holds the
// same transactions as the single-file load of the same text.

type c10LTx struct {
	Desc   string
	Text   string
	Accrue string // accrual account ("" = plain)
}

type c10LFile struct {
	Name  string
	Kind  string
	Txs   []int // indexes into the case's transactions
	Incl  []int // members included from this file
	First bool  // includes before the transactions
}

type c10LCase struct {
	Files []c10LFile // Files[0] is the root
	Txs   []c10LTx
	Opens []string
	Rep   int // transactions with a repeated booking
}

func (k *c10LCase) fileText(f int, single bool) string {
	var b strings.Builder
	fl := k.Files[f]
	if f == 0 {
		for _, a := range k.Opens {
			fmt.Fprintf(&b, "1900-01-01 open %s\n", a)
		}
		b.WriteString("\n")
	}
	incl := func() {
		for _, m := range fl.Incl {
			if single {
				b.WriteString(k.fileText(m, true))
			} else {
				fmt.Fprintf(&b, "include \"%s\"\n\n", k.Files[m].Name)
			}
		}
	}
	if fl.First {
		incl()
	}
	for _, t := range fl.Txs {
		b.WriteString(k.Txs[t].Text)
		b.WriteString("\n")
	}
	if !fl.First {
		incl()
	}
	return b.String()
}

func c10LoaderGen(r *RNG, thorough bool) *c10LCase {
	k := &c10LCase{}
	assets := []string{"Assets:Bank", "Assets:Bank:Checking", "Assets:Cash", "Liabilities:Card"}
	exps := []string{"Expenses:Rent", "Expenses:Tax", "Expenses:Tax:Federal", "Expenses:Food", "Income:Salary", "Income:Interest"}
	seen := map[string]bool{}
	use := func(a string) string {
		if !seen[a] {
			seen[a] = true
			k.Opens = append(k.Opens, a)
		}
		return a
	}
	day := func(y0, y1 int) time.Time {
		return time.Date(r.Range(y0, y1), time.Month(r.Range(1, 12)), r.Range(1, 28), 0, 0, 0, 0, time.UTC)
	}
	qty := func() string {
		switch r.Intn(4) {
		case 0:
			return fmt.Sprintf("%d", r.Range(1, 20000))
		case 1:
			return Pick(r, []string{"12000.07", "100", "1000", "0.1", "7", "99.99", "-100", "1"})
		}
		return fmt.Sprintf("%d.%02d", r.Range(0, 5000), r.Intn(100))
	}
	bookings := func(n int) string {
		var bks []c10Booking
		for ; n > 0; n-- {
			cr, db := use(Pick(r, assets)), use(Pick(r, exps))
			if r.Chance(1, 8) {
				cr, db = db, cr
			}
			bks = append(bks, c10Booking{cr, db, qty(), Pick(r, []string{"CHF", "CHF", "USD"})})
		}
		if r.Chance(1, 3) {
			bks = c10Repeat(r, bks)
			k.Rep++
		}
		var b strings.Builder
		for _, bk := range bks {
			fmt.Fprintf(&b, "%s %s %s %s\n", bk.Credit, bk.Debit, bk.Qty, bk.Com)
		}
		return b.String()
	}
	plain := func() int {
		d := fmt.Sprintf("t%d", len(k.Txs))
		k.Txs = append(k.Txs, c10LTx{Desc: d, Text: fmt.Sprintf("%s \"%s\"\n%s", day(2000, 2030).Format("2006-01-02"), d, bookings(1+r.Intn(2)))})
		return len(k.Txs) - 1
	}
	accrual := func(long bool) int {
		d := fmt.Sprintf("t%d", len(k.Txs))
		acc := use(fmt.Sprintf("%s:N%d", Pick(r, []string{"Assets:Prepaid", "Liabilities:Accrued", "Equity:Accruals"}), len(k.Txs)))
		start := day(1990, 2025)
		var iv string
		var end time.Time
		if long {
			switch r.Intn(5) {
			case 0, 1:
				iv, end = "daily", start.AddDate(0, 0, r.Range(120, 1100))
			case 2:
				iv, end = "daily", time.Date(start.Year(), 12, 31, 0, 0, 0, 0, time.UTC)
				start = time.Date(start.Year(), 1, 1, 0, 0, 0, 0, time.UTC)
			case 3:
				iv, end = "weekly", start.AddDate(r.Range(3, 40), 0, r.Intn(300))
			default:
				iv, end = "monthly", start.AddDate(r.Range(10, 80), r.Intn(12), 0)
			}
		} else {
			iv = Pick(r, c10Intervals)
			unit := map[string]int{"daily": 1, "weekly": 7, "monthly": 30, "quarterly": 91}[iv]
			end = start.AddDate(0, 0, r.Range(0, 20)*unit+r.Intn(unit))
		}
		txd := start.AddDate(0, 0, r.Range(-40, 400))
		k.Txs = append(k.Txs, c10LTx{Desc: d, Accrue: acc, Text: fmt.Sprintf("@accrue %s %s %s %s\n%s \"%s\"\n%s", iv,
			start.Format("2006-01-02"), end.Format("2006-01-02"), acc, txd.Format("2006-01-02"), d, bookings(1+r.Intn(2)))})
		return len(k.Txs) - 1
	}
	nf := r.Range(4, 12)
	k.Files = append(k.Files, c10LFile{Name: "root.knut", Kind: "root", First: r.Chance(2, 3)})
	for n := r.Intn(3); n > 0; n-- {
		k.Files[0].Txs = append(k.Files[0].Txs, plain())
	}
	long := 0
	for m := 1; m <= nf; m++ {
		f := c10LFile{Name: fmt.Sprintf("m%02d.knut", m), First: r.Bool()}
		kind := r.Intn(10)
		if m == nf && long == 0 {
			kind = 4
		}
		switch {
		case kind < 3:
			f.Kind = "small"
			for n := r.Range(1, 5); n > 0; n-- {
				if r.Chance(1, 4) {
					f.Txs = append(f.Txs, accrual(false))
				} else {
					f.Txs = append(f.Txs, plain())
				}
			}
		case kind < 7:
			f.Kind = "long"
			long++
			for n := r.Intn(3); n > 0; n-- {
				f.Txs = append(f.Txs, plain())
			}
			f.Txs = append(f.Txs, accrual(true))
			if r.Chance(1, 5) {
				f.Txs = append(f.Txs, accrual(true))
			}
			for n := r.Intn(3); n > 0; n-- {
				f.Txs = append(f.Txs, plain())
			}
		case kind < 9:
			f.Kind = "bulk"
			hi := 1500
			if thorough {
				hi = 6000
			}
			for n := r.Range(100, hi); n > 0; n-- {
				f.Txs = append(f.Txs, plain())
			}
		default:
			f.Kind = "medium"
			for n := r.Range(10, 40); n > 0; n-- {
				if r.Bool() {
					f.Txs = append(f.Txs, accrual(false))
				} else {
					f.Txs = append(f.Txs, plain())
				}
			}
		}
		parent := 0
		if m > 1 && r.Chance(1, 3) {
			parent = r.Range(1, m-1)
		}
		k.Files = append(k.Files, f)
		k.Files[parent].Incl = append(k.Files[parent].Incl, m)
	}
	// the same transaction text a second time: in the same file (adjacent or at the end) or in another file
	if r.Chance(1, 2) {
		for n := r.Range(1, 3); n > 0; n-- {
			src := r.Range(1, nf)
			if k.Files[src].Kind == "bulk" && r.Chance(2, 3) {
				src = r.Range(1, nf)
			}
			if len(k.Files[src].Txs) == 0 {
				continue
			}
			p := r.Intn(len(k.Files[src].Txs))
			t := k.Files[src].Txs[p]
			dst := src
			if r.Bool() {
				dst = r.Range(0, nf)
			}
			fl := &k.Files[dst]
			switch {
			case dst == src && r.Bool(): // directly after the first copy
				fl.Txs = append(fl.Txs[:p+1], append([]int{t}, fl.Txs[p+1:]...)...)
			default:
				fl.Txs = append(fl.Txs, t)
			}
		}
	}
	// diamond includes: a file reachable through two include directives (of two files, or twice from the same file) is
	// read once per include; parents have smaller numbers, so there is no cycle
	if nf >= 2 && r.Chance(1, 3) {
		for n := r.Range(1, 2); n > 0; n-- {
			m := r.Range(2, nf)
			if k.Files[m].Kind == "bulk" && !thorough {
				continue
			}
			parent := r.Range(0, m-1)
			k.Files[parent].Incl = append(k.Files[parent].Incl, m)
		}
	}
	return k
}

// mult: how many times the loader reads each transaction of the case (occurrences in a file x include paths to the file).
func (k *c10LCase) mult() []int {
	out := make([]int, len(k.Txs))
	var walk func(f int)
	walk = func(f int) {
		for _, t := range k.Files[f].Txs {
			out[t]++
		}
		for _, m := range k.Files[f].Incl {
			walk(m)
		}
	}
	walk(0)
	return out
}

// c10Repeat: bookings repeated inside one transaction: 1-3 more copies of one booking, identical or written the other way
// round (A B 10 as B A -10), next to the first copy, at the end or in front.
func c10Repeat(r *RNG, bks []c10Booking) []c10Booking {
	if len(bks) == 0 {
		return bks
	}
	out := append([]c10Booking(nil), bks...)
	p := r.Intn(len(out))
	for n := r.Range(1, 3); n > 0; n-- {
		b := out[p]
		if r.Chance(1, 3) {
			b.Credit, b.Debit = b.Debit, b.Credit
			if strings.HasPrefix(b.Qty, "-") {
				b.Qty = b.Qty[1:]
			} else {
				b.Qty = "-" + b.Qty
			}
		}
		switch r.Intn(3) {
		case 0:
			out = append(out[:p+1], append([]c10Booking{b}, out[p+1:]...)...)
		case 1:
			out = append(out, b)
		default:
			out = append([]c10Booking{b}, out...)
			p++
		}
	}
	return out
}

// c10TextSum: what the bookings written in the text of a transaction book per "account commodity", times m: every line
// `credit debit quantity commodity` takes the quantity from the credit account and adds it to the debit account.
func c10TextSum(text string, m int) (map[string]string, bool) {
	sums := map[string]decimal.Decimal{}
	for _, ln := range strings.Split(text, "\n") {
		f := strings.Fields(ln)
		if len(f) != 4 || strings.HasPrefix(ln, "@") || strings.Contains(ln, "\"") {
			continue
		}
		q, err := decimal.NewFromString(f[2])
		if err != nil {
			return nil, false
		}
		q = q.Mul(decimal.NewFromInt(int64(m)))
		sums[f[0]+" "+f[3]] = sums[f[0]+" "+f[3]].Sub(q)
		sums[f[1]+" "+f[3]] = sums[f[1]+" "+f[3]].Add(q)
	}
	out := map[string]string{}
	for key, v := range sums {
		if !v.IsZero() {
			out[key] = v.String()
		}
	}
	return out, true
}

// c10LRun: one way of loading the tree.
type c10LRun struct {
	Paused bool
	Procs  int
}

func (ru c10LRun) String() string {
	if ru.Paused {
		return fmt.Sprintf("ParseFileRecursively -> model.FromStream -> Builder.Add per directive, consumer pausing inside batches, GOMAXPROCS=%d", ru.Procs)
	}
	return fmt.Sprintf("journal.FromPath, GOMAXPROCS=%d", ru.Procs)
}

// c10LoadPaused is journal.FromPath with the last stage written out: every batch of the model stream is booked directive by
// directive, and at seeded positions inside a batch the consumer yields or sleeps (a legal schedule of the real consumer).
func c10LoadPaused(root string, r *RNG) (jb *journal.Builder, err error) {
	ctx, cancel := context.WithCancel(context.Background())
	defer cancel()
	syntaxCh, w1 := syntax.ParseFileRecursively(root)
	modelCh, w2 := model.FromStream(registry.New(), syntaxCh)
	errs := make(chan error, 2)
	go func() { errs <- w1(ctx) }()
	go func() { errs <- w2(ctx) }()
	jb = journal.New()
	for ds := range modelCh {
		pause := map[int]int{}
		if len(ds) > 1 && r.Chance(3, 4) {
			for n := r.Range(1, 3); n > 0; n-- {
				p := 1
				if r.Bool() {
					p = r.Range(1, len(ds)-1)
				}
				pause[p] = r.Intn(5)
			}
		}
		for n, d := range ds {
			if how, ok := pause[n]; ok {
				switch how {
				case 0:
					runtime.Gosched()
				case 1:
					time.Sleep(50 * time.Microsecond)
				case 2:
					time.Sleep(500 * time.Microsecond)
				default:
					time.Sleep(3 * time.Millisecond)
				}
			}
			if e := jb.Add(d); e != nil && err == nil {
				err = e
				cancel()
			}
		}
	}
	for n := 0; n < 2; n++ {
		if e := <-errs; e != nil && err == nil {
			err = e
		}
	}
	return jb, err
}

func c10LoadTxs(path string, paused bool, r *RNG) (txs []*transaction.Transaction, err error) {
	defer func() {
		if p := recover(); p != nil {
			err = fmt.Errorf("panic %v", p)
		}
	}()
	var jb *journal.Builder
	if paused {
		jb, err = c10LoadPaused(path, r)
	} else {
		jb, err = journal.FromPath(context.Background(), registry.New(), path)
	}
	if err != nil {
		return nil, err
	}
	for _, d := range jb.Build().Days {
		txs = append(txs, d.Transactions...)
	}
	return txs, nil
}

func c10LKey(desc string) string {
	if i := strings.Index(desc, " (accrual "); i >= 0 {
		return desc[:i]
	}
	return desc
}

// c10Sum: total per "account commodity" over the postings of the transactions (zero totals dropped).
func c10Sum(txs []*transaction.Transaction) map[string]string {
	sums := map[string]decimal.Decimal{}
	for _, t := range txs {
		for _, p := range t.Postings {
			key := p.Account.Name() + " " + p.Commodity.Name()
			sums[key] = sums[key].Add(p.Quantity)
		}
	}
	out := map[string]string{}
	for key, v := range sums {
		if !v.IsZero() {
			out[key] = v.String()
		}
	}
	return out
}

func c10MapStr(m map[string]string) string {
	var ks []string
	for k, v := range m {
		ks = append(ks, k+"="+v)
	}
	sort.Strings(ks)
	return "{" + strings.Join(ks, ", ") + "}"
}

// c10LExpect: per transaction of the case, what the original books (real Create without the annotation) and the dates of
// its expansion (real Create with it; that list itself is checked against the model by the stream `accrual`).
type c10LExp struct {
	Orig  []*transaction.Transaction
	Dates []int
	OK    bool
}

func c10LExpect(t c10LTx) (e c10LExp) {
	p := parser.New(t.Text, "")
	if err := p.Advance(); err != nil {
		return
	}
	f, err := p.ParseFile()
	if err != nil {
		return
	}
	for i := range f.Directives {
		if trx, ok := f.Directives[i].Directive.(syntax.Transaction); ok {
			o, gen := c10Create(&trx)
			plain := trx
			plain.Addons.Accrual = syntax.Accrual{}
			o2, orig := c10Create(&plain)
			if o != "ok" || o2 != "ok" {
				return
			}
			e.Orig = orig
			for _, g := range gen {
				e.Dates = append(e.Dates, dayNum(g.Date))
			}
			sort.Ints(e.Dates)
			e.OK = true
			return
		}
	}
	return
}

func c10Balanced(t *transaction.Transaction) bool {
	if len(t.Postings)%2 != 0 {
		return false
	}
	for i := 0; i+1 < len(t.Postings); i += 2 {
		a, b := t.Postings[i], t.Postings[i+1]
		if a.Commodity != b.Commodity || a.Account != b.Other || a.Other != b.Account || !a.Quantity.Add(b.Quantity).IsZero() {
			return false
		}
	}
	return true
}

func c10ShowSorted(txs []*transaction.Transaction) []string {
	out := make([]string, len(txs))
	for i, t := range txs {
		out[i] = c10ShowTx(t)
	}
	sort.Strings(out)
	return out
}

// c10LJudge evaluates the property's statements on a loaded journal; "" = all hold.
func c10LJudge(k *c10LCase, exp []c10LExp, txs []*transaction.Transaction, single []string) string {
	mult := k.mult()
	fam := map[string][]*transaction.Transaction{}
	for _, t := range txs {
		if !c10Balanced(t) {
			return fmt.Sprintf("each_balances: transaction %s %q is not a pair of mutually negated postings: %s", t.Date.Format("2006-01-02"), t.Description, c10Readable([]string{c10ShowTx(t)}))
		}
		fam[c10LKey(t.Description)] = append(fam[c10LKey(t.Description)], t)
	}
	// the accrual transactions first, then the plain ones (which must simply be there once)
	order := make([]int, 0, len(k.Txs))
	for n := range k.Txs {
		if k.Txs[n].Accrue != "" {
			order = append(order, n)
		}
	}
	for n := range k.Txs {
		if k.Txs[n].Accrue == "" {
			order = append(order, n)
		}
	}
	for _, n := range order {
		t := k.Txs[n]
		if !exp[n].OK {
			continue
		}
		got := fam[t.Desc]
		sum := c10Sum(got)
		var origs []*transaction.Transaction
		var wantDates []int
		for m := mult[n]; m > 0; m-- {
			origs = append(origs, exp[n].Orig...)
			wantDates = append(wantDates, exp[n].Dates...)
		}
		sort.Ints(wantDates)
		wantSum := c10Sum(origs)
		if ts, ok := c10TextSum(t.Text, mult[n]); ok {
			if a, b := c10MapStr(wantSum), c10MapStr(ts); a != b {
				return fmt.Sprintf("original: Create without the annotation books %s, the bookings written in the text make %s (read %d times)\n%s", a, b, mult[n], t.Text)
			}
		}
		if t.Accrue != "" {
			for key, v := range sum {
				if strings.HasPrefix(key, t.Accrue+" ") {
					return fmt.Sprintf("accrual_nets_zero: the transactions generated from %q leave %s on the accrual account (%d transactions loaded, expansion has %d)\n%s", t.Desc, v, len(got), len(exp[n].Dates), t.Text)
				}
			}
		}
		if a, b := c10MapStr(sum), c10MapStr(wantSum); a != b {
			return fmt.Sprintf("conserves: the transactions loaded for %q book %s, the original (written %d times in the files read) books %s (%d transactions loaded, expansion has %d)\n%s", t.Desc, a, mult[n], b, len(got), len(wantDates), t.Text)
		}
		var dates []int
		for _, g := range got {
			dates = append(dates, dayNum(g.Date))
		}
		sort.Ints(dates)
		if fmt.Sprint(dates) != fmt.Sprint(wantDates) {
			return fmt.Sprintf("dates: %q (written %d times in the files read) is loaded as %d transactions, one per period end (and per other leg) makes %d; dates differ\n%s", t.Desc, mult[n], len(dates), len(wantDates), t.Text)
		}
	}
	got := c10ShowSorted(txs)
	if len(got) != len(single) {
		return fmt.Sprintf("same_as_single_file: %d transactions loaded from the tree, %d from the same text in one file", len(got), len(single))
	}
	for i := range got {
		if got[i] != single[i] {
			return fmt.Sprintf("same_as_single_file: differs from the single-file load at sorted position %d: tree %s, single file %s", i, c10Readable(got[i:i+1]), c10Readable(single[i:i+1]))
		}
	}
	return ""
}

func (c *Ctx) c10LoaderStream() {
	if c.WorkDir == "" {
		return
	}
	defaultProcs := runtime.GOMAXPROCS(0)
	defer runtime.GOMAXPROCS(defaultProcs)
	n := c.N(10, 150)
	t0, loads := time.Now(), 0
	defer func() {
		c.Notes = append(c.Notes, fmt.Sprintf("stream loader: %d include trees, %d loads (journal.FromPath and the hand-composed pipeline with a pausing consumer, GOMAXPROCS 1/2/16) in %.1fs", n, loads, time.Since(t0).Seconds()))
	}()
	for i := 0; i < n; i++ {
		if !c.Want("loader", i) {
			continue
		}
		r := c.Rng("loader", i)
		k := c10LoaderGen(r, c.Thorough())
		dir := filepath.Join(c.WorkDir, fmt.Sprintf("c10loader-%d", i))
		os.RemoveAll(dir)
		if err := os.MkdirAll(dir, 0o755); err != nil {
			fatalf("%v", err)
		}
		var summary []string
		for f := range k.Files {
			text := k.fileText(f, false)
			if err := os.WriteFile(filepath.Join(dir, k.Files[f].Name), []byte(text), 0o644); err != nil {
				fatalf("%v", err)
			}
			summary = append(summary, fmt.Sprintf("%s (%s, %d transactions, includes %v): %s", k.Files[f].Name, k.Files[f].Kind, len(k.Files[f].Txs), k.Files[f].Incl, clipN(text, 400)))
		}
		if err := os.WriteFile(filepath.Join(dir, "single.knut"), []byte(k.fileText(0, true)), 0o644); err != nil {
			fatalf("%v", err)
		}
		exp := make([]c10LExp, len(k.Txs))
		gen := 0
		for j, t := range k.Txs {
			exp[j] = c10LExpect(t)
			gen += len(exp[j].Dates)
		}
		root := filepath.Join(dir, "root.knut")
		stx, err := c10LoadTxs(filepath.Join(dir, "single.knut"), false, nil)
		in := map[string]any{"files": summary, "dir": dir, "load": "single file"}
		if !c.Monitor("loader", i, "loads", in, err == nil, fmt.Sprint(err)) {
			continue
		}
		single := c10ShowSorted(stx)
		if msg := c10LJudge(k, exp, stx, single); msg != "" {
			c.Monitor("loader", i, "accruals conserve money in the loaded journal (single file)", in, false, msg)
			continue
		}
		var runs []c10LRun
		for _, procs := range []int{1, 2, 16} {
			runs = append(runs, c10LRun{false, procs}, c10LRun{true, procs})
		}
		if c.Thorough() {
			runs = append(runs, c10LRun{true, 4}, c10LRun{false, defaultProcs}, c10LRun{true, defaultProcs})
		}
		failed := false
		for rn, ru := range runs {
			c.Evals++
			loads++
			runtime.GOMAXPROCS(ru.Procs)
			txs, err := c10LoadTxs(root, ru.Paused, c.Rng("loader-pause", i*64+rn))
			runtime.GOMAXPROCS(defaultProcs)
			in := map[string]any{"files": summary, "dir": dir, "load": ru.String()}
			if !c.Monitor("loader", i, "loads", in, err == nil, fmt.Sprint(err)) {
				failed = true
				break
			}
			if msg := c10LJudge(k, exp, txs, single); msg != "" {
				c.Monitor("loader", i, "accruals conserve money in the loaded journal", in, false, ru.String()+": "+msg)
				failed = true
				break
			}
			c.Monitored++
		}
		nl := 0
		for _, f := range k.Files {
			if f.Kind == "long" || f.Kind == "bulk" {
				nl++
			}
		}
		mx := 0
		for _, m := range k.mult() {
			if m > mx {
				mx = m
			}
		}
		c.Class(fmt.Sprintf("c10/loader/files%s/big%d/gen%s/rep%s/mult%d", bucket(len(k.Files)), minInt(nl, 6), bucket(gen), bucket(k.Rep), minInt(mx, 4)))
		if i < 1 {
			c.Sample(map[string]any{"stream": "loader", "files": len(k.Files), "transactions": len(k.Txs), "generated": gen})
		}
		if !failed {
			os.RemoveAll(dir)
		}
	}
}
