package main

// Stream `big` of C07: SIZE.  The streams journal / mutated / prefixes draw journals of 0-7 directives with 1-4 bookings per
// transaction, the corpus files have at most 3 bookings per transaction: nothing that the parser keeps ACROSS directives of
// one file (a chunk of preallocated bookings, an arena, a buffer that is reused, a table that grows, a counter) ever fills up
// or wraps in them.  This stream takes the generator of C08's stream `big` (c08_big.go: files of hundreds to thousands of
// directives, transactions of 1-40 bookings, multi-line assertions of 1-40 lines, a running count - bookings, directives,
// transactions, lines, bytes, bytes of one line - steered so that it crosses every power of two / multiple of 32..4096 inside a
// directive, filler of single-booking / mixed / many-booking transactions, wide layouts, CRLF, Unicode, one case in eight
// mutated) and adds `dense` files of its own: runs of transactions whose booking counts are drawn around small powers of
// two (1, 2, 3, 4, 5, 7, 8, 9, 15, 16, 17, 31, 32, 33, 63, 64, 65, 127, 128, 129), in ascending / descending / alternating /
// random order, the big one first / in the middle / last, with or without other directives in between.  Every file goes
// through C07's own case (c07run.one): tree dump against the model, text identity of every range, treeOK (nested, sorted,
// gaps, cover) on the real tree, errOK on errors, panic / hang = C07_total.  The model's work grows with (top-level
// directives) x (bytes); above c07BigLeanLimit the case keeps the Go-side monitors and treeOK's Go mirror (c07TreeMirror),
// which is compared with the Lean predicate on every case below the limit.

import (
	"fmt"
	"strconv"
	"strings"
	"time"
)

// c07BigWork estimates what the model and the Lean monitor spend on a text: one `drop` from the start per node.
func c07BigWork(res synResult, text string) int {
	return (strings.Count(res.Dump, ",")/4 + 1) * len(text)
}

func c07BigLeanLimit(c *Ctx) int { return c.N(100000000, 300000000) }

// c07TreeMirror is Spec.Syntax.treeOK (lean/Knut/Spec/SyntaxTree.lean) on the real tree, in Go; the answer has the form of the
// driver's `c07tree`.
func c07TreeMirror(text string, root *synNode) string {
	var wf func(lo, hi int, n *synNode) bool
	wf = func(lo, hi int, n *synNode) bool {
		if !(lo <= n.Start && n.Start <= n.End && n.End <= hi) {
			return false
		}
		for _, k := range n.Kids {
			if !wf(n.Start, n.End, k) {
				return false
			}
		}
		return true
	}
	nested := wf(0, len(text), root)
	sorted := true
	pos := 0
	for _, k := range root.Kids {
		if !(pos <= k.Start && k.Start < k.End) {
			sorted = false
			break
		}
		pos = k.End
	}
	gaps, cover := true, true
	if !sorted || !nested {
		// the Lean predicates are total on any ranges; the mirror only has to agree on the verdict `ok`
		return fmt.Sprintf("fail nested=%v sorted=%v", nested, sorted)
	}
	var b strings.Builder
	pos = 0
	gapOK := func(g string) bool {
		for _, l := range strings.Split(g, "\n") {
			if strings.TrimLeft(l, " \t\r") != "" && !strings.HasPrefix(l, "*") && !strings.HasPrefix(l, "#") && !strings.HasPrefix(l, "//") {
				return false
			}
		}
		return true
	}
	for _, k := range root.Kids {
		g := text[pos:k.Start]
		if !gapOK(g) {
			gaps = false
		}
		b.WriteString(g)
		b.WriteString(text[k.Start:k.End])
		pos = k.End
	}
	if !gapOK(text[pos:]) {
		gaps = false
	}
	b.WriteString(text[pos:])
	cover = b.String() == text
	if gaps && cover {
		return "ok"
	}
	return fmt.Sprintf("fail nested=%v sorted=%v gaps=%v cover=%v", nested, sorted, gaps, cover)
}

// c07BigDense: runs of transactions with booking counts around small powers of two.
func c07BigDense(r *RNG) (string, []string) {
	g := &synGen{r: r, nl: "\n", ws: []string{" ", " ", "\t"}, tags: map[string]bool{}}
	if r.Chance(1, 6) {
		g.nl = "\r\n"
		g.ws = []string{" ", "\t", "\r"}
	}
	g.unicode = r.Chance(1, 4)
	w := &c08big{r: r, g: g, profile: 1, plain: r.Chance(1, 2), compact: r.Chance(2, 3)}
	sizes := []int{1, 2, 3, 4, 5, 7, 8, 9, 15, 16, 17, 31, 32, 33, 63, 64, 65, 127, 128, 129}
	top := r.Range(5, len(sizes)) // the largest count of this file: sizes[:top]
	n := r.Range(2, 40)
	order := r.Intn(5)
	between := r.Intn(3) // 0 transactions only, 1 sometimes another directive, 2 gaps and directives
	ks := make([]int, n)
	for i := range ks {
		switch order {
		case 0: // random
			ks[i] = sizes[r.Intn(top)]
		case 1: // ascending
			ks[i] = sizes[min(i*top/n, top-1)]
		case 2: // descending
			ks[i] = sizes[top-1-min(i*top/n, top-1)]
		case 3: // one big transaction among small ones
			ks[i] = r.Range(1, 4)
		default: // alternating big / small
			if i%2 == 0 {
				ks[i] = sizes[r.Range(top/2, top-1)]
			} else {
				ks[i] = r.Range(1, 3)
			}
		}
		if r.Chance(1, 6) {
			ks[i] = r.Range(1, sizes[top-1])
		}
	}
	if order == 3 {
		ks[[]int{0, n / 2, n - 1, r.Intn(n)}[r.Intn(4)]] = sizes[top-1]
	}
	for _, k := range ks {
		if between == 2 && r.Chance(1, 3) {
			w.emit(w.gapItem())
		}
		if between >= 1 && r.Chance(1, 4) {
			if r.Bool() {
				w.emit(w.lineItem())
			} else {
				w.emit(w.balItem(r.Range(1, 12)))
			}
		}
		w.emit(w.trxItem(k))
	}
	text := w.b.String()
	switch r.Intn(6) {
	case 0:
		text = strings.TrimRight(text, " \t\r\n")
	case 1:
		text = strings.TrimSuffix(text, g.nl)
	}
	kinds := []string{"dense", "order" + strconv.Itoa(order), "between" + strconv.Itoa(between), "top" + strconv.Itoa(sizes[top-1]), "n" + bucket(n)}
	if g.nl != "\n" {
		kinds = append(kinds, "~crlf")
	}
	return text, kinds
}

// bigOne: c07run.one with the model's cost bounded
func (x *c07run) bigOne(stream string, index int, text string, kinds []string) {
	c := x.c
	res := implParse(text, c07Path)
	if res.Outcome == "ok" {
		var w synWalk
		mirror := c07TreeMirror(text, w.file(res.File))
		in := textInput(text, kinds)
		in["path"] = c07Path
		if c07BigWork(res, text) > c07BigLeanLimit(c) {
			c.Monitor(stream, index, "treeOK(Go mirror)", in, mirror == "ok", "tree "+clipTo(res.Dump, 1500)+" => "+mirror)
			c.Evals++
			c.Class(synClass(res, kinds))
			c.Tag(stream + "/above-model-limit")
			c.Monitor(stream, index, "C07_extract_is_slice(text identity)", in, res.TextOK, res.Detail)
			return
		}
		hx := Hex(text)
		x.bt.Add(func(mon string) {
			c.Compare(stream, index, "c07tree(Go mirror of treeOK)", in, clipTo(mirror, 2), clipTo(mon, 2))
		}, "c07tree", hx, res.Dump)
	}
	x.one(stream, index, text, kinds)
}

func (x *c07run) big() {
	c := x.c
	t0 := time.Now()
	nB := c.N(120, 1200)
	for i := 0; i < nB; i++ {
		if !c.Want("big", i) {
			continue
		}
		r := c.Rng("big", i)
		var text string
		var kinds []string
		if i%3 == 0 {
			text, kinds = c07BigDense(r)
			if r.Chance(1, 10) {
				text = synMutate(r, text)
				kinds = append(kinds, "mutated")
			}
		} else {
			scale := i % 3
			if c.Thorough() || i%10 == 9 {
				scale = 4
			}
			text, kinds = c08Big(r, scale)
		}
		x.bigOne("big", i, text, kinds)
		if len(text) > 20000 {
			x.bt.Flush()
		}
	}
	x.bt.Flush()
	c.Extra["big_wall_s"] = time.Since(t0).Seconds()
}
