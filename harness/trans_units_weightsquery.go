package main

import (
	"fmt"
	"go/ast"
	"go/token"
	"strings"
)

// Translator unit for weights.Query.Execute (builder transW): the last stage of `knut portfolio weights`.

func init() {
	for _, u := range trUnits {
		if u.pkg == "lib/reports/weights" && u.mod == "Weights" {
			u.funcs = append(u.funcs, "Query.Execute")
			if u.agree == nil {
				u.agree = map[string]string{}
			}
			u.agree["Query.Execute"] = "WeightsQuery"
		}
	}
}

// Query.Execute as a whole is outside the subset (a set of *journal.Day pointers; the closure assigns through the captured `r`; an
// `append` onto a sub-slice that writes into the universe).  Translated are FRAGMENTS of the body of its DayEnd closure
// (kind "litstmts": consecutive statements of the first block — at any depth, also inside a function literal or a loop body — that has
// a statement whose text starts with `from`, up to the statement that starts with `until`):
//   total   `var total float64; for _, com := range dict.SortedKeys(…) { total += … }`                          ↦ total
//   locate  `v := d.Performance.V1[com]; ss := q.Universe.Locate(com); level, suffix, ok := q.Mapping.Level(…)` ↦ (v, ss, level, suffix, ok)
// Everything else of the function is PINNED BY SOURCE TEXT (kind "text": `F.<name>.text : String`, the statement with white space
// normalised; the agreement module states the text and gives the statement its meaning by hand): the guard `days.Has(d)` and the
// definition of `days`, the header of the second loop, the `if` with the in-place `append`, and the call of `r.Add`.
func init() {
	trFragSpecs["("+trKnutPath+"lib/reports/weights.Query).Execute"] = []*trFragSpec{
		{name: "total", kind: "litstmts", from: "var total float64", until: "for _, com := range dict.SortedKeys(d.Performance.V1, commodity.Compare) { v :="},
		{name: "locate", kind: "litstmts", from: "v := d.Performance.V1[com]", until: "if ok && level < len(ss)-suffix"},
		{name: "days", kind: "text", from: "days := "},
		{name: "guard", kind: "text", from: "if !days.Has(d)"},
		{name: "loop", kind: "text", from: "for _, com := range dict.SortedKeys(d.Performance.V1, commodity.Compare) { v :=", until: "header"},
		{name: "shorten", kind: "text", from: "if ok && level < len(ss)-suffix"},
		{name: "add", kind: "text", from: "r.Add("},
		{name: "end", kind: "text", from: "return nil }", until: "last"},
	}
}

func wqNorm(fset *token.FileSet, n ast.Node) string {
	return strings.Join(strings.Fields(trSrcText(fset, n)), " ")
}

// wqBlocks: every statement list of the function body, in source order (outer before inner)
func wqBlocks(body *ast.BlockStmt) [][]ast.Stmt {
	var res [][]ast.Stmt
	ast.Inspect(body, func(n ast.Node) bool {
		if b, ok := n.(*ast.BlockStmt); ok {
			res = append(res, b.List)
		}
		return true
	})
	return res
}

// wqFragNodes: the statements of a "litstmts" fragment and the statements after it in its block
func (t *trTranslator) wqFragNodes(f *trFunc, sp *trFragSpec) (ast.Expr, []ast.Stmt, []ast.Stmt) {
	for _, list := range wqBlocks(f.decl.Body) {
		start := -1
		for i, s := range list {
			txt := wqNorm(t.l.fset, s)
			if start < 0 {
				// (a declaration is printed with its doc comment in front)
				if strings.HasPrefix(txt, sp.from) || (strings.HasPrefix(txt, "//") && strings.HasSuffix(txt, " "+sp.from)) {
					start = i
				}
				continue
			}
			if strings.HasPrefix(txt, sp.until) {
				return nil, list[start:i], list[i:]
			}
		}
		if start >= 0 {
			break
		}
	}
	trFail(f.decl.Pos(), "fragment %s: the statements from `%s` to `%s` are not found in one block of %s", sp.name, sp.from, sp.until, f.leanName)
	return nil, nil, nil
}

// wqFragText: a statement of the function pinned by its source text.  `until` = "header": a loop, without its body (which other
// fragments cover); "last": the text is the END of the function literal's body (`return nil }`): nothing follows the loops.
func (t *trTranslator) wqFragText(f *trFunc, sp *trFragSpec) string {
	var found ast.Stmt
	for _, list := range wqBlocks(f.decl.Body) {
		for i, s := range list {
			if found != nil {
				break
			}
			txt := wqNorm(t.l.fset, s)
			if sp.until == "last" {
				if i == len(list)-1 && i > 0 && strings.HasPrefix(txt+" }", sp.from) {
					if _, isFor := list[i-1].(*ast.RangeStmt); isFor {
						found = s
					}
				}
				continue
			}
			if strings.HasPrefix(txt, sp.from) {
				found = s
			}
		}
	}
	if found == nil {
		trFail(f.decl.Pos(), "fragment %s: no statement `%s…` in %s", sp.name, sp.from, f.leanName)
	}
	txt := wqNorm(t.l.fset, found)
	if sp.until == "header" {
		rs, ok := found.(*ast.RangeStmt)
		if !ok {
			trFail(found.Pos(), "fragment %s: not a range loop", sp.name)
		}
		txt = strings.TrimSpace(strings.TrimSuffix(txt, wqNorm(t.l.fset, rs.Body)))
	}
	return fmt.Sprintf("/-- Go: a statement of `%s` (%s) that is NOT translated but pinned by its source text (white space normalised); its meaning is stated by hand in the agreement module -/\ndef %s.%s.text : String := %s\n\n",
		trSigText(f.decl), t.l.relPos(found.Pos()), f.leanName, sp.name, trLeanStr(txt))
}
