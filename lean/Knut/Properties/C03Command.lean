import Knut.Proofs.MTMFlows
import Knut.Proofs.MTMEmpty
import Knut.Properties.C03
import Knut.Properties.C03Report
/-!
# C03 — the remaining clauses of the property at command level

* **missing price ⇒ no number** – `C03_run_missing_price_fails` (pipeline: a booking with non-zero quantity in a
  commodity other than `V` whose commodity has no normalised price among the declarations dated up to its day makes
  `Balance.run` fail, on whatever day list and window) and `C03_command_missing_price` (`BalanceCmd.run` then ends in
  `error` — or in the partition's panic, which precedes processing — never in `ok stdout`: nothing is printed);
* **gain account** – `C03_gain_mirrors_adjustments`: among the transactions handed to the Query stage (each posting of
  which becomes exactly one report insert of the same account, commodity and value in a plain valued report:
  `C03_inserts_are_postings`), the zero-quantity postings on `Income:<path of a>` against `a` total
  `−(value on (a, c) − Σ booked values on (a, c))`, exactly; `C03_value_is_booked_plus_adjustments` is the split used.
-/
namespace Knut.C03
open Knut Knut.Dec Knut.MTM Knut.LedgerCommand

/-! ### a needed price that does not exist -/

/-- **pipeline level**: on a date-sorted day list, a booking with non-zero quantity in a commodity `≠ V` for which the
declarations dated up to its day yield no normalised price makes the run fail — whatever the window, with or without
closing -/
theorem C03_run_missing_price_fails (cfg : BalCfg) (v : Commodity) (hv : cfg.valuation = some v)
    (days : List Day) (hs : Sorted days) (d : Day) (hd : d ∈ days) (t : Transaction) (ht : t ∈ d.transactions)
    (p : Posting) (hp : p ∈ t.postings) (hq : p.quantity ≠ 0) (hc : p.commodity ≠ v)
    (hmiss : ∀ np, Spec.pricesAt v days d.date = some np → Prices.find p.commodity np = none) :
    ∃ e, Balance.run cfg days = .error e := by
  cases hrun : Balance.run cfg days with
  | error e => exact ⟨e, rfl⟩
  | ok stF =>
    exfalso
    obtain ⟨L1, L2, hsplit⟩ := List.append_of_mem hd
    obtain ⟨txs, hpr, _⟩ := run_pipelineRun cfg days stF hrun
    rw [hsplit] at hpr
    obtain ⟨s1, t1, t2, h1, h2, _⟩ := pipelineRun_append cfg L1 (d :: L2) {} stF txs hpr
    unfold pipelineRun at h2
    cases hq' : dayQ cfg s1 d with
    | error e => rw [hq'] at h2; cases h2
    | ok r =>
      obtain ⟨sd, td⟩ := r
      have hone : pipelineRun cfg s1 [d] = .ok (sd, td ++ []) := by
        unfold pipelineRun
        rw [hq']
        rfl
      have hpre := pipelineRun_append_ok cfg L1 [d] {} s1 sd t1 (td ++ []) h1 hone
      have hrun' : Balance.run cfg (days.filter (fun x => x.date ≤ d.date)) = .ok sd := by
        rw [hsplit, sorted_prefix_at L1 L2 d (by rw [← hsplit]; exact hs)]
        exact run_of_pipelineRun cfg _ _ _ hpre
      obtain ⟨hnorm, _⟩ := run_prices_spec cfg v hv days d.date sd hrun'
      obtain ⟨stp, r, hval, hn⟩ := dayQ_valuate cfg v s1 sd d td hv hq'
      obtain ⟨e, he⟩ := C03_missing_price_fails_day v stp d t p ht hp hq hc (by
        intro np hnp
        apply hmiss
        rw [← hnorm, ← hn]; exact hnp)
      rw [he] at hval
      cases hval

/-- **the command prints no number**: if some transaction of the journal books a non-zero quantity in a commodity other
than `V` for which no price exists on or before the day of the transaction (`Spec.pricesAt` over the journal's own
days has no entry for it), `knut balance -v V` does not succeed: it ends with the processing error, or with the panic of
`NewPartition` (zero window start) which precedes all processing.  For all flags. -/
theorem C03_command_missing_price (f : BalanceFlags) (v : Commodity) (hv : f.valuation = some v)
    (ds : List Directive) (t : Transaction) (ht : Directive.tx t ∈ ds)
    (p : Posting) (hp : p ∈ t.postings) (hq : p.quantity ≠ 0) (hc : p.commodity ≠ v)
    (hmiss : ∀ np, Spec.pricesAt v (Builder.ofList ds).build t.date = some np → Prices.find p.commodity np = none) :
    BalanceCmd.run f ds = .error "processing" ∨ ∃ s, BalanceCmd.run f ds = .panic s := by
  rw [run_eq, entries_eq]
  cases hpart : newPartition (BalanceCmd.window f (Builder.ofList ds)) f.interval f.last with
  | panic s => exact Or.inr ⟨s, rfl⟩
  | ok part =>
    left
    simp only
    obtain ⟨d, hd, hdate, htd⟩ := mem_daysOf_tx f ds part t ht
    obtain ⟨e, he⟩ := C03_run_missing_price_fails (cfgOf f part) v hv (daysOf f ds part) (daysOf_sorted f ds part)
      d hd t htd p hp hq hc (by
        intro np hnp
        apply hmiss
        rw [← pricesAt_daysOf f ds part, ← hdate]; exact hnp)
    rw [he]

/-- … in particular nothing is written to standard output -/
theorem C03_command_missing_price_no_output (f : BalanceFlags) (v : Commodity) (hv : f.valuation = some v)
    (ds : List Directive) (t : Transaction) (ht : Directive.tx t ∈ ds)
    (p : Posting) (hp : p ∈ t.postings) (hq : p.quantity ≠ 0) (hc : p.commodity ≠ v)
    (hmiss : ∀ np, Spec.pricesAt v (Builder.ofList ds).build t.date = some np → Prices.find p.commodity np = none) :
    ∀ out, BalanceCmd.run f ds ≠ .ok out := by
  intro out h
  rcases C03_command_missing_price f v hv ds t ht p hp hq hc hmiss with h1 | ⟨s, h1⟩ <;> rw [h1] at h <;> cases h

/-! ### the gain account -/

/-- in a plain valued report every posting handed to the Query stage becomes exactly one insert: same account, same
commodity, amount = the posting's value, column = `Align` of the transaction date -/
theorem C03_inserts_are_postings (cfg : BalCfg) (hp : Plain cfg) (hv : cfg.valuation.isSome = true) (t : Transaction) :
    Balance.queryTx cfg t = t.postings.map (fun p => ⟨alignIn cfg.periods t.date, p.account, p.commodity, p.value⟩) := by
  unfold Balance.queryTx
  generalize t.postings = ps
  induction ps with
  | nil => rfl
  | cons p rest ih => rw [List.filterMap_cons, queryPosting_plain cfg hp hv t p, List.map_cons, ih]

/-- the value on a position is the sum of its booked values (non-zero postings, each `Truncate₈(quantity × price of its
day)`: `C03_flow_valued_at_booking_day`) and of its value adjustments (zero-quantity postings) -/
theorem C03_value_is_booked_plus_adjustments (a : Account) (c : Commodity) (txs : List Transaction) :
    valOn a c txs = sumVal (isBookedOn a c) txs + sumVal (isAdjOn a c) txs :=
  valOn_split a c txs

/-- **the accumulated revaluation gain is booked on the income account that mirrors the account's path**: for every
valued run (any window, closing on or off) on unvalued journal postings, among the transactions handed to the Query
stage the postings on `Income:<path of a>` against `a` (zero quantity, commodity `c`) total
`−(value on (a, c) − Σ booked values on (a, c))` — exactly, no rounding. -/
theorem C03_gain_mirrors_adjustments (cfg : BalCfg) (v : Commodity) (hv : cfg.valuation = some v)
    (days : List Day) (hz : ∀ d ∈ days, ∀ t ∈ d.transactions, ∀ p ∈ t.postings, p.value = 0)
    (a : Account) (c : Commodity) (hal : a.isAL = true)
    (stF : BalState) (txs : List Transaction) (h : pipelineRun cfg {} days = .ok (stF, txs)) :
    sumVal (isGainOf a c) txs = -(valOn a c txs - sumVal (isBookedOn a c) txs) := by
  have hinv0 : CloseInv {} := by intro k hk; cases hk
  have hsh := pipelineRun_shape cfg v hv days {} stF txs hinv0 hz h
  rw [gain_mirrors a c hal txs hsh, valOn_split a c txs]
  grind

/-- the counter-postings sit on `Income:` + the account's path without its first segment, and nowhere else -/
theorem C03_gain_account_path (a : Account) (c : Commodity) (p : Posting) (h : isGainOf a c p = true) :
    p.account.segments = "Income" :: a.segments.drop 1 ∧ p.other = a ∧ p.commodity = c ∧ p.quantity = 0 := by
  unfold isGainOf at h
  simp only [Bool.and_eq_true, decide_eq_true_eq] at h
  obtain ⟨⟨⟨h1, h2⟩, h3⟩, h4⟩ := h
  exact ⟨by rw [h1]; rfl, h2, h3, h4⟩

/-! ### Non-vacuity -/

/-- the journal of `C03Report` without the price declaration of day 2: USD is bought on a day on or before which no USD
price exists -/
def exBad : List Directive :=
  [.opening ⟨1, exA⟩, .opening ⟨1, exE⟩,
   .tx (Transaction.ofBookings 1 "cash" none [⟨exE, exA, 100, "CHF"⟩]),
   .tx (Transaction.ofBookings 2 "buy" none [⟨exE, exA, 7/2, "USD"⟩]),
   .price ⟨3, "USD", 1333333333/1000000000, "CHF"⟩]

example : Spec.pricesAt "CHF" (Builder.ofList exBad).build 2 = none := by decide +kernel

/-- … the command fails (although a price is declared the day after) -/
example : BalanceCmd.run { valuation := some "CHF", to := 4 } exBad = .error "processing" := by decide +kernel

/-- the gain account on the journal of `C03Report`, window `[3, 4]`: the adjustment of day 3 (+2.91666665 on
`Assets:A`) is mirrored by −2.91666665 on `Income:A`; value on the position 1.58333332 = booked −1.33333333 + adjustment -/
example : (match pipelineRun exCfgW {} exDays with
    | .ok (_, txs) => decide (sumVal (isGainOf exA "USD") txs = -(291666665/100000000) ∧
        valOn exA "USD" txs = 158333332/100000000 ∧ sumVal (isBookedOn exA "USD") txs = -(133333333/100000000) ∧
        sumVal (isAdjOn exA "USD") txs = 291666665/100000000)
    | .error _ => false) = true := by decide +kernel

example : (valuationAccountFor exA).name = "Income:A" := by decide +kernel

end Knut.C03
