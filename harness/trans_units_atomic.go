package main

// Unit `Atomic` of the Go→Lean translator: github.com/natefinch/atomic `WriteFile` and `ReplaceFile` (C18's subject), translated
// from the source that /repo's go.mod selects (a local `replace`, /repo/vendor, else the module cache) into
// lean/Knut/Generated/TransAtomic.lean, namespace Knut.Generated.Go.atomic.
//
// The reading (design/04b-translator.md, row "os / io / ioutil calls as operations of an explicit WORLD"):
//
//   every call of os / io / ioutil / (*os.File)      an operation `Os.<Name> w args…` of the prelude lean/Knut/GoSem/OsWorld.lean: it takes the world
//                                                    `w : Os.World` (file system + failure oracle + state log of Model/AtomicWrite.lean) and returns the new
//                                                    world FIRST, then the Go results; the variable `w` is rebound (state passing, as for io.Writer).
//                                                    Only as a statement, as the right side of an assignment, in `return f(…)` or deferred; operands are pure
//   filepath.Split, f.Name(), info.Mode(),           pure prelude functions
//   os.IsNotExist(err)
//   error                                            `Option Os.Err`; fmt.Errorf(constant, …) ↦ `Os.Errorf "constant" [the operands of type error]`
//   named results                                    variables that start at their zero value; `return e` assigns them
//   defer                                            FUNCTION-LEVEL DEFER LIST: a `defer` may stand only at the top level of the function body (so the list
//                                                    of registered calls at every `return` is known statically); every `return` assigns the named results and then
//                                                    runs the registered calls in REVERSE order. `defer x.M(args)` evaluates receiver and operands where it stands
//                                                    (bound to fresh names) and discards the results; `defer func() {…}()` is a definition `F.defer<N>` over the
//                                                    captured variables and the world, called with the values the variables have AT THE RETURN (captured by
//                                                    reference), returning the world and the captured variables it assigns (named results included)
//   if / else if / else                              no branch returns: the branches JOIN in the tuple of the outer variables they assign (and the world);
//                                                    otherwise the rest of the block is continued inside the branches that fall through
//   everything else                                  rejected: `trans-reject Atomic <func>: file:line: construct`
//
// The unit does not use the loader of trans_load.go (the package is not part of /repo): its imports are served as the stub sources below, which
// declare exactly the functions that the prelude gives a meaning to.

import (
	"fmt"
	"go/ast"
	"go/build"
	"go/constant"
	"go/parser"
	"go/token"
	"go/types"
	"os"
	"os/exec"
	"path/filepath"
	"regexp"
	"sort"
	"strings"
)

var atStubs = map[string]string{
	"os": `package os
type FileMode uint32
type FileInfo interface { Mode() FileMode }
type File struct{ _ int }
func (f *File) Name() string
func (f *File) Sync() error
func (f *File) Close() error
func Stat(name string) (FileInfo, error)
func Chmod(name string, mode FileMode) error
func Remove(name string) error
func Rename(oldpath, newpath string) error
func IsNotExist(err error) bool
`,
	"io": `package io
type Reader interface { Read(p []byte) (n int, err error) }
type Writer interface { Write(p []byte) (n int, err error) }
func Copy(dst Writer, src Reader) (written int64, err error)
`,
	"io/ioutil": `package ioutil
import "os"
func TempFile(dir, pattern string) (f *os.File, err error)
`,
	"path/filepath": `package filepath
func Split(path string) (dir, file string)
`,
	"fmt": `package fmt
func Errorf(format string, a ...any) error
`,
}

// the operations: types.Func.FullName() ↦ (prelude name, takes and returns the world)
var atOps = map[string]struct {
	lean  string
	world bool
}{
	"path/filepath.Split": {"Os.Filepath.Split", false},
	"(*os.File).Name":     {"Os.File.Name", false},
	"(os.FileInfo).Mode":  {"Os.FileInfo.Mode", false},
	"os.IsNotExist":       {"Os.IsNotExist", false},
	"io/ioutil.TempFile":  {"Os.TempFile", true},
	"io.Copy":             {"Os.Copy", true},
	"(*os.File).Sync":     {"Os.File.Sync", true},
	"(*os.File).Close":    {"Os.File.Close", true},
	"os.Stat":             {"Os.Stat", true},
	"os.Chmod":            {"Os.Chmod", true},
	"os.Remove":           {"Os.Remove", true},
	"os.Rename":           {"Os.Rename", true},
}

const atPath = "github.com/natefinch/atomic"

var atFuncs = []string{"ReplaceFile", "WriteFile"} // callees first

type atImporter struct {
	fset *token.FileSet
	pkgs map[string]*types.Package
}

func (im *atImporter) Import(path string) (*types.Package, error) {
	if p, ok := im.pkgs[path]; ok {
		return p, nil
	}
	src, ok := atStubs[path]
	if !ok {
		name := path[strings.LastIndex(path, "/")+1:]
		p := types.NewPackage(path, name) // empty: a use of anything from it has no valid type
		p.MarkComplete()
		im.pkgs[path] = p
		return p, nil
	}
	f, err := parser.ParseFile(im.fset, "prelude:"+path, src, 0)
	if err != nil {
		return nil, err
	}
	conf := types.Config{Importer: im, Error: func(error) {}}
	p, _ := conf.Check(path, im.fset, []*ast.File{f}, nil)
	im.pkgs[path] = p
	return p, nil
}

var atReplaceRe = regexp.MustCompile(`(?m)^\s*(?:replace\s+)?github\.com/natefinch/atomic(?:\s+v[^\s]+)?\s+=>\s+(\S+)\s*$`)
var atRequireRe = regexp.MustCompile(`github\.com/natefinch/atomic (v[0-9][^\s]*)`)

// atDir: where the source that /repo builds against lives
func atDir(repo string) (string, error) {
	gomod, err := os.ReadFile(filepath.Join(repo, "go.mod"))
	if err != nil {
		return "", err
	}
	if m := atReplaceRe.FindSubmatch(gomod); m != nil {
		p := string(m[1])
		if strings.HasPrefix(p, ".") || strings.HasPrefix(p, "/") {
			if !filepath.IsAbs(p) {
				p = filepath.Join(repo, p)
			}
			return p, nil
		}
		return "", fmt.Errorf("go.mod replaces %s by the module %s", atPath, p)
	}
	if d := filepath.Join(repo, "vendor", atPath); trIsDir(d) {
		return d, nil
	}
	m := atRequireRe.FindSubmatch(gomod)
	if m == nil {
		return "", fmt.Errorf("go.mod does not require %s", atPath)
	}
	out, err := exec.Command("go", "env", "GOMODCACHE").Output()
	if err != nil {
		return "", fmt.Errorf("go env GOMODCACHE: %v", err)
	}
	d := filepath.Join(strings.TrimSpace(string(out)), "github.com", "natefinch", "atomic@"+string(m[1]))
	if !trIsDir(d) {
		return "", fmt.Errorf("%s is not in the module cache", d)
	}
	return d, nil
}

func trIsDir(p string) bool {
	st, err := os.Stat(p)
	return err == nil && st.IsDir()
}

type atReject struct {
	pos token.Pos
	msg string
}

type atDefer struct {
	call string // Lean text of the deferred operation without the world argument, for a method/function call
	lit  *ast.FuncLit
	n    int
}

type atTr struct {
	fset    *token.FileSet
	dir     string
	info    *types.Info
	pkg     *types.Package
	names   map[types.Object]string
	used    map[string]int
	fn      string
	results []*types.Var
	aux     []string              // definitions of the deferred closures, in order
	lits    map[*ast.FuncLit]*atLit // closures already emitted
	ndefer  int
	done    map[string]bool // package functions translated so far
}

type atLit struct {
	name     string
	captured []types.Object // read or written, in order of first occurrence
	assigned []types.Object
}

func (t *atTr) fail(pos token.Pos, format string, a ...any) {
	panic(atReject{pos, fmt.Sprintf(format, a...)})
}

func (t *atTr) relPos(pos token.Pos) string {
	p := t.fset.Position(pos)
	return fmt.Sprintf("%s:%d", filepath.Base(p.Filename), p.Line)
}

func (t *atTr) name(o types.Object) string {
	if n, ok := t.names[o]; ok {
		return n
	}
	base := trMangle(o.Name())
	if base == "w" {
		base = "w_" // `w` is the world
	}
	t.used[base]++
	n := base
	if t.used[base] > 1 {
		n = fmt.Sprintf("%s_%d", base, t.used[base])
	}
	t.names[o] = n
	return n
}

func (t *atTr) fresh(base string) string {
	t.used[base]++
	if t.used[base] > 1 {
		return fmt.Sprintf("%s_%d", base, t.used[base])
	}
	return base
}

func (t *atTr) leanType(ty types.Type, pos token.Pos) string {
	switch x := ty.(type) {
	case *types.Basic:
		switch {
		case x.Kind() == types.String:
			return "String"
		case x.Kind() == types.Bool:
			return "Bool"
		case x.Info()&types.IsInteger != 0:
			return "Int"
		}
	case *types.Pointer:
		if trIsNamed(x.Elem(), "os", "File") {
			return "Os.File"
		}
	case *types.Named:
		switch {
		case trIsError(ty):
			return "(Option Os.Err)"
		case trIsNamed(ty, "os", "FileInfo"):
			return "Os.FileInfo"
		case trIsNamed(ty, "os", "FileMode"):
			return "Nat"
		case trIsNamed(ty, "io", "Reader"):
			return "Os.Reader"
		}
	}
	t.fail(pos, "type %s is outside the subset", ty)
	return ""
}

func (t *atTr) zero(ty types.Type, pos token.Pos) string {
	switch t.leanType(ty, pos) {
	case "String":
		return `""`
	case "Bool":
		return "false"
	case "Int":
		return "(0 : Int)"
	case "(Option Os.Err)":
		return "(none : Option Os.Err)"
	}
	t.fail(pos, "no zero value for %s", ty)
	return ""
}

// callee: the function object a call refers to
func (t *atTr) callee(call *ast.CallExpr) *types.Func {
	switch f := trUnparen(call.Fun).(type) {
	case *ast.Ident:
		fn, _ := t.info.Uses[f].(*types.Func)
		return fn
	case *ast.SelectorExpr:
		fn, _ := t.info.Uses[f.Sel].(*types.Func)
		return fn
	}
	return nil
}

func (t *atTr) isWorldCall(e ast.Expr) bool {
	call, ok := trUnparen(e).(*ast.CallExpr)
	if !ok {
		return false
	}
	fn := t.callee(call)
	if fn == nil {
		return false
	}
	if fn.Pkg() == t.pkg {
		return true
	}
	return atOps[fn.FullName()].world
}

// opCall: Lean text `Name` and operand list of a call of a prelude operation or of a translated function of the package (without the world)
func (t *atTr) opCall(call *ast.CallExpr) (string, bool) {
	fn := t.callee(call)
	if fn == nil {
		t.fail(call.Pos(), "call of a function value or conversion is outside the subset")
	}
	var ops []string
	if sel, ok := trUnparen(call.Fun).(*ast.SelectorExpr); ok {
		if s := t.info.Selections[sel]; s != nil { // method: the receiver is the first operand
			ops = append(ops, t.pure(sel.X))
		}
	}
	if call.Ellipsis.IsValid() {
		t.fail(call.Pos(), "f(xs...) is outside the subset")
	}
	for _, a := range call.Args {
		ops = append(ops, t.pure(a))
	}
	var name string
	var world bool
	if fn.Pkg() == t.pkg {
		if fn.Type().(*types.Signature).Recv() != nil || !t.done[fn.Name()] {
			t.fail(call.Pos(), "calls %s, which is not translated", fn.Name())
		}
		name, world = trMangle(fn.Name()), true
	} else {
		op, ok := atOps[fn.FullName()]
		if !ok {
			t.fail(call.Pos(), "call of %s has no meaning in GoSem/OsWorld.lean", fn.FullName())
		}
		name, world = op.lean, op.world
	}
	if world {
		return name + " w" + atJoinOps(ops), true
	}
	return name + atJoinOps(ops), false
}

func atJoinOps(ops []string) string {
	var b strings.Builder
	for _, o := range ops {
		b.WriteString(" " + o)
	}
	return b.String()
}

// pure: an expression without operations on the world, as an atomic or parenthesised Lean term
func (t *atTr) pure(e ast.Expr) string {
	switch x := trUnparen(e).(type) {
	case *ast.Ident:
		switch o := t.info.Uses[x].(type) {
		case *types.Var:
			if o.Pkg() != t.pkg || o.Parent() == t.pkg.Scope() {
				t.fail(x.Pos(), "package-level variable %s is outside the subset", x.Name)
			}
			return t.name(o)
		case *types.Nil:
			if tv := t.info.Types[x]; trIsError(tv.Type) {
				return "(none : Option Os.Err)"
			}
			t.fail(x.Pos(), "nil of a type other than error is outside the subset")
		case *types.Const:
			if x.Name == "true" || x.Name == "false" {
				return x.Name
			}
		}
		t.fail(x.Pos(), "identifier %s is outside the subset", x.Name)
	case *ast.BasicLit:
		tv := t.info.Types[x]
		if x.Kind == token.STRING && tv.Value != nil {
			return trLeanStr(constantString(tv))
		}
		t.fail(x.Pos(), "literal %s is outside the subset", x.Value)
	case *ast.BinaryExpr:
		lt := t.info.Types[x.X].Type
		switch x.Op {
		case token.EQL, token.NEQ:
			neg := x.Op == token.NEQ
			// comparison with nil: errors only
			for i, side := range []ast.Expr{x.X, x.Y} {
				if id, ok := trUnparen(side).(*ast.Ident); ok {
					if _, isNil := t.info.Uses[id].(*types.Nil); isNil {
						other := []ast.Expr{x.Y, x.X}[i]
						if !trIsError(t.info.Types[other].Type) {
							t.fail(x.Pos(), "comparison of a non-error with nil is outside the subset")
						}
						if neg {
							return "(Option.isSome " + t.pure(other) + ")"
						}
						return "(Option.isNone " + t.pure(other) + ")"
					}
				}
			}
			lty := t.leanType(lt, x.Pos())
			if lty != "String" && lty != "Nat" && lty != "Int" && lty != "Bool" {
				t.fail(x.Pos(), "comparison of %s is outside the subset", lt)
			}
			if neg {
				return "(decide (" + t.pure(x.X) + " ≠ " + t.pure(x.Y) + "))"
			}
			return "(decide (" + t.pure(x.X) + " = " + t.pure(x.Y) + "))"
		case token.LAND:
			return "(" + t.pure(x.X) + " && " + t.pure(x.Y) + ")"
		case token.LOR:
			return "(" + t.pure(x.X) + " || " + t.pure(x.Y) + ")"
		}
		t.fail(x.Pos(), "operator %s is outside the subset", x.Op)
	case *ast.UnaryExpr:
		if x.Op == token.NOT {
			return "(!" + t.pure(x.X) + ")"
		}
		t.fail(x.Pos(), "operator %s is outside the subset", x.Op)
	case *ast.CallExpr:
		fn := t.callee(x)
		if fn != nil && fn.FullName() == "fmt.Errorf" {
			if len(x.Args) == 0 || x.Ellipsis.IsValid() {
				t.fail(x.Pos(), "fmt.Errorf without a constant format")
			}
			tv := t.info.Types[x.Args[0]]
			if tv.Value == nil {
				t.fail(x.Pos(), "fmt.Errorf without a constant format")
			}
			var errs []string
			for _, a := range x.Args[1:] {
				at := t.info.Types[a].Type
				if trIsError(at) {
					errs = append(errs, t.pure(a))
				} else if b, ok := at.Underlying().(*types.Basic); !ok || b.Kind() != types.String {
					t.fail(a.Pos(), "fmt.Errorf operand of type %s is outside the subset", at)
				} else {
					_ = t.pure(a) // strings are dropped (only the message class is kept); they must be in the subset
				}
			}
			return "(Os.Errorf " + trLeanStr(constantString(tv)) + " [" + strings.Join(errs, ", ") + "])"
		}
		s, world := t.opCall(x)
		if world {
			t.fail(x.Pos(), "an operation on the world inside an expression is outside the subset")
		}
		return "(" + s + ")"
	}
	t.fail(e.Pos(), "expression %T is outside the subset", e)
	return ""
}

func constantString(tv types.TypeAndValue) string { return constant.StringVal(tv.Value) }

func atHasReturnOrDefer(n ast.Node) bool {
	found := false
	ast.Inspect(n, func(m ast.Node) bool {
		switch m.(type) {
		case *ast.ReturnStmt, *ast.DeferStmt:
			found = true
		case *ast.FuncLit:
			return false
		}
		return true
	})
	return found
}

// assignedOuter: the variables declared OUTSIDE of n that n assigns (in order of first occurrence), and whether n operates on the world
func (t *atTr) assignedOuter(n ast.Node) ([]types.Object, bool) {
	var objs []types.Object
	seen := map[types.Object]bool{}
	world := false
	add := func(id *ast.Ident) {
		if id.Name == "_" {
			return
		}
		o := t.info.Uses[id]
		if o == nil {
			return // defined here
		}
		if o.Pos() >= n.Pos() && o.Pos() < n.End() {
			return
		}
		if !seen[o] {
			seen[o] = true
			objs = append(objs, o)
		}
	}
	ast.Inspect(n, func(m ast.Node) bool {
		switch x := m.(type) {
		case *ast.AssignStmt:
			for _, l := range x.Lhs {
				if id, ok := l.(*ast.Ident); ok {
					add(id)
				}
			}
		case *ast.IncDecStmt:
			if id, ok := x.X.(*ast.Ident); ok {
				add(id)
			}
		case *ast.CallExpr:
			if t.isWorldCall(x) {
				world = true
			}
		}
		return true
	})
	return objs, world
}

func (t *atTr) tuple(objs []types.Object, world bool) string {
	var parts []string
	if world {
		parts = append(parts, "w")
	}
	for _, o := range objs {
		parts = append(parts, t.name(o))
	}
	if len(parts) == 0 {
		return "()"
	}
	if len(parts) == 1 {
		return parts[0]
	}
	return "(" + strings.Join(parts, ", ") + ")"
}

// exit: the text of a return: named results assigned, the deferred calls in reverse, the world and the results
func (t *atTr) exit(ind string, ds []atDefer, pos token.Pos) string {
	var b strings.Builder
	for i := len(ds) - 1; i >= 0; i-- {
		d := ds[i]
		if d.lit == nil {
			fmt.Fprintf(&b, "%slet (w, _) := %s -- deferred #%d, results discarded\n", ind, d.call, d.n)
			continue
		}
		l := t.lits[d.lit]
		var args []string
		for _, o := range l.captured {
			args = append(args, t.name(o))
		}
		fmt.Fprintf(&b, "%slet %s := %s.%s w%s -- deferred #%d\n", ind, t.tuple(l.assigned, true), t.fn, l.name, atJoinOps(args), d.n)
	}
	var res []string
	for _, r := range t.results {
		res = append(res, t.name(r))
	}
	fmt.Fprintf(&b, "%s(%s)\n", ind, strings.Join(append([]string{"w"}, res...), ", "))
	return b.String()
}

// stmts translates a statement list; k gives the text of what follows when control falls off its end
func (t *atTr) stmts(list []ast.Stmt, ind string, ds []atDefer, top bool, k func(ind string, ds []atDefer) string) string {
	if len(list) == 0 {
		return k(ind, ds)
	}
	s, rest := list[0], list[1:]
	next := func(ind string, ds []atDefer) string { return t.stmts(rest, ind, ds, top, k) }
	switch x := s.(type) {
	case *ast.EmptyStmt:
		return next(ind, ds)
	case *ast.BlockStmt:
		return t.stmts(x.List, ind, ds, false, func(ind string, ds []atDefer) string { return next(ind, ds) })
	case *ast.ExprStmt:
		call, ok := trUnparen(x.X).(*ast.CallExpr)
		if !ok {
			t.fail(x.Pos(), "expression statement is outside the subset")
		}
		c, world := t.opCall(call)
		if !world {
			return next(ind, ds) // a pure call whose result is dropped
		}
		return fmt.Sprintf("%slet (w, _) := %s\n", ind, c) + next(ind, ds)
	case *ast.AssignStmt:
		return t.assign(x, ind) + next(ind, ds)
	case *ast.DeferStmt:
		if !top {
			t.fail(x.Pos(), "defer below the top level of the function body is outside the subset (the defer list must be static)")
		}
		t.ndefer++
		d := atDefer{n: t.ndefer}
		pre := ""
		if lit, ok := trUnparen(x.Call.Fun).(*ast.FuncLit); ok {
			if len(x.Call.Args) != 0 || lit.Type.Params.NumFields() != 0 || lit.Type.Results.NumFields() != 0 {
				t.fail(x.Pos(), "deferred closure with parameters or results is outside the subset")
			}
			t.closure(lit, d.n)
			d.lit = lit
		} else {
			// receiver and operands are evaluated here: bind them to fresh names
			fn := t.callee(x.Call)
			if fn == nil || !t.isWorldCall(x.Call) {
				t.fail(x.Pos(), "deferred call of a function without a meaning as an operation")
			}
			var ops []string
			bind := func(e ast.Expr) {
				n := t.fresh(fmt.Sprintf("defer%d_arg", d.n))
				pre += fmt.Sprintf("%slet %s := %s -- operand of deferred #%d, evaluated here\n", ind, n, t.pure(e), d.n)
				ops = append(ops, n)
			}
			if sel, ok := trUnparen(x.Call.Fun).(*ast.SelectorExpr); ok && t.info.Selections[sel] != nil {
				bind(sel.X)
			}
			for _, a := range x.Call.Args {
				bind(a)
			}
			name := ""
			if fn.Pkg() == t.pkg {
				name = trMangle(fn.Name())
			} else {
				name = atOps[fn.FullName()].lean
			}
			d.call = name + " w" + atJoinOps(ops)
		}
		nds := append(append([]atDefer{}, ds...), d)
		return pre + next(ind, nds)
	case *ast.ReturnStmt:
		if len(x.Results) != len(t.results) {
			t.fail(x.Pos(), "bare return is outside the subset")
		}
		var b strings.Builder
		if len(x.Results) == 1 && t.isWorldCall(x.Results[0]) {
			c, _ := t.opCall(trUnparen(x.Results[0]).(*ast.CallExpr))
			fmt.Fprintf(&b, "%slet (w, %s) := %s\n", ind, t.name(t.results[0]), c)
		} else {
			// all operands first, then the assignment to the results
			var tmp []string
			for i, r := range x.Results {
				n := t.fresh("ret")
				val := ""
				if id, ok := trUnparen(r).(*ast.Ident); ok && trIsError(t.results[i].Type()) {
					if _, isNil := t.info.Uses[id].(*types.Nil); isNil {
						val = "none" // `return nil` for an error result
					}
				}
				if val == "" {
					val = t.pure(r)
				}
				fmt.Fprintf(&b, "%slet %s : %s := %s\n", ind, n, t.leanType(t.results[i].Type(), r.Pos()), val)
				tmp = append(tmp, n)
			}
			for i := range x.Results {
				fmt.Fprintf(&b, "%slet %s := %s\n", ind, t.name(t.results[i]), tmp[i])
			}
		}
		b.WriteString(t.exit(ind, ds, x.Pos()))
		return b.String()
	case *ast.IfStmt:
		var b strings.Builder
		if x.Init != nil {
			as, ok := x.Init.(*ast.AssignStmt)
			if !ok {
				t.fail(x.Init.Pos(), "init statement is outside the subset")
			}
			b.WriteString(t.assign(as, ind))
		}
		cond := t.pure(x.Cond)
		var els []ast.Stmt
		if x.Else != nil {
			els = []ast.Stmt{x.Else}
		}
		if !atHasReturnOrDefer(x.Body) && (x.Else == nil || !atHasReturnOrDefer(x.Else)) {
			// join
			objs, world := t.assignedOuterIf(x)
			if len(objs) == 0 && !world {
				// nothing observable happens in the branches (they must still be in the subset)
				_ = t.stmts(x.Body.List, ind+"  ", ds, false, func(string, []atDefer) string { return "" })
				_ = t.stmts(els, ind+"  ", ds, false, func(string, []atDefer) string { return "" })
				return b.String() + next(ind, ds)
			}
			tup := t.tuple(objs, world)
			// the names of the joined variables must be evaluated in the branches before they are rebound: they are the same Lean names
			end := func(ind string, _ []atDefer) string { return ind + tup + "\n" }
			fmt.Fprintf(&b, "%slet %s := if %s then\n", ind, tup, cond)
			b.WriteString(t.stmts(x.Body.List, ind+"    ", ds, false, end))
			fmt.Fprintf(&b, "%s  else\n", ind)
			b.WriteString(t.stmts(els, ind+"    ", ds, false, end))
			return b.String() + next(ind, ds)
		}
		fmt.Fprintf(&b, "%sif %s then\n", ind, cond)
		b.WriteString(t.stmts(x.Body.List, ind+"  ", ds, false, next))
		fmt.Fprintf(&b, "%selse\n", ind)
		b.WriteString(t.stmts(els, ind+"  ", ds, false, next))
		return b.String()
	}
	t.fail(s.Pos(), "statement %T is outside the subset", s)
	return ""
}

func (t *atTr) assignedOuterIf(x *ast.IfStmt) ([]types.Object, bool) {
	// the init statement's variables belong to the if: everything declared at or after x.Pos() is inner
	objs, world := t.assignedOuter(x)
	if x.Init != nil {
		// an operation in the init statement has been emitted before the join already, but it rebinds `w` outside: harmless
		_ = world
	}
	return objs, world
}

// assign: `a, b := f(…)`, `x = e`, `_ = f(…)`
func (t *atTr) assign(x *ast.AssignStmt, ind string) string {
	if x.Tok != token.DEFINE && x.Tok != token.ASSIGN {
		t.fail(x.Pos(), "assignment operator %s is outside the subset", x.Tok)
	}
	lhs := func(e ast.Expr) string {
		id, ok := e.(*ast.Ident)
		if !ok {
			t.fail(e.Pos(), "assignment to %T is outside the subset", e)
		}
		if id.Name == "_" {
			return "_"
		}
		if o := t.info.Defs[id]; o != nil {
			_ = t.leanType(o.Type(), id.Pos())
			return t.name(o)
		}
		o, _ := t.info.Uses[id].(*types.Var)
		if o == nil || o.Parent() == t.pkg.Scope() {
			t.fail(id.Pos(), "assignment to %s is outside the subset", id.Name)
		}
		return t.name(o)
	}
	if len(x.Rhs) == 1 && t.isWorldCall(x.Rhs[0]) {
		c, _ := t.opCall(trUnparen(x.Rhs[0]).(*ast.CallExpr)) // operands are evaluated with the names as they are before the assignment
		parts := []string{"w"}
		for _, l := range x.Lhs {
			parts = append(parts, lhs(l))
		}
		return fmt.Sprintf("%slet (%s) := %s\n", ind, strings.Join(parts, ", "), c)
	}
	if len(x.Rhs) == 1 && len(x.Lhs) > 1 {
		r := t.pure(x.Rhs[0])
		var parts []string
		for _, l := range x.Lhs {
			parts = append(parts, lhs(l))
		}
		return fmt.Sprintf("%slet (%s) := %s\n", ind, strings.Join(parts, ", "), r)
	}
	if len(x.Rhs) != len(x.Lhs) {
		t.fail(x.Pos(), "assignment shape is outside the subset")
	}
	if len(x.Lhs) == 1 {
		r := t.pure(x.Rhs[0])
		return fmt.Sprintf("%slet %s := %s\n", ind, lhs(x.Lhs[0]), r)
	}
	var rs, ls []string
	for _, r := range x.Rhs {
		rs = append(rs, t.pure(r))
	}
	for _, l := range x.Lhs {
		ls = append(ls, lhs(l))
	}
	return fmt.Sprintf("%slet (%s) := (%s)\n", ind, strings.Join(ls, ", "), strings.Join(rs, ", "))
}

// closure: a deferred `func() {…}()` as a definition over the captured variables
func (t *atTr) closure(lit *ast.FuncLit, n int) {
	if t.lits[lit] != nil {
		return
	}
	if atHasReturnOrDefer(lit.Body) {
		t.fail(lit.Pos(), "return or defer inside a deferred closure is outside the subset")
	}
	l := &atLit{name: fmt.Sprintf("defer%d", n)}
	seen := map[types.Object]bool{}
	ast.Inspect(lit.Body, func(m ast.Node) bool {
		if id, ok := m.(*ast.Ident); ok {
			if o, ok := t.info.Uses[id].(*types.Var); ok && !o.IsField() && o.Parent() != t.pkg.Scope() && !(o.Pos() >= lit.Pos() && o.Pos() < lit.End()) && !seen[o] {
				seen[o] = true
				l.captured = append(l.captured, o)
			}
		}
		return true
	})
	l.assigned, _ = t.assignedOuter(lit.Body)
	t.lits[lit] = l
	var params []string
	for _, o := range l.captured {
		params = append(params, fmt.Sprintf("(%s : %s)", t.name(o), t.leanType(o.Type(), lit.Pos())))
	}
	var rtys []string
	for _, o := range l.assigned {
		rtys = append(rtys, t.leanType(o.Type(), lit.Pos()))
	}
	rty := strings.Join(append([]string{"Os.World"}, rtys...), " × ")
	tup := t.tuple(l.assigned, true)
	body := t.stmts(lit.Body.List, "  ", nil, false, func(ind string, _ []atDefer) string { return ind + tup + "\n" })
	src := t.relPos(lit.Pos())
	t.aux = append(t.aux, fmt.Sprintf("/-- Go: deferred closure #%d of `%s` (%s); the captured variables are passed with the values they have when it runs -/\ndef %s.%s (w : Os.World) %s : %s :=\n%s",
		n, t.fn, src, t.fn, l.name, strings.Join(params, " "), rty, body))
}

// function: one top-level function
func (t *atTr) function(fd *ast.FuncDecl) string {
	t.fn = trMangle(fd.Name.Name)
	t.results, t.aux, t.ndefer = nil, nil, 0
	sig := t.info.Defs[fd.Name].(*types.Func).Type().(*types.Signature)
	if sig.Recv() != nil || sig.Variadic() || sig.TypeParams() != nil {
		t.fail(fd.Pos(), "methods, variadic and generic functions are outside the subset")
	}
	var params []string
	for i := 0; i < sig.Params().Len(); i++ {
		p := sig.Params().At(i)
		params = append(params, fmt.Sprintf("(%s : %s)", t.name(p), t.leanType(p.Type(), fd.Pos())))
	}
	var rtys []string
	var pre strings.Builder
	for i := 0; i < sig.Results().Len(); i++ {
		r := sig.Results().At(i)
		rtys = append(rtys, t.leanType(r.Type(), fd.Pos()))
		if r.Name() == "" || r.Name() == "_" {
			// unnamed results: fresh variables that only `return` assigns
			t.names[r] = t.fresh("result")
		} else {
			fmt.Fprintf(&pre, "  let %s := %s -- named result\n", t.name(r), t.zero(r.Type(), fd.Pos()))
		}
		t.results = append(t.results, r)
	}
	body := t.stmts(fd.Body.List, "  ", nil, true, func(string, []atDefer) string {
		t.fail(fd.Body.Rbrace, "control reaches the end of a function with results")
		return ""
	})
	rty := strings.Join(append([]string{"Os.World"}, rtys...), " × ")
	var b strings.Builder
	for _, a := range t.aux {
		b.WriteString(a + "\n")
	}
	fmt.Fprintf(&b, "/-- Go: `func %s` (%s) -/\ndef %s (w : Os.World) %s : %s :=\n%s%s", fd.Name.Name, t.relPos(fd.Pos()), t.fn, strings.Join(params, " "), rty, pre.String(), body)
	return b.String()
}

// atRun translates the unit; returns the text of Generated/TransAtomic.lean and the rejections
func atRun(repo string) (string, []string) {
	var rejects []string
	var body strings.Builder
	status := map[string]string{}
	dir, err := atDir(repo)
	var files []*ast.File
	fset := token.NewFileSet()
	if err == nil {
		var names []string
		names, err = filepath.Glob(filepath.Join(dir, "*.go"))
		sort.Strings(names)
		ctx := build.Default
		ctx.GOOS, ctx.GOARCH, ctx.CgoEnabled = "linux", "amd64", false
		for _, n := range names {
			if strings.HasSuffix(n, "_test.go") {
				continue
			}
			if ok, merr := ctx.MatchFile(dir, filepath.Base(n)); merr != nil || !ok {
				continue
			}
			f, perr := parser.ParseFile(fset, n, nil, parser.ParseComments)
			if perr != nil {
				err = perr
				break
			}
			files = append(files, f)
		}
		if err == nil && len(files) == 0 {
			err = fmt.Errorf("no Go files in %s", dir)
		}
	}
	if err != nil {
		for _, fn := range atFuncs {
			rejects = append(rejects, fmt.Sprintf("trans-reject Atomic %s: cannot load %s: %v", fn, atPath, err))
			status[fn] = "cannot load: " + err.Error()
			fmt.Fprintf(&body, "-- REJECTED %s: cannot load %s: %v\n\n", fn, atPath, err)
		}
	} else {
		info := trNewInfo()
		im := &atImporter{fset: fset, pkgs: map[string]*types.Package{}}
		conf := types.Config{Importer: im, Error: func(error) {}}
		pkg, _ := conf.Check(atPath, fset, files, info)
		t := &atTr{fset: fset, dir: dir, info: info, pkg: pkg, done: map[string]bool{}}
		for _, fn := range atFuncs {
			var fd *ast.FuncDecl
			for _, f := range files {
				for _, d := range f.Decls {
					if x, ok := d.(*ast.FuncDecl); ok && x.Recv == nil && x.Name.Name == fn {
						fd = x
					}
				}
			}
			if fd == nil || fd.Body == nil {
				rejects = append(rejects, fmt.Sprintf("trans-reject Atomic %s: function not found in %s", fn, atPath))
				status[fn] = "function not found"
				fmt.Fprintf(&body, "-- REJECTED %s: function not found\n\n", fn)
				continue
			}
			t.names, t.used, t.lits = map[types.Object]string{}, map[string]int{"w": 1}, map[*ast.FuncLit]*atLit{}
			text, rej := func() (text string, rej *atReject) {
				defer func() {
					if r := recover(); r != nil {
						if ar, ok := r.(atReject); ok {
							rej = &ar
							return
						}
						panic(r)
					}
				}()
				return t.function(fd), nil
			}()
			if rej != nil {
				where := t.relPos(rej.pos)
				rejects = append(rejects, fmt.Sprintf("trans-reject Atomic %s: %s: %s", fn, where, rej.msg))
				status[fn] = where + ": " + rej.msg
				fmt.Fprintf(&body, "-- REJECTED %s: %s: %s\n\n", fn, where, rej.msg)
				continue
			}
			t.done[fn] = true
			status[fn] = "translated"
			body.WriteString(text + "\n")
		}
	}
	var b strings.Builder
	b.WriteString("/- GENERATED by `harness extract` (harness/trans_units_atomic.go) from the source of " + atPath + " that /repo's go.mod selects, on every run of bin/check. Do not edit.\n   Meaning of the operations: lean/Knut/GoSem/OsWorld.lean; agreement with the model: lean/Knut/FactsAgree/TransAtomic.lean. -/\n")
	b.WriteString("import Knut.GoSem.OsWorld\nset_option linter.unusedVariables false\nnamespace Knut.Generated.Go.atomic\nopen Knut Knut.GoSem\n\n")
	b.WriteString("/-- (Go function, \"translated\" or the reason of the rejection) -/\ndef functions : List (String × String) := [")
	for i, fn := range atFuncs {
		if i > 0 {
			b.WriteString(", ")
		}
		b.WriteString("(" + trLeanStr(fn) + ", " + trLeanStr(status[fn]) + ")")
	}
	b.WriteString("]\n\n")
	b.WriteString(body.String())
	b.WriteString("end Knut.Generated.Go.atomic\n")
	return b.String(), rejects
}

// atWrite writes Generated/TransAtomic.lean next to Facts.lean (only when its content changed)
func atWrite(repo, dir string) {
	content, rejects := atRun(repo)
	path := filepath.Join(dir, "TransAtomic.lean")
	if old, err := os.ReadFile(path); err != nil || string(old) != content {
		tmp := path + ".tmp"
		if err := os.WriteFile(tmp, []byte(content), 0o644); err != nil {
			fatalf("%v", err)
		}
		if err := os.Rename(tmp, path); err != nil {
			fatalf("%v", err)
		}
	}
	for _, r := range rejects {
		fmt.Println(r)
	}
}
