import Knut.Model.AtomicWrite
/-!
# Meaning of the `os` / `io` / `ioutil` / `filepath` calls of `natefinch/atomic.WriteFile` (prelude of `harness/trans_units_atomic.go`)

The translated `atomic.WriteFile` (`Knut.Generated.TransAtomic`) calls the operating system.  Every such call is an
operation on an explicit **world**: the file system of `Model/AtomicWrite.lean` (`path ↦ (bytes, mode)`), the model's fault
`Scenario` as the failure oracle, the fresh name `ioutil.TempFile` is going to pick, and the log of every file-system state the
run has passed through (a crash leaves the disk in one of them).  An operation takes the world and returns the new world
first, then the Go results.  The meaning of each operation is the step the model `AtomicWrite.writeFile` takes for it:

* `ioutil.TempFile`  fault `createTemp`; else creates `tmp` empty with mode 0600
* `io.Copy(f, r)`    writes `written sc new` bytes of the reader's content — all of it, nothing under the fault `write`, up to the
                     file-size limit — the file growing byte by byte (every length is a state); an error if something is missing
* `f.Sync`, `f.Close` faults `fsync`, `close`; no change of the file system (a second `Close` answers the same; its error is discarded by the code)
* `os.Stat(p)`       fault `statTemp` when `p` is the temp name, `statTarget` otherwise; an absent path is the error that `os.IsNotExist` recognises
* `os.Chmod`, `os.Rename`, `os.Remove`   faults `chmod`, `rename`, `unlinkFails`; else one step of the file system (rename = one step: the model's assumption)
* an `error` is `Option Err`: the constant format string of the outermost `fmt.Errorf` (`""`: the system's own error), the failed operation it reports,
  and whether `os.IsNotExist` answers true for it (`fmt.Errorf("%v")` does not wrap: false)

Trusted reading, as small as the model's; its tie to the real system is C18's fault-injection streams (strace, RLIMIT_FSIZE), which compare the model.
-/
namespace Knut.GoSem.Os
open Knut.AtomicWrite

structure World where
  fs : FS
  /-- the failure oracle -/
  sc : Scenario
  /-- the fresh name `ioutil.TempFile` picks -/
  tmp : Path
  /-- every file-system state so far, oldest first (the last one is `fs`) -/
  states : List FS

/-- the world before the call -/
def World.init (sc : Scenario) (tmp : Path) (fs : FS) : World := { fs := fs, sc := sc, tmp := tmp, states := [fs] }

/-- one step of the file system -/
def World.step (w : World) (fs : FS) : World := { w with fs := fs, states := w.states ++ [fs] }

structure Err where
  msg : String
  op : Option Op
  notExist : Bool
  deriving DecidableEq, Repr

/-- the system's own error of operation `op` -/
def Err.sys (op : Op) : Option Err := some { msg := "", op := some op, notExist := false }

/-- `*os.File`: the name it was opened under (nil: the empty name) -/
structure File where
  name : Path
  deriving DecidableEq, Repr

/-- `os.FileInfo`: the mode is all the code reads -/
structure FileInfo where
  mode : Nat
  deriving DecidableEq, Repr

/-- `io.Reader`: the bytes it will deliver (a `bytes.Buffer` filled before the call: reading does not fail) -/
abbrev Reader := Bytes

/-- `fmt.Errorf(f, …, err, …)`: the format string and the operation of the first error among the operands -/
def Errorf (f : String) (es : List (Option Err)) : Option Err :=
  some { msg := f, op := (es.filterMap id).head?.bind (·.op), notExist := false }

def IsNotExist (e : Option Err) : Bool :=
  match e with
  | some e => e.notExist
  | none => false

/-- `filepath.Split`: the directory up to and including the last `/`, and the rest (both only handed to `TempFile`) -/
def Filepath.Split (p : String) : String × String :=
  let cs := p.toList
  let file := (cs.reverse.takeWhile (· ≠ '/')).reverse
  (String.ofList (cs.take (cs.length - file.length)), String.ofList file)

def File.Name (f : File) : String := f.name
def FileInfo.Mode (i : FileInfo) : Nat := i.mode

def TempFile (w : World) (_dir _pattern : String) : World × File × Option Err :=
  if w.sc.fault = some .createTemp then (w, ⟨""⟩, Err.sys .createTemp)
  else (w.step (FS.set w.fs w.tmp ⟨[], 0o600⟩), ⟨w.tmp⟩, none)

/-- the mode of an existing file (0600 for a name that is not there: `Copy` is only used on the file `TempFile` made) -/
def modeOf (fs : FS) (p : Path) : Nat :=
  match FS.get fs p with
  | some f => f.mode
  | none => 0o600

def Copy (w : World) (f : File) (r : Reader) : World × Int × Option Err :=
  let k := written w.sc r
  let m := modeOf w.fs f.name
  let w' : World := { w with fs := FS.set w.fs f.name ⟨r.take k, m⟩,
                             states := w.states ++ (List.range (k + 1)).map (fun j => FS.set w.fs f.name ⟨r.take j, m⟩) }
  (w', k, if k < r.length ∨ w.sc.fault = some .write then Err.sys .write else none)

def File.Sync (w : World) (_f : File) : World × Option Err :=
  (w, if w.sc.fault = some .fsync then Err.sys .fsync else none)

def File.Close (w : World) (_f : File) : World × Option Err :=
  (w, if w.sc.fault = some .close then Err.sys .close else none)

def Stat (w : World) (p : String) : World × FileInfo × Option Err :=
  let op := if p = w.tmp then Op.statTemp else Op.statTarget
  if w.sc.fault = some op then (w, ⟨0⟩, Err.sys op)
  else match FS.get w.fs p with
    | some f => (w, ⟨f.mode⟩, none)
    | none => (w, ⟨0⟩, some { msg := "", op := some op, notExist := true })

def Chmod (w : World) (p : String) (mode : Nat) : World × Option Err :=
  if w.sc.fault = some .chmod then (w, Err.sys .chmod)
  else match FS.get w.fs p with
    | some f => (w.step (FS.set w.fs p ⟨f.content, mode⟩), none)
    | none => (w, some { msg := "", op := some .chmod, notExist := true })

def Rename (w : World) (src dst : String) : World × Option Err :=
  if w.sc.fault = some .rename then (w, Err.sys .rename)
  else match FS.get w.fs src with
    | some f => (w.step (FS.set (FS.del w.fs src) dst f), none)
    | none => (w, some { msg := "", op := some .rename, notExist := true })

def Remove (w : World) (p : String) : World × Option Err :=
  if w.sc.unlinkFails then (w, Err.sys .unlink)
  else (w.step (FS.del w.fs p), none)

end Knut.GoSem.Os
