import Knut.Proofs.MTMClose
import Knut.Proofs.MTMShow
import Knut.Proofs.Portfolio
import Knut.Proofs.LedgerCommand
import Knut.Properties.C11
/-!
# C03: the periods of the command's partition, as needed for the closing theorem

For a partition `NewPartition` returns: period `k` ends at `endDates[k]`; for `k ≥ 1` it starts the day after
`endDates[k−1]` (C11: consecutive); no other period starts inside it; without `--last` the first period starts at the
window start.  And: a closing run over an empty window hands nothing to Query.
-/
namespace Knut.MTM
open Knut Knut.Dec Knut.Spec Knut.LedgerCommand

theorem consecutive_getElem : ∀ (L : List Period), Consecutive L → ∀ (k : Nat) (h : k + 1 < L.length),
    (L[k]'(by omega)).stop + 1 = (L[k + 1]'h).start
  | [], _, k, h => by simp at h
  | [_], _, k, h => by simp at h
  | p :: q :: rest, hc, 0, _ => hc.1
  | p :: q :: rest, hc, k + 1, h => by
    have := consecutive_getElem (q :: rest) hc.2 k (by simpa using h)
    simpa using this

/-- the start of period `k` -/
def periodStart (part : Partition) (k : Nat) : Int := (part.periods.map (·.start)).getD k 0

theorem period_facts {span : Period} {iv : Interval} {last : Int} {part : Partition}
    (hpart : newPartition span iv last = .ok part) (k : Nat) (hk : k < part.endDates.length) :
    (part.periods.map (·.start)).contains (periodStart part k) = true ∧
    (∀ x ∈ part.periods.map (·.start), x ≤ periodStart part k ∨ part.endDates[k] < x) ∧
    (∀ j, k = j + 1 → periodStart part k = part.endDates.getD j 0 + 1) := by
  have hlen : part.endDates.length = part.periods.length := by unfold Partition.endDates; rw [List.length_map]
  have hk' : k < part.periods.length := by omega
  have hks : k < (part.periods.map (·.start)).length := by rw [List.length_map]; exact hk'
  have hps : periodStart part k = (part.periods[k]'hk').start := by
    unfold periodStart
    rw [List.getD_eq_getElem?_getD, List.getElem?_eq_getElem hks, Option.getD_some, List.getElem_map]
  have hpe : part.endDates[k] = (part.periods[k]'hk').stop := by
    simp only [Partition.endDates, List.getElem_map]
  have hcons := C11.C11_consecutive hpart
  have hinc := startDates_increasing hpart
  unfold Partition.startDates at hinc
  refine ⟨?_, ?_, ?_⟩
  · rw [hps]
    simp only [List.contains_eq_mem, decide_eq_true_eq]
    exact List.mem_map.mpr ⟨_, List.getElem_mem hk', rfl⟩
  · intro x hx
    obtain ⟨j, hj, rfl⟩ := List.mem_iff_getElem.mp hx
    have hj' : j < part.periods.length := by rw [List.length_map] at hj; exact hj
    rw [hps, hpe]
    by_cases hjk : j ≤ k
    · left
      by_cases e : j = k
      · subst e; rw [List.getElem_map]; exact Int.le_refl _
      · have := List.pairwise_iff_getElem.mp hinc j k hj hks (by omega)
        rw [List.getElem_map, List.getElem_map] at this
        rw [List.getElem_map]
        omega
    · right
      have hk1 : k + 1 < part.periods.length := by omega
      have hc := consecutive_getElem part.periods hcons k hk1
      rw [List.getElem_map]
      by_cases e : j = k + 1
      · subst e; omega
      · have hk1s : k + 1 < (part.periods.map (·.start)).length := by rw [List.length_map]; exact hk1
        have := List.pairwise_iff_getElem.mp hinc (k + 1) j hk1s hj (by omega)
        rw [List.getElem_map, List.getElem_map] at this
        omega
  · intro j hkj
    subst hkj
    have hj : j < part.periods.length := by omega
    have hc := consecutive_getElem part.periods hcons j hk'
    rw [hps]
    unfold Partition.endDates
    have hje : j < (part.periods.map (·.stop)).length := by rw [List.length_map]; exact hj
    rw [List.getD_eq_getElem?_getD, List.getElem?_eq_getElem hje, Option.getD_some, List.getElem_map]
    omega

/-- without `--last` the first period starts at the window start -/
theorem first_start {span : Period} {iv : Interval} {last : Int} {part : Partition}
    (hpart : newPartition span iv last = .ok part) (hl : last ≤ 0) (h0 : 0 < part.endDates.length) :
    periodStart part 0 = part.span.start := by
  have hlen : part.endDates.length = part.periods.length := by unfold Partition.endDates; rw [List.length_map]
  have hspan := Performance.newPartition_span hpart
  unfold periodStart
  cases hp : part.periods with
  | nil => rw [hp] at hlen; simp only [List.length_nil] at hlen; omega
  | cons p rest =>
    simp only [List.map_cons, List.getD_cons_zero]
    by_cases hiv : iv = .once
    · subst hiv
      have ⟨_, hpp⟩ := C11.periods_eq hpart
      rw [hp] at hpp
      simp only [periodsOf, if_true] at hpp
      injection hpp with h1 _
      rw [h1, hspan]
    · have := (C11.C11_ends hpart hl hiv).1 p (by rw [hp]; rfl)
      rw [this, hspan]

/-! ### a closing run over an empty window -/

theorem rawDay_outside (cfg : BalCfg) (st st1 : BalState) (d : Day) (raw : List Transaction)
    (hout : cfg.span.contains d.date = false) (h : rawDay cfg st d = .ok (st1, raw)) : raw = [] := by
  unfold rawDay at h
  cases hc : Balance.checkStage st d with
  | error e => rw [hc] at h; cases h
  | ok stc =>
    rw [hc] at h; simp only at h
    cases hv : Balance.valuationStage cfg stc d with
    | error e => rw [hv] at h; cases h
    | ok r =>
      obtain ⟨s1, t1⟩ := r
      rw [hv] at h; simp only at h
      injection h with h; injection h with _ h2
      rw [← h2]
      unfold Balance.filterStage
      simp [hout]

theorem accumulate_nil (st : BalState) : Balance.accumulate st [] = st := rfl

theorem pipelineRun_close_empty (cfg : BalCfg) (hcl : cfg.close = true) :
    ∀ (ds : List Day) (st st' : BalState) (txs : List Transaction), (∀ d ∈ ds, cfg.span.contains d.date = false) →
      st.cQty = [] → pipelineRun cfg st ds = .ok (st', txs) → txs = []
  | [], _, _, txs, _, _, h => by
    unfold pipelineRun at h
    injection h with h; injection h with h1 h2; exact h2.symm
  | d :: ds, st, st', txs, hout, hq0, h => by
    unfold pipelineRun at h
    cases hq : dayQ cfg st d with
    | error e => rw [hq] at h; cases h
    | ok r =>
      obtain ⟨sd, td⟩ := r
      rw [hq] at h; simp only at h
      cases hr : pipelineRun cfg sd ds with
      | error e => rw [hr] at h; cases h
      | ok r2 =>
        obtain ⟨s2, rest⟩ := r2
        rw [hr] at h; simp only at h
        injection h with h; injection h with h1 h2; subst h1; subst h2
        obtain ⟨st1, raw, hraw, htd, hsd⟩ := dayQ_close cfg hcl st sd d td hq
        have hr0 := rawDay_outside cfg st st1 d raw (hout d List.mem_cons_self) hraw
        have hcl0 : closingsOf cfg st d = [] := by
          unfold closingsOf Balance.closings
          rw [hq0]
          split <;> rfl
        have htd0 : td = [] := by rw [htd, hr0, hcl0]; rfl
        obtain ⟨f1, _, _⟩ := rawDay_frame cfg st st1 d raw hraw
        have hsdq : sd.cQty = [] := by
          rw [hsd, htd0, accumulate_nil]
          show st1.cQty = []
          rw [f1, hq0]
        rw [htd0, pipelineRun_close_empty cfg hcl ds sd s2 rest (fun x hx => hout x (List.mem_cons_of_mem _ hx)) hsdq hr]
        rfl

/-- an insert exists only if the window is not empty (closing on or off) -/
theorem window_nonempty_any (cfg : BalCfg) (days : List Day) (st : BalState)
    (h : Balance.run cfg days = .ok st) (hne : st.entries ≠ []) : cfg.span.start ≤ cfg.span.stop := by
  cases hcl : cfg.close with
  | false => exact window_nonempty_noclose cfg hcl days st h hne
  | true =>
    apply Classical.byContradiction
    intro hlt
    have hout : ∀ d ∈ days, cfg.span.contains d.date = false := by
      intro d _
      unfold Period.contains
      by_cases h1 : d.date < cfg.span.start
      · simp [h1]
      · have : d.date > cfg.span.stop := by omega
        simp [this]
    obtain ⟨txs, hp, hes⟩ := run_pipelineRun cfg days st h
    have := pipelineRun_close_empty cfg hcl days {} st txs hout rfl hp
    rw [this] at hes
    exact hne hes

end Knut.MTM
