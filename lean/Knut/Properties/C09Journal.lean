import Knut.Proofs.PrintCommands
import Knut.Proofs.PrintSound
import Knut.Properties.C09Text
/-!
# C09 (command level) — `knut print` output is accepted, printed again unchanged, and reports the same

With `C09_text_journal_fixpoint` (`Properties/C09Text.lean`) the three clauses of the property hold for the commands as
modelled on a journal that is one file (`printFile`: load with the parser model and the elaboration, build, check,
print; `BalanceCmd.run`: `knut balance` with any flags):

* `C09_print_accepted` – the printed text of a printable journal loads, and the checker's verdict on the reloaded
  journal is the verdict on the original (C05 machinery: the reloaded journal has the same days, transactions in sort
  order);
* `C09_print_fixpoint` – `knut print` of the printed text of an accepted printable journal is that text;
* `C09_loaded_printable` – every directive the loader returns, from any text, is printable (`Proofs/PrintSound.lean`: the
  parser's soundness gives field tokens of the right lexical classes, the elaboration's checks and
  `transaction.Create`, `@accrue` expansion included, give the rest), hence
  `C09_print_idempotent` – for EVERY input text: if `knut print` succeeds on it, `knut print` on the output gives the output
  again, byte for byte (`C09_print_idempotent_bytes`); `C09_file_reports_equal` – and check verdict and every balance report
  of the printed file equal those of the input file;
* `C09_reports_equal` – every balance report (any flag vector, valued or not, no restriction on the price directives:
  `print` keeps their order within a day) of the reloaded journal equals the one of the original.

`printFile`'s elaboration is `FromSyntax.loadText`; `Properties/C09Cmd.lean` shows that it is the same function as the
elaboration inside `Cmd.run` (the command model C14 compares with the binary) and restates the theorems for `Cmd.run`, for
any file system and include tree.

"Printable" (`PrintableDir`, `PrintableJournal`, decidable) is what the journal syntax can carry: dates 0001..9999, names
of Unicode letters and digits, decimal amounts, assertions with at least one balance, descriptions without a double
quote, transactions as `transaction.Create` builds them.
-/
namespace Knut.C09
open Knut Knut.FromSyntax Knut.JournalPrinter Knut.Utf8

/-- **`print` output is accepted iff the journal is**: the printed text loads and the checker gives the same verdict -/
theorem C09_print_accepted (path : String) (j : List Day) (hp : PrintableJournal j) :
    ∃ ds, loadText path (strBytes (print j)) = .ok ds ∧
      (Check.run (Builder.ofList ds).build).isOk = (Check.run j).isOk := by
  refine ⟨journalDirs j, load_print path j hp.dirs, ?_⟩
  rw [rebuild j hp.shape]
  exact check_normDays j

/-- **`knut print` reproduces its own output**: on the printed text of an accepted printable journal the command prints
that text -/
theorem C09_print_fixpoint (path : String) (j : List Day) (hp : PrintableJournal j) (hacc : (Check.run j).isOk = true) :
    printFile path (strBytes (print j)) = .ok (print j) := printFile_fixpoint path j hp hacc

/-- a rejected journal stays rejected after printing (the printed text loads, the checker refuses it) -/
theorem C09_print_rejected (path : String) (j : List Day) (hp : PrintableJournal j) (hrej : (Check.run j).isOk = false) :
    printFile path (strBytes (print j)) = .error "processing" := by
  unfold printFile
  rw [load_print path j hp.dirs]
  simp only
  have h1 := check_normDays j
  rw [hrej, ← rebuild j hp.shape] at h1
  cases hc : Check.run (Builder.ofList (journalDirs j)).build with
  | error e => rfl
  | ok st => rw [hc] at h1; cases h1

/-- **every directive the loader returns, from ANY text, is printable**: the hypothesis `PrintableDir` of the theorems
here is what parser, elaboration (`time.Parse`, `decimal.NewFromString`, the account registry) and `transaction.Create`
(with `@accrue` expansion) guarantee -/
theorem C09_loaded_printable (path : String) (text : List UInt8) (ds : List Directive) (h : loadText path text = .ok ds) :
    ∀ x ∈ ds, PrintableDir x := loadText_printable path text ds h

/-- hence the journal built from any loaded text is a printable journal -/
theorem C09_loaded_journal_printable (path : String) (text : List UInt8) (ds : List Directive)
    (h : loadText path text = .ok ds) : PrintableJournal (Builder.ofList ds).build :=
  printable_built ds (loadText_printable path text ds h)

/-- **`print` is idempotent on its own output, for every input**: whenever `knut print` succeeds on a text (any bytes),
`knut print` on its output gives that output again -/
theorem C09_print_idempotent (path path' : String) (text : List UInt8) (out : String)
    (h : printFile path text = .ok out) : printFile path' (strBytes out) = .ok out := by
  unfold printFile at h
  cases hl : loadText path text with
  | error => rw [hl] at h; cases h
  | panic s => rw [hl] at h; cases h
  | ok ds =>
    rw [hl] at h
    simp only at h
    cases hc : Check.run (Builder.ofList ds).build with
    | error e => rw [hc] at h; cases h
    | ok st =>
      rw [hc] at h
      simp only [CmdOutcome.ok.injEq] at h
      subst h
      exact C09_print_fixpoint path' _ (printable_built ds (loadText_printable path text ds hl)) (by rw [hc]; rfl)

/-- the same as byte strings: the second run writes the bytes of the first -/
theorem C09_print_idempotent_bytes (path path' : String) (text : List UInt8) (out : String)
    (h : printFile path text = .ok out) :
    ∃ out', printFile path' (strBytes out) = .ok out' ∧ strBytes out' = strBytes out :=
  ⟨out, C09_print_idempotent path path' text out h, rfl⟩

/-- **reports of a file and of its printed form agree, for every input**: for any text that loads, the printed journal
loads too, the checker gives the same verdict, and `knut balance` under every flag vector prints the same bytes (or fails
alike) on both -/
theorem C09_file_reports_equal (f : BalanceFlags) (path path' : String) (text : List UInt8) (ds0 : List Directive)
    (h : loadText path text = .ok ds0) :
    ∃ ds, loadText path' (strBytes (print (Builder.ofList ds0).build)) = .ok ds ∧
      BalanceCmd.run f ds = BalanceCmd.run f ds0 ∧
      (Check.run (Builder.ofList ds).build).isOk = (Check.run (Builder.ofList ds0).build).isOk := by
  have hp := loadText_printable path text ds0 h
  have hj := printable_built ds0 hp
  refine ⟨printedDirs ds0, load_print path' _ hj.dirs, balance_printed f ds0 hp, ?_⟩
  unfold printedDirs
  rw [rebuild _ hj.shape]
  exact check_normDays _

/-- **every balance report of the reloaded journal equals the one of the original**: for every flag vector (periods,
`--val`, `--close`, mappings, filters, …) `knut balance` prints the same bytes, or fails alike, on the directives
loaded from the printed text and on the directives the journal was built from -/
theorem C09_reports_equal (f : BalanceFlags) (path : String) (ds0 : List Directive) (hp : ∀ x ∈ ds0, PrintableDir x) :
    ∃ ds, loadText path (strBytes (print (Builder.ofList ds0).build)) = .ok ds ∧
      BalanceCmd.run f ds = BalanceCmd.run f ds0 :=
  ⟨printedDirs ds0, load_print path _ (printable_built ds0 hp).dirs, balance_printed f ds0 hp⟩

/-- … and so does the check verdict -/
theorem C09_verdict_equal (path : String) (ds0 : List Directive) (hp : ∀ x ∈ ds0, PrintableDir x) :
    ∃ ds, loadText path (strBytes (print (Builder.ofList ds0).build)) = .ok ds ∧
      (Check.run (Builder.ofList ds).build).isOk = (Check.run (Builder.ofList ds0).build).isOk :=
  C09_print_accepted path _ (printable_built ds0 hp)

/-! ## Non-vacuity: the three-day journal of `C09Text.lean` -/

/-- its directives in file order -/
def exDirs : List Directive := exJournal.flatMap rawDirs

theorem exDirs_printable : ∀ x ∈ exDirs, PrintableDir x := by decide +kernel

theorem exJournal_accepted : (Check.run exJournal).isOk = true := by decide +kernel

example : printFile "j" (strBytes (print exJournal)) = .ok (print exJournal) :=
  C09_print_fixpoint "j" exJournal exJournal_printable exJournal_accepted

/-- the hypothesis of the unconditional idempotence theorem is satisfiable: `knut print` succeeds on this text -/
example : printFile "k" (strBytes (print exJournal)) = .ok (print exJournal) :=
  C09_print_idempotent "j" "k" _ _ (C09_print_fixpoint "j" exJournal exJournal_printable exJournal_accepted)

/-- a monthly report valued in CHF with closing entries -/
def exFlags : BalanceFlags := { to := 737500, interval := .monthly, valuation := some "CHF", close := true }

/-- the builder makes the three days of them, and the (unvalued) pipeline succeeds with 8 report entries -/
example : (Builder.ofList exDirs).build = exJournal := by decide +kernel
example : (match BalanceCmd.entries { exFlags with valuation := none } exDirs with
    | .ok (es, _) => decide (es.length = 8) | _ => false) = true := by decide +kernel

example : ∃ ds, loadText "j" (strBytes (print (Builder.ofList exDirs).build)) = .ok ds ∧
    BalanceCmd.run exFlags ds = BalanceCmd.run exFlags exDirs := C09_reports_equal exFlags "j" exDirs exDirs_printable

end Knut.C09
