import Knut.GoSem.Strings
/-!
# String primitives of the importers (`harness/trans_units_import.go`)

`regexp.MustCompile(`\s+`).ReplaceAllString(src, repl)` (`ch.supercard` `parseWords`; the pattern text is listed in `trRegexpPrelude`,
the replacement is a constant without `$`): `\s` is the Perl class `[\t\n\f\r ]` (ASCII only — not `unicode.IsSpace`); `+` is greedy
and leftmost, so every MAXIMAL run of such characters is replaced by `repl` once; the pattern never matches the empty string.

A copy of `Import.collapseWsChars` of `Model/Import/Common.lean` (with the replacement as a parameter), so that the generated modules
need not import the model; `FactsAgree/TransImportSupercard.lean` proves the copy equal to the original (`replaceAllWs_model`).  The
original is compared with the real `regexp` by the stream `lib-str` of C13.

`Regexp.matchDate`, `Strings.TrimSpace`, `Strings.replaceChfApos` (`ch.swisscard`): copies of `Import.dateRe`, `Import.trimSpace`,
`Import.Swisscard.stripChf`, proved equal to the originals in `FactsAgree/TransImportSwisscard.lean`; the originals are compared with
real Go by the same stream.
-/
namespace Knut.GoSem

namespace Regexp

/-- regexp `\s` = `[\t\n\f\r ]` -/
def isSpaceRe (c : Char) : Bool := c == '\t' || c == '\n' || c == '\x0c' || c == '\r' || c == ' '

theorem length_dropWhile_le {α : Type} (p : α → Bool) (l : List α) : (l.dropWhile p).length ≤ l.length := by
  induction l with
  | nil => simp
  | cons a t ih => simp only [List.dropWhile_cons]; split <;> simp <;> omega

def replaceAllWsChars (repl : List Char) : List Char → List Char
  | [] => []
  | c :: rest =>
    if isSpaceRe c then repl ++ replaceAllWsChars repl (rest.dropWhile isSpaceRe) else c :: replaceAllWsChars repl rest
termination_by cs => cs.length
decreasing_by
  all_goals simp_wf
  · have := length_dropWhile_le isSpaceRe rest; omega

/-- `regexp.MustCompile("\\s+").ReplaceAllString(src, repl)` for a replacement without `$` -/
def replaceAllWs (src repl : String) : String := String.ofList (replaceAllWsChars repl.toList src.toList)

/-- a decimal digit `\d` = `[0-9]` -/
def isDig (c : Char) : Bool := '0' ≤ c && c ≤ '9'

/-- `\d\d.\d\d.\d\d\d\d` at the start of the list (`.` = any character but newline) -/
def dateReHere : List Char → Bool
  | a :: b :: x :: c :: d :: y :: e :: f :: g :: h :: _ =>
    isDig a && isDig b && x != '\n' && isDig c && isDig d && y != '\n' && isDig e && isDig f && isDig g && isDig h
  | _ => false

def anySuffix (p : List Char → Bool) : List Char → Bool
  | [] => p []
  | c :: cs => p (c :: cs) || anySuffix p cs

/-- `regexp.MustCompile(`\d\d.\d\d.\d\d\d\d`).MatchString(s)` (unanchored; `ch.swisscard`, `ch.cumulus`): a copy of `Import.dateRe`
(`Model/Import/Common.lean`, compared with the real `regexp` by the stream `lib-str` of C13); `TransImportSwisscard.matchDate_model` -/
def matchDate (s : String) : Bool := anySuffix dateReHere s.toList

end Regexp

namespace Strings

/-- `unicode.IsSpace` -/
def isSpaceU (c : Char) : Bool :=
  let n := c.toNat
  (9 ≤ n && n ≤ 13) || n == 32 || n == 0x85 || n == 0xA0 || n == 0x1680 || (0x2000 ≤ n && n ≤ 0x200a) ||
  n == 0x2028 || n == 0x2029 || n == 0x202f || n == 0x205f || n == 0x3000

/-- `strings.TrimSpace(s)`: a copy of `Import.trimSpace` (`TransImportSwisscard.TrimSpace_model`) -/
def TrimSpace (s : String) : String :=
  String.ofList (((s.toList.dropWhile isSpaceU).reverse.dropWhile isSpaceU).reverse)

/-- the characters of `strings.NewReplacer("CHF", "", "'", "").Replace`: at every position the first pair (in argument order) whose
old string matches is applied, then the scan continues after the match -/
def replaceChfAposChars : List Char → List Char
  | [] => []
  | 'C' :: 'H' :: 'F' :: rest => replaceChfAposChars rest
  | '\'' :: rest => replaceChfAposChars rest
  | c :: rest => c :: replaceChfAposChars rest

/-- `strings.NewReplacer("CHF", "", "'", "").Replace(s)` (`ch.swisscard`; the package-level replacer with exactly these constant
arguments): a copy of `Import.Swisscard.stripChf` (`TransImportSwisscard.replaceChfApos_model`) -/
def replaceChfApos (s : String) : String := String.ofList (replaceChfAposChars s.toList)

end Strings

end Knut.GoSem
