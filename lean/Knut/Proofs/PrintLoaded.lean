import Knut.Proofs.PrintRebuild
/-!
# What `transaction.Create` builds is in the booking normal form the printer needs (C09)

`PrintableTx` asks that the posting list of a transaction is what its printed bookings rebuild
(`t.postings = (everyOther t.postings).flatMap (postingBuild …)`). Every transaction `transaction.Create` returns - plain
or expanded by `@accrue` - has that form, because all its postings come from `posting.Builder.Build`.
-/
namespace Knut.FromSyntax
open Knut Knut.JournalPrinter

/-- the booking normal form of a posting list -/
def BookingNF (ps : List Posting) : Prop :=
  ps = (everyOther ps).flatMap (fun p => postingBuild p.other p.account p.commodity p.quantity)

theorem postingBuild_shape (cr dr : Account) (c : Commodity) (q : Rat) :
    ∃ p1 p2, postingBuild cr dr c q = [p1, p2] ∧ postingBuild p2.other p2.account p2.commodity p2.quantity = [p1, p2] := by
  refine ⟨_, _, rfl, ?_⟩
  have hz : ¬ ((0 : Rat) < 0) := Rat.lt_irrefl
  by_cases hneg : q < 0
  · have hnn : ¬ (-q < 0) := by
      intro hc
      have := Rat.neg_lt_neg hc
      rw [Rat.neg_neg, Rat.neg_zero] at this
      exact (Rat.not_lt.mpr (Rat.le_of_lt hneg)) this
    simp [postingBuild, hneg, hnn, hz]
  · simp [postingBuild, hneg, hz]

theorem nf_nil : BookingNF [] := rfl

theorem nf_build_append (cr dr : Account) (c : Commodity) (q : Rat) (rest : List Posting) (h : BookingNF rest) :
    BookingNF (postingBuild cr dr c q ++ rest) := by
  obtain ⟨p1, p2, e, e2⟩ := postingBuild_shape cr dr c q
  unfold BookingNF at *
  rw [e]
  simp only [List.cons_append, List.nil_append, everyOther, List.flatMap_cons, e2]
  rw [← h]

theorem nf_build (cr dr : Account) (c : Commodity) (q : Rat) : BookingNF (postingBuild cr dr c q) := by
  have := nf_build_append cr dr c q [] nf_nil
  rwa [List.append_nil] at this

theorem nf_postingsOf (bs : List Accrual.Booking) : BookingNF (Accrual.postingsOf bs) := by
  unfold Accrual.postingsOf
  induction bs with
  | nil => exact nf_nil
  | cons b rest ih => rw [List.flatMap_cons]; exact nf_build_append _ _ _ _ _ ih

theorem nf_ieLoop (t : Transaction) (acc : Account) (p : Posting) (n : Nat) (amount rem : Rat) (i : Nat) (dts : List Int) :
    ∀ u ∈ Accrual.ieLoop t acc p n amount rem i dts, BookingNF u.postings := by
  induction dts generalizing i with
  | nil => intro u hu; cases hu
  | cons dt rest ih =>
    intro u hu
    simp only [Accrual.ieLoop, List.mem_cons] at hu
    rcases hu with rfl | hu
    · exact nf_build _ _ _ _
    · exact ih _ u hu

theorem nf_expandLoop (t : Transaction) (a : Accrual.Addon) (ps : List Posting) (txs : List Transaction)
    (h : Accrual.expandLoop t a ps = .ok txs) : ∀ u ∈ txs, BookingNF u.postings := by
  induction ps generalizing txs with
  | nil =>
    simp only [Accrual.expandLoop, Accrual.Step.ok.injEq] at h
    subst h; intro u hu; cases hu
  | cons p rest ih =>
    simp only [Accrual.expandLoop] at h
    cases h1 : Accrual.expandPosting t a p with
    | panic s => rw [h1] at h; cases h
    | ok txs1 =>
      rw [h1] at h
      cases h2 : Accrual.expandLoop t a rest with
      | panic s => rw [h2] at h; cases h
      | ok txs2 =>
        rw [h2] at h
        simp only [Accrual.Step.ok.injEq] at h
        subst h
        intro u hu
        rcases List.mem_append.mp hu with hu | hu
        · unfold Accrual.expandPosting at h1
          split at h1
          · simp only [Accrual.Step.ok.injEq] at h1
            subst h1
            simp only [List.mem_cons, List.not_mem_nil, or_false] at hu
            subst hu
            exact nf_build _ _ _ _
          · split at h1
            · cases h1
            · split at h1
              · cases h1
              · simp only [Accrual.Step.ok.injEq] at h1
                subst h1
                exact nf_ieLoop _ _ _ _ _ _ _ _ u hu
        · exact ih txs2 h2 u hu

/-- **every transaction `transaction.Create` returns is in booking normal form** -/
theorem create_nf (ti : Accrual.TxInput) (txs : List Transaction) (h : Accrual.create ti = .ok txs) :
    ∀ u ∈ txs, BookingNF u.postings := by
  unfold Accrual.create at h
  split at h
  · cases h
  · simp only at h
    split at h
    · simp only [Accrual.Result.ok.injEq] at h
      subst h
      intro u hu
      simp only [List.mem_cons, List.not_mem_nil, or_false] at hu
      subst hu
      exact nf_postingsOf _
    · rename_i a _
      unfold Accrual.expand at h
      split at h
      · cases h
      · split at h
        · cases h
        · split at h
          · cases h
          · rename_i txs' h3
            simp only [Accrual.Result.ok.injEq] at h
            subst h
            exact nf_expandLoop _ _ _ _ h3

theorem loadItems_go_nf (items : List Item) (acc ds : List Directive) (h : loadItems.go items acc = .ok ds)
    (hacc : ∀ t, Directive.tx t ∈ acc → BookingNF t.postings) : ∀ t, Directive.tx t ∈ ds → BookingNF t.postings := by
  induction items generalizing acc with
  | nil =>
    simp only [loadItems.go, Loaded.ok.injEq] at h
    subst h
    intro t ht
    exact hacc t (List.mem_reverse.mp ht)
  | cons it rest ih =>
    cases it with
    | tx ti =>
      simp only [loadItems.go] at h
      cases hc : Accrual.create ti with
      | error => rw [hc] at h; cases h
      | panic s => rw [hc] at h; cases h
      | ok txs =>
        rw [hc] at h
        apply ih _ h
        intro t ht
        rcases List.mem_append.mp ht with ht | ht
        · have : t ∈ txs := by
            have := List.mem_reverse.mp ht
            obtain ⟨u, hu, e⟩ := List.mem_map.mp this
            cases e; exact hu
          exact create_nf ti txs hc t this
        · exact hacc t ht
    | includeFile p => simp only [loadItems.go] at h; exact ih _ h hacc
    | _ =>
      simp only [loadItems.go] at h
      apply ih _ h
      intro t ht
      rcases List.mem_cons.mp ht with e | ht
      · cases e
      · exact hacc t ht

/-- **every transaction the loader returns is in booking normal form** -/
theorem loadText_nf (path : String) (text : List UInt8) (ds : List Directive) (h : loadText path text = .ok ds) :
    ∀ t, Directive.tx t ∈ ds → BookingNF t.postings := by
  unfold loadText at h
  split at h
  · cases h
  · split at h
    · unfold loadFailed at h
      split at h <;> cases h
    · exact loadItems_go_nf _ [] ds h (fun t ht => by cases ht)

end Knut.FromSyntax
