package main

import (
	"fmt"
	"sort"
	"strings"
	"time"

	"github.com/shopspring/decimal"
)

// ---------------------------------------------------------------- structured journals
//
// A generated journal exists in three forms: the structured form below, its text in knut's
// journal syntax (Text), and the wire form sent to the Lean driver (Wire).

type JBook struct {
	Credit, Debit string
	Qty           string // decimal literal
	Com           string
}

type JBal struct {
	Account string
	Qty     string
	Com     string
}

type JAccrual struct {
	Interval   string
	Start, End int
	Account    string
}

type JDir struct {
	Kind      byte // 'o' open, 'c' close, 'p' price, 'a' assertion, 't' transaction
	Date      int
	Account   string // o, c
	Com       string // p
	Price     string // p
	Target    string // p
	Balances  []JBal // a
	Desc      string // t
	Targets   *[]string
	Bookings  []JBook
	Accrual   *JAccrual
	MultiLine bool // a: force the multi-line layout even for one balance
}

type Journal struct {
	Dirs []JDir
}

func fmtDate(z int) string { return dayTime(z).Format("2006-01-02") }

// Text renders one directive in journal syntax (canonical layout).
func (d JDir) Text() string {
	var b strings.Builder
	switch d.Kind {
	case 'o':
		fmt.Fprintf(&b, "%s open %s\n", fmtDate(d.Date), d.Account)
	case 'c':
		fmt.Fprintf(&b, "%s close %s\n", fmtDate(d.Date), d.Account)
	case 'p':
		fmt.Fprintf(&b, "%s price %s %s %s\n", fmtDate(d.Date), d.Com, d.Price, d.Target)
	case 'a':
		if len(d.Balances) == 1 && !d.MultiLine {
			bal := d.Balances[0]
			fmt.Fprintf(&b, "%s balance %s %s %s\n", fmtDate(d.Date), bal.Account, bal.Qty, bal.Com)
		} else {
			fmt.Fprintf(&b, "%s balance\n", fmtDate(d.Date))
			for _, bal := range d.Balances {
				fmt.Fprintf(&b, "%s %s %s\n", bal.Account, bal.Qty, bal.Com)
			}
		}
	case 't':
		if d.Accrual != nil {
			fmt.Fprintf(&b, "@accrue %s %s %s %s\n", d.Accrual.Interval, fmtDate(d.Accrual.Start), fmtDate(d.Accrual.End), d.Accrual.Account)
		}
		if d.Targets != nil {
			fmt.Fprintf(&b, "@performance(%s)\n", strings.Join(*d.Targets, ","))
		}
		fmt.Fprintf(&b, "%s \"%s\"\n", fmtDate(d.Date), d.Desc)
		for _, bk := range d.Bookings {
			fmt.Fprintf(&b, "%s %s %s %s\n", bk.Credit, bk.Debit, bk.Qty, bk.Com)
		}
	}
	return b.String()
}

// Text renders the journal, one blank line between directives; offsets[i] is the byte offset of directive i.
func (j *Journal) Text() (string, []int) {
	var b strings.Builder
	offsets := make([]int, len(j.Dirs))
	for i, d := range j.Dirs {
		offsets[i] = b.Len()
		b.WriteString(d.Text())
		b.WriteString("\n")
	}
	return b.String(), offsets
}

// Wire is the driver's form of one directive (see lean/Knut/Driver/JournalWire.lean).
func (d JDir) Wire() string {
	switch d.Kind {
	case 'o', 'c':
		return fmt.Sprintf("%c~%d~%s", d.Kind, d.Date, d.Account)
	case 'p':
		return fmt.Sprintf("p~%d~%s~%s~%s", d.Date, d.Com, d.Price, d.Target)
	case 'a':
		parts := make([]string, len(d.Balances))
		for i, b := range d.Balances {
			parts[i] = b.Account + "," + b.Qty + "," + b.Com
		}
		return fmt.Sprintf("a~%d~%s", d.Date, strings.Join(parts, ";"))
	case 't':
		tg := "-"
		if d.Targets != nil {
			tg = "=" + strings.Join(*d.Targets, ",")
		}
		parts := make([]string, len(d.Bookings))
		for i, b := range d.Bookings {
			parts[i] = b.Credit + "," + b.Debit + "," + b.Qty + "," + b.Com
		}
		ac := "-"
		if d.Accrual != nil {
			ac = fmt.Sprintf("%s,%d,%d,%s", d.Accrual.Interval, d.Accrual.Start, d.Accrual.End, d.Accrual.Account)
		}
		return fmt.Sprintf("t~%d~%s~%s~%s~%s", d.Date, Hex(d.Desc), tg, ac, strings.Join(parts, ";"))
	}
	return "?"
}

func (j *Journal) Wire() string {
	if len(j.Dirs) == 0 {
		return "-"
	}
	parts := make([]string, len(j.Dirs))
	for i, d := range j.Dirs {
		parts[i] = d.Wire()
	}
	return strings.Join(parts, "|")
}

// ---------------------------------------------------------------- generator

type JGenOpts struct {
	MaxAccounts        int
	MaxDays            int
	Prices             bool   // emit price directives (for valued reports)
	Valuation          string // valuation commodity the prices lead to
	Accruals           bool   // allow @accrue annotations
	Mutate             bool   // apply at most one lifecycle/assertion mutation (for C04)
	Unicode            bool   // non-ASCII account segments / commodities
	BaseDay            int    // first possible day
	SpanDays           int    // days are drawn from [BaseDay, BaseDay+SpanDays]
	ManyDecimals       bool
	DropPrices         bool // leave out some price declarations (valued reports must then fail)
	ChainPrices        bool // declare some prices through a third commodity
	PricesFirstDayOnly bool // all price declarations on the first day (later days have bookings only)
	DupPrices          bool // sometimes declare the same pair twice on one day with different prices (file order matters; excluded by C05 only)
	ManyPricesPerDay   bool // a day with 13-30 further price declarations, among them redeclared pairs (unstable sorts reorder them only above 12 elements; file order decides which price wins)
	BoundaryDates      bool // the days are drawn from the days around a turn of the year and the end of February (leap years included)
	LongPrices         bool // some declared prices carry 9-12 decimals (more than the 8 the price arithmetic keeps)
	CaseVariants       bool // commodities that differ only in letter case (distinct commodities; comparators must not tie on them)
	Sizes              bool // wide fields (seeded change C09-i capped a column width at 64): one or more account names of 30-300 runes (deep, long segments, non-ASCII of 2-4 bytes), one or two commodity names of 8-40 runes, half of the amounts with 8-40 characters (many digits before/after the point, negative); the lengths cluster around powers of two and typical caps (see jgSize); draws nothing when off
	BookOut            bool // sometimes empty an A/L account (all its positions or one of them) by transfer bookings, so that accounts which HELD positions get closed (the same day or a later one) and re-opened (seeded change C16-f forgot positions at the start of the closing day); draws nothing when off
}

var typeNames = []string{"Assets", "Liabilities", "Equity", "Income", "Expenses"}

type jgState struct {
	open map[string]bool
	qty  map[[2]string]decimal.Decimal // AL positions
}

// GenJournal builds a mostly well-formed journal by walking an account-lifecycle automaton.
// The returned tags describe which features the journal exercises.
func GenJournal(r *RNG, o JGenOpts) (*Journal, []string) {
	var tags []string
	tag := func(t string) { tags = append(tags, t) }
	// (segments that contain or are account type words: a mapping applied to whole names instead of the first segment shows on them, seed C02-d)
	segs := []string{"Bank", "Cash", "Broker", "Main", "Sub", "X", "Y", "Z9", "Salary", "Rent", "Food", "Car", "A", "B", "IncomeTax", "FixedAssets", "Expenses", "Liabilities"}
	if o.Unicode && r.Chance(1, 3) {
		segs = append(segs, "Überweisung", "Épargne", "日本", "Żółć")
		tag("unicode")
	}
	nacc := r.Range(2, max(2, o.MaxAccounts))
	accSet := map[string]bool{}
	var accounts []string
	// always at least one A/L account and one equity account
	accounts = append(accounts, "Assets:"+Pick(r, segs), "Equity:"+Pick(r, []string{"Equity", "Opening", "E"}))
	accSet[accounts[0]], accSet[accounts[1]] = true, true
	accrualAcc := "Assets:Accrual"
	if o.Accruals {
		if r.Chance(1, 3) {
			accrualAcc = "Liabilities:Accrued"
		}
		accSet[accrualAcc] = true
		accounts = append(accounts, accrualAcc)
	}
	for len(accounts) < nacc {
		a := Pick(r, typeNames)
		depth := r.Range(1, 3)
		if r.Chance(1, 5) {
			depth = r.Range(3, 5) // deep accounts: mapping rules with a suffix only bite when depth > level + suffix (seed C02-b)
			tag("deep-account")
		}
		for k := 0; k < depth; k++ {
			a += ":" + Pick(r, segs)
		}
		if r.Chance(1, 4) && len(accounts) > 0 { // child of an existing account (parent is booked directly as well)
			a = Pick(r, accounts) + ":" + Pick(r, segs)
			tag("nested-account")
		}
		if !accSet[a] {
			accSet[a] = true
			accounts = append(accounts, a)
		}
	}
	if o.Sizes {
		// one account gets the journal's width (so that the longest name, which is the padding of the printed columns, sits at the
		// drawn length exactly), a third of the others a width up to it
		forced, top := r.Intn(len(accounts)), jgSize(r, 30, 300)
		if o.Accruals && accounts[forced] == accrualAcc {
			forced = 0
		}
		for i := range accounts {
			if (o.Accruals && accounts[i] == accrualAcc) || !(i == forced || r.Chance(1, 3)) {
				continue
			}
			n := top
			if i != forced {
				n = jgSize(r, 30, top)
			}
			if w := jgWideAccount(r, accounts[i], n); !accSet[w] {
				delete(accSet, accounts[i])
				accSet[w], accounts[i] = true, w
				tag("wide-account")
			}
		}
	}
	coms := []string{"CHF"}
	for _, c := range []string{"USD", "AAPL", "EUR", "GOLD"} {
		if r.Chance(2, 5) {
			coms = append(coms, c)
		}
	}
	if o.Unicode && r.Chance(1, 6) {
		coms = append(coms, "Ünit")
	}
	if o.Sizes {
		for k := r.Range(1, 2); k > 0; k-- {
			if w := jgWord(r, jgSize(r, 8, 40), r.Intn(3), true); !contains(coms, w) {
				coms = append(coms, w)
				tag("wide-commodity")
			}
		}
	}
	if o.CaseVariants && r.Chance(1, 2) {
		coms = append(coms, strings.ToLower(Pick(r, coms)))
		tag("case-variant-commodity")
	}
	if o.Valuation != "" && !contains(coms, o.Valuation) {
		coms = append(coms, o.Valuation)
	}
	ndays := r.Range(1, max(1, o.MaxDays))
	if ndays > o.SpanDays+1 {
		ndays = o.SpanDays + 1
	}
	daySet := map[int]bool{}
	if o.BoundaryDates {
		// 29 Dec .. 3 Jan and 27 Feb .. 2 Mar around a turn of the year, leap years included (seeded change C05-d keyed the
		// journal's days by Year()*365 + YearDay(): 31 December of a leap year and the following 1 January fell together)
		y := 2015 + r.Intn(11)
		var cand []int
		for off := -3; off <= 2; off++ {
			cand = append(cand, dayNum(time.Date(y+1, 1, 1, 0, 0, 0, 0, time.UTC))+off)
			cand = append(cand, dayNum(time.Date(y+1, 3, 1, 0, 0, 0, 0, time.UTC))+off)
		}
		if ndays > len(cand) {
			ndays = len(cand)
		}
		for len(daySet) < ndays {
			daySet[Pick(r, cand)] = true
		}
		tag("boundary-dates")
	}
	for len(daySet) < ndays {
		daySet[o.BaseDay+r.Intn(o.SpanDays+1)] = true
	}
	var days []int
	for d := range daySet {
		days = append(days, d)
	}
	sort.Ints(days)

	st := jgState{open: map[string]bool{}, qty: map[[2]string]decimal.Decimal{}}
	j := &Journal{}
	isAL := func(a string) bool { return strings.HasPrefix(a, "Assets") || strings.HasPrefix(a, "Liabilities") }
	amount := func() string {
		if o.Sizes && r.Chance(1, 2) {
			tag("wide-amount")
			return jgWideAmount(r, jgSize(r, 8, 40))
		}
		switch r.Intn(8) {
		case 0:
			return "0"
		case 1:
			return fmt.Sprintf("-%d.%02d", r.Intn(500), r.Intn(100))
		case 2:
			return fmt.Sprintf("%d", r.Range(1, 5000))
		case 3:
			if o.ManyDecimals {
				return fmt.Sprintf("%d.%09d", r.Intn(100), r.Intn(1000000000))
			}
			return fmt.Sprintf("%d.5", r.Intn(100))
		case 4:
			return fmt.Sprintf("%d.%d0", r.Intn(1000), r.Intn(10)) // trailing zero
		default:
			return fmt.Sprintf("%d.%02d", r.Intn(2000), r.Intn(100))
		}
	}
	descs := []string{"Groceries", "Salary March", "rent", "Transfer  to savings", "x", "Überweisung Müller", "multi\nline", "fee; charge", "café #3", ""}
	for di, day := range days {
		// prices first (for valued reports every non-valuation commodity gets a price on the first day)
		if o.Prices {
			for _, c := range coms {
				if c == o.Valuation {
					continue
				}
				if o.DropPrices && r.Chance(1, 3) {
					tag("price-dropped")
					continue
				}
				if di == 0 || (!o.PricesFirstDayOnly && r.Chance(1, 3)) {
					p := fmt.Sprintf("%d.%02d", r.Range(0, 300), r.Range(1, 99))
					if o.LongPrices && r.Chance(1, 3) {
						// a quote with more decimals than price arithmetic keeps (seeded change C09-c printed prices cut to 8)
						k := r.Range(9, 12)
						p = fmt.Sprintf("%d.%0*d", Pick(r, []int{0, 0, 1, 37}), k, 1+r.Intn(999999999))
						if !strings.HasSuffix(p, "0") {
							tag("price-long")
						}
					}
					if o.ChainPrices && len(coms) > 2 && r.Chance(1, 3) {
						// price in a third commodity, which itself is (or will be) priced in the valuation commodity
						via := Pick(r, coms)
						if via != c && via != o.Valuation {
							j.Dirs = append(j.Dirs, JDir{Kind: 'p', Date: day, Com: c, Price: p, Target: via})
							tag("price-chained")
							continue
						}
					}
					switch r.Intn(6) {
					case 0: // declared the other way round
						j.Dirs = append(j.Dirs, JDir{Kind: 'p', Date: day, Com: o.Valuation, Price: p, Target: c})
						tag("price-inverse")
					case 1: // chained through another commodity that is priced today
						j.Dirs = append(j.Dirs, JDir{Kind: 'p', Date: day, Com: c, Price: p, Target: o.Valuation})
						tag("price-direct")
					default:
						j.Dirs = append(j.Dirs, JDir{Kind: 'p', Date: day, Com: c, Price: p, Target: o.Valuation})
						tag("price-direct")
					}
					if o.DupPrices && r.Chance(1, 4) {
						// a second declaration of the same pair on the same day: the later one in file order wins
						p2 := fmt.Sprintf("%d.%02d", r.Range(0, 300), r.Range(1, 99))
						if r.Bool() {
							j.Dirs = append(j.Dirs, JDir{Kind: 'p', Date: day, Com: c, Price: p2, Target: o.Valuation})
						} else {
							j.Dirs = append(j.Dirs, JDir{Kind: 'p', Date: day, Com: o.Valuation, Price: p2, Target: c})
						}
						tag("price-same-day-duplicate")
					}
				}
			}
		}
		if o.Prices && o.ManyPricesPerDay && r.Chance(1, 3) {
			// a quote file pasted into the journal: many declarations on one day, some pairs declared twice or more
			n := r.Range(13, 30)
			var extra []string
			for _, c := range coms {
				if c != o.Valuation {
					extra = append(extra, c)
				}
			}
			for k := 0; k < 4; k++ {
				extra = append(extra, fmt.Sprintf("Q%d", k))
			}
			for k := 0; k < n; k++ {
				c := Pick(r, extra)
				p := fmt.Sprintf("%d.%02d", r.Range(0, 300), r.Range(1, 99))
				j.Dirs = append(j.Dirs, JDir{Kind: 'p', Date: day, Com: c, Price: p, Target: o.Valuation})
			}
			tag("many-prices-one-day")
		}
		// opens
		for _, a := range accounts {
			if !st.open[a] && (di == 0 || r.Chance(1, 2)) {
				j.Dirs = append(j.Dirs, JDir{Kind: 'o', Date: day, Account: a})
				st.open[a] = true
			}
		}
		var openNow []string
		for _, a := range accounts {
			if st.open[a] {
				openNow = append(openNow, a)
			}
		}
		// transactions
		ntx := r.Intn(4)
		for k := 0; k < ntx && len(openNow) >= 2; k++ {
			t := JDir{Kind: 't', Date: day, Desc: Pick(r, descs)}
			if r.Chance(1, 3) {
				t.Desc = RandDesc(r)
				tag("desc-random")
			}
			nb := 1
			if r.Chance(1, 4) {
				nb = r.Range(2, 3)
				tag("multi-booking")
			}
			for b := 0; b < nb; b++ {
				cr := Pick(r, openNow)
				dr := Pick(r, openNow)
				if cr == dr && r.Chance(9, 10) {
					dr = openNow[(indexOf(openNow, cr)+1)%len(openNow)]
				}
				q := amount()
				c := Pick(r, coms)
				t.Bookings = append(t.Bookings, JBook{cr, dr, q, c})
				qd, _ := decimal.NewFromString(q)
				if isAL(cr) {
					st.qty[[2]string{cr, c}] = st.qty[[2]string{cr, c}].Sub(qd)
				}
				if isAL(dr) {
					st.qty[[2]string{dr, c}] = st.qty[[2]string{dr, c}].Add(qd)
				}
				if qd.IsZero() {
					tag("zero-amount")
				}
				if qd.IsNegative() {
					tag("negative-amount")
				}
			}
			if r.Chance(1, 6) {
				var tg []string
				for _, c := range coms {
					if r.Chance(1, 3) {
						tg = append(tg, c)
					}
				}
				if tg == nil {
					tg = []string{}
				}
				t.Targets = &tg
				tag("performance-annotation")
			}
			if o.Accruals && r.Chance(1, 4) && st.open[accrualAcc] {
				s := days[0] + r.Intn(day-days[0]+30)
				t.Accrual = &JAccrual{Interval: Pick(r, []string{"daily", "weekly", "monthly", "quarterly"}), Start: s, End: s + Pick(r, []int{0, 1, 6, 30, 45, 100, 200}), Account: accrualAcc}
				tag("accrual")
			}
			j.Dirs = append(j.Dirs, t)
		}
		// book-outs: an A/L account hands its positions (all of them, one of them, or half of one) to another open account
		emptied := map[string]bool{}
		if o.BookOut && len(openNow) >= 2 {
			for _, a := range openNow {
				if !isAL(a) || !r.Chance(1, 3) {
					continue
				}
				var held []string
				for _, c := range coms {
					if q := st.qty[[2]string{a, c}]; !q.IsZero() {
						held = append(held, c)
					}
				}
				if len(held) == 0 {
					continue
				}
				all := true
				if len(held) > 1 && r.Chance(1, 4) {
					held, all = []string{Pick(r, held)}, false
				}
				to := Pick(r, openNow)
				if to == a {
					to = openNow[(indexOf(openNow, a)+1)%len(openNow)]
				}
				var bks []JBook
				for _, c := range held {
					q := st.qty[[2]string{a, c}]
					parts := []decimal.Decimal{q}
					switch r.Intn(8) {
					case 0: // only half of the position leaves the account
						parts, all = []decimal.Decimal{q.Mul(decimal.New(5, -1))}, false
					case 1: // the position leaves in two bookings
						h := q.Mul(decimal.New(5, -1))
						parts = []decimal.Decimal{h, q.Sub(h)}
					}
					for _, x := range parts {
						if r.Bool() {
							bks = append(bks, JBook{a, to, x.String(), c})
						} else {
							bks = append(bks, JBook{to, a, x.Neg().String(), c})
						}
						st.qty[[2]string{a, c}] = st.qty[[2]string{a, c}].Sub(x)
						if isAL(to) {
							st.qty[[2]string{to, c}] = st.qty[[2]string{to, c}].Add(x)
						}
					}
				}
				if len(bks) > 1 && r.Bool() {
					for _, b := range bks {
						j.Dirs = append(j.Dirs, JDir{Kind: 't', Date: day, Desc: Pick(r, descs), Bookings: []JBook{b}})
					}
				} else {
					j.Dirs = append(j.Dirs, JDir{Kind: 't', Date: day, Desc: Pick(r, descs), Bookings: bks})
				}
				emptied[a] = all
				tag("book-out")
			}
		}
		// assertions with the true running balance
		if r.Chance(1, 2) {
			var bals []JBal
			for _, a := range openNow {
				if !isAL(a) || (o.Accruals && a == accrualAcc) {
					continue
				}
				for _, c := range coms {
					q, ok := st.qty[[2]string{a, c}]
					if (ok || r.Chance(1, 8)) && r.Chance(1, 2) {
						bals = append(bals, JBal{a, q.String(), c})
						if !ok {
							tag("zero-assertion-on-fresh-position")
						}
					}
				}
			}
			if len(bals) > 0 {
				if r.Chance(1, 3) && len(bals) > 1 {
					j.Dirs = append(j.Dirs, JDir{Kind: 'a', Date: day, Balances: bals})
					tag("multi-balance-assertion")
				} else {
					for _, b := range bals {
						j.Dirs = append(j.Dirs, JDir{Kind: 'a', Date: day, Balances: []JBal{b}})
					}
				}
			}
		}
		// closes: accounts all of whose positions are zero
		for _, a := range openNow {
			if emptied[a] { // (only with BookOut) an account emptied today is closed today two times out of three, else on a later day
				if !r.Chance(2, 3) {
					continue
				}
			} else if !r.Chance(1, 5) {
				continue
			}
			zero := true
			for k, q := range st.qty {
				if k[0] == a && !q.IsZero() {
					zero = false
				}
			}
			if o.Accruals && (a == accrualAcc || !isAL(a)) {
				continue // accrual legs are booked on other days: keep these accounts open
			}
			if zero && (a != accounts[0] || o.BookOut) && a != accounts[1] {
				j.Dirs = append(j.Dirs, JDir{Kind: 'c', Date: day, Account: a})
				if emptied[a] {
					tag("close-on-emptying-day")
				}
				st.open[a] = false
				for k := range st.qty {
					if k[0] == a {
						delete(st.qty, k)
					}
				}
				tag("close")
			}
		}
	}
	if o.Mutate && r.Chance(1, 2) && len(j.Dirs) > 0 {
		tag("mutated:" + mutateJournal(r, j, accounts, coms))
	}
	return j, tags
}

// ---------------------------------------------------------------- wide fields (JGenOpts.Sizes)

// jgSizeCaps: widths at which layout code typically changes behaviour (column minima such as %10s, caps, buffer sizes, one-byte lengths).
var jgSizeCaps = []int{8, 10, 12, 16, 20, 24, 32, 40, 48, 64, 72, 80, 100, 120, 128, 132, 160, 200, 255, 256, 300}

// jgSize draws a length in [lo, hi]: two times out of three within 2 of one of jgSizeCaps, else uniformly.
func jgSize(r *RNG, lo, hi int) int {
	if r.Chance(2, 3) {
		if n := Pick(r, jgSizeCaps) + r.Range(-2, 2); lo <= n && n <= hi {
			return n
		}
	}
	return r.Range(lo, hi)
}

var jgLetters = []rune("abcdefghijklmnopqrstuvwxyzABCDEFGHIJKLMNOPQRSTUVWXYZ")
var jgDigits = []rune("0123456789")
var jgWideLetters = []rune("äöüÉéñŻłćßΩλдЖשع日本語한글𝒜𐐀") // letters of 2, 3 and 4 bytes in UTF-8
var jgWideDigits = []rune("٣५９")                      // unicode.IsDigit, not ASCII

// jgWord draws n runes of letters and digits: style 0 ASCII, 1 mixed, 2 non-ASCII only. letterFirst: the first rune is a letter.
func jgWord(r *RNG, n, style int, letterFirst bool) string {
	var b strings.Builder
	for i := 0; i < n; i++ {
		wide := style == 2 || (style == 1 && r.Chance(1, 3))
		digit := !(i == 0 && letterFirst) && r.Chance(1, 6)
		switch {
		case wide && digit:
			b.WriteRune(Pick(r, jgWideDigits))
		case wide:
			b.WriteRune(Pick(r, jgWideLetters))
		case digit:
			b.WriteRune(Pick(r, jgDigits))
		default:
			b.WriteRune(Pick(r, jgLetters))
		}
	}
	return b.String()
}

// jgWideAccount extends the account name a by further segments to exactly n runes (a is returned if it is already that long):
// many short segments (deep), one long segment, or segments of 5-40 runes; ASCII, mixed or non-ASCII.
func jgWideAccount(r *RNG, a string, n int) string {
	shape, style := r.Intn(3), r.Intn(3)
	for {
		rem := n - len([]rune(a))
		if rem <= 0 {
			return a
		}
		if rem == 1 { // no room for ":" and a rune: lengthen the last segment
			return a + jgWord(r, 1, style, false)
		}
		k := rem - 1
		switch shape {
		case 0:
			k = min(k, r.Range(1, 4))
		case 1:
			k = min(k, r.Range(5, 40))
		}
		a += ":" + jgWord(r, k, style, false)
	}
}

// jgWideAmount draws a decimal literal of n >= 4 characters: integer, 0.ddd, or digits on both sides; a third negative; no leading zero.
func jgWideAmount(r *RNG, n int) string {
	s := ""
	if r.Chance(1, 3) {
		s, n = "-", n-1
	}
	num := func(k int, nonzeroFirst bool) string {
		b := make([]byte, k)
		for i := range b {
			b[i] = byte('0' + r.Intn(10))
		}
		if nonzeroFirst && b[0] == '0' {
			b[0] = byte('1' + r.Intn(9))
		}
		return string(b)
	}
	switch r.Intn(4) {
	case 0:
		return s + num(n, true)
	case 1:
		return s + "0." + num(n-2, false)
	default:
		i := r.Range(1, n-2)
		return s + num(i, true) + "." + num(n-1-i, false)
	}
}

// mutateJournal applies one targeted mutation; the result may or may not be well-formed.
// WidenDates moves a prefix of the journal's days far into the past (before 1678) and/or a suffix far into the
// future (after 2262) by a monotone shift, so that order, lifecycle and verdict are unchanged while the dates leave
// the range in which Unix nanoseconds fit an int64 (seeded change C04-c compared days by UnixNano).
// Journals with @accrue windows are left alone (a window straddling a shift would get thousands of periods).
func WidenDates(r *RNG, j *Journal) bool {
	seen := map[int]bool{}
	for _, d := range j.Dirs {
		if d.Accrual != nil {
			return false
		}
		seen[d.Date] = true
	}
	var days []int
	for d := range seen {
		days = append(days, d)
	}
	sort.Ints(days)
	if len(days) < 2 {
		return false
	}
	lo, hi := -1, 1<<62 // dates <= lo go to the past, dates >= hi to the future
	mode := r.Intn(3)
	if mode != 1 {
		lo = days[r.Intn(len(days)-1)]
	}
	if mode != 0 {
		hi = days[1+r.Intn(len(days)-1)]
		if hi <= lo {
			hi = lo + 1
		}
	}
	past := 365 * r.Range(345, 700)
	future := 365 * r.Range(250, 7900)
	for i := range j.Dirs {
		switch {
		case j.Dirs[i].Date <= lo:
			j.Dirs[i].Date -= past
		case j.Dirs[i].Date >= hi:
			j.Dirs[i].Date += future
		}
	}
	return true
}

// CornerDay draws the day number of a calendar-corner date: Feb 29 of leap years (incl. the century years divisible by
// 400), Feb 28 / Mar 1 of leap and non-leap (century) years, the first / 30th / last day of any month, Dec 31 / Jan 1,
// and any day of the years at the ends of the four-digit range (0001, 0099, 0100, 0999, 1000, 9999).
func CornerDay(r *RNG) int {
	day := func(y, m, d int) int { return dayNum(time.Date(y, time.Month(m), d, 0, 0, 0, 0, time.UTC)) }
	leap := []int{1600, 2000, 2400, 2024, 1996, 2000, 4, 400, 800, 1200, 2004, 2800, 9600, 9996, 1604, 1896, 1904, 2096, 2104}
	edge := []int{1900, 2100, 2023, 2000, 2024, 1700, 1800, 2200, 100, 1600, 2400, 1999, 2001, 9900}
	years := []int{1, 2, 99, 100, 999, 1000, 1582, 1752, 1969, 1970, 1999, 2000, 2001, 2038, 2262, 2263, 9998, 9999}
	anyYear := func() int {
		if r.Chance(1, 2) {
			return Pick(r, years)
		}
		switch r.Intn(3) {
		case 0:
			return r.Range(1, 9999)
		case 1:
			return r.Range(1890, 2110)
		}
		return 100 * r.Range(1, 99)
	}
	return min(max(cornerDayRaw(r, day, leap, edge, anyYear), 0), maxDay)
}

func cornerDayRaw(r *RNG, day func(y, m, d int) int, leap, edge []int, anyYear func() int) int {
	switch r.Intn(5) {
	case 0:
		return day(Pick(r, leap), 2, 29)
	case 1:
		y := Pick(r, edge)
		return day(y, 3, 1) - r.Intn(3) // Mar 1, the last day of February, the day before
	case 2:
		y, m := anyYear(), r.Range(1, 12)
		last := day(y, m+1, 1) - 1 // time.Date normalises month 13
		return last - Pick(r, []int{0, 0, 1, 1, -1, 2})
	case 3:
		y := anyYear()
		if r.Bool() {
			return day(y, 12, 31)
		}
		return day(y, 1, 1)
	default:
		y := Pick(r, []int{1, 99, 100, 999, 1000, 9999, 1, 9999})
		return day(y, 1, 1) + r.Intn(365)
	}
}

// CornerDates moves the dates of a journal onto calendar corners (CornerDay) without changing their order: the whole
// journal (accrual windows included) is shifted so that one of its dates lands on a corner, or - journals without
// accruals - its distinct days are mapped, in order, onto consecutive days around a corner or onto as many corners.
// Lifecycle, positions and verdict depend on the order of the days only; the date texts a loader has to accept change.
func CornerDates(r *RNG, j *Journal) string {
	seen := map[int]bool{}
	accr := false
	var all []int
	for _, d := range j.Dirs {
		seen[d.Date] = true
		all = append(all, d.Date)
		if d.Accrual != nil {
			accr = true
			all = append(all, d.Accrual.Start, d.Accrual.End)
		}
	}
	if len(all) == 0 {
		return ""
	}
	var days []int
	for d := range seen {
		days = append(days, d)
	}
	sort.Ints(days)
	lo, hi := all[0], all[0]
	for _, d := range all {
		lo, hi = min(lo, d), max(hi, d)
	}
	mode := r.Intn(3)
	if accr {
		mode = 0
	}
	switch mode {
	case 0: // constant shift: one date of the journal (a directive's or an accrual bound) lands on the corner
		for try := 0; try < 16; try++ {
			delta := CornerDay(r) - Pick(r, all)
			if lo+delta < 0 || hi+delta > maxDay {
				continue
			}
			for i := range j.Dirs {
				j.Dirs[i].Date += delta
				if a := j.Dirs[i].Accrual; a != nil {
					b := *a
					b.Start, b.End = b.Start+delta, b.End+delta
					j.Dirs[i].Accrual = &b
				}
			}
			return "corner-dates:shift"
		}
		return ""
	case 1: // consecutive days around a corner: ..., Feb 28, Feb 29, Mar 1, ...
		for try := 0; try < 16; try++ {
			first := CornerDay(r) - r.Intn(len(days))
			if first < 0 || first+len(days)-1 > maxDay {
				continue
			}
			to := map[int]int{}
			for k, d := range days {
				to[d] = first + k
			}
			for i := range j.Dirs {
				j.Dirs[i].Date = to[j.Dirs[i].Date]
			}
			return "corner-dates:run"
		}
		return ""
	default: // every day a corner of its own
		got := map[int]bool{}
		var cs []int
		for try := 0; len(cs) < len(days) && try < 40*len(days); try++ {
			if c := CornerDay(r); !got[c] {
				got[c] = true
				cs = append(cs, c)
			}
		}
		if len(cs) < len(days) {
			return ""
		}
		sort.Ints(cs)
		to := map[int]int{}
		for k, d := range days {
			to[d] = cs[k]
		}
		for i := range j.Dirs {
			j.Dirs[i].Date = to[j.Dirs[i].Date]
		}
		return "corner-dates:each"
	}
}

func mutateJournal(r *RNG, j *Journal, accounts, coms []string) string {
	idx := func(kind byte) []int {
		var res []int
		for i, d := range j.Dirs {
			if d.Kind == kind {
				res = append(res, i)
			}
		}
		return res
	}
	switch r.Intn(9) {
	case 0: // drop an open
		if is := idx('o'); len(is) > 0 {
			i := Pick(r, is)
			j.Dirs = append(j.Dirs[:i:i], j.Dirs[i+1:]...)
			return "drop-open"
		}
	case 1: // duplicate an open (same or later day)
		if is := idx('o'); len(is) > 0 {
			d := j.Dirs[Pick(r, is)]
			d.Date += r.Intn(3)
			j.Dirs = append(j.Dirs, d)
			return "duplicate-open"
		}
	case 2: // wrong assertion amount
		if is := idx('a'); len(is) > 0 {
			i := Pick(r, is)
			bals := append([]JBal(nil), j.Dirs[i].Balances...)
			k := r.Intn(len(bals))
			q, _ := decimal.NewFromString(bals[k].Qty)
			bals[k].Qty = q.Add(decimal.New(int64(r.Range(1, 9)), int32(-r.Intn(3)))).String()
			j.Dirs[i].Balances = bals
			return "wrong-assertion"
		}
	case 3: // close an account at a random day (may have a balance, may not be open)
		a := Pick(r, accounts)
		d := j.Dirs[r.Intn(len(j.Dirs))].Date
		j.Dirs = append(j.Dirs, JDir{Kind: 'c', Date: d, Account: a})
		return "random-close"
	case 4: // booking after everything on an account that may be closed / never opened
		d := j.Dirs[len(j.Dirs)-1].Date + r.Intn(2)
		j.Dirs = append(j.Dirs, JDir{Kind: 't', Date: d, Desc: "late", Bookings: []JBook{{Pick(r, accounts), Pick(r, accounts), "1", Pick(r, coms)}}})
		return "late-booking"
	case 5: // assertion of zero on some account/commodity at a random day
		d := j.Dirs[r.Intn(len(j.Dirs))].Date
		j.Dirs = append(j.Dirs, JDir{Kind: 'a', Date: d, Balances: []JBal{{Pick(r, accounts), "0", Pick(r, coms)}}})
		return "zero-assertion"
	case 6: // assertion on a non-A/L account with its running total
		for _, a := range accounts {
			if !strings.HasPrefix(a, "Assets") && !strings.HasPrefix(a, "Liabilities") {
				d := j.Dirs[len(j.Dirs)-1].Date
				j.Dirs = append(j.Dirs, JDir{Kind: 'a', Date: d, Balances: []JBal{{a, Pick(r, []string{"0", "5", "-3.5"}), Pick(r, coms)}}})
				return "non-AL-assertion"
			}
		}
	case 7: // re-open a closed account later and assert zero
		if is := idx('c'); len(is) > 0 {
			c := j.Dirs[Pick(r, is)]
			j.Dirs = append(j.Dirs, JDir{Kind: 'o', Date: c.Date + 1, Account: c.Account},
				JDir{Kind: 'a', Date: c.Date + 1, Balances: []JBal{{c.Account, "0", Pick(r, coms)}}})
			return "reopen-assert"
		}
	case 8: // zero-amount booking on an unopened account
		d := j.Dirs[r.Intn(len(j.Dirs))].Date
		j.Dirs = append(j.Dirs, JDir{Kind: 't', Date: d, Desc: "zero", Bookings: []JBook{{accounts[0], "Expenses:NeverOpened", "0", coms[0]}}})
		return "zero-booking-unopened"
	}
	return "none"
}

func contains(xs []string, x string) bool { return indexOf(xs, x) >= 0 }
func indexOf(xs []string, x string) int {
	for i, y := range xs {
		if y == x {
			return i
		}
	}
	return -1
}

// descWords: the vocabulary of RandDesc. Everything a description may hold except the double quote (the syntax has no escape):
// printf verbs and lone percent signs, backslashes and escapes as plain text, comment markers, annotation and macro sigils,
// punctuation of the journal syntax, digits and dates, control characters, wide and combining Unicode.
var descWords = []string{"rent", "Salary", "x", "100%", "%", "%s", "%d", "%v", "%!", "50%off", "%%", "\\", "\\n", "\\t", "a\\", "'", "''", "`",
	"#", "# c", "//", "*", "@accrue", "@performance(USD)", "$macro", "{}", "[x]", "(y)", "<z>", ";", ":", ",", ".", "-", "--", "=", "+", "&", "|", "~", "^", "?", "!",
	"2020-01-01", "open", "close", "price", "balance", "include", "1.50", "-3", "Assets:Bank", "CHF",
	"\t", "\r", "\n", " ", "  ", "\x00", "\x7f", "\u00a0", "\u200b", "\ufeff", "e\u0301", "Zürich", "Ελλάδα", "Москва", "日本語", "مرحبا", "😀", "\U0001F468\u200d\U0001F469",
	"averyveryveryveryveryveryveryveryveryveryveryveryveryveryverylongword"}

// RandDesc draws a transaction description: 0-7 words of descWords, joined by single blanks (a tenth of the time without any separator).
func RandDesc(r *RNG) string {
	n := r.Intn(8)
	sep := " "
	if r.Chance(1, 10) {
		sep = ""
	}
	var parts []string
	for i := 0; i < n; i++ {
		parts = append(parts, Pick(r, descWords))
	}
	return strings.Join(parts, sep)
}
