import Knut.Spec.TableSpec
/-!
# Helper lemmas for C17: the text of a number

`showScaled` (the body of `StringFixed`) has the shape `-? digits (. digits{k})?`; read back with
`parseDec` it yields the scaled integer; `addThousandsSep` inserts commas only, and exactly where the
independent grouper `groupLeft` puts them.
-/
open Knut.Dec Knut.Table Knut.Table.Spec

namespace Knut.Table

theorem isDigit_eq (c : Char) : Knut.Dec.isDigit c = c.isDigit := by
  simp [Knut.Dec.isDigit, Char.isDigit, Char.le_def]

/-- decimal digits of a natural number, most significant first -/
abbrev digitsOf (n : Nat) : List Char := Nat.toDigits 10 n

def fracPart (k fp : Nat) : List Char :=
  if k = 0 then [] else '.' :: (List.replicate (k - (digitsOf fp).length) '0' ++ digitsOf fp)

def signPart (m : Int) : List Char := if m < 0 then ['-'] else []

theorem showScaled_toList (m : Int) (k : Nat) :
    (showScaled m k).toList =
      signPart m ++ digitsOf (m.natAbs / 10 ^ k) ++ fracPart k (m.natAbs % 10 ^ k) := by
  unfold showScaled signPart fracPart natDigits padLeftZeros
  by_cases hm : m < 0 <;> by_cases hk : k = 0 <;>
    simp [hm, hk, String.toList_append, Nat.toString_eq_repr, Nat.repr_eq_ofList_toDigits, String.length_ofList]


def parseUnsigned (neg : Bool) (cs : List Char) : Option Rat :=
  let ip := cs.takeWhile isDigit
  let rest := cs.dropWhile isDigit
  if ip.isEmpty then none else
  match rest with
  | [] =>
    let v : Int := digitsToNat ip
    some ((if neg then -v else v : Int) : Rat)
  | '.' :: fp =>
    if fp.isEmpty || !fp.all isDigit then none else
    let v : Int := digitsToNat (ip ++ fp)
    some (mkRat (if neg then -v else v) (10 ^ fp.length))
  | _ => none

theorem parseDec_neg (s : String) (rest : List Char) (h : s.toList = '-' :: rest) :
    parseDec s = parseUnsigned true rest := by
  unfold parseDec parseUnsigned
  simp only [h]
  rfl

theorem signSplit (cs : List Char) :
    cs.head? ≠ some '-' → (match cs with | '-' :: rest => (true, rest) | _ => (false, cs)) = (false, cs) := by
  intro h
  split
  · simp at h
  · rfl

theorem parseDec_nonneg (s : String) (h : s.toList.head? ≠ some '-') :
    parseDec s = parseUnsigned false s.toList := by
  unfold parseDec
  generalize s.toList = cs at h
  cases cs with
  | nil => rfl
  | cons c rest =>
    have hc : c ≠ '-' := by simpa using h
    simp only []
    split
    · rename_i heq
      cases heq; exact absurd rfl hc
    · rfl


theorem digitsOf_isDigit {n : Nat} {c : Char} (h : c ∈ digitsOf n) : isDigit c = true := by
  rw [isDigit_eq]; exact Nat.isDigit_of_mem_toDigits (by decide) (by decide) h

theorem digitsOf_ne_nil (n : Nat) : digitsOf n ≠ [] := Nat.toDigits_ne_nil

theorem digitsToNat_eq (cs : List Char) : digitsToNat cs = Nat.ofDigitChars 10 cs 0 := by
  unfold digitsToNat Nat.ofDigitChars
  congr 1
  funext acc c
  rw [Nat.mul_comm]

theorem digitsToNat_digitsOf (n : Nat) : digitsToNat (digitsOf n) = n := by
  rw [digitsToNat_eq]; exact Nat.ofDigitChars_ten_toDigits

theorem digitsOf_length_le {n k : Nat} (hk : 0 < k) (h : n < 10 ^ k) : (digitsOf n).length ≤ k :=
  (Nat.length_toDigits_le_iff (by decide) hk).mpr h

/-- the digits after the point: exactly `k`, all decimal digits -/
def fracDigits (k fp : Nat) : List Char := List.replicate (k - (digitsOf fp).length) '0' ++ digitsOf fp

theorem fracDigits_length {k fp : Nat} (hk : 0 < k) (h : fp < 10 ^ k) : (fracDigits k fp).length = k := by
  have := digitsOf_length_le hk h
  simp [fracDigits]; omega

theorem fracDigits_isDigit {k fp : Nat} {c : Char} (h : c ∈ fracDigits k fp) : isDigit c = true := by
  simp only [fracDigits, List.mem_append, List.mem_replicate] at h
  rcases h with ⟨_, rfl⟩ | h
  · decide
  · exact digitsOf_isDigit h

theorem digitsToNat_shape (ip k fp : Nat) (hk : 0 < k) (h : fp < 10 ^ k) :
    digitsToNat (digitsOf ip ++ fracDigits k fp) = ip * 10 ^ k + fp := by
  have hl := digitsOf_length_le hk h
  rw [digitsToNat_eq, Nat.ofDigitChars_append, Nat.ofDigitChars_ten_toDigits, fracDigits,
    Nat.ofDigitChars_append, Nat.ofDigitChars_replicate_zero, Nat.ofDigitChars_eq_ofDigitChars_zero,
    Nat.ofDigitChars_ten_toDigits, ← Nat.mul_assoc, ← Nat.pow_add]
  have : (digitsOf fp).length + (k - (digitsOf fp).length) = k := by omega
  rw [this, Nat.mul_comm]

theorem mkRat_one (z : Int) : mkRat z 1 = (z : Rat) := by
  apply Rat.ext <;> simp [Rat.num_mkRat, Rat.den_mkRat]

theorem fracPart_eq (k fp : Nat) : fracPart k fp = if k = 0 then [] else '.' :: fracDigits k fp := rfl

theorem parseUnsigned_shape (neg : Bool) (a k : Nat) :
    parseUnsigned neg (digitsOf (a / 10 ^ k) ++ fracPart k (a % 10 ^ k)) =
      some (mkRat (if neg then -(a : Int) else a) (10 ^ k)) := by
  have hD : ∀ c ∈ digitsOf (a / 10 ^ k), isDigit c = true := fun c hc => digitsOf_isDigit hc
  unfold parseUnsigned
  rw [fracPart_eq]
  by_cases hk : k = 0
  · subst hk
    simp only [if_true, List.append_nil, Nat.pow_zero, Nat.div_one]
    have h1 : List.takeWhile isDigit (digitsOf a) = digitsOf a := by
      have := List.takeWhile_append_of_pos (l₂ := []) hD
      simpa using this
    have h2 : List.dropWhile isDigit (digitsOf a) = [] := by
      have := List.dropWhile_append_of_pos (l₂ := []) hD
      simpa using this
    simp only [h1, h2, digitsToNat_digitsOf]
    have : (digitsOf a).isEmpty = false := by simp [digitsOf_ne_nil]
    simp only [this, Bool.false_eq_true, if_false]
    rw [mkRat_one]
  · have hk' : 0 < k := Nat.pos_of_ne_zero hk
    have hfp : a % 10 ^ k < 10 ^ k := Nat.mod_lt _ (Nat.pow_pos (by decide))
    simp only [hk, if_false]
    have h1 : List.takeWhile isDigit (digitsOf (a / 10 ^ k) ++ '.' :: fracDigits k (a % 10 ^ k)) = digitsOf (a / 10 ^ k) := by
      rw [List.takeWhile_append_of_pos hD]; simp [List.takeWhile_cons, isDigit]
    have h2 : List.dropWhile isDigit (digitsOf (a / 10 ^ k) ++ '.' :: fracDigits k (a % 10 ^ k)) = '.' :: fracDigits k (a % 10 ^ k) := by
      rw [List.dropWhile_append_of_pos hD]; simp [List.dropWhile_cons, isDigit]
    simp only [h1, h2]
    have h3 : (digitsOf (a / 10 ^ k)).isEmpty = false := by simp [digitsOf_ne_nil]
    have h4 : (fracDigits k (a % 10 ^ k)).isEmpty = false := by
      have := fracDigits_length hk' hfp
      cases hh : fracDigits k (a % 10 ^ k) with
      | nil => rw [hh] at this; simp at this; omega
      | cons _ _ => rfl
    have h5 : (fracDigits k (a % 10 ^ k)).all isDigit = true := by
      rw [List.all_eq_true]; exact fun c hc => fracDigits_isDigit hc
    simp only [h3, h4, h5, Bool.false_eq_true, if_false, Bool.not_true, Bool.or_self,
      digitsToNat_shape _ _ _ hk' hfp, fracDigits_length hk' hfp]
    congr 2
    have := Nat.div_add_mod a (10 ^ k)
    rw [Nat.mul_comm] at this
    rw [this]


theorem head_digitsOf_ne_minus (n : Nat) (T : List Char) : (digitsOf n ++ T).head? ≠ some '-' := by
  cases h : digitsOf n with
  | nil => exact absurd h (digitsOf_ne_nil n)
  | cons c cs =>
    have : isDigit c = true := digitsOf_isDigit (h ▸ List.mem_cons_self)
    intro hh
    simp at hh
    subst hh
    simp [isDigit] at this

theorem parseDec_showScaled (m : Int) (k : Nat) : parseDec (showScaled m k) = some (mkRat m (10 ^ k)) := by
  have hl := showScaled_toList m k
  by_cases hm : m < 0
  · have : (showScaled m k).toList = '-' :: (digitsOf (m.natAbs / 10 ^ k) ++ fracPart k (m.natAbs % 10 ^ k)) := by
      rw [hl]; simp [signPart, hm]
    rw [parseDec_neg _ _ this, parseUnsigned_shape]
    simp only [if_true]
    congr 2
    omega
  · have : (showScaled m k).toList = digitsOf (m.natAbs / 10 ^ k) ++ fracPart k (m.natAbs % 10 ^ k) := by
      rw [hl]; simp [signPart, hm]
    rw [parseDec_nonneg _ (by rw [this]; exact head_digitsOf_ne_minus _ _), this, parseUnsigned_shape]
    simp only [Bool.false_eq_true, if_false]
    congr 2
    omega

theorem parseDec_showFixed (p : Int) (x : Rat) : parseDec (showFixed p x) = some (roundPlaces p x) := by
  unfold showFixed
  by_cases hp : 0 ≤ p
  · simp only [hp, if_true, parseDec_showScaled]
    simp [roundPlaces, hp, roundHalfAway]
  · simp only [hp, if_false, parseDec_showScaled, Nat.pow_zero, mkRat_one]
    unfold roundPlaces
    simp only [hp, if_false, Rat.num_intCast]



/-- a tail after the integer digits: nothing, or a decimal point and more -/
def PointTail (T : List Char) : Prop := T = [] ∨ ∃ F, T = '.' :: F

def commaIf (D : List Char) : List Char := if D.length % 3 = 0 ∧ D ≠ [] then [','] else []

theorem groupLeft_cons (d : Char) (D : List Char) : groupLeft (d :: D) = d :: (commaIf D ++ groupLeft D) := by
  unfold commaIf
  rw [groupLeft]
  split <;> simp

/-- inside the integer digits (a digit has been seen): commas exactly as `groupLeft` puts them -/
theorem sepLoop_digits (idx : Int) (T : List Char) (hT : PointTail T) :
    ∀ (D : List Char) (i : Int), (∀ c ∈ D, isDigit c = true) → idx - i = D.length →
      sepLoop idx i true (D ++ T) = commaIf D ++ groupLeft D ++ T := by
  intro D
  induction D with
  | nil =>
    intro i _ hi
    simp only [List.nil_append, commaIf, groupLeft, List.length_nil]
    rcases hT with rfl | ⟨F, rfl⟩
    · simp [sepLoop]
    · unfold sepLoop
      have : i ≥ idx := by simp at hi; omega
      simp [this]
  | cons d D ih =>
    intro i hD hi
    have hd : isDigit d = true := hD d (by simp)
    have hD' : ∀ c ∈ D, isDigit c = true := fun c hc => hD c (by simp [hc])
    have hlen : idx - i = (D.length : Int) + 1 := by simpa using hi
    have hnb : ¬ (i ≥ idx ∧ d ≠ '-') := by omega
    rw [List.cons_append, sepLoop]
    simp only [hnb, if_false, Bool.true_or]
    rw [ih (i + 1) hD' (by omega), groupLeft_cons]
    have htm : Int.tmod (idx - i) 3 = 0 ↔ (D.length + 1) % 3 = 0 := by
      rw [hlen, Int.tmod_eq_emod_of_nonneg (by omega)]
      omega
    by_cases h3 : (D.length + 1) % 3 = 0
    · have : Int.tmod (idx - i) 3 = 0 := htm.mpr h3
      simp [this, commaIf, h3]
    · have : ¬ Int.tmod (idx - i) 3 = 0 := fun h => h3 (htm.mp h)
      simp [this, commaIf, h3]



theorem idxOf_point (S D T : List Char) (hS : '.' ∉ S) (hD : ∀ c ∈ D, isDigit c = true) (hT : PointTail T) :
    (S ++ D ++ T).idxOf '.' = S.length + D.length := by
  have hD' : '.' ∉ D := fun h => by have := hD _ h; simp [isDigit] at this
  rw [List.append_assoc, List.idxOf_append, if_neg hS, List.idxOf_append, if_neg hD']
  rcases hT with rfl | ⟨F, rfl⟩ <;> simp <;> omega

/-- `addThousandsSep` on a text of the shape `-? digits (. …)?` -/
theorem addThousandsSep_shape (m : Int) (D T : List Char) (hD : ∀ c ∈ D, isDigit c = true) (hne : D ≠ [])
    (hT : PointTail T) :
    addThousandsSep (signPart m ++ D ++ T) = signPart m ++ groupLeft D ++ T := by
  unfold addThousandsSep
  rw [idxOf_point _ _ _ (by unfold signPart; split <;> simp) hD hT]
  cases D with
  | nil => exact absurd rfl hne
  | cons d D =>
    have hd : isDigit d = true := hD d (by simp)
    have hdm : d ≠ '-' := fun h => by subst h; simp [isDigit] at hd
    have hD' : ∀ c ∈ D, isDigit c = true := fun c hc => hD c (by simp [hc])
    rw [groupLeft_cons]
    unfold signPart
    by_cases hm : m < 0
    · simp only [hm, if_true, List.cons_append, List.nil_append, List.length_cons, List.length_nil]
      rw [sepLoop]
      have h1 : ¬ ((0 : Int) ≥ ((0 + 1 + (D.length + 1) : Nat) : Int) ∧ '-' ≠ '-') := by simp
      simp only [h1, if_false, Bool.false_or]
      have h2 : isDigit '-' = false := by decide
      simp only [h2, Bool.false_eq_true, and_false, if_false]
      rw [sepLoop]
      have h3 : ¬ ((0 + 1 : Int) ≥ ((0 + 1 + (D.length + 1) : Nat) : Int) ∧ d ≠ '-') := by
        intro h; have := h.1; simp at this; omega
      simp only [h3, if_false, Bool.false_or, hd, Bool.false_eq_true, and_false]
      rw [sepLoop_digits _ T hT D _ hD' (by simp; omega)]
    · simp only [hm, if_false, List.nil_append, List.cons_append, List.length_nil, List.length_cons]
      rw [sepLoop]
      have h3 : ¬ ((0 : Int) ≥ ((0 + (D.length + 1) : Nat) : Int) ∧ d ≠ '-') := by
        intro h; have := h.1; simp at this; omega
      simp only [h3, if_false, Bool.false_or, hd, Bool.false_eq_true, and_false]
      rw [sepLoop_digits _ T hT D _ hD' (by simp)]



/-- the scaled integer `StringFixed(p)` prints … -/
def fixedInt (p : Int) (x : Rat) : Int := if 0 ≤ p then scaledRound p.toNat x else (roundPlaces p x).num
/-- … and its number of fractional digits -/
def fixedScale (p : Int) : Nat := if 0 ≤ p then p.toNat else 0

theorem showFixed_eq (p : Int) (x : Rat) : showFixed p x = showScaled (fixedInt p x) (fixedScale p) := by
  unfold showFixed fixedInt fixedScale
  split <;> rfl

theorem roundPlaces_eq (p : Int) (x : Rat) : roundPlaces p x = mkRat (fixedInt p x) (10 ^ fixedScale p) := by
  have h1 := parseDec_showFixed p x
  rw [showFixed_eq, parseDec_showScaled] at h1
  exact (Option.some.inj h1).symm

theorem pointTail_fracPart (k fp : Nat) : PointTail (fracPart k fp) := by
  unfold fracPart PointTail
  split
  · exact Or.inl rfl
  · exact Or.inr ⟨_, rfl⟩

abbrev intDigits (m : Int) (k : Nat) : List Char := digitsOf (m.natAbs / 10 ^ k)

/-- the text of a number: sign, grouped integer digits, fraction -/
theorem numToString_shape (r : Renderer) (d : Rat) :
    numToString r d =
      signPart (fixedInt r.round (scaled r d)) ++
        groupLeft (intDigits (fixedInt r.round (scaled r d)) (fixedScale r.round)) ++
        fracPart (fixedScale r.round) ((fixedInt r.round (scaled r d)).natAbs % 10 ^ fixedScale r.round) := by
  unfold numToString
  rw [showFixed_eq, showScaled_toList]
  exact addThousandsSep_shape _ _ _ (fun c hc => digitsOf_isDigit hc) (digitsOf_ne_nil _) (pointTail_fracPart _ _)

theorem stripCommas_groupLeft : ∀ (D : List Char), (∀ c ∈ D, c ≠ ',') → stripCommas (groupLeft D) = D := by
  intro D
  induction D with
  | nil => intro _; rfl
  | cons d D ih =>
    intro h
    have hd : d ≠ ',' := h d (by simp)
    have ih' := ih (fun c hc => h c (by simp [hc]))
    rw [groupLeft]
    unfold stripCommas at ih' ⊢
    split <;> simp [List.filter_cons, hd, ih']

theorem isDigit_ne_comma {c : Char} (h : isDigit c = true) : c ≠ ',' := by
  intro hc; subst hc; simp [isDigit] at h
theorem isDigit_ne_point {c : Char} (h : isDigit c = true) : c ≠ '.' := by
  intro hc; subst hc; simp [isDigit] at h
theorem isDigit_ne_minus {c : Char} (h : isDigit c = true) : c ≠ '-' := by
  intro hc; subst hc; simp [isDigit] at h

theorem stripCommas_append (a b : List Char) : stripCommas (a ++ b) = stripCommas a ++ stripCommas b := by
  simp [stripCommas]

theorem stripCommas_signPart (m : Int) : stripCommas (signPart m) = signPart m := by
  unfold signPart stripCommas; split <;> simp

theorem stripCommas_fracPart (k fp : Nat) : stripCommas (fracPart k fp) = fracPart k fp := by
  unfold stripCommas
  rw [List.filter_eq_self]
  intro c hc
  rw [fracPart_eq] at hc
  split at hc
  · simp at hc
  · rcases List.mem_cons.mp hc with rfl | hc
    · decide
    · have := isDigit_ne_comma (fracDigits_isDigit hc); simpa using this

/-- removing the separators gives back exactly what `StringFixed` printed -/
theorem stripCommas_numToString (r : Renderer) (d : Rat) :
    String.ofList (stripCommas (numToString r d)) = showFixed r.round (scaled r d) := by
  rw [numToString_shape, stripCommas_append, stripCommas_append, stripCommas_signPart, stripCommas_fracPart,
    stripCommas_groupLeft _ (fun c hc => isDigit_ne_comma (digitsOf_isDigit hc)), showFixed_eq,
    ← showScaled_toList, String.ofList_toList]



theorem mkRat_neg_iff (m : Int) (k : Nat) : mkRat m (10 ^ k) < 0 ↔ m < 0 := by
  have hpos : (0 : Int) < ((10 ^ k : Nat) : Int) := by
    have : 0 < 10 ^ k := Nat.pow_pos (by decide)
    omega
  rw [← Rat.divInt_ofNat, ← Rat.not_le, Rat.divInt_nonneg_iff_of_pos_right hpos]
  omega

theorem head_groupLeft (D : List Char) : (groupLeft D).head? = D.head? := by
  cases D with
  | nil => rfl
  | cons d D => rw [groupLeft]; split <;> rfl

/-- a number text starts with `-` exactly when the printed (rounded) value is negative -/
theorem head_numToString (r : Renderer) (d : Rat) :
    ((numToString r d).head? = some '-') ↔ codeTarget r d < 0 := by
  rw [numToString_shape, codeTarget, roundPlaces_eq, mkRat_neg_iff]
  generalize fixedInt r.round (scaled r d) = m
  generalize fixedScale r.round = k
  unfold signPart
  by_cases hm : m < 0
  · simp [hm]
  · simp only [hm, if_false, List.nil_append, iff_false]
    rw [List.head?_append, head_groupLeft]
    cases h : intDigits m k with
    | nil => exact absurd h (digitsOf_ne_nil _)
    | cons c cs =>
      have : isDigit c = true := digitsOf_isDigit (h ▸ List.mem_cons_self)
      simp only [List.head?_cons, Option.some_or]
      intro hh
      exact isDigit_ne_minus this (Option.some.inj hh)



theorem groupLeft_no_point : ∀ (D : List Char), (∀ c ∈ D, isDigit c = true) → ∀ c ∈ groupLeft D, (c != '.') = true := by
  intro D
  induction D with
  | nil => intro _ c hc; simp [groupLeft] at hc
  | cons d D ih =>
    intro h c hc
    have hd : isDigit d = true := h d (by simp)
    have ih' := ih (fun c hc => h c (by simp [hc]))
    rw [groupLeft] at hc
    split at hc
    · rcases List.mem_cons.mp hc with rfl | hc
      · simpa using isDigit_ne_point hd
      · rcases List.mem_cons.mp hc with rfl | hc
        · decide
        · exact ih' c hc
    · rcases List.mem_cons.mp hc with rfl | hc
      · simpa using isDigit_ne_point hd
      · exact ih' c hc

theorem takeWhile_point (G T : List Char) (hG : ∀ c ∈ G, (c != '.') = true) (hT : PointTail T) :
    (G ++ T).takeWhile (fun c => c != '.') = G ∧ (G ++ T).dropWhile (fun c => c != '.') = T := by
  rw [List.takeWhile_append_of_pos hG, List.dropWhile_append_of_pos hG]
  rcases hT with rfl | ⟨F, rfl⟩ <;> simp

theorem unsigned_shape (m : Int) (X : List Char) (hX : X.head? ≠ some '-') : unsigned (signPart m ++ X) = X := by
  unfold signPart
  split
  · rfl
  · simp only [List.nil_append]
    unfold unsigned
    split
    · simp at hX
    · rfl

theorem groupedOK_numToString (r : Renderer) (d : Rat) : groupedOK (numToString r d) = true := by
  rw [numToString_shape]
  generalize fixedInt r.round (scaled r d) = m
  generalize hk : fixedScale r.round = k
  have hD : ∀ c ∈ intDigits m k, isDigit c = true := fun c hc => digitsOf_isDigit hc
  have hne : intDigits m k ≠ [] := digitsOf_ne_nil _
  have hhead : (groupLeft (intDigits m k) ++ fracPart k (m.natAbs % 10 ^ k)).head? ≠ some '-' := by
    rw [List.head?_append, head_groupLeft]
    cases h : intDigits m k with
    | nil => exact absurd h hne
    | cons c cs =>
      have : isDigit c = true := hD c (h ▸ List.mem_cons_self)
      simp only [List.head?_cons, Option.some_or]
      exact fun hh => isDigit_ne_minus this (Option.some.inj hh)
  unfold groupedOK
  rw [List.append_assoc, unsigned_shape _ _ hhead]
  have ⟨h1, h2⟩ := takeWhile_point _ _ (groupLeft_no_point _ hD) (pointTail_fracPart k (m.natAbs % 10 ^ k))
  simp only [h1, h2, stripCommas_groupLeft _ (fun c hc => isDigit_ne_comma (hD c hc))]
  have e1 : (intDigits m k).isEmpty = false := by
    cases h : intDigits m k with
    | nil => exact absurd h hne
    | cons _ _ => rfl
  have e2 : (intDigits m k).all isDigit = true := List.all_eq_true.mpr hD
  simp only [e1, e2, Bool.not_false, Bool.true_and, beq_self_eq_true]
  rw [fracPart_eq]
  by_cases hk0 : k = 0
  · simp [hk0]
  · have hk' : 0 < k := Nat.pos_of_ne_zero hk0
    have hfp : m.natAbs % 10 ^ k < 10 ^ k := Nat.mod_lt _ (Nat.pow_pos (by decide))
    have hl := fracDigits_length hk' hfp
    have e3 : (fracDigits k (m.natAbs % 10 ^ k)).isEmpty = false := by
      cases hh : fracDigits k (m.natAbs % 10 ^ k) with
      | nil => rw [hh] at hl; simp at hl; omega
      | cons _ _ => rfl
    have e4 : (fracDigits k (m.natAbs % 10 ^ k)).all isDigit = true :=
      List.all_eq_true.mpr (fun c hc => fracDigits_isDigit hc)
    simp only [hk0, if_false, e3, e4, Bool.not_false, Bool.and_self]

theorem fracOK_numToString (r : Renderer) (d : Rat) : fracOK r.round (numToString r d) = true := by
  rw [numToString_shape]
  generalize fixedInt r.round (scaled r d) = m
  have hD : ∀ c ∈ intDigits m (fixedScale r.round), isDigit c = true := fun c hc => digitsOf_isDigit hc
  have hS : ∀ c ∈ signPart m, (c != '.') = true := by
    unfold signPart; split <;> simp
  have hG : ∀ c ∈ signPart m ++ groupLeft (intDigits m (fixedScale r.round)), (c != '.') = true := by
    intro c hc
    rcases List.mem_append.mp hc with h | h
    · exact hS c h
    · exact groupLeft_no_point _ hD c h
  have ⟨_, h2⟩ := takeWhile_point _ _ hG (pointTail_fracPart (fixedScale r.round) (m.natAbs % 10 ^ fixedScale r.round))
  unfold fracOK
  simp only [h2]
  rw [fracPart_eq]
  unfold fixedScale
  by_cases hp : 0 < r.round
  · have hp0 : 0 ≤ r.round := by omega
    have hk0 : ¬ r.round.toNat = 0 := by omega
    simp only [hp, hp0, if_true, hk0, if_false, List.length_cons]
    have hfp : m.natAbs % 10 ^ r.round.toNat < 10 ^ r.round.toNat := Nat.mod_lt _ (Nat.pow_pos (by decide))
    rw [fracDigits_length (by omega) hfp]
    simp
  · simp only [hp, if_false]
    by_cases hp0 : 0 ≤ r.round
    · have : r.round.toNat = 0 := by omega
      simp [hp0, this]
    · simp [hp0]

/-- **the text of an amount shows what the code computes**: read without separators it is the
rounded value, it is signed like that value, grouped in threes, with the requested fraction length -/
theorem numShownAs_numToString (r : Renderer) (d : Rat) :
    numShownAs r.round (codeTarget r d) (numToString r d) = true := by
  unfold numShownAs
  rw [stripCommas_numToString, parseDec_showFixed]
  have hs := head_numToString r d
  simp only [groupedOK_numToString, fracOK_numToString, Bool.and_true]
  have e0 : roundPlaces r.round (scaled r d) = codeTarget r d := rfl
  rw [e0]
  simp only [decide_true, Bool.true_and]
  by_cases hneg : codeTarget r d < 0
  · have := hs.mpr hneg
    simp [this, hneg]
  · have : ¬ (numToString r d).head? = some '-' := fun h => hneg (hs.mp h)
    simp [this, hneg]



/-- rounding to `n` places leaves a number with at most `n` decimal places unchanged -/
theorem roundHalfAway_of_eq (n : Nat) (x : Rat) (z : Int) (h : x = mkRat z (10 ^ n)) : roundHalfAway n x = x := by
  have hx : mkRat x.num x.den = mkRat z (10 ^ n) := by rw [Rat.mkRat_self]; exact h
  have hpow : (10 ^ n : Nat) ≠ 0 := Nat.ne_of_gt (Nat.pow_pos (by decide))
  have e := (Rat.mkRat_eq_iff x.den_nz hpow).mp hx
  have hden : (0 : Int) < x.den := by have := x.den_pos; omega
  unfold roundHalfAway scaledRound
  have e' : x.num * pow10 n = z * x.den := by
    unfold pow10; rw [← e]; simp
  simp only [e']
  rw [Int.mul_tdiv_cancel _ (by omega)]
  have : ¬ (2 * (z * (x.den : Int) - z * x.den).natAbs ≥ x.den) := by
    simp; exact x.den_nz
  simp only [this, if_false]
  exact h.symm

theorem intCast_of_den_one (y : Rat) (h : y.den = 1) : y = (y.num : Rat) := by
  have := Rat.mkRat_self y
  rw [h, mkRat_one] at this
  exact this.symm

/-- with at most 13 decimal places, `Div(1000)` is the exact quotient -/
theorem div16_thousand_exact (d : Rat) (h : thousandsExact d = true) : div16 d 1000 = d / 1000 := by
  unfold thousandsExact at h
  have hden : (d * 10 ^ 13).den = 1 := by simpa using h
  have hy := intCast_of_den_one _ hden
  unfold div16
  apply roundHalfAway_of_eq 16 _ (d * 10 ^ 13).num
  rw [Rat.mkRat_eq_div, ← hy]
  have : ((10 ^ 16 : Nat) : Rat) = 10 ^ 16 := by grind
  rw [this]
  grind


end Knut.Table
