import Knut.Proofs.PortfolioPeriods
import Knut.Proofs.PortfolioCalm
import Knut.Properties.C20
/-!
# C20 — the two clauses about the reported returns, PER SINGLE PERIOD of an arbitrary journal

`Properties/C20.lean` proves the clauses under hypotheses that range over the whole run (`…_partial`) or over a list of
linked days.  Here they are proved for ONE period of the partition of `knut portfolio returns`; the other periods — and
everything the journal does in them: price changes, `@performance` annotations, trades against income — are arbitrary.

* `C20_period_line` – the line printed for a (non-empty) period is the chained growth factor of exactly the days of that
  period, minus one; and it is the only line with that date;
* `C20_zero_period_when_only_external_flows` – 0 % for a period in which the prices of the commodities held rest and every
  transaction is plain (external flow, internal transfer, or outside the portfolio);
* `C20_ratio_period_without_flows` – value at the period's end over value at the end of the day before the period, minus
  one, for a period whose transactions stay inside the portfolio (`C20_ratio_period_of_records`: for a period whose day
  records carry no flows); `C20_valueAt_record`: these values are the `V1` of the day records.

All of it is about the exact-arithmetic model (`Rat` instead of `float64`, see `Properties/C20.lean`).
-/
namespace Knut.C20
open Knut Knut.Performance

/-- the run behind a successful `returns` -/
theorem C20_returns_run (f : Flags) (ds : List Directive) (lines : List (Int × Option Rat))
    (h : returns f ds = .ok lines) :
    ∃ part days perfs, setup f ds = .ok (part, days) ∧ perfFrom f.cfg {} days = .ok perfs ∧
      lines = perfLines (perfSpan part) part.endDates (some 1) perfs := by
  unfold returns at h
  cases hs : setup f ds with
  | panic s => rw [hs] at h; cases h
  | error e => rw [hs] at h; cases h
  | ok r =>
    obtain ⟨part, days⟩ := r
    rw [hs] at h; simp only at h
    cases hp : perfFrom f.cfg {} days with
    | error e => rw [hp] at h; cases h
    | ok perfs =>
      rw [hp] at h; simp only at h
      injection h with h
      exact ⟨part, days, perfs, rfl, hp, h.symm⟩

/-- **the line of one period**: for every period `p` of the command's partition that holds a day (`p.start ≤ p.stop`; an
inverted window has one empty period), `returns` prints under `p.stop` the chained growth factor of the days `d` with
`p.start ≤ d ≤ p.stop` — and of no other day — minus one, and no other line carries that date -/
theorem C20_period_line (f : Flags) (ds : List Directive) (lines : List (Int × Option Rat))
    (part : Partition) (days : List Day) (perfs : List DayPerf)
    (h : returns f ds = .ok lines) (hs : setup f ds = .ok (part, days)) (hp : perfFrom f.cfg {} days = .ok perfs)
    (p : Period) (hpp : p ∈ part.periods) (hne : p.start ≤ p.stop) :
    (p.stop, (periodFactor perfs p.start p.stop).map (· - 1)) ∈ lines ∧
    ∀ l ∈ lines, l.1 = p.stop → l.2 = (periodFactor perfs p.start p.stop).map (· - 1) := by
  obtain ⟨part', days', perfs', hs', hp', hl⟩ := C20_returns_run f ds lines h
  rw [hs] at hs'; injection hs' with hs'; injection hs' with e1 e2; subst e1; subst e2
  rw [hp] at hp'; injection hp' with hp'; subst hp'
  have hmem := perfLines_period_line hs hp p hpp hne
  rw [← hl] at hmem
  refine ⟨hmem, ?_⟩
  -- the dates of the lines increase strictly
  obtain ⟨part2, days2, hs2, hev, _⟩ := C20_returns_every_period f ds lines h
  rw [hs] at hs2
  obtain ⟨window, hnp⟩ := (setup_days hs).2.2
  have hinc : List.Pairwise (· < ·) (lines.map (·.1)) := by
    injection hs2 with e; injection e with e1 e2; subst e1; subst e2
    rw [hev]
    exact pairwise_filter_lt _ (endDates_increasing hnp).1
  intro l hl' hd
  rw [List.pairwise_map] at hinc
  rcases pairwise_mem hinc l hl' _ hmem with e | e | e
  · rw [e]
  · simp only at e; omega
  · simp only at e; omega

/-- the record of a day holds the value at the end of that day -/
theorem C20_valueAt_record (perfs : List DayPerf) (hs : List.Pairwise (· < ·) (perfs.map (·.date)))
    (p : DayPerf) (hp : p ∈ perfs) : valueAt perfs p.date = p.v1 := by
  have hds := dsorted_of_dates hs
  have h1 := split_at perfs hds p hp
  unfold valueAt
  generalize hA : perfs.filter (fun q => decide (q.date < p.date)) = A at h1
  generalize hB : perfs.filter (fun q => decide (p.date < q.date)) = B at h1
  have : perfs.filter (fun q => decide (q.date ≤ p.date)) = (A ++ p :: B).filter (fun q => decide (q.date ≤ p.date)) := by
    rw [← h1]
  rw [this, List.filter_append, List.filter_cons]
  have e1 : A.filter (fun q => decide (q.date ≤ p.date)) = A := by
    rw [List.filter_eq_self]
    intro q hq
    rw [← hA, List.mem_filter] at hq
    have : q.date < p.date := by simpa using hq.2
    simp; omega
  have e3 : B.filter (fun q => decide (q.date ≤ p.date)) = [] := by
    rw [List.filter_eq_nil_iff]
    intro q hq
    rw [← hB, List.mem_filter] at hq
    have : p.date < q.date := by simpa using hq.2
    simp; omega
  rw [e1, e3]
  simp only [Int.le_refl, decide_true, if_true]
  rw [lastV1_append]
  rfl

/-- the day at the position of a record, and the days before it -/
theorem record_day {cfg : Cfg} {days : List Day} {perfs : List DayPerf} (hp : perfFrom cfg {} days = .ok perfs)
    (p : DayPerf) (hpm : p ∈ perfs) :
    ∃ (i : Nat) (d : Day), days[i]? = some d ∧ perfs[i]? = some p ∧ d.date = p.date ∧
      days = days.take i ++ d :: days.drop (i + 1) := by
  obtain ⟨i, hi, hpi⟩ := List.getElem_of_mem hpm
  have hlen := perfFrom_length hp
  have hi' : i < days.length := by omega
  refine ⟨i, days[i], by simp [hi'], by simp [hi, hpi], ?_, ?_⟩
  · have hd := perfFrom_dates days {} perfs hp
    have : (perfs.map (·.date))[i]? = (days.map (·.date))[i]? := by rw [hd]
    simp only [List.getElem?_map, List.getElem?_eq_getElem hi, List.getElem?_eq_getElem hi', Option.map_some,
      Option.some.injEq] at this
    rw [← this, hpi]
  · simp

/-- **0 % for a period in which prices rest and only external flows occur.**

For ONE period `p` of the partition of `knut portfolio returns` over an arbitrary journal: if on every day `d` of the
period (`p.start ≤ d ≤ p.stop`)

* every transaction is `Plain` — no `@performance` annotation, postings in mirrored pairs (what the loader builds from
  bookings, `plain_ofBookings`): such a transaction is a deposit/withdrawal between a portfolio account and an account
  outside the portfolio, a transfer inside the portfolio, or does not touch the portfolio;
* the prices rest (`PricesRestOn`, only with `-v`): every commodity other than the valuation commodity of which an
  asset/liability account holds a non-zero quantity at the start of `d` (`heldQty` over the days before `d`) has the same
  price in the valuation commodity after `d`'s price directives as before (`priceAfter`: `ComputePrices` alone);
  prices of commodities not held, and new prices that normalise to the old value, may be declared freely;
  `pricesRest_of_no_prices`: a day without price directives qualifies;

then the line printed for the period is exactly 0 — whatever the days outside the period contain.

Two exclusions, both of them points where the clause FAILS on the code and that are recorded as findings:
`--commodity` must be absent (`ComputeFlows` ignores the filter `ComputeValues` applies: `C20_filtered_flow_counts`), and
no day of the period may divide by zero (`V0 + inflow ≠ 0`: the code prints `NaN`/`±Inf` there, finding
`returns-meaningless-when-start-value-plus-inflow-vanishes`). -/
theorem C20_zero_period_when_only_external_flows (f : Flags) (hf : ∀ c, f.commodityFilter c = true)
    (ds : List Directive) (lines : List (Int × Option Rat)) (part : Partition) (days : List Day) (perfs : List DayPerf)
    (h : returns f ds = .ok lines) (hs : setup f ds = .ok (part, days)) (hp : perfFrom f.cfg {} days = .ok perfs)
    (p : Period) (hpp : p ∈ part.periods) (hne : p.start ≤ p.stop)
    (hperiod : ∀ pre d post, days = pre ++ d :: post → p.start ≤ d.date → d.date ≤ p.stop →
      (∀ t ∈ d.transactions, Plain t) ∧ (∀ v, f.valuation = some v → PricesRestOn v pre d))
    (hden : ∀ q ∈ perfs, p.start ≤ q.date → q.date ≤ p.stop → sumVals q.v0 + q.inflow ≠ 0) :
    (p.stop, some 0) ∈ lines ∧ ∀ l ∈ lines, l.1 = p.stop → l.2 = some 0 := by
  have hone : periodFactor perfs p.start p.stop = some 1 := by
    unfold periodFactor
    apply chain_all_one
    intro q hq
    unfold periodDays at hq
    rw [List.mem_filter] at hq
    simp only [Bool.and_eq_true, decide_eq_true_eq] at hq
    obtain ⟨hqm, hq1, hq2⟩ := hq
    obtain ⟨i, d, hdi, hpi, hdd, hsplit⟩ := record_day hp q hqm
    obtain ⟨hplain, hrest⟩ := hperiod _ d _ hsplit (by omega) (by omega)
    have := perfFrom_local_net_flow (cfg := f.cfg) hf days [] {} perfs (reach_empty _) hp i d q hdi hpi hplain
      (by simpa [Flags.cfg] using hrest)
    exact factor_one_of_net_flow q this.1 this.2 (hden q hqm hq1 hq2)
  have := C20_period_line f ds lines part days perfs h hs hp p hpp hne
  rw [hone] at this
  simpa [Rat.sub_self] using this

/-- **the monitor's form**: `calmPeriodB` (Spec/PortfolioPeriodSpec.lean) is the executable test of the hypotheses — every
transaction of the period un-annotated and made of mirrored posting pairs, and for every position booked so far: not an
asset/liability account, or in the valuation commodity, or of quantity zero, or with the same normalised price after the
day as before.  The driver evaluates `calmPeriods` on every generated case and the harness requires the REAL command to
print 0.0 % for the periods it marks (`zero_period_when_calm`). -/
theorem C20_zero_period_of_monitor (f : Flags) (hf : ∀ c, f.commodityFilter c = true)
    (ds : List Directive) (lines : List (Int × Option Rat)) (part : Partition) (days : List Day) (perfs : List DayPerf)
    (h : returns f ds = .ok lines) (hs : setup f ds = .ok (part, days)) (hp : perfFrom f.cfg {} days = .ok perfs)
    (p : Period) (hpp : p ∈ part.periods) (hne : p.start ≤ p.stop) (hcalm : calmPeriodB f days p = true)
    (hden : ∀ q ∈ perfs, p.start ≤ q.date → q.date ≤ p.stop → sumVals q.v0 + q.inflow ≠ 0) :
    (p.stop, some 0) ∈ lines ∧ ∀ l ∈ lines, l.1 = p.stop → l.2 = some 0 :=
  C20_zero_period_when_only_external_flows f hf ds lines part days perfs h hs hp p hpp hne (calmPeriodB_sound hcalm) hden

/-- **end value over start value minus one, for a period whose day records carry no flows**: the line of period `p` is
`V(p.stop) / V(p.start − 1) − 1`, `V(D)` the total of `valueAt perfs D` — the values `ComputeValues` recorded on the last
day not after `D` (`C20_valueAt_record`; for every period but the first, `p.start − 1` is the previous period end, which
has a day of its own).  `sumVals q.v0 ≠ 0`: the portfolio is worth something at the start of every day of the period. -/
theorem C20_ratio_period_of_records (f : Flags) (ds : List Directive) (lines : List (Int × Option Rat))
    (part : Partition) (days : List Day) (perfs : List DayPerf)
    (h : returns f ds = .ok lines) (hs : setup f ds = .ok (part, days)) (hp : perfFrom f.cfg {} days = .ok perfs)
    (p : Period) (hpp : p ∈ part.periods) (hne : p.start ≤ p.stop)
    (hnf : ∀ q ∈ perfs, p.start ≤ q.date → q.date ≤ p.stop →
      q.portfolioFlows = 0 ∧ q.inflow = 0 ∧ q.outflow = 0 ∧ sumVals q.v0 ≠ 0) :
    (p.stop, some (sumVals (valueAt perfs p.stop) / sumVals (valueAt perfs (p.start - 1)) - 1)) ∈ lines ∧
    ∀ l ∈ lines, l.1 = p.stop →
      l.2 = some (sumVals (valueAt perfs p.stop) / sumVals (valueAt perfs (p.start - 1)) - 1) := by
  obtain ⟨hsorted, hreg, _⟩ := setup_days hs
  have hdates := perfFrom_dates days {} perfs hp
  rw [← hdates] at hsorted hreg
  have hrec : ∃ q ∈ perfs, q.date = p.stop := by
    obtain ⟨q, hq, hqe⟩ := List.mem_map.mp (hreg p.stop (List.mem_map.mpr ⟨p, hpp, rfl⟩))
    exact ⟨q, hq, hqe⟩
  have hr := periodFactor_ratio perfs (perfFrom_linked days {} perfs hp) (dsorted_of_dates hsorted) p.start p.stop hne
    hrec hnf
  have := C20_period_line f ds lines part days perfs h hs hp p hpp hne
  rw [hr] at this
  simpa using this

/-- **end value over start value minus one for a period without flows** (journal-level hypothesis): if every transaction
booked on a day of the period stays inside the portfolio (`Internal`: each posting on a portfolio account has a
portfolio account on the other side — in particular a period without transactions), the line of the period is
`V(p.stop) / V(p.start − 1) − 1`, whatever the prices do (the value adjustments `Valuate` books are attributed to their
own commodity and count as performance, not as flows) and whatever happens in the other periods. -/
theorem C20_ratio_period_without_flows (f : Flags) (ds : List Directive) (lines : List (Int × Option Rat))
    (part : Partition) (days : List Day) (perfs : List DayPerf)
    (h : returns f ds = .ok lines) (hs : setup f ds = .ok (part, days)) (hp : perfFrom f.cfg {} days = .ok perfs)
    (p : Period) (hpp : p ∈ part.periods) (hne : p.start ≤ p.stop)
    (hint : ∀ d ∈ days, p.start ≤ d.date → d.date ≤ p.stop → ∀ t ∈ d.transactions, Internal f.cfg t)
    (hnz : ∀ q ∈ perfs, p.start ≤ q.date → q.date ≤ p.stop → sumVals q.v0 ≠ 0) :
    (p.stop, some (sumVals (valueAt perfs p.stop) / sumVals (valueAt perfs (p.start - 1)) - 1)) ∈ lines ∧
    ∀ l ∈ lines, l.1 = p.stop →
      l.2 = some (sumVals (valueAt perfs p.stop) / sumVals (valueAt perfs (p.start - 1)) - 1) := by
  apply C20_ratio_period_of_records f ds lines part days perfs h hs hp p hpp hne
  intro q hq h1 h2
  obtain ⟨d, hd, ps0, ps1, hday⟩ := perfFrom_mem days {} perfs hp q hq
  have hdd := (perfDay_date hday).1
  obtain ⟨a, b, c⟩ := perfDay_no_flows (hint d hd (by omega) (by omega)) hday
  exact ⟨a, b, c, hnz q hq h1 h2⟩

/-! ### Non-vacuity: a journal of three daily periods

day 1: 100 USD bought at 2 CHF; day 2: USD rises to 2.2 CHF (+10 %); day 3: 50 CHF are deposited and the price of USD is
declared again, at the value it has.  Period 2 is a period without flows (`220 / 200 − 1`), period 3 a period in which the prices
of what is held rest and only a deposit occurs (0 %) — while period 2 is neither calm nor without price changes. -/

def pA : Account := ⟨["Assets", "A"]⟩
def pE : Account := ⟨["Equity", "E"]⟩
def pDs : List Directive :=
  [ .opening ⟨1, pA⟩, .opening ⟨1, pE⟩, .price ⟨1, "USD", 2, "CHF"⟩,
    .tx (Transaction.ofBookings 1 "buy" none [⟨pE, pA, 100, "USD"⟩]),
    .price ⟨2, "USD", 11/5, "CHF"⟩,
    .price ⟨3, "USD", 11/5, "CHF"⟩,
    .tx (Transaction.ofBookings 3 "deposit" none [⟨pE, pA, 50, "CHF"⟩]) ]
def pF : Flags := { valuation := some "CHF", to := 3, interval := .daily }
def pDay1 : Day :=
  { date := 1,
    prices := [⟨1, "USD", 2, "CHF"⟩],
    openings := [⟨1, pA⟩, ⟨1, pE⟩],
    transactions := [Transaction.ofBookings 1 "buy" none [⟨pE, pA, 100, "USD"⟩]] }
def pDay2 : Day := { date := 2, prices := [⟨2, "USD", 11/5, "CHF"⟩] }
def pDay3 : Day :=
  { date := 3,
    prices := [⟨3, "USD", 11/5, "CHF"⟩],
    transactions := [Transaction.ofBookings 3 "deposit" none [⟨pE, pA, 50, "CHF"⟩]] }
def pPart : Partition := ⟨⟨1, 3⟩, .daily, [⟨1, 1⟩, ⟨2, 2⟩, ⟨3, 3⟩]⟩
def pPerfs : List DayPerf :=
  [ ⟨1, [], [("USD", 200)], 200, 0, 0⟩, ⟨2, [("USD", 200)], [("USD", 220)], 0, 0, 0⟩,
    ⟨3, [("USD", 220)], [("USD", 220), ("CHF", 50)], 50, 0, 0⟩ ]
def pLines : List (Int × Option Rat) := [(1, some 0), (2, some (1/10)), (3, some 0)]

theorem p_returns : returns pF pDs = .ok pLines := by decide +kernel
theorem p_setup : setup pF pDs = .ok (pPart, [pDay1, pDay2, pDay3]) := by decide +kernel
theorem p_perfs : perfFrom pF.cfg {} [pDay1, pDay2, pDay3] = .ok pPerfs := by decide +kernel

/-- the positions of a three-day journal -/
theorem p_split {pre post : List Day} {d : Day} (h : [pDay1, pDay2, pDay3] = pre ++ d :: post) :
    (pre = [] ∧ d = pDay1) ∨ (pre = [pDay1] ∧ d = pDay2) ∨ (pre = [pDay1, pDay2] ∧ d = pDay3) := by
  rcases pre with _ | ⟨a, _ | ⟨b, _ | ⟨c, pre⟩⟩⟩
  · simp only [List.nil_append, List.cons.injEq] at h; exact Or.inl ⟨rfl, h.1.symm⟩
  · simp only [List.cons_append, List.nil_append, List.cons.injEq] at h
    exact Or.inr (Or.inl ⟨by rw [h.1], h.2.1.symm⟩)
  · simp only [List.cons_append, List.nil_append, List.cons.injEq] at h
    exact Or.inr (Or.inr ⟨by rw [h.1, h.2.1], h.2.2.1.symm⟩)
  · simp at h

/-- on day 3 a price is declared, but it is the price in force: the prices rest -/
theorem p_rest : PricesRestOn "CHF" [pDay1, pDay2] pDay3 := by
  intro a c _ _ _
  have e2 : normAfter "CHF" [pDay1, pDay2] = some [("USD", 11/5), ("CHF", 1)] := by decide +kernel
  have e3 : normAfter "CHF" ([pDay1, pDay2] ++ [pDay3]) = some [("USD", 11/5), ("CHF", 1)] := by decide +kernel
  unfold priceAfter
  rw [e2, e3]

/-- the hypotheses of `C20_zero_period_when_only_external_flows` hold for period 3 of this journal (and not for period 2,
whose line is 10 %) -/
example : (3, some 0) ∈ pLines ∧ ∀ l ∈ pLines, l.1 = 3 → l.2 = some 0 := by
  apply C20_zero_period_when_only_external_flows pF (fun _ => rfl) pDs pLines pPart [pDay1, pDay2, pDay3] pPerfs
    p_returns p_setup p_perfs ⟨3, 3⟩ (by decide) (by decide)
  · intro pre d post hsplit h1 h2
    rcases p_split hsplit with ⟨_, rfl⟩ | ⟨_, rfl⟩ | ⟨rfl, rfl⟩
    · simp [pDay1] at h1
    · simp [pDay2] at h1
    · refine ⟨?_, ?_⟩
      · intro t ht
        simp only [pDay3, List.mem_singleton] at ht
        subst ht
        exact plain_ofBookings _ _ _
      · intro v hv
        injection hv with hv; subst hv
        exact p_rest
  · decide +kernel

/-- the executable test marks periods 1 and 3 (on day 1 prices are declared, but nothing is held before), not period 2 -/
example : calmPeriods pF pDs = [(1, true), (2, false), (3, true)] := by decide +kernel

/-- the hypotheses of `C20_ratio_period_without_flows` hold for period 2 (no transaction, a price change):
`V(2) / V(1) − 1 = 220 / 200 − 1 = 10 %` -/
example : (2, some (1/10)) ∈ pLines := by
  have h := (C20_ratio_period_without_flows pF pDs pLines pPart [pDay1, pDay2, pDay3] pPerfs
    p_returns p_setup p_perfs ⟨2, 2⟩ (by decide) (by decide)
    (by
      intro d hd h1 h2 t ht
      simp only [List.mem_cons, List.not_mem_nil, or_false] at hd
      rcases hd with rfl | rfl | rfl
      · simp [pDay1] at h1
      · simp [pDay2] at ht
      · simp [pDay3] at h2)
    (by decide +kernel)).1
  have e : sumVals (valueAt pPerfs 2) / sumVals (valueAt pPerfs (2 - 1)) - 1 = 1/10 := by decide +kernel
  simp only at h
  rw [e] at h
  exact h

/-- `C20_period_line` for the same journal: the factor of period 2 is 11/10 -/
example : periodFactor pPerfs 2 2 = some (11/10) ∧ periodFactor pPerfs 3 3 = some 1 := by decide +kernel

/-- a transfer between two portfolio accounts is `Internal`, a deposit from equity is not -/
example : Internal {} (Transaction.ofBookings 1 "move" none [⟨pA, ⟨["Assets", "B"]⟩, 5, "USD"⟩]) ∧
    ¬ Internal {} (Transaction.ofBookings 1 "deposit" none [⟨pE, pA, 5, "USD"⟩]) := by
  constructor
  · intro p hp _
    simp [Transaction.ofBookings, postingBuild] at hp
    rcases hp with rfl | rfl <;> decide
  · intro h
    have := h ⟨pA, pE, "USD", 5, 0⟩ (by simp [Transaction.ofBookings, postingBuild]; decide) (by decide)
    revert this
    decide

end Knut.C20
