import Knut.Model.Prices
/-!
# Specification of C12 — derived prices are consistent with declared prices

Everything here is stated over the *declarations* (what the journal says) and an observed table of
normalised prices `N` (what `Prices.Normalize(V)` answers through `NormalizedPrices.Price`), never
over the internal price map.  `priceOK` is the executable predicate the monitor evaluates on the
real code's output; `Proofs/PricesSpec.lean` shows what it means (`priceOK_sound`) and
`Properties/C12.lean` that the model satisfies it for every input.
-/
namespace Knut.Spec
open Knut Knut.Prices

/-- the most recent declaration of the unordered pair `{a, b}`, read as the price of `b` in `a`:
the declared price if it was declared as `price b … a`, the truncated reciprocal
`Truncate(8)(1 / p)` if it was declared the other way round.  Later declarations win. -/
def latest : List Decl → Commodity → Commodity → Option Rat
  | [], _, _ => none
  | d :: ds, a, b =>
    match latest ds a b with
    | some x => some x
    | none =>
      if a = d.commodity ∧ b = d.target then some (recip d.price)
      else if a = d.target ∧ b = d.commodity then some d.price
      else none

/-- follow a chain of commodities from `cur` (whose price is `x`), multiplying by the price of each
next commodity in the previous one, truncated to 8 decimals per step (`price.Multiply`).
Result: the commodity reached and its price; `none` if some step has no declared price. -/
def chainFrom (e : Commodity → Commodity → Option Rat) (cur : Commodity) (x : Rat) :
    List Commodity → Option (Commodity × Rat)
  | [] => some (cur, x)
  | n :: rest =>
    match e cur n with
    | none => none
    | some p => chainFrom e n (multiply p x) rest

/-- `c` is connected to `v` by declarations -/
inductive Connected (e : Commodity → Commodity → Option Rat) (v : Commodity) : Commodity → Prop
  | refl : Connected e v v
  | step {a b : Commodity} : Connected e v a → (e a b).isSome → Connected e v b

/-- all commodities named by the declarations (each once) -/
def declNames (decls : List Decl) : List Commodity := (decls.flatMap (fun d => [d.commodity, d.target])).eraseDups

/-- bounded search for a simple chain from `cur` (price `x`, already visited: `vis`) to `tgt` that
yields exactly the price `y` -/
def reach (e : Commodity → Commodity → Option Rat) (univ : List Commodity) (tgt : Commodity) (y : Rat) :
    Nat → List Commodity → Commodity → Rat → Bool
  | 0, _, cur, x => decide (cur = tgt) && decide (x = y)
  | fuel + 1, vis, cur, x =>
    (decide (cur = tgt) && decide (x = y)) ||
    univ.any (fun n => !vis.contains n &&
      match e cur n with
      | some p => reach e univ tgt y fuel (n :: vis) n (multiply p x)
      | none => false)

/-- clause 1: the valuation commodity has price 1 -/
def selfOK (v : Commodity) (N : NPrices) : Bool := find v N == some 1

/-- clause 2: a commodity whose pair with `v` is declared has the latest declared price
(`Multiply(p, 1)`, i.e. `p` cut to 8 decimals) -/
def directOK (e : Commodity → Commodity → Option Rat) (univ : List Commodity) (v : Commodity) (N : NPrices) : Bool :=
  univ.all (fun c => decide (c = v) ||
    match e v c with
    | some p => find c N == some (multiply p 1)
    | none => true)

/-- clause 3: every price in the table is the truncated product along some chain from `v` -/
def chainOK (e : Commodity → Commodity → Option Rat) (univ : List Commodity) (v : Commodity) (N : NPrices) : Bool :=
  (keys N).all (fun c =>
    match find c N with
    | some x => reach e univ c x N.length [v] v 1
    | none => false)

/-- clause 4: the table is closed under declarations, so (with clause 3) a commodity has a price
exactly if it is connected to `v` -/
def closedOK (e : Commodity → Commodity → Option Rat) (univ : List Commodity) (N : NPrices) : Bool :=
  (keys N).all (fun c => univ.all (fun n => !(e c n).isSome || (find n N).isSome))

/-- **the property predicate of C12** over the declarations (in insertion order), the valuation
commodity and the observed price table -/
def priceOK (decls : List Decl) (v : Commodity) (N : NPrices) : Bool :=
  let e := latest decls
  let univ := v :: declNames decls
  selfOK v N && directOK e univ v N && chainOK e univ v N && closedOK e univ N

/-- the expected outcome of valuing amount `a` of `c`: an error exactly when `c` has no price -/
def valuateOK (N : NPrices) (c : Commodity) (a : Rat) (res : Option Rat) : Bool :=
  match find c N with
  | none => res.isNone
  | some p => res == some (multiply a p)

/-- zero prices are rejected, everything else is accepted -/
def insertOK (decls : List Decl) (accepted : Bool) : Bool :=
  accepted == decls.all (fun d => decide (d.price ≠ 0))

end Knut.Spec
